import OFCore.Equivariance
import OFCore.Lemmas.Group
import OFCore.Lemmas.EngineRanked
import OFCore.Props.C01
/-!
# Lemmas for C11 (core Lean only)

1. A general simulation theorem at node level (`den_sim`): two systems whose formulas are related
   expression by expression (same reads, transformed constants, operations that commute with a
   sort-indexed transformation `T` of value vectors on vectors satisfying a sort-indexed invariant
   `I`), with transformed inputs / defaults, commuting casts and the same armed faults, have
   meanings related by `T` — at every fuel, including exhaustion and errors.
2. List lemmas: `reindex` commutes with pointwise operations, with the sum over the members of each
   group and with the projection onto persons, for a closed selection.
3. The instantiation: `elabSys (restrict d sel gsel)` is such a transform of `elabSys d`.
-/
set_option linter.unusedSimpArgs false
set_option linter.unusedVariables false
set_option linter.unusedSectionVars false

namespace OFCore.Engine
open OFCore.Equivariance

variable {P : Type} [DecidableEq P] {S : Type}

/-- expression-by-expression relation of two formulas, with sorts: every sub-expression has a sort
    `s`; its value `x` on the left satisfies `I s x` and its value on the right is `T s x` -/
inductive ERel (a b : Sys P) (srt : Nat → S) (T : S → Val → Val) (I : S → Val → Prop) :
    S → Expr P → Expr P → Prop
  | const (s : S) (c c' : Val) : I s c → c' = T s c → ERel a b srt T I s (.const c) (.const c')
  | bad (s : S) : ERel a b srt T I s .bad .bad
  | ref (s : S) (v : Nat) (p : P) : s = srt v → ERel a b srt T I s (.ref v p) (.ref v p)
  | fail (s : S) (id : Nat) (e e' : Expr P) : ERel a b srt T I s e e' →
      ERel a b srt T I s (.fail id e) (.fail id e')
  | op1 (s s1 : S) (o : Nat) (e e' : Expr P) : ERel a b srt T I s1 e e' →
      (∀ x, I s1 x → I s (a.f1 o x) ∧ b.f1 o (T s1 x) = T s (a.f1 o x)) →
      ERel a b srt T I s (.op1 o e) (.op1 o e')
  | op2 (s : S) (o : Nat) (e e' g g' : Expr P) : ERel a b srt T I s e e' → ERel a b srt T I s g g' →
      (∀ x y, I s x → I s y → I s (a.f2 o x y) ∧ b.f2 o (T s x) (T s y) = T s (a.f2 o x y)) →
      ERel a b srt T I s (.op2 o e g) (.op2 o e' g')

/-- system `b` is the `T`-transform of system `a` -/
structure Sim (a b : Sys P) (srt : Nat → S) (T : S → Val → Val) (I : S → Val → Prop) : Prop where
  input : ∀ v p, b.input v p = (a.input v p).map (T (srt v))
  inputI : ∀ v p x, a.input v p = some x → I (srt v) x
  formulaN : ∀ v p, a.formula v p = none → b.formula v p = none
  formulaS : ∀ v p e, a.formula v p = some e → ∃ e', b.formula v p = some e' ∧ ERel a b srt T I (srt v) e e'
  dfltI : ∀ v, I (srt v) (a.post v (a.dflt v))
  dflt : ∀ v, b.post v (b.dflt v) = T (srt v) (a.post v (a.dflt v))
  postI : ∀ v x, I (srt v) x → I (srt v) (a.post v x)
  post : ∀ v x, I (srt v) x → b.post v (T (srt v) x) = T (srt v) (a.post v x)
  armed : ∀ id, b.armed id = a.armed id

theorem denE_sim_step {a b : Sys P} {srt : Nat → S} {T : S → Val → Val} {I : S → Val → Prop}
    (harm : ∀ id, b.armed id = a.armed id) (n : Nat)
    (ih : ∀ v p, den b n v p = (den a n v p).map (mapRes (T (srt v))) ∧
                 ∀ x, den a n v p = some (.ok x) → I (srt v) x) :
    ∀ s e e', ERel a b srt T I s e e' →
      denE b n e' = (denE a n e).map (mapRes (T s)) ∧ ∀ x, denE a n e = some (.ok x) → I s x := by
  intro s e e' h
  induction h with
  | const s c c' hI hc =>
    subst hc
    refine ⟨by simp [denE, mapRes], ?_⟩
    intro x hx; simp only [denE, Option.some.injEq, Except.ok.injEq] at hx; subst hx; exact hI
  | bad s => exact ⟨by simp [denE, mapRes], by intro x hx; simp [denE] at hx⟩
  | ref s v p hs => subst hs; simp only [denE]; exact ih v p
  | fail s id e e' _ ihe =>
    simp only [denE, harm]
    by_cases ha : a.armed id = true
    · simp only [ha, if_true]
      exact ⟨by simp [mapRes], by intro x hx; simp at hx⟩
    · simp only [ha, if_false]; exact ihe
  | op1 s s1 o e e' _ hop ihe =>
    obtain ⟨h1, h2⟩ := ihe
    simp only [denE, h1]
    cases hr : denE a n e with
    | none => exact ⟨by simp, by intro x hx; simp at hx⟩
    | some r =>
      cases r with
      | error er => exact ⟨by simp [mapRes], by intro x hx; simp at hx⟩
      | ok x =>
        obtain ⟨k1, k2⟩ := hop x (h2 x hr)
        refine ⟨by simp [mapRes, k2], ?_⟩
        intro y hy; simp only [Option.some.injEq, Except.ok.injEq] at hy; subst hy; exact k1
  | op2 s o e e' g g' _ _ hop ihe ihg =>
    obtain ⟨h1, h2⟩ := ihe
    obtain ⟨g1, g2⟩ := ihg
    simp only [denE, h1, g1]
    cases hr : denE a n e with
    | none => exact ⟨by simp, by intro x hx; simp at hx⟩
    | some r =>
      cases r with
      | error er => exact ⟨by simp [mapRes], by intro x hx; simp at hx⟩
      | ok x =>
        cases hq : denE a n g with
        | none => exact ⟨by simp [mapRes], by intro x hx; simp at hx⟩
        | some q =>
          cases q with
          | error er => exact ⟨by simp [mapRes], by intro x hx; simp at hx⟩
          | ok y =>
            obtain ⟨k1, k2⟩ := hop x y (h2 x hr) (g2 y hq)
            refine ⟨by simp [mapRes, k2], ?_⟩
            intro z hz; simp only [Option.some.injEq, Except.ok.injEq] at hz; subst hz; exact k1

/-- the meaning of the transformed system is the transform of the meaning, at every fuel -/
theorem den_sim {a b : Sys P} {srt : Nat → S} {T : S → Val → Val} {I : S → Val → Prop}
    (h : Sim a b srt T I) : ∀ n v p,
    den b n v p = (den a n v p).map (mapRes (T (srt v))) ∧ ∀ x, den a n v p = some (.ok x) → I (srt v) x := by
  intro n
  induction n with
  | zero => intro v p; exact ⟨by simp [den], by intro x hx; simp [den] at hx⟩
  | succ n ih =>
    intro v p
    have hE := denE_sim_step h.armed n ih
    unfold den
    rw [h.input v p]
    cases hin : a.input v p with
    | some x =>
      refine ⟨by simp [mapRes], ?_⟩
      intro y hy; simp only [Option.some.injEq, Except.ok.injEq] at hy; subst hy; exact h.inputI v p x hin
    | none =>
      simp only [Option.map_none]
      cases hf : a.formula v p with
      | none =>
        rw [h.formulaN v p hf]
        refine ⟨by simp [mapRes, h.dflt v], ?_⟩
        intro y hy; simp only [Option.some.injEq, Except.ok.injEq] at hy; subst hy; exact h.dfltI v
      | some e =>
        obtain ⟨e', hf', hrel⟩ := h.formulaS v p e hf
        rw [hf']
        obtain ⟨h1, h2⟩ := hE _ e e' hrel
        simp only [h1]
        cases hr : denE a n e with
        | none => exact ⟨by simp, by intro x hx; simp at hx⟩
        | some r =>
          cases r with
          | error er => exact ⟨by simp [mapRes], by intro x hx; simp at hx⟩
          | ok x =>
            have hx := h2 x hr
            refine ⟨by simp [mapRes, h.post v x hx], ?_⟩
            intro y hy; simp only [Option.some.injEq, Except.ok.injEq] at hy; subst hy; exact h.postI v x hx

/-- related expressions read the same nodes -/
theorem ERel.refs_eq {a b : Sys P} {srt : Nat → S} {T : S → Val → Val} {I : S → Val → Prop}
    {s : S} {e e' : Expr P} (h : ERel a b srt T I s e e') : refs e' = refs e := by
  induction h with
  | const => rfl
  | bad => rfl
  | ref => rfl
  | fail _ _ _ _ _ ih => simpa [refs] using ih
  | op1 _ _ _ _ _ _ _ ih => simpa [refs] using ih
  | op2 _ _ _ _ _ _ _ _ _ ih1 ih2 => simp [refs, ih1, ih2]

/-- the transform of a variable-ranked system is variable-ranked (same rank) -/
theorem Sim.varRanked {a b : Sys P} {srt : Nat → S} {T : S → Val → Val} {I : S → Val → Prop}
    (h : Sim a b srt T I) (rk : Nat → Nat) (hr : VarRanked a rk) : VarRanked b rk := by
  intro v p e' hf' k hk
  cases hf : a.formula v p with
  | none => rw [h.formulaN v p hf] at hf'; cases hf'
  | some e =>
    obtain ⟨e'', hf'', hrel⟩ := h.formulaS v p e hf
    rw [hf''] at hf'; injection hf' with hf'; subst hf'
    rw [hrel.refs_eq] at hk
    exact hr v p e hf k hk

end OFCore.Engine

namespace OFCore.Equivariance
open OFCore OFCore.Engine OFCore.RuleSys

/-! ## reindexing -/

theorem reindex_length (l : List Nat) (x : Val) : (reindex l x).length = l.length := by
  simp [reindex]

theorem getD_map_lt (f : Int → Int) (x : Val) (i : Nat) (h : i < x.length) :
    (x.map f).getD i 0 = f (x.getD i 0) := by
  simp [List.getD_eq_getElem?_getD, List.getElem?_map, List.getElem?_eq_getElem h]

theorem reindex_map (f : Int → Int) (l : List Nat) (x : Val) (h : ∀ i ∈ l, i < x.length) :
    reindex l (x.map f) = (reindex l x).map f := by
  simp only [reindex, List.map_map]
  apply List.map_congr_left
  intro i hi
  simp only [Function.comp]
  exact getD_map_lt f x i (h i hi)

theorem getD_zipWith_lt (f : Int → Int → Int) (x y : Val) (i : Nat) (hx : i < x.length) (hy : i < y.length) :
    (List.zipWith f x y).getD i 0 = f (x.getD i 0) (y.getD i 0) := by
  simp [List.getD_eq_getElem?_getD, List.getElem?_zipWith, List.getElem?_eq_getElem hx, List.getElem?_eq_getElem hy]

theorem reindex_zipWith (f : Int → Int → Int) (l : List Nat) (x y : Val)
    (hx : ∀ i ∈ l, i < x.length) (hy : ∀ i ∈ l, i < y.length) :
    reindex l (List.zipWith f x y) = List.zipWith f (reindex l x) (reindex l y) := by
  induction l with
  | nil => simp [reindex]
  | cons i l ih =>
    have ih' := ih (fun j hj => hx j (List.mem_cons_of_mem _ hj)) (fun j hj => hy j (List.mem_cons_of_mem _ hj))
    simp only [reindex, List.map_cons, List.zipWith_cons_cons] at ih' ⊢
    rw [ih', getD_zipWith_lt f x y i (hx i List.mem_cons_self) (hy i List.mem_cons_self)]

theorem reindex_replicate (l : List Nat) (n : Nat) (k : Int) (h : ∀ i ∈ l, i < n) :
    reindex l (List.replicate n k) = List.replicate l.length k := by
  induction l with
  | nil => simp [reindex]
  | cons i l ih =>
    have ih' := ih (fun j hj => h j (List.mem_cons_of_mem _ hj))
    have hi := h i List.mem_cons_self
    simp only [reindex, List.map_cons, List.length_cons, List.replicate_succ] at ih' ⊢
    rw [ih']
    simp [List.getD_eq_getElem?_getD, List.getElem?_replicate, hi]

/-- reading all positions in order gives the vector back -/
theorem reindex_range (x : Val) : reindex (List.range x.length) x = x := by
  apply List.ext_getElem
  · simp [reindex]
  · intro i h1 h2
    simp [reindex, List.getD_eq_getElem?_getD, List.getElem?_eq_getElem h2]

/-! ## positions in the list of kept groups -/

theorem posIn_lt : ∀ (l : List Nat) (g : Nat), g ∈ l → posIn l g < l.length
  | [], g, h => by cases h
  | a :: r, g, h => by
    unfold posIn
    by_cases hag : a = g
    · simp [hag]
    · rw [if_neg hag]
      have : g ∈ r := by
        rcases List.mem_cons.1 h with h | h
        · exact absurd h.symm hag
        · exact h
      have := posIn_lt r g this
      simp only [List.length_cons]; omega

theorem getD_posIn : ∀ (l : List Nat) (g : Nat), g ∈ l → l.getD (posIn l g) 0 = g
  | [], g, h => by cases h
  | a :: r, g, h => by
    unfold posIn
    by_cases hag : a = g
    · simp [hag]
    · rw [if_neg hag]
      have : g ∈ r := by
        rcases List.mem_cons.1 h with h | h
        · exact absurd h.symm hag
        · exact h
      have := getD_posIn r g this
      simpa [List.getD_eq_getElem?_getD] using this

theorem posIn_getD : ∀ (l : List Nat) (j : Nat), l.Nodup → j < l.length → posIn l (l.getD j 0) = j
  | [], j, _, h => by simp at h
  | a :: r, 0, _, _ => by simp [posIn]
  | a :: r, j+1, hn, h => by
    have hn' := List.nodup_cons.1 hn
    have hj : j < r.length := by simpa using h
    have hmem : r.getD j 0 ∈ r := by
      simp [List.getD_eq_getElem?_getD, List.getElem?_eq_getElem hj]
    have hne : a ≠ r.getD j 0 := fun heq => hn'.1 (heq ▸ hmem)
    have : (a :: r).getD (j+1) 0 = r.getD j 0 := by simp [List.getD_eq_getElem?_getD]
    rw [this]
    unfold posIn
    rw [if_neg hne, posIn_getD r j hn'.2 hj]

/-- the entity stored at index `i` of the whole is read back at its position in the part -/
theorem reindex_getD_posIn (l : List Nat) (x : Val) (i : Nat) (hi : i ∈ l) :
    (reindex l x).getD (posIn l i) 0 = x.getD i 0 := by
  have hlt := posIn_lt l i hi
  have hget := getD_posIn l i hi
  unfold reindex
  rw [List.getD_eq_getElem?_getD, List.getElem?_map, List.getElem?_eq_getElem hlt]
  rw [List.getD_eq_getElem?_getD, List.getElem?_eq_getElem hlt] at hget
  simp only [Option.getD_some] at hget
  simp only [Option.map_some, Option.getD_some, hget]

/-- for a kept group, "its position is `j`" and "it is the `j`-th kept group" are the same -/
theorem posIn_eq_iff (l : List Nat) (hn : l.Nodup) (g j : Nat) (hg : g ∈ l) (hj : j < l.length) :
    posIn l g = j ↔ g = l.getD j 0 := by
  constructor
  · intro h; rw [← h, getD_posIn l g hg]
  · intro h; rw [h, posIn_getD l j hn hj]

/-- the sum over the members of group `g`, as in `f1 d 1` -/
def grpSum (mem : List Nat) (x : Val) (g : Nat) : Int :=
  ((mem.zip x).filter (fun m => m.1 = g)).foldl (fun acc m => acc + m.2) 0

/-- the same sum, written over person indices -/
def idxSum (mem : List Nat) (x : Val) (l : List Nat) (g : Nat) : Int :=
  (l.filter (fun i => mem.getD i 0 = g)).foldl (fun acc i => acc + x.getD i 0) 0

theorem zip_eq_range (mem : List Nat) (x : Val) (h : x.length = mem.length) :
    mem.zip x = (List.range mem.length).map (fun i => (mem.getD i 0, x.getD i 0)) := by
  apply List.ext_getElem
  · simp [h]
  · intro i h1 h2
    have hm : i < mem.length := by simp at h2; exact h2
    have hx : i < x.length := by omega
    simp [List.getD_eq_getElem?_getD, List.getElem?_eq_getElem hm, List.getElem?_eq_getElem hx]

theorem grpSum_eq_idxSum (mem : List Nat) (x : Val) (h : x.length = mem.length) (g : Nat) :
    grpSum mem x g = idxSum mem x (List.range mem.length) g := by
  unfold grpSum idxSum
  rw [zip_eq_range mem x h, List.filter_map, List.foldl_map]
  rfl

theorem zip_map_same {α β : Type} (l : List Nat) (f : Nat → α) (g : Nat → β) :
    (l.map f).zip (l.map g) = l.map (fun i => (f i, g i)) := by
  induction l with
  | nil => rfl
  | cons a l ih => simp [ih]


theorem idxSum_perm (mem : List Nat) (x : Val) (l l' : List Nat) (g : Nat)
    (hp : (l.filter (fun i => mem.getD i 0 = g)).Perm (l'.filter (fun i => mem.getD i 0 = g))) :
    idxSum mem x l g = idxSum mem x l' g := by
  unfold idxSum
  apply List.Perm.foldl_eq' hp
  intro a _ b _ z
  omega

/-- the members of a kept group, read off the selection, are the members read off the whole
    population, up to order -/
theorem closed_filter_perm (d : Decl) (sel gsel : List Nat) (hcl : Closed d sel gsel) (g : Nat) (hg : g ∈ gsel) :
    (sel.filter (fun i => d.mem.getD i 0 = g)).Perm ((List.range d.nP).filter (fun i => d.mem.getD i 0 = g)) := by
  obtain ⟨hs, _, hns, _, hc⟩ := hcl
  rw [List.perm_ext_iff_of_nodup (hns.sublist List.filter_sublist) (List.nodup_range.sublist List.filter_sublist)]
  intro i
  simp only [List.mem_filter, List.mem_range, decide_eq_true_eq]
  constructor
  · rintro ⟨h1, h2⟩; exact ⟨hs i h1, h2⟩
  · rintro ⟨h1, h2⟩; exact ⟨(hc i h1).2 (h2 ▸ hg), h2⟩

theorem grpSum_restrict (d : Decl) (sel gsel : List Nat) (hm : d.mem.length = d.nP) (hcl : Closed d sel gsel)
    (x : Val) (hx : x.length = d.nP) (j : Nat) (hj : j < gsel.length) :
    grpSum (sel.map (fun i => posIn gsel (d.mem.getD i 0))) (reindex sel x) j = grpSum d.mem x (gsel.getD j 0) := by
  have hgj : gsel.getD j 0 ∈ gsel := by
    simp [List.getD_eq_getElem?_getD, List.getElem?_eq_getElem hj]
  rw [grpSum_eq_idxSum d.mem x (by omega), hm,
    ← idxSum_perm d.mem x sel (List.range d.nP) _ (closed_filter_perm d sel gsel hcl _ hgj)]
  unfold grpSum idxSum reindex
  rw [zip_map_same, List.filter_map, List.foldl_map]
  have : sel.filter ((fun m : Nat × Int => decide (m.1 = j)) ∘ fun i => (posIn gsel (d.mem.getD i 0), x.getD i 0))
       = sel.filter (fun i => decide (d.mem.getD i 0 = gsel.getD j 0)) := by
    apply List.filter_congr
    intro i hi
    have hig : d.mem.getD i 0 ∈ gsel := (hcl.2.2.2.2 i (hcl.1 i hi)).1 hi
    simp only [Function.comp]
    rw [decide_eq_decide]
    exact posIn_eq_iff gsel hcl.2.2.2.1 _ j hig hj
  rw [this]


theorem getD_of_lt (l : List Nat) (k : Nat) (h : k < l.length) : l.getD k 0 = l[k] := by
  simp [List.getD_eq_getElem?_getD, List.getElem?_eq_getElem h]

theorem map_getD_range (l : List Nat) : (List.range l.length).map (fun k => l.getD k 0) = l := by
  apply List.ext_getElem
  · simp
  · intro i h1 h2
    simp [List.getD_eq_getElem?_getD, List.getElem?_eq_getElem h2]

theorem getD_map_nat {α : Type} (f : Nat → α) (dflt : α) (l : List Nat) (k : Nat) (h : k < l.length) :
    (l.map f).getD k dflt = f (l.getD k 0) := by
  simp [List.getD_eq_getElem?_getD, List.getElem?_map, List.getElem?_eq_getElem h]

/-- summing over the positions of an index list = summing over its elements -/
theorem positions_to_elements (l : List Nat) (P : Nat → Bool) (f : Nat → Int) (Q : Nat → Bool) (f' : Nat → Int)
    (hQ : ∀ k, k < l.length → Q k = P (l.getD k 0)) (hf : ∀ k, k < l.length → f' k = f (l.getD k 0)) :
    ((List.range l.length).filter Q).map f' = (l.filter P).map f := by
  have h1 : (List.range l.length).filter Q = (List.range l.length).filter (P ∘ fun k => l.getD k 0) := by
    apply List.filter_congr
    intro k hk
    exact hQ k (List.mem_range.1 hk)
  have h2 : ((List.range l.length).filter Q).map f' = ((List.range l.length).filter Q).map (f ∘ fun k => l.getD k 0) := by
    apply List.map_congr_left
    intro k hk
    exact hf k (List.mem_range.1 (List.mem_filter.1 hk).1)
  rw [h2, h1, ← List.map_map, ← List.filter_map, map_getD_range]


/-- the values at the holders of a kept group, read in the part alone, are the values read in
    the whole population, up to order -/
theorem holderVals_perm (d : Decl) (sel gsel : List Nat) (hm : d.mem.length = d.nP) (hcl : Closed d sel gsel)
    (r : Nat) (x : Val) (j : Nat) (hj : j < gsel.length) :
    (holderVals (restrict d sel gsel) r (reindex sel x) j).Perm (holderVals d r x (gsel.getD j 0)) := by
  have hgj : gsel.getD j 0 ∈ gsel := by
    simp [List.getD_eq_getElem?_getD, List.getElem?_eq_getElem hj]
  unfold holderVals
  have hlen : (restrict d sel gsel).mem.length = sel.length := by simp [restrict]
  rw [hlen, hm]
  have hpos := positions_to_elements sel
    (fun i => decide (d.mem.getD i 0 = gsel.getD j 0 ∧ roleMatch r (d.roles.getD i 0) = true)) (fun i => x.getD i 0)
    (fun k => decide ((restrict d sel gsel).mem.getD k 0 = j ∧ roleMatch r ((restrict d sel gsel).roles.getD k 0) = true))
    (fun k => (reindex sel x).getD k 0) ?_ ?_
  · rw [hpos]
    apply List.Perm.map
    have h := List.Perm.filter (fun i => roleMatch r (d.roles.getD i 0))
      (closed_filter_perm d sel gsel hcl _ hgj)
    rw [List.filter_filter, List.filter_filter] at h
    have e : (fun i => roleMatch r (d.roles.getD i 0) && decide (d.mem.getD i 0 = gsel.getD j 0))
        = (fun i => decide (d.mem.getD i 0 = gsel.getD j 0 ∧ roleMatch r (d.roles.getD i 0) = true)) := by
      funext i
      by_cases h1 : d.mem.getD i 0 = gsel.getD j 0 <;> cases hq : roleMatch r (d.roles.getD i 0) <;> simp [h1, hq]
    rw [e] at h
    exact h
  · intro k hk
    have hmem : sel.getD k 0 ∈ sel := by rw [getD_of_lt sel k hk]; exact List.getElem_mem hk
    have hig : d.mem.getD (sel.getD k 0) 0 ∈ gsel := (hcl.2.2.2.2 _ (hcl.1 _ hmem)).1 hmem
    have e1 : (restrict d sel gsel).mem.getD k 0 = posIn gsel (d.mem.getD (sel.getD k 0) 0) := by
      simp only [restrict]; exact getD_map_nat _ 0 sel k hk
    have e2 : (restrict d sel gsel).roles.getD k 0 = d.roles.getD (sel.getD k 0) 0 := by
      simp only [restrict]; exact getD_map_nat _ 0 sel k hk
    rw [e1, e2, decide_eq_decide, posIn_eq_iff gsel hcl.2.2.2.1 _ j hig hj]
  · intro k hk
    unfold reindex
    exact getD_map_nat _ 0 sel k hk

theorem roleSum_eq (d : Decl) (r : Nat) (x : Val) (g : Nat) :
    roleSum d r x g = (holderVals d r x g).foldl (· + ·) 0 := rfl

/-- the role-filtered sum of a kept group, computed in the part alone, is the one computed in the
    whole population -/
theorem roleSum_restrict (d : Decl) (sel gsel : List Nat) (hm : d.mem.length = d.nP) (hcl : Closed d sel gsel)
    (r : Nat) (x : Val) (j : Nat) (hj : j < gsel.length) :
    roleSum (restrict d sel gsel) r (reindex sel x) j = roleSum d r x (gsel.getD j 0) := by
  rw [roleSum_eq, roleSum_eq]
  apply List.Perm.foldl_eq' (holderVals_perm d sel gsel hm hcl r x j hj)
  intro a _ b _ z
  omega

/-! ## the reductions do not depend on the order of their operands -/

theorem foldl_max_spec : ∀ (t : List Int) (a : Int), t.foldl max a ∈ a :: t ∧ ∀ y ∈ a :: t, y ≤ t.foldl max a
  | [], a => by simp
  | b :: t, a => by
    obtain ⟨h1, h2⟩ := foldl_max_spec t (max a b)
    simp only [List.foldl_cons]
    constructor
    · rcases List.mem_cons.1 h1 with h | h
      · rw [h]
        rcases Int.le_total a b with hab | hab
        · rw [Int.max_eq_right hab]; simp
        · rw [Int.max_eq_left hab]; simp
      · exact List.mem_cons_of_mem _ (List.mem_cons_of_mem _ h)
    · intro y hy
      have hm := h2 (max a b) List.mem_cons_self
      rcases List.mem_cons.1 hy with h | h
      · rw [h]; exact Int.le_trans (Int.le_max_left a b) hm
      · rcases List.mem_cons.1 h with h | h
        · rw [h]; exact Int.le_trans (Int.le_max_right a b) hm
        · exact h2 y (List.mem_cons_of_mem _ h)

theorem foldl_min_spec : ∀ (t : List Int) (a : Int), t.foldl min a ∈ a :: t ∧ ∀ y ∈ a :: t, t.foldl min a ≤ y
  | [], a => by simp
  | b :: t, a => by
    obtain ⟨h1, h2⟩ := foldl_min_spec t (min a b)
    simp only [List.foldl_cons]
    constructor
    · rcases List.mem_cons.1 h1 with h | h
      · rw [h]
        rcases Int.le_total a b with hab | hab
        · rw [Int.min_eq_left hab]; simp
        · rw [Int.min_eq_right hab]; simp
      · exact List.mem_cons_of_mem _ (List.mem_cons_of_mem _ h)
    · intro y hy
      have hm := h2 (min a b) List.mem_cons_self
      rcases List.mem_cons.1 hy with h | h
      · rw [h]; exact Int.le_trans hm (Int.min_le_left a b)
      · rcases List.mem_cons.1 h with h | h
        · rw [h]; exact Int.le_trans hm (Int.min_le_right a b)
        · exact h2 y (List.mem_cons_of_mem _ h)

/-- the greatest element: attained, and an upper bound -/
theorem listMax_spec (l : List Int) (hne : l ≠ []) : listMax l ∈ l ∧ ∀ y ∈ l, y ≤ listMax l := by
  cases l with
  | nil => exact absurd rfl hne
  | cons a t => exact foldl_max_spec t a

theorem listMin_spec (l : List Int) (hne : l ≠ []) : listMin l ∈ l ∧ ∀ y ∈ l, listMin l ≤ y := by
  cases l with
  | nil => exact absurd rfl hne
  | cons a t => exact foldl_min_spec t a

theorem perm_ne_nil {l l' : List Int} (hp : l.Perm l') (h : l ≠ []) : l' ≠ [] := by
  intro h'
  have := hp.length_eq
  rw [h'] at this
  exact h (List.length_eq_zero_iff.1 this)

theorem listMax_perm {l l' : List Int} (hp : l.Perm l') : listMax l = listMax l' := by
  by_cases h : l = []
  · subst h
    have : l' = [] := List.length_eq_zero_iff.1 hp.length_eq.symm
    rw [this]
  · have h' := perm_ne_nil hp h
    obtain ⟨a1, a2⟩ := listMax_spec l h
    obtain ⟨b1, b2⟩ := listMax_spec l' h'
    exact Int.le_antisymm (b2 _ (hp.mem_iff.1 a1)) (a2 _ (hp.mem_iff.2 b1))

theorem listMin_perm {l l' : List Int} (hp : l.Perm l') : listMin l = listMin l' := by
  by_cases h : l = []
  · subst h
    have : l' = [] := List.length_eq_zero_iff.1 hp.length_eq.symm
    rw [this]
  · have h' := perm_ne_nil hp h
    obtain ⟨a1, a2⟩ := listMin_spec l h
    obtain ⟨b1, b2⟩ := listMin_spec l' h'
    exact Int.le_antisymm (a2 _ (hp.mem_iff.2 b1)) (b2 _ (hp.mem_iff.1 a1))

theorem listAll_perm {l l' : List Int} (hp : l.Perm l') : listAll l = listAll l' := by
  unfold listAll
  have : l.all (fun a => decide (a ≠ 0)) = l'.all (fun a => decide (a ≠ 0)) := by
    rw [Bool.eq_iff_iff, List.all_eq_true, List.all_eq_true]
    constructor
    · intro h y hy; exact h y (hp.mem_iff.2 hy)
    · intro h y hy; exact h y (hp.mem_iff.1 hy)
  rw [this]

/-- a group with exactly one holder of role `r`: the role-filtered sum is that holder's value -/
theorem roleSum_unique (d : Decl) (r : Nat) (x : Val) (g i : Nat) (hi : i < d.mem.length)
    (hh : d.mem.getD i 0 = g ∧ roleMatch r (d.roles.getD i 0) = true)
    (hu : ∀ k, k < d.mem.length → d.mem.getD k 0 = g ∧ roleMatch r (d.roles.getD k 0) = true → k = i) :
    roleSum d r x g = x.getD i 0 := by
  unfold roleSum
  have : (List.range d.mem.length).filter (fun k => decide (d.mem.getD k 0 = g ∧ roleMatch r (d.roles.getD k 0) = true)) = [i] := by
    rw [← List.perm_singleton]
    rw [List.perm_ext_iff_of_nodup (List.nodup_range.sublist List.filter_sublist) (by simp)]
    intro k
    simp only [List.mem_filter, List.mem_range, decide_eq_true_eq, List.mem_singleton]
    constructor
    · rintro ⟨h1, h2⟩; exact hu k h1 h2
    · rintro rfl; exact ⟨hi, hh⟩
  rw [this]
  simp

/-- a group without holder of role `r`: 0 (the default of `value_from_person`) -/
theorem roleSum_none (d : Decl) (r : Nat) (x : Val) (g : Nat)
    (hn : ∀ k, k < d.mem.length → ¬(d.mem.getD k 0 = g ∧ roleMatch r (d.roles.getD k 0) = true)) :
    roleSum d r x g = 0 := by
  unfold roleSum
  have : (List.range d.mem.length).filter (fun k => decide (d.mem.getD k 0 = g ∧ roleMatch r (d.roles.getD k 0) = true)) = [] := by
    rw [List.filter_eq_nil_iff]
    intro k hk
    simp only [decide_eq_true_eq]
    exact hn k (List.mem_range.1 hk)
  rw [this]
  rfl

/-- projection of a group vector onto the kept persons -/
theorem project_restrict (d : Decl) (sel gsel : List Nat) (hm : d.mem.length = d.nP) (hcl : Closed d sel gsel) (x : Val) :
    (sel.map (fun i => posIn gsel (d.mem.getD i 0))).map (fun g => (reindex gsel x).getD g 0)
      = reindex sel (d.mem.map (fun g => x.getD g 0)) := by
  unfold reindex
  rw [List.map_map]
  apply List.map_congr_left
  intro i hi
  have hip : i < d.nP := hcl.1 i hi
  have hig : d.mem.getD i 0 ∈ gsel := (hcl.2.2.2.2 i hip).1 hi
  have hlt := posIn_lt gsel _ hig
  have hget := getD_posIn gsel _ hig
  simp only [Function.comp]
  have h1 : (gsel.map (fun i => x.getD i 0)).getD (posIn gsel (d.mem.getD i 0)) 0 = x.getD (d.mem.getD i 0) 0 := by
    rw [List.getD_eq_getElem?_getD, List.getElem?_map, List.getElem?_eq_getElem hlt]
    simp only [Option.map_some, Option.getD_some]
    have : gsel[posIn gsel (d.mem.getD i 0)] = d.mem.getD i 0 := by
      rw [List.getD_eq_getElem?_getD, List.getElem?_eq_getElem hlt] at hget
      simpa using hget
    rw [this]
  have h2 : (d.mem.map (fun g => x.getD g 0)).getD i 0 = x.getD (d.mem.getD i 0) 0 := by
    have hil : i < d.mem.length := by omega
    simp [List.getD_eq_getElem?_getD, List.getElem?_map, List.getElem?_eq_getElem hil]
  rw [h1, h2]

/-! ## the restricted declaration is a transform of the declaration -/

/-- sort of a variable: its entity (`none` for an unknown variable) -/
def srtD (d : Decl) (v : Nat) : Option Nat := (d.vars[v]?).map (·.entity)

def TD (sel gsel : List Nat) : Option Nat → Val → Val
  | none, x => x
  | some ent, x => reindex (idxFor sel gsel ent) x

def ID (d : Decl) : Option Nat → Val → Prop
  | none, _ => True
  | some ent, x => x.length = d.size ent

theorem selVar_eq (d : Decl) (sel gsel : List Nat) (v : Nat) (x : Val) :
    selVar d sel gsel v x = TD sel gsel (srtD d v) x := by
  unfold selVar srtD; cases d.vars[v]? <;> rfl

theorem idxFor_lt {d : Decl} {sel gsel : List Nat} (hcl : Closed d sel gsel) (ent : Nat) :
    ∀ i ∈ idxFor sel gsel ent, i < d.size ent := by
  unfold idxFor Decl.size
  split
  · exact hcl.1
  · exact hcl.2.1

theorem size_restrict (d : Decl) (sel gsel : List Nat) (ent : Nat) :
    (restrict d sel gsel).size ent = (idxFor sel gsel ent).length := by
  unfold Decl.size idxFor restrict; split <;> rfl

theorem f2_shape (o : Nat) :
    (∃ g : Int → Int → Int, ∀ x y, f2 o x y = List.zipWith g x y) ∨ (∀ x y, f2 o x y = x) := by
  by_cases h0 : o = 0
  · exact Or.inl ⟨(· + ·), fun x y => by simp [f2, h0]⟩
  by_cases h1 : o = 1
  · exact Or.inl ⟨(· - ·), fun x y => by simp [f2, h1]⟩
  by_cases h2 : o = 2
  · exact Or.inl ⟨min, fun x y => by simp [f2, h2]⟩
  by_cases h3 : o = 3
  · exact Or.inl ⟨max, fun x y => by simp [f2, h3]⟩
  by_cases h4 : o = 4
  · exact Or.inl ⟨fun a b => if a < b then 1 else 0, fun x y => by simp [f2, h4]⟩
  by_cases h5 : o = 5
  · exact Or.inl ⟨fun a b => if a ≤ b then 1 else 0, fun x y => by simp [f2, h5]⟩
  by_cases h6 : o = 6
  · exact Or.inl ⟨fun a b => if a = b then 1 else 0, fun x y => by simp [f2, h6]⟩
  by_cases h7 : o = 7
  · exact Or.inl ⟨fun c a => if c ≠ 0 then a else 0, fun x y => by simp [f2, h7]⟩
  by_cases h8 : o = 8
  · exact Or.inl ⟨fun c b => if c ≠ 0 then 0 else b, fun x y => by simp [f2, h8]⟩
  exact Or.inr (fun x y => by simp [f2, h0, h1, h2, h3, h4, h5, h6, h7, h8])

theorem not_roleOp {o : Nat} (hr : isRoleOp o = false) :
    ¬(10 ≤ o ∧ o < 20) ∧ ¬(20 ≤ o ∧ o < 30) ∧ ¬(30 ≤ o ∧ o < 40) ∧ ¬(40 ≤ o ∧ o < 50) ∧
    ¬(50 ≤ o ∧ o < 60) ∧ ¬(60 ≤ o ∧ o < 70) ∧ ¬(70 ≤ o ∧ o < 80) := by
  have : ¬(10 ≤ o ∧ o < 80) := by simpa [isRoleOp] using hr
  omega

theorem f1_shape (o : Nat) (h1 : o ≠ 1) (h2 : o ≠ 2) (hr : isRoleOp o = false) (hp : isProjOp o = false) :
    ∃ g : Int → Int, ∀ (d : Decl) (x : Val), f1 d o x = x.map g := by
  obtain ⟨r1, r2, r3, r4, r5, r6, r7⟩ := not_roleOp hr
  have r8 : ¬(80 ≤ o ∧ o < 90) := by simpa [isProjOp] using hp
  by_cases h0 : o = 0
  · exact ⟨fun a => -a, fun d x => by simp [f1, h0]⟩
  by_cases h3 : o = 3
  · exact ⟨fun a => if a ≠ 0 then 1 else 0, fun d x => by simp [f1, h3]⟩
  by_cases h100 : 100 ≤ o
  · exact ⟨fun a => a * ((o : Int) - 150), fun d x => by simp only [f1, h0, h1, h2, h3, r1, r2, r3, r4, r5, r6, r7, r8, h100, if_true, if_false]⟩
  exact ⟨id, fun d x => by simp only [f1, h0, h1, h2, h3, r1, r2, r3, r4, r5, r6, r7, r8, h100, if_false, List.map_id]⟩

theorem castTo_shape (t : VType) : ∃ g : Int → Int, ∀ x : Val, castTo t x = x.map g := by
  cases t
  case bool => exact ⟨fun a => if a ≠ 0 then 1 else 0, fun x => rfl⟩
  all_goals exact ⟨id, fun x => by simp [castTo]⟩

/-- a pointwise unary operation commutes with the selection -/
theorem map_sim {d : Decl} {sel gsel : List Nat} (hcl : Closed d sel gsel) (g : Int → Int) (s : Option Nat) (x : Val)
    (hx : ID d s x) : ID d s (x.map g) ∧ (TD sel gsel s x).map g = TD sel gsel s (x.map g) := by
  cases s with
  | none => exact ⟨trivial, rfl⟩
  | some ent =>
    simp only [ID, TD, List.length_map] at hx ⊢
    refine ⟨hx, (reindex_map g _ x ?_).symm⟩
    rw [hx]; exact idxFor_lt hcl ent

theorem f2_sim {d : Decl} {sel gsel : List Nat} (hcl : Closed d sel gsel) (o : Nat) (s : Option Nat) (x y : Val)
    (hx : ID d s x) (hy : ID d s y) :
    ID d s (f2 o x y) ∧ f2 o (TD sel gsel s x) (TD sel gsel s y) = TD sel gsel s (f2 o x y) := by
  cases s with
  | none => exact ⟨trivial, rfl⟩
  | some ent =>
    simp only [ID, TD] at hx hy ⊢
    rcases f2_shape o with ⟨g, hg⟩ | hg
    · simp only [hg]
      refine ⟨by simp [hx, hy], (reindex_zipWith g _ x y ?_ ?_).symm⟩
      · rw [hx]; exact idxFor_lt hcl ent
      · rw [hy]; exact idxFor_lt hcl ent
    · rw [hg x y, hg]; exact ⟨hx, rfl⟩

theorem f1_sim_pointwise {d : Decl} {sel gsel : List Nat} (hcl : Closed d sel gsel) (o : Nat) (h1 : o ≠ 1) (h2 : o ≠ 2)
    (hr : isRoleOp o = false) (hp : isProjOp o = false) (s : Option Nat) (x : Val) (hx : ID d s x) :
    ID d s (f1 d o x) ∧ f1 (restrict d sel gsel) o (TD sel gsel s x) = TD sel gsel s (f1 d o x) := by
  obtain ⟨g, hg⟩ := f1_shape o h1 h2 hr hp
  rw [hg d, hg (restrict d sel gsel)]
  exact map_sim hcl g s x hx

/-- what a role operation computes for one group -/
def roleFn (d : Decl) (o : Nat) (x : Val) (g : Nat) : Int :=
  if 10 ≤ o ∧ o < 20 then roleSum d (o - 10) x g
  else if 20 ≤ o ∧ o < 30 then roleSum d (o - 20) x g
  else if 30 ≤ o ∧ o < 40 then roleSum d (o - 30) (List.replicate d.mem.length 1) g
  else if 40 ≤ o ∧ o < 50 then (if roleSum d (o - 40) x g > 0 then 1 else 0)
  else if 50 ≤ o ∧ o < 60 then listMax (holderVals d (o - 50) x g)
  else if 60 ≤ o ∧ o < 70 then listMin (holderVals d (o - 60) x g)
  else listAll (holderVals d (o - 70) x g)

theorem f1_role (d : Decl) (o : Nat) (hr : isRoleOp o = true) (x : Val) :
    f1 d o x = (List.range d.nG).map (roleFn d o x) := by
  have hb : 10 ≤ o ∧ o < 80 := by simpa [isRoleOp] using hr
  have h0 : o ≠ 0 := by omega
  have h1 : o ≠ 1 := by omega
  have h2 : o ≠ 2 := by omega
  have h3 : o ≠ 3 := by omega
  unfold f1
  simp only [h0, h1, h2, h3, if_false]
  by_cases c1 : 10 ≤ o ∧ o < 20
  · rw [if_pos c1]; apply List.map_congr_left; intro g _; simp only [roleFn, if_pos c1]
  rw [if_neg c1]
  by_cases c2 : 20 ≤ o ∧ o < 30
  · rw [if_pos c2]; apply List.map_congr_left; intro g _; simp only [roleFn, if_neg c1, if_pos c2]
  rw [if_neg c2]
  by_cases c3 : 30 ≤ o ∧ o < 40
  · rw [if_pos c3]; apply List.map_congr_left; intro g _; simp only [roleFn, if_neg c1, if_neg c2, if_pos c3]
  rw [if_neg c3]
  by_cases c4 : 40 ≤ o ∧ o < 50
  · rw [if_pos c4]; apply List.map_congr_left; intro g _; simp only [roleFn, if_neg c1, if_neg c2, if_neg c3, if_pos c4]
  rw [if_neg c4]
  by_cases c5 : 50 ≤ o ∧ o < 60
  · rw [if_pos c5]; apply List.map_congr_left; intro g _
    simp only [roleFn, if_neg c1, if_neg c2, if_neg c3, if_neg c4, if_pos c5]
  rw [if_neg c5]
  by_cases c6 : 60 ≤ o ∧ o < 70
  · rw [if_pos c6]; apply List.map_congr_left; intro g _
    simp only [roleFn, if_neg c1, if_neg c2, if_neg c3, if_neg c4, if_neg c5, if_pos c6]
  rw [if_neg c6]
  have c7 : 70 ≤ o ∧ o < 80 := by omega
  rw [if_pos c7]; apply List.map_congr_left; intro g _
  simp only [roleFn, if_neg c1, if_neg c2, if_neg c3, if_neg c4, if_neg c5, if_neg c6]

theorem roleFn_restrict (d : Decl) (sel gsel : List Nat) (hm : d.mem.length = d.nP) (hcl : Closed d sel gsel)
    (o : Nat) (x : Val) (j : Nat) (hj : j < gsel.length) :
    roleFn (restrict d sel gsel) o (reindex sel x) j = roleFn d o x (gsel.getD j 0) := by
  have hrep : List.replicate (restrict d sel gsel).mem.length (1 : Int) = reindex sel (List.replicate d.mem.length 1) := by
    rw [reindex_replicate sel d.mem.length 1 (by rw [hm]; exact hcl.1)]
    simp [restrict]
  unfold roleFn
  rw [hrep]
  simp only [roleSum_restrict d sel gsel hm hcl _ _ j hj,
    listMax_perm (holderVals_perm d sel gsel hm hcl (o - 50) x j hj),
    listMin_perm (holderVals_perm d sel gsel hm hcl (o - 60) x j hj),
    listAll_perm (holderVals_perm d sel gsel hm hcl (o - 70) x j hj)]

/-- the role operations (role-filtered sum, value of the unique-role member, number of role
    holders, any, max, min, all) commute with a closed selection -/
theorem f1_sim_role {d : Decl} {sel gsel : List Nat} (hm : d.mem.length = d.nP) (hcl : Closed d sel gsel)
    (o : Nat) (hr : isRoleOp o = true) (ent : Nat) (hent : ent ≠ 0) (x : Val) (hx : ID d (some 0) x) :
    ID d (some ent) (f1 d o x) ∧
    f1 (restrict d sel gsel) o (TD sel gsel (some 0) x) = TD sel gsel (some ent) (f1 d o x) := by
  simp only [ID, TD, idxFor, Decl.size, if_neg hent, if_true] at hx ⊢
  rw [f1_role d o hr, f1_role (restrict d sel gsel) o hr]
  refine ⟨by simp, ?_⟩
  apply List.ext_getElem
  · simp [restrict, reindex]
  · intro j h1 h2
    have hj : j < gsel.length := by simpa [reindex] using h2
    have hgj : gsel[j] < d.nG := hcl.2.1 _ (List.getElem_mem hj)
    have hget : gsel.getD j 0 = gsel[j] := by simp [List.getD_eq_getElem?_getD, List.getElem?_eq_getElem hj]
    simp only [restrict, reindex, List.getElem_map, List.getElem_range]
    have := roleFn_restrict d sel gsel hm hcl o x j hj
    simp only [restrict, reindex] at this
    rw [this, hget]
    simp [List.getD_eq_getElem?_getD, List.getElem?_map, List.getElem?_range hgj]

theorem f1_one (d : Decl) (x : Val) : f1 d 1 x = (List.range d.nG).map (grpSum d.mem x) := by
  simp [f1, grpSum]

theorem f1_two (d : Decl) (x : Val) : f1 d 2 x = d.mem.map (fun g => x.getD g 0) := by
  simp [f1]

/-- the sum over the members of each group commutes with a closed selection -/
theorem f1_sim_sum {d : Decl} {sel gsel : List Nat} (hm : d.mem.length = d.nP) (hcl : Closed d sel gsel)
    (ent : Nat) (hent : ent ≠ 0) (x : Val) (hx : ID d (some 0) x) :
    ID d (some ent) (f1 d 1 x) ∧
    f1 (restrict d sel gsel) 1 (TD sel gsel (some 0) x) = TD sel gsel (some ent) (f1 d 1 x) := by
  simp only [ID, TD, idxFor, Decl.size, if_neg hent, if_true] at hx ⊢
  rw [f1_one, f1_one]
  refine ⟨by simp, ?_⟩
  apply List.ext_getElem
  · simp [restrict, reindex]
  · intro j h1 h2
    have hj : j < gsel.length := by simpa [reindex] using h2
    have hgj : gsel[j] < d.nG := hcl.2.1 _ (List.getElem_mem hj)
    have hget : gsel.getD j 0 = gsel[j] := by simp [List.getD_eq_getElem?_getD, List.getElem?_eq_getElem hj]
    simp only [restrict, reindex, List.getElem_map, List.getElem_range]
    have := grpSum_restrict d sel gsel hm hcl x hx j hj
    simp only [reindex] at this
    rw [this, hget]
    simp [List.getD_eq_getElem?_getD, List.getElem?_map, List.getElem?_range hgj]

/-- the projection of a group vector onto persons commutes with a closed selection -/
theorem f1_sim_proj {d : Decl} {sel gsel : List Nat} (hm : d.mem.length = d.nP) (hcl : Closed d sel gsel)
    (e1 : Nat) (he1 : e1 ≠ 0) (x : Val) (hx : ID d (some e1) x) :
    ID d (some 0) (f1 d 2 x) ∧
    f1 (restrict d sel gsel) 2 (TD sel gsel (some e1) x) = TD sel gsel (some 0) (f1 d 2 x) := by
  simp only [ID, TD, idxFor, Decl.size, if_neg he1, if_true] at hx ⊢
  rw [f1_two, f1_two]
  refine ⟨by simp [hm], ?_⟩
  exact project_restrict d sel gsel hm hcl x

theorem getD_map_range_lt (F : Nat → Int) (n i : Nat) (h : i < n) : ((List.range n).map F).getD i 0 = F i := by
  simp [List.getD_eq_getElem?_getD, List.getElem?_map, List.getElem?_range h]

theorem f1_rproj (d : Decl) (o : Nat) (hp : isProjOp o = true) (x : Val) :
    f1 d o x = (List.range d.mem.length).map (fun i =>
      if roleMatch (o - 80) (d.roles.getD i 0) = true then x.getD (d.mem.getD i 0) 0 else 0) := by
  have hb : 80 ≤ o ∧ o < 90 := by simpa [isProjOp] using hp
  have h0 : o ≠ 0 := by omega
  have h1 : o ≠ 1 := by omega
  have h2 : o ≠ 2 := by omega
  have h3 : o ≠ 3 := by omega
  have r1 : ¬(10 ≤ o ∧ o < 20) := by omega
  have r2 : ¬(20 ≤ o ∧ o < 30) := by omega
  have r3 : ¬(30 ≤ o ∧ o < 40) := by omega
  have r4 : ¬(40 ≤ o ∧ o < 50) := by omega
  have r5 : ¬(50 ≤ o ∧ o < 60) := by omega
  have r6 : ¬(60 ≤ o ∧ o < 70) := by omega
  have r7 : ¬(70 ≤ o ∧ o < 80) := by omega
  unfold f1
  simp only [h0, h1, h2, h3, r1, r2, r3, r4, r5, r6, r7, if_false, if_pos hb]

/-- the projection with a role filter commutes with a closed selection -/
theorem f1_sim_rproj {d : Decl} {sel gsel : List Nat} (hm : d.mem.length = d.nP) (hcl : Closed d sel gsel)
    (o : Nat) (hp : isProjOp o = true) (e1 : Nat) (he1 : e1 ≠ 0) (x : Val) (hx : ID d (some e1) x) :
    ID d (some 0) (f1 d o x) ∧
    f1 (restrict d sel gsel) o (TD sel gsel (some e1) x) = TD sel gsel (some 0) (f1 d o x) := by
  simp only [ID, TD, idxFor, Decl.size, if_neg he1, if_true] at hx ⊢
  rw [f1_rproj d o hp, f1_rproj (restrict d sel gsel) o hp]
  refine ⟨by simp [hm], ?_⟩
  have hlen : (restrict d sel gsel).mem.length = sel.length := by simp [restrict]
  rw [hlen]
  apply List.ext_getElem
  · simp [reindex]
  · intro k h1 h2
    have hk : k < sel.length := by simpa using h1
    have hmem : sel.getD k 0 ∈ sel := by rw [getD_of_lt sel k hk]; exact List.getElem_mem hk
    have hip : sel.getD k 0 < d.nP := hcl.1 _ hmem
    have hig : d.mem.getD (sel.getD k 0) 0 ∈ gsel := (hcl.2.2.2.2 _ hip).1 hmem
    have e1' : (restrict d sel gsel).mem.getD k 0 = posIn gsel (d.mem.getD (sel.getD k 0) 0) := by
      simp only [restrict]; exact getD_map_nat _ 0 sel k hk
    have e2 : (restrict d sel gsel).roles.getD k 0 = d.roles.getD (sel.getD k 0) 0 := by
      simp only [restrict]; exact getD_map_nat _ 0 sel k hk
    have hsk : sel[k] = sel.getD k 0 := (getD_of_lt sel k hk).symm
    simp only [reindex, List.getElem_map, List.getElem_range, e1', e2]
    rw [hsk]
    have hr := reindex_getD_posIn gsel x _ hig
    unfold reindex at hr
    rw [hr]
    have hl : sel.getD k 0 < d.mem.length := by omega
    rw [getD_map_range_lt _ _ _ hl]

section
variable {d : Decl} {sel gsel : List Nat} {armed : List Nat}

/-- the relation instantiated for a declaration and its restriction -/
abbrev RelD (d : Decl) (sel gsel : List Nat) (armed : List Nat) :=
  ERel (elabSys d armed) (elabSys (restrict d sel gsel) armed) (srtD d) (TD sel gsel) (ID d)

theorem elabRead_restrict (d : Decl) (sel gsel : List Nat) (w : Nat) (q : Except String Period) (add : Bool) :
    elabRead (restrict d sel gsel) w q add = elabRead d w q add := rfl

theorem node_rel (hcl : Closed d sel gsel) (w : Nat) (wv : Var) (hw : d.vars[w]? = some wv) (s : Period) :
    RelD d sel gsel armed (some wv.entity)
      (match servedPeriod wv.unit s with | .ok s' => .ref w s' | .error _ => .bad)
      (match servedPeriod wv.unit s with | .ok s' => .ref w s' | .error _ => .bad) := by
  cases servedPeriod wv.unit s with
  | error _ => exact .bad _
  | ok s' => exact .ref _ w s' (by simp [srtD, hw])

theorem foldl_rel (hcl : Closed d sel gsel) (s : Option Nat) (node : Period → Expr Period)
    (hnode : ∀ q, RelD d sel gsel armed s (node q) (node q)) :
    ∀ (ss : List Period) (acc : Expr Period), RelD d sel gsel armed s acc acc →
      RelD d sel gsel armed s (ss.foldl (fun acc q => .op2 0 acc (node q)) acc)
        (ss.foldl (fun acc q => .op2 0 acc (node q)) acc) := by
  intro ss
  induction ss with
  | nil => intro acc h; exact h
  | cons q ss ih =>
    intro acc h
    simp only [List.foldl_cons]
    apply ih
    exact .op2 _ 0 _ _ _ _ h (hnode q) (fun x y hx hy => f2_sim hcl 0 s x y hx hy)

theorem elabRead_rel (hcl : Closed d sel gsel) (w : Nat) (wv : Var) (hw : d.vars[w]? = some wv)
    (q : Except String Period) (add : Bool) :
    RelD d sel gsel armed (some wv.entity) (elabRead d w q add) (elabRead d w q add) := by
  unfold elabRead
  rw [hw]
  cases q with
  | error _ => exact .bad _
  | ok q =>
    simp only
    by_cases hadd : add = true
    · simp only [hadd, if_true]
      split
      · exact .bad _
      split
      · exact .bad _
      split
      · exact .bad _
      split
      · exact .bad _
      · exact .bad _
      · rename_i s ss _
        exact foldl_rel hcl _ _ (fun q => node_rel hcl w wv hw q) ss _ (node_rel hcl w wv hw s)
    · simp only [hadd]
      exact node_rel hcl w wv hw q


theorem elabExpr_rel (hm : d.mem.length = d.nP) (hcl : Closed d sel gsel) (p : Period) :
    ∀ (e : DExpr) (ent : Nat), WT ent e = true →
      RelD d sel gsel armed (some ent) (elabExpr d ent p e) (elabExpr (restrict d sel gsel) ent p e) := by
  intro e
  induction e with
  | const k =>
    intro ent _
    simp only [elabExpr]
    refine .const _ _ _ (by simp [ID]) ?_
    simp only [TD]
    rw [reindex_replicate _ _ _ (idxFor_lt hcl ent), size_restrict]
  | var w pt add =>
    intro ent _
    simp only [elabExpr, elabRead_restrict]
    have hv : (restrict d sel gsel).vars = d.vars := rfl
    rw [hv]
    cases hw : d.vars[w]? with
    | none => exact .bad _
    | some wv =>
      simp only
      by_cases he : wv.entity = ent
      · simp only [he, if_true]
        have := elabRead_rel (armed := armed) hcl w wv hw (applyPT p pt) add
        rw [he] at this; exact this
      · simp only [he, if_false]; exact .bad _
  | op1 o a ih =>
    intro ent hwt
    simp only [elabExpr]
    simp only [WT] at hwt
    by_cases hS : o = 1 ∨ isRoleOp o = true
    · rw [if_pos hS] at hwt ⊢
      simp only [Bool.and_eq_true, bne_iff_ne, ne_eq] at hwt
      rcases hS with h1 | hr
      · subst h1
        exact .op1 _ (some 0) 1 _ _ (ih 0 hwt.2) (fun x hx => f1_sim_sum hm hcl ent hwt.1 x hx)
      · exact .op1 _ (some 0) o _ _ (ih 0 hwt.2) (fun x hx => f1_sim_role hm hcl o hr ent hwt.1 x hx)
    · rw [if_neg hS] at hwt ⊢
      have h1 : o ≠ 1 := fun h => hS (Or.inl h)
      have hr : isRoleOp o = false := by
        cases h : isRoleOp o
        · rfl
        · exact absurd (Or.inr h) hS
      by_cases hP : o = 2 ∨ isProjOp o = true
      · rw [if_pos hP] at hwt ⊢
        simp only [Bool.and_eq_true, beq_iff_eq] at hwt
        obtain ⟨he, hwa⟩ := hwt
        subst he
        rcases hP with h2 | hp
        · subst h2
          exact .op1 _ (some 1) 2 _ _ (ih 1 hwa) (fun x hx => f1_sim_proj hm hcl 1 (by decide) x hx)
        · exact .op1 _ (some 1) o _ _ (ih 1 hwa) (fun x hx => f1_sim_rproj hm hcl o hp 1 (by decide) x hx)
      · rw [if_neg hP] at hwt ⊢
        have h2 : o ≠ 2 := fun h => hP (Or.inl h)
        have hp : isProjOp o = false := by
          cases h : isProjOp o
          · rfl
          · exact absurd (Or.inr h) hP
        exact .op1 _ (some ent) o _ _ (ih ent hwt) (fun x hx => f1_sim_pointwise hcl o h1 h2 hr hp _ x hx)
  | op2 o a b iha ihb =>
    intro ent hwt
    simp only [WT, Bool.and_eq_true] at hwt
    simp only [elabExpr]
    exact .op2 _ o _ _ _ _ (iha ent hwt.1) (ihb ent hwt.2) (fun x y hx hy => f2_sim hcl o _ x y hx hy)
  | fail id a ih =>
    intro ent hwt
    simp only [WT] at hwt
    simp only [elabExpr]
    exact .fail _ id _ _ (ih ent hwt)

theorem find_map_aux (g : Nat → Val → Val) (K : Period → Period) (v : Nat) (p : Period) :
    ∀ l : List (Nat × Period × Val),
    ((l.map (fun i => (i.1, i.2.1, g i.1 i.2.2))).find? (fun i => decide (i.1 = v ∧ K i.2.1 = K p))).map (·.2.2)
      = ((l.find? (fun i => decide (i.1 = v ∧ K i.2.1 = K p))).map (·.2.2)).map (g v)
  | [] => rfl
  | i :: l => by
    rw [List.map_cons]
    by_cases h : i.1 = v ∧ K i.2.1 = K p
    · rw [List.find?_cons_of_pos (by simpa using h), List.find?_cons_of_pos (by simpa using h)]
      simp [h.1]
    · rw [List.find?_cons_of_neg (by simpa using h), List.find?_cons_of_neg (by simpa using h)]
      exact find_map_aux g K v p l

theorem storageKey_restrict (d : Decl) (sel gsel : List Nat) (v : Nat) (p : Period) :
    storageKey (restrict d sel gsel) v p = storageKey d v p := rfl

theorem inputLookup_restrict (d : Decl) (sel gsel : List Nat) (v : Nat) (p : Period) :
    inputLookup (restrict d sel gsel) v p = (inputLookup d v p).map (selVar d sel gsel v) :=
  find_map_aux (selVar d sel gsel) (storageKey d v) v p d.inputs

theorem inputLookup_len (hwf : WF d) (v : Nat) (vv : Var) (hv : d.vars[v]? = some vv) (p : Period) (x : Val)
    (h : inputLookup d v p = some x) : x.length = d.size vv.entity := by
  unfold inputLookup at h
  rw [Option.map_eq_some_iff] at h
  obtain ⟨i, hi, rfl⟩ := h
  have h1 := List.find?_some hi
  simp only [decide_eq_true_eq] at h1
  have hmem := List.mem_of_find?_eq_some hi
  exact hwf.2.2.2 i hmem vv (by rw [h1.1]; exact hv)

/-- the part simulated alone is the `reindex`-transform of the whole, as node-level systems -/
theorem sim_restrict (hwf : WF d) (hcl : Closed d sel gsel) :
    Sim (elabSys d armed) (elabSys (restrict d sel gsel) armed) (srtD d) (TD sel gsel) (ID d) := by
  have hv : (restrict d sel gsel).vars = d.vars := rfl
  have hrep : ∀ ent k, List.replicate ((restrict d sel gsel).size ent) k
      = TD sel gsel (some ent) (List.replicate (d.size ent) k) := by
    intro ent k
    simp only [TD]
    rw [reindex_replicate _ _ _ (idxFor_lt hcl ent), size_restrict]
  have hcast : ∀ t s x, ID d s x → ID d s (castTo t x) ∧ castTo t (TD sel gsel s x) = TD sel gsel s (castTo t x) := by
    intro t s x hx
    obtain ⟨g, hg⟩ := castTo_shape t
    rw [hg, hg]
    exact map_sim hcl g s x hx
  refine ⟨?_, ?_, ?_, ?_, ?_, ?_, ?_, ?_, ?_⟩
  · -- input
    intro v p
    simp only [elabSys, hv, srtD]
    cases hvv : d.vars[v]? with
    | none => rfl
    | some vv =>
      simp only [Option.map_some]
      have hl : inputLookup (restrict d sel gsel) v p
          = (inputLookup d v p).map (TD sel gsel (some vv.entity)) := by
        rw [inputLookup_restrict]
        congr 1; funext x; rw [selVar_eq]; simp [srtD, hvv]
      by_cases hn : vv.neutralized = true
      · simp only [hn, if_true, Option.map_some, hrep]
      · have hn' : vv.neutralized = false := by simpa using hn
        simp only [hn', Bool.false_eq_true, if_false]
        cases vv.endOrd with
        | none => exact hl
        | some en =>
          simp only
          by_cases hc : p.unit ≠ DUnit.eternity ∧ ord p.start > en
          · rw [if_pos hc, if_pos hc]; rfl
          · rw [if_neg hc, if_neg hc]; exact hl
  · -- inputI
    intro v p x
    simp only [elabSys, srtD]
    cases hvv : d.vars[v]? with
    | none => intro h; cases h
    | some vv =>
      simp only [Option.map_some, ID]
      by_cases hn : vv.neutralized = true
      · simp only [hn, if_true, Option.some.injEq]
        intro h; subst h; simp
      · have hn' : vv.neutralized = false := by simpa using hn
        simp only [hn', Bool.false_eq_true, if_false]
        cases vv.endOrd with
        | none => intro h; exact inputLookup_len hwf v vv hvv p x h
        | some en =>
          simp only
          by_cases hc : p.unit ≠ DUnit.eternity ∧ ord p.start > en
          · rw [if_pos hc]; intro h; cases h
          · rw [if_neg hc]; intro h; exact inputLookup_len hwf v vv hvv p x h
  · -- formulaN
    intro v p
    simp only [elabSys, hv]
    cases hvv : d.vars[v]? with
    | none => intro _; rfl
    | some vv =>
      simp only [Option.map_eq_none_iff]
      exact id
  · -- formulaS
    intro v p e
    simp only [elabSys, hv, srtD]
    cases hvv : d.vars[v]? with
    | none => intro h; cases h
    | some vv =>
      simp only [Option.map_eq_some_iff, Option.map_some]
      rintro ⟨de, hde, rfl⟩
      refine ⟨_, ⟨de, hde, rfl⟩, ?_⟩
      obtain ⟨_, s, hs, _⟩ := (C01_formula_in_force vv (startOrdOf p)).1 de hde
      have hmem : vv ∈ d.vars := List.mem_of_getElem? hvv
      exact elabExpr_rel hwf.1 hcl p de vv.entity (hwf.2.2.1 vv hmem (s, de) hs)
  · -- dfltI
    intro v
    simp only [elabSys, srtD]
    cases hvv : d.vars[v]? with
    | none => trivial
    | some vv => exact (hcast vv.vtype (some vv.entity) _ (by simp [ID])).1
  · -- dflt
    intro v
    simp only [elabSys, hv, srtD]
    cases hvv : d.vars[v]? with
    | none => rfl
    | some vv =>
      simp only [Option.map_some, hrep]
      exact (hcast vv.vtype (some vv.entity) _ (by simp [ID])).2
  · -- postI
    intro v x
    simp only [elabSys, srtD]
    cases hvv : d.vars[v]? with
    | none => intro _; trivial
    | some vv => exact fun hx => (hcast vv.vtype (some vv.entity) x hx).1
  · -- post
    intro v x
    simp only [elabSys, hv, srtD]
    cases hvv : d.vars[v]? with
    | none => intro _; rfl
    | some vv => exact fun hx => (hcast vv.vtype (some vv.entity) x hx).2
  · intro id; rfl

/-- the meaning of the part simulated alone is the meaning of the whole read at the kept indices:
    same fuel, same errors, same exhaustion -/
theorem den_restrict (hwf : WF d) (hcl : Closed d sel gsel) (n v : Nat) (p : Period) :
    den (elabSys (restrict d sel gsel) armed) n v p
      = (den (elabSys d armed) n v p).map (mapRes (selVar d sel gsel v)) := by
  have := (den_sim (sim_restrict (armed := armed) hwf hcl) n v p).1
  rw [this]
  congr 1; funext r; congr 1; funext x; rw [selVar_eq]

end

section
variable {d : Decl} {sel gsel : List Nat} {armed : List Nat}

theorem mem_getD_mem (l : List Nat) (i : Nat) (h : i < l.length) : l.getD i 0 ∈ l := by
  simp [List.getD_eq_getElem?_getD, List.getElem?_eq_getElem h]

/-- values stored under one slot (ETERNITY for eternal variables) mean the same in the part when
    they do in the whole -/
theorem slotCoherent_restrict (hwf : WF d) (hcl : Closed d sel gsel) (hk : SlotCoherent (elabSys d armed)) :
    SlotCoherent (elabSys (restrict d sel gsel) armed) := by
  intro v p p' h n
  have h' : (elabSys d armed).ckey v p = (elabSys d armed).ckey v p' := h
  rw [den_restrict hwf hcl, den_restrict hwf hcl, hk v p p' h' n]

/-- a reordering of the whole population is a closed selection -/
theorem closed_of_isPerm (hwf : WF d) (hp : IsPerm d sel gsel) : Closed d sel gsel := by
  obtain ⟨h1, h2⟩ := hp
  refine ⟨?_, ?_, ?_, ?_, ?_⟩
  · intro i hi; simpa using (h1.mem_iff).1 hi
  · intro g hg; simpa using (h2.mem_iff).1 hg
  · exact (h1.nodup_iff).2 List.nodup_range
  · exact (h2.nodup_iff).2 List.nodup_range
  · intro i hi
    have hg : d.mem.getD i 0 < d.nG := hwf.2.1 _ (mem_getD_mem d.mem i (by rw [hwf.1]; exact hi))
    constructor
    · intro _; exact (h2.mem_iff).2 (by simpa using hg)
    · intro _; exact (h1.mem_iff).2 (by simpa using hi)

/-- reading a vector along a permutation of its positions permutes its values -/
theorem reindex_perm (l : List Nat) (x : Val) (h : l.Perm (List.range x.length)) : (reindex l x).Perm x := by
  have := List.Perm.map (fun i => x.getD i 0) h
  have h2 := reindex_range x
  unfold reindex at h2 ⊢
  rw [h2] at this
  exact this

theorem mem_complement (n : Nat) (l : List Nat) (i : Nat) : i ∈ complement n l ↔ i < n ∧ i ∉ l := by
  simp [complement]

theorem complement_increasing (n : Nat) (l : List Nat) : Increasing (complement n l) :=
  List.Pairwise.sublist List.filter_sublist List.pairwise_lt_range

/-- what is left when a closed part is taken out is closed -/
theorem complement_closed (hwf : WF d) (hcl : Closed d sel gsel) :
    Closed d (complement d.nP sel) (complement d.nG gsel) := by
  refine ⟨?_, ?_, ?_, ?_, ?_⟩
  · intro i hi; exact ((mem_complement _ _ _).1 hi).1
  · intro g hg; exact ((mem_complement _ _ _).1 hg).1
  · exact List.nodup_range.sublist List.filter_sublist
  · exact List.nodup_range.sublist List.filter_sublist
  · intro i hi
    have hg : d.mem.getD i 0 < d.nG := hwf.2.1 _ (mem_getD_mem d.mem i (by rw [hwf.1]; exact hi))
    rw [mem_complement, mem_complement]
    have := hcl.2.2.2.2 i hi
    constructor
    · rintro ⟨_, h⟩; exact ⟨hg, fun hc => h (this.2 hc)⟩
    · rintro ⟨_, h⟩; exact ⟨hi, fun hc => h (this.1 hc)⟩

/-- the part simulated alone is a well-formed declaration -/
theorem wf_restrict (hwf : WF d) (hcl : Closed d sel gsel) : WF (restrict d sel gsel) := by
  refine ⟨by simp [restrict], ?_, hwf.2.2.1, ?_⟩
  · intro g hg
    simp only [restrict, List.mem_map] at hg ⊢
    obtain ⟨i, hi, rfl⟩ := hg
    exact posIn_lt gsel _ ((hcl.2.2.2.2 i (hcl.1 i hi)).1 hi)
  · intro i hi vv hvv
    simp only [restrict, List.mem_map] at hi
    obtain ⟨i0, hi0, rfl⟩ := hi
    have hvv0 : d.vars[i0.1]? = some vv := hvv
    simp only [selVar, hvv0, reindex_length, size_restrict]

/-- sums of vectors (`calculate_add`) commute with a selection -/
theorem vecAdd_reindex (l : List Nat) (x y : Val) (n : Nat) (hl : ∀ i ∈ l, i < n) (hx : x.length = n) (hy : y.length = n) :
    vecAdd (reindex l x) (reindex l y) = reindex l (vecAdd x y) := by
  unfold vecAdd
  exact (reindex_zipWith _ l x y (by rw [hx]; exact hl) (by rw [hy]; exact hl)).symm

end

/-! ## the group operations of the expression language are the transcribed `GroupPopulation` -/

section
open OFCore.Grp

theorem declPop_ids (d : Decl) : (declPop d).ids = d.mem := by
  simp only [declPop, Pop.ids, List.map_map, Function.comp_def]
  exact map_getD_range d.mem

theorem declPop_len (d : Decl) : (declPop d).ms.length = d.mem.length := by simp [declPop]

theorem declPop_getD (d : Decl) (i : Nat) (hi : i < d.mem.length) :
    (declPop d).ms.getD i default = ⟨d.mem.getD i 0, d.roles.getD i 0⟩ := by
  simp [declPop, List.getD_eq_getElem?_getD, List.getElem?_map, List.getElem?_range hi]

theorem declPop_group_lt (d : Decl) (hg : ∀ g ∈ d.mem, g < d.nG) : ∀ m ∈ (declPop d).ms, m.group < (declPop d).n := by
  intro m hm
  simp only [declPop, List.mem_map, List.mem_range] at hm
  obtain ⟨i, hi, rfl⟩ := hm
  exact hg _ (mem_getD_mem d.mem i hi)

theorem roleOk_digit (r ρ : Nat) (g : Nat) (hr : r ≤ 9) (hρ : ρ < 8) :
    roleOk (roleOfDigit r) ⟨g, ρ⟩ = roleMatch r ρ := by
  unfold roleOfDigit roleMatch
  by_cases h9 : r = 9
  · simp [h9, roleOk]
  · by_cases h8 : r = 8
    · subst h8
      simp only [roleOk, Role.holds, if_neg h9, if_true]
      have : ρ = 0 ∨ ρ = 1 ∨ 2 ≤ ρ := by omega
      rcases this with h | h | h
      · subst h; decide
      · subst h; decide
      · have h0 : ρ ≠ 0 := by omega
        have h1 : ρ ≠ 1 := by omega
        have h2 : ¬ ρ < 2 := by omega
        have h3 : ρ ≠ 8 := by omega
        simp [h0, h1, h2, h3, Ne.symm h0, Ne.symm h1]
    · simp only [roleOk, Role.holds, if_neg h9, if_neg h8, List.isEmpty_nil, if_true]
      simp only [h9, h8, false_or, false_and, or_false]
      by_cases h : ρ = r <;> simp [h]

/-- the values of the holders of a role digit in a group: the two models say the same -/
theorem valuesOf_declPop_digit (d : Decl) (hρ : ∀ ρ ∈ d.roles, ρ < 8) (r : Nat) (hr : r ≤ 9) (x : Val)
    (hx : x.length = d.mem.length) (g : Nat) :
    valuesOf (declPop d) (roleOfDigit r) g x = holderVals d r x g := by
  rw [valuesOf_eq_idx (declPop d) x 0 (by rw [declPop_len]; exact hx), declPop_ids]
  unfold holderVals membersIdx
  rw [List.filter_filter]
  congr 1
  apply List.filter_congr
  intro i hi
  have hi' := List.mem_range.mp hi
  have hρi : d.roles.getD i 0 < 8 := by
    by_cases h : i < d.roles.length
    · rw [List.getD_eq_getElem?_getD, List.getElem?_eq_getElem h]; exact hρ _ (List.getElem_mem h)
    · rw [List.getD_eq_getElem?_getD, List.getElem?_eq_none (by omega)]; decide
  rw [declPop_getD d i hi', roleOk_digit r _ _ hr hρi]
  have h1 : (d.mem.getD i 0 == g) = decide (d.mem.getD i 0 = g) := by
    rw [Bool.eq_iff_iff, beq_iff_eq, decide_eq_true_iff]
  show (roleMatch r (d.roles.getD i 0) && (d.mem.getD i 0 == g))
    = decide (d.mem.getD i 0 = g ∧ roleMatch r (d.roles.getD i 0) = true)
  rw [h1]
  by_cases h : d.mem.getD i 0 = g <;> cases h2 : roleMatch r (d.roles.getD i 0) <;> simp [h]

theorem foldl_add_sum (l : List Int) (a : Int) : l.foldl (· + ·) a = a + l.sum := by
  induction l generalizing a with
  | nil => simp
  | cons b t ih => simp only [List.foldl_cons, List.sum_cons, ih]; omega


theorem foldl_maxE (l : List Int) (hne : l ≠ []) :
    (l.map EInt.fin).foldl EInt.max .negInf = .fin (listMax l) := by
  obtain ⟨m, hm, e, hb⟩ := (Grp.foldl_max_spec l).2 hne
  obtain ⟨h1, h2⟩ := listMax_spec l hne
  have := hb _ h1
  have := h2 _ hm
  rw [e]; congr 1; omega

theorem foldl_minE (l : List Int) (hne : l ≠ []) :
    (l.map EInt.fin).foldl EInt.min .posInf = .fin (listMin l) := by
  obtain ⟨m, hm, e, hb⟩ := (Grp.foldl_min_spec l).2 hne
  obtain ⟨h1, h2⟩ := listMin_spec l hne
  have := hb _ h1
  have := h2 _ hm
  rw [e]; congr 1; omega

/-- The group operations of the expression language (`RuleSys.f1`, stated over index sets) ARE what
    the transcription of `GroupPopulation` (`Group.lean`, tied to the code by C10's
    correspondence) computes on the population of the declaration. -/
theorem f1_is_group_model (d : Decl) (hm : d.mem.length = d.nP) (hg : ∀ g ∈ d.mem, g < d.nG)
    (hρ : ∀ ρ ∈ d.roles, ρ < 8) (r : Nat) (hr : r ≤ 9) (x : Val) (hx : x.length = d.nP)
    (y : Val) (hy : y.length = d.nG) :
    groupSum (declPop d) x none = .ok (f1 d 1 x) ∧
    project (declPop d) y 0 none = .ok (f1 d 2 y) ∧
    groupSum (declPop d) x (roleOfDigit r) = .ok (f1 d (10 + r) x) ∧
    nbPersons (declPop d) (roleOfDigit r) = .ok (f1 d (30 + r) x) ∧
    groupAnyI (declPop d) x (roleOfDigit r) = .ok ((f1 d (40 + r) x).map fun v => decide (v ≠ 0)) ∧
    project (declPop d) y 0 (roleOfDigit r) = .ok (f1 d (80 + r) y) ∧
    (d.nP ≠ 0 →
      (∃ mx, groupMax (declPop d) x (roleOfDigit r) = .ok mx ∧ mx.map eint0 = f1 d (50 + r) x) ∧
      (∃ mn, groupMin (declPop d) x (roleOfDigit r) = .ok mn ∧ mn.map eint0 = f1 d (60 + r) x) ∧
      groupAll (declPop d) (x.map fun v => decide (v ≠ 0)) (roleOfDigit r)
        = .ok ((f1 d (70 + r) x).map fun v => decide (v ≠ 0))) := by
  have hlen : x.length = (declPop d).ms.length := by rw [declPop_len]; omega
  have hxm : x.length = d.mem.length := by omega
  have hgp := declPop_group_lt d hg
  have hn : (declPop d).n = d.nG := rfl
  have hv9 : ∀ g, valuesOf (declPop d) none g x = holderVals d 9 x g := fun g =>
    valuesOf_declPop_digit d hρ 9 (by omega) x hxm g
  have hv : ∀ g, valuesOf (declPop d) (roleOfDigit r) g x = holderVals d r x g := fun g =>
    valuesOf_declPop_digit d hρ r hr x hxm g
  have hsum : ∀ g, (holderVals d r x g).sum = roleSum d r x g := by
    intro g; rw [roleSum_eq, foldl_add_sum]; omega
  have hm9 : ∀ ρ, roleMatch 9 ρ = true := by intro ρ; simp [roleMatch]
  have hsum1 : ∀ g, (holderVals d 9 x g).sum = grpSum d.mem x g := by
    intro g
    rw [grpSum_eq_idxSum d.mem x hxm g]
    unfold holderVals idxSum
    have hf : (List.range d.mem.length).filter (fun i => decide (d.mem.getD i 0 = g ∧ roleMatch 9 (d.roles.getD i 0) = true))
        = (List.range d.mem.length).filter (fun i => decide (d.mem.getD i 0 = g)) := by
      apply List.filter_congr
      intro i _
      simp [hm9]
    rw [hf]
    have := foldl_add_sum (((List.range d.mem.length).filter (fun i => decide (d.mem.getD i 0 = g))).map fun i => x.getD i 0) 0
    rw [List.foldl_map] at this
    rw [this]; omega
  have hylen : y.length = (declPop d).n := by rw [hn]; exact hy
  refine ⟨?_, ?_, ?_, ?_, ?_, ?_, ?_⟩
  · rw [groupSum_eq _ x none hlen hgp, f1_one, hn]
    congr 1
    apply List.map_congr_left
    intro g _
    rw [hv9 g, hsum1 g]
  · rw [project_eq _ y 0 none hylen hgp, f1_two]
    congr 1
    simp only [declPop, List.map_map, Function.comp_def, roleOk, if_true]
    conv => rhs; rw [← map_getD_range d.mem, List.map_map]
    rfl
  · rw [groupSum_eq _ x _ hlen hgp, f1_role d (10 + r) (by simp [isRoleOp]; omega), hn]
    congr 1
    apply List.map_congr_left
    intro g _
    rw [hv g, hsum g]
    simp only [roleFn, if_pos (show 10 ≤ 10 + r ∧ 10 + r < 20 by omega), Nat.add_sub_cancel_left]
  · rw [nbPersons_eq_sum_ones _ _ hgp]
    have hones : ((declPop d).ms.map fun _ => (1 : Int)) = List.replicate d.mem.length 1 := by
      rw [← declPop_len d]
      generalize (declPop d).ms = L
      induction L with
      | nil => rfl
      | cons _ _ ih => simp [List.replicate_succ, ih]
    rw [hones, groupSum_eq _ _ _ (by simp [declPop_len]) hgp,
      f1_role d (30 + r) (by simp [isRoleOp]; omega), hn]
    congr 1
    apply List.map_congr_left
    intro g _
    rw [valuesOf_declPop_digit d hρ r hr _ (by simp) g]
    simp only [roleFn, if_neg (show ¬(10 ≤ 30 + r ∧ 30 + r < 20) by omega),
      if_neg (show ¬(20 ≤ 30 + r ∧ 30 + r < 30) by omega),
      if_pos (show 30 ≤ 30 + r ∧ 30 + r < 40 by omega), Nat.add_sub_cancel_left]
    rw [roleSum_eq, foldl_add_sum]; omega
  · unfold groupAnyI
    rw [groupSum_eq _ x _ hlen hgp, f1_role d (40 + r) (by simp [isRoleOp]; omega), hn]
    simp only [List.map_map]
    congr 1
    apply List.map_congr_left
    intro g _
    simp only [Function.comp, roleFn, if_neg (show ¬(10 ≤ 40 + r ∧ 40 + r < 20) by omega),
      if_neg (show ¬(20 ≤ 40 + r ∧ 40 + r < 30) by omega), if_neg (show ¬(30 ≤ 40 + r ∧ 40 + r < 40) by omega),
      if_pos (show 40 ≤ 40 + r ∧ 40 + r < 50 by omega), Nat.add_sub_cancel_left]
    have hs : (valuesOf (declPop d) (roleOfDigit r) g x).sum = roleSum d r x g := by rw [hv g, hsum g]
    simp only [hs]
    by_cases h : roleSum d r x g > 0
    · simp [h]
    · simp [h]
  · rw [project_eq _ y 0 _ hylen hgp, f1_rproj d (80 + r) (by simp [isProjOp]; omega)]
    congr 1
    simp only [declPop, List.map_map, Function.comp_def, Nat.add_sub_cancel_left]
    apply List.map_congr_left
    intro i hi
    have hρi : d.roles.getD i 0 < 8 := by
      by_cases h : i < d.roles.length
      · rw [List.getD_eq_getElem?_getD, List.getElem?_eq_getElem h]; exact hρ _ (List.getElem_mem h)
      · rw [List.getD_eq_getElem?_getD, List.getElem?_eq_none (by omega)]; decide
    rw [roleOk_digit r _ _ hr hρi]
  · intro hnp
    have hne : (declPop d).ms ≠ [] := by
      intro h
      have h2 := congrArg List.length h
      rw [declPop_len] at h2
      simp only [List.length_nil] at h2
      omega
    refine ⟨⟨_, groupMax_eq _ x _ hlen hne hgp, ?_⟩, ⟨_, groupMin_eq _ x _ hlen hne hgp, ?_⟩, ?_⟩
    · rw [f1_role d (50 + r) (by simp [isRoleOp]; omega), hn, List.map_map]
      apply List.map_congr_left
      intro g _
      simp only [Function.comp, roleFn, if_neg (show ¬(10 ≤ 50 + r ∧ 50 + r < 20) by omega),
        if_neg (show ¬(20 ≤ 50 + r ∧ 50 + r < 30) by omega), if_neg (show ¬(30 ≤ 50 + r ∧ 50 + r < 40) by omega),
        if_neg (show ¬(40 ≤ 50 + r ∧ 50 + r < 50) by omega),
        if_pos (show 50 ≤ 50 + r ∧ 50 + r < 60 by omega), Nat.add_sub_cancel_left]
      rw [hv g]
      by_cases he : holderVals d r x g = []
      · rw [he]; rfl
      · rw [foldl_maxE _ he]; rfl
    · rw [f1_role d (60 + r) (by simp [isRoleOp]; omega), hn, List.map_map]
      apply List.map_congr_left
      intro g _
      simp only [Function.comp, roleFn, if_neg (show ¬(10 ≤ 60 + r ∧ 60 + r < 20) by omega),
        if_neg (show ¬(20 ≤ 60 + r ∧ 60 + r < 30) by omega), if_neg (show ¬(30 ≤ 60 + r ∧ 60 + r < 40) by omega),
        if_neg (show ¬(40 ≤ 60 + r ∧ 60 + r < 50) by omega), if_neg (show ¬(50 ≤ 60 + r ∧ 60 + r < 60) by omega),
        if_pos (show 60 ≤ 60 + r ∧ 60 + r < 70 by omega), Nat.add_sub_cancel_left]
      rw [hv g]
      by_cases he : holderVals d r x g = []
      · rw [he]; rfl
      · rw [foldl_minE _ he]; rfl
    · rw [groupAll_eq _ _ _ (by simpa using hlen) hne hgp,
        f1_role d (70 + r) (by simp [isRoleOp]; omega), hn, List.map_map]
      congr 1
      apply List.map_congr_left
      intro g _
      simp only [Function.comp, roleFn, if_neg (show ¬(10 ≤ 70 + r ∧ 70 + r < 20) by omega),
        if_neg (show ¬(20 ≤ 70 + r ∧ 70 + r < 30) by omega), if_neg (show ¬(30 ≤ 70 + r ∧ 70 + r < 40) by omega),
        if_neg (show ¬(40 ≤ 70 + r ∧ 70 + r < 50) by omega), if_neg (show ¬(50 ≤ 70 + r ∧ 70 + r < 60) by omega),
        if_neg (show ¬(60 ≤ 70 + r ∧ 70 + r < 70) by omega), Nat.add_sub_cancel_left]
      rw [valuesOf_map, hv g, List.all_map]
      unfold listAll
      by_cases hall : (holderVals d r x g).all (fun a => decide (a ≠ 0)) = true
      · rw [if_pos hall]
        simpa [Function.comp_def] using hall
      · rw [if_neg hall]
        have : ((holderVals d r x g).all (id ∘ fun v => decide (v ≠ 0))) = false := by
          simpa [Function.comp_def] using hall
        rw [this]; rfl

/-- `value_from_person(x, role)` for a role digit held at most once per group: the model of the
    code gives what the expression language's operation 20 + r gives -/
theorem f1_from_person_is_group_model (d : Decl) (hm : d.mem.length = d.nP) (hg : ∀ g ∈ d.mem, g < d.nG)
    (hρ : ∀ ρ ∈ d.roles, ρ < 8) (r : Nat) (hr : r < 8) (x : Val) (hx : x.length = d.nP)
    (hu : ∀ g, g < d.nG → (holderVals d r x g).length ≤ 1) :
    valueFromPerson (declPop d) x ⟨r, [], some 1⟩ 0 = .ok (f1 d (20 + r) x) := by
  have hlen : x.length = (declPop d).ms.length := by rw [declPop_len]; omega
  have hxm : x.length = d.mem.length := by omega
  have hgp := declPop_group_lt d hg
  have hrole : roleOfDigit r = some ⟨r, [], some 1⟩ := by
    unfold roleOfDigit; rw [if_neg (by omega), if_neg (by omega)]
  have hv : ∀ g, valuesOf (declPop d) (some ⟨r, [], some 1⟩) g x = holderVals d r x g := fun g => by
    rw [← hrole]; exact valuesOf_declPop_digit d hρ r (by omega) x hxm g
  rw [valueFromPerson_eq _ x _ 0 rfl hlen hgp (fun g hgn => by rw [hv g]; exact hu g hgn),
    f1_role d (20 + r) (by simp [isRoleOp]; omega)]
  congr 1
  apply List.map_congr_left
  intro g hgm
  have hgn : g < d.nG := List.mem_range.mp hgm
  simp only [roleFn, if_neg (show ¬(10 ≤ 20 + r ∧ 20 + r < 20) by omega),
    if_pos (show 20 ≤ 20 + r ∧ 20 + r < 30 by omega), Nat.add_sub_cancel_left]
  rw [hv g, roleSum_eq, foldl_add_sum]
  have := hu g hgn
  match hL : holderVals d r x g with
  | [] => rfl
  | [a] => simp
  | _ :: _ :: _ => rw [hL] at this; simp at this

/-! ## parts of a group population: the order-dependent operations under merge -/

theorem increasing_eq_of_mem_iff (l₁ l₂ : List Nat) (h1 : l₁.Pairwise (· < ·)) (h2 : l₂.Pairwise (· < ·))
    (h : ∀ a, a ∈ l₁ ↔ a ∈ l₂) : l₁ = l₂ := by
  have n1 : l₁.Nodup := h1.imp (fun hab => Nat.ne_of_lt hab)
  have n2 : l₂.Nodup := h2.imp (fun hab => Nat.ne_of_lt hab)
  have hp : l₁.Perm l₂ := (List.perm_ext_iff_of_nodup n1 n2).mpr h
  exact List.Perm.eq_of_pairwise (le := (· < ·)) (fun a b _ _ hab hba => absurd hab (Nat.lt_asymm hba)) h1 h2 hp

/-- the members of a kept group, with their values, are the same list in the part and in the whole -/
theorem valuesOf_restrictPop {α : Type} (p : Pop) (sel gsel : List Nat) (hcl : ClosedPop p sel gsel)
    (a : List α) (d : α) (ha : a.length = p.ms.length) (g' : Nat) (hg' : g' < gsel.length) :
    valuesOf (restrictPop p sel gsel) none g' (selArr sel a d) = valuesOf p none (gsel.getD g' 0) a := by
  obtain ⟨hsel, hgsel, hinc, hnd, hiff⟩ := hcl
  rw [valuesOf_none_eq_idx p a d ha]
  have hz : (restrictPop p sel gsel).ms.zip (selArr sel a d)
      = sel.map (fun i => ((⟨posIn gsel (p.ms.getD i default).group, (p.ms.getD i default).role⟩ : Member), a.getD i d)) := by
    simp only [restrictPop, selArr]
    exact zip_map_same sel _ _
  unfold valuesOf
  rw [hz, List.filter_map, List.map_map]
  have hfil : sel.filter ((fun ma : Member × α => ma.1.group == g' && roleOk none ma.1) ∘
        fun i => ((⟨posIn gsel (p.ms.getD i default).group, (p.ms.getD i default).role⟩ : Member), a.getD i d))
      = membersIdx p.ids (gsel.getD g' 0) := by
    apply increasing_eq_of_mem_iff
    · exact hinc.filter _
    · exact membersIdx_pairwise_lt _ _
    · intro i
      have hidl : p.ids.length = p.ms.length := by simp [Pop.ids]
      have hidg : p.ids.getD i 0 = (p.ms.getD i default).group := getD_map' p.ms (·.group) i default
      simp only [List.mem_filter, Function.comp, roleOk, Bool.and_true, beq_iff_eq, membersIdx, List.mem_range, hidl, hidg]
      constructor
      · rintro ⟨his, hpos⟩
        have hil := hsel i his
        have hgin := (hiff i hil).mp his
        exact ⟨hil, (posIn_eq_iff gsel hnd _ g' hgin hg').mp hpos⟩
      · rintro ⟨hil, hgeq⟩
        have hgin : (p.ms.getD i default).group ∈ gsel := by
          rw [hgeq]; exact mem_getD_mem gsel g' hg'
        exact ⟨(hiff i hil).mpr hgin, (posIn_eq_iff gsel hnd _ g' hgin hg').mpr hgeq⟩
  rw [hfil]
  rfl


theorem restrictPop_wf (p : Pop) (sel gsel : List Nat) (hcl : ClosedPop p sel gsel) :
    ∀ m ∈ (restrictPop p sel gsel).ms, m.group < (restrictPop p sel gsel).n := by
  intro m hm
  simp only [restrictPop, List.mem_map] at hm
  obtain ⟨i, hi, rfl⟩ := hm
  exact posIn_lt gsel _ ((hcl.2.2.2.2 i (hcl.1 i hi)).mp hi)

/-- MERGE for the order-dependent operation: the n-th member of every kept group is the same
    person in the part as in the whole -/
theorem valueNth_restrictPop {α : Type} (p : Pop) (sel gsel : List Nat) (hcl : ClosedPop p sel gsel)
    (hg : ∀ m ∈ p.ms, m.group < p.n) (a : List α) (d : α) (ha : a.length = p.ms.length) (hne : sel ≠ []) (k : Nat) :
    ∃ r, valueNth p k a d = .ok r ∧ r.length = p.n ∧
      valueNth (restrictPop p sel gsel) k (selArr sel a d) d = .ok (selArr gsel r d) := by
  have hpne : p.ms ≠ [] := by
    intro h
    cases hs : sel with
    | nil => exact hne hs
    | cons i _ =>
      have := hcl.1 i (by rw [hs]; simp)
      rw [h] at this; simp at this
  have hqne : (restrictPop p sel gsel).ms ≠ [] := by
    intro h
    have := congrArg List.length h
    simp only [restrictPop, List.length_map, List.length_nil] at this
    exact hne (List.eq_nil_of_length_eq_zero this)
  refine ⟨_, valueNth_eq p k a d ha hpne hg, by simp, ?_⟩
  rw [valueNth_eq (restrictPop p sel gsel) k (selArr sel a d) d (by simp [restrictPop, selArr]) hqne
    (restrictPop_wf p sel gsel hcl)]
  congr 1
  show (List.range gsel.length).map _ = selArr gsel _ d
  unfold selArr
  conv => rhs; rw [← map_getD_range gsel, List.map_map]
  apply List.map_congr_left
  intro g' hg'
  have hg'l : g' < gsel.length := List.mem_range.mp hg'
  have hv := valuesOf_restrictPop p sel gsel hcl a d ha g' hg'l
  unfold selArr at hv
  rw [hv]
  have hgn : gsel.getD g' 0 < p.n := hcl.2.1 _ (mem_getD_mem gsel g' hg'l)
  simp only [Function.comp]
  rw [getD_range_map _ _ _ _ hgn]

end

end OFCore.Equivariance
