import OFCore.Lemmas.EngineStore
/-!
# What-if: the machine that marks the WHOLE stack at a spiral (candidate repair of F-C02b)

`Sys.markAll = true` is not the code: it is the repair that was tried and not landed (it breaks a
baseline test and un-caches every ancestor of any spiral).  For that machine the full statement
of C02 holds: after every top-level request NO retained entry is tainted, hence (ghost
invariant) every retained value is the meaning of its node.  With `markAll = false` — the code —
`C02_retained_tainted_counterexample` shows the statement fails.
-/
set_option linter.unusedVariables false
namespace OFCore.Engine

variable {P : Type} [DecidableEq P]

theorem markSpiral_all (v : Nat) : ∀ (stack : List (Node P)) (cnt : Nat), stack.length < cnt →
    markSpiral v cnt stack = stack
  | [], _, _ => rfl
  | k :: r, cnt, h => by
    simp only [List.length_cons] at h
    unfold markSpiral
    by_cases hk : k.1 = v
    · have h1 : ¬ cnt ≤ 1 := by omega
      simp only [hk, if_true, h1, if_false]
      rw [markSpiral_all v r (cnt - 1) (by omega)]
    · simp only [hk, if_false]
      rw [markSpiral_all v r cnt (by omega)]

/-- every readable tainted entry is marked for deletion -/
def TMarked (sys : Sys P) (s : St P) : Prop :=
  ∀ k x, lookup s.cache k = some (x, true) → k ∈ s.inval.map sys.slot

theorem tmarked_mono (sys : Sys P) {c : Cache P} {st : List (Node P)} {i i' : List (Node P)}
    (h : TMarked sys ⟨c, st, i⟩) (hsub : ∀ k ∈ i, k ∈ i') (st' : List (Node P)) : TMarked sys ⟨c, st', i'⟩ := by
  intro k x hl
  have := h k x hl
  simp only [List.mem_map] at this ⊢
  obtain ⟨j, hj, hje⟩ := this
  exact ⟨j, hsub j hj, hje⟩

theorem tmarked_store (sys : Sys P) (s : St P) (k : Node P) (x : Val) (g : Bool) (st' : List (Node P))
    (h : TMarked sys s) (hg : g = true → k ∈ s.inval.map sys.slot) :
    TMarked sys ⟨store sys s.cache k x g, st', s.inval⟩ := by
  intro k' y hl
  unfold store at hl
  split at hl
  · exact h k' y hl
  · simp only [lookup] at hl
    split at hl
    · rename_i heq
      simp only [Option.some.injEq, Prod.mk.injEq] at hl
      subst heq
      exact hg hl.2
    · exact h k' y hl

mutual
theorem run_marks (sys : Sys P) (hm : sys.markAll = true) : ∀ n s v p r g s', TMarked sys s →
    run sys n s v p = some (r, g, s') →
    TMarked sys s' ∧ (∀ k ∈ s.inval, k ∈ s'.inval) ∧ (g = true → ∀ k ∈ s.stack, k ∈ s'.inval)
  | 0, _, _, _, _, _, _, _, h => by simp [run] at h
  | n+1, s, v, p, r, g, s', ht, h => by
    unfold run at h
    split at h
    · rename_i x gx hx
      simp only [Option.some.injEq, Prod.mk.injEq] at h
      obtain ⟨rfl, rfl, rfl⟩ := h
      by_cases hin : sys.slot (v, p) ∈ s.inval.map sys.slot
      · simp only [hin, if_true]
        refine ⟨tmarked_mono sys (c := s.cache) (st := s.stack) (i := s.inval) ht (fun k hk => List.mem_append_right _ hk) _,
          fun k hk => List.mem_append_right _ hk, fun _ k hk => List.mem_append_left _ hk⟩
      · simp only [hin, if_false]
        refine ⟨ht, fun k hk => hk, fun hg => ?_⟩
        subst hg
        exact absurd (ht _ _ hx) hin
    · split at h
      · simp only [Option.some.injEq, Prod.mk.injEq] at h
        obtain ⟨rfl, rfl, rfl⟩ := h
        exact ⟨ht, fun k hk => hk, fun hg => by cases hg⟩
      · split at h
        · simp only [Option.some.injEq, Prod.mk.injEq] at h
          obtain ⟨rfl, rfl, rfl⟩ := h
          exact ⟨ht, fun k hk => hk, fun hg => by cases hg⟩
        · split at h
          · -- spiral: with `markAll` every frame is marked
            simp only [Option.some.injEq, Prod.mk.injEq] at h
            obtain ⟨rfl, rfl, rfl⟩ := h
            simp only [hm, if_true]
            rw [markSpiral_all v s.stack (s.stack.length + 1) (by omega)]
            refine ⟨tmarked_mono sys (c := s.cache) (st := s.stack) (i := s.inval) ht
                (fun k hk => List.mem_cons_of_mem _ (List.mem_append_right _ hk)) _,
              fun k hk => List.mem_cons_of_mem _ (List.mem_append_right _ hk),
              fun _ k hk => List.mem_cons_of_mem _ (List.mem_append_left _ hk)⟩
          · split at h
            · simp only [Option.some.injEq, Prod.mk.injEq] at h
              obtain ⟨rfl, rfl, rfl⟩ := h
              exact ⟨tmarked_store sys s _ _ false s.stack ht (fun hg => by cases hg), fun k hk => hk, fun hg => by cases hg⟩
            · rename_i e hf
              have ht0 : TMarked sys { s with stack := (v, p) :: s.stack } := ht
              split at h
              · cases h
              · rename_i er g1 s1 hr
                obtain ⟨i1, i2, i3⟩ := runE_marks sys hm n _ e _ _ _ ht0 hr
                simp only [Option.some.injEq, Prod.mk.injEq] at h
                obtain ⟨rfl, rfl, rfl⟩ := h
                refine ⟨tmarked_mono sys (c := s1.cache) (st := s1.stack) (i := s1.inval) i1 (fun k hk => hk) _, i2,
                  fun hg k hk => i3 hg k (List.mem_cons_of_mem _ hk)⟩
              · rename_i x g1 s1 hr
                obtain ⟨i1, i2, i3⟩ := runE_marks sys hm n _ e _ _ _ ht0 hr
                simp only [Option.some.injEq, Prod.mk.injEq] at h
                obtain ⟨rfl, rfl, rfl⟩ := h
                refine ⟨tmarked_store sys s1 _ _ g1 _ i1 (fun hg => List.mem_map_of_mem (i3 hg (v, p) List.mem_cons_self)), i2,
                  fun hg k hk => i3 hg k (List.mem_cons_of_mem _ hk)⟩
theorem runE_marks (sys : Sys P) (hm : sys.markAll = true) : ∀ n s e r g s', TMarked sys s →
    runE sys n s e = some (r, g, s') →
    TMarked sys s' ∧ (∀ k ∈ s.inval, k ∈ s'.inval) ∧ (g = true → ∀ k ∈ s.stack, k ∈ s'.inval)
  | _, s, .const c, r, g, s', ht, h => by
    simp only [runE, Option.some.injEq, Prod.mk.injEq] at h; obtain ⟨rfl, rfl, rfl⟩ := h
    exact ⟨ht, fun k hk => hk, fun hg => by cases hg⟩
  | _, s, .bad, r, g, s', ht, h => by
    simp only [runE, Option.some.injEq, Prod.mk.injEq] at h; obtain ⟨rfl, rfl, rfl⟩ := h
    exact ⟨ht, fun k hk => hk, fun hg => by cases hg⟩
  | n, s, .ref v p, r, g, s', ht, h => by
    simp only [runE] at h; exact run_marks sys hm n s v p r g s' ht h
  | n, s, .fail id a, r, g, s', ht, h => by
    simp only [runE] at h
    split at h
    · simp only [Option.some.injEq, Prod.mk.injEq] at h; obtain ⟨rfl, rfl, rfl⟩ := h
      exact ⟨ht, fun k hk => hk, fun hg => by cases hg⟩
    · exact runE_marks sys hm n s a r g s' ht h
  | n, s, .op1 o a, r, g, s', ht, h => by
    simp only [runE] at h
    split at h
    · cases h
    · rename_i e g1 s1 ha
      simp only [Option.some.injEq, Prod.mk.injEq] at h; obtain ⟨rfl, rfl, rfl⟩ := h
      exact runE_marks sys hm n s a _ _ _ ht ha
    · rename_i x g1 s1 ha
      simp only [Option.some.injEq, Prod.mk.injEq] at h; obtain ⟨rfl, rfl, rfl⟩ := h
      exact runE_marks sys hm n s a _ _ _ ht ha
  | n, s, .op2 o a b, r, g, s', ht, h => by
    simp only [runE] at h
    split at h
    · cases h
    · rename_i e g1 s1 ha
      simp only [Option.some.injEq, Prod.mk.injEq] at h; obtain ⟨rfl, rfl, rfl⟩ := h
      exact runE_marks sys hm n s a _ _ _ ht ha
    · rename_i x g1 s1 ha
      obtain ⟨a1, a2, a3⟩ := runE_marks sys hm n s a _ _ _ ht ha
      have hs1 := runE_stack sys n s a _ _ _ ha
      split at h
      · cases h
      · rename_i e g2 s2 hb
        obtain ⟨b1, b2, b3⟩ := runE_marks sys hm n s1 b _ _ _ a1 hb
        simp only [Option.some.injEq, Prod.mk.injEq] at h; obtain ⟨rfl, rfl, rfl⟩ := h
        refine ⟨b1, fun k hk => b2 k (a2 k hk), fun hg k hk => ?_⟩
        cases hg1 : g1 with
        | true => exact b2 k (a3 hg1 k hk)
        | false =>
          rw [hg1] at hg
          exact b3 (by simpa using hg) k (hs1 ▸ hk)
      · rename_i y g2 s2 hb
        obtain ⟨b1, b2, b3⟩ := runE_marks sys hm n s1 b _ _ _ a1 hb
        simp only [Option.some.injEq, Prod.mk.injEq] at h; obtain ⟨rfl, rfl, rfl⟩ := h
        refine ⟨b1, fun k hk => b2 k (a2 k hk), fun hg k hk => ?_⟩
        cases hg1 : g1 with
        | true => exact b2 k (a3 hg1 k hk)
        | false =>
          rw [hg1] at hg
          exact b3 (by simpa using hg) k (hs1 ▸ hk)
end

/-- one top-level request of the whole-stack-marking machine leaves no readable tainted entry -/
theorem request_no_taint (sys : Sys P) (hm : sys.markAll = true) (n : Nat) (s : St P) (ht : TMarked sys s)
    (hs : s.stack = []) (k : Node P) (r : Res) (g : Bool) (s' : St P) (h : request sys n s k = some (r, g, s')) :
    (∀ j x g', lookup s'.cache j = some (x, g') → g' = false) ∧ s'.stack = [] ∧ s'.inval = [] := by
  unfold request at h
  cases hrun : run sys n s k.1 k.2 with
  | none => rw [hrun] at h; cases h
  | some res =>
    obtain ⟨r1, g1, s1⟩ := res
    rw [hrun] at h
    simp only [Option.some.injEq, Prod.mk.injEq] at h
    obtain ⟨rfl, rfl, rfl⟩ := h
    have hst := run_stack sys n s k.1 k.2 r1 g1 s1 hrun
    rw [hs] at hst
    rw [if_pos hst]
    obtain ⟨t1, _, _⟩ := run_marks sys hm n s k.1 k.2 r1 g1 s1 ht hrun
    refine ⟨?_, by rw [(purge_spec sys s1 k).2.1, hst], (purge_spec sys s1 k).1⟩
    intro j x g' hl
    rw [(purge_spec sys s1 j).2.2] at hl
    split at hl
    · cases hl
    · rename_i hj
      cases g' with
      | false => rfl
      | true => exact absurd (t1 j x hl) hj

theorem requests_no_taint (sys : Sys P) (hm : sys.markAll = true) (n : Nat) :
    ∀ (ks : List (Node P)) (s : St P) (rs : List Res) (s' : St P),
      (∀ j x g', lookup s.cache j = some (x, g') → g' = false) → s.stack = [] → s.inval = [] →
      requests sys n s ks = some (rs, s') →
      (∀ j x g', lookup s'.cache j = some (x, g') → g' = false) := by
  intro ks
  induction ks with
  | nil => intro s rs s' h0 _ _ h; simp only [requests, Option.some.injEq, Prod.mk.injEq] at h; rw [← h.2]; exact h0
  | cons k ks ih =>
    intro s rs s' h0 hs hi h
    simp only [requests] at h
    cases hr : request sys n s k with
    | none => rw [hr] at h; cases h
    | some res =>
      obtain ⟨r, g, s1⟩ := res
      rw [hr] at h
      simp only at h
      cases hrs : requests sys n s1 ks with
      | none => rw [hrs] at h; cases h
      | some res2 =>
        obtain ⟨rs2, s2⟩ := res2
        rw [hrs] at h
        simp only [Option.some.injEq, Prod.mk.injEq] at h
        rw [← h.2]
        have ht : TMarked sys s := fun j x hl => by cases h0 j x true hl
        obtain ⟨c1, c2, c3⟩ := request_no_taint sys hm n s ht hs k r g s1 hr
        exact ih s1 rs2 s2 c1 c2 c3 hrs


/-! ## what the code's marking rule marks (`markAll = false`) -/

/-- the frames a spiral marks are a prefix of the stack (the most recent frames) -/
theorem markSpiral_prefix (v : Nat) : ∀ (st : List (Node P)) (cnt : Nat), markSpiral v cnt st <+: st := by
  intro st
  induction st with
  | nil => intro cnt; simp [markSpiral]
  | cons k r ih =>
    intro cnt
    simp only [markSpiral]
    split
    · split
      · exact ⟨r, rfl⟩
      · exact (List.prefix_cons_inj k).2 (ih _)
    · exact (List.prefix_cons_inj k).2 (ih _)

/-- … which stops at the `cnt`-th frame of the spiralling variable: it holds exactly `cnt` frames
    of that variable and ends with one -/
theorem markSpiral_count (v : Nat) : ∀ (st : List (Node P)) (cnt : Nat), 1 ≤ cnt →
    cnt ≤ (st.filter (fun k => k.1 = v)).length →
    ((markSpiral v cnt st).filter (fun k => k.1 = v)).length = cnt ∧
    ∃ k, (markSpiral v cnt st).getLast? = some k ∧ k.1 = v := by
  intro st
  induction st with
  | nil => intro cnt h1 h2; simp at h2; omega
  | cons k r ih =>
    intro cnt h1 h2
    simp only [markSpiral]
    by_cases hk : k.1 = v
    · simp only [hk, if_true]
      by_cases hc : cnt ≤ 1
      · simp only [hc, if_true]
        have : cnt = 1 := by omega
        subst this
        exact ⟨by simp [hk], k, by simp, hk⟩
      · simp only [hc, if_false]
        have h2' : cnt - 1 ≤ (r.filter (fun k => k.1 = v)).length := by
          simp [List.filter_cons, hk] at h2; omega
        obtain ⟨i1, j, i2, i3⟩ := ih (cnt - 1) (by omega) h2'
        refine ⟨by simp [List.filter_cons, hk, i1]; omega, j, ?_, i3⟩
        cases hm : markSpiral v (cnt - 1) r with
        | nil => rw [hm] at i2; simp at i2
        | cons a b => rw [hm] at i2; simpa [List.getLast?_cons_cons] using i2
    · simp only [hk, if_false]
      have h2' : cnt ≤ (r.filter (fun k => k.1 = v)).length := by
        simpa [List.filter_cons, hk] using h2
      obtain ⟨i1, j, i2, i3⟩ := ih cnt h1 h2'
      refine ⟨by simp [List.filter_cons, hk, i1], j, ?_, i3⟩
      cases hm : markSpiral v cnt r with
      | nil => rw [hm] at i2; simp at i2
      | cons a b => rw [hm] at i2; simpa [List.getLast?_cons_cons] using i2

end OFCore.Engine
