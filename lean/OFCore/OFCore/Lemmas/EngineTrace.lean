import OFCore.EngineTrace
import OFCore.Lemmas.Engine
/-! # The instrumented evaluator computes what `runE` computes, and records exactly the reads -/
set_option linter.unusedVariables false
set_option linter.unusedSectionVars false
namespace OFCore.Engine

variable {P : Type} [DecidableEq P]

theorem runET_erase (sys : Sys P) (n : Nat) : ∀ (e : Expr P) (s : St P),
    (runET sys n s e).map eraseT = runE sys n s e
  | .const k, s => by simp [runET, runE, eraseT]
  | .bad, s => by simp [runET, runE, eraseT]
  | .ref v p, s => by
    simp only [runET, runE]
    cases run sys n s v p with
    | none => rfl
    | some r => obtain ⟨r, g, s'⟩ := r; rfl
  | .fail id a, s => by
    simp only [runET, runE]
    split
    · rfl
    · exact runET_erase sys n a s
  | .op1 o a, s => by
    have ih := runET_erase sys n a s
    simp only [runET, runE]
    rw [← ih]
    cases runET sys n s a with
    | none => rfl
    | some r =>
      obtain ⟨r, g, s1, t⟩ := r
      cases r <;> rfl
  | .op2 o a b, s => by
    have iha := runET_erase sys n a s
    simp only [runET, runE]
    rw [← iha]
    cases runET sys n s a with
    | none => rfl
    | some r =>
      obtain ⟨r, g1, s1, t1⟩ := r
      cases r with
      | error e => rfl
      | ok x =>
        have ihb := runET_erase sys n b s1
        simp only [Option.map_some, eraseT]
        rw [← ihb]
        cases runET sys n s1 b with
        | none => rfl
        | some r2 =>
          obtain ⟨r2, g2, s2, t2⟩ := r2
          cases r2 <;> rfl

/-- a completed evaluation recorded every read of the expression, in order, all successful;
    a failed one recorded a prefix, the last recorded read being the only one that may have failed -/
theorem runET_reads (sys : Sys P) (n : Nat) : ∀ (e : Expr P) (s : St P) (r : Res) (g : Bool) (s' : St P)
    (t : List (Node P × Res)), runET sys n s e = some (r, g, s', t) →
    (t.map (·.1)) <+: refs e ∧ ((∃ x, r = .ok x) → t.map (·.1) = refs e ∧ ∀ kr ∈ t, ∃ y, kr.2 = .ok y)
  | .const k, s, r, g, s', t, h => by
    simp only [runET, Option.some.injEq, Prod.mk.injEq] at h
    obtain ⟨_, _, _, rfl⟩ := h
    simp [refs]
  | .bad, s, r, g, s', t, h => by
    simp only [runET, Option.some.injEq, Prod.mk.injEq] at h
    obtain ⟨_, _, _, rfl⟩ := h
    simp [refs]
  | .ref v p, s, r, g, s', t, h => by
    simp only [runET] at h
    cases hr : run sys n s v p with
    | none => rw [hr] at h; cases h
    | some res =>
      obtain ⟨r0, g0, s0⟩ := res
      rw [hr] at h
      simp only [Option.some.injEq, Prod.mk.injEq] at h
      obtain ⟨rfl, _, _, rfl⟩ := h
      refine ⟨by simp [refs], ?_⟩
      rintro ⟨x, rfl⟩
      simp [refs]
  | .fail id a, s, r, g, s', t, h => by
    simp only [runET] at h
    split at h
    · simp only [Option.some.injEq, Prod.mk.injEq] at h
      obtain ⟨rfl, _, _, rfl⟩ := h
      refine ⟨by simp, ?_⟩
      rintro ⟨x, hx⟩; cases hx
    · simpa [refs] using runET_reads sys n a s r g s' t h
  | .op1 o a, s, r, g, s', t, h => by
    simp only [runET] at h
    cases ha : runET sys n s a with
    | none => rw [ha] at h; cases h
    | some res =>
      obtain ⟨ra, ga, sa, ta⟩ := res
      rw [ha] at h
      have ih := runET_reads sys n a s ra ga sa ta ha
      cases ra with
      | error e =>
        simp only [Option.some.injEq, Prod.mk.injEq] at h
        obtain ⟨rfl, _, _, rfl⟩ := h
        refine ⟨by simpa [refs] using ih.1, ?_⟩
        rintro ⟨x, hx⟩; cases hx
      | ok x =>
        simp only [Option.some.injEq, Prod.mk.injEq] at h
        obtain ⟨rfl, _, _, rfl⟩ := h
        refine ⟨by simpa [refs] using ih.1, fun _ => ?_⟩
        simpa [refs] using ih.2 ⟨x, rfl⟩
  | .op2 o a b, s, r, g, s', t, h => by
    simp only [runET] at h
    cases ha : runET sys n s a with
    | none => rw [ha] at h; cases h
    | some res =>
      obtain ⟨ra, ga, sa, ta⟩ := res
      rw [ha] at h
      have iha := runET_reads sys n a s ra ga sa ta ha
      cases ra with
      | error e =>
        simp only [Option.some.injEq, Prod.mk.injEq] at h
        obtain ⟨rfl, _, _, rfl⟩ := h
        refine ⟨?_, ?_⟩
        · simp only [refs]; exact List.IsPrefix.trans iha.1 (List.prefix_append _ _)
        · rintro ⟨x, hx⟩; cases hx
      | ok x =>
        obtain ⟨hta, hoka⟩ := iha.2 ⟨x, rfl⟩
        simp only at h
        cases hb : runET sys n sa b with
        | none => rw [hb] at h; cases h
        | some res2 =>
          obtain ⟨rb, gb, sb, tb⟩ := res2
          rw [hb] at h
          have ihb := runET_reads sys n b sa rb gb sb tb hb
          cases rb with
          | error e =>
            simp only [Option.some.injEq, Prod.mk.injEq] at h
            obtain ⟨rfl, _, _, rfl⟩ := h
            refine ⟨?_, ?_⟩
            · simp only [refs, List.map_append, hta]
              exact (List.prefix_append_right_inj _).2 ihb.1
            · rintro ⟨y, hy⟩; cases hy
          | ok y =>
            simp only [Option.some.injEq, Prod.mk.injEq] at h
            obtain ⟨rfl, _, _, rfl⟩ := h
            obtain ⟨htb, hokb⟩ := ihb.2 ⟨y, rfl⟩
            refine ⟨?_, fun _ => ⟨?_, ?_⟩⟩
            · simp only [refs, List.map_append, hta, htb]; exact List.prefix_refl _
            · simp only [refs, List.map_append, hta, htb]
            · intro kr hkr
              rcases List.mem_append.1 hkr with h1 | h1
              · exact hoka kr h1
              · exact hokb kr h1

end OFCore.Engine
