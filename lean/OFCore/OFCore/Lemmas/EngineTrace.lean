import OFCore.EngineTrace
import OFCore.Lemmas.Engine
/-! # The instrumented evaluator computes what `runE` computes, and records exactly the reads -/
set_option linter.unusedVariables false
set_option linter.unusedSectionVars false
namespace OFCore.Engine

variable {P : Type} [DecidableEq P]

theorem runET_erase (sys : Sys P) (n : Nat) : ∀ (e : Expr P) (s : St P),
    (runET sys n s e).map eraseT = runE sys n s e
  | .const k, s => by simp [runET, runE, eraseT]
  | .bad, s => by simp [runET, runE, eraseT]
  | .ref v p, s => by
    simp only [runET, runE]
    cases run sys n s v p with
    | none => rfl
    | some r => obtain ⟨r, g, s'⟩ := r; rfl
  | .fail id a, s => by
    simp only [runET, runE]
    split
    · rfl
    · exact runET_erase sys n a s
  | .op1 o a, s => by
    have ih := runET_erase sys n a s
    simp only [runET, runE]
    rw [← ih]
    cases runET sys n s a with
    | none => rfl
    | some r =>
      obtain ⟨r, g, s1, t⟩ := r
      cases r <;> rfl
  | .op2 o a b, s => by
    have iha := runET_erase sys n a s
    simp only [runET, runE]
    rw [← iha]
    cases runET sys n s a with
    | none => rfl
    | some r =>
      obtain ⟨r, g1, s1, t1⟩ := r
      cases r with
      | error e => rfl
      | ok x =>
        have ihb := runET_erase sys n b s1
        simp only [Option.map_some, eraseT]
        rw [← ihb]
        cases runET sys n s1 b with
        | none => rfl
        | some r2 =>
          obtain ⟨r2, g2, s2, t2⟩ := r2
          cases r2 <;> rfl

/-- a completed evaluation recorded every read of the expression, in order, all successful;
    a failed one recorded a prefix, the last recorded read being the only one that may have failed -/
theorem runET_reads (sys : Sys P) (n : Nat) : ∀ (e : Expr P) (s : St P) (r : Res) (g : Bool) (s' : St P)
    (t : List (Node P × Res)), runET sys n s e = some (r, g, s', t) →
    (t.map (·.1)) <+: refs e ∧ ((∃ x, r = .ok x) → t.map (·.1) = refs e ∧ ∀ kr ∈ t, ∃ y, kr.2 = .ok y)
  | .const k, s, r, g, s', t, h => by
    simp only [runET, Option.some.injEq, Prod.mk.injEq] at h
    obtain ⟨_, _, _, rfl⟩ := h
    simp [refs]
  | .bad, s, r, g, s', t, h => by
    simp only [runET, Option.some.injEq, Prod.mk.injEq] at h
    obtain ⟨_, _, _, rfl⟩ := h
    simp [refs]
  | .ref v p, s, r, g, s', t, h => by
    simp only [runET] at h
    cases hr : run sys n s v p with
    | none => rw [hr] at h; cases h
    | some res =>
      obtain ⟨r0, g0, s0⟩ := res
      rw [hr] at h
      simp only [Option.some.injEq, Prod.mk.injEq] at h
      obtain ⟨rfl, _, _, rfl⟩ := h
      refine ⟨by simp [refs], ?_⟩
      rintro ⟨x, rfl⟩
      simp [refs]
  | .fail id a, s, r, g, s', t, h => by
    simp only [runET] at h
    split at h
    · simp only [Option.some.injEq, Prod.mk.injEq] at h
      obtain ⟨rfl, _, _, rfl⟩ := h
      refine ⟨by simp, ?_⟩
      rintro ⟨x, hx⟩; cases hx
    · simpa [refs] using runET_reads sys n a s r g s' t h
  | .op1 o a, s, r, g, s', t, h => by
    simp only [runET] at h
    cases ha : runET sys n s a with
    | none => rw [ha] at h; cases h
    | some res =>
      obtain ⟨ra, ga, sa, ta⟩ := res
      rw [ha] at h
      have ih := runET_reads sys n a s ra ga sa ta ha
      cases ra with
      | error e =>
        simp only [Option.some.injEq, Prod.mk.injEq] at h
        obtain ⟨rfl, _, _, rfl⟩ := h
        refine ⟨by simpa [refs] using ih.1, ?_⟩
        rintro ⟨x, hx⟩; cases hx
      | ok x =>
        simp only [Option.some.injEq, Prod.mk.injEq] at h
        obtain ⟨rfl, _, _, rfl⟩ := h
        refine ⟨by simpa [refs] using ih.1, fun _ => ?_⟩
        simpa [refs] using ih.2 ⟨x, rfl⟩
  | .op2 o a b, s, r, g, s', t, h => by
    simp only [runET] at h
    cases ha : runET sys n s a with
    | none => rw [ha] at h; cases h
    | some res =>
      obtain ⟨ra, ga, sa, ta⟩ := res
      rw [ha] at h
      have iha := runET_reads sys n a s ra ga sa ta ha
      cases ra with
      | error e =>
        simp only [Option.some.injEq, Prod.mk.injEq] at h
        obtain ⟨rfl, _, _, rfl⟩ := h
        refine ⟨?_, ?_⟩
        · simp only [refs]; exact List.IsPrefix.trans iha.1 (List.prefix_append _ _)
        · rintro ⟨x, hx⟩; cases hx
      | ok x =>
        obtain ⟨hta, hoka⟩ := iha.2 ⟨x, rfl⟩
        simp only at h
        cases hb : runET sys n sa b with
        | none => rw [hb] at h; cases h
        | some res2 =>
          obtain ⟨rb, gb, sb, tb⟩ := res2
          rw [hb] at h
          have ihb := runET_reads sys n b sa rb gb sb tb hb
          cases rb with
          | error e =>
            simp only [Option.some.injEq, Prod.mk.injEq] at h
            obtain ⟨rfl, _, _, rfl⟩ := h
            refine ⟨?_, ?_⟩
            · simp only [refs, List.map_append, hta]
              exact (List.prefix_append_right_inj _).2 ihb.1
            · rintro ⟨y, hy⟩; cases hy
          | ok y =>
            simp only [Option.some.injEq, Prod.mk.injEq] at h
            obtain ⟨rfl, _, _, rfl⟩ := h
            obtain ⟨htb, hokb⟩ := ihb.2 ⟨y, rfl⟩
            refine ⟨?_, fun _ => ⟨?_, ?_⟩⟩
            · simp only [refs, List.map_append, hta, htb]; exact List.prefix_refl _
            · simp only [refs, List.map_append, hta, htb]
            · intro kr hkr
              rcases List.mem_append.1 hkr with h1 | h1
              · exact hoka kr h1
              · exact hokb kr h1


/-! ## the whole-request log -/

mutual
theorem runL_erase (sys : Sys P) : ∀ (n : Nat) (s : St P) (v : Nat) (p : P),
    (runL sys n s v p).map eraseL = run sys n s v p
  | 0, _, _, _ => by simp [runL, run]
  | n+1, s, v, p => by
    unfold runL run
    cases hl : lookup s.cache (sys.slot (v, p)) with
    | some xg => obtain ⟨x, g⟩ := xg; rfl
    | none =>
      simp only
      cases hin : sys.input v p with
      | some x => rfl
      | none =>
        simp only
        by_cases hst : (v, p) ∈ s.stack
        · rw [if_pos hst, if_pos hst]; rfl
        · rw [if_neg hst, if_neg hst]
          by_cases hsp : sys.msl ≤ (s.stack.filter (fun k => k.1 = v)).length
          · rw [if_pos hsp, if_pos hsp]; rfl
          · rw [if_neg hsp, if_neg hsp]
            cases hf : sys.formula v p with
            | none => rfl
            | some e =>
              simp only
              have ih := runLE_erase sys n { s with stack := (v, p) :: s.stack } e
              rw [← ih]
              cases runLE sys n { s with stack := (v, p) :: s.stack } e with
              | none => rfl
              | some res =>
                obtain ⟨r, g, s1, t, l⟩ := res
                cases r <;> rfl
theorem runLE_erase (sys : Sys P) : ∀ (n : Nat) (s : St P) (e : Expr P),
    (runLE sys n s e).map eraseLE = runE sys n s e
  | _, s, .const k => by simp [runLE, runE, eraseLE]
  | _, s, .bad => by simp [runLE, runE, eraseLE]
  | n, s, .ref v p => by
    simp only [runLE, runE]
    rw [← runL_erase sys n s v p]
    cases runL sys n s v p with
    | none => rfl
    | some res => obtain ⟨r, g, s', l⟩ := res; rfl
  | n, s, .fail id a => by
    simp only [runLE, runE]
    split
    · rfl
    · exact runLE_erase sys n s a
  | n, s, .op1 o a => by
    have ih := runLE_erase sys n s a
    simp only [runLE, runE]
    rw [← ih]
    cases runLE sys n s a with
    | none => rfl
    | some res =>
      obtain ⟨r, g, s1, t, l⟩ := res
      cases r <;> rfl
  | n, s, .op2 o a b => by
    have iha := runLE_erase sys n s a
    simp only [runLE, runE]
    rw [← iha]
    cases runLE sys n s a with
    | none => rfl
    | some res =>
      obtain ⟨r, g1, s1, t1, l1⟩ := res
      cases r with
      | error e => rfl
      | ok x =>
        have ihb := runLE_erase sys n s1 b
        simp only [Option.map_some, eraseLE]
        rw [← ihb]
        cases runLE sys n s1 b with
        | none => rfl
        | some res2 =>
          obtain ⟨r2, g2, s2, t2, l2⟩ := res2
          cases r2 <;> rfl
end

/-- the first entry of a request's log is the requested calculation itself, with the result
    returned; a request served without running a formula opens nothing else and lists no read -/
theorem runL_head (sys : Sys P) (n : Nat) (s : St P) (v : Nat) (p : P) (r : Res) (g : Bool) (s' : St P) (l : Log P)
    (h : runL sys n s v p = some (r, g, s', l)) :
    ∃ t rest, l = ((v, p), r, t) :: rest ∧
      ((lookup s.cache (sys.slot (v, p)) ≠ none ∨ sys.input v p ≠ none ∨ sys.formula v p = none) → t = [] ∧ rest = []) := by
  cases n with
  | zero => simp [runL] at h
  | succ n =>
    unfold runL at h
    split at h
    · simp only [Option.some.injEq, Prod.mk.injEq] at h
      obtain ⟨rfl, _, _, rfl⟩ := h
      exact ⟨[], [], rfl, fun _ => ⟨rfl, rfl⟩⟩
    · rename_i hl
      split at h
      · simp only [Option.some.injEq, Prod.mk.injEq] at h
        obtain ⟨rfl, _, _, rfl⟩ := h
        exact ⟨[], [], rfl, fun _ => ⟨rfl, rfl⟩⟩
      · rename_i hin
        split at h
        · simp only [Option.some.injEq, Prod.mk.injEq] at h
          obtain ⟨rfl, _, _, rfl⟩ := h
          exact ⟨[], [], rfl, fun _ => ⟨rfl, rfl⟩⟩
        · split at h
          · simp only [Option.some.injEq, Prod.mk.injEq] at h
            obtain ⟨rfl, _, _, rfl⟩ := h
            exact ⟨[], [], rfl, fun _ => ⟨rfl, rfl⟩⟩
          · split at h
            · simp only [Option.some.injEq, Prod.mk.injEq] at h
              obtain ⟨rfl, _, _, rfl⟩ := h
              exact ⟨[], [], rfl, fun _ => ⟨rfl, rfl⟩⟩
            · rename_i e hf
              split at h
              · cases h
              · simp only [Option.some.injEq, Prod.mk.injEq] at h
                obtain ⟨rfl, _, _, rfl⟩ := h
                refine ⟨_, _, rfl, ?_⟩
                rintro (h1 | h1 | h1)
                · exact absurd hl h1
                · exact absurd hin h1
                · rw [hf] at h1; cases h1
              · simp only [Option.some.injEq, Prod.mk.injEq] at h
                obtain ⟨rfl, _, _, rfl⟩ := h
                refine ⟨_, _, rfl, ?_⟩
                rintro (h1 | h1 | h1)
                · exact absurd hl h1
                · exact absurd hin h1
                · rw [hf] at h1; cases h1

/-- every entry of a log is well formed, and every read an entry lists is itself an entry of the
    log (with the result the read returned) -/
def LogOK (sys : Sys P) (l : Log P) : Prop :=
  (∀ en ∈ l, TraceOK sys en) ∧ ∀ en ∈ l, ∀ kr ∈ en.2.2, ∃ t, (kr.1, kr.2, t) ∈ l

theorem logOK_append (sys : Sys P) {l1 l2 : Log P} (h1 : LogOK sys l1) (h2 : LogOK sys l2) : LogOK sys (l1 ++ l2) := by
  refine ⟨fun en hen => ?_, fun en hen kr hkr => ?_⟩
  · rcases List.mem_append.1 hen with h | h
    · exact h1.1 en h
    · exact h2.1 en h
  · rcases List.mem_append.1 hen with h | h
    · obtain ⟨t, ht⟩ := h1.2 en h kr hkr; exact ⟨t, List.mem_append_left _ ht⟩
    · obtain ⟨t, ht⟩ := h2.2 en h kr hkr; exact ⟨t, List.mem_append_right _ ht⟩

theorem logOK_nil (sys : Sys P) : LogOK sys ([] : Log P) :=
  ⟨(fun en hen => by cases hen), (fun en hen => by cases hen)⟩

mutual
theorem runL_ok (sys : Sys P) : ∀ (n : Nat) (s : St P) (v : Nat) (p : P) (r : Res) (g : Bool) (s' : St P) (l : Log P),
    runL sys n s v p = some (r, g, s', l) → LogOK sys l
  | 0, _, _, _, _, _, _, _, h => by simp [runL] at h
  | n+1, s, v, p, r, g, s', l, h => by
    have leaf : ∀ (r0 : Res), LogOK sys [((v, p), r0, [])] := fun r0 =>
      ⟨fun en hen => by simp only [List.mem_singleton] at hen; subst hen; exact Or.inl rfl,
       fun en hen kr hkr => by simp only [List.mem_singleton] at hen; subst hen; cases hkr⟩
    unfold runL at h
    split at h
    · simp only [Option.some.injEq, Prod.mk.injEq] at h
      obtain ⟨_, _, _, rfl⟩ := h; exact leaf _
    · split at h
      · simp only [Option.some.injEq, Prod.mk.injEq] at h
        obtain ⟨_, _, _, rfl⟩ := h; exact leaf _
      · split at h
        · simp only [Option.some.injEq, Prod.mk.injEq] at h
          obtain ⟨_, _, _, rfl⟩ := h; exact leaf _
        · split at h
          · simp only [Option.some.injEq, Prod.mk.injEq] at h
            obtain ⟨_, _, _, rfl⟩ := h; exact leaf _
          · split at h
            · simp only [Option.some.injEq, Prod.mk.injEq] at h
              obtain ⟨_, _, _, rfl⟩ := h; exact leaf _
            · rename_i e hf
              have node : ∀ (re r0 : Res) (ge : Bool) (se : St P) (t : List (Node P × Res)) (le : Log P),
                  runLE sys n { s with stack := (v, p) :: s.stack } e = some (re, ge, se, t, le) →
                  ((∃ x, r0 = .ok x) → ∃ x, re = .ok x) → LogOK sys (((v, p), r0, t) :: le) := by
                intro re r0 ge se t le hre hok
                obtain ⟨hlog, hpre, hall, hrec⟩ := runLE_ok sys n _ e re ge se t le hre
                refine ⟨fun en hen => ?_, fun en hen kr hkr => ?_⟩
                · rcases List.mem_cons.1 hen with rfl | hen
                  · exact Or.inr ⟨e, hf, hpre, fun hx => hall (hok hx)⟩
                  · exact hlog.1 en hen
                · rcases List.mem_cons.1 hen with rfl | hen
                  · obtain ⟨t', ht'⟩ := hrec kr hkr; exact ⟨t', List.mem_cons_of_mem _ ht'⟩
                  · obtain ⟨t', ht'⟩ := hlog.2 en hen kr hkr; exact ⟨t', List.mem_cons_of_mem _ ht'⟩
              split at h
              · cases h
              · rename_i er g1 s1 t1 l1 hre
                simp only [Option.some.injEq, Prod.mk.injEq] at h
                obtain ⟨_, _, _, rfl⟩ := h
                exact node _ _ _ _ _ _ hre ((fun hh => by obtain ⟨x, hx⟩ := hh; cases hx))
              · rename_i x g1 s1 t1 l1 hre
                simp only [Option.some.injEq, Prod.mk.injEq] at h
                obtain ⟨_, _, _, rfl⟩ := h
                exact node _ _ _ _ _ _ hre (fun _ => ⟨x, rfl⟩)
theorem runLE_ok (sys : Sys P) : ∀ (n : Nat) (s : St P) (e : Expr P) (r : Res) (g : Bool) (s' : St P)
    (t : List (Node P × Res)) (l : Log P), runLE sys n s e = some (r, g, s', t, l) →
    LogOK sys l ∧ (t.map (·.1)) <+: refs e ∧
    ((∃ x, r = .ok x) → t.map (·.1) = refs e ∧ ∀ kr ∈ t, ∃ y, kr.2 = .ok y) ∧
    (∀ kr ∈ t, ∃ t', (kr.1, kr.2, t') ∈ l)
  | _, s, .const k, r, g, s', t, l, h => by
    simp only [runLE, Option.some.injEq, Prod.mk.injEq] at h
    obtain ⟨_, _, _, rfl, rfl⟩ := h
    exact ⟨logOK_nil sys, (by simp [refs]), (fun _ => by simp [refs]), (fun kr hkr => by cases hkr)⟩
  | _, s, .bad, r, g, s', t, l, h => by
    simp only [runLE, Option.some.injEq, Prod.mk.injEq] at h
    obtain ⟨_, _, _, rfl, rfl⟩ := h
    exact ⟨logOK_nil sys, (by simp [refs]), (fun _ => by simp [refs]), (fun kr hkr => by cases hkr)⟩
  | n, s, .ref v p, r, g, s', t, l, h => by
    simp only [runLE] at h
    cases hr : runL sys n s v p with
    | none => rw [hr] at h; cases h
    | some res =>
      obtain ⟨r0, g0, s0, l0⟩ := res
      rw [hr] at h
      simp only [Option.some.injEq, Prod.mk.injEq] at h
      obtain ⟨rfl, _, _, rfl, rfl⟩ := h
      obtain ⟨t0, rest, hl0, _⟩ := runL_head sys n s v p _ _ _ _ hr
      refine ⟨runL_ok sys n s v p _ _ _ _ hr, by simp [refs], ?_, ?_⟩
      · rintro ⟨x, rfl⟩; simp [refs]
      · intro kr hkr
        simp only [List.mem_singleton] at hkr; subst hkr
        exact ⟨t0, by rw [hl0]; exact List.mem_cons_self⟩
  | n, s, .fail id a, r, g, s', t, l, h => by
    simp only [runLE] at h
    split at h
    · simp only [Option.some.injEq, Prod.mk.injEq] at h
      obtain ⟨rfl, _, _, rfl, rfl⟩ := h
      exact ⟨logOK_nil sys, (by simp), (fun hh => by obtain ⟨x, hx⟩ := hh; cases hx), (fun kr hkr => by cases hkr)⟩
    · simpa [refs] using runLE_ok sys n s a r g s' t l h
  | n, s, .op1 o a, r, g, s', t, l, h => by
    simp only [runLE] at h
    cases ha : runLE sys n s a with
    | none => rw [ha] at h; cases h
    | some res =>
      obtain ⟨ra, ga, sa, ta, la⟩ := res
      rw [ha] at h
      obtain ⟨i1, i2, i3, i4⟩ := runLE_ok sys n s a ra ga sa ta la ha
      cases ra with
      | error e =>
        simp only [Option.some.injEq, Prod.mk.injEq] at h
        obtain ⟨rfl, _, _, rfl, rfl⟩ := h
        exact ⟨i1, (by simpa [refs] using i2), (fun hh => by obtain ⟨x, hx⟩ := hh; cases hx), i4⟩
      | ok x =>
        simp only [Option.some.injEq, Prod.mk.injEq] at h
        obtain ⟨rfl, _, _, rfl, rfl⟩ := h
        exact ⟨i1, (by simpa [refs] using i2), (fun _ => by simpa [refs] using i3 ⟨x, rfl⟩), i4⟩
  | n, s, .op2 o a b, r, g, s', t, l, h => by
    simp only [runLE] at h
    cases ha : runLE sys n s a with
    | none => rw [ha] at h; cases h
    | some res =>
      obtain ⟨ra, ga, sa, ta, la⟩ := res
      rw [ha] at h
      obtain ⟨i1, i2, i3, i4⟩ := runLE_ok sys n s a ra ga sa ta la ha
      cases ra with
      | error e =>
        simp only [Option.some.injEq, Prod.mk.injEq] at h
        obtain ⟨rfl, _, _, rfl, rfl⟩ := h
        refine ⟨i1, ?_, (fun hh => by obtain ⟨x, hx⟩ := hh; cases hx), i4⟩
        simp only [refs]; exact List.IsPrefix.trans i2 (List.prefix_append _ _)
      | ok x =>
        obtain ⟨hta, hoka⟩ := i3 ⟨x, rfl⟩
        simp only at h
        cases hb : runLE sys n sa b with
        | none => rw [hb] at h; cases h
        | some res2 =>
          obtain ⟨rb, gb, sb, tb, lb⟩ := res2
          rw [hb] at h
          obtain ⟨j1, j2, j3, j4⟩ := runLE_ok sys n sa b rb gb sb tb lb hb
          have hrec : ∀ kr ∈ ta ++ tb, ∃ t', (kr.1, kr.2, t') ∈ la ++ lb := by
            intro kr hkr
            rcases List.mem_append.1 hkr with h1 | h1
            · obtain ⟨t', ht'⟩ := i4 kr h1; exact ⟨t', List.mem_append_left _ ht'⟩
            · obtain ⟨t', ht'⟩ := j4 kr h1; exact ⟨t', List.mem_append_right _ ht'⟩
          cases rb with
          | error e =>
            simp only [Option.some.injEq, Prod.mk.injEq] at h
            obtain ⟨rfl, _, _, rfl, rfl⟩ := h
            refine ⟨logOK_append sys i1 j1, ?_, (fun hh => by obtain ⟨y, hy⟩ := hh; cases hy), hrec⟩
            simp only [refs, List.map_append, hta]
            exact (List.prefix_append_right_inj _).2 j2
          | ok y =>
            simp only [Option.some.injEq, Prod.mk.injEq] at h
            obtain ⟨rfl, _, _, rfl, rfl⟩ := h
            obtain ⟨htb, hokb⟩ := j3 ⟨y, rfl⟩
            refine ⟨logOK_append sys i1 j1, ?_, fun _ => ⟨?_, ?_⟩, hrec⟩
            · simp only [refs, List.map_append, hta, htb]; exact List.prefix_refl _
            · simp only [refs, List.map_append, hta, htb]
            · intro kr hkr
              rcases List.mem_append.1 hkr with h1 | h1
              · exact hoka kr h1
              · exact hokb kr h1
end

end OFCore.Engine
