import OFCore.Heap
/-!
# Lemmas on the heap model: regions, locality of the operations, the shape of a clone

`Loc r m Q`: the heap computation `m`, started on a heap whose region `r` is *closed* (every
reference held by an object of region `r` designates an object of region `r`),

* keeps region `r` closed, leaves every other region exactly as it was (what it **writes**),
* answers `Q`,
* and its answer and the new content of region `r` are functions of the content of region `r`
  alone (what it **reads**).

`Loc` is compositional (`Loc.bind`), the primitives `rd / wr / new` are local when they are given
an id of region `r`, and ids of region `r` are all a closed region ever yields: so every operation
of `Heap.lean`, applied to a simulation of region `r`, is local to `r` (`step_loc`).
-/
set_option linter.unusedSimpArgs false
namespace OFCore.Heap
open HM

/-! ## heap basics -/

theorem get?_def (h : Heap) (p : Id) : h.get? p = (h[p.reg]?).bind (fun r => r[p.idx]?) := rfl

theorem get?_congr {h1 h2 : Heap} {p : Id} (e : h1[p.reg]? = h2[p.reg]?) : h1.get? p = h2.get? p := by
  simp only [get?_def, e]

theorem put_other (h : Heap) (p : Id) (o : Obj) (r : Nat) (hr : r ≠ p.reg) : (h.put p o)[r]? = h[r]? := by
  simp only [Heap.put, List.getElem?_modify]
  cases h[r]? with
  | none => rfl
  | some l => simp [Ne.symm hr]

theorem put_same (h : Heap) (p : Id) (o : Obj) : (h.put p o)[p.reg]? = (h[p.reg]?).map (fun l => l.set p.idx o) := by
  simp only [Heap.put, List.getElem?_modify]
  cases h[p.reg]? with
  | none => rfl
  | some l => simp

theorem push_other (h : Heap) (r : Nat) (o : Obj) (r' : Nat) (hr : r' ≠ r) : (h.push r o)[r']? = h[r']? := by
  simp only [Heap.push, List.getElem?_modify]
  cases h[r']? with
  | none => rfl
  | some l => simp [Ne.symm hr]

theorem push_same (h : Heap) (r : Nat) (o : Obj) : (h.push r o)[r]? = (h[r]?).map (fun l => l ++ [o]) := by
  simp only [Heap.push, List.getElem?_modify]
  cases h[r]? with
  | none => rfl
  | some l => simp

theorem get?_put_same (h : Heap) (p : Id) (o : Obj) : (h.put p o).get? p = (h.get? p).map (fun _ => o) := by
  simp only [get?_def, put_same]
  cases h[p.reg]? with
  | none => rfl
  | some l =>
    simp only [Option.map_some, Option.bind_some, List.getElem?_set]
    by_cases hlt : p.idx < l.length
    · simp [hlt, List.getElem?_eq_getElem hlt]
    · simp [hlt, List.getElem?_eq_none (Nat.not_lt.mp hlt)]

theorem get?_put_self (h : Heap) (p : Id) (o o' : Obj) (hp : h.get? p = some o') : (h.put p o).get? p = some o := by
  rw [get?_put_same, hp]; rfl

theorem get?_put_ne (h : Heap) (p q : Id) (o : Obj) (hq : q ≠ p) : (h.put p o).get? q = h.get? q := by
  by_cases hr : q.reg = p.reg
  · simp only [get?_def, hr, put_same]
    cases h[p.reg]? with
    | none => rfl
    | some l =>
      simp only [Option.map_some, Option.bind_some]
      have : p.idx ≠ q.idx := by
        intro e
        apply hq
        cases p; cases q; simp_all
      simp [List.getElem?_set, this]
  · exact get?_congr (put_other h p o q.reg hr)

theorem get?_push_old (h : Heap) (r : Nat) (o : Obj) (q : Id) (x : Obj) (hq : h.get? q = some x) :
    (h.push r o).get? q = some x := by
  by_cases hr : q.reg = r
  · subst hr
    simp only [get?_def, push_same] at hq ⊢
    cases hl : h[q.reg]? with
    | none => rw [hl] at hq; cases hq
    | some l =>
      rw [hl] at hq
      simp only [Option.bind_some, Option.map_some] at hq ⊢
      have hlt : q.idx < l.length := (List.getElem?_eq_some_iff.mp hq).1
      rw [List.getElem?_append_left hlt]; exact hq
  · rw [get?_congr (push_other h r o q.reg hr)]; exact hq

theorem get?_push_new (h : Heap) (r : Nat) (o : Obj) (l : List Obj) (hl : h[r]? = some l) :
    (h.push r o).get? ⟨r, l.length⟩ = some o := by
  simp [get?_def, push_same, hl]

theorem get?_fresh (h : Heap) (r : Nat) (l : List Obj) (hl : h[r]? = some l) : h.get? ⟨r, l.length⟩ = none := by
  simp [get?_def, hl]

/-! ## unfolding the monad -/

theorem bind_apply {α β : Type} (m : HM α) (f : α → HM β) (h : Heap) :
    (m >>= f) h = match m h with
      | (.ok a, h1) => f a h1
      | (.error e, h1) => (.error e, h1) := rfl

theorem pure_apply {α : Type} (a : α) (h : Heap) : (pure a : HM α) h = (.ok a, h) := rfl
theorem fail_apply {α : Type} (e : Err) (h : Heap) : (fail e : HM α) h = (.error e, h) := rfl

theorem bind_ok {α β : Type} {m : HM α} {f : α → HM β} {h h' : Heap} {b : β}
    (e : (m >>= f) h = (.ok b, h')) : ∃ a h1, m h = (.ok a, h1) ∧ f a h1 = (.ok b, h') := by
  rw [bind_apply] at e
  cases hm : m h with
  | mk res h1 =>
    rw [hm] at e
    cases res with
    | ok a => exact ⟨a, h1, rfl, e⟩
    | error er => cases e

theorem ofOption_ok {α : Type} {er : Err} {x : Option α} {h h' : Heap} {a : α}
    (e : ofOption er x h = (.ok a, h')) : x = some a ∧ h = h' := by
  cases x with
  | none => cases e
  | some b => simp only [ofOption, pure_apply, Prod.mk.injEq, Except.ok.injEq] at e; exact ⟨by rw [e.1], e.2⟩

theorem rd_ok {p : Id} {h h' : Heap} {o : Obj} (e : rd p h = (.ok o, h')) : h.get? p = some o ∧ h = h' := by
  unfold rd at e
  cases hg : h.get? p with
  | none => rw [hg] at e; cases e
  | some x => rw [hg] at e; simp only [Prod.mk.injEq, Except.ok.injEq] at e; exact ⟨by rw [e.1], e.2⟩

theorem wr_ok {p : Id} {o : Obj} {h h' : Heap} (e : wr p o h = (.ok (), h')) :
    (∃ o', h.get? p = some o') ∧ h' = h.put p o := by
  unfold wr at e
  cases hg : h.get? p with
  | none => rw [hg] at e; cases e
  | some x => rw [hg] at e; simp only [Prod.mk.injEq] at e; exact ⟨⟨x, rfl⟩, e.2.symm⟩

theorem new_ok {r : Nat} {o : Obj} {h h' : Heap} {p : Id} (e : new r o h = (.ok p, h')) :
    ∃ l, h[r]? = some l ∧ p = ⟨r, l.length⟩ ∧ h' = h.push r o := by
  unfold new at e
  cases hg : h[r]? with
  | none => rw [hg] at e; cases e
  | some l =>
    rw [hg] at e
    simp only [Prod.mk.injEq, Except.ok.injEq] at e
    exact ⟨l, rfl, e.1.symm, e.2.symm⟩

/-! ## regions -/

/-- every reference the object holds designates region `r` -/
def InReg (r : Nat) : Obj → Prop
  | .sim o => o.persons.reg = r ∧ (∀ e ∈ o.pops, e.2.reg = r) ∧ o.tracer.reg = r ∧ o.inval.reg = r
      ∧ (∀ d, o.dir = some d → d.reg = r)
  | .pop o => o.sim.reg = r ∧ (∀ e ∈ o.holders, e.2.reg = r) ∧ (∀ m, o.members = some m → m.reg = r)
  | .holder o => o.pop.reg = r ∧ o.sim.reg = r ∧ o.mem.reg = r ∧ (∀ d, o.disk = some d → d.reg = r)
  | .store _ => True
  | .disk o => o.dir.reg = r
  | .dir _ => True
  | .tracer _ => True
  | .inval _ => True

/-- region `r` is closed: its objects only refer to objects of region `r` -/
def Closed (r : Nat) (h : Heap) : Prop := ∀ i o, h.get? ⟨r, i⟩ = some o → InReg r o

theorem Closed.congr {r : Nat} {h1 h2 : Heap} (c : Closed r h1) (e : h1[r]? = h2[r]?) : Closed r h2 := by
  intro i o hg
  exact c i o (by rw [get?_congr (p := ⟨r, i⟩) e]; exact hg)

theorem Closed.get {r : Nat} {h : Heap} (c : Closed r h) {p : Id} {o : Obj} (hp : p.reg = r)
    (hg : h.get? p = some o) : InReg r o := by
  cases p with
  | mk pr pi => simp only at hp; subst hp; exact c pi o hg

theorem Closed.put {r : Nat} {h : Heap} (c : Closed r h) (p : Id) (o : Obj) (ho : p.reg = r → InReg r o) :
    Closed r (h.put p o) := by
  intro i x hg
  by_cases e : (⟨r, i⟩ : Id) = p
  · subst e
    rw [get?_put_same] at hg
    cases hx : h.get? ⟨r, i⟩ with
    | none => rw [hx] at hg; cases hg
    | some y =>
      rw [hx] at hg
      cases hg
      exact ho rfl
  · rw [get?_put_ne h p ⟨r, i⟩ o e] at hg
    exact c i x hg

theorem Closed.push {r : Nat} {h : Heap} (c : Closed r h) (r' : Nat) (o : Obj) (ho : r' = r → InReg r o) :
    Closed r (h.push r' o) := by
  intro i x hg
  by_cases e : r' = r
  · subst e
    simp only [get?_def, push_same] at hg
    cases hl : h[r']? with
    | none => rw [hl] at hg; cases hg
    | some l =>
      rw [hl] at hg
      simp only [Option.map_some, Option.bind_some, List.getElem?_append] at hg
      split at hg
      · exact c i x (by simp [get?_def, hl, hg])
      · have : i - l.length = 0 := by
          cases hi : i - l.length with
          | zero => rfl
          | succ n => rw [hi] at hg; simp at hg
        rw [this] at hg
        simp at hg
        subst hg
        exact ho rfl
  · exact c i x (by rw [← get?_congr (p := ⟨r, i⟩) (push_other h r' o r (Ne.symm e))]; exact hg)

/-! ## locality -/

structure Loc {α : Type} (r : Nat) (m : HM α) (Q : α → Prop) : Prop where
  frame : ∀ h, Closed r h →
    Closed r (m h).2 ∧ (∀ r', r' ≠ r → (m h).2[r']? = h[r']?) ∧ (∀ a, (m h).1 = .ok a → Q a)
  loc : ∀ h1 h2, Closed r h1 → h1[r]? = h2[r]? → (m h2).1 = (m h1).1 ∧ (m h2).2[r]? = (m h1).2[r]?
  len : ∀ h, Closed r h → (m h).2.length = h.length      -- no region is opened or closed

theorem Loc.mono {α : Type} {r : Nat} {m : HM α} {Q Q' : α → Prop} (l : Loc r m Q) (hq : ∀ a, Q a → Q' a) :
    Loc r m Q' :=
  ⟨fun h c => ⟨(l.frame h c).1, (l.frame h c).2.1, fun a e => hq a ((l.frame h c).2.2 a e)⟩, l.loc, l.len⟩

theorem Loc.pure {α : Type} {r : Nat} {Q : α → Prop} (a : α) (hq : Q a) : Loc r (pure a : HM α) Q :=
  ⟨fun h c => ⟨c, fun _ _ => rfl, fun b e => by cases e; exact hq⟩, fun _ _ _ e => ⟨rfl, e.symm⟩, fun _ _ => rfl⟩

theorem Loc.fail {α : Type} {r : Nat} {Q : α → Prop} (e : Err) : Loc r (fail e : HM α) Q :=
  ⟨fun h c => ⟨c, fun _ _ => rfl, fun b e => by cases e⟩, fun _ _ _ e => ⟨rfl, e.symm⟩, fun _ _ => rfl⟩

theorem Loc.bind {α β : Type} {r : Nat} {m : HM α} {f : α → HM β} {Q : α → Prop} {Q' : β → Prop}
    (lm : Loc r m Q) (lf : ∀ a, Q a → Loc r (f a) Q') : Loc r (m >>= f) Q' := by
  constructor
  · intro h c
    have fm := lm.frame h c
    rw [bind_apply]
    cases hm : m h with
    | mk res h1 =>
      rw [hm] at fm
      cases res with
      | error e => exact ⟨fm.1, fm.2.1, fun a e => by cases e⟩
      | ok a =>
        have ff := (lf a (fm.2.2 a rfl)).frame h1 fm.1
        exact ⟨ff.1, fun r' hr => by rw [ff.2.1 r' hr]; exact fm.2.1 r' hr, ff.2.2⟩
  · intro h1 h2 c e
    have l1 := lm.loc h1 h2 c e
    have fm := lm.frame h1 c
    rw [bind_apply, bind_apply]
    cases hm1 : m h1 with
    | mk res1 g1 =>
      cases hm2 : m h2 with
      | mk res2 g2 =>
        rw [hm1, hm2] at l1
        rw [hm1] at fm
        simp only at l1
        obtain ⟨e1, e2⟩ := l1
        subst e1
        cases res2 with
        | error er => exact ⟨rfl, e2⟩
        | ok a => exact (lf a (fm.2.2 a rfl)).loc g1 g2 fm.1 e2.symm
  · intro h c
    rw [bind_apply]
    have lm' := lm.len h c
    have fm := lm.frame h c
    cases hm : m h with
    | mk res h1 =>
      rw [hm] at lm' fm
      cases res with
      | error e => exact lm'
      | ok a => exact ((lf a (fm.2.2 a rfl)).len h1 fm.1).trans lm'

theorem Loc.ite {α : Type} {r : Nat} {c : Prop} [Decidable c] {a b : HM α} {Q : α → Prop}
    (la : c → Loc r a Q) (lb : ¬ c → Loc r b Q) : Loc r (if c then a else b) Q := by
  split
  · exact la ‹_›
  · exact lb ‹_›

theorem Loc.ofOption {α : Type} {r : Nat} {Q : α → Prop} (e : Err) (x : Option α) (hq : ∀ a, x = some a → Q a) :
    Loc r (ofOption e x) Q := by
  cases x with
  | none => exact Loc.fail e
  | some a => exact Loc.pure a (hq a rfl)

theorem Loc.ofPeriod {α : Type} {r : Nat} {Q : α → Prop} (x : Except String α) (hq : ∀ a, x = .ok a → Q a) :
    Loc r (ofPeriod x) Q := by
  cases x with
  | error _ => exact Loc.fail _
  | ok a => exact Loc.pure a (hq a rfl)

theorem Loc.rd {r : Nat} {p : Id} (hp : p.reg = r) : Loc r (rd p) (InReg r) := by
  constructor
  · intro h c
    unfold Heap.rd
    cases hg : h.get? p with
    | none => exact ⟨c, fun _ _ => rfl, fun a e => by cases e⟩
    | some o => exact ⟨c, fun _ _ => rfl, fun a e => by cases e; exact c.get hp hg⟩
  · intro h1 h2 c e
    unfold Heap.rd
    have eg : h2.get? p = h1.get? p := (get?_congr (by rw [hp]; exact e)).symm
    rw [eg]
    cases h1.get? p with
    | none => exact ⟨rfl, e.symm⟩
    | some o => exact ⟨rfl, e.symm⟩
  · intro h _
    unfold Heap.rd
    cases h.get? p <;> rfl

theorem Loc.wr {r : Nat} {p : Id} {o : Obj} (hp : p.reg = r) (ho : InReg r o) : Loc r (wr p o) (fun _ => True) := by
  constructor
  · intro h c
    unfold Heap.wr
    cases hg : h.get? p with
    | none => exact ⟨c, fun _ _ => rfl, fun a _ => trivial⟩
    | some o' =>
      exact ⟨c.put p o (fun _ => ho), fun r' hr => put_other h p o r' (by rw [hp]; exact hr), fun _ _ => trivial⟩
  · intro h1 h2 c e
    unfold Heap.wr
    have eg : h2.get? p = h1.get? p := (get?_congr (by rw [hp]; exact e)).symm
    rw [eg]
    cases h1.get? p with
    | none => exact ⟨rfl, e.symm⟩
    | some o' =>
      refine ⟨rfl, ?_⟩
      subst hp
      simp only [put_same, e]
  · intro h _
    unfold Heap.wr
    cases h.get? p with
    | none => rfl
    | some o' => exact List.length_modify ..

theorem Loc.wrLeaf {r : Nat} {p : Id} {o : Obj} (hp : p.reg = r) (ho : InReg r o) :
    Loc r (wrLeaf p o) (fun _ => True) := by
  constructor
  · intro h c
    unfold Heap.wrLeaf
    cases hg : h.get? p with
    | none => exact ⟨c, fun _ _ => rfl, fun a _ => trivial⟩
    | some o' =>
      simp only
      split
      · exact ⟨c.put p o (fun _ => ho), fun r' hr => put_other h p o r' (by rw [hp]; exact hr), fun _ _ => trivial⟩
      · exact ⟨c, fun _ _ => rfl, fun a _ => trivial⟩
  · intro h1 h2 c e
    unfold Heap.wrLeaf
    have eg : h2.get? p = h1.get? p := (get?_congr (by rw [hp]; exact e)).symm
    rw [eg]
    cases h1.get? p with
    | none => exact ⟨rfl, e.symm⟩
    | some o' =>
      simp only
      split
      · refine ⟨rfl, ?_⟩
        subst hp
        simp only [put_same, e]
      · exact ⟨rfl, e.symm⟩
  · intro h _
    unfold Heap.wrLeaf
    cases h.get? p with
    | none => rfl
    | some o' =>
      simp only
      split
      · exact List.length_modify ..
      · rfl

theorem Loc.new {r : Nat} {o : Obj} (ho : InReg r o) : Loc r (new r o) (fun p => p.reg = r) := by
  constructor
  · intro h c
    unfold Heap.new
    cases hg : h[r]? with
    | none => exact ⟨c, fun _ _ => rfl, fun a e => by cases e⟩
    | some l =>
      exact ⟨c.push r o (fun _ => ho), fun r' hr => push_other h r o r' hr, fun a e => by cases e; rfl⟩
  · intro h1 h2 c e
    unfold Heap.new
    rw [← e]
    cases hg : h1[r]? with
    | none => exact ⟨rfl, by rw [← e, hg]⟩
    | some l =>
      refine ⟨rfl, ?_⟩
      simp only [push_same, ← e]
  · intro h _
    unfold Heap.new
    cases h[r]? with
    | none => rfl
    | some l => exact List.length_modify ..

theorem Loc.tryFinally {α : Type} {r : Nat} {m : HM α} {fin : HM Unit} {Q : α → Prop} {Q' : Unit → Prop}
    (lm : Loc r m Q) (lf : Loc r fin Q') : Loc r (tryFinally m fin) Q := by
  constructor
  · intro h c
    have fm := lm.frame h c
    have ff := lf.frame (m h).2 fm.1
    unfold HM.tryFinally
    cases hf : fin (m h).2 with
    | mk res2 h2 =>
      rw [hf] at ff
      cases res2 with
      | ok u => exact ⟨ff.1, fun r' hr => by rw [ff.2.1 r' hr]; exact fm.2.1 r' hr, fm.2.2⟩
      | error e => exact ⟨ff.1, fun r' hr => by rw [ff.2.1 r' hr]; exact fm.2.1 r' hr, fun a e => by cases e⟩
  · intro h1 h2 c e
    have l1 := lm.loc h1 h2 c e
    have fm := lm.frame h1 c
    have l2 := lf.loc (m h1).2 (m h2).2 fm.1 l1.2.symm
    unfold HM.tryFinally
    cases hf1 : fin (m h1).2 with
    | mk a1 k1 =>
      cases hf2 : fin (m h2).2 with
      | mk a2 k2 =>
        rw [hf1, hf2] at l2
        simp only at l2
        obtain ⟨e3, e4⟩ := l2
        subst e3
        cases a2 with
        | ok u => exact ⟨l1.1, e4⟩
        | error er => exact ⟨rfl, e4⟩
  · intro h c
    have fm := lm.frame h c
    have l1 := lm.len h c
    have l2 := lf.len (m h).2 fm.1
    unfold HM.tryFinally
    cases hf : fin (m h).2 with
    | mk res2 h2 =>
      rw [hf] at l2
      cases res2 <;> exact l2.trans l1

theorem Loc.catchSpiral {α : Type} {r : Nat} {m handler : HM α} {Q : α → Prop}
    (lm : Loc r m Q) (lh : Loc r handler Q) : Loc r (catchSpiral m handler) Q := by
  constructor
  · intro h c
    have fm := lm.frame h c
    unfold HM.catchSpiral
    cases hm : m h with
    | mk res h1 =>
      rw [hm] at fm
      cases res with
      | ok a => exact ⟨fm.1, fm.2.1, fm.2.2⟩
      | error er =>
        cases er with
        | spiral =>
          have fh := lh.frame h1 fm.1
          exact ⟨fh.1, fun r' hr => by rw [fh.2.1 r' hr]; exact fm.2.1 r' hr, fh.2.2⟩
        | bad => exact ⟨fm.1, fm.2.1, fun a e => by cases e⟩
        | value => exact ⟨fm.1, fm.2.1, fun a e => by cases e⟩
        | cycle => exact ⟨fm.1, fm.2.1, fun a e => by cases e⟩
        | fuel => exact ⟨fm.1, fm.2.1, fun a e => by cases e⟩
  · intro h1 h2 c e
    have l1 := lm.loc h1 h2 c e
    have fm := lm.frame h1 c
    unfold HM.catchSpiral
    cases hm1 : m h1 with
    | mk res1 g1 =>
      cases hm2 : m h2 with
      | mk res2 g2 =>
        rw [hm1, hm2] at l1
        rw [hm1] at fm
        simp only at l1
        obtain ⟨e1, e2⟩ := l1
        subst e1
        cases res2 with
        | ok a => exact ⟨rfl, e2⟩
        | error er =>
          cases er with
          | spiral => exact lh.loc g1 g2 fm.1 e2.symm
          | bad => exact ⟨rfl, e2⟩
          | value => exact ⟨rfl, e2⟩
          | cycle => exact ⟨rfl, e2⟩
          | fuel => exact ⟨rfl, e2⟩
  · intro h c
    have fm := lm.frame h c
    have l1 := lm.len h c
    unfold HM.catchSpiral
    cases hm : m h with
    | mk res h1 =>
      rw [hm] at fm l1
      cases res with
      | ok a => exact l1
      | error er =>
        cases er with
        | spiral => exact (lh.len h1 fm.1).trans l1
        | bad => exact l1
        | value => exact l1
        | cycle => exact l1
        | fuel => exact l1

/-! ## typed reads -/

theorem Loc.rdSim {r : Nat} {p : Id} (hp : p.reg = r) : Loc r (rdSim p) (fun o => InReg r (.sim o)) := by
  unfold Heap.rdSim
  refine Loc.bind (Loc.rd hp) fun o ho => Loc.ofOption _ _ fun a ha => ?_
  cases o <;> simp [Obj.sim?] at ha
  subst ha; exact ho

theorem Loc.updSim {r : Nat} {x : Id} {f : SimObj → SimObj} (hx : x.reg = r)
    (hf : ∀ so, InReg r (.sim so) → InReg r (.sim (f so))) : Loc r (updSim x f) (fun _ => True) := by
  unfold Heap.updSim
  exact Loc.bind (Loc.rdSim hx) fun so hso => Loc.wr hx (hf so hso)

theorem Loc.rdPop {r : Nat} {p : Id} (hp : p.reg = r) : Loc r (rdPop p) (fun o => InReg r (.pop o)) := by
  unfold Heap.rdPop
  refine Loc.bind (Loc.rd hp) fun o ho => Loc.ofOption _ _ fun a ha => ?_
  cases o <;> simp [Obj.pop?] at ha
  subst ha; exact ho

theorem Loc.updPop {r : Nat} {p : Id} {f : PopObj → PopObj} (hp : p.reg = r)
    (hf : ∀ po, InReg r (.pop po) → InReg r (.pop (f po))) : Loc r (updPop p f) (fun _ => True) := by
  unfold Heap.updPop
  exact Loc.bind (Loc.rdPop hp) fun po hpo => Loc.wr hp (hf po hpo)

theorem Loc.rdHolder {r : Nat} {p : Id} (hp : p.reg = r) : Loc r (rdHolder p) (fun o => InReg r (.holder o)) := by
  unfold Heap.rdHolder
  refine Loc.bind (Loc.rd hp) fun o ho => Loc.ofOption _ _ fun a ha => ?_
  cases o <;> simp [Obj.holder?] at ha
  subst ha; exact ho

theorem Loc.rdStore {r : Nat} {p : Id} (hp : p.reg = r) : Loc r (rdStore p) (fun _ => True) := by
  unfold Heap.rdStore
  exact Loc.bind (Loc.rd hp) fun o _ => Loc.ofOption _ _ fun _ _ => trivial

theorem Loc.rdDisk {r : Nat} {p : Id} (hp : p.reg = r) : Loc r (rdDisk p) (fun o => InReg r (.disk o)) := by
  unfold Heap.rdDisk
  refine Loc.bind (Loc.rd hp) fun o ho => Loc.ofOption _ _ fun a ha => ?_
  cases o <;> simp [Obj.disk?] at ha
  subst ha; exact ho

theorem Loc.rdDir {r : Nat} {p : Id} (hp : p.reg = r) : Loc r (rdDir p) (fun _ => True) := by
  unfold Heap.rdDir
  exact Loc.bind (Loc.rd hp) fun o _ => Loc.ofOption _ _ fun _ _ => trivial

theorem Loc.rdTracer {r : Nat} {p : Id} (hp : p.reg = r) : Loc r (rdTracer p) (fun _ => True) := by
  unfold Heap.rdTracer
  exact Loc.bind (Loc.rd hp) fun o _ => Loc.ofOption _ _ fun _ _ => trivial

theorem Loc.rdInval {r : Nat} {p : Id} (hp : p.reg = r) : Loc r (rdInval p) (fun _ => True) := by
  unfold Heap.rdInval
  exact Loc.bind (Loc.rd hp) fun o _ => Loc.ofOption _ _ fun _ _ => trivial

theorem Loc.varDecl {r : Nat} (sys : Sys) (v : Var) : Loc r (varDecl sys v) (fun _ => True) :=
  Loc.ofOption _ _ fun _ _ => trivial

theorem Loc.mapMH {α β : Type} {r : Nat} {f : α → HM β} (l : List α)
    (hf : ∀ a ∈ l, Loc r (f a) (fun _ => True)) : Loc r (mapMH f l) (fun _ => True) := by
  induction l with
  | nil => exact Loc.pure _ trivial
  | cons a t ih =>
    unfold Heap.mapMH
    refine Loc.bind (hf a (List.mem_cons_self ..)) fun b _ => ?_
    refine Loc.bind (ih fun x hx => hf x (List.mem_cons_of_mem _ hx)) fun bs _ => ?_
    exact Loc.pure _ trivial

theorem alGet_mem {κ β : Type} [DecidableEq κ] {l : List (κ × β)} {k : κ} {v : β} (e : alGet l k = some v) :
    (k, v) ∈ l := by
  induction l with
  | nil => cases e
  | cons x t ih =>
    obtain ⟨k', v'⟩ := x
    unfold alGet at e
    split at e
    · cases e; subst_vars; exact List.mem_cons_self ..
    · exact List.mem_cons_of_mem _ (ih e)

/-! ## storages and holders -/

theorem Loc.diskFind {r : Nat} {d : DiskObj} (hd : InReg r (.disk d)) (p : Period) :
    Loc r (diskFind d p) (fun _ => True) := by
  unfold Heap.diskFind
  refine Loc.ite (fun _ => ?_) (fun _ => Loc.pure _ trivial)
  refine Loc.bind (Loc.rdDir hd) fun dir _ => ?_
  split
  · exact Loc.pure _ trivial
  · exact Loc.fail _

theorem Loc.diskInsert {r : Nat} {did : Id} (hd : did.reg = r) (v : Vec) (p : Period) :
    Loc r (diskInsert did v p) (fun _ => True) := by
  unfold Heap.diskInsert
  refine Loc.bind (Loc.rdDisk hd) fun d hdo => ?_
  refine Loc.bind (Loc.rdDir hdo) fun dir _ => ?_
  refine Loc.bind (Loc.wrLeaf hdo trivial) fun _ _ => ?_
  exact Loc.wrLeaf hd hdo

theorem Loc.diskRemove {r : Nat} {did : Id} (hd : did.reg = r) (p : Option Period) :
    Loc r (diskRemove did p) (fun _ => True) := by
  unfold Heap.diskRemove
  refine Loc.bind (Loc.rdDisk hd) fun d hdo => ?_
  cases p with
  | none => exact Loc.wrLeaf hd hdo
  | some p =>
    refine Loc.bind (Loc.ofPeriod _ fun _ _ => trivial) fun l _ => ?_
    exact Loc.wrLeaf hd hdo

theorem Loc.dataStorageDir {r : Nat} {sid : Id} (hs : sid.reg = r) :
    Loc r (dataStorageDir r sid) (fun d => d.reg = r) := by
  unfold Heap.dataStorageDir
  refine Loc.bind (Loc.rdSim hs) fun so hso => ?_
  cases hsd : so.dir with
  | some d => exact Loc.pure _ (hso.2.2.2.2 d hsd)
  | none =>
    refine Loc.bind (Loc.new trivial) fun d hd => ?_
    refine Loc.bind (Loc.updSim hs fun so2 hso2 => ?_) fun _ _ => Loc.pure _ hd
    exact ⟨hso2.1, hso2.2.1, hso2.2.2.1, hso2.2.2.2.1, fun x e => by cases e; exact hd⟩

theorem Loc.createDisk {r : Nat} {sid : Id} (hs : sid.reg = r) (v : Var) (eternal : Bool) :
    Loc r (createDisk r sid v eternal) (fun (d : Option Id) => ∀ x : Id, d = some x → x.reg = r) := by
  unfold Heap.createDisk
  refine Loc.bind (Loc.rdSim hs) fun so hso => ?_
  cases hmc : so.memConfig with
  | none => exact Loc.pure _ (fun _ e => by cases e)
  | some mc =>
    refine Loc.ite (fun _ => Loc.pure _ (fun _ e => by cases e)) (fun _ => ?_)
    refine Loc.bind (Loc.dataStorageDir hs) fun dirId hdir => ?_
    refine Loc.bind (Loc.new hdir) fun did hdid => ?_
    exact Loc.pure _ (fun x e => by cases e; exact hdid)

theorem Loc.createHolder {r : Nat} (sys : Sys) {pid : Id} (hp : pid.reg = r) (v : Var) :
    Loc r (createHolder sys r pid v) (fun x => x.1.reg = r ∧ InReg r (.holder x.2)) := by
  unfold Heap.createHolder
  refine Loc.bind (Loc.varDecl sys v) fun decl _ => ?_
  refine Loc.bind (Loc.rdPop hp) fun po hpo => ?_
  refine Loc.bind (Loc.new trivial) fun mem hmem => ?_
  refine Loc.bind (Loc.createDisk hpo.1 v _) fun disk hdisk => ?_
  refine Loc.bind (Loc.rdSim hpo.1) fun so _ => ?_
  generalize (match so.memConfig with | none => false | some mc => decide (v ∈ mc.drop)) = ns
  have hho : InReg r (.holder ⟨v, pid, po.sim, mem, disk, ns⟩) := ⟨hp, hpo.1, hmem, hdisk⟩
  refine Loc.bind (Loc.new hho) fun hid hhid => ?_
  refine Loc.bind (Loc.updPop hp fun po2 hpo2 => ?_) fun _ _ => Loc.pure _ ⟨hhid, hho⟩
  refine ⟨hpo2.1, fun e he => ?_, hpo2.2.2⟩
  rcases List.mem_append.mp he with h1 | h1
  · exact hpo2.2.1 e h1
  · simp only [List.mem_singleton] at h1; subst h1; exact hhid

theorem Loc.getHolder {r : Nat} (sys : Sys) {x : Id} (hx : x.reg = r) (v : Var) :
    Loc r (getHolder sys x v) (fun y => y.1.reg = r ∧ InReg r (.holder y.2)) := by
  unfold Heap.getHolder
  refine Loc.bind (Loc.varDecl sys v) fun decl _ => ?_
  refine Loc.bind (Loc.rdSim hx) fun so hso => ?_
  refine Loc.bind (Q := fun pid => pid.reg = r) (Loc.ofOption _ _ fun a ha => hso.2.1 _ (alGet_mem ha)) fun pid hpid => ?_
  refine Loc.bind (Loc.rdPop hpid) fun po hpo => ?_
  cases hh : alGet po.holders v with
  | none => rw [← hx]; exact Loc.createHolder sys (by rw [hx]; exact hpid) v
  | some hid =>
    have hhid : hid.reg = r := hpo.2.1 _ (alGet_mem hh)
    exact Loc.bind (Loc.rdHolder hhid) fun ho hho => Loc.pure _ ⟨hhid, hho⟩

theorem Loc.diskLookup {r : Nat} {disk : Option Id} (hd : ∀ d, disk = some d → d.reg = r) (p : Period) :
    Loc r (diskLookup disk p) (fun _ => True) := by
  unfold Heap.diskLookup
  cases disk with
  | none => exact Loc.pure _ trivial
  | some did => exact Loc.bind (Loc.rdDisk (hd did rfl)) fun d hdo => Loc.diskFind hdo p

theorem Loc.holderFind {r : Nat} {ho : HolderObj} (hho : InReg r (.holder ho)) (p : Period) :
    Loc r (holderFind ho p) (fun _ => True) := by
  unfold Heap.holderFind
  refine Loc.bind (Loc.rdStore hho.2.2.1) fun st _ => ?_
  split
  · exact Loc.pure _ trivial
  · exact Loc.diskLookup hho.2.2.2 p

theorem Loc.diskPeriods {r : Nat} {disk : Option Id} (hd : ∀ d, disk = some d → d.reg = r) :
    Loc r (diskPeriods disk) (fun _ => True) := by
  unfold Heap.diskPeriods
  cases disk with
  | none => exact Loc.pure _ trivial
  | some did => exact Loc.bind (Loc.rdDisk (hd did rfl)) fun d _ => Loc.pure _ trivial

theorem Loc.knownPeriods {r : Nat} {ho : HolderObj} (hho : InReg r (.holder ho)) :
    Loc r (knownPeriods ho) (fun _ => True) := by
  unfold Heap.knownPeriods
  refine Loc.bind (Loc.rdStore hho.2.2.1) fun st _ => ?_
  exact Loc.bind (Loc.diskPeriods hho.2.2.2) fun _ _ => Loc.pure _ trivial

theorem Loc.holderKnown {r : Nat} {ho : HolderObj} (hho : InReg r (.holder ho)) :
    Loc r (holderKnown ho) (fun _ => True) := by
  unfold Heap.holderKnown
  refine Loc.bind (Loc.knownPeriods hho) fun ps _ => ?_
  exact Loc.mapMH ps fun p _ => Loc.bind (Loc.holderFind hho p) fun _ _ => Loc.pure _ trivial

theorem Loc.holderSet {r : Nat} (sys : Sys) {ho : HolderObj} (hho : InReg r (.holder ho)) (p : Period) (v : Vec) :
    Loc r (holderSet sys ho p v) (fun _ => True) := by
  unfold Heap.holderSet
  refine Loc.bind (Loc.varDecl sys _) fun decl _ => ?_
  refine Loc.bind (Loc.rdPop hho.1) fun po _ => ?_
  refine Loc.ite (fun _ => Loc.fail _) fun _ => ?_
  refine Loc.ite (fun _ => Loc.fail _) fun _ => ?_
  refine Loc.bind (Loc.rdStore hho.2.2.1) fun st _ => ?_
  cases hd : ho.disk with
  | none => exact Loc.wrLeaf hho.2.2.1 trivial
  | some did =>
    simp only
    split
    · exact Loc.wrLeaf hho.2.2.1 trivial
    · refine Loc.bind (Loc.rdSim hho.2.1) fun so _ => ?_
      split
      · exact Loc.fail _
      · exact Loc.diskInsert (hho.2.2.2 did hd) v p

theorem Loc.putInCache {r : Nat} (sys : Sys) {ho : HolderObj} (hho : InReg r (.holder ho)) (p : Period) (v : Vec) :
    Loc r (putInCache sys ho p v) (fun _ => True) := by
  unfold Heap.putInCache
  refine Loc.ite (fun _ => Loc.pure _ trivial) fun _ => ?_
  refine Loc.bind (Loc.rdSim hho.2.1) fun so _ => ?_
  refine Loc.bind (Loc.varDecl sys _) fun decl _ => ?_
  exact Loc.ite (fun _ => Loc.pure _ trivial) fun _ => Loc.holderSet sys hho p v

theorem Loc.holderDelete {r : Nat} {ho : HolderObj} (hho : InReg r (.holder ho)) (p : Option Period) :
    Loc r (holderDelete ho p) (fun _ => True) := by
  unfold Heap.holderDelete
  refine Loc.bind (Loc.rdStore hho.2.2.1) fun st _ => ?_
  refine Loc.bind (Loc.ofPeriod _ fun _ _ => trivial) fun st' _ => ?_
  refine Loc.bind (Loc.wrLeaf hho.2.2.1 trivial) fun _ _ => ?_
  cases hd : ho.disk with
  | none => exact Loc.pure _ trivial
  | some did => exact Loc.diskRemove (hho.2.2.2 did hd) p

theorem Loc.holderDefault {r : Nat} (sys : Sys) {ho : HolderObj} (hho : InReg r (.holder ho)) :
    Loc r (holderDefault sys ho) (fun _ => True) := by
  unfold Heap.holderDefault
  refine Loc.bind (Loc.varDecl sys _) fun decl _ => ?_
  exact Loc.bind (Loc.rdPop hho.1) fun po _ => Loc.pure _ trivial

/-! ## simulation operations -/

theorem Loc.dispatchOne {r : Nat} (sys : Sys) {ho : HolderObj} (hho : InReg r (.holder ho)) (a : Vec) (sub : Period) :
    Loc r (dispatchOne sys ho a sub) (fun _ => True) := by
  unfold Heap.dispatchOne
  refine Loc.bind (Loc.holderFind hho sub) fun found _ => ?_
  cases found with
  | some _ => exact Loc.pure _ trivial
  | none => exact Loc.holderSet sys hho sub a

theorem Loc.dispatchLoop {r : Nat} (sys : Sys) {ho : HolderObj} (hho : InReg r (.holder ho)) (a : Vec) (after : Date) :
    ∀ (n : Nat) (sub : Period), Loc r (dispatchLoop sys ho a after n sub) (fun _ => True) := by
  intro n
  induction n with
  | zero => intro sub; exact Loc.fail _
  | succ n ih =>
    intro sub
    unfold Heap.dispatchLoop
    refine Loc.ite (fun _ => ?_) fun _ => Loc.pure _ trivial
    refine Loc.bind (Loc.dispatchOne sys hho a sub) fun _ _ => ?_
    exact Loc.bind (Loc.ofPeriod _ fun _ _ => trivial) fun nxt _ => ih nxt

theorem Loc.dispatchInput {r : Nat} (sys : Sys) {ho : HolderObj} (hho : InReg r (.holder ho)) (decl : VarDecl)
    (p : Period) (a : Vec) : Loc r (dispatchInput sys ho decl p a) (fun _ => True) := by
  unfold Heap.dispatchInput
  refine Loc.bind (Loc.rdPop hho.1) fun po _ => ?_
  refine Loc.ite (fun _ => Loc.fail _) fun _ => ?_
  refine Loc.ite (fun _ => Loc.fail _) fun _ => ?_
  refine Loc.bind (Loc.ofPeriod _ fun _ _ => trivial) fun after _ => ?_
  cases after with
  | none => exact Loc.fail _
  | some af => exact Loc.dispatchLoop sys hho a af _ _

theorem Loc.setInput {r : Nat} (sys : Sys) {x : Id} (hx : x.reg = r) (v : Var) (p : Period) (a : Vec) :
    Loc r (setInput sys x v p a) (fun _ => True) := by
  unfold Heap.setInput
  refine Loc.bind (Loc.varDecl sys v) fun decl _ => ?_
  refine Loc.bind (Loc.getHolder sys hx v) fun y hy => ?_
  obtain ⟨hid, ho⟩ := y
  refine Loc.ite (fun _ => Loc.fail _) fun _ => ?_
  exact Loc.ite (fun _ => Loc.dispatchInput sys hy.2 decl p a) fun _ => Loc.holderSet sys hy.2 p a

theorem Loc.setInputBad {r : Nat} (sys : Sys) {x : Id} (hx : x.reg = r) (v : Var) (p : Period) :
    Loc r (setInputBad sys x v p) (fun _ => True) := by
  unfold Heap.setInputBad
  refine Loc.bind (Loc.varDecl sys v) fun decl _ => ?_
  refine Loc.bind (Loc.getHolder sys hx v) fun y _ => ?_
  exact Loc.ite (fun _ => Loc.fail _) fun _ => Loc.fail _

theorem Loc.deleteArrays {r : Nat} (sys : Sys) {x : Id} (hx : x.reg = r) (v : Var) (p : Option Period) :
    Loc r (deleteArrays sys x v p) (fun _ => True) := by
  unfold Heap.deleteArrays
  refine Loc.bind (Loc.getHolder sys hx v) fun y hy => ?_
  obtain ⟨hid, ho⟩ := y
  exact Loc.holderDelete hy.2 p

theorem Loc.setTrace {r : Nat} {x : Id} (hx : x.reg = r) (b : Bool) : Loc r (setTrace x b) (fun _ => True) := by
  unfold Heap.setTrace
  refine Loc.bind (by rw [hx]; exact Loc.new trivial) fun t ht => ?_
  exact Loc.updSim hx fun so hso => ⟨hso.1, hso.2.1, ht, hso.2.2.2.1, hso.2.2.2.2⟩

theorem Loc.checkForCycle {r : Nat} {x : Id} (hx : x.reg = r) (v : Var) (p : Period) :
    Loc r (checkForCycle x v p) (fun _ => True) := by
  unfold Heap.checkForCycle
  refine Loc.bind (Loc.rdSim hx) fun so hso => ?_
  refine Loc.bind (Loc.rdTracer hso.2.2.1) fun tr _ => ?_
  refine Loc.ite (fun _ => Loc.fail _) fun _ => ?_
  refine Loc.ite (fun _ => ?_) fun _ => Loc.pure _ trivial
  refine Loc.bind (Loc.rdInval hso.2.2.2.1) fun inv _ => ?_
  exact Loc.bind (Loc.wrLeaf hso.2.2.2.1 trivial) fun _ _ => Loc.fail _

theorem Loc.tracerStart {r : Nat} {x : Id} (hx : x.reg = r) (v : Var) (p : Period) :
    Loc r (tracerStart x v p) (fun _ => True) := by
  unfold Heap.tracerStart
  refine Loc.bind (Loc.rdSim hx) fun so hso => ?_
  refine Loc.bind (Loc.rdTracer hso.2.2.1) fun tr _ => ?_
  exact Loc.wrLeaf hso.2.2.1 trivial

theorem Loc.tracerEnd {r : Nat} {x : Id} (hx : x.reg = r) : Loc r (tracerEnd x) (fun _ => True) := by
  unfold Heap.tracerEnd
  refine Loc.bind (Loc.rdSim hx) fun so hso => ?_
  refine Loc.bind (Loc.rdTracer hso.2.2.1) fun tr _ => ?_
  exact Loc.wrLeaf hso.2.2.1 trivial

theorem Loc.purgeEach {r : Nat} (sys : Sys) {x : Id} (hx : x.reg = r) (ks : List Key) :
    Loc r (purgeEach sys x ks) (fun _ => True) := by
  induction ks with
  | nil => exact Loc.pure _ trivial
  | cons k t ih =>
    obtain ⟨v, p⟩ := k
    unfold Heap.purgeEach
    refine Loc.bind (Loc.getHolder sys hx v) fun y hy => ?_
    obtain ⟨hid, ho⟩ := y
    exact Loc.bind (Loc.holderDelete hy.2 _) fun _ _ => ih

theorem Loc.purge {r : Nat} (sys : Sys) {x : Id} (hx : x.reg = r) : Loc r (purge sys x) (fun _ => True) := by
  unfold Heap.purge
  refine Loc.bind (Loc.rdSim hx) fun so hso => ?_
  refine Loc.bind (Loc.rdTracer hso.2.2.1) fun tr _ => ?_
  refine Loc.ite (fun _ => ?_) fun _ => Loc.pure _ trivial
  refine Loc.bind (Loc.rdInval hso.2.2.2.1) fun inv _ => ?_
  refine Loc.bind (Loc.purgeEach sys hx inv) fun _ _ => ?_
  refine Loc.bind (by rw [hx]; exact Loc.new trivial) fun i hi => ?_
  exact Loc.updSim hx fun so2 hso2 => ⟨hso2.1, hso2.2.1, hso2.2.2.1, hi, hso2.2.2.2.2⟩

theorem Loc.transformPeriod {r : Nat} (pt : PT) (p : Period) : Loc r (transformPeriod pt p) (fun _ => True) := by
  cases pt with
  | same => exact Loc.pure _ trivial
  | lastMonth => exact Loc.ofPeriod _ fun _ _ => trivial

/-- what the engine's recursion is assumed to be: local when called on a simulation of the region -/
def RecLoc (r : Nat) (rec : Id → Var → Period → HM Vec) : Prop :=
  ∀ x v p, x.reg = r → Loc r (rec x v p) (fun _ => True)

theorem Loc.evalTerm {r : Nat} (sys : Sys) {rec : Id → Var → Period → HM Vec} (hrec : RecLoc r rec)
    {pid : Id} (hp : pid.reg = r) (ent : Nat) (p : Period) (t : Term) :
    Loc r (evalTerm sys rec pid ent p t) (fun _ => True) := by
  unfold Heap.evalTerm
  refine Loc.bind (Loc.transformPeriod _ _) fun p' _ => ?_
  refine Loc.bind (Loc.varDecl sys _) fun ddecl _ => ?_
  refine Loc.bind (Loc.rdPop hp) fun po hpo => ?_
  cases t.via with
  | same => exact Loc.ite (fun _ => Loc.fail _) fun _ => hrec _ _ _ hpo.1
  | enumIs k =>
    simp only
    refine Loc.ite (fun _ => Loc.fail _) fun _ => ?_
    exact Loc.bind (hrec _ _ _ hpo.1) fun a _ => Loc.pure _ trivial
  | members =>
    simp only
    refine Loc.bind (Q := fun (m : Id) => m.reg = r) (Loc.ofOption _ _ fun a ha => hpo.2.2 a ha) fun mid hmid => ?_
    refine Loc.bind (Loc.rdPop hmid) fun mo hmo => ?_
    refine Loc.ite (fun _ => Loc.fail _) fun _ => ?_
    refine Loc.bind (hrec _ _ _ hmo.1) fun a _ => ?_
    exact Loc.ite (fun _ => Loc.fail _) fun _ => Loc.pure _ trivial
  | project =>
    simp only
    refine Loc.bind (Loc.rdSim hpo.1) fun so hso => ?_
    refine Loc.bind (Q := fun (g : Id) => g.reg = r) (Loc.ofOption _ _ fun a ha => hso.2.1 _ (alGet_mem ha)) fun gid hgid => ?_
    refine Loc.ite (fun _ => Loc.fail _) fun _ => ?_
    refine Loc.bind (Loc.rdPop hgid) fun go hgo => ?_
    refine Loc.bind (hrec _ _ _ hgo.1) fun a _ => ?_
    exact Loc.ite (fun _ => Loc.fail _) fun _ => Loc.ofOption _ _ fun _ _ => trivial
  | membersRole role =>
    simp only
    refine Loc.bind (Q := fun (m : Id) => m.reg = r) (Loc.ofOption _ _ fun a ha => hpo.2.2 a ha) fun mid hmid => ?_
    refine Loc.bind (Loc.rdPop hmid) fun mo hmo => ?_
    refine Loc.ite (fun _ => Loc.fail _) fun _ => ?_
    refine Loc.bind (hrec _ _ _ hmo.1) fun a _ => ?_
    refine Loc.ite (fun _ => Loc.fail _) fun _ => ?_
    refine Loc.bind (Loc.rdSim hmo.1) fun so hso => ?_
    refine Loc.bind (Q := fun (g : Id) => g.reg = r) (Loc.ofOption _ _ fun a ha => hso.2.1 _ (alGet_mem ha)) fun gid hgid => ?_
    refine Loc.bind (Loc.rdPop hgid) fun go _ => ?_
    exact Loc.ite (fun _ => Loc.fail _) fun _ => Loc.pure _ trivial
  | nbPersons role =>
    simp only
    exact Loc.ite (fun _ => Loc.fail _) fun _ => Loc.pure _ trivial
  | hasRole g role =>
    simp only
    refine Loc.bind (Loc.rdSim hpo.1) fun so hso => ?_
    refine Loc.bind (Q := fun (g : Id) => g.reg = r) (Loc.ofOption _ _ fun a ha => hso.2.1 _ (alGet_mem ha)) fun gid hgid => ?_
    exact Loc.bind (Loc.rdPop hgid) fun go _ => Loc.pure _ trivial
  | param => exact Loc.pure _ trivial
  | nth k =>
    simp only
    refine Loc.bind (Q := fun (m : Id) => m.reg = r) (Loc.ofOption _ _ fun a ha => hpo.2.2 a ha) fun mid hmid => ?_
    refine Loc.bind (Loc.rdPop hmid) fun mo hmo => ?_
    refine Loc.ite (fun _ => Loc.fail _) fun _ => ?_
    refine Loc.bind (hrec _ _ _ hmo.1) fun a _ => ?_
    refine Loc.ite (fun _ => Loc.fail _) fun _ => ?_
    exact Loc.ite (fun _ => Loc.fail _) fun _ => Loc.ofOption _ _ fun _ _ => trivial

theorem Loc.evalTerms {r : Nat} (sys : Sys) {rec : Id → Var → Period → HM Vec} (hrec : RecLoc r rec)
    {pid : Id} (hp : pid.reg = r) (ent : Nat) (p : Period) (ts : List Term) (acc : Vec) :
    Loc r (evalTerms sys rec pid ent p ts acc) (fun _ => True) := by
  induction ts generalizing acc with
  | nil => exact Loc.pure _ trivial
  | cons t rest ih =>
    unfold Heap.evalTerms
    refine Loc.bind (Loc.evalTerm sys hrec hp ent p t) fun a _ => ?_
    exact Loc.ite (fun _ => Loc.fail _) fun _ => ih _

theorem Loc.formulaValue {r : Nat} (sys : Sys) {rec : Id → Var → Period → HM Vec} (hrec : RecLoc r rec)
    (p : Period) (decl : VarDecl) {pid : Id} (hp : pid.reg = r) {ho : HolderObj} (hho : InReg r (.holder ho)) :
    Loc r (formulaValue sys rec p decl pid ho) (fun _ => True) := by
  unfold Heap.formulaValue
  cases decl.formula with
  | none => exact Loc.holderDefault sys hho
  | some ct =>
    refine Loc.ite (fun _ => Loc.fail _) fun _ => ?_
    exact Loc.bind (Loc.rdPop hp) fun po _ => Loc.evalTerms sys hrec hp _ _ _ _

theorem Loc.computeAndStore {r : Nat} (sys : Sys) {rec : Id → Var → Period → HM Vec} (hrec : RecLoc r rec)
    {x : Id} (hx : x.reg = r) (v : Var) (p : Period) (decl : VarDecl) {pid : Id} (hp : pid.reg = r)
    {ho : HolderObj} (hho : InReg r (.holder ho)) :
    Loc r (computeAndStore sys rec x v p decl pid ho) (fun _ => True) := by
  unfold Heap.computeAndStore
  refine Loc.bind (Loc.checkForCycle hx v p) fun _ _ => ?_
  refine Loc.bind (Loc.formulaValue sys hrec p decl hp hho) fun a _ => ?_
  exact Loc.bind (Loc.putInCache sys hho p a) fun _ _ => Loc.pure _ trivial

theorem Loc.invalidateEntry {r : Nat} {x : Id} (hx : x.reg = r) (v : Var) (p : Period) :
    Loc r (invalidateEntry x v p) (fun _ => True) := by
  unfold Heap.invalidateEntry
  refine Loc.bind (Loc.rdSim hx) fun so hso => ?_
  exact Loc.bind (Loc.rdInval hso.2.2.2.1) fun inv _ => Loc.wrLeaf hso.2.2.2.1 trivial

theorem Loc.taintOnHit {r : Nat} {x : Id} (hx : x.reg = r) (v : Var) (p : Period) (et : Bool) :
    Loc r (taintOnHit x v p et) (fun _ => True) := by
  unfold Heap.taintOnHit
  refine Loc.bind (Loc.rdSim hx) fun so hso => ?_
  refine Loc.bind (Loc.rdInval hso.2.2.2.1) fun inv _ => ?_
  refine Loc.ite (fun _ => ?_) fun _ => Loc.pure _ trivial
  exact Loc.bind (Loc.rdTracer hso.2.2.1) fun tr _ => Loc.wrLeaf hso.2.2.2.1 trivial

theorem Loc.calcInner {r : Nat} (sys : Sys) {rec : Id → Var → Period → HM Vec} (hrec : RecLoc r rec)
    {x : Id} (hx : x.reg = r) (v : Var) (p : Period) : Loc r (calcInner sys rec x v p) (fun _ => True) := by
  unfold Heap.calcInner
  refine Loc.bind (Loc.varDecl sys v) fun decl _ => ?_
  refine Loc.bind (Loc.rdSim hx) fun so hso => ?_
  refine Loc.bind (Q := fun (g : Id) => g.reg = r) (Loc.ofOption _ _ fun a ha => hso.2.1 _ (alGet_mem ha)) fun pid hpid => ?_
  refine Loc.bind (Loc.getHolder sys hx v) fun y hy => ?_
  obtain ⟨hid, ho⟩ := y
  refine Loc.ite (fun _ => Loc.fail _) fun _ => ?_
  refine Loc.bind (Loc.holderFind hy.2 p) fun found _ => ?_
  cases found with
  | some a => exact Loc.bind (Loc.taintOnHit hx v p _) fun _ _ => Loc.pure _ trivial
  | none => exact Loc.catchSpiral (Loc.computeAndStore sys hrec hx v p decl hpid hy.2) (Loc.holderDefault sys hy.2)

theorem Loc.calcF {r : Nat} (sys : Sys) (n : Nat) : RecLoc r (calcF sys n) := by
  induction n with
  | zero => intro x v p _; exact Loc.fail _
  | succ n ih =>
    intro x v p hx
    unfold Heap.calcF
    refine Loc.bind (Loc.tracerStart hx v p) fun _ _ => ?_
    exact Loc.tryFinally (Loc.calcInner sys ih hx v p) (Loc.bind (Loc.tracerEnd hx) fun _ _ => Loc.purge sys hx)

theorem Loc.sumCalc {r : Nat} (sys : Sys) (n : Nat) {x : Id} (hx : x.reg = r) (v : Var) (ps : List Period)
    (acc : Option Vec) : Loc r (sumCalc sys n x v ps acc) (fun _ => True) := by
  induction ps generalizing acc with
  | nil => exact Loc.pure _ trivial
  | cons sp rest ih =>
    unfold Heap.sumCalc
    exact Loc.bind (Loc.calcF sys n x v sp hx) fun a _ => ih _

theorem Loc.calcAdd {r : Nat} (sys : Sys) (n : Nat) {x : Id} (hx : x.reg = r) (v : Var) (p : Period) :
    Loc r (calcAdd sys n x v p) (fun _ => True) := by
  unfold Heap.calcAdd
  refine Loc.bind (Loc.varDecl sys v) fun decl _ => ?_
  refine Loc.ite (fun _ => Loc.fail _) fun _ => ?_
  refine Loc.ite (fun _ => Loc.fail _) fun _ => ?_
  refine Loc.ite (fun _ => Loc.fail _) fun _ => ?_
  refine Loc.bind (Loc.ofPeriod _ fun _ _ => trivial) fun subs _ => ?_
  exact Loc.sumCalc sys n hx v subs none

theorem Loc.routePop {r : Nat} {x : Id} (hx : x.reg = r) (rt : Route) (ent : Nat) :
    Loc r (routePop x rt ent) (fun pid => pid.reg = r) := by
  unfold Heap.routePop
  refine Loc.bind (Loc.rdSim hx) fun so hso => ?_
  cases rt with
  | persons => exact Loc.pure _ hso.1
  | getPopulation => exact Loc.ofOption _ _ fun a ha => hso.2.1 _ (alGet_mem ha)
  | populations => exact Loc.ofOption _ _ fun a ha => hso.2.1 _ (alGet_mem ha)
  | shortcut => exact Loc.ofOption _ _ fun a ha => hso.2.1 _ (alGet_mem ha)

theorem Loc.calcThrough {r : Nat} (sys : Sys) (n : Nat) {x : Id} (hx : x.reg = r) (rt : Route) (ent : Nat) (v : Var)
    (p : Period) : Loc r (calcThrough sys n x rt ent v p) (fun _ => True) := by
  unfold Heap.calcThrough
  refine Loc.bind (Loc.routePop hx rt ent) fun pid hpid => ?_
  refine Loc.bind (Loc.rdPop hpid) fun po hpo => ?_
  refine Loc.bind (Loc.varDecl sys v) fun decl _ => ?_
  exact Loc.ite (fun _ => Loc.fail _) fun _ => Loc.calcF sys n _ v p hpo.1

theorem Loc.popGetHolder {r : Nat} (sys : Sys) {pid : Id} (hp : pid.reg = r) (v : Var) :
    Loc r (popGetHolder sys r pid v) (fun y => y.1.reg = r ∧ InReg r (.holder y.2)) := by
  unfold Heap.popGetHolder
  refine Loc.bind (Loc.varDecl sys v) fun decl _ => ?_
  refine Loc.bind (Loc.rdPop hp) fun po hpo => ?_
  refine Loc.ite (fun _ => Loc.fail _) fun _ => ?_
  cases hh : alGet po.holders v with
  | none => exact Loc.createHolder sys hp v
  | some hid =>
    have hhid : hid.reg = r := hpo.2.1 _ (alGet_mem hh)
    exact Loc.bind (Loc.rdHolder hhid) fun ho hho => Loc.pure _ ⟨hhid, hho⟩

theorem Loc.readThrough {r : Nat} (sys : Sys) {x : Id} (hx : x.reg = r) (rt : Route) (ent : Nat) (v : Var) (p : Period) :
    Loc r (readThrough sys x rt ent v p) (fun _ => True) := by
  unfold Heap.readThrough
  refine Loc.bind (Loc.routePop hx rt ent) fun pid hpid => ?_
  refine Loc.bind (by rw [hx]; exact Loc.popGetHolder sys hpid v) fun y hy => ?_
  obtain ⟨hid, ho⟩ := y
  exact Loc.holderFind hy.2 p

/-- every public-API call on a simulation of region `r` is local to region `r` -/
theorem step_loc {r : Nat} (sys : Sys) (fuel : Nat) {x : Id} (hx : x.reg = r) (op : Op) :
    Loc r (step sys fuel x op) (fun _ => True) := by
  cases op with
  | setInput v p a =>
    unfold step
    exact Loc.bind (Loc.setInput sys hx v p a) fun _ _ => Loc.pure _ trivial
  | deleteArrays v p =>
    unfold step
    exact Loc.bind (Loc.deleteArrays sys hx v p) fun _ _ => Loc.pure _ trivial
  | calculate v p =>
    unfold step
    exact Loc.bind (Loc.calcF sys fuel x v p hx) fun _ _ => Loc.pure _ trivial
  | calculateAdd v p =>
    unfold step
    refine Loc.bind (Loc.calcAdd sys fuel hx v p) fun a _ => ?_
    cases a with
    | none => exact Loc.pure _ trivial
    | some a => exact Loc.pure _ trivial
  | setTrace b =>
    unfold step
    exact Loc.bind (Loc.setTrace hx b) fun _ _ => Loc.pure _ trivial
  | touch v =>
    unfold step
    exact Loc.bind (Loc.getHolder sys hx v) fun _ _ => Loc.pure _ trivial
  | setBad v p =>
    unfold step
    exact Loc.bind (Loc.setInputBad sys hx v p) fun _ _ => Loc.pure _ trivial
  | calcVia rt ent v p =>
    unfold step
    exact Loc.bind (Loc.calcThrough sys fuel hx rt ent v p) fun _ _ => Loc.pure _ trivial
  | readVia rt ent v p =>
    unfold step
    refine Loc.bind (Loc.readThrough sys hx rt ent v p) fun a _ => ?_
    cases a with
    | none => exact Loc.pure _ trivial
    | some a => exact Loc.pure _ trivial
  | invalidate v p =>
    unfold step
    exact Loc.bind (Loc.invalidateEntry hx v p) fun _ _ => Loc.pure _ trivial

/-! ## observations -/

theorem Loc.observeHolder {r : Nat} (x pid : Id) {e : Var × Id} (he : e.2.reg = r) :
    Loc r (observeHolder x pid e) (fun _ => True) := by
  unfold Heap.observeHolder
  refine Loc.bind (Loc.rdHolder he) fun ho hho => ?_
  exact Loc.bind (Loc.holderKnown hho) fun _ _ => Loc.pure _ trivial

theorem Loc.observePop {r : Nat} (x persons : Id) {e : Nat × Id} (he : e.2.reg = r) :
    Loc r (observePop x persons e) (fun _ => True) := by
  unfold Heap.observePop
  refine Loc.bind (Loc.rdPop he) fun po hpo => ?_
  refine Loc.bind (Loc.mapMH _ fun a ha => Loc.observeHolder x e.2 (hpo.2.1 a ha)) fun _ _ => ?_
  exact Loc.pure _ trivial

theorem Loc.routeOwn {r : Nat} {x : Id} (hx : x.reg = r) (rt : Route) (ent : Nat) :
    Loc r (routeOwn x rt ent) (fun _ => True) := by
  unfold Heap.routeOwn
  refine Loc.bind (Loc.routePop hx rt ent) fun pid hpid => ?_
  exact Loc.bind (Loc.rdPop hpid) fun po _ => Loc.pure _ trivial

theorem Loc.observeRoutes {r : Nat} {x : Id} (hx : x.reg = r) (e : Nat × Id) :
    Loc r (observeRoutes x e) (fun _ => True) := by
  unfold Heap.observeRoutes
  refine Loc.bind (Loc.routeOwn hx _ _) fun a _ => ?_
  refine Loc.bind (Loc.routeOwn hx _ _) fun b _ => ?_
  exact Loc.bind (Loc.routeOwn hx _ _) fun c _ => Loc.pure _ trivial

theorem Loc.observe {r : Nat} {x : Id} (hx : x.reg = r) : Loc r (observe x) (fun _ => True) := by
  unfold Heap.observe
  refine Loc.bind (Loc.rdSim hx) fun so hso => ?_
  refine Loc.bind (Loc.rdTracer hso.2.2.1) fun tr _ => ?_
  refine Loc.bind (Loc.rdInval hso.2.2.2.1) fun inv _ => ?_
  refine Loc.bind (Loc.mapMH _ fun a ha => Loc.observePop x so.persons (hso.2.1 a ha)) fun _ _ => ?_
  refine Loc.bind (Loc.mapMH _ fun a _ => Loc.observeRoutes hx a) fun _ _ => ?_
  exact Loc.bind (Loc.routeOwn hx _ _) fun _ _ => Loc.pure _ trivial

end OFCore.Heap
