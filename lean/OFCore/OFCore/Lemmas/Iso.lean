import OFCore.Lemmas.CalendarArith
/-! # ISO-week calendar lemmas: `toIso` / `ofIso` round trip, week ranges -/
namespace OFCore

theorem ord_jan4 (y : Int) : ord ⟨y, 1, 4⟩ = dby y + 4 := by
  have h1 : ∀ l, dbm l 1 = 0 := by intro l; cases l <;> decide
  simp only [ord, h1]; omega

theorem isoWeek1_eq (y : Int) : isoWeek1 y = dby y + 4 - (dby y + 4 + 6) % 7 := by
  unfold isoWeek1 weekday0; rw [ord_jan4]

theorem dby_step (y : Int) : dby (y + 1) = dby y + 365 ∨ dby (y + 1) = dby y + 366 := by
  rw [dby_succ]; split <;> omega

theorem isoWeek1_monday (y : Int) : weekday0 (isoWeek1 y) = 0 := by
  rw [isoWeek1_eq]; unfold weekday0; omega

theorem isoWeek1_step (y : Int) :
    isoWeek1 (y + 1) = isoWeek1 y + 364 ∨ isoWeek1 (y + 1) = isoWeek1 y + 371 := by
  rw [isoWeek1_eq, isoWeek1_eq]
  rcases dby_step y with h | h <;> rw [h] <;> omega

theorem isoWeeksIn_range (y : Int) : isoWeeksIn y = 52 ∨ isoWeeksIn y = 53 := by
  unfold isoWeeksIn
  rcases isoWeek1_step y with h | h <;> rw [h] <;> omega

/-- the ISO year chosen by `toIso` contains the date -/
theorem toIso_year_bounds (c : Date) (hv : c.Valid) :
    isoWeek1 (toIso c).1 ≤ ord c ∧ ord c < isoWeek1 ((toIso c).1 + 1) := by
  have hb := ord_bounds c hv
  have hs0 := dby_step (c.y - 1)
  have hs1 := dby_step c.y
  have hs2 := dby_step (c.y + 1)
  have e0 : c.y - 1 + 1 = c.y := by omega
  rw [e0] at hs0
  have w0 := isoWeek1_eq (c.y - 1)
  have w1 := isoWeek1_eq c.y
  have w2 := isoWeek1_eq (c.y + 1)
  have w3 := isoWeek1_eq (c.y + 1 + 1)
  have hbb : ord c ≤ dby c.y + 366 := by have := hb.2; split at this <;> omega
  simp only [toIso]
  split
  · rename_i h; rw [e0]; exact ⟨by omega, h⟩
  · split
    · rename_i h1 h2; exact ⟨h2, by omega⟩
    · rename_i h1 h2; exact ⟨by omega, by omega⟩

theorem toIso_spec (c : Date) (hv : c.Valid) (y w d : Int) (hiso : toIso c = (y, w, d)) :
    1 ≤ w ∧ w ≤ isoWeeksIn y ∧ w ≤ 53 ∧ 1 ≤ d ∧ d ≤ 7 ∧ ofIso y w d = c ∧
    (weekday0 (ord c) = 0 → d = 1) ∧ c.y - 1 ≤ y ∧ y ≤ c.y + 1 := by
  have hb := toIso_year_bounds c hv
  have hm := isoWeek1_monday (toIso c).1
  have hst := isoWeek1_step (toIso c).1
  have hr := isoWeeksIn_range (toIso c).1
  have hy : c.y - 1 ≤ (toIso c).1 ∧ (toIso c).1 ≤ c.y + 1 := by
    simp only [toIso]; split
    · omega
    · split <;> omega
  have e : toIso c = ((toIso c).1, (ord c - isoWeek1 (toIso c).1) / 7 + 1, weekday0 (ord c) + 1) := rfl
  rw [e] at hiso
  injection hiso with h1 h2
  injection h2 with h2 h3
  subst h2 h3
  rw [h1] at hb hm hst hr hy ⊢
  clear e h1
  have hw := weekday0_range (ord c)
  unfold weekday0 at hm hw ⊢
  refine ⟨by omega, ?_, by omega, by omega, by omega, ?_, by omega, hy.1, hy.2⟩
  · unfold isoWeeksIn; omega
  · unfold ofIso
    have : isoWeek1 y + ((ord c - isoWeek1 y) / 7 + 1 - 1) * 7 + ((ord c + 6) % 7 + 1 - 1) = ord c := by omega
    rw [this]; exact ofOrd_ord c hv

end OFCore
