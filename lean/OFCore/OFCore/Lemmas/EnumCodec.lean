import OFCore.EnumCodec
/-!
# Lemmas about the enumeration codec

1. the order on strings (core facts repackaged for `<` and `¬ · < ·`);
2. insertion sort: permutation + sortedness; the leftmost binary search returns the insertion
   point; hence `sorter[searchsorted(names, v, sorter)]` is a position of `v` in `names`, and
   *the* position `nameIndex? names v` when the names are distinct;
3. `allOk`, `intToIndex`, `strToIndex`, `decode`, `decodeToStr`;
4. `encode`: accepted inputs are encoded element by element (`encode_ok_of_not_rejected`),
   rejected inputs raise (`encode_error_of_rejected`).

Core Lean only.
-/
namespace OFCore.EnumCodec

/-! ## 1. order on strings -/

theorem slt_irrefl (a : String) : ¬ a < a := String.lt_irrefl a
theorem slt_trans {a b c : String} : a < b → b < c → a < c := String.lt_trans
theorem slt_asymm {a b : String} : a < b → ¬ b < a := String.lt_asymm

/-- `a < b ≤ c → a < c` -/
theorem slt_of_lt_of_not_lt {a b c : String} (h1 : a < b) (h2 : ¬ c < b) : a < c :=
  Std.lt_of_lt_of_le h1 (String.not_lt.mp h2)

/-- `a ≤ b < c → a < c` -/
theorem slt_of_not_lt_of_lt {a b c : String} (h1 : ¬ b < a) (h2 : b < c) : a < c :=
  Std.lt_of_le_of_lt (String.not_lt.mp h1) h2

theorem seq_of_not_lt {a b : String} (h1 : ¬ a < b) (h2 : ¬ b < a) : a = b :=
  String.le_antisymm (String.not_lt.mp h2) (String.not_lt.mp h1)

/-! ## 2. sort and search -/

/-- sorted by name (non-strictly) -/
def SortedPairs (l : List (String × Nat)) : Prop := l.Pairwise (fun a b => ¬ b.1 < a.1)

theorem insertPair_perm (p : String × Nat) (l : List (String × Nat)) :
    (insertPair p l).Perm (p :: l) := by
  induction l with
  | nil => exact List.Perm.refl _
  | cons q qs ih =>
    unfold insertPair
    split
    · exact ((List.perm_cons q).mpr ih).trans (List.Perm.swap p q qs)
    · exact List.Perm.refl _

theorem sortPairs_perm (l : List (String × Nat)) : (sortPairs l).Perm l := by
  induction l with
  | nil => exact List.Perm.refl _
  | cons p ps ih =>
    unfold sortPairs
    exact (insertPair_perm p _).trans ((List.perm_cons p).mpr ih)

theorem insertPair_sorted (p : String × Nat) (l : List (String × Nat)) (h : SortedPairs l) :
    SortedPairs (insertPair p l) := by
  induction l with
  | nil => simp [insertPair, SortedPairs]
  | cons q qs ih =>
    have hq := List.pairwise_cons.mp h
    unfold insertPair
    split
    next hlt =>
      refine List.pairwise_cons.mpr ⟨?_, ih hq.2⟩
      intro a ha
      rcases List.mem_cons.mp ((insertPair_perm p qs).mem_iff.mp ha) with rfl | ha'
      · exact slt_asymm hlt
      · exact hq.1 a ha'
    next hnlt =>
      refine List.pairwise_cons.mpr ⟨?_, h⟩
      intro a ha
      rcases List.mem_cons.mp ha with rfl | ha'
      · exact hnlt
      · intro hap
        exact hq.1 a ha' (slt_of_lt_of_not_lt hap hnlt)

theorem sortPairs_sorted (l : List (String × Nat)) : SortedPairs (sortPairs l) := by
  induction l with
  | nil => simp [sortPairs, SortedPairs]
  | cons p ps ih => unfold sortPairs; exact insertPair_sorted p _ ih

theorem indexed_fst (k : Nat) (names : List String) : (indexed k names).map Prod.fst = names := by
  induction names generalizing k with
  | nil => rfl
  | cons s ss ih => simp [indexed, ih]

theorem mem_indexed {k : Nat} {names : List String} {s : String} {i : Nat}
    (h : (s, i) ∈ indexed k names) : k ≤ i ∧ names[i - k]? = some s := by
  induction names generalizing k with
  | nil => simp [indexed] at h
  | cons t ts ih =>
    simp only [indexed, List.mem_cons, Prod.mk.injEq] at h
    rcases h with ⟨rfl, rfl⟩ | h
    · simp
    · have := ih h
      refine ⟨by omega, ?_⟩
      have e : i - k = (i - (k + 1)) + 1 := by omega
      rw [e, List.getElem?_cons_succ]
      exact this.2

/-- the keys, read with a default, are in non-decreasing order -/
def SortedD (keys : List String) : Prop :=
  ∀ i j, i < j → j < keys.length → ¬ keys.getD j "" < keys.getD i ""

theorem sortedD_of_pairwise {keys : List String} (h : keys.Pairwise (fun a b => ¬ b < a)) :
    SortedD keys := by
  intro i j hij hj
  have hi : i < keys.length := by omega
  have := (List.pairwise_iff_getElem.mp h) i j hi hj hij
  simpa [List.getD_eq_getElem?_getD, List.getElem?_eq_getElem hi, List.getElem?_eq_getElem hj] using this

theorem sortedNames_sorted (names : List String) : SortedD (sortedNames names) := by
  apply sortedD_of_pairwise
  unfold sortedNames
  rw [List.pairwise_map]
  exact sortPairs_sorted _

/-- Invariant of the binary search: everything left of `lo` is `< v`, nothing from `hi` on is. -/
theorem bsearchLeft_spec (keys : List String) (v : String) (hs : SortedD keys) :
    ∀ fuel lo hi, lo ≤ hi → hi ≤ keys.length → hi - lo ≤ fuel →
      (∀ j, j < lo → keys.getD j "" < v) →
      (∀ j, hi ≤ j → j < keys.length → ¬ keys.getD j "" < v) →
      bsearchLeft keys v fuel lo hi ≤ keys.length ∧
      (∀ j, j < bsearchLeft keys v fuel lo hi → keys.getD j "" < v) ∧
      (∀ j, bsearchLeft keys v fuel lo hi ≤ j → j < keys.length → ¬ keys.getD j "" < v) := by
  intro fuel
  induction fuel with
  | zero =>
    intro lo hi hle hhi hfuel hL hR
    have : lo = hi := by omega
    subst this
    exact ⟨hhi, hL, hR⟩
  | succ fuel ih =>
    intro lo hi hle hhi hfuel hL hR
    unfold bsearchLeft
    by_cases hlt : lo < hi
    · simp only [hlt, if_true]
      have hmid1 : lo ≤ lo + (hi - lo) / 2 := by omega
      have hmid2 : lo + (hi - lo) / 2 < hi := by omega
      by_cases hk : keys.getD (lo + (hi - lo) / 2) "" < v
      · simp only [hk, if_true]
        apply ih (lo + (hi - lo) / 2 + 1) hi (by omega) hhi (by omega) _ hR
        intro j hj
        by_cases hjm : j = lo + (hi - lo) / 2
        · rw [hjm]; exact hk
        · exact slt_of_not_lt_of_lt (hs j (lo + (hi - lo) / 2) (by omega) (by omega)) hk
      · simp only [hk, if_false]
        apply ih lo (lo + (hi - lo) / 2) hmid1 (by omega) (by omega) hL
        intro j hj hjl hjv
        by_cases hjm : j = lo + (hi - lo) / 2
        · rw [hjm] at hjv; exact hk hjv
        · exact hs (lo + (hi - lo) / 2) j (by omega) hjl (slt_of_lt_of_not_lt hjv hk)
    · simp only [hlt, if_false]
      have : lo = hi := by omega
      subst this
      exact ⟨hhi, hL, hR⟩

/-- `searchsorted(…, side="left")` returns the insertion point. -/
theorem searchsortedLeft_spec (keys : List String) (v : String) (hs : SortedD keys) :
    searchsortedLeft keys v ≤ keys.length ∧
    (∀ j, j < searchsortedLeft keys v → keys.getD j "" < v) ∧
    (∀ j, searchsortedLeft keys v ≤ j → j < keys.length → ¬ keys.getD j "" < v) := by
  unfold searchsortedLeft
  exact bsearchLeft_spec keys v hs keys.length 0 keys.length (Nat.zero_le _) (Nat.le_refl _) (by omega)
    (fun j hj => absurd hj (Nat.not_lt_zero j)) (fun j hj hj' => absurd hj' (by omega))

/-- … and when `v` occurs among the keys, the insertion point is a position of `v`. -/
theorem searchsortedLeft_mem (keys : List String) (v : String) (hs : SortedD keys) (hv : v ∈ keys) :
    ∃ h : searchsortedLeft keys v < keys.length, keys[searchsortedLeft keys v] = v := by
  obtain ⟨hle, hL, hR⟩ := searchsortedLeft_spec keys v hs
  obtain ⟨q, hq, hqv⟩ := List.getElem_of_mem hv
  have hqD : keys.getD q "" = v := by
    simp [List.getD_eq_getElem?_getD, List.getElem?_eq_getElem hq, hqv]
  have hpq : searchsortedLeft keys v ≤ q := by
    apply Nat.le_of_not_lt
    intro hlt
    have := hL q hlt
    rw [hqD] at this
    exact slt_irrefl v this
  have hp : searchsortedLeft keys v < keys.length := by omega
  refine ⟨hp, ?_⟩
  have hpD : keys.getD (searchsortedLeft keys v) "" = keys[searchsortedLeft keys v] := by
    simp [List.getD_eq_getElem?_getD, List.getElem?_eq_getElem hp]
  have h1 : ¬ keys[searchsortedLeft keys v] < v := by
    rw [← hpD]; exact hR _ (Nat.le_refl _) hp
  have h2 : ¬ v < keys[searchsortedLeft keys v] := by
    by_cases he : searchsortedLeft keys v = q
    · rw [← hpD, he, hqD]; exact slt_irrefl v
    · have := hs (searchsortedLeft keys v) q (by omega) hq
      rw [hqD, hpD] at this
      exact this
  exact seq_of_not_lt h1 h2

theorem mem_sortedNames {names : List String} {v : String} : v ∈ sortedNames names ↔ v ∈ names := by
  unfold sortedNames
  rw [((sortPairs_perm (indexed 0 names)).map Prod.fst).mem_iff, indexed_fst]

theorem argsort_length (names : List String) : (argsort names).length = (sortedNames names).length := by
  simp [argsort, sortedNames]

/-- `sorter[searchsorted(names, v, sorter=sorter)]` is a position of `v` in `names`. -/
theorem lookupSorted_mem (names : List String) (v : String) (hv : v ∈ names) :
    ∃ i, lookupSorted names v = .ok i ∧ names[i]? = some v := by
  obtain ⟨hp, hpv⟩ := searchsortedLeft_mem (sortedNames names) v (sortedNames_sorted names)
    (mem_sortedNames.mpr hv)
  have hp' : searchsortedLeft (sortedNames names) v < (sortPairs (indexed 0 names)).length := by
    simpa [sortedNames] using hp
  have hfst : ((sortPairs (indexed 0 names))[searchsortedLeft (sortedNames names) v]).1 = v := by
    simpa [sortedNames] using hpv
  have hmem : (sortPairs (indexed 0 names))[searchsortedLeft (sortedNames names) v] ∈ indexed 0 names :=
    (sortPairs_perm _).mem_iff.mp (List.getElem_mem hp')
  have hget : (argsort names)[searchsortedLeft (sortedNames names) v]? =
      some ((sortPairs (indexed 0 names))[searchsortedLeft (sortedNames names) v]).2 := by
    simp [argsort, List.getElem?_map, List.getElem?_eq_getElem hp']
  generalize (sortPairs (indexed 0 names))[searchsortedLeft (sortedNames names) v] = pr at hfst hmem hget
  obtain ⟨s, i⟩ := pr
  simp only at hfst hget
  subst hfst
  refine ⟨i, ?_, ?_⟩
  · unfold lookupSorted
    rw [hget]
  · simpa using (mem_indexed hmem).2

theorem nameIndex?_of_getElem? {names : List String} (hnd : names.Nodup) {i : Nat} {v : String}
    (h : names[i]? = some v) : nameIndex? names v = some i := by
  induction names generalizing i with
  | nil => simp at h
  | cons n ns ih =>
    have hn := List.nodup_cons.mp hnd
    cases i with
    | zero =>
      simp at h
      simp [nameIndex?, h]
    | succ i' =>
      simp at h
      have hv : v ∈ ns := List.mem_of_getElem? h
      have hne : n ≠ v := fun e => hn.1 (e ▸ hv)
      simp [nameIndex?, hne, ih hn.2 h]

theorem nameIndex?_some {names : List String} {v : String} {i : Nat}
    (h : nameIndex? names v = some i) : names[i]? = some v := by
  induction names generalizing i with
  | nil => simp [nameIndex?] at h
  | cons n ns ih =>
    unfold nameIndex? at h
    split at h
    next heq => cases h; simp [heq]
    next hne =>
      cases hj : nameIndex? ns v with
      | none => simp [hj] at h
      | some j =>
        simp [hj] at h
        subst h
        simpa using ih hj

theorem nameIndex?_isSome_of_mem {names : List String} {v : String} (hv : v ∈ names) :
    ∃ i, nameIndex? names v = some i := by
  induction names with
  | nil => simp at hv
  | cons n ns ih =>
    unfold nameIndex?
    by_cases h : n = v
    · exact ⟨0, by simp [h]⟩
    · rcases List.mem_cons.mp hv with rfl | hv'
      · exact absurd rfl h
      · obtain ⟨j, hj⟩ := ih hv'
        exact ⟨j + 1, by simp [h, hj]⟩

/-- **Sort + leftmost search = lookup by name** when the names are distinct. -/
theorem lookupSorted_eq_nameIndex (names : List String) (hnd : names.Nodup) (v : String)
    (hv : v ∈ names) : ∃ i, nameIndex? names v = some i ∧ lookupSorted names v = .ok i := by
  obtain ⟨i, hi, hget⟩ := lookupSorted_mem names v hv
  exact ⟨i, nameIndex?_of_getElem? hnd hget, hi⟩

/-! ## 3. `allOk`, `_int_to_index`, `_str_to_index`, decoding -/

theorem allOk_map {α β : Type} {f : α → Except String β} {g : α → β} {l : List α}
    (h : ∀ a ∈ l, f a = .ok (g a)) : allOk f l = .ok (l.map g) := by
  induction l with
  | nil => rfl
  | cons a as ih =>
    have ha := h a (List.mem_cons_self ..)
    have has := ih (fun b hb => h b (List.mem_cons_of_mem _ hb))
    simp [allOk, ha, has]

theorem allOk_error {α β : Type} {f : α → Except String β} {l : List α}
    (h : ∃ a ∈ l, ∃ m, f a = .error m) : ∃ m, allOk f l = .error m := by
  induction l with
  | nil => obtain ⟨a, ha, _⟩ := h; simp at ha
  | cons a as ih =>
    unfold allOk
    cases hfa : f a with
    | error m => exact ⟨m, rfl⟩
    | ok b =>
      obtain ⟨a', ha', m, hm⟩ := h
      rcases List.mem_cons.mp ha' with rfl | hmem
      · rw [hfa] at hm; cases hm
      · obtain ⟨m', hm'⟩ := ih ⟨a', hmem, m, hm⟩
        exact ⟨m', by simp [hm']⟩

theorem intToIndex_length_eq_iff (n : Nat) (vs : List Int) :
    (intToIndex n vs).length = vs.length ↔ ∀ v ∈ vs, 0 ≤ v ∧ v < (n : Int) := by
  unfold intToIndex
  rw [List.length_map, List.length_filter_eq_length_iff]
  simp

theorem intToIndex_of_valid (n : Nat) (vs : List Int) (h : ∀ v ∈ vs, 0 ≤ v ∧ v < (n : Int)) :
    intToIndex n vs = vs.map Int.toNat := by
  unfold intToIndex
  rw [List.filter_eq_self.mpr]
  intro v hv
  simp [h v hv]

/-- the index `_str_to_index` computes for one name -/
def strCode (names : List String) (s : String) : Nat :=
  match lookupSorted names s with
  | .ok i => i
  | .error _ => 0

theorem strCode_spec {names : List String} {s : String} (hs : s ∈ names) :
    lookupSorted names s = .ok (strCode names s) ∧ names[strCode names s]? = some s := by
  obtain ⟨i, hi, hget⟩ := lookupSorted_mem names s hs
  simp [strCode, hi, hget]

theorem strCode_eq_nameIndex {names : List String} (hnd : names.Nodup) {s : String} (hs : s ∈ names) :
    nameIndex? names s = some (strCode names s) :=
  nameIndex?_of_getElem? hnd (strCode_spec hs).2

/-- `_str_to_index` never raises by itself: unknown names are dropped by the mask. -/
theorem strToIndex_eq (names : List String) (ss : List String) :
    strToIndex names ss = .ok ((ss.filter (fun s => decide (s ∈ names))).map (strCode names)) := by
  unfold strToIndex
  apply allOk_map
  intro s hs
  have : s ∈ names := by simpa using (List.mem_filter.mp hs).2
  exact (strCode_spec this).1

theorem strToIndex_of_valid (names : List String) (ss : List String) (h : ∀ s ∈ ss, s ∈ names) :
    strToIndex names ss = .ok (ss.map (strCode names)) := by
  rw [strToIndex_eq, List.filter_eq_self.mpr]
  intro s hs
  simp [h s hs]

theorem filter_mem_length_eq_iff (names ss : List String) :
    (ss.filter (fun s => decide (s ∈ names))).length = ss.length ↔ ∀ s ∈ ss, s ∈ names := by
  rw [List.length_filter_eq_length_iff]
  simp

theorem checkSize_ok {e : Enumeration} {len : Nat} {idx : List Nat} (h : idx.length = len) :
    checkSize e len idx = .ok ⟨e.cid, idx⟩ := by
  simp [checkSize, h]

theorem checkSize_error {e : Enumeration} {len : Nat} {idx : List Nat} (h : idx.length ≠ len) :
    checkSize e len idx = .error "EnumMemberNotFoundError" := by
  simp [checkSize, h]

theorem decode_ok (e : Enumeration) (a : EnumArray) (h : ∀ i ∈ a.idx, i < e.size) :
    decode e a = .ok (a.idx.map (Elem.member e.cid)) := by
  unfold decode
  apply allOk_map
  intro i hi
  simp [h i hi]

theorem decodeToStr_ok (e : Enumeration) (a : EnumArray) (h : ∀ i ∈ a.idx, i < e.size) :
    decodeToStr e a = .ok (a.idx.map (fun i => e.names.getD i "")) := by
  unfold decodeToStr
  apply allOk_map
  intro i hi
  have hi' : i < e.names.length := h i hi
  simp [List.getD_eq_getElem?_getD, List.getElem?_eq_getElem hi']

/-! ## 4. `encode` -/

/-- the index `encode` assigns to an element that designates a member -/
def Elem.code (e : Enumeration) : Elem → Nat
  | .int v => v.toNat
  | .str s => strCode e.names s
  | .member _ i => i
  | .other => 0

theorem Elem.code_eq_index {e : Enumeration} (hnd : e.names.Nodup) {x : Elem} (hx : x.Designates e) :
    x.code e = x.index e := by
  cases x with
  | str s => simp [Elem.code, Elem.index, strCode_eq_nameIndex hnd (show s ∈ e.names from hx)]
  | _ => rfl

theorem sameKind_of_forall {xs : List Elem} {k : Kind} (h : ∀ x ∈ xs, x.kind = k) : SameKind xs :=
  fun x hx y hy => (h x hx).trans (h y hy).symm

theorem kind_int {x : Elem} : x.kind = .int ↔ x.isInt = true := by cases x <;> simp [Elem.kind, Elem.isInt]
theorem kind_str {x : Elem} : x.kind = .str ↔ x.isStr = true := by cases x <;> simp [Elem.kind, Elem.isStr]
theorem kind_enum {x : Elem} : x.kind = .enum ↔ x.isEnum = true := by cases x <;> simp [Elem.kind, Elem.isEnum]

theorem hasClass_iff {c : Nat} {x : Elem} : x.hasClass c = true ↔ ∃ i, x = .member c i := by
  cases x <;> simp [Elem.hasClass]
  exact eq_comm

theorem hasClass_iff_designates {e : Enumeration} {x : Elem} :
    x.hasClass e.cid = true ↔ x.kind = .enum ∧ x.Designates e := by
  cases x <;> simp [Elem.hasClass, Elem.kind, Elem.Designates]
  exact eq_comm

theorem intToIndex_map_intVal (e : Enumeration) (xs : List Elem)
    (h : ∀ x ∈ xs, x.isInt = true ∧ x.Designates e) :
    intToIndex e.size (xs.map Elem.intVal) = xs.map (Elem.code e) := by
  rw [intToIndex_of_valid, List.map_map]
  · apply List.map_congr_left
    intro x hx
    have hx1 := (h x hx).1
    cases x <;> simp [Elem.isInt] at hx1 ⊢ <;> rfl
  · intro v hv
    obtain ⟨x, hx, rfl⟩ := List.mem_map.mp hv
    have := h x hx
    cases x <;> simp [Elem.isInt] at this
    exact this

theorem strVal_map_code (e : Enumeration) (xs : List Elem) (h : ∀ x ∈ xs, x.isStr = true) :
    (xs.map Elem.strVal).map (strCode e.names) = xs.map (Elem.code e) := by
  rw [List.map_map]
  apply List.map_congr_left
  intro x hx
  have := h x hx
  cases x <;> simp [Elem.isStr] at this ⊢ <;> rfl

theorem enumToIndex_eq_code (e : Enumeration) (xs : List Elem) (h : ∀ x ∈ xs, x.isEnum = true) :
    enumToIndex xs = xs.map (Elem.code e) := by
  unfold enumToIndex
  apply List.map_congr_left
  intro x hx
  have := h x hx
  cases x <;> simp [Elem.isEnum] at this ⊢ <;> rfl

/-- A sequence whose elements all designate members and are of one kind is encoded element by
element. -/
theorem encodeSeq_ok (e : Enumeration) (xs : List Elem) (hd : ∀ x ∈ xs, x.Designates e)
    (hk : SameKind xs) : encodeSeq e xs = .ok ⟨e.cid, xs.map (Elem.code e)⟩ := by
  cases xs with
  | nil => simp [encodeSeq, isIntArrayLike, checkSize, intToIndex]
  | cons h t =>
    have hkh : ∀ x ∈ h :: t, x.kind = h.kind := fun x hx => hk x hx h (List.mem_cons_self ..)
    unfold encodeSeq
    cases hh : h with
    | other => exact absurd (hd h (List.mem_cons_self ..)) (by rw [hh]; simp [Elem.Designates])
    | int v =>
      rw [← hh]
      have hall : ∀ x ∈ h :: t, x.isInt = true := fun x hx => kind_int.mp (by rw [hkh x hx, hh]; rfl)
      have h1 : isIntArrayLike (h :: t) = true := List.all_eq_true.mpr hall
      rw [if_pos h1, intToIndex_map_intVal e _ (fun x hx => ⟨hall x hx, hd x hx⟩)]
      exact checkSize_ok (by simp)
    | str s =>
      rw [← hh]
      have hall : ∀ x ∈ h :: t, x.isStr = true := fun x hx => kind_str.mp (by rw [hkh x hx, hh]; rfl)
      have h0 : ¬ isIntArrayLike (h :: t) = true := by
        simp [isIntArrayLike, hh, Elem.isInt]
      have h1 : isStrArrayLike (h :: t) = true := List.all_eq_true.mpr hall
      rw [if_neg h0, if_pos h1, strToIndex_of_valid, strVal_map_code e _ hall]
      · exact checkSize_ok (by simp)
      · intro s' hs'
        obtain ⟨x, hx, rfl⟩ := List.mem_map.mp hs'
        have hx1 := hall x hx
        have hx2 := hd x hx
        cases x <;> simp [Elem.isStr] at hx1
        exact hx2
    | member c i =>
      rw [← hh]
      have hall : ∀ x ∈ h :: t, x.isEnum = true := fun x hx => kind_enum.mp (by rw [hkh x hx, hh]; rfl)
      have h0 : ¬ isIntArrayLike (h :: t) = true := by
        simp [isIntArrayLike, hh, Elem.isInt]
      have h1 : ¬ isStrArrayLike (h :: t) = true := by
        simp [isStrArrayLike, hh, Elem.isStr]
      have h2 : (isEnumArrayLike (h :: t) && (h :: t).all (Elem.hasClass e.cid)) = true := by
        rw [Bool.and_eq_true]
        refine ⟨List.all_eq_true.mpr hall, List.all_eq_true.mpr ?_⟩
        intro x hx
        exact hasClass_iff_designates.mpr ⟨kind_enum.mpr (hall x hx), hd x hx⟩
      rw [if_neg h0, if_neg h1, if_pos h2, enumToIndex_eq_code e _ hall]
      exact checkSize_ok (by simp)

/-- A sequence holding a non-member, or of mixed kinds, raises. -/
theorem encodeSeq_error (e : Enumeration) (xs : List Elem)
    (h : (∃ x ∈ xs, ¬ x.Designates e) ∨ ¬ SameKind xs) : ∃ m, encodeSeq e xs = .error m := by
  unfold encodeSeq
  by_cases hA : isIntArrayLike xs = true
  · have hall : ∀ x ∈ xs, x.isInt = true := List.all_eq_true.mp hA
    rw [if_pos hA]
    refine ⟨_, checkSize_error ?_⟩
    intro hlen
    rw [← List.length_map (f := Elem.intVal) (as := xs), intToIndex_length_eq_iff] at hlen
    rcases h with ⟨x, hx, hnd⟩ | hnk
    · have hx1 := hall x hx
      have := hlen x.intVal (List.mem_map.mpr ⟨x, hx, rfl⟩)
      cases x <;> simp [Elem.isInt] at hx1
      exact hnd this
    · exact hnk (sameKind_of_forall (fun x hx => kind_int.mpr (hall x hx)))
  · rw [if_neg hA]
    by_cases hB : isStrArrayLike xs = true
    · have hall : ∀ x ∈ xs, x.isStr = true := List.all_eq_true.mp hB
      rw [if_pos hB, strToIndex_eq]
      refine ⟨_, checkSize_error ?_⟩
      intro hlen
      rw [List.length_map, ← List.length_map (f := Elem.strVal) (as := xs), filter_mem_length_eq_iff] at hlen
      rcases h with ⟨x, hx, hnd⟩ | hnk
      · have hx1 := hall x hx
        have := hlen x.strVal (List.mem_map.mpr ⟨x, hx, rfl⟩)
        cases x <;> simp [Elem.isStr] at hx1
        exact hnd this
      · exact hnk (sameKind_of_forall (fun x hx => kind_str.mpr (hall x hx)))
    · rw [if_neg hB]
      by_cases hC : (isEnumArrayLike xs && xs.all (Elem.hasClass e.cid)) = true
      · exfalso
        rw [Bool.and_eq_true] at hC
        have hall : ∀ x ∈ xs, x.hasClass e.cid = true := List.all_eq_true.mp hC.2
        rcases h with ⟨x, hx, hnd⟩ | hnk
        · exact hnd (hasClass_iff_designates.mp (hall x hx)).2
        · exact hnk (sameKind_of_forall (fun x hx => (hasClass_iff_designates.mp (hall x hx)).1))
      · rw [if_neg hC]
        exact ⟨_, rfl⟩

theorem encode_encoded (e : Enumeration) (a : EnumArray) : encode e (.encoded a) = .ok a := rfl

theorem encode_seq (e : Enumeration) (xs : List Elem) :
    encode e (.seq xs) = if xs.length = 0 then .ok ⟨e.cid, []⟩ else encodeSeq e xs := rfl

theorem encode_intArr (e : Enumeration) (vs : List Int) :
    encode e (.intArr vs) = if vs.length = 0 then .ok ⟨e.cid, []⟩
      else checkSize e vs.length (intToIndex e.size vs) := rfl

theorem encode_strArr (e : Enumeration) (ss : List String) :
    encode e (.strArr ss) = if ss.length = 0 then .ok ⟨e.cid, []⟩
      else match strToIndex e.names ss with
        | .error m => .error m
        | .ok indices => checkSize e ss.length indices := rfl

theorem encode_objArr (e : Enumeration) (xs : List Elem) :
    encode e (.objArr xs) = if xs.length = 0 then .ok ⟨e.cid, []⟩
      else if xs.all (Elem.hasClass e.cid) then checkSize e xs.length (enumToIndex xs)
      else .error "EnumEncodingError" := rfl

theorem encode_otherArr (e : Enumeration) (n : Nat) :
    encode e (.otherArr n) = if n = 0 then .ok ⟨e.cid, []⟩ else .error "EnumEncodingError" := rfl

/-- the enumeration the result is tagged with -/
def Input.resultOwner (e : Enumeration) : Input → Nat
  | .encoded a => a.owner
  | _ => e.cid

/-- **Accepted inputs are encoded element by element.** -/
theorem encode_ok_of_not_rejected (e : Enumeration) (x : Input) (h : ¬ x.Rejected e) :
    encode e x = .ok ⟨x.resultOwner e, x.elems.map (Elem.code e)⟩ := by
  cases x with
  | encoded a =>
    simp [encode_encoded, Input.resultOwner, Input.elems, List.map_map, Function.comp_def, Elem.code]
  | seq xs =>
    rw [encode_seq]
    by_cases h0 : xs.length = 0
    · have : xs = [] := List.length_eq_zero_iff.mp h0
      subst this
      simp [Input.resultOwner, Input.elems]
    · rw [if_neg h0]
      have hne : xs ≠ [] := fun e' => h0 (by rw [e']; rfl)
      have hd : ∀ x ∈ xs, x.Designates e := by
        intro x hx
        apply Classical.byContradiction
        intro hnd
        exact h ⟨hne, Or.inl ⟨x, hx, hnd⟩⟩
      have hk : SameKind xs := by
        apply Classical.byContradiction
        intro hnk
        exact h ⟨hne, Or.inr hnk⟩
      simpa [Input.resultOwner, Input.elems] using encodeSeq_ok e xs hd hk
  | intArr vs =>
    rw [encode_intArr]
    have hv : ∀ v ∈ vs, 0 ≤ v ∧ v < (e.size : Int) := by
      intro v hv
      apply Classical.byContradiction
      intro hn
      exact h ⟨v, hv, hn⟩
    rw [intToIndex_of_valid _ _ hv, checkSize_ok (by simp)]
    simp [Input.resultOwner, Input.elems, List.map_map, Function.comp_def, Elem.code]
  | strArr ss =>
    rw [encode_strArr]
    have hs : ∀ s ∈ ss, s ∈ e.names := by
      intro s hs
      apply Classical.byContradiction
      intro hn
      exact h ⟨s, hs, hn⟩
    rw [strToIndex_of_valid _ _ hs]
    simp only []
    rw [checkSize_ok (by simp)]
    simp [Input.resultOwner, Input.elems, List.map_map, Function.comp_def, Elem.code]
  | objArr xs =>
    rw [encode_objArr]
    have hall : ∀ x ∈ xs, x.hasClass e.cid = true := by
      intro x hx
      apply Classical.byContradiction
      intro hn
      apply h
      refine ⟨x, hx, ?_⟩
      by_cases hk : x.kind = .enum
      · right
        intro hd
        exact hn (hasClass_iff_designates.mpr ⟨hk, hd⟩)
      · left; exact hk
    rw [if_pos (List.all_eq_true.mpr hall),
      enumToIndex_eq_code e xs (fun x hx => kind_enum.mp (hasClass_iff_designates.mp (hall x hx)).1),
      checkSize_ok (by simp)]
    simp [Input.resultOwner, Input.elems]
  | otherArr n =>
    have : n = 0 := by
      apply Classical.byContradiction
      intro hn
      exact h hn
    subst this
    simp [encode_otherArr, Input.resultOwner, Input.elems]
  | scalarArr el => exact absurd trivial h

/-- **Rejected inputs raise.** -/
theorem encode_error_of_rejected (e : Enumeration) (x : Input) (h : x.Rejected e) :
    ∃ m, encode e x = .error m := by
  cases x with
  | encoded a => exact absurd h (by simp [Input.Rejected])
  | seq xs =>
    obtain ⟨hne, hbad⟩ := h
    rw [encode_seq, if_neg (fun h0 => hne (List.length_eq_zero_iff.mp h0))]
    exact encodeSeq_error e xs hbad
  | intArr vs =>
    obtain ⟨v, hv, hbad⟩ := h
    have hne : ¬ vs.length = 0 := fun h0 => by
      rw [List.length_eq_zero_iff.mp h0] at hv; simp at hv
    rw [encode_intArr, if_neg hne]
    refine ⟨_, checkSize_error ?_⟩
    intro hlen
    exact hbad ((intToIndex_length_eq_iff _ _).mp hlen v hv)
  | strArr ss =>
    obtain ⟨s, hs, hbad⟩ := h
    have hne : ¬ ss.length = 0 := fun h0 => by
      rw [List.length_eq_zero_iff.mp h0] at hs; simp at hs
    rw [encode_strArr, if_neg hne, strToIndex_eq]
    refine ⟨_, checkSize_error ?_⟩
    intro hlen
    rw [List.length_map] at hlen
    exact hbad ((filter_mem_length_eq_iff _ _).mp hlen s hs)
  | objArr xs =>
    obtain ⟨x, hx, hbad⟩ := h
    have hne : ¬ xs.length = 0 := fun h0 => by
      rw [List.length_eq_zero_iff.mp h0] at hx; simp at hx
    have hnall : ¬ xs.all (Elem.hasClass e.cid) = true := by
      intro hall
      have := hasClass_iff_designates.mp (List.all_eq_true.mp hall x hx)
      rcases hbad with hk | hd
      · exact hk this.1
      · exact hd this.2
    rw [encode_objArr, if_neg hne, if_neg hnall]
    exact ⟨_, rfl⟩
  | otherArr n =>
    rw [encode_otherArr, if_neg h]
    exact ⟨_, rfl⟩
  | scalarArr el => exact ⟨_, rfl⟩

/-- every element of an accepted input designates a member -/
theorem designates_of_not_rejected (e : Enumeration) (x : Input) (hown : x.NotForeignArray e)
    (h : ¬ x.Rejected e) : ∀ el ∈ x.elems, el.Designates e := by
  intro el hel
  cases x with
  | encoded a =>
    obtain ⟨i, _, rfl⟩ := List.mem_map.mp hel
    exact hown
  | seq xs =>
    apply Classical.byContradiction
    intro hn
    exact h ⟨List.ne_nil_of_mem hel, Or.inl ⟨el, hel, hn⟩⟩
  | intArr vs =>
    obtain ⟨v, hv, rfl⟩ := List.mem_map.mp hel
    apply Classical.byContradiction
    intro hn
    exact h ⟨v, hv, hn⟩
  | strArr ss =>
    obtain ⟨s, hs, rfl⟩ := List.mem_map.mp hel
    apply Classical.byContradiction
    intro hn
    exact h ⟨s, hs, hn⟩
  | objArr xs =>
    apply Classical.byContradiction
    intro hn
    exact h ⟨el, hel, Or.inr hn⟩
  | otherArr n =>
    have : n = 0 := by
      apply Classical.byContradiction
      intro hn
      exact h hn
    subst this
    simp [Input.elems] at hel
  | scalarArr el' => exact absurd trivial h

/-- the index assigned to an element that designates a member designates that member -/
theorem code_lt_size (e : Enumeration) (x : Input) (hwf : x.WF e) {el : Elem} (hel : el ∈ x.elems)
    (hd : el.Designates e) : el.code e < e.size := by
  cases el with
  | int v =>
    obtain ⟨h0, h1⟩ := hd
    exact (Int.toNat_lt h0).mpr h1
  | str s =>
    have := (strCode_spec (show s ∈ e.names from hd)).2
    obtain ⟨hlt, _⟩ := List.getElem?_eq_some_iff.mp this
    exact hlt
  | member c i => exact hwf _ hel hd
  | other => exact absurd hd (by simp [Elem.Designates])

theorem resultOwner_eq (e : Enumeration) (x : Input) (hown : x.NotForeignArray e) :
    x.resultOwner e = e.cid := by
  cases x <;> first | rfl | exact hown

/-- Round trip, in terms of the index `encode` assigns (`Elem.code`), without assuming distinct
names. -/
theorem decode_encode_code (e : Enumeration) (x : Input) (hwf : x.WF e)
    (hown : x.NotForeignArray e) (hok : ¬ x.Rejected e) :
    encode e x = .ok ⟨e.cid, x.elems.map (Elem.code e)⟩ ∧
    (∀ el ∈ x.elems, el.Designates e ∧ el.code e < e.size) ∧
    decode e ⟨e.cid, x.elems.map (Elem.code e)⟩
      = .ok (x.elems.map fun el => Elem.member e.cid (el.code e)) ∧
    decodeToStr e ⟨e.cid, x.elems.map (Elem.code e)⟩
      = .ok (x.elems.map fun el => e.names.getD (el.code e) "") := by
  have hall : ∀ el ∈ x.elems, el.Designates e ∧ el.code e < e.size := fun el hel =>
    ⟨designates_of_not_rejected e x hown hok el hel,
     code_lt_size e x hwf hel (designates_of_not_rejected e x hown hok el hel)⟩
  have hidx : ∀ i ∈ (x.elems.map (Elem.code e)), i < e.size := by
    intro i hi
    obtain ⟨el, hel, rfl⟩ := List.mem_map.mp hi
    exact (hall el hel).2
  refine ⟨?_, hall, ?_, ?_⟩
  · rw [encode_ok_of_not_rejected e x hok, resultOwner_eq e x hown]
  · rw [decode_ok e _ hidx]; simp [List.map_map, Function.comp_def]
  · rw [decodeToStr_ok e _ hidx]; simp [List.map_map, Function.comp_def]

theorem names_getD_nameIndex {names : List String} {s : String} (hs : s ∈ names) :
    names.getD ((nameIndex? names s).getD 0) "" = s := by
  obtain ⟨i, hi⟩ := nameIndex?_isSome_of_mem hs
  have := nameIndex?_some hi
  simp [hi, List.getD_eq_getElem?_getD, this]

/-! ## 5. re-indexing an `EnumArray` (slices, masks, fancy indexing, `take`, `copy`, `view`) -/

theorem allOk_ok_forall {α β : Type} {f : α → Except String β} {l : List α} {bs : List β}
    (h : allOk f l = .ok bs) : ∀ a ∈ l, ∃ b, f a = .ok b := by
  intro a ha
  cases hfa : f a with
  | ok b => exact ⟨b, rfl⟩
  | error m =>
    obtain ⟨m', hm'⟩ := allOk_error (f := f) (l := l) ⟨a, ha, m, hfa⟩
    rw [hm'] at h; cases h

theorem decode_ok_inv {e : Enumeration} {a : EnumArray} {ms : List Elem} (h : decode e a = .ok ms) :
    (∀ i ∈ a.idx, i < e.size) ∧ ms = a.idx.map (Elem.member e.cid) := by
  have hall : ∀ i ∈ a.idx, i < e.size := by
    intro i hi
    obtain ⟨b, hb⟩ := allOk_ok_forall h i hi
    by_cases hlt : i < e.size
    · exact hlt
    · simp [hlt] at hb
  refine ⟨hall, ?_⟩
  rw [decode_ok e a hall] at h
  cases h; rfl

theorem decodeToStr_ok_inv {e : Enumeration} {a : EnumArray} {ns : List String}
    (h : decodeToStr e a = .ok ns) :
    (∀ i ∈ a.idx, i < e.size) ∧ ns = a.idx.map (fun i => e.names.getD i "") := by
  have hall : ∀ i ∈ a.idx, i < e.size := by
    intro i hi
    obtain ⟨b, hb⟩ := allOk_ok_forall h i hi
    cases hg : e.names[i]? with
    | none => simp [hg] at hb
    | some s => exact (List.getElem?_eq_some_iff.mp hg).1
  refine ⟨hall, ?_⟩
  rw [decodeToStr_ok e a hall] at h
  cases h; rfl

theorem take_ok (a : EnumArray) (positions : List Nat) (h : ∀ p ∈ positions, p < a.idx.length) :
    a.take positions = .ok ⟨a.owner, positions.filterMap (fun p => a.idx[p]?)⟩ := by
  unfold EnumArray.take
  have : allOk (pick a.idx) positions = .ok (positions.map (fun p => a.idx.getD p 0)) := by
    apply allOk_map
    intro p hp
    simp [pick, List.getD_eq_getElem?_getD, List.getElem?_eq_getElem (h p hp)]
  rw [this]
  simp only []
  congr 2
  clear this
  induction positions with
  | nil => rfl
  | cons p ps ih =>
    have hp := h p (List.mem_cons_self ..)
    have ih' := ih (fun q hq => h q (List.mem_cons_of_mem _ hq))
    simp only [List.getD_eq_getElem?_getD] at ih' ⊢
    simp [List.getElem?_eq_getElem hp, ih']

theorem mem_filterMap_getElem? {α : Type} {l : List α} {positions : List Nat} {x : α}
    (h : x ∈ positions.filterMap (fun p => l[p]?)) : x ∈ l := by
  obtain ⟨p, _, hp⟩ := List.mem_filterMap.mp h
  exact List.mem_of_getElem? hp

theorem filterMap_getElem?_map {α β : Type} (f : α → β) (l : List α) (positions : List Nat) :
    positions.filterMap (fun p => (l.map f)[p]?) = (positions.filterMap (fun p => l[p]?)).map f := by
  induction positions with
  | nil => rfl
  | cons p ps ih =>
    simp only [List.getElem?_map] at ih ⊢
    cases hp : l[p]? with
    | none => simp [hp, ih]
    | some x => simp [hp, ih]

/-! ## 6. the operators of `EnumArray` -/

theorem bcastEq_same {α β} (f : α → β → Bool) (xs : List α) (ys : List β) (h : xs.length = ys.length) :
    bcastEq f xs ys = .ok (List.zipWith f xs ys) := by
  unfold bcastEq; rw [if_pos h]

theorem bcastEq_length {α β} (f : α → β → Bool) (xs : List α) (ys : List β) (bs : List Bool)
    (h : bcastEq f xs ys = .ok bs) : bcastLen xs.length ys.length = .ok bs.length := by
  unfold bcastEq at h
  unfold bcastLen
  by_cases hl : xs.length = ys.length
  · rw [if_pos hl] at h
    cases h
    rw [if_pos hl]; simp [hl]
  · rw [if_neg hl] at h
    rw [if_neg hl]
    match ys, hl, h with
    | [y], hl, h => cases h; simp
    | [], hl, h =>
      match xs, hl, h with
      | [x], _, h => cases h; simp
      | [], hl, _ => exact absurd rfl hl
      | _ :: _ :: _, _, h => cases h
    | _ :: _ :: _, hl, h =>
      match xs, hl, h with
      | [x], _, h => cases h; simp
      | [], _, h => cases h
      | _ :: _ :: _, _, h => cases h

theorem foldl_max_mem (is : List Nat) (i : Nat) : is.foldl Nat.max i ∈ i :: is := by
  induction is generalizing i with
  | nil => simp
  | cons j js ih =>
    simp only [List.foldl_cons]
    have := ih (Nat.max i j)
    rcases List.mem_cons.mp this with h | h
    · rw [h]
      have hm : Nat.max i j = i ∨ Nat.max i j = j := by
        show max i j = i ∨ max i j = j
        omega
      rcases hm with hm | hm <;> rw [hm] <;> simp
    · exact List.mem_cons_of_mem _ (List.mem_cons_of_mem _ h)

theorem foldl_max_ge (is : List Nat) (i : Nat) : i ≤ is.foldl Nat.max i ∧ ∀ j ∈ is, j ≤ is.foldl Nat.max i := by
  induction is generalizing i with
  | nil => simp
  | cons j js ih =>
    simp only [List.foldl_cons]
    obtain ⟨h1, h2⟩ := ih (Nat.max i j)
    refine ⟨Nat.le_trans (Nat.le_max_left i j) h1, ?_⟩
    intro k hk
    rcases List.mem_cons.mp hk with rfl | hk
    · exact Nat.le_trans (Nat.le_max_right i k) h1
    · exact h2 k hk

/-- `max(self)` is an item of the array and bounds the others -/
theorem maxIdx_spec (idx : List Nat) (mx : Nat) (h : maxIdx idx = some mx) :
    mx ∈ idx ∧ ∀ j ∈ idx, j ≤ mx := by
  cases idx with
  | nil => cases h
  | cons i is =>
    simp only [maxIdx, Option.some.injEq] at h
    subst h
    refine ⟨foldl_max_mem is i, ?_⟩
    intro j hj
    rcases List.mem_cons.mp hj with rfl | hj
    · exact (foldl_max_ge is j).1
    · exact (foldl_max_ge is i).2 j hj

theorem maxIdx_isSome (idx : List Nat) (h : idx ≠ []) : ∃ mx, maxIdx idx = some mx := by
  cases idx with
  | nil => exact absurd rfl h
  | cons i is => exact ⟨_, rfl⟩

theorem range_filter_le (n mx : Nat) (h : mx < n) :
    (List.range n).filter (fun j => decide (j ≤ mx)) = List.range (mx + 1) := by
  induction n with
  | zero => omega
  | succ n ih =>
    rw [List.range_succ, List.filter_append]
    by_cases hm : mx < n
    · rw [ih hm]
      have : ¬ n ≤ mx := by omega
      simp [this]
    · have hmn : mx = n := by omega
      subst hmn
      have hall : (List.range mx).filter (fun j => decide (j ≤ mx)) = List.range mx := by
        apply List.filter_eq_self.mpr
        intro j hj
        have := List.mem_range.mp hj
        simp; omega
      rw [hall]
      simp [List.range_succ]

/-! ## 7. declarations with aliases -/

theorem valueIndex?_some {vs : List Nat} {v i : Nat} (h : valueIndex? vs v = some i) : vs[i]? = some v := by
  induction vs generalizing i with
  | nil => cases h
  | cons w ws ih =>
    unfold valueIndex? at h
    by_cases hw : w = v
    · rw [if_pos hw] at h; cases h; simp [hw]
    · rw [if_neg hw] at h
      cases hj : valueIndex? ws v with
      | none => rw [hj] at h; cases h
      | some j =>
        rw [hj] at h
        simp only [Option.map_some, Option.some.injEq] at h
        subst h
        simpa using ih hj

theorem valueIndex?_none {vs : List Nat} {v : Nat} (h : valueIndex? vs v = none) : v ∉ vs := by
  induction vs with
  | nil => simp
  | cons w ws ih =>
    unfold valueIndex? at h
    by_cases hw : w = v
    · rw [if_pos hw] at h; cases h
    · rw [if_neg hw] at h
      cases hj : valueIndex? ws v with
      | some j => rw [hj] at h; cases h
      | none =>
        intro hm
        rcases List.mem_cons.mp hm with hm | hm
        · exact hw hm.symm
        · exact ih hj hm

/-- what holds of the class under construction after the bindings `bs` -/
structure DeclInv (bs : List (String × Nat)) (st : DeclState) : Prop where
  len : st.names.length = st.values.length
  vnd : st.values.Nodup
  mnames : st.members.map Prod.fst = bs.map Prod.fst
  sub : ∀ nm ∈ st.names, nm ∈ bs.map Prod.fst
  nnd : st.names.Nodup
  canon : ∀ k nm, st.names[k]? = some nm → (nm, k) ∈ st.members
  val : ∀ nm i, (nm, i) ∈ st.members → ∃ v, (nm, v) ∈ bs ∧ st.values[i]? = some v

theorem declInv_init : DeclInv [] {} :=
  ⟨rfl, List.nodup_nil, rfl, by simp, List.nodup_nil, by simp, by simp⟩

theorem declInv_step {bs : List (String × Nat)} {st : DeclState} (h : DeclInv bs st) (b : String × Nat)
    (hb : b.1 ∉ bs.map Prod.fst) : DeclInv (bs ++ [b]) (declStep st b) := by
  obtain ⟨nm, v⟩ := b
  unfold declStep
  cases hv : valueIndex? st.values v with
  | some i =>
    simp only
    refine ⟨h.len, h.vnd, by simp [h.mnames], ?_, h.nnd, ?_, ?_⟩
    · intro n hn
      have := h.sub n hn
      simp only [List.map_append, List.mem_append]; exact Or.inl this
    · intro k n hk
      exact List.mem_append.mpr (Or.inl (h.canon k n hk))
    · intro n j hj
      rcases List.mem_append.mp hj with hj | hj
      · obtain ⟨w, hw1, hw2⟩ := h.val n j hj
        exact ⟨w, List.mem_append.mpr (Or.inl hw1), hw2⟩
      · simp only [List.mem_singleton, Prod.mk.injEq] at hj
        obtain ⟨rfl, rfl⟩ := hj
        exact ⟨v, List.mem_append.mpr (Or.inr (by simp)), valueIndex?_some hv⟩
  | none =>
    simp only
    have hvn := valueIndex?_none hv
    refine ⟨by simp [h.len], ?_, by simp [h.mnames], ?_, ?_, ?_, ?_⟩
    · exact List.nodup_append.mpr ⟨h.vnd, by simp, by
        intro a ha b hb' hab
        simp only [List.mem_singleton] at hb'
        subst hb' hab
        exact hvn ha⟩
    · intro n hn
      simp only [List.map_append, List.mem_append] at hn ⊢
      rcases hn with hn | hn
      · exact Or.inl (h.sub n hn)
      · exact Or.inr (by simpa using hn)
    · exact List.nodup_append.mpr ⟨h.nnd, by simp, by
        intro a ha b hb' hab
        simp only [List.mem_singleton] at hb'
        subst hb' hab
        exact hb (h.sub _ ha)⟩
    · intro k n hk
      by_cases hlt : k < st.names.length
      · rw [List.getElem?_append_left hlt] at hk
        exact List.mem_append.mpr (Or.inl (h.canon k n hk))
      · rw [List.getElem?_append_right (by omega)] at hk
        have hk0 : k - st.names.length = 0 := by
          by_cases h0 : k - st.names.length = 0
          · exact h0
          · rw [List.getElem?_eq_none (by simp; omega)] at hk; cases hk
        rw [hk0] at hk
        simp only [List.getElem?_cons_zero, Option.some.injEq] at hk
        subst hk
        have : k = st.names.length := by omega
        subst this
        exact List.mem_append.mpr (Or.inr (by simp))
    · intro n j hj
      rcases List.mem_append.mp hj with hj | hj
      · obtain ⟨w, hw1, hw2⟩ := h.val n j hj
        refine ⟨w, List.mem_append.mpr (Or.inl hw1), ?_⟩
        have hjl : j < st.values.length := by
          rcases Nat.lt_or_ge j st.values.length with h' | h'
          · exact h'
          · rw [List.getElem?_eq_none h'] at hw2; cases hw2
        show (st.values ++ [v])[j]? = some w
        rw [List.getElem?_append_left hjl]; exact hw2
      · simp only [List.mem_singleton, Prod.mk.injEq] at hj
        obtain ⟨rfl, rfl⟩ := hj
        refine ⟨v, List.mem_append.mpr (Or.inr (by simp)), ?_⟩
        show (st.values ++ [v])[st.names.length]? = some v
        rw [h.len, List.getElem?_append_right (by omega)]
        simp

theorem declInv_foldl (bs : List (String × Nat)) :
    ∀ (bs0 : List (String × Nat)) (st : DeclState), DeclInv bs0 st → ((bs0 ++ bs).map Prod.fst).Nodup →
      DeclInv (bs0 ++ bs) (bs.foldl declStep st) := by
  induction bs with
  | nil => intro bs0 st h _; simpa using h
  | cons b bs ih =>
    intro bs0 st h hnd
    have hb : b.1 ∉ bs0.map Prod.fst := by
      intro hm
      simp only [List.map_append, List.map_cons] at hnd
      have := (List.nodup_append.mp hnd).2.2 _ hm b.1 (by simp)
      exact this rfl
    have := ih (bs0 ++ [b]) (declStep st b) (declInv_step h b hb) (by simpa using hnd)
    simpa using this

theorem declInv_declare (bs : List (String × Nat)) (hnd : (bs.map Prod.fst).Nodup) :
    DeclInv bs (declare bs) := by
  have := declInv_foldl bs [] {} declInv_init (by simpa using hnd)
  simpa [declare] using this

theorem nodup_fst_unique {l : List (String × Nat)} (h : (l.map Prod.fst).Nodup) {a : String} {x y : Nat}
    (hx : (a, x) ∈ l) (hy : (a, y) ∈ l) : x = y := by
  induction l with
  | nil => cases hx
  | cons p ps ih =>
    simp only [List.map_cons, List.nodup_cons] at h
    rcases List.mem_cons.mp hx with hx | hx <;> rcases List.mem_cons.mp hy with hy | hy
    · have := hx.trans hy.symm; injection this
    · rw [← hx] at h; exact absurd (List.mem_map.mpr ⟨(a, y), hy, rfl⟩) h.1
    · rw [← hy] at h; exact absurd (List.mem_map.mpr ⟨(a, x), hx, rfl⟩) h.1
    · exact ih h.2 hx hy

theorem find?_fst_of_mem {l : List (String × Nat)} (h : (l.map Prod.fst).Nodup) {a : String} {x : Nat}
    (hx : (a, x) ∈ l) : l.find? (fun m => m.1 = a) = some (a, x) := by
  cases hf : l.find? (fun m => m.1 = a) with
  | none =>
    have := List.find?_eq_none.mp hf (a, x) hx
    simp at this
  | some q =>
    have hq := List.mem_of_find?_eq_some hf
    have hqa : q.1 = a := by simpa using List.find?_some hf
    obtain ⟨qa, qi⟩ := q
    simp only at hqa
    subst hqa
    rw [nodup_fst_unique h hq hx]

end OFCore.EnumCodec
