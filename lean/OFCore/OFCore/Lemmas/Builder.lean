import OFCore.Builder
/-!
# Lemmas about the situation builder (`OFCore/Builder.lean`)

Generic facts about `foldE` / `mapE`, association lists, the replay of buffer writes and of
membership writes, the allocation of persons to groups, the flush order and axis expansion.
-/
set_option linter.unusedSimpArgs false
set_option linter.unusedVariables false

namespace OFCore.Bld

/-- two lists of the same length related pointwise -/
inductive All₂ {α β : Type} (Rel : α → β → Prop) : List α → List β → Prop
  | nil : All₂ Rel [] []
  | cons {a : α} {b : β} {l : List α} {l' : List β} : Rel a b → All₂ Rel l l' → All₂ Rel (a :: l) (b :: l')

theorem All₂.length_eq {α β : Type} {Rel : α → β → Prop} {l : List α} {l' : List β} (h : All₂ Rel l l') :
    l.length = l'.length := by
  induction h with
  | nil => rfl
  | cons _ _ ih => simp [ih]

theorem All₂.refl {α : Type} {Rel : α → α → Prop} (hr : ∀ a, Rel a a) : ∀ l : List α, All₂ Rel l l
  | [] => .nil
  | a :: l => .cons (hr a) (All₂.refl hr l)

/-! ## `mapE`, `foldE` -/

theorem mapE_nil {α β : Type} (f : α → R β) : mapE f [] = .ok [] := rfl

theorem mapE_cons_ok {α β : Type} (f : α → R β) (x : α) (xs : List α) (ys : List β)
    (h : mapE f (x :: xs) = .ok ys) : ∃ y ys', f x = .ok y ∧ mapE f xs = .ok ys' ∧ ys = y :: ys' := by
  unfold mapE at h
  cases hx : f x with
  | error e => rw [hx] at h; cases h
  | ok y =>
    rw [hx] at h
    cases hr : mapE f xs with
    | error e => rw [hr] at h; cases h
    | ok ys' => rw [hr] at h; cases h; exact ⟨y, ys', rfl, rfl, rfl⟩

theorem mapE_ok_cons {α β : Type} (f : α → R β) (x : α) (xs : List α) (y : β) (ys : List β)
    (hx : f x = .ok y) (hr : mapE f xs = .ok ys) : mapE f (x :: xs) = .ok (y :: ys) := by
  unfold mapE; rw [hx]; simp only [hr]

/-- a successful `mapE` relates inputs and outputs pointwise -/
theorem mapE_forall₂ {α β : Type} (f : α → R β) : ∀ (l : List α) (ys : List β),
    mapE f l = .ok ys → All₂ (fun x y => f x = .ok y) l ys
  | [], ys, h => by cases h; exact .nil
  | x :: xs, ys, h => by
    obtain ⟨y, ys', hx, hr, rfl⟩ := mapE_cons_ok f x xs ys h
    exact .cons hx (mapE_forall₂ f xs ys' hr)

theorem mapE_of_forall₂ {α β : Type} (f : α → R β) : ∀ (l : List α) (ys : List β),
    All₂ (fun x y => f x = .ok y) l ys → mapE f l = .ok ys
  | [], _, .nil => rfl
  | _ :: xs, _, .cons hx hr => mapE_ok_cons f _ xs _ _ hx (mapE_of_forall₂ f xs _ hr)

theorem mapE_length {α β : Type} (f : α → R β) (l : List α) (ys : List β) (h : mapE f l = .ok ys) :
    ys.length = l.length := (All₂.length_eq (mapE_forall₂ f l ys h)).symm

/-- splitting a successful `mapE` at an element -/
theorem mapE_append_ok {α β : Type} (f : α → R β) : ∀ (l₁ l₂ : List α) (ys : List β),
    mapE f (l₁ ++ l₂) = .ok ys →
    ∃ ys₁ ys₂, mapE f l₁ = .ok ys₁ ∧ mapE f l₂ = .ok ys₂ ∧ ys = ys₁ ++ ys₂
  | [], l₂, ys, h => ⟨[], ys, rfl, h, rfl⟩
  | x :: xs, l₂, ys, h => by
    obtain ⟨y, ys', hx, hr, rfl⟩ := mapE_cons_ok f x (xs ++ l₂) ys h
    obtain ⟨ys₁, ys₂, h1, h2, rfl⟩ := mapE_append_ok f xs l₂ ys' hr
    exact ⟨y :: ys₁, ys₂, mapE_ok_cons f x xs y ys₁ hx h1, h2, rfl⟩

/-- an element that fails makes the whole `mapE` fail -/
theorem mapE_not_ok_of_mem {α β : Type} (f : α → R β) (l : List α) (x : α) (hx : x ∈ l)
    (hf : ∀ y, f x ≠ .ok y) : ∀ ys, mapE f l ≠ .ok ys := by
  intro ys h
  have := mapE_forall₂ f l ys h
  clear h
  induction this with
  | nil => cases hx
  | cons hxy _ ih =>
    cases hx with
    | head => exact hf _ hxy
    | tail _ hm => exact ih hm

/-- every error of a `mapE` is an error of one of its elements -/
theorem mapE_error {α β : Type} (f : α → R β) (P : BErr → Prop) (hP : ∀ x e, f x = .error e → P e) :
    ∀ (l : List α) (e : BErr), mapE f l = .error e → P e
  | [], e, h => by cases h
  | x :: xs, e, h => by
    unfold mapE at h
    cases hx : f x with
    | error e' => rw [hx] at h; cases h; exact hP x _ hx
    | ok y =>
      rw [hx] at h
      cases hr : mapE f xs with
      | error e' => rw [hr] at h; cases h; exact mapE_error f P hP xs _ hr
      | ok ys' => rw [hr] at h; cases h

/-- `mapE` does the same on lists related pointwise by a relation under which `f` and `g` agree -/
theorem mapE_congr {α α' β : Type} (f : α → R β) (g : α' → R β) (Rel : α → α' → Prop)
    (hfg : ∀ x y, Rel x y → f x = g y) : ∀ (l : List α) (l' : List α'),
    All₂ Rel l l' → mapE f l = mapE g l'
  | [], _, .nil => rfl
  | _ :: _, _, .cons h hr => by
    unfold mapE
    rw [hfg _ _ h, mapE_congr f g Rel hfg _ _ hr]

theorem foldE_nil {α σ : Type} (f : σ → α → R σ) (s : σ) : foldE f s [] = .ok s := rfl

theorem foldE_cons_ok {α σ : Type} (f : σ → α → R σ) (s s' : σ) (x : α) (xs : List α)
    (h : foldE f s (x :: xs) = .ok s') : ∃ s₁, f s x = .ok s₁ ∧ foldE f s₁ xs = .ok s' := by
  unfold foldE at h
  cases hx : f s x with
  | error e => rw [hx] at h; cases h
  | ok s₁ => rw [hx] at h; exact ⟨s₁, rfl, h⟩

theorem foldE_cons_of_ok {α σ : Type} (f : σ → α → R σ) (s s₁ : σ) (x : α) (xs : List α)
    (hx : f s x = .ok s₁) : foldE f s (x :: xs) = foldE f s₁ xs := by
  conv => lhs; unfold foldE
  rw [hx]

theorem foldE_error {α σ : Type} (f : σ → α → R σ) (P : BErr → Prop)
    (hP : ∀ s x e, f s x = .error e → P e) :
    ∀ (l : List α) (s : σ) (e : BErr), foldE f s l = .error e → P e
  | [], s, e, h => by cases h
  | x :: xs, s, e, h => by
    unfold foldE at h
    cases hx : f s x with
    | error e' => rw [hx] at h; cases h; exact hP s x _ hx
    | ok s₁ => rw [hx] at h; exact foldE_error f P hP xs s₁ e h

/-- an element that fails from every state makes the whole fold fail -/
theorem foldE_not_ok_of_mem {α σ : Type} (f : σ → α → R σ) (x : α)
    (hf : ∀ s s', f s x ≠ .ok s') : ∀ (l : List α), x ∈ l → ∀ s s', foldE f s l ≠ .ok s'
  | [], hx, _, _ => by cases hx
  | y :: ys, hx, s, s' => by
    intro h
    obtain ⟨s₁, h1, h2⟩ := foldE_cons_ok f s s' y ys h
    cases hx with
    | head => exact hf _ _ h1
    | tail _ hm => exact foldE_not_ok_of_mem f x hf ys hm s₁ s' h2

theorem foldE_congr {α α' σ : Type} (f : σ → α → R σ) (g : σ → α' → R σ) (Rel : α → α' → Prop)
    (hfg : ∀ s x y, Rel x y → f s x = g s y) : ∀ (l : List α) (l' : List α') (s : σ),
    All₂ Rel l l' → foldE f s l = foldE g s l'
  | [], _, _, .nil => rfl
  | x :: xs, y :: ys, s, .cons h hr => by
    unfold foldE
    rw [hfg s x y h]
    cases g s y with
    | error e => rfl
    | ok s₁ => exact foldE_congr f g Rel hfg xs ys s₁ hr

/-! ## association lists -/

theorem alGet_alSet {κ β : Type} [DecidableEq κ] (l : List (κ × β)) (k k' : κ) (v : β) :
    alGet (alSet l k v) k' = if k' = k then some v else alGet l k' := by
  induction l with
  | nil =>
    simp only [alSet, alGet]
    by_cases h : k = k'
    · subst h; simp
    · have : ¬ k' = k := fun h' => h h'.symm
      simp [h, this]
  | cons e r ih =>
    obtain ⟨k₀, v₀⟩ := e
    simp only [alSet]
    by_cases h0 : k₀ = k
    · subst h0
      simp only [if_true, alGet]
      by_cases h1 : k₀ = k'
      · subst h1; simp
      · have : ¬ k' = k₀ := fun h' => h1 h'.symm
        simp [h1, this]
    · simp only [h0, if_false, alGet]
      by_cases h1 : k₀ = k'
      · subst h1
        have : ¬ k₀ = k := h0
        simp [this]
      · simp only [h1, if_false]; exact ih

theorem alGet_alSet_same {κ β : Type} [DecidableEq κ] (l : List (κ × β)) (k : κ) (v : β) :
    alGet (alSet l k v) k = some v := by rw [alGet_alSet]; simp

theorem alGet_alSet_ne {κ β : Type} [DecidableEq κ] (l : List (κ × β)) (k k' : κ) (v : β) (h : k' ≠ k) :
    alGet (alSet l k v) k' = alGet l k' := by rw [alGet_alSet]; simp [h]

theorem alGet_map_snd {κ β : Type} [DecidableEq κ] (f : κ → β → β) (l : List (κ × β)) (k : κ) :
    alGet (l.map (fun e => (e.1, f e.1 e.2))) k = (alGet l k).map (f k) := by
  induction l with
  | nil => rfl
  | cons e r ih =>
    obtain ⟨k₀, v₀⟩ := e
    simp only [List.map_cons, alGet]
    by_cases h : k₀ = k
    · subst h; simp
    · simp [h, ih]

/-! ## replay of buffer writes -/

def Write.cell (w : Write) : String × List Char := (w.var, w.key)

theorem alGet_applyWrite (buf : Buffer) (w : Write) (k : String × List Char) :
    alGet (applyWrite buf w) k =
      if k = w.cell then some (((alGet buf w.cell).getD (List.replicate w.size w.dflt)).set w.idx w.val)
      else alGet buf k := by
  unfold applyWrite Write.cell
  rw [alGet_alSet]

theorem applyWrites_nil (buf : Buffer) : applyWrites buf [] = buf := rfl
theorem applyWrites_cons (buf : Buffer) (w : Write) (ws : List Write) :
    applyWrites buf (w :: ws) = applyWrites (applyWrite buf w) ws := rfl
theorem applyWrites_append (buf : Buffer) (ws₁ ws₂ : List Write) :
    applyWrites buf (ws₁ ++ ws₂) = applyWrites (applyWrites buf ws₁) ws₂ := by
  unfold applyWrites; rw [List.foldl_append]

/-- frame: writes to other cells do not change what is buffered under `k` -/
theorem alGet_applyWrites_frame (k : String × List Char) : ∀ (ws : List Write) (buf : Buffer),
    (∀ w ∈ ws, w.cell ≠ k) → alGet (applyWrites buf ws) k = alGet buf k
  | [], _, _ => rfl
  | w :: ws, buf, h => by
    rw [applyWrites_cons, alGet_applyWrites_frame k ws _ (fun w' hw' => h w' (List.mem_cons_of_mem _ hw')),
      alGet_applyWrite]
    have : k ≠ w.cell := fun e => h w (List.mem_cons_self) e.symm
    simp [this]

/-- what the writes of a list mean for one cell of size `n` -/
def SizedFor (k : String × List Char) (n : Nat) (ws : List Write) : Prop :=
  ∀ w ∈ ws, w.cell = k → w.size = n

/-- length invariant: an array buffered under `k` keeps the length `n` -/
theorem applyWrites_length (k : String × List Char) (n : Nat) : ∀ (ws : List Write) (buf : Buffer),
    SizedFor k n ws → (∀ a, alGet buf k = some a → a.length = n) →
    ∀ a, alGet (applyWrites buf ws) k = some a → a.length = n
  | [], _, _, hb => hb
  | w :: ws, buf, hs, hb => by
    rw [applyWrites_cons]
    apply applyWrites_length k n ws _ (fun w' hw' => hs w' (List.mem_cons_of_mem _ hw'))
    intro a ha
    rw [alGet_applyWrite] at ha
    by_cases hk : k = w.cell
    · simp only [hk, if_true, Option.some.injEq] at ha
      subst ha
      rw [List.length_set]
      cases hg : alGet buf w.cell with
      | none => simp [hs w (List.mem_cons_self) hk.symm]
      | some a₀ => simp only [Option.getD_some]; exact hb a₀ (hk ▸ hg)
    · simp only [hk, if_false] at ha; exact hb a ha

/-- a cell nobody writes afterwards keeps its value: the invariant carried over later writes -/
theorem applyWrites_keeps (k : String × List Char) (n i : Nat) (x : Val) :
    ∀ (ws : List Write) (buf : Buffer), SizedFor k n ws →
    (∀ w ∈ ws, ¬ (w.cell = k ∧ w.idx = i)) →
    (∃ a, alGet buf k = some a ∧ a.length = n ∧ a[i]? = some x) →
    ∃ a, alGet (applyWrites buf ws) k = some a ∧ a.length = n ∧ a[i]? = some x
  | [], _, _, _, h => h
  | w :: ws, buf, hs, hno, ⟨a, ha, hl, hx⟩ => by
    rw [applyWrites_cons]
    apply applyWrites_keeps k n i x ws _ (fun w' hw' => hs w' (List.mem_cons_of_mem _ hw'))
      (fun w' hw' => hno w' (List.mem_cons_of_mem _ hw'))
    rw [alGet_applyWrite]
    by_cases hk : k = w.cell
    · have hi : w.idx ≠ i := fun e => hno w (List.mem_cons_self) ⟨hk.symm, e⟩
      refine ⟨a.set w.idx w.val, ?_, ?_, ?_⟩
      · rw [if_pos hk, ← hk, ha]; rfl
      · simp [hl]
      · rw [List.getElem?_set_ne hi]; exact hx
    · exact ⟨a, by rw [if_neg hk]; exact ha, hl, hx⟩

/-- **last write wins**: if `w` is the last write to its cell at its index, the buffered array
holds `w.val` there -/
theorem applyWrites_last (pre post : List Write) (w : Write) (n : Nat) (buf : Buffer)
    (hs : SizedFor w.cell n (pre ++ w :: post)) (hb : ∀ a, alGet buf w.cell = some a → a.length = n)
    (hi : w.idx < n) (hno : ∀ w' ∈ post, ¬ (w'.cell = w.cell ∧ w'.idx = w.idx)) :
    ∃ a, alGet (applyWrites buf (pre ++ w :: post)) w.cell = some a ∧ a.length = n ∧
      a[w.idx]? = some w.val := by
  rw [applyWrites_append, applyWrites_cons]
  have hpre : SizedFor w.cell n pre := fun w' hw' => hs w' (List.mem_append_left _ hw')
  have hw : w.size = n := hs w (List.mem_append_right _ (List.mem_cons_self)) rfl
  have hpost : SizedFor w.cell n post :=
    fun w' hw' => hs w' (List.mem_append_right _ (List.mem_cons_of_mem _ hw'))
  have hlen := applyWrites_length w.cell n pre buf hpre hb
  apply applyWrites_keeps w.cell n w.idx w.val post _ hpost hno
  rw [alGet_applyWrite]
  simp only [if_true]
  refine ⟨_, rfl, ?_, ?_⟩
  · rw [List.length_set]
    cases hg : alGet (applyWrites buf pre) w.cell with
    | none => simp [hw]
    | some a₀ => simpa using hlen a₀ hg
  · rw [List.getElem?_set_self]
    cases hg : alGet (applyWrites buf pre) w.cell with
    | none => simpa [hw] using hi
    | some a₀ => simpa [hlen a₀ hg] using hi

/-- **default elsewhere**: an index nobody writes holds the default (when the cell exists at all) -/
theorem applyWrites_default (k : String × List Char) (n i : Nat) (d : Val) :
    ∀ (ws : List Write) (buf : Buffer), SizedFor k n ws → (∀ w ∈ ws, w.cell = k → w.dflt = d) →
    (∀ w ∈ ws, ¬ (w.cell = k ∧ w.idx = i)) → i < n →
    (∀ a, alGet buf k = some a → a.length = n ∧ a[i]? = some d) →
    ∀ a, alGet (applyWrites buf ws) k = some a → a.length = n ∧ a[i]? = some d
  | [], _, _, _, _, _, hb => hb
  | w :: ws, buf, hs, hd, hno, hi, hb => by
    rw [applyWrites_cons]
    apply applyWrites_default k n i d ws _ (fun w' hw' => hs w' (List.mem_cons_of_mem _ hw'))
      (fun w' hw' => hd w' (List.mem_cons_of_mem _ hw'))
      (fun w' hw' => hno w' (List.mem_cons_of_mem _ hw')) hi
    intro a ha
    rw [alGet_applyWrite] at ha
    by_cases hk : k = w.cell
    · have hwi : w.idx ≠ i := fun e => hno w (List.mem_cons_self) ⟨hk.symm, e⟩
      simp only [hk, if_true, Option.some.injEq] at ha
      subst ha
      rw [List.length_set, List.getElem?_set_ne hwi]
      cases hg : alGet buf w.cell with
      | none =>
        simp only [Option.getD_none, List.length_replicate]
        refine ⟨hs w (List.mem_cons_self) hk.symm, ?_⟩
        rw [List.getElem?_replicate]
        simp [hs w (List.mem_cons_self) hk.symm, hi, hd w (List.mem_cons_self) hk.symm]
      | some a₀ => simpa using hb a₀ (hk ▸ hg)
    · simp only [hk, if_false] at ha; exact hb a ha

/-- a cell exists as soon as somebody wrote to it -/
theorem applyWrites_exists (k : String × List Char) : ∀ (ws : List Write) (buf : Buffer),
    ((∃ w ∈ ws, w.cell = k) ∨ (alGet buf k).isSome) → (alGet (applyWrites buf ws) k).isSome
  | [], _, h => by
    cases h with
    | inl h => obtain ⟨_, hm, _⟩ := h; cases hm
    | inr h => exact h
  | w :: ws, buf, h => by
    rw [applyWrites_cons]
    apply applyWrites_exists k ws
    by_cases hk : w.cell = k
    · right; rw [alGet_applyWrite]; simp [hk]
    · cases h with
      | inl h =>
        obtain ⟨w', hm, hc⟩ := h
        cases hm with
        | head => exact absurd hc hk
        | tail _ hm => exact Or.inl ⟨w', hm, hc⟩
      | inr h =>
        right; rw [alGet_applyWrite]
        have : k ≠ w.cell := fun e => hk e.symm
        simpa [this] using h


/-! ## one buffer entry per eternal variable (repair C12j) -/

/-- what is buffered under `k` after a list of writes only depends on the writes themselves when
they are replaced by writes that keep the variable and are the same for `k`'s variable -/
theorem alGet_applyWrites_map (k : String × List Char) (g : Write → Write)
    (hvar : ∀ w, (g w).var = w.var) (hid : ∀ w, w.var = k.1 → g w = w) :
    ∀ (ws : List Write) (buf buf' : Buffer), alGet buf' k = alGet buf k →
    alGet (applyWrites buf' (ws.map g)) k = alGet (applyWrites buf ws) k
  | [], _, _, h => h
  | w :: ws, buf, buf', h => by
    rw [List.map_cons, applyWrites_cons, applyWrites_cons]
    apply alGet_applyWrites_map k g hvar hid ws
    rw [alGet_applyWrite, alGet_applyWrite]
    by_cases hv : w.var = k.1
    · rw [hid w hv]
      by_cases hk : k = w.cell
      · rw [if_pos hk, if_pos hk, ← hk, h]
      · rw [if_neg hk, if_neg hk]; exact h
    · have h1 : k ≠ w.cell := fun e => hv (by rw [e]; rfl)
      have h2 : k ≠ (g w).cell := fun e => hv (by rw [e]; exact (hvar w).symm)
      rw [if_neg h1, if_neg h2]; exact h

theorem resolveKeys_var (sys : Sys) (ws : List Write) (w : Write) :
    (if isEternal sys w.var then { w with key := (firstKeyOf ws w.var).getD w.key } else w).var = w.var := by
  split <;> rfl

/-- **the variables that are not eternal are buffered as before**: the canonical text of the period
each value was given for -/
theorem alGet_resolveKeys (sys : Sys) (k : String × List Char) (hk : isEternal sys k.1 = false)
    (ws : List Write) (buf : Buffer) :
    alGet (applyWrites buf (resolveKeys sys ws)) k = alGet (applyWrites buf ws) k := by
  unfold resolveKeys
  refine alGet_applyWrites_map k _ (resolveKeys_var sys ws) ?_ ws buf buf rfl
  intro w hw
  rw [hw, hk]
  rfl

theorem isEternal_of_var {sys : Sys} {var : Var} (hvar : sys.var? var.name = some var) :
    isEternal sys var.name = decide (var.defUnit = .eternity) := by
  unfold isEternal; rw [hvar]

theorem firstKeyOf_some {ws : List Write} {w : Write} (hw : w ∈ ws) :
    ∃ k, firstKeyOf ws w.var = some k := by
  unfold firstKeyOf
  cases hf : ws.find? (fun w' => w'.var == w.var) with
  | none =>
    have := List.find?_eq_none.mp hf w hw
    simp at this
  | some w' => exact ⟨w'.key, rfl⟩

/-- a resolved write of an eternal variable carries the key of the first write to that variable -/
theorem resolveKeys_key (sys : Sys) (ws : List Write) (v : String) (hv : isEternal sys v = true) :
    ∀ w ∈ resolveKeys sys ws, w.var = v → some w.key = firstKeyOf ws v := by
  intro w hw hwv
  unfold resolveKeys at hw
  obtain ⟨w₀, hw₀, rfl⟩ := List.mem_map.mp hw
  have hvar : w₀.var = v := by rw [← hwv]; exact (resolveKeys_var sys ws w₀).symm
  obtain ⟨k, hk⟩ := firstKeyOf_some hw₀
  simp only [hvar, hv, if_true] at hk ⊢
  rw [hk]; rfl

/-! ## the writes a document produces -/

theorem idxOf_inj_of_mem {l : List String} {a b : String} (ha : a ∈ l) (hb : b ∈ l)
    (h : l.idxOf a = l.idxOf b) : a = b := by
  have h1 : l.idxOf a < l.length := List.idxOf_lt_length_of_mem ha
  have h2 : l.idxOf b < l.length := List.idxOf_lt_length_of_mem hb
  have e1 := List.getElem_idxOf h1
  have e2 := List.getElem_idxOf h2
  rw [← e1, ← e2]
  simp only [h]

theorem Sys.var?_name {sys : Sys} {name : String} {var : Var} (h : sys.var? name = some var) :
    var.name = name := by
  unfold Sys.var? at h
  have := List.find?_some h
  simpa using this

/-- the shape of a write produced for variable `var` at instance index `idx` -/
def Write.From (var : Var) (size idx : Nat) (w : Write) : Prop :=
  w.var = var.name ∧ w.idx = idx ∧ w.size = size ∧ w.dflt = var.default

theorem valueWrite_ok {var : Var} {size idx : Nat} {kv : DKey × Doc} {o : Option Write}
    (h : valueWrite var size idx kv = .ok o) :
    ∃ ck, canonKey kv.1 = .ok ck ∧
      ((kv.2.isNull = true ∧ o = none) ∨
       (kv.2.isNull = false ∧ ∃ val, checkSetValue var kv.2 = .ok val ∧
          o = some ⟨var.name, ck, idx, val, size, var.default⟩)) := by
  unfold valueWrite at h
  cases hc : canonKey kv.1 with
  | error e => rw [hc] at h; cases h
  | ok ck =>
    rw [hc] at h
    refine ⟨ck, rfl, ?_⟩
    cases hn : kv.2.isNull with
    | true => rw [hn] at h; simp only [if_true] at h; cases h; exact Or.inl ⟨rfl, rfl⟩
    | false =>
      rw [hn] at h
      simp only [Bool.false_eq_true, if_false] at h
      cases hv : checkSetValue var kv.2 with
      | error e => rw [hv] at h; cases h
      | ok val => rw [hv] at h; cases h; exact Or.inr ⟨rfl, val, rfl, rfl⟩

theorem valueWrite_from {var : Var} {size idx : Nat} {kv : DKey × Doc} {w : Write}
    (h : valueWrite var size idx kv = .ok (some w)) : w.From var size idx := by
  obtain ⟨ck, _, h'⟩ := valueWrite_ok h
  cases h' with
  | inl h' => cases h'.2
  | inr h' =>
    obtain ⟨_, val, _, hw⟩ := h'
    cases hw
    exact ⟨rfl, rfl, rfl, rfl⟩

/-- what a successful `variableWrites` gives -/
theorem variableWrites_ok {sys : Sys} {entKey : String} {dp : Option String} {size idx : Nat}
    {kv : DKey × Doc} {ws : List Write} (h : variableWrites sys entKey dp size idx kv = .ok ws) :
    ∃ var pvs os, sys.var? kv.1.text = some var ∧ var.entity = entKey ∧
      variablePairs dp kv.2 = some pvs ∧ mapE (valueWrite var size idx) pvs = .ok os ∧
      ws = os.filterMap id := by
  unfold variableWrites at h
  cases hv : sys.var? kv.1.text with
  | none => rw [hv] at h; cases h
  | some var =>
    rw [hv] at h
    simp only at h
    by_cases he : var.entity ≠ entKey
    · rw [if_pos he] at h; cases h
    · rw [if_neg he] at h
      cases hp : variablePairs dp kv.2 with
      | none => rw [hp] at h; cases h
      | some pvs =>
        rw [hp] at h
        simp only at h
        cases hm : mapE (valueWrite var size idx) pvs with
        | error e => rw [hm] at h; cases h
        | ok os =>
          rw [hm] at h
          cases h
          exact ⟨var, pvs, os, rfl, by simpa using he, rfl, hm, rfl⟩

theorem filterMap_id_mem_from {var : Var} {size idx : Nat} :
    ∀ (pvs : List (DKey × Doc)) (os : List (Option Write)),
    mapE (valueWrite var size idx) pvs = .ok os → ∀ w ∈ os.filterMap id, w.From var size idx := by
  intro pvs os h w hw
  have hall := mapE_forall₂ _ pvs os h
  clear h
  induction hall with
  | nil => cases hw
  | @cons a b l l' hab _ ih =>
    cases b with
    | none => simp only [List.filterMap_cons, id] at hw; exact ih hw
    | some w' =>
      simp only [List.filterMap_cons, id, List.mem_cons] at hw
      cases hw with
      | inl e => subst e; exact valueWrite_from hab
      | inr hm => exact ih hm

theorem variableWrites_from {sys : Sys} {entKey : String} {dp : Option String} {size idx : Nat}
    {kv : DKey × Doc} {ws : List Write} (h : variableWrites sys entKey dp size idx kv = .ok ws) :
    ∃ var, sys.var? kv.1.text = some var ∧ var.entity = entKey ∧ ∀ w ∈ ws, w.From var size idx := by
  obtain ⟨var, pvs, os, hv, he, _, hm, rfl⟩ := variableWrites_ok h
  exact ⟨var, hv, he, filterMap_id_mem_from pvs os hm⟩

/-- what a successful `instanceWrites` gives -/
theorem instanceWrites_ok {sys : Sys} {entKey : String} {dp : Option String} {ids : List String}
    {id : String} {vars : List (DKey × Doc)} {ws : List Write}
    (h : instanceWrites sys entKey dp ids id vars = .ok ws) :
    ∃ wss, mapE (variableWrites sys entKey dp ids.length (ids.idxOf id)) vars = .ok wss ∧ ws = wss.flatten := by
  unfold instanceWrites at h
  cases hm : mapE (variableWrites sys entKey dp ids.length (ids.idxOf id)) vars with
  | error e => rw [hm] at h; cases h
  | ok wss => rw [hm] at h; cases h; exact ⟨wss, rfl, rfl⟩

theorem all₂_variableWrites_mem {sys : Sys} {entKey : String} {dp : Option String} {size idx : Nat}
    {vars : List (DKey × Doc)} {wss : List (List Write)}
    (hall : All₂ (fun a b => variableWrites sys entKey dp size idx a = .ok b) vars wss) :
    ∀ l ∈ wss, ∀ w ∈ l, ∃ var, sys.var? w.var = some var ∧ var.entity = entKey ∧ w.From var size idx := by
  induction hall with
  | nil => intro l hl; cases hl
  | @cons a b l₁ l₂ hab _ ih =>
    intro l hl w hwl
    cases hl with
    | head =>
      obtain ⟨var, hv, he, hf⟩ := variableWrites_from hab
      have hw := hf w hwl
      refine ⟨var, ?_, he, hw⟩
      rw [hw.1, Sys.var?_name hv]; exact hv
    | tail _ hm => exact ih l hm w hwl

/-- every write of an instance targets the instance's index, with the entity's size, and belongs
to a variable of the entity -/
theorem instanceWrites_mem {sys : Sys} {entKey : String} {dp : Option String} {ids : List String}
    {id : String} {vars : List (DKey × Doc)} {ws : List Write}
    (h : instanceWrites sys entKey dp ids id vars = .ok ws) :
    ∀ w ∈ ws, ∃ var, sys.var? w.var = some var ∧ var.entity = entKey ∧
      w.From var ids.length (ids.idxOf id) := by
  obtain ⟨wss, hm, rfl⟩ := instanceWrites_ok h
  intro w hw
  obtain ⟨l, hl, hwl⟩ := List.mem_flatten.mp hw
  exact all₂_variableWrites_mem (mapE_forall₂ _ vars wss hm) l hl w hwl

theorem all₂_valueWrite_later {var : Var} {size idx : Nat} {ck : List Char}
    {ppost : List (DKey × Doc)} {os : List (Option Write)}
    (hall : All₂ (fun a b => valueWrite var size idx a = .ok b) ppost os) :
    (∀ kx ∈ ppost, canonKey kx.1 = .ok ck → kx.2.isNull = true) →
    ∀ w' ∈ os.filterMap id, w'.key ≠ ck := by
  induction hall with
  | nil => intro _ w' hw'; cases hw'
  | @cons a b l l' hab _ ih =>
    intro hlater w' hw'
    have hl' : ∀ kx ∈ l, canonKey kx.1 = .ok ck → kx.2.isNull = true :=
      fun kx hkx => hlater kx (List.mem_cons_of_mem _ hkx)
    cases b with
    | none => simp only [List.filterMap_cons, id] at hw'; exact ih hl' w' hw'
    | some w'' =>
      simp only [List.filterMap_cons, id, List.mem_cons] at hw'
      cases hw' with
      | inr hm' => exact ih hl' w' hm'
      | inl e =>
        subst e
        obtain ⟨ck'', hck'', hcase⟩ := valueWrite_ok hab
        cases hcase with
        | inl hc => cases hc.2
        | inr hc =>
          obtain ⟨hnn, val', _, hw⟩ := hc
          cases hw
          intro e
          simp only at e
          subst e
          have := hlater a (List.mem_cons_self) hck''
          rw [this] at hnn; cases hnn

/-- the write produced by one declared `(period key, value)` pair, and where it sits among the
writes of its variable: nothing after it targets the same canonical period unless a later pair
of the same variable does -/
theorem variableWrites_decl {sys : Sys} {entKey : String} {dp : Option String} {size idx : Nat}
    {kv : DKey × Doc} {ws : List Write} (h : variableWrites sys entKey dp size idx kv = .ok ws)
    (var : Var) (hv : sys.var? kv.1.text = some var) (pvs ppre ppost : List (DKey × Doc))
    (hp : variablePairs dp kv.2 = some pvs) (k : DKey) (x : Doc) (hsplit : pvs = ppre ++ (k, x) :: ppost)
    (hx : x.isNull = false) (ck : List Char) (hck : canonKey k = .ok ck)
    (hlater : ∀ kx ∈ ppost, canonKey kx.1 = .ok ck → kx.2.isNull = true) :
    ∃ val pre post, checkSetValue var x = .ok val ∧
      ws = pre ++ (⟨var.name, ck, idx, val, size, var.default⟩ : Write) :: post ∧
      ∀ w' ∈ post, w'.key ≠ ck := by
  obtain ⟨var', pvs', os, hv', he, hp', hm, rfl⟩ := variableWrites_ok h
  rw [hv] at hv'; cases hv'
  rw [hp] at hp'; cases hp'
  subst hsplit
  obtain ⟨os₁, os₂, h1, h2, rfl⟩ := mapE_append_ok _ ppre ((k, x) :: ppost) os hm
  obtain ⟨o, os₃, ho, h3, rfl⟩ := mapE_cons_ok _ (k, x) ppost os₂ h2
  obtain ⟨ck', hck', hcase⟩ := valueWrite_ok ho
  simp only at hck' hcase
  rw [hck] at hck'; cases hck'
  cases hcase with
  | inl hc => rw [hx] at hc; cases hc.1
  | inr hc =>
    obtain ⟨_, val, hval, rfl⟩ := hc
    refine ⟨val, os₁.filterMap id, os₃.filterMap id, hval, ?_, ?_⟩
    · simp [List.filterMap_append]
    · exact all₂_valueWrite_later (mapE_forall₂ _ ppost os₃ h3) hlater


theorem all₂_valueWrite_origin {var : Var} {size idx : Nat}
    {pvs : List (DKey × Doc)} {os : List (Option Write)}
    (hall : All₂ (fun a b => valueWrite var size idx a = .ok b) pvs os) :
    ∀ w ∈ os.filterMap id, ∃ kx ∈ pvs, kx.2.isNull = false ∧ canonKey kx.1 = .ok w.key ∧
      ∃ val, checkSetValue var kx.2 = .ok val ∧ w.val = val := by
  induction hall with
  | nil => intro w hw; cases hw
  | @cons a b l l' hab _ ih =>
    intro w hw
    cases b with
    | none =>
      simp only [List.filterMap_cons, id] at hw
      obtain ⟨kx, hkx, h⟩ := ih w hw
      exact ⟨kx, List.mem_cons_of_mem _ hkx, h⟩
    | some w'' =>
      simp only [List.filterMap_cons, id, List.mem_cons] at hw
      cases hw with
      | inr hm' =>
        obtain ⟨kx, hkx, h⟩ := ih w hm'
        exact ⟨kx, List.mem_cons_of_mem _ hkx, h⟩
      | inl e =>
        subst e
        obtain ⟨ck, hck, hcase⟩ := valueWrite_ok hab
        cases hcase with
        | inl hc => cases hc.2
        | inr hc =>
          obtain ⟨hnn, val, hval, hw⟩ := hc
          cases hw
          exact ⟨a, List.mem_cons_self, hnn, hck, val, hval, rfl⟩

/-- where a write of an instance comes from -/
theorem all₂_variableWrites_origin {sys : Sys} {entKey : String} {dp : Option String} {size idx : Nat}
    {vars : List (DKey × Doc)} {wss : List (List Write)}
    (hall : All₂ (fun a b => variableWrites sys entKey dp size idx a = .ok b) vars wss) :
    ∀ l ∈ wss, ∀ w ∈ l, ∃ kv ∈ vars, ∃ var pvs, sys.var? kv.1.text = some var ∧ w.var = kv.1.text ∧
      variablePairs dp kv.2 = some pvs ∧
      ∃ kx ∈ pvs, kx.2.isNull = false ∧ canonKey kx.1 = .ok w.key := by
  induction hall with
  | nil => intro l hl; cases hl
  | @cons a b l₁ l₂ hab _ ih =>
    intro l hl w hwl
    cases hl with
    | head =>
      obtain ⟨var, pvs, os, hv, he, hp, hm, rfl⟩ := variableWrites_ok hab
      obtain ⟨kx, hkx, hnn, hck, _⟩ := all₂_valueWrite_origin (mapE_forall₂ _ pvs os hm) w hwl
      have hf := filterMap_id_mem_from pvs os hm w hwl
      exact ⟨a, List.mem_cons_self, var, pvs, hv, by rw [hf.1, Sys.var?_name hv], hp, kx, hkx, hnn, hck⟩
    | tail _ hm =>
      obtain ⟨kv, hkv, h⟩ := ih l hm w hwl
      exact ⟨kv, List.mem_cons_of_mem _ hkv, h⟩

theorem instanceWrites_origin {sys : Sys} {entKey : String} {dp : Option String} {ids : List String}
    {id : String} {vars : List (DKey × Doc)} {ws : List Write}
    (h : instanceWrites sys entKey dp ids id vars = .ok ws) :
    ∀ w ∈ ws, ∃ kv ∈ vars, ∃ var pvs, sys.var? kv.1.text = some var ∧ w.var = kv.1.text ∧
      variablePairs dp kv.2 = some pvs ∧
      ∃ kx ∈ pvs, kx.2.isNull = false ∧ canonKey kx.1 = .ok w.key := by
  obtain ⟨wss, hm, rfl⟩ := instanceWrites_ok h
  intro w hw
  obtain ⟨l, hl, hwl⟩ := List.mem_flatten.mp hw
  exact all₂_variableWrites_origin (mapE_forall₂ _ vars wss hm) l hl w hwl

/-- the write of one declared value inside the writes of its instance -/
theorem instanceWrites_decl {sys : Sys} {entKey : String} {dp : Option String} {ids : List String}
    {id : String} {vars : List (DKey × Doc)} {ws : List Write}
    (h : instanceWrites sys entKey dp ids id vars = .ok ws)
    (vpre vpost : List (DKey × Doc)) (vk : DKey) (vd : Doc) (hvs : vars = vpre ++ (vk, vd) :: vpost)
    (hvars : ∀ kv ∈ vpost, kv.1.text ≠ vk.text)
    (var : Var) (hv : sys.var? vk.text = some var) (pvs ppre ppost : List (DKey × Doc))
    (hp : variablePairs dp vd = some pvs) (k : DKey) (x : Doc) (hsplit : pvs = ppre ++ (k, x) :: ppost)
    (hx : x.isNull = false) (ck : List Char) (hck : canonKey k = .ok ck)
    (hlater : ∀ kx ∈ ppost, canonKey kx.1 = .ok ck → kx.2.isNull = true) :
    ∃ val pre post, checkSetValue var x = .ok val ∧
      ws = pre ++ (⟨var.name, ck, ids.idxOf id, val, ids.length, var.default⟩ : Write) :: post ∧
      ∀ w' ∈ post, w'.cell ≠ (var.name, ck) := by
  obtain ⟨wss, hm, rfl⟩ := instanceWrites_ok h
  subst hvs
  obtain ⟨wss₁, wss₂, h1, h2, rfl⟩ := mapE_append_ok _ vpre ((vk, vd) :: vpost) wss hm
  obtain ⟨l, wss₃, hl, h3, rfl⟩ := mapE_cons_ok _ (vk, vd) vpost wss₂ h2
  obtain ⟨val, pre, post, hval, rfl, hpost⟩ :=
    variableWrites_decl hl var hv pvs ppre ppost hp k x hsplit hx ck hck hlater
  refine ⟨val, wss₁.flatten ++ pre, post ++ wss₃.flatten, hval, ?_, ?_⟩
  · simp [List.flatten_append, List.append_assoc]
  · intro w' hw'
    rcases List.mem_append.mp hw' with hw' | hw'
    · intro e
      exact hpost w' hw' (by have := congrArg Prod.snd e; simpa [Write.cell] using this)
    · obtain ⟨l', hl', hwl'⟩ := List.mem_flatten.mp hw'
      obtain ⟨kv, hkv, var', pvs', _, hname, _⟩ :=
        all₂_variableWrites_origin (mapE_forall₂ _ vpost wss₃ h3) l' hl' w' hwl'
      intro e
      have e1 : w'.var = var.name := by have := congrArg Prod.fst e; simpa [Write.cell] using this
      rw [hname, Sys.var?_name hv] at e1
      exact hvars kv hkv e1

/-- what a successful `add_person_entity` gives -/
theorem addPersonEntity_ok {sys : Sys} {dp : Option String} {kvs : List (DKey × Doc)}
    {ids : List String} {ws : List Write} (h : addPersonEntity sys dp (.obj kvs) = .ok (ids, ws)) :
    ids = kvs.map (fun kv => kv.1.text) ∧
    ∃ wss, mapE (personInstance sys dp ids) kvs = .ok wss ∧ ws = wss.flatten := by
  unfold addPersonEntity at h
  simp only [Doc.asObj?] at h
  cases hm : mapE (personInstance sys dp (kvs.map (fun kv => kv.1.text))) kvs with
  | error e => rw [hm] at h; cases h
  | ok wss => rw [hm] at h; cases h; exact ⟨rfl, wss, hm, rfl⟩

theorem personInstance_ok {sys : Sys} {dp : Option String} {ids : List String} {kv : DKey × Doc}
    {ws : List Write} (h : personInstance sys dp ids kv = .ok ws) :
    ∃ vars, kv.2.asObj? = some vars ∧ instanceWrites sys sys.personKey dp ids kv.1.text vars = .ok ws := by
  unfold personInstance at h
  cases ho : kv.2.asObj? with
  | none => rw [ho] at h; cases h
  | some vars => rw [ho] at h; exact ⟨vars, rfl, h⟩

/-- writes of the other instances of an entity never target the index of instance `id` -/
theorem all₂_person_other_idx {sys : Sys} {dp : Option String} {ids : List String} {id : String}
    (hid : id ∈ ids) {kvs : List (DKey × Doc)} {wss : List (List Write)}
    (hall : All₂ (fun a b => personInstance sys dp ids a = .ok b) kvs wss)
    (hne : ∀ kv ∈ kvs, kv.1.text ≠ id) (hmem : ∀ kv ∈ kvs, kv.1.text ∈ ids) :
    ∀ l ∈ wss, ∀ w ∈ l, w.idx ≠ ids.idxOf id := by
  induction hall with
  | nil => intro l hl; cases hl
  | @cons a b l₁ l₂ hab _ ih =>
    intro l hl w hwl
    cases hl with
    | head =>
      obtain ⟨vars, _, hi⟩ := personInstance_ok hab
      obtain ⟨var, _, _, hf⟩ := instanceWrites_mem hi w hwl
      rw [hf.2.1]
      intro e
      exact hne a List.mem_cons_self (idxOf_inj_of_mem (hmem a List.mem_cons_self) hid e)
    | tail _ hm =>
      exact ih (fun kv hkv => hne kv (List.mem_cons_of_mem _ hkv))
        (fun kv hkv => hmem kv (List.mem_cons_of_mem _ hkv)) l hm w hwl

/-- all writes of the person entity have the entity's size and their variable's default -/
theorem all₂_person_sized {sys : Sys} {dp : Option String} {ids : List String}
    {kvs : List (DKey × Doc)} {wss : List (List Write)}
    (hall : All₂ (fun a b => personInstance sys dp ids a = .ok b) kvs wss) :
    ∀ l ∈ wss, ∀ w ∈ l, w.size = ids.length ∧ ∃ var, sys.var? w.var = some var ∧
      var.entity = sys.personKey ∧ w.dflt = var.default := by
  induction hall with
  | nil => intro l hl; cases hl
  | @cons a b l₁ l₂ hab _ ih =>
    intro l hl w hwl
    cases hl with
    | head =>
      obtain ⟨vars, _, hi⟩ := personInstance_ok hab
      obtain ⟨var, hv, he, hf⟩ := instanceWrites_mem hi w hwl
      exact ⟨hf.2.2.1, var, hv, he, hf.2.2.2⟩
    | tail _ hm => exact ih l hm w hwl


/-! ## allocation of persons to the groups of one kind -/

/-- the persons of `L` are pairwise distinct, known and still to allocate in `ta`; `ta'` is what
remains to allocate afterwards -/
def Alloc (personsIds ta : List String) (L : List String) (ta' : List String) : Prop :=
  L.Nodup ∧ (∀ p ∈ L, p ∈ ta ∧ p ∈ personsIds) ∧ ta' = ta.filter (fun p => !L.contains p)

theorem Alloc.nil (personsIds ta : List String) : Alloc personsIds ta [] ta := by
  refine ⟨List.nodup_nil, ?_, ?_⟩
  · intro p hp; cases hp
  · have : ∀ l : List String, l = l.filter (fun _ => true) := by
      intro l; induction l with
      | nil => rfl
      | cons a l ih => simp [List.filter_cons]; exact ih
    simpa using this ta

theorem Alloc.append {personsIds ta ta₁ ta₂ : List String} {L₁ L₂ : List String}
    (h1 : Alloc personsIds ta L₁ ta₁) (h2 : Alloc personsIds ta₁ L₂ ta₂) :
    Alloc personsIds ta (L₁ ++ L₂) ta₂ := by
  obtain ⟨n1, m1, e1⟩ := h1
  obtain ⟨n2, m2, e2⟩ := h2
  refine ⟨?_, ?_, ?_⟩
  · rw [List.nodup_append]
    refine ⟨n1, n2, ?_⟩
    intro a ha b hb e
    subst e
    have := (m2 a hb).1
    rw [e1, List.mem_filter] at this
    simp [ha] at this
  · intro p hp
    rcases List.mem_append.mp hp with hp | hp
    · exact m1 p hp
    · have := (m2 p hp).1
      rw [e1, List.mem_filter] at this
      exact ⟨this.1, (m2 p hp).2⟩
  · rw [e2, e1, List.filter_filter]
    congr 1
    funext p
    simp only [List.contains_append, Bool.not_or, Bool.and_comm]

theorem allocOne_ok {personsIds ta ta' : List String} {d : Doc} (h : allocOne personsIds ta d = .ok ta') :
    ∃ pid, d.str? = some pid ∧ Alloc personsIds ta [pid] ta' := by
  unfold allocOne at h
  cases hs : d.str? with
  | none => rw [hs] at h; cases h
  | some pid =>
    rw [hs] at h
    simp only at h
    by_cases h1 : pid ∉ personsIds
    · rw [if_pos h1] at h; cases h
    · rw [if_neg h1] at h
      by_cases h2 : pid ∉ ta
      · rw [if_pos h2] at h; cases h
      · rw [if_neg h2] at h
        cases h
        refine ⟨pid, rfl, by simp, ?_, ?_⟩
        · intro p hp
          simp only [List.mem_singleton] at hp
          subst hp
          exact ⟨by simpa using h2, by simpa using h1⟩
        · congr 1
          funext p
          simp [List.contains_cons, bne_iff_ne, ne_eq, eq_comm]

theorem filterMap_str?_cons (d : Doc) (pid : String) (xs : List Doc) (h : d.str? = some pid) :
    (d :: xs).filterMap Doc.str? = pid :: xs.filterMap Doc.str? := by
  simp [List.filterMap_cons, h]

/-- a successful allocation of one role's list: every item is text, and the texts are allocated -/
theorem foldE_allocOne {personsIds : List String} : ∀ (xs : List Doc) (ta ta' : List String),
    foldE (allocOne personsIds) ta xs = .ok ta' →
    Alloc personsIds ta (xs.filterMap Doc.str?) ta' ∧ (xs.filterMap Doc.str?).length = xs.length
  | [], ta, ta', h => by cases h; exact ⟨Alloc.nil _ _, rfl⟩
  | d :: xs, ta, ta', h => by
    obtain ⟨ta₁, h1, h2⟩ := foldE_cons_ok _ ta ta' d xs h
    obtain ⟨pid, hs, ha⟩ := allocOne_ok h1
    obtain ⟨hr, hl⟩ := foldE_allocOne xs ta₁ ta' h2
    rw [filterMap_str?_cons d pid xs hs]
    exact ⟨Alloc.append ha hr, by simp [hl]⟩

theorem allocRole_ok {personsIds ta ta' : List String} {rd : Role × Doc}
    (h : allocRole personsIds ta rd = .ok ta') :
    Alloc personsIds ta rd.2.strs ta' ∧ rd.2.strs.length = (rd.2.asArr?.getD []).length := by
  unfold allocRole at h
  unfold Doc.strs
  cases ha : rd.2.asArr? with
  | none => rw [ha] at h; cases h
  | some xs => rw [ha] at h; simpa using foldE_allocOne xs ta ta' h

/-- the persons listed by one instance, role after role -/
def listedIn (rds : List (Role × Doc)) : List String := rds.flatMap (fun rd => rd.2.strs)

theorem foldE_allocRole {personsIds : List String} : ∀ (rds : List (Role × Doc)) (ta ta' : List String),
    foldE (allocRole personsIds) ta rds = .ok ta' → Alloc personsIds ta (listedIn rds) ta'
  | [], ta, ta', h => by cases h; exact Alloc.nil _ _
  | rd :: rds, ta, ta', h => by
    obtain ⟨ta₁, h1, h2⟩ := foldE_cons_ok _ ta ta' rd rds h
    have := foldE_allocRole rds ta₁ ta' h2
    unfold listedIn
    rw [List.flatMap_cons]
    exact Alloc.append (allocRole_ok h1).1 this

/-- the persons an instance lists / the membership writes it causes -/
def instListed (g : GroupKind) (kv : DKey × Doc) : List String :=
  listedIn (roleDocs g (kv.2.asObj?.getD []))

def instMWrites (g : GroupKind) (personsIds gids : List String) (kv : DKey × Doc) : List MWrite :=
  (roleDocs g (kv.2.asObj?.getD [])).flatMap (roleMWrites personsIds (gids.idxOf kv.1.text))

theorem groupStep_ok {sys : Sys} {dp : Option String} {g : GroupKind} {personsIds gids : List String}
    {acc acc' : GAcc} {kv : DKey × Doc} (h : groupStep sys dp g personsIds gids acc kv = .ok acc') :
    ∃ ikvs ws, kv.2.asObj? = some ikvs ∧
      Alloc personsIds acc.toAlloc (instListed g kv) acc'.toAlloc ∧
      (roleDocs g ikvs).all maxOk = true ∧
      instanceWrites sys g.key dp gids kv.1.text (variablesJson g ikvs) = .ok ws ∧
      acc'.mws = acc.mws ++ instMWrites g personsIds gids kv ∧ acc'.ws = acc.ws ++ ws := by
  unfold groupStep at h
  cases ho : kv.2.asObj? with
  | none => rw [ho] at h; cases h
  | some ikvs =>
    rw [ho] at h
    simp only at h
    cases ha : foldE (allocRole personsIds) acc.toAlloc (roleDocs g ikvs) with
    | error e => rw [ha] at h; cases h
    | ok ta =>
      rw [ha] at h
      simp only at h
      by_cases hmax : (!(roleDocs g ikvs).all maxOk) = true
      · rw [if_pos hmax] at h; cases h
      · rw [if_neg hmax] at h
        cases hi : instanceWrites sys g.key dp gids kv.1.text (variablesJson g ikvs) with
        | error e => rw [hi] at h; cases h
        | ok ws =>
          rw [hi] at h
          cases h
          refine ⟨ikvs, ws, rfl, ?_, by simpa using hmax, hi, ?_, rfl⟩
          · unfold instListed; rw [ho]; exact foldE_allocRole _ _ _ ha
          · unfold instMWrites; rw [ho]; rfl

/-- the whole instance loop of `add_group_entity` -/
theorem groupLoop_ok {sys : Sys} {dp : Option String} {g : GroupKind} {personsIds gids : List String} :
    ∀ (kvs : List (DKey × Doc)) (acc acc' : GAcc),
    foldE (groupStep sys dp g personsIds gids) acc kvs = .ok acc' →
    Alloc personsIds acc.toAlloc (kvs.flatMap (instListed g)) acc'.toAlloc ∧
    acc'.mws = acc.mws ++ kvs.flatMap (instMWrites g personsIds gids) ∧
    (∃ wss, All₂ (fun kv ws => ∃ ikvs, kv.2.asObj? = some ikvs ∧
        instanceWrites sys g.key dp gids kv.1.text (variablesJson g ikvs) = .ok ws) kvs wss ∧
      acc'.ws = acc.ws ++ wss.flatten) ∧
    (∀ kv ∈ kvs, ∃ ikvs, kv.2.asObj? = some ikvs ∧ (roleDocs g ikvs).all maxOk = true)
  | [], acc, acc', h => by
    cases h
    exact ⟨Alloc.nil _ _, by simp, ⟨[], .nil, by simp⟩, fun kv hkv => by cases hkv⟩
  | kv :: kvs, acc, acc', h => by
    obtain ⟨acc₁, h1, h2⟩ := foldE_cons_ok _ acc acc' kv kvs h
    obtain ⟨ikvs, ws, ho, ha, hmax, hi, hm, hw⟩ := groupStep_ok h1
    obtain ⟨ha', hm', ⟨wss, hall, hw'⟩, hmax'⟩ := groupLoop_ok kvs acc₁ acc' h2
    refine ⟨?_, ?_, ⟨ws :: wss, .cons ⟨ikvs, ho, hi⟩ hall, ?_⟩, ?_⟩
    · rw [List.flatMap_cons]; exact Alloc.append ha ha'
    · rw [hm', hm, List.flatMap_cons, List.append_assoc]
    · rw [hw', hw, List.flatten_cons, List.append_assoc]
    · intro kv' hkv'
      cases hkv' with
      | head => exact ⟨ikvs, ho, hmax⟩
      | tail _ hm'' => exact hmax' kv' hm''

/-! ## replay of membership writes -/

theorem applyM_length (n : Nat) (mws : List MWrite) :
    (applyM n mws).1.length = n ∧ (applyM n mws).2.length = n := by
  unfold applyM
  generalize hinit : (List.replicate n 0, List.replicate n "") = init
  have h0 : init.1.length = n ∧ init.2.length = n := by subst hinit; simp
  clear hinit
  induction mws generalizing init with
  | nil => exact h0
  | cons w ws ih =>
    rw [List.foldl_cons]
    apply ih
    simp [h0.1, h0.2]

/-- the last write to a person's slot decides the person's group and role -/
theorem applyM_last (n : Nat) (pre post : List MWrite) (w : MWrite) (hi : w.pidx < n)
    (hno : ∀ w' ∈ post, w'.pidx ≠ w.pidx) :
    (applyM n (pre ++ w :: post)).1[w.pidx]? = some w.gidx ∧
    (applyM n (pre ++ w :: post)).2[w.pidx]? = some w.role := by
  unfold applyM
  rw [List.foldl_append, List.foldl_cons]
  have hl := applyM_length n pre
  unfold applyM at hl
  generalize List.foldl (fun (acc : List Nat × List String) w => (acc.1.set w.pidx w.gidx, acc.2.set w.pidx w.role))
    (List.replicate n 0, List.replicate n "") pre = mid at hl
  generalize hs : (mid.1.set w.pidx w.gidx, mid.2.set w.pidx w.role) = start
  have h0 : start.1[w.pidx]? = some w.gidx ∧ start.2[w.pidx]? = some w.role := by
    subst hs
    simp [List.getElem?_set_self, hl.1, hl.2, hi]
  clear hs hl
  induction post generalizing start with
  | nil => exact h0
  | cons w' ws ih =>
    rw [List.foldl_cons]
    apply ih (fun w'' hw'' => hno w'' (List.mem_cons_of_mem _ hw''))
    have hne : w'.pidx ≠ w.pidx := hno w' List.mem_cons_self
    simp only [List.getElem?_set_ne hne]
    exact h0


/-- with pairwise distinct targets, every membership write is the last to its slot -/
theorem applyM_mem (n : Nat) (ms : List MWrite) (hnd : (ms.map (·.pidx)).Nodup) (w : MWrite)
    (hw : w ∈ ms) (hi : w.pidx < n) :
    (applyM n ms).1[w.pidx]? = some w.gidx ∧ (applyM n ms).2[w.pidx]? = some w.role := by
  obtain ⟨pre, post, rfl⟩ := List.append_of_mem hw
  apply applyM_last n pre post w hi
  intro w' hw' e
  rw [List.map_append, List.map_cons, List.nodup_append] at hnd
  have := (List.nodup_cons.mp hnd.2.1).1
  exact this (by rw [← e]; exact List.mem_map_of_mem hw')

theorem roleMWrites_pidx (personsIds : List String) (gidx : Nat) (rd : Role × Doc) :
    (roleMWrites personsIds gidx rd).map (·.pidx) = rd.2.strs.map (fun p => personsIds.idxOf p) := by
  unfold roleMWrites
  rw [List.map_map]
  have : ((fun (w : MWrite) => w.pidx) ∘ fun (x : String × Nat) =>
      (⟨personsIds.idxOf x.1, gidx, rd.1.roleAt x.2⟩ : MWrite)) = (fun p => personsIds.idxOf p) ∘ Prod.fst := by
    funext x; rfl
  rw [this, ← List.map_map, List.zipIdx_map_fst]

theorem instMWrites_pidx (g : GroupKind) (personsIds gids : List String) (kv : DKey × Doc) :
    (instMWrites g personsIds gids kv).map (·.pidx) = (instListed g kv).map (fun p => personsIds.idxOf p) := by
  unfold instMWrites instListed listedIn
  rw [List.map_flatMap, List.map_flatMap]
  congr 1
  funext rd
  exact roleMWrites_pidx personsIds _ rd

theorem loopMWrites_pidx (g : GroupKind) (personsIds gids : List String) (kvs : List (DKey × Doc)) :
    (kvs.flatMap (instMWrites g personsIds gids)).map (·.pidx)
      = (kvs.flatMap (instListed g)).map (fun p => personsIds.idxOf p) := by
  rw [List.map_flatMap, List.map_flatMap]
  congr 1
  funext kv
  exact instMWrites_pidx g personsIds gids kv

theorem nodup_map_idxOf (personsIds : List String) : ∀ (L : List String), L.Nodup →
    (∀ p ∈ L, p ∈ personsIds) → (L.map (fun p => personsIds.idxOf p)).Nodup
  | [], _, _ => by simp
  | a :: L, hn, hm => by
    rw [List.map_cons, List.nodup_cons]
    obtain ⟨ha, hn'⟩ := List.nodup_cons.mp hn
    refine ⟨?_, nodup_map_idxOf personsIds L hn' (fun p hp => hm p (List.mem_cons_of_mem _ hp))⟩
    intro hmem
    obtain ⟨b, hb, e⟩ := List.mem_map.mp hmem
    have := idxOf_inj_of_mem (hm b (List.mem_cons_of_mem _ hb)) (hm a List.mem_cons_self) e
    subst this
    exact ha hb

/-- membership of the write caused by the `t`-th person of a role -/
theorem mem_roleMWrites (personsIds : List String) (gidx : Nat) (rd : Role × Doc) (t : Nat) (pid : String)
    (h : rd.2.strs[t]? = some pid) :
    (⟨personsIds.idxOf pid, gidx, rd.1.roleAt t⟩ : MWrite) ∈ roleMWrites personsIds gidx rd := by
  unfold roleMWrites
  apply List.mem_map.mpr
  exact ⟨(pid, t), List.mem_zipIdx_iff_getElem?.mpr h, rfl⟩


/-- the membership writes for the persons left out of a group kind -/
def ownMWrites (personsIds : List String) (ngids : Nat) (r0 : String) (left : List String) : List MWrite :=
  (List.zipIdx left).map (fun (pid, off) => (⟨personsIds.idxOf pid, ngids + off, r0⟩ : MWrite))

theorem ownMWrites_pidx (personsIds : List String) (ngids : Nat) (r0 : String) (left : List String) :
    (ownMWrites personsIds ngids r0 left).map (·.pidx) = left.map (fun p => personsIds.idxOf p) := by
  unfold ownMWrites
  rw [List.map_map]
  have : ((fun (w : MWrite) => w.pidx) ∘ fun (x : String × Nat) =>
      (⟨personsIds.idxOf x.1, ngids + x.2, r0⟩ : MWrite)) = (fun p => personsIds.idxOf p) ∘ Prod.fst := by
    funext x; rfl
  rw [this, ← List.map_map, List.zipIdx_map_fst]

theorem mem_ownMWrites (personsIds : List String) (ngids : Nat) (r0 : String) (left : List String)
    (pid : String) (h : pid ∈ left) :
    (⟨personsIds.idxOf pid, ngids + left.idxOf pid, r0⟩ : MWrite) ∈ ownMWrites personsIds ngids r0 left := by
  unfold ownMWrites
  apply List.mem_map.mpr
  refine ⟨(pid, left.idxOf pid), List.mem_zipIdx_iff_getElem?.mpr ?_, rfl⟩
  have hlt := List.idxOf_lt_length_of_mem h
  simp only
  rw [List.getElem?_eq_getElem hlt, List.getElem_idxOf hlt]

/-- what a successful `add_group_entity` gives -/
theorem addGroupEntity_ok {sys : Sys} {dp : Option String} {g : GroupKind} {personsIds : List String}
    {kvs : List (DKey × Doc)} {buf buf' : Buffer} {e : Ent}
    (h : addGroupEntity sys dp g personsIds (.obj kvs) buf = .ok (e, buf')) :
    ∃ acc, foldE (groupStep sys dp g personsIds (kvs.map (fun kv => kv.1.text))) ⟨personsIds, [], []⟩ kvs = .ok acc ∧
      e.key = g.key ∧ e.plural = g.plural ∧ e.isPerson = false ∧
      e.ids = kvs.map (fun kv => kv.1.text) ++ acc.toAlloc ∧
      (∃ own, (acc.toAlloc = [] ∧ own = [] ∨
          ∃ r0, g.flatRoles.head? = some r0 ∧ own = ownMWrites personsIds kvs.length r0 acc.toAlloc) ∧
        e.memb = (applyM personsIds.length (acc.mws ++ own)).1 ∧
        e.roles = (applyM personsIds.length (acc.mws ++ own)).2) ∧
      buf' = (if acc.toAlloc = [] then applyWrites buf (resolveKeys sys acc.ws)
              else padBuffer sys g.key e.ids.length (applyWrites buf (resolveKeys sys acc.ws))) := by
  unfold addGroupEntity at h
  simp only [Doc.asObj?] at h
  cases hf : foldE (groupStep sys dp g personsIds (kvs.map (fun kv => kv.1.text))) ⟨personsIds, [], []⟩ kvs with
  | error e' => rw [hf] at h; cases h
  | ok acc =>
    rw [hf] at h
    simp only at h
    by_cases hl : acc.toAlloc = []
    · rw [if_pos hl] at h
      cases h
      refine ⟨acc, rfl, rfl, rfl, rfl, by simp [hl], ⟨[], Or.inl ⟨hl, rfl⟩, by simp, by simp⟩, by simp [hl]⟩
    · rw [if_neg hl] at h
      cases hr : g.flatRoles.head? with
      | none => rw [hr] at h; cases h
      | some r0 =>
        rw [hr] at h
        cases h
        refine ⟨acc, rfl, rfl, rfl, rfl, rfl, ⟨_, Or.inr ⟨r0, rfl, ?_⟩, rfl, rfl⟩, by simp [hl]⟩
        unfold ownMWrites; simp


/-! ## the flush order -/

theorem keyLe_trans (a b c : Option Int × Int) (h1 : keyLe a b = true) (h2 : keyLe b c = true) :
    keyLe a c = true := by
  obtain ⟨a1, a2⟩ := a
  obtain ⟨b1, b2⟩ := b
  obtain ⟨c1, c2⟩ := c
  unfold keyLe at *
  cases a1 <;> cases b1 <;> cases c1 <;> simp at * <;> omega

theorem keyLe_total (a b : Option Int × Int) : (keyLe a b || keyLe b a) = true := by
  obtain ⟨a1, a2⟩ := a
  obtain ⟨b1, b2⟩ := b
  unfold keyLe
  cases a1 <;> cases b1 <;> simp <;> omega

theorem insertBy_perm {α : Type} (le : α → α → Bool) (x : α) : ∀ l : List α, (insertBy le x l).Perm (x :: l)
  | [] => List.Perm.refl _
  | y :: ys => by
    unfold insertBy
    split
    · exact List.Perm.refl _
    · exact ((insertBy_perm le x ys).cons y).trans (List.Perm.swap x y ys)

theorem sortBy_perm {α : Type} (le : α → α → Bool) : ∀ l : List α, (sortBy le l).Perm l
  | [] => List.Perm.refl _
  | x :: xs => by
    show (insertBy le x (sortBy le xs)).Perm (x :: xs)
    exact (insertBy_perm le x _).trans ((sortBy_perm le xs).cons x)

theorem insertBy_pairwise {α : Type} (le : α → α → Bool)
    (htrans : ∀ a b c, le a b = true → le b c = true → le a c = true)
    (htotal : ∀ a b, (le a b || le b a) = true) (x : α) :
    ∀ l : List α, l.Pairwise (fun a b => le a b = true) → (insertBy le x l).Pairwise (fun a b => le a b = true)
  | [], _ => by simp [insertBy]
  | y :: ys, h => by
    unfold insertBy
    obtain ⟨hy, hys⟩ := List.pairwise_cons.mp h
    split
    · rename_i hxy
      refine List.pairwise_cons.mpr ⟨?_, h⟩
      intro z hz
      rcases List.mem_cons.mp hz with e | hz'
      · rw [e]; exact hxy
      · exact htrans x y z hxy (hy z hz')
    · rename_i hxy
      have hyx : le y x = true := by
        have := htotal x y
        simp only [Bool.or_eq_true] at this
        rcases this with h1 | h1
        · exact absurd h1 hxy
        · exact h1
      refine List.pairwise_cons.mpr ⟨?_, insertBy_pairwise le htrans htotal x ys hys⟩
      intro z hz
      have := (insertBy_perm le x ys).mem_iff.mp hz
      rcases List.mem_cons.mp this with e | hz'
      · rw [e]; exact hyx
      · exact hy z hz'

theorem sortBy_pairwise {α : Type} (le : α → α → Bool)
    (htrans : ∀ a b c, le a b = true → le b c = true → le a c = true)
    (htotal : ∀ a b, (le a b || le b a) = true) :
    ∀ l : List α, (sortBy le l).Pairwise (fun a b => le a b = true)
  | [] => List.Pairwise.nil
  | x :: xs => insertBy_pairwise le htrans htotal x _ (sortBy_pairwise le htrans htotal xs)

theorem sortedPeriods_ok {buf : Buffer} {v : String} {ps : List Period} (h : sortedPeriods buf v = .ok ps) :
    ∃ qs kps, mapE parseBuffered (varKeys buf v) = .ok qs ∧ mapE keyedPeriod qs = .ok kps ∧
      ps = (sortBy (fun a b => keyLe a.1 b.1) kps).map (fun kp => kp.2) := by
  unfold sortedPeriods at h
  cases hq : mapE parseBuffered (varKeys buf v) with
  | error e => rw [hq] at h; cases h
  | ok qs =>
    rw [hq] at h
    simp only at h
    cases hk : mapE keyedPeriod qs with
    | error e => rw [hk] at h; cases h
    | ok kps => rw [hk] at h; cases h; exact ⟨qs, kps, rfl, hk, rfl⟩

theorem keyedPeriod_ok {p : Period} {kp : (Option Int × Int) × Period} (h : keyedPeriod p = .ok kp) :
    kp.2 = p ∧ flushKey p = .ok kp.1 := by
  unfold keyedPeriod at h
  cases hf : flushKey p with
  | error e => rw [hf] at h; cases h
  | ok k => rw [hf] at h; cases h; exact ⟨rfl, rfl⟩

theorem all₂_keyed {qs : List Period} {kps : List ((Option Int × Int) × Period)}
    (hall : All₂ (fun p kp => keyedPeriod p = .ok kp) qs kps) :
    kps.map (fun kp => kp.2) = qs ∧ ∀ kp ∈ kps, flushKey kp.2 = .ok kp.1 := by
  induction hall with
  | nil => exact ⟨rfl, fun kp h => by cases h⟩
  | @cons a b l l' hab _ ih =>
    obtain ⟨h1, h2⟩ := keyedPeriod_ok hab
    refine ⟨by simp [h1, ih.1], ?_⟩
    intro kp hkp
    rcases List.mem_cons.mp hkp with e | hm
    · rw [e, h1]; exact h2
    · exact ih.2 kp hm

/-! ## documents that differ only in the spelling of period keys -/

/-- two `(period key, value)` pairs: keys denoting the same period, same value -/
def PairEq (a b : DKey × Doc) : Prop := parseKey a.1 = parseKey b.1 ∧ a.2 = b.2

/-- what a document gives for one variable of one instance -/
def VarDocEq (a b : Doc) : Prop :=
  a = b ∨ ∃ kvs kvs', a = .obj kvs ∧ b = .obj kvs' ∧ All₂ PairEq kvs kvs'

/-- an entry `name: …` of an instance (a variable, or a role: role entries are not objects) -/
def EntryEq (a b : DKey × Doc) : Prop := a.1 = b.1 ∧ VarDocEq a.2 b.2

/-- an instance -/
def InstEq (a b : Doc) : Prop :=
  a = b ∨ ∃ kvs kvs', a = .obj kvs ∧ b = .obj kvs' ∧ All₂ EntryEq kvs kvs'

def InstEntryEq (a b : DKey × Doc) : Prop := a.1 = b.1 ∧ InstEq a.2 b.2

/-- all the instances of one entity -/
def EntEq (a b : Doc) : Prop :=
  a = b ∨ ∃ kvs kvs', a = .obj kvs ∧ b = .obj kvs' ∧ All₂ InstEntryEq kvs kvs'

/-- the top level of a fully specified document (the `axes` entry is not respelt here) -/
def TopEq (a b : DKey × Doc) : Prop := a.1 = b.1 ∧ EntEq a.2 b.2

theorem canonKey_congr {k k' : DKey} (h : parseKey k = parseKey k') : canonKey k = canonKey k' := by
  unfold canonKey; rw [h]

theorem valueWrite_congr (var : Var) (size idx : Nat) (a b : DKey × Doc) (h : PairEq a b) :
    valueWrite var size idx a = valueWrite var size idx b := by
  unfold valueWrite
  rw [canonKey_congr h.1, h.2]

theorem PairEq.refl (a : DKey × Doc) : PairEq a a := ⟨rfl, rfl⟩
theorem VarDocEq.refl (a : Doc) : VarDocEq a a := Or.inl rfl
theorem EntryEq.refl (a : DKey × Doc) : EntryEq a a := ⟨rfl, Or.inl rfl⟩
theorem InstEq.refl (a : Doc) : InstEq a a := Or.inl rfl
theorem InstEntryEq.refl (a : DKey × Doc) : InstEntryEq a a := ⟨rfl, Or.inl rfl⟩
theorem EntEq.refl (a : Doc) : EntEq a a := Or.inl rfl

theorem variableWrites_congr (sys : Sys) (entKey : String) (dp : Option String) (size idx : Nat)
    (a b : DKey × Doc) (h : EntryEq a b) :
    variableWrites sys entKey dp size idx a = variableWrites sys entKey dp size idx b := by
  obtain ⟨hk, hv⟩ := h
  rcases hv with e | ⟨kvs, kvs', ea, eb, hall⟩
  · have : a = b := Prod.ext hk e
    rw [this]
  · unfold variableWrites
    rw [hk]
    cases sys.var? b.1.text with
    | none => rfl
    | some var =>
      simp only
      split
      · rfl
      · rw [ea, eb]
        simp only [variablePairs, Doc.asObj?]
        rw [mapE_congr _ _ PairEq (valueWrite_congr var size idx) kvs kvs' hall]

theorem instanceWrites_congr (sys : Sys) (entKey : String) (dp : Option String) (ids : List String)
    (id : String) (vars vars' : List (DKey × Doc)) (h : All₂ EntryEq vars vars') :
    instanceWrites sys entKey dp ids id vars = instanceWrites sys entKey dp ids id vars' := by
  unfold instanceWrites
  rw [mapE_congr _ _ EntryEq (variableWrites_congr sys entKey dp ids.length (ids.idxOf id)) vars vars' h]

theorem personInstance_congr (sys : Sys) (dp : Option String) (ids : List String)
    (a b : DKey × Doc) (h : InstEntryEq a b) : personInstance sys dp ids a = personInstance sys dp ids b := by
  obtain ⟨hk, hv⟩ := h
  rcases hv with e | ⟨kvs, kvs', ea, eb, hall⟩
  · have : a = b := Prod.ext hk e
    rw [this]
  · unfold personInstance
    rw [ea, eb, hk]
    simp only [Doc.asObj?]
    exact instanceWrites_congr sys _ dp ids _ kvs kvs' hall

theorem all₂_map_key {Rel : DKey × Doc → DKey × Doc → Prop} (hk : ∀ a b, Rel a b → a.1 = b.1)
    {l l' : List (DKey × Doc)} (h : All₂ Rel l l') :
    l.map (fun kv => kv.1.text) = l'.map (fun kv => kv.1.text) := by
  induction h with
  | nil => rfl
  | cons hab _ ih => simp [hk _ _ hab, ih]

theorem addPersonEntity_congr (sys : Sys) (dp : Option String) (a b : Doc) (h : EntEq a b) :
    addPersonEntity sys dp a = addPersonEntity sys dp b := by
  rcases h with e | ⟨kvs, kvs', ea, eb, hall⟩
  · rw [e]
  · unfold addPersonEntity
    rw [ea, eb]
    simp only [Doc.asObj?]
    rw [all₂_map_key (fun _ _ h => h.1) hall,
      mapE_congr _ _ InstEntryEq (personInstance_congr sys dp _) kvs kvs' hall]


/-- role entries are read through `asArr?` only -/
def RdEq (rd rd' : Role × Doc) : Prop := rd.1 = rd'.1 ∧ rd.2.asArr? = rd'.2.asArr?

theorem lookupS_rel {l l' : List (DKey × Doc)} (h : All₂ EntryEq l l') (k : String) :
    (lookupS k l = none ∧ lookupS k l' = none) ∨
    ∃ d d', lookupS k l = some d ∧ lookupS k l' = some d' ∧ VarDocEq d d' := by
  induction h with
  | nil => exact Or.inl ⟨rfl, rfl⟩
  | @cons a b l l' hab _ ih =>
    obtain ⟨ka, va⟩ := a
    obtain ⟨kb, vb⟩ := b
    obtain ⟨hk, hv⟩ := hab
    simp only at hk hv
    subst hk
    simp only [lookupS]
    by_cases e : ka = DKey.s k
    · simp only [e, if_true]; exact Or.inr ⟨va, vb, rfl, rfl, hv⟩
    · simp only [e, if_false]; exact ih

theorem strictSyntax_asArr_congr {d d' : Doc} (h : VarDocEq d d') :
    (strictSyntax d).asArr? = (strictSyntax d').asArr? := by
  rcases h with e | ⟨kvs, kvs', ea, eb, _⟩
  · rw [e]
  · rw [ea, eb]; rfl

theorem roleDocs_rel (g : GroupKind) {l l' : List (DKey × Doc)} (h : All₂ EntryEq l l') :
    All₂ RdEq (roleDocs g l) (roleDocs g l') := by
  unfold roleDocs
  induction g.roles with
  | nil => exact .nil
  | cons r rs ih =>
    simp only [List.map_cons]
    refine .cons ⟨rfl, ?_⟩ ih
    simp only
    rcases lookupS_rel h r.docKey with ⟨e1, e2⟩ | ⟨d, d', e1, e2, hv⟩
    · rw [e1, e2]
    · rw [e1, e2]; exact strictSyntax_asArr_congr hv

theorem allocRole_congr (personsIds ta : List String) (rd rd' : Role × Doc) (h : RdEq rd rd') :
    allocRole personsIds ta rd = allocRole personsIds ta rd' := by
  unfold allocRole; rw [h.2]

theorem maxOk_congr (rd rd' : Role × Doc) (h : RdEq rd rd') : maxOk rd = maxOk rd' := by
  unfold maxOk; rw [h.1, h.2]

theorem roleMWrites_congr (personsIds : List String) (gidx : Nat) (rd rd' : Role × Doc) (h : RdEq rd rd') :
    roleMWrites personsIds gidx rd = roleMWrites personsIds gidx rd' := by
  unfold roleMWrites Doc.strs; rw [h.1, h.2]

theorem all₂_all_congr {α : Type} {Rel : α → α → Prop} (f : α → Bool) (hf : ∀ a b, Rel a b → f a = f b)
    {l l' : List α} (h : All₂ Rel l l') : l.all f = l'.all f := by
  induction h with
  | nil => rfl
  | cons hab _ ih => simp [List.all_cons, hf _ _ hab, ih]

theorem all₂_flatMap_congr {α β : Type} {Rel : α → α → Prop} (f : α → List β) (hf : ∀ a b, Rel a b → f a = f b)
    {l l' : List α} (h : All₂ Rel l l') : l.flatMap f = l'.flatMap f := by
  induction h with
  | nil => rfl
  | cons hab _ ih => simp [List.flatMap_cons, hf _ _ hab, ih]

theorem all₂_filter_key {Rel : DKey × Doc → DKey × Doc → Prop} (hk : ∀ a b, Rel a b → a.1 = b.1)
    (f : DKey → Bool) {l l' : List (DKey × Doc)} (h : All₂ Rel l l') :
    All₂ Rel (l.filter (fun kv => f kv.1)) (l'.filter (fun kv => f kv.1)) := by
  induction h with
  | nil => exact .nil
  | @cons a b l l' hab _ ih =>
    simp only [List.filter_cons, hk _ _ hab]
    cases f b.1 with
    | true => exact .cons hab ih
    | false => exact ih

theorem variablesJson_rel (g : GroupKind) {l l' : List (DKey × Doc)} (h : All₂ EntryEq l l') :
    All₂ EntryEq (variablesJson g l) (variablesJson g l') := by
  unfold variablesJson
  exact all₂_filter_key (fun _ _ h => h.1) (fun k => !(g.roles.map (fun r => DKey.s r.docKey)).contains k) h

theorem groupStep_congr (sys : Sys) (dp : Option String) (g : GroupKind) (personsIds gids : List String)
    (acc : GAcc) (a b : DKey × Doc) (h : InstEntryEq a b) :
    groupStep sys dp g personsIds gids acc a = groupStep sys dp g personsIds gids acc b := by
  obtain ⟨hk, hv⟩ := h
  rcases hv with e | ⟨kvs, kvs', ea, eb, hall⟩
  · have : a = b := Prod.ext hk e
    rw [this]
  · unfold groupStep
    rw [ea, eb, hk]
    simp only [Doc.asObj?]
    have hrd := roleDocs_rel g hall
    rw [foldE_congr _ _ RdEq (fun s x y hxy => allocRole_congr personsIds s x y hxy) _ _ acc.toAlloc hrd,
      all₂_all_congr maxOk maxOk_congr hrd,
      all₂_flatMap_congr _ (roleMWrites_congr personsIds (gids.idxOf b.1.text)) hrd,
      instanceWrites_congr sys g.key dp gids b.1.text _ _ (variablesJson_rel g hall)]

theorem addGroupEntity_congr (sys : Sys) (dp : Option String) (g : GroupKind) (personsIds : List String)
    (a b : Doc) (buf : Buffer) (h : EntEq a b) :
    addGroupEntity sys dp g personsIds a buf = addGroupEntity sys dp g personsIds b buf := by
  rcases h with e | ⟨kvs, kvs', ea, eb, hall⟩
  · rw [e]
  · unfold addGroupEntity
    rw [ea, eb]
    simp only [Doc.asObj?]
    rw [all₂_map_key (fun _ _ h => h.1) hall,
      foldE_congr _ _ InstEntryEq (fun s x y hxy => groupStep_congr sys dp g personsIds _ s x y hxy) kvs kvs' _ hall]

theorem EntEq.isNull {a b : Doc} (h : EntEq a b) : a.isNull = b.isNull := by
  rcases h with e | ⟨kvs, kvs', ea, eb, _⟩
  · rw [e]
  · rw [ea, eb]; rfl

theorem EntEq.truthy {a b : Doc} (h : EntEq a b) : a.truthy = b.truthy := by
  rcases h with e | ⟨kvs, kvs', ea, eb, hall⟩
  · rw [e]
  · rw [ea, eb]
    simp only [Doc.truthy]
    cases hall with
    | nil => rfl
    | cons _ _ => rfl

theorem lookupS_top_rel {l l' : List (DKey × Doc)} (h : All₂ TopEq l l') (k : String) :
    (lookupS k l = none ∧ lookupS k l' = none) ∨
    ∃ d d', lookupS k l = some d ∧ lookupS k l' = some d' ∧ EntEq d d' := by
  induction h with
  | nil => exact Or.inl ⟨rfl, rfl⟩
  | @cons a b l l' hab _ ih =>
    obtain ⟨ka, va⟩ := a
    obtain ⟨kb, vb⟩ := b
    obtain ⟨hk, hv⟩ := hab
    simp only at hk hv
    subst hk
    simp only [lookupS]
    by_cases e : ka = DKey.s k
    · simp only [e, if_true]; exact Or.inr ⟨va, vb, rfl, rfl, hv⟩
    · simp only [e, if_false]; exact ih

theorem groupsStep_congr (sys : Sys) (dp : Option String) (params params' : List (DKey × Doc))
    (h : All₂ TopEq params params') (hasAxes : Bool) (personsIds : List String) (st : BState) (g : GroupKind) :
    groupsStep sys dp params hasAxes personsIds st g = groupsStep sys dp params' hasAxes personsIds st g := by
  unfold groupsStep getEntityDoc
  rcases lookupS_top_rel h g.plural with ⟨e1, e2⟩ | ⟨d, d', e1, e2, hv⟩
  · rw [e1, e2]
  · rw [e1, e2]
    simp only [hv.isNull]
    cases d'.isNull with
    | true => rfl
    | false =>
      simp only [Bool.false_eq_true, if_false]
      rw [addGroupEntity_congr sys dp g personsIds d d' st.buf hv]

theorem all₂_any_key {Rel : DKey × Doc → DKey × Doc → Prop} (hk : ∀ a b, Rel a b → a.1 = b.1)
    (f : DKey → Bool) {l l' : List (DKey × Doc)} (h : All₂ Rel l l') :
    l.any (fun kv => f kv.1) = l'.any (fun kv => f kv.1) := by
  induction h with
  | nil => rfl
  | cons hab _ ih => simp [List.any_cons, hk _ _ hab, ih]

theorem foldE_ext {α σ : Type} (f g : σ → α → R σ) (h : ∀ s x, f s x = g s x) (s : σ) (l : List α) :
    foldE f s l = foldE g s l :=
  foldE_congr f g Eq (fun s x y e => by rw [e]; exact h s y) l l s (All₂.refl (fun _ => rfl) l)

/-- the entity phase does not see how period keys are spelt -/
theorem buildEntities_congr (sys : Sys) (dp : Option String) (params params' : List (DKey × Doc))
    (h : All₂ TopEq params params') (hasAxes : Bool) :
    buildEntities sys dp params hasAxes = buildEntities sys dp params' hasAxes := by
  unfold buildEntities
  rw [all₂_any_key (fun _ _ h => h.1) (unexpectedKey sys) h]
  split
  · rfl
  · rcases lookupS_top_rel h sys.personPlural with ⟨e1, e2⟩ | ⟨d, d', e1, e2, hv⟩
    · rw [e1, e2]
    · rw [e1, e2]
      simp only [hv.truthy, addPersonEntity_congr sys dp d d' hv]
      split
      · rfl
      · split
        · rfl
        · rename_i pids pws _
          exact foldE_ext _ _ (fun s x => groupsStep_congr sys dp params params' h hasAxes pids s x) _ _


theorem parseAxes_congr {a b : Doc} (h : EntEq a b) : parseAxes a = parseAxes b := by
  rcases h with e | ⟨kvs, kvs', ea, eb, _⟩
  · rw [e]
  · rw [ea, eb]; rfl

/-- `build_from_entities` does not see how the period keys of the entities are spelt -/
theorem buildFromEntities_congr (sys : Sys) (dp : Option String) (si : SetInput)
    (kvs kvs' : List (DKey × Doc)) (h : All₂ TopEq kvs kvs') :
    buildFromEntities sys dp si kvs = buildFromEntities sys dp si kvs' := by
  unfold buildFromEntities
  have hp := all₂_filter_key (Rel := TopEq) (fun _ _ h => h.1) (fun k => !isAxesKey k) h
  simp only
  unfold getEntityDoc
  rcases lookupS_top_rel h "axes" with ⟨e1, e2⟩ | ⟨d, d', e1, e2, hv⟩
  · rw [e1, e2, buildEntities_congr sys dp _ _ hp]
  · rw [e1, e2]
    simp only [hv.isNull]
    cases d'.isNull with
    | true =>
      simp only [if_true]
      rw [buildEntities_congr sys dp _ _ hp]
    | false =>
      simp only [Bool.false_eq_true, if_false, Option.isSome_some]
      rw [buildEntities_congr sys dp _ _ hp, parseAxes_congr hv]

/-- the variables-only form: `Simulation.set_input(name, key, value)` reads the key through
`parseKey` only -/
theorem setInputDoc_congr (sys : Sys) (si : SetInput) (count : Nat) (store : Store) (name k k' : DKey)
    (value : Doc) (h : parseKey k = parseKey k') :
    setInputDoc sys si count store name k value = setInputDoc sys si count store name k' value := by
  unfold setInputDoc; rw [h]

/-- one axis: the period is read through `parseKey` only -/
theorem layAxis_congr (sys : Sys) (dp : Option String) (entKey : String) (step cell cnt : Nat) (multi : Bool)
    (coords : List Nat) (buf : Buffer) (a : Axis) (k k' : DKey) (h : parseKey k = parseKey k') :
    layAxis sys dp entKey step cell cnt multi coords buf { a with period := some k } =
    layAxis sys dp entKey step cell cnt multi coords buf { a with period := some k' } := by
  unfold layAxis axisKey
  have hv : ∀ c, axisValue { a with period := some k } cnt c = axisValue { a with period := some k' } cnt c :=
    fun c => rfl
  simp only [canonKey_congr h, hv]


/-! ## axes: replication is concatenation of copies -/

/-- `cell` copies, the `c`-th being `f c` -/
def copies {α : Type} (cell : Nat) (f : Nat → List α) : List α := (List.range cell).flatMap f

theorem copies_succ {α : Type} (cell : Nat) (f : Nat → List α) :
    copies (cell + 1) f = copies cell f ++ f cell := by
  unfold copies
  rw [List.range_succ, List.flatMap_append]
  simp

theorem copies_length {α : Type} (f : Nat → List α) (step : Nat) (hf : ∀ c, (f c).length = step) :
    ∀ cell, (copies cell f).length = cell * step
  | 0 => by simp [copies]
  | c + 1 => by rw [copies_succ, List.length_append, copies_length f step hf c, hf, Nat.succ_mul]

theorem tile_eq_copies {α : Type} (xs : List α) : ∀ cell, tile cell xs = copies cell (fun _ => xs)
  | 0 => rfl
  | c + 1 => by
    rw [copies_succ, ← tile_eq_copies xs c]
    unfold tile
    rw [List.replicate_succ', List.flatten_append]
    simp

theorem getElem?_copies {α : Type} (f : Nat → List α) (step : Nat) (hstep : 0 < step)
    (hf : ∀ c, (f c).length = step) : ∀ (cell j : Nat),
    (copies cell f)[j]? = if j < cell * step then (f (j / step))[j % step]? else none
  | 0, j => by simp [copies]
  | c + 1, j => by
    rw [copies_succ, List.getElem?_append, copies_length f step hf c, getElem?_copies f step hstep hf c j]
    have hdm := Nat.div_add_mod j step
    by_cases h1 : j < c * step
    · have h2 : j < (c + 1) * step := by rw [Nat.succ_mul]; omega
      simp [h1, h2]
    · simp only [h1, if_false]
      by_cases h2 : j < (c + 1) * step
      · have hdiv : j / step = c := Nat.div_eq_of_lt_le (by omega) h2
        have hmod : j % step = j - c * step := by
          rw [hdiv, Nat.mul_comm] at hdm; omega
        simp [h2, hdiv, hmod]
      · simp only [h2, if_false]
        apply List.getElem?_eq_none
        rw [hf, Nat.succ_mul] at *
        omega

/-- `idx ≤ j ∧ (j - idx) % step = 0` says that `j` is the `idx`-th slot of its copy -/
theorem hit_iff (idx step j : Nat) (hi : idx < step) :
    (idx ≤ j ∧ (j - idx) % step = 0) ↔ j % step = idx := by
  have hdm := Nat.div_add_mod j step
  constructor
  · intro ⟨hle, hm⟩
    have h2 := Nat.div_add_mod (j - idx) step
    rw [hm] at h2
    have : j = step * ((j - idx) / step) + idx := by omega
    rw [this, Nat.mul_add_mod, Nat.mod_eq_of_lt hi]
  · intro hm
    refine ⟨by omega, ?_⟩
    have : j - idx = step * (j / step) := by omega
    rw [this, Nat.mul_mod_right]

theorem hit_div (idx step j : Nat) (hi : idx < step) (hm : j % step = idx) : (j - idx) / step = j / step := by
  have hdm := Nat.div_add_mod j step
  have : j - idx = step * (j / step) := by omega
  rw [this, Nat.mul_div_cancel_left _ (by omega : 0 < step)]

/-- **the stride assignment on a replicated array lays one value on the indexed slot of every
copy** (when numpy accepts the assignment) -/
theorem strideSet_copies (proto vals arr' : Vec) (idx step cell : Nat) (hp : proto.length = step)
    (hi : idx < step) (h : strideSet (tile cell proto) idx step vals = .ok arr') :
    arr' = copies cell (fun c => proto.set idx (vals.getD c (proto.getD idx default))) := by
  have hstep : 0 < step := by omega
  unfold strideSet at h
  simp only at h
  split at h
  · cases h
  · split at h
    · split at h <;> cases h
    · cases h
      apply List.ext_getElem?
      intro j
      rw [List.getElem?_map, List.getElem?_zipIdx, tile_eq_copies,
        getElem?_copies (fun _ => proto) step hstep (fun _ => hp) cell j,
        getElem?_copies _ step hstep (fun c => by simp [hp]) cell j]
      by_cases hj : j < cell * step
      · simp only [hj, if_true, Nat.zero_add]
        have hml : j % step < proto.length := by rw [hp]; exact Nat.mod_lt _ hstep
        rw [List.getElem?_eq_getElem hml]
        simp only [Option.map_some]
        by_cases hm : j % step = idx
        · have hhit : (decide (idx ≤ j) && (j - idx) % step == 0) = true := by
            have := (hit_iff idx step j hi).mpr hm
            simp [this.1, this.2]
          simp only [hhit, if_true, hit_div idx step j hi hm]
          rw [List.getElem?_set, if_pos hm.symm, if_pos (by omega)]
          congr 2
          simp only [hm]
          rw [List.getD_eq_getElem?_getD, List.getElem?_eq_getElem (by omega)]
          rfl
        · have hhit : (decide (idx ≤ j) && (j - idx) % step == 0) = false := by
            cases hc : (decide (idx ≤ j) && (j - idx) % step == 0) with
            | false => rfl
            | true =>
              simp only [Bool.and_eq_true, decide_eq_true_eq, beq_iff_eq] at hc
              exact absurd ((hit_iff idx step j hi).mp hc) hm
          simp only [hhit, Bool.false_eq_true, if_false]
          rw [List.getElem?_set_ne (fun e => hm e.symm), List.getElem?_eq_getElem hml]
      · simp [hj]

theorem zipWith_add_replicate (m : List Nat) (k : Nat) :
    List.zipWith (· + ·) m (List.replicate m.length k) = m.map (· + k) := by
  induction m with
  | nil => rfl
  | cons a m ih => simp [List.replicate_succ, ih]

/-- memberships of the copies: the prototype's, shifted by the prototype's number of groups -/
theorem memb_copies (m : List Nat) (n : Nat) : ∀ cell,
    List.zipWith (· + ·) (tile cell m) ((List.range cell).flatMap (fun c => List.replicate m.length (c * n)))
      = copies cell (fun c => m.map (· + c * n))
  | 0 => rfl
  | c + 1 => by
    rw [copies_succ, ← memb_copies m n c, tile_eq_copies, copies_succ, ← tile_eq_copies,
      List.range_succ, List.flatMap_append]
    simp only [List.flatMap_cons, List.flatMap_nil, List.append_nil]
    rw [List.zipWith_append, zipWith_add_replicate]
    rw [tile_eq_copies, copies_length (fun _ => m) m.length (fun _ => rfl)]
    have : ∀ c, ((List.range c).flatMap (fun c => List.replicate m.length (c * n))).length = c * m.length := by
      intro c
      have := copies_length (fun c => List.replicate m.length (c * n)) m.length (fun _ => by simp) c
      exact this
    rw [this]

/-- ids of the copies: the prototype's ids followed by the running index -/
theorem ids_copies (ids : List String) : ∀ cell,
    List.zipWith (fun id (k : Nat) => id ++ toString k) (tile cell ids) (List.range (cell * ids.length))
      = copies cell (fun c => List.zipWith (fun id (i : Nat) => id ++ toString (c * ids.length + i)) ids
          (List.range ids.length))
  | 0 => by simp [copies, tile]
  | c + 1 => by
    rw [copies_succ, ← ids_copies ids c, tile_eq_copies, copies_succ, ← tile_eq_copies,
      Nat.succ_mul, List.range_add, List.zipWith_append]
    · congr 1
      rw [List.zipWith_map_right]
    · rw [tile_eq_copies, copies_length (fun _ => ids) ids.length (fun _ => rfl)]
      simp


/-! ## the class of the errors of the entity phase: never an ordinary exception -/

theorem numOfText_error {s : String} {e : BErr} (h : numOfText s = .error e) : e ≠ .other := by
  unfold numOfText at h
  simp only at h
  split at h
  · split at h
    · cases h; decide
    · split at h
      · cases h; decide
      · split at h
        · cases h; decide
        · split at h
          · cases h; decide
          · split at h
            · cases h
            · cases h; decide
  · split at h <;> (cases h; decide)

theorem dateOfText_error {s : String} {e : BErr} (h : dateOfText s = .error e) : e ≠ .other := by
  unfold dateOfText at h
  simp only at h
  repeat' split at h
  all_goals first
    | (cases h; done)
    | (cases h; decide)

theorem listAsScalar_error {xs : List Doc} {e : BErr} (h : listAsScalar xs = .error e) : e ≠ .other := by
  unfold listAsScalar at h
  split at h <;> (cases h; decide)

theorem map_error {α β : Type} {x : R α} {f : α → β} {e : BErr} (h : x.map f = .error e) : x = .error e := by
  cases x with
  | error e' => simpa [Except.map] using h
  | ok a => simp [Except.map] at h

theorem checkSetValue_error {var : Var} {d : Doc} {e : BErr} (h : checkSetValue var d = .error e) :
    e ≠ .other := by
  unfold checkSetValue at h
  split at h
  all_goals first
    | (cases h; done)
    | (cases h; decide)
    | exact numOfText_error (map_error h)
    | exact dateOfText_error (map_error h)
    | exact listAsScalar_error h
    | (split at h <;> first
        | (cases h; done)
        | (cases h; decide)
        | (rename_i he; cases h; exact numOfText_error he)
        | (split at h <;> first | (cases h; done) | (cases h; decide)))

theorem valueWrite_error {var : Var} {size idx : Nat} {kv : DKey × Doc} {e : BErr}
    (h : valueWrite var size idx kv = .error e) : e ≠ .other := by
  unfold valueWrite at h
  split at h
  · cases h; decide
  · split at h
    · cases h
    · split at h
      · rename_i e' he; cases h; exact checkSetValue_error he
      · cases h

theorem variableWrites_error {sys : Sys} {entKey : String} {dp : Option String} {size idx : Nat}
    {kv : DKey × Doc} {e : BErr} (h : variableWrites sys entKey dp size idx kv = .error e) : e ≠ .other := by
  unfold variableWrites at h
  split at h
  · cases h; decide
  · split at h
    · cases h; decide
    · split at h
      · cases h; decide
      · exact mapE_error _ (· ≠ .other) (fun x e' hx => valueWrite_error hx) _ _ (map_error h)

theorem instanceWrites_error {sys : Sys} {entKey : String} {dp : Option String} {ids : List String}
    {id : String} {vars : List (DKey × Doc)} {e : BErr}
    (h : instanceWrites sys entKey dp ids id vars = .error e) : e ≠ .other := by
  unfold instanceWrites at h
  exact mapE_error _ (· ≠ .other) (fun x e' hx => variableWrites_error hx) _ _ (map_error h)

theorem personInstance_error {sys : Sys} {dp : Option String} {ids : List String} {kv : DKey × Doc}
    {e : BErr} (h : personInstance sys dp ids kv = .error e) : e ≠ .other := by
  unfold personInstance at h
  split at h
  · cases h; decide
  · exact instanceWrites_error h

theorem addPersonEntity_error {sys : Sys} {dp : Option String} {d : Doc} {e : BErr}
    (h : addPersonEntity sys dp d = .error e) : e ≠ .other := by
  unfold addPersonEntity at h
  split at h
  · cases h; decide
  · exact mapE_error _ (· ≠ .other) (fun x e' hx => personInstance_error hx) _ _ (map_error h)

theorem allocOne_error {personsIds ta : List String} {d : Doc} {e : BErr}
    (h : allocOne personsIds ta d = .error e) : e = .situation := by
  unfold allocOne at h
  split at h
  · cases h; rfl
  · split at h
    · cases h; rfl
    · split at h
      · cases h; rfl
      · cases h

theorem allocRole_error {personsIds ta : List String} {rd : Role × Doc} {e : BErr}
    (h : allocRole personsIds ta rd = .error e) : e = .situation := by
  unfold allocRole at h
  split at h
  · cases h; rfl
  · exact foldE_error _ (· = .situation) (fun s x e' hx => allocOne_error hx) _ _ _ h

theorem groupStep_error {sys : Sys} {dp : Option String} {g : GroupKind} {personsIds gids : List String}
    {acc : GAcc} {kv : DKey × Doc} {e : BErr} (h : groupStep sys dp g personsIds gids acc kv = .error e) :
    e ≠ .other := by
  unfold groupStep at h
  cases ho : kv.2.asObj? with
  | none => rw [ho] at h; cases h; decide
  | some ikvs =>
    rw [ho] at h
    simp only at h
    cases ha : foldE (allocRole personsIds) acc.toAlloc (roleDocs g ikvs) with
    | error e' =>
      rw [ha] at h
      cases h
      have := foldE_error _ (· = .situation) (fun s x e'' hx => allocRole_error hx) _ _ _ ha
      rw [this]; decide
    | ok ta =>
      rw [ha] at h
      simp only at h
      by_cases hmax : (!(roleDocs g ikvs).all maxOk) = true
      · rw [if_pos hmax] at h; cases h; decide
      · rw [if_neg hmax] at h
        cases hi : instanceWrites sys g.key dp gids kv.1.text (variablesJson g ikvs) with
        | error e' => rw [hi] at h; cases h; exact instanceWrites_error hi
        | ok ws => rw [hi] at h; cases h

theorem addGroupEntity_error {sys : Sys} {dp : Option String} {g : GroupKind} {personsIds : List String}
    {d : Doc} {buf : Buffer} {e : BErr} (hg : g.flatRoles ≠ [])
    (h : addGroupEntity sys dp g personsIds d buf = .error e) : e ≠ .other := by
  unfold addGroupEntity at h
  split at h
  · cases h; decide
  · simp only at h
    split at h
    · rename_i e' he
      cases h
      exact foldE_error _ (· ≠ .other) (fun s x e'' hx => groupStep_error hx) _ _ _ he
    · split at h
      · cases h
      · split at h
        · rename_i hn
          cases hf : g.flatRoles with
          | nil => exact absurd hf hg
          | cons a l => rw [hf] at hn; cases hn
        · cases h

theorem groupsStep_error {sys : Sys} {dp : Option String} {params : List (DKey × Doc)} {hasAxes : Bool}
    {personsIds : List String} {st : BState} {g : GroupKind} {e : BErr} (hg : g.flatRoles ≠ [])
    (h : groupsStep sys dp params hasAxes personsIds st g = .error e) : e ≠ .other := by
  unfold groupsStep at h
  split at h
  · split at h
    · rename_i e' he; cases h; exact addGroupEntity_error hg he
    · cases h
  · split at h
    · cases h; decide
    · unfold addDefaultGroupEntity at h
      cases hf : g.flatRoles with
      | nil => exact absurd hf hg
      | cons a l => rw [hf] at h; simp at h


/-! ## the buffered values of one entity, generically (persons: `proj = id`; a group kind:
`proj = variablesJson g`) -/

/-- instance `kv` of the entity produced the writes `ws` -/
def InstWrites (sys : Sys) (entKey : String) (dp : Option String) (ids : List String)
    (proj : List (DKey × Doc) → List (DKey × Doc)) (kv : DKey × Doc) (ws : List Write) : Prop :=
  ∃ o, kv.2.asObj? = some o ∧ instanceWrites sys entKey dp ids kv.1.text (proj o) = .ok ws

theorem All₂.split {α β : Type} {Rel : α → β → Prop} : ∀ {l₁ : List α} {x : α} {l₂ : List α} {ys : List β},
    All₂ Rel (l₁ ++ x :: l₂) ys →
    ∃ ys₁ y ys₂, ys = ys₁ ++ y :: ys₂ ∧ All₂ Rel l₁ ys₁ ∧ Rel x y ∧ All₂ Rel l₂ ys₂
  | [], x, l₂, _, .cons hxy hr => ⟨[], _, _, rfl, .nil, hxy, hr⟩
  | a :: l₁, x, l₂, _, .cons hab hr => by
    obtain ⟨ys₁, y, ys₂, rfl, h1, h2, h3⟩ := All₂.split hr
    exact ⟨_ :: ys₁, y, ys₂, rfl, .cons hab h1, h2, h3⟩

theorem all₂_inst_mem {sys : Sys} {entKey : String} {dp : Option String} {ids : List String}
    {proj : List (DKey × Doc) → List (DKey × Doc)} {kvs : List (DKey × Doc)} {wss : List (List Write)}
    (hall : All₂ (InstWrites sys entKey dp ids proj) kvs wss) :
    ∀ w ∈ wss.flatten, ∃ kv ∈ kvs, ∃ ws, InstWrites sys entKey dp ids proj kv ws ∧ w ∈ ws := by
  induction hall with
  | nil => intro w hw; cases hw
  | @cons a b l l' hab _ ih =>
    intro w hw
    rw [List.flatten_cons] at hw
    rcases List.mem_append.mp hw with hw | hw
    · exact ⟨a, List.mem_cons_self, b, hab, hw⟩
    · obtain ⟨kv, hkv, h⟩ := ih w hw
      exact ⟨kv, List.mem_cons_of_mem _ hkv, h⟩

/-- **declared value placed**, for any entity: the array buffered for `(variable, canonical period)`
holds the converted value at the index of the declaring instance -/
theorem entity_value_placed {sys : Sys} {entKey : String} {dp : Option String} {ids : List String}
    {proj : List (DKey × Doc) → List (DKey × Doc)} {kvs : List (DKey × Doc)} {wss : List (List Write)}
    (hall : All₂ (InstWrites sys entKey dp ids proj) kvs wss) (hids : ids = kvs.map (fun kv => kv.1.text))
    (buf : Buffer)
    (ipre ipost : List (DKey × Doc)) (idk : DKey) (o : List (DKey × Doc))
    (hkvs : kvs = ipre ++ (idk, .obj o) :: ipost) (hpost : ∀ kv ∈ ipost, kv.1.text ≠ idk.text)
    (vpre vpost : List (DKey × Doc)) (vk : DKey) (vd : Doc) (hvars : proj o = vpre ++ (vk, vd) :: vpost)
    (hvk : ∀ kv ∈ vpost, kv.1.text ≠ vk.text)
    (var : Var) (hvar : sys.var? vk.text = some var)
    (pvs ppre ppost : List (DKey × Doc)) (hp : variablePairs dp vd = some pvs)
    (k : DKey) (x : Doc) (hpvs : pvs = ppre ++ (k, x) :: ppost) (hx : x.isNull = false)
    (ck : List Char) (hck : canonKey k = .ok ck)
    (hlater : ∀ kx ∈ ppost, canonKey kx.1 = .ok ck → kx.2.isNull = true)
    (hbuf : ∀ a, alGet buf (var.name, ck) = some a → a.length = ids.length) :
    var.entity = entKey ∧ ∃ val arr, checkSetValue var x = .ok val ∧
      alGet (applyWrites buf wss.flatten) (var.name, ck) = some arr ∧
      arr.length = ids.length ∧ arr[ids.idxOf idk.text]? = some val := by
  subst hkvs
  obtain ⟨wss₁, l, wss₃, rfl, h1, ⟨o', ho', hi⟩, h3⟩ := All₂.split hall
  simp only [Doc.asObj?, Option.some.injEq] at ho'
  subst ho'
  obtain ⟨val, pre, post, hval, rfl, hpostw⟩ :=
    instanceWrites_decl hi vpre vpost vk vd hvars hvk var hvar pvs ppre ppost hp k x hpvs hx ck hck hlater
  have hidmem : idk.text ∈ ids := by rw [hids]; simp
  let w₀ : Write := ⟨var.name, ck, ids.idxOf idk.text, val, ids.length, var.default⟩
  have hsized : ∀ w ∈ (wss₁ ++ (pre ++ w₀ :: post) :: wss₃).flatten, w.size = ids.length := by
    intro w hw
    obtain ⟨kv, _, ws, ⟨o', _, hi'⟩, hwm⟩ := all₂_inst_mem hall w hw
    obtain ⟨var', _, _, hf⟩ := instanceWrites_mem hi' w hwm
    exact hf.2.2.1
  have hdecomp : (wss₁ ++ (pre ++ w₀ :: post) :: wss₃).flatten
      = (wss₁.flatten ++ pre) ++ w₀ :: (post ++ wss₃.flatten) := by
    simp [List.flatten_append, List.append_assoc]
  have hno : ∀ w' ∈ post ++ wss₃.flatten, ¬ (w'.cell = w₀.cell ∧ w'.idx = w₀.idx) := by
    intro w' hw'
    rcases List.mem_append.mp hw' with hw' | hw'
    · exact fun e => hpostw w' hw' e.1
    · obtain ⟨kv, hkv, ws, ⟨o', _, hi'⟩, hwm⟩ := all₂_inst_mem h3 w' hw'
      obtain ⟨var', _, _, hf⟩ := instanceWrites_mem hi' w' hwm
      intro e
      have hkvmem : kv.1.text ∈ ids := by
        rw [hids]; simp only [List.map_append, List.map_cons, List.mem_append, List.mem_cons, List.mem_map]
        exact Or.inr (Or.inr ⟨kv, hkv, rfl⟩)
      have : ids.idxOf kv.1.text = ids.idxOf idk.text := by rw [← hf.2.1]; exact e.2
      exact hpost kv hkv (idxOf_inj_of_mem hkvmem hidmem this)
  obtain ⟨arr, harr, hl', hv'⟩ := applyWrites_last (wss₁.flatten ++ pre) (post ++ wss₃.flatten) w₀ ids.length buf
    (by intro w hw _; rw [← hdecomp] at hw; exact hsized w hw) hbuf
    (List.idxOf_lt_length_of_mem hidmem) hno
  refine ⟨?_, val, arr, hval, ?_, hl', hv'⟩
  · obtain ⟨var', hv1, he, _⟩ := instanceWrites_mem hi w₀ (List.mem_append_right _ List.mem_cons_self)
    have : sys.var? w₀.var = some var := by
      show sys.var? var.name = some var
      rw [Sys.var?_name hvar]; exact hvar
    rw [this] at hv1; cases hv1; exact he
  · rw [hdecomp]; exact harr

/-- **default elsewhere**, for any entity: where the instances named `id` declare nothing (non-null)
for the variable at the period, the buffered array — if there is one — holds the default -/
theorem entity_value_default {sys : Sys} {entKey : String} {dp : Option String} {ids : List String}
    {proj : List (DKey × Doc) → List (DKey × Doc)} {kvs : List (DKey × Doc)} {wss : List (List Write)}
    (hall : All₂ (InstWrites sys entKey dp ids proj) kvs wss) (hids : ids = kvs.map (fun kv => kv.1.text))
    (id : String) (hid : id ∈ ids) (var : Var) (hvar : sys.var? var.name = some var) (ck : List Char)
    (hnone : ∀ idk o, (idk, Doc.obj o) ∈ kvs → idk.text = id → ∀ vk vd, (vk, vd) ∈ proj o → vk.text = var.name →
      ∀ pvs, variablePairs dp vd = some pvs → ∀ kx ∈ pvs, canonKey kx.1 = .ok ck → kx.2.isNull = true) :
    ∀ arr, alGet (applyWrites [] wss.flatten) (var.name, ck) = some arr →
      arr.length = ids.length ∧ arr[ids.idxOf id]? = some var.default := by
  apply applyWrites_default (var.name, ck) ids.length (ids.idxOf id) var.default wss.flatten []
  · intro w hw _
    obtain ⟨kv, _, ws, ⟨o', _, hi'⟩, hwm⟩ := all₂_inst_mem hall w hw
    obtain ⟨var', _, _, hf⟩ := instanceWrites_mem hi' w hwm
    exact hf.2.2.1
  · intro w hw hc
    obtain ⟨kv, _, ws, ⟨o', _, hi'⟩, hwm⟩ := all₂_inst_mem hall w hw
    obtain ⟨var', hv', _, hf⟩ := instanceWrites_mem hi' w hwm
    have : w.var = var.name := by simpa [Write.cell] using congrArg Prod.fst hc
    rw [this, hvar] at hv'
    cases hv'
    exact hf.2.2.2
  · intro w hw ⟨hc, hidx⟩
    obtain ⟨kv, hkv, ws, ⟨o', ho', hi'⟩, hwm⟩ := all₂_inst_mem hall w hw
    obtain ⟨var', _, _, hf⟩ := instanceWrites_mem hi' w hwm
    have hkvmem : kv.1.text ∈ ids := by rw [hids]; exact List.mem_map.mpr ⟨kv, hkv, rfl⟩
    have hkid : kv.1.text = id := idxOf_inj_of_mem hkvmem hid (by rw [← hf.2.1]; exact hidx)
    obtain ⟨vkd, hvkd, var'', pvs, _, hname, hp, kx, hkx, hnn, hckx⟩ := instanceWrites_origin hi' w hwm
    have hkv' : (kv.1, Doc.obj o') ∈ kvs := by
      have : kv = (kv.1, Doc.obj o') := by
        obtain ⟨k1, d⟩ := kv
        cases d <;> simp [Doc.asObj?] at ho'
        subst ho'; rfl
      rw [← this]; exact hkv
    have hwv : w.var = var.name := by simpa [Write.cell] using congrArg Prod.fst hc
    have hwk : w.key = ck := by simpa [Write.cell] using congrArg Prod.snd hc
    have := hnone kv.1 o' hkv' hkid vkd.1 vkd.2 hvkd (by rw [← hname, hwv]) pvs hp kx hkx (by rw [hckx, hwk])
    rw [this] at hnn; cases hnn
  · exact List.idxOf_lt_length_of_mem hid
  · intro a ha; cases ha

/-- what `padBuffer` does to the array buffered under `k` -/
def padFn (sys : Sys) (key : String) (n : Nat) (k : String × List Char) (a : Vec) : Vec :=
  match sys.var? k.1 with
  | some var => if var.entity = key then a ++ List.replicate (n - a.length) var.default else a
  | none => a

theorem alGet_padBuffer (sys : Sys) (key : String) (n : Nat) (buf : Buffer) (k : String × List Char) :
    alGet (padBuffer sys key n buf) k = (alGet buf k).map (padFn sys key n k) := by
  have : padBuffer sys key n buf = buf.map (fun e => (e.1, padFn sys key n e.1 e.2)) := by
    unfold padBuffer
    apply List.map_congr_left
    intro e _
    obtain ⟨e1, e2⟩ := e
    unfold padFn
    cases hv : sys.var? e1.1 with
    | none => simp only [hv]
    | some var =>
      simp only [hv]
      split
      · rfl
      · rfl
  rw [this]
  exact alGet_map_snd (padFn sys key n) buf k


theorem All₂.imp {α β : Type} {R S : α → β → Prop} (h : ∀ a b, R a b → S a b) {l : List α} {l' : List β}
    (hall : All₂ R l l') : All₂ S l l' := by
  induction hall with
  | nil => exact .nil
  | cons hab _ ih => exact .cons (h _ _ hab) ih

theorem person_instWrites {sys : Sys} {dp : Option String} {ids : List String} {kvs : List (DKey × Doc)}
    {wss : List (List Write)} (hm : mapE (personInstance sys dp ids) kvs = .ok wss) :
    All₂ (InstWrites sys sys.personKey dp ids id) kvs wss :=
  All₂.imp (fun a b h => by obtain ⟨vars, ho, hi⟩ := personInstance_ok h; exact ⟨vars, ho, hi⟩)
    (mapE_forall₂ _ kvs wss hm)

/-! ## respelling period keys: the short form and the variables-only form (round 2) -/

theorem All₂.append {α β : Type} {Rel : α → β → Prop} {l₁ : List α} {l₁' : List β} {l₂ : List α} {l₂' : List β}
    (h₁ : All₂ Rel l₁ l₁') (h₂ : All₂ Rel l₂ l₂') : All₂ Rel (l₁ ++ l₂) (l₁' ++ l₂') := by
  induction h₁ with
  | nil => exact h₂
  | cons hab _ ih => exact .cons hab ih

/-- a top-level entry of a SHORT-form document: under a singular entity key stands ONE instance,
under any other key what a fully specified document holds there -/
def ShortEq (sys : Sys) (a b : DKey × Doc) : Prop :=
  a.1 = b.1 ∧ (if keyIn (sys.singulars.map (·.1)) a.1 = true then InstEq a.2 b.2 else EntEq a.2 b.2)

theorem lookupS_short_rel (sys : Sys) {l l' : List (DKey × Doc)} (h : All₂ (ShortEq sys) l l') (k : String) :
    (lookupS k l = none ∧ lookupS k l' = none) ∨
    ∃ d d', lookupS k l = some d ∧ lookupS k l' = some d' ∧
      (if keyIn (sys.singulars.map (·.1)) (DKey.s k) = true then InstEq d d' else EntEq d d') := by
  induction h with
  | nil => exact Or.inl ⟨rfl, rfl⟩
  | @cons a b l l' hab _ ih =>
    obtain ⟨ka, va⟩ := a
    obtain ⟨kb, vb⟩ := b
    obtain ⟨hk, hv⟩ := hab
    simp only at hk hv
    subst hk
    simp only [lookupS]
    by_cases e : ka = DKey.s k
    · simp only [e, if_true]
      refine Or.inr ⟨va, vb, rfl, rfl, ?_⟩
      rw [e] at hv; exact hv
    · simp only [e, if_false]; exact ih

/-- the entries `plural: {singular: instance}` that `explicit_singular_entities` makes -/
theorem explicit_head_rel (sys : Sys) {l l' : List (DKey × Doc)} (h : All₂ (ShortEq sys) l l') :
    ∀ (sps : List (String × String)), (∀ sp ∈ sps, keyIn (sys.singulars.map (·.1)) (DKey.s sp.1) = true) →
    All₂ TopEq
      (sps.filterMap (fun (sp : String × String) => (lookupS sp.1 l).map (fun d => (DKey.s sp.2, Doc.obj [(DKey.s sp.1, d)]))))
      (sps.filterMap (fun (sp : String × String) => (lookupS sp.1 l').map (fun d => (DKey.s sp.2, Doc.obj [(DKey.s sp.1, d)]))))
  | [], _ => .nil
  | sp :: sps, hs => by
    have ih := explicit_head_rel sys h sps (fun x hx => hs x (List.mem_cons_of_mem _ hx))
    have hsp := hs sp List.mem_cons_self
    rcases lookupS_short_rel sys h sp.1 with ⟨e1, e2⟩ | ⟨d, d', e1, e2, hv⟩
    · simp only [List.filterMap_cons, e1, e2, Option.map_none]; exact ih
    · simp only [List.filterMap_cons, e1, e2, Option.map_some]
      rw [if_pos hsp] at hv
      refine .cons ⟨rfl, Or.inr ⟨_, _, rfl, rfl, .cons ⟨rfl, hv⟩ .nil⟩⟩ ih

/-- the entries `explicit_singular_entities` keeps as they are -/
theorem explicit_tail_rel (sys : Sys) {l l' : List (DKey × Doc)} (h : All₂ (ShortEq sys) l l') :
    All₂ TopEq (l.filter (fun kv => !keyIn (sys.singulars.map (·.1)) kv.1))
      (l'.filter (fun kv => !keyIn (sys.singulars.map (·.1)) kv.1)) := by
  induction h with
  | nil => exact .nil
  | @cons a b l l' hab _ ih =>
    obtain ⟨hk, hv⟩ := hab
    simp only [List.filter_cons, ← hk]
    cases hc : keyIn (sys.singulars.map (·.1)) a.1 with
    | true => simpa using ih
    | false =>
      rw [hc] at hv
      simp only [Bool.false_eq_true, if_false] at hv
      simp only [Bool.not_false, if_true]
      exact .cons ⟨hk, hv⟩ ih

theorem keyIn_singulars_of_mem (sys : Sys) : ∀ sp ∈ sys.singulars, keyIn (sys.singulars.map (·.1)) (DKey.s sp.1) = true := by
  intro sp hsp
  simp only [keyIn, List.contains_eq_mem, List.mem_map, decide_eq_true_eq]
  exact ⟨sp, hsp, rfl⟩

/-- `explicit_singular_entities` turns short-form documents that differ in spelling only into fully
specified documents that differ in spelling only -/
theorem explicitSingular_rel (sys : Sys) {l l' : List (DKey × Doc)} (h : All₂ (ShortEq sys) l l') :
    All₂ TopEq (explicitSingular sys l) (explicitSingular sys l') := by
  unfold explicitSingular
  exact All₂.append (explicit_head_rel sys h sys.singulars (keyIn_singulars_of_mem sys)) (explicit_tail_rel sys h)

/-- the variables-only form: `_person_count` reads the first value of the first variable -/
theorem personCount_congr {l l' : List (DKey × Doc)} (h : All₂ EntryEq l l') : personCount l = personCount l' := by
  cases h with
  | nil => rfl
  | @cons a b l l' hab _ =>
    obtain ⟨ka, va⟩ := a
    obtain ⟨kb, vb⟩ := b
    obtain ⟨_, hv⟩ := hab
    simp only at hv
    rcases hv with e | ⟨kvs, kvs', ea, eb, hall⟩
    · subst e; rfl
    · subst ea; subst eb
      cases hall with
      | nil => rfl
      | @cons p q _ _ hpq _ =>
        obtain ⟨_, x⟩ := p
        obtain ⟨_, y⟩ := q
        have : x = y := hpq.2
        subst this
        rfl

theorem datedStep_congr (sys : Sys) (si : SetInput) (count : Nat) (store : Store) (a b : DKey × Doc)
    (h : EntryEq a b) : datedStep sys si count store a = datedStep sys si count store b := by
  obtain ⟨hk, hv⟩ := h
  rcases hv with e | ⟨kvs, kvs', ea, eb, hall⟩
  · have : a = b := Prod.ext hk e
    rw [this]
  · unfold datedStep
    rw [ea, eb, hk]
    simp only [Doc.asObj?]
    refine foldE_congr _ _ PairEq ?_ kvs kvs' store hall
    intro s x y hxy
    rw [setInputDoc_congr sys si count s b.1 x.1 y.1 x.2 hxy.1, hxy.2]

theorem undatedStep_congr (sys : Sys) (dp : Option String) (si : SetInput) (count : Nat) (store : Store)
    (a b : DKey × Doc) (h : EntryEq a b) :
    undatedStep sys dp si count store a = undatedStep sys dp si count store b := by
  obtain ⟨hk, hv⟩ := h
  rcases hv with e | ⟨kvs, kvs', ea, eb, _⟩
  · have : a = b := Prod.ext hk e
    rw [this]
  · unfold undatedStep
    rw [ea, eb]
    rfl

/-- `build_from_variables` does not see how the period keys are spelt -/
theorem buildFromVariables_congr (sys : Sys) (dp : Option String) (si : SetInput)
    (kvs kvs' : List (DKey × Doc)) (h : All₂ EntryEq kvs kvs') :
    buildFromVariables sys dp si kvs = buildFromVariables sys dp si kvs' := by
  unfold buildFromVariables
  rw [personCount_congr h]
  cases personCount kvs' with
  | error e => rfl
  | ok count =>
    simp only
    rw [foldE_congr _ _ EntryEq (fun s x y hxy => datedStep_congr sys si count s x y hxy) kvs kvs' [] h]
    cases foldE (datedStep sys si count) [] kvs' with
    | error e => rfl
    | ok s1 =>
      simp only
      rw [foldE_congr _ _ EntryEq (fun s x y hxy => undatedStep_congr sys dp si count s x y hxy) kvs kvs' s1 h]

/-- how `build_from_dict` reads the entry under a top-level key, by the shape it recognises in the
keys of the whole document `kvs` (the conditions are those of `buildFromDict`, in its order) -/
def DictEq (sys : Sys) (kvs : List (DKey × Doc)) (a b : DKey × Doc) : Prop :=
  a.1 = b.1 ∧
  (if kvs.any (fun kv => keyIn (sys.singulars.map (·.1)) kv.1) = true then
    (if keyIn (sys.singulars.map (·.1)) a.1 = true then InstEq a.2 b.2 else EntEq a.2 b.2)
  else if (!kvs.isEmpty) = true ∧ kvs.all (fun kv => isEntityKey sys kv.1) = true then EntEq a.2 b.2
  else if kvs.isEmpty = true ∨ kvs.any (fun kv => keyIn (sys.vars.map (·.name)) kv.1) = true then VarDocEq a.2 b.2
  else EntEq a.2 b.2)

/-! ## several parallel axes (round 2) -/

/-- the buffer cell an axis writes: its variable at the canonical text of its period -/
def axisCell (dp : Option String) (a : Axis) : Option (String × List Char) :=
  match axisKey dp a with
  | none => none
  | some k =>
    match canonKey k with
    | .error _ => none
    | .ok ck => some (a.name, ck)

theorem bufferKey_of_not_eternal {sys : Sys} {name : String} (h : isEternal sys name = false) (buf : Buffer)
    (ck : List Char) : bufferKey sys buf name ck = ck := by
  unfold bufferKey; rw [h]; rfl

/-- a successful `layAxis` wrote one cell of its variable and nothing else; for a variable that is
not eternal that cell is the axis' own (`axisCell`) -/
theorem layAxis_frame {sys : Sys} {dp : Option String} {entKey : String} {step cell cnt : Nat} {multi : Bool}
    {coords : List Nat} {buf buf' : Buffer} {a : Axis}
    (h : layAxis sys dp entKey step cell cnt multi coords buf a = .ok buf') :
    ∃ c c₀, axisCell dp a = some c₀ ∧ c.1 = a.name ∧ (isEternal sys a.name = false → c = c₀) ∧
      ∀ k, k ≠ c → alGet buf' k = alGet buf k := by
  unfold layAxis at h
  cases hv : sys.var? a.name with
  | none => rw [hv] at h; cases h
  | some var =>
    rw [hv] at h
    simp only at h
    split at h
    · cases h
    · cases hk : axisKey dp a with
      | none => rw [hk] at h; cases h
      | some k =>
        rw [hk] at h
        simp only at h
        cases hc : canonKey k with
        | error e => rw [hc] at h; cases h
        | ok ck =>
          rw [hc] at h
          simp only at h
          split at h
          · cases h
          · cases hm : mapE (fun c => axisCast var (axisValue a cnt c)) coords with
            | error e => rw [hm] at h; cases h
            | ok vals =>
              rw [hm] at h
              simp only at h
              cases hs : strideSet (axisArray buf (a.name, bufferKey sys buf a.name ck) cell step var.default) a.index step vals with
              | error e => rw [hs] at h; cases h
              | ok arr' =>
                rw [hs] at h
                cases h
                refine ⟨(a.name, bufferKey sys buf a.name ck), (a.name, ck), ?_, rfl, ?_,
                  fun k hk' => alGet_alSet_ne _ _ _ _ hk'⟩
                · simp only [axisCell, hk, hc]
                · intro hne; rw [bufferKey_of_not_eternal hne]

/-! ## the programmatic route: `join_with_persons` (round 2) -/

theorem mapE_getElem? {α β : Type} (f : α → R β) : ∀ (l : List α) (ys : List β), mapE f l = .ok ys →
    ∀ (i : Nat) (a : α), l[i]? = some a → ∃ b, ys[i]? = some b ∧ f a = .ok b
  | [], _, h, i, a, ha => by simp at ha
  | x :: xs, ys, h, i, a, ha => by
    obtain ⟨y, ys', hy, hys, rfl⟩ := mapE_cons_ok f x xs ys h
    cases i with
    | zero =>
      simp only [List.getElem?_cons_zero, Option.some.injEq] at ha
      subst ha
      exact ⟨y, by simp, hy⟩
    | succ i =>
      simp only [List.getElem?_cons_succ] at ha
      obtain ⟨b, hb, hf⟩ := mapE_getElem? f xs ys' hys i a ha
      exact ⟨b, by simpa using hb, hf⟩

end OFCore.Bld
