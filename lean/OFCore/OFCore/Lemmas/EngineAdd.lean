import OFCore.Lemmas.Engine
import OFCore.RuleSys
/-!
# The ADD option: the meaning of a summed read is the sum of the meanings of its pieces

`elabRead … add := true` elaborates `population(w, q, options=[ADD])` to a left-nested sum
`((n₀ + n₁) + n₂) + …` over the nodes of `q.get_subperiods(w.definition_period)`.  Its meaning is
the fold of the binary operation over the meanings of those nodes, in order.
-/
set_option linter.unusedVariables false
namespace OFCore.Engine

variable {P : Type} [DecidableEq P]

/-- meaning of a left-nested chain of binary operations: every operand has a value ⇒ the chain has
    the folded value -/
theorem denE_foldl_op2 (sys : Sys P) (n o : Nat) {α : Type} (node : α → Expr P) (val : α → Val) :
    ∀ (ss : List α) (e0 : Expr P) (x0 : Val), denE sys n e0 = some (.ok x0) →
      (∀ s ∈ ss, denE sys n (node s) = some (.ok (val s))) →
      denE sys n (ss.foldl (fun acc s => .op2 o acc (node s)) e0)
        = some (.ok (ss.foldl (fun acc s => sys.f2 o acc (val s)) x0))
  | [], e0, x0, h0, _ => by simpa using h0
  | s :: ss, e0, x0, h0, hs => by
    simp only [List.foldl_cons]
    apply denE_foldl_op2 sys n o node val ss
    · have h1 := hs s (by simp)
      simp only [denE, h0, h1]
    · intro t ht; exact hs t (by simp [ht])

/-- … and the first operand that fails makes the whole chain fail with its error -/
theorem denE_foldl_op2_error (sys : Sys P) (n o : Nat) {α : Type} (node : α → Expr P) :
    ∀ (ss : List α) (e0 : Expr P) (er : Err), denE sys n e0 = some (.error er) →
      (∀ s ∈ ss, ∃ r, denE sys n (node s) = some r) →
      denE sys n (ss.foldl (fun acc s => .op2 o acc (node s)) e0) = some (.error er)
  | [], e0, er, h0, _ => by simpa using h0
  | s :: ss, e0, er, h0, hs => by
    simp only [List.foldl_cons]
    apply denE_foldl_op2_error sys n o node ss
    · simp only [denE, h0]
    · intro t ht; exact hs t (by simp [ht])

end OFCore.Engine
