import OFCore.Lemmas.Calendar
/-!
# Date arithmetic lemmas: `addDays`, `addMonths`, order, ISO weeks
-/
namespace OFCore

theorem dby_nonneg (y : Int) (h : 1 ≤ y) : 0 ≤ dby y := by unfold dby; omega

theorem ord_pos (c : Date) (hv : c.Valid) : 1 ≤ ord c := by
  have := (ord_bounds c hv).1
  have := dby_nonneg c.y hv.1
  omega

theorem ord_addDays (c : Date) (n : Int) (h : 1 ≤ ord c + n) : ord (addDays c n) = ord c + n :=
  ord_ofOrd _ h

theorem addDays_valid (c : Date) (n : Int) (h : 1 ≤ ord c + n) : (addDays c n).Valid :=
  ofOrd_valid _ h

theorem lt_iff_ord_lt (a b : Date) (ha : a.Valid) (hb : b.Valid) : a.lt b ↔ ord a < ord b := by
  constructor
  · exact ord_lt_of_lex a b ha hb
  · intro h
    by_cases hab : a.lt b
    · exact hab
    · exfalso
      by_cases he : a = b
      · subst he; omega
      · have : b.lt a := by
          unfold Date.lt at hab ⊢
          have : ¬ (a.y = b.y ∧ a.m = b.m ∧ a.d = b.d) := by
            intro ⟨h1, h2, h3⟩; apply he; cases a; cases b; simp_all
          omega
        have := ord_lt_of_lex b a hb ha this
        omega

theorem le_iff_ord_le (a b : Date) (ha : a.Valid) (hb : b.Valid) : a.le b ↔ ord a ≤ ord b := by
  unfold Date.le
  constructor
  · rintro (h | h)
    · subst h; omega
    · have := (lt_iff_ord_lt a b ha hb).1 h; omega
  · intro h
    by_cases he : ord a = ord b
    · left; exact ord_inj a b ha hb he
    · right; exact (lt_iff_ord_lt a b ha hb).2 (by omega)

theorem dim_ge (y m : Int) : 28 ≤ dim y m := by
  unfold dim; split <;> split <;> omega

theorem dim_le (y m : Int) : dim y m ≤ 31 := by
  unfold dim; split <;> split <;> omega

/-- the (year, month) pair of `addMonths` as month count -/
theorem addMonths_ym (c : Date) (n : Int) :
    (addMonths c n).y * 12 + ((addMonths c n).m - 1) = c.y * 12 + (c.m - 1) + n ∧
    1 ≤ (addMonths c n).m ∧ (addMonths c n).m ≤ 12 := by
  simp only [addMonths]; omega

theorem addMonths_valid (c : Date) (n : Int) (hv : c.Valid) (hy : 1 ≤ (addMonths c n).y) :
    (addMonths c n).Valid := by
  obtain ⟨_, _, _, hd1, _⟩ := hv
  have h := addMonths_ym c n
  refine ⟨hy, h.2.1, h.2.2, ?_, ?_⟩
  · simp only [addMonths]; have := dim_ge ((c.y * 12 + (c.m - 1) + n) / 12) ((c.y * 12 + (c.m - 1) + n) % 12 + 1); omega
  · simp only [addMonths]; omega

theorem addMonths_first (c : Date) (n : Int) (hd : c.d = 1) :
    addMonths c n = ⟨(c.y * 12 + (c.m - 1) + n) / 12, (c.y * 12 + (c.m - 1) + n) % 12 + 1, 1⟩ := by
  simp only [addMonths, hd]
  have := dim_ge ((c.y * 12 + (c.m - 1) + n) / 12) ((c.y * 12 + (c.m - 1) + n) % 12 + 1)
  congr 1; omega

theorem addMonths_zero (c : Date) (hv : c.Valid) : addMonths c 0 = c := by
  obtain ⟨_, hm1, hm12, hd1, hdd⟩ := hv
  simp only [addMonths]
  have e1 : (c.y * 12 + (c.m - 1) + 0) / 12 = c.y := by omega
  have e2 : (c.y * 12 + (c.m - 1) + 0) % 12 + 1 = c.m := by omega
  rw [e1, e2]
  cases c; simp only [Date.mk.injEq, true_and]; simp only at hdd; omega

theorem addMonths_addMonths_first (c : Date) (a b : Int) (hd : c.d = 1) :
    addMonths (addMonths c a) b = addMonths c (a + b) := by
  rw [addMonths_first c a hd, addMonths_first c (a + b) hd, addMonths_first _ b rfl]
  simp only
  congr 1 <;> omega

theorem addMonths_lt (c : Date) (n : Int) (hv : c.Valid) (hn : 1 ≤ n) : ord c < ord (addMonths c n) := by
  have h := addMonths_ym c n
  have hy : 1 ≤ (addMonths c n).y := by have := hv.1; have := hv.2.1; have := hv.2.2.1; omega
  apply ord_lt_of_lex c _ hv (addMonths_valid c n hv hy)
  have := hv.2.1; have := hv.2.2.1
  omega

theorem dbm_succ_tbl : ∀ leap : Bool, ∀ m : Fin 12, 1 ≤ m.val →
    dbm leap ((m.val : Int) + 1) = dbm leap m.val + dimL leap m.val := by
  decide +kernel

theorem dbm_succ (leap : Bool) (m : Int) (h1 : 1 ≤ m) (h11 : m ≤ 11) :
    dbm leap (m + 1) = dbm leap m + dimL leap m := by
  have := dbm_succ_tbl leap ⟨m.toNat, by omega⟩ (by simp; omega)
  have e : ((m.toNat : Nat) : Int) = m := by omega
  simpa [e] using this

theorem dbm_12 (leap : Bool) : dbm leap 12 + dimL leap 12 = (if leap then 366 else 365) := by
  cases leap <;> decide

/-- the first of next month is `dim` days later -/
theorem ord_addMonths_one (c : Date) (hv : c.Valid) (hd : c.d = 1) :
    ord (addMonths c 1) = ord c + dim c.y c.m := by
  obtain ⟨_, hm1, hm12, _, _⟩ := hv
  rw [addMonths_first c 1 hd]
  by_cases h12 : c.m = 12
  · have e1 : (c.y * 12 + (c.m - 1) + 1) / 12 = c.y + 1 := by omega
    have e2 : (c.y * 12 + (c.m - 1) + 1) % 12 + 1 = 1 := by omega
    rw [e1, e2]
    simp only [ord, hd, h12]
    rw [dby_succ, dim_eq]
    have := dbm_12 (isLeap c.y)
    have h1 : ∀ l, dbm l 1 = 0 := by intro l; cases l <;> decide
    rw [h1]
    split <;> simp_all <;> omega
  · have e1 : (c.y * 12 + (c.m - 1) + 1) / 12 = c.y := by omega
    have e2 : (c.y * 12 + (c.m - 1) + 1) % 12 + 1 = c.m + 1 := by omega
    rw [e1, e2]
    simp only [ord, hd]
    rw [dbm_succ _ c.m hm1 (by omega), dim_eq]
    omega

/-- end of month is a valid date and the day before the first of next month -/
theorem ord_endOfMonth (c : Date) (hv : c.Valid) :
    ord (endOfMonth c) = ord ⟨c.y, c.m, 1⟩ + dim c.y c.m - 1 := by
  simp only [endOfMonth, ord]; omega

theorem weekday0_range (o : Int) : 0 ≤ weekday0 o ∧ weekday0 o ≤ 6 := by
  unfold weekday0; omega

theorem ord_startOfWeek (c : Date) (hv : c.Valid) (h : 1 ≤ ord c - weekday0 (ord c)) :
    ord (startOfWeek c) = ord c - weekday0 (ord c) := ord_ofOrd _ h

theorem weekday0_startOfWeek (c : Date) (hv : c.Valid) (h : 1 ≤ ord c - weekday0 (ord c)) :
    weekday0 (ord (startOfWeek c)) = 0 := by
  rw [ord_startOfWeek c hv h]; unfold weekday0; omega

end OFCore
