import OFCore.AddDivide
import OFCore.Props.C04
/-! # Lemmas for plain / ADD / DIVIDE requests (C03) -/
set_option linter.unusedSimpArgs false
namespace OFCore

/-! ## the generated tables -/

theorem isDated_iff (u : DUnit) : isDated u = true ↔ u ≠ .eternity := by
  cases u <;> decide +kernel

theorem isDated_false_iff (u : DUnit) : (!isDated u) = true ↔ u = .eternity := by
  cases u <;> decide +kernel

/-! ## `mapM` in `Except` -/

theorem mapM_ok_map {α β} (f : α → Except String β) (g : α → β) :
    ∀ l : List α, (∀ x ∈ l, f x = .ok (g x)) → l.mapM f = .ok (l.map g) := by
  intro l
  induction l with
  | nil => intro _; rfl
  | cons a l ih =>
    intro h
    simp only [List.mapM_cons]
    rw [h a (List.mem_cons_self), ih (fun x hx => h x (List.mem_cons_of_mem _ hx))]
    rfl

theorem mapM_total {α β} (f : α → Except String β) :
    ∀ l : List α, (∀ x ∈ l, ∃ y, f x = .ok y) → ∃ ys, l.mapM f = .ok ys := by
  intro l
  induction l with
  | nil => intro _; exact ⟨[], rfl⟩
  | cons a l ih =>
    intro h
    obtain ⟨y, hy⟩ := h a (List.mem_cons_self)
    obtain ⟨ys, hys⟩ := ih (fun x hx => h x (List.mem_cons_of_mem _ hx))
    refine ⟨y :: ys, ?_⟩
    simp only [List.mapM_cons]
    rw [hy, hys]
    rfl

theorem mapM_ok_mem {α β} (f : α → Except String β) :
    ∀ (l : List α) (ys : List β), l.mapM f = .ok ys →
      ys.length = l.length ∧ ∀ y ∈ ys, ∃ x ∈ l, f x = .ok y := by
  intro l
  induction l with
  | nil =>
    intro ys h
    simp only [List.mapM_nil, pure, Except.pure] at h
    injection h with h; subst h
    exact ⟨rfl, by intro y hy; cases hy⟩
  | cons a l ih =>
    intro ys h
    simp only [List.mapM_cons] at h
    cases ha : f a with
    | error e => rw [ha] at h; cases h
    | ok y =>
      rw [ha] at h
      simp only [bind, Except.bind] at h
      cases hl : l.mapM f with
      | error e => rw [hl] at h; cases h
      | ok ys' =>
        rw [hl] at h
        simp only [pure, Except.pure] at h
        injection h with h; subst h
        obtain ⟨hlen, hmem⟩ := ih ys' hl
        refine ⟨by simp only [List.length_cons, hlen], ?_⟩
        intro z hz
        rcases List.mem_cons.1 hz with rfl | hz
        · exact ⟨a, List.mem_cons_self, ha⟩
        · obtain ⟨x, hx, hfx⟩ := hmem z hz
          exact ⟨x, List.mem_cons_of_mem _ hx, hfx⟩

/-! ## the plain request -/

theorem checkPeriodConsistency_ok (u : DUnit) (p : Period)
    (h : u = .eternity ∨ (p.unit = u ∧ p.size = 1)) : checkPeriodConsistency u p = .ok () := by
  unfold checkPeriodConsistency
  rcases h with h | ⟨h1, h2⟩
  · rw [if_pos h]
  · subst h1
    cases hp : p.unit <;> simp [h2]

theorem checkPeriodConsistency_err (u : DUnit) (p : Period)
    (hu : u ≠ .eternity) (h : p.unit ≠ u ∨ p.size ≠ 1) : ∃ e, checkPeriodConsistency u p = .error e := by
  unfold checkPeriodConsistency
  rw [if_neg hu]
  by_cases hpu : p.unit = u
  · have hs : p.size ≠ 1 := by
      rcases h with h | h
      · exact absurd hpu h
      · exact h
    subst hpu
    cases hp : p.unit <;> simp [hs] <;> exact absurd hp hu
  · cases u
    · rw [if_neg (by simp), if_neg (by simp), if_neg (by simp), if_neg (by simp), if_pos ⟨rfl, hpu⟩]; exact ⟨_, rfl⟩
    · rw [if_neg (by simp), if_neg (by simp), if_pos ⟨rfl, hpu⟩]; exact ⟨_, rfl⟩
    · rw [if_neg (by simp), if_neg (by simp), if_neg (by simp), if_pos ⟨rfl, hpu⟩]; exact ⟨_, rfl⟩
    · rw [if_neg (by simp), if_pos ⟨rfl, hpu⟩]; exact ⟨_, rfl⟩
    · rw [if_pos ⟨rfl, hpu⟩]; exact ⟨_, rfl⟩
    · exact absurd rfl hu

/-- once the consistency check has passed, the holder's own period check cannot fire -/
theorem holderStoreCheck_ok (u : DUnit) (p : Period)
    (h : u = .eternity ∨ (p.unit = u ∧ p.size = 1)) : holderStoreCheck u p = .ok () := by
  unfold holderStoreCheck
  rcases h with h | ⟨h1, h2⟩
  · rw [if_pos h]
  · by_cases hu : u = .eternity
    · rw [if_pos hu]
    · rw [if_neg hu, if_neg (by rw [h1, h2]; simp)]

theorem calcPlain_ok (val : Period → Int) (store : Bool) (u : DUnit) (p : Period)
    (h : u = .eternity ∨ (p.unit = u ∧ p.size = 1)) : calcPlain val store u p = .ok (val p) := by
  unfold calcPlain
  rw [checkPeriodConsistency_ok u p h]
  cases store
  · rfl
  · simp only [bind, Except.bind, if_true]
    rw [holderStoreCheck_ok u p h]

theorem calcPlain_err (val : Period → Int) (store : Bool) (u : DUnit) (p : Period)
    (hu : u ≠ .eternity) (h : p.unit ≠ u ∨ p.size ≠ 1) : ∃ e, calcPlain val store u p = .error e := by
  obtain ⟨e, he⟩ := checkPeriodConsistency_err u p hu h
  exact ⟨e, by unfold calcPlain; rw [he]; rfl⟩

/-! ## sub-periods always have the requested unit and size one -/

theorem offsetsFrom_units (b : Period) (u : DUnit) (n : Int) (qs : List Period)
    (h : offsetsFrom b u n = .ok qs) :
    qs.length = n.toNat ∧ ∀ q ∈ qs, q.unit = b.unit ∧ q.size = b.size := by
  unfold offsetsFrom at h
  obtain ⟨hlen, hmem⟩ := mapM_ok_mem _ _ _ h
  refine ⟨by rw [hlen, List.length_range], ?_⟩
  intro q hq
  obtain ⟨i, _, hi⟩ := hmem q hq
  obtain ⟨_, hqe⟩ := offset_n_ok _ _ _ _ hi
  rw [hqe]; exact ⟨rfl, rfl⟩

theorem thisYear_shape (p q : Period) (h : p.thisYear = .ok q) : q.unit = .year ∧ q.size = 1 := by
  unfold Period.thisYear at h
  cases hr : instOffset p.start .firstOf .year with
  | error e => rw [hr] at h; cases h
  | ok r =>
    rw [hr] at h; simp only [bind, Except.bind] at h
    cases r with
    | none => cases h
    | some s => injection h with h; rw [← h]; exact ⟨rfl, rfl⟩

theorem firstMonth_shape (p q : Period) (h : p.firstMonth = .ok q) : q.unit = .month ∧ q.size = 1 := by
  unfold Period.firstMonth at h
  cases hr : instOffset p.start .firstOf .month with
  | error e => rw [hr] at h; cases h
  | ok r =>
    rw [hr] at h; simp only [bind, Except.bind] at h
    cases r with
    | none => cases h
    | some s => injection h with h; rw [← h]; exact ⟨rfl, rfl⟩

theorem firstWeek_shape (p q : Period) (h : p.firstWeek = .ok q) : q.unit = .week ∧ q.size = 1 := by
  unfold Period.firstWeek at h
  cases hr : instOffset p.start .firstOf .week with
  | error e => rw [hr] at h; cases h
  | ok r =>
    rw [hr] at h; simp only [bind, Except.bind] at h
    cases r with
    | none => cases h
    | some s => injection h with h; rw [← h]; exact ⟨rfl, rfl⟩

/-- every piece `get_subperiods` returns has the requested unit and size one; their number is
    the size of the period in that unit -/
theorem subperiods_units (p : Period) (u : DUnit) (qs : List Period) (h : p.subperiods u = .ok qs) :
    ∀ q ∈ qs, q.unit = u ∧ q.size = 1 := by
  unfold Period.subperiods at h
  split at h
  · cases h
  · cases u <;> simp only at h
    · cases hn : p.sizeInWeekdays with
      | error e => rw [hn] at h; cases h
      | ok n =>
        rw [hn] at h; simp only [bind, Except.bind] at h
        exact (offsetsFrom_units _ _ _ _ h).2
    · cases hb : p.firstWeek with
      | error e => rw [hb] at h; cases h
      | ok b =>
        rw [hb] at h; simp only [bind, Except.bind] at h
        cases hn : p.sizeInWeeks with
        | error e => rw [hn] at h; cases h
        | ok n =>
          rw [hn] at h; simp only at h
          have := firstWeek_shape p b hb
          intro q hq
          have := (offsetsFrom_units _ _ _ _ h).2 q hq
          simp_all
    · cases hn : p.sizeInDays with
      | error e => rw [hn] at h; cases h
      | ok n =>
        rw [hn] at h; simp only [bind, Except.bind] at h
        exact (offsetsFrom_units _ _ _ _ h).2
    · cases hb : p.firstMonth with
      | error e => rw [hb] at h; cases h
      | ok b =>
        rw [hb] at h; simp only [bind, Except.bind] at h
        cases hn : p.sizeInMonths with
        | error e => rw [hn] at h; cases h
        | ok n =>
          rw [hn] at h; simp only at h
          have := firstMonth_shape p b hb
          intro q hq
          have := (offsetsFrom_units _ _ _ _ h).2 q hq
          simp_all
    · cases hb : p.thisYear with
      | error e => rw [hb] at h; cases h
      | ok b =>
        rw [hb] at h; simp only [bind, Except.bind] at h
        have := thisYear_shape p b hb
        intro q hq
        have := (offsetsFrom_units _ _ _ _ h).2 q hq
        simp_all
    · cases h

/-! ## ADD -/

theorem calcAdd_guard_weight (val : Period → Int) (store : Bool) (u : DUnit) (p : Period)
    (h : unitWeight u > unitWeight p.unit) : ∃ e, calcAdd val store u p = .error e := by
  unfold calcAdd; rw [if_pos h]; exact ⟨_, rfl⟩

theorem calcAdd_guard_eternal_variable (val : Period → Int) (store : Bool) (p : Period) :
    ∃ e, calcAdd val store .eternity p = .error e := by
  unfold calcAdd
  split
  · exact ⟨_, rfl⟩
  · rw [if_pos ((isDated_false_iff _).2 rfl)]; exact ⟨_, rfl⟩

theorem calcAdd_guard_eternal_period (val : Period → Int) (store : Bool) (u : DUnit) (p : Period)
    (h : p.unit = .eternity) : ∃ e, calcAdd val store u p = .error e := by
  unfold calcAdd
  split
  · exact ⟨_, rfl⟩
  · split
    · exact ⟨_, rfl⟩
    · rw [if_pos ((isDated_false_iff _).2 h)]; exact ⟨_, rfl⟩

/-- past the three guards, ADD is the sum of the variable over the pieces of `get_subperiods` -/
theorem calcAdd_pass (val : Period → Int) (store : Bool) (u : DUnit) (p : Period)
    (hw : ¬ unitWeight u > unitWeight p.unit) (hu : u ≠ .eternity) (hp : p.unit ≠ .eternity) :
    calcAdd val store u p =
      match p.subperiods u with
      | .ok qs => .ok (qs.map val).sum
      | .error e => .error e := by
  unfold calcAdd
  rw [if_neg hw, if_neg (by rw [isDated_false_iff]; exact hu), if_neg (by rw [isDated_false_iff]; exact hp)]
  cases hq : p.subperiods u with
  | error e => rfl
  | ok qs =>
    simp only [bind, Except.bind]
    have hm := mapM_ok_map (calcPlain val store u) val qs (fun q hq' =>
      calcPlain_ok val store u q (Or.inr (subperiods_units p u qs hq q hq')))
    rw [hm]

/-! ## DIVIDE -/

theorem calcDivide_guard (val : Period → Int) (store : Bool) (u : DUnit) (p : Period)
    (h : unitWeight u < unitWeight p.unit ∨ p.size ≠ 1 ∨ u = .eternity ∨ p.unit = .eternity) :
    ∃ e, calcDivide val store u p = .error e := by
  unfold calcDivide
  split
  · exact ⟨_, rfl⟩
  · rename_i h1
    split
    · exact ⟨_, rfl⟩
    · rename_i h2
      split
      · exact ⟨_, rfl⟩
      · rename_i h3
        exfalso
        rcases h with h | h | h | h
        · exact h1 (Or.inl h)
        · exact h3 (Or.inr h)
        · exact h2 ((isDated_false_iff _).2 h)
        · exact h3 (Or.inl ((isDated_false_iff _).2 h))

theorem enclosing_shape (u : DUnit) (hu : u ≠ .eternity) (p c : Period) (h : enclosing u p = .ok c) :
    c.unit = u ∧ c.size = 1 := by
  cases u <;> simp only [enclosing] at h
  · injection h with h; rw [← h]; exact ⟨rfl, rfl⟩
  · exact firstWeek_shape p c h
  · injection h with h; rw [← h]; exact ⟨rfl, rfl⟩
  · exact firstMonth_shape p c h
  · exact thisYear_shape p c h
  · exact absurd rfl hu

/-- past the guards, DIVIDE is the value for the enclosing definition period over the
    denominator -/
theorem calcDivide_pass (val : Period → Int) (store : Bool) (u : DUnit) (p : Period)
    (hw : ¬ unitWeight u < unitWeight p.unit) (hs : p.size = 1) (hu : u ≠ .eternity)
    (hp : p.unit ≠ .eternity) :
    calcDivide val store u p =
      match enclosing u p with
      | .error e => .error e
      | .ok c =>
        match denominator p.unit c with
        | .error e => .error e
        | .ok n => .ok ((val c : Rat) / (n : Rat)) := by
  unfold calcDivide
  rw [if_neg (by rw [hs]; simp; exact Int.not_lt.mp hw),
    if_neg (by rw [isDated_false_iff]; exact hu),
    if_neg (by rw [isDated_false_iff, hs]; simp; exact hp)]
  cases hc : enclosing u p with
  | error e => rfl
  | ok c =>
    simp only [bind, Except.bind]
    cases hn : denominator p.unit c with
    | error e => rfl
    | ok n =>
      simp only
      rw [calcPlain_ok val store u c (Or.inr (enclosing_shape u hu p c hc))]


/-! ## totality inside pendulum's calendar (years 1..9999) -/

/-- away from the two ends of the calendar: the week containing the first day begins in year
    1 or later, and the year containing the last day ends before year 9999 -/
def Period.InRange (p : Period) : Prop := 7 ≤ p.lo ∧ p.hi ≤ ord ⟨9998, 12, 31⟩

instance (p : Period) : Decidable p.InRange := by unfold Period.InRange; infer_instance

theorem ord_9998 : ord ⟨9998, 12, 31⟩ = dby 9999 := by decide +kernel
theorem dby_9999 : dby 9999 = 3651694 := by decide +kernel
theorem dby_10000 : dby 10000 = 3652059 := by decide +kernel

theorem dby_mono (a b : Int) (h : a ≤ b) : dby a ≤ dby b := by
  rcases Int.lt_or_eq_of_le h with h | h
  · have := dby_lt a b h; omega
  · rw [h]; exact Int.le_refl _

theorem year_le_of_ord_le (c : Date) (hv : c.Valid) (Y : Int) (h : ord c ≤ dby (Y + 1)) : c.y ≤ Y := by
  by_cases hc : c.y ≤ Y
  · exact hc
  · have h1 : Y + 1 ≤ c.y := by omega
    have := dby_mono _ _ h1
    have := (ord_bounds c hv).1
    omega

theorem ord_le_of_year_le (c : Date) (hv : c.Valid) (Y : Int) (h : c.y ≤ Y) : ord c ≤ dby (Y + 1) := by
  have h2 := (ord_bounds c hv).2
  have h3 := dby_succ c.y
  have h4 := dby_mono (c.y + 1) (Y + 1) (by omega)
  split at h2 <;> simp_all <;> omega

theorem dateOk_of (c : Date) (hv : c.Valid) (hy : c.y ≤ 9999) : dateOk c = true :=
  (dateOk_iff c).2 ⟨hv, hy⟩

theorem chk_of (c : Date) (h1 : 1 ≤ c.y) (h2 : c.y ≤ 9999) : chk c = .ok c := by
  unfold chk; rw [if_pos ⟨h1, h2⟩]

/-- a valid date whose ordinal is at most that of 31 December 9999 passes `chk` / `dateOk` -/
theorem year_ok (c : Date) (hv : c.Valid) (h : ord c ≤ 3652059) : 1 ≤ c.y ∧ c.y ≤ 9999 :=
  ⟨hv.1, year_le_of_ord_le c hv 9999 (by rw [show (9999 : Int) + 1 = 10000 by rfl, dby_10000]; exact h)⟩

theorem instOffset_n_total (c : Date) (k : Int) (u : DUnit) (hv : c.Valid) (hy : c.y ≤ 9999)
    (hu : u ≠ .eternity) (h1 : 1 ≤ (shiftDate c k u).y) (h2 : (shiftDate c k u).y ≤ 9999) :
    instOffset c (.n k) u = .ok (some (shiftDate c k u)) := by
  unfold instOffset
  rw [if_neg hu]
  simp only [dateOk_of c hv hy, Bool.not_true, Bool.false_eq_true, if_false]
  cases u <;> simp only [shiftDate] at h1 h2 ⊢
  · rw [chk_of _ h1 h2]; rfl
  · rw [chk_of _ h1 h2]; rfl
  · rw [chk_of _ h1 h2]; rfl
  · rw [chk_of _ h1 h2]; rfl
  · rw [chk_of _ h1 h2]; rfl
  · exact absurd rfl hu

theorem offset_n_total (b : Period) (k : Int) (u : DUnit) (hv : b.start.Valid) (hy : b.start.y ≤ 9999)
    (hu : u ≠ .eternity) (h1 : 1 ≤ (shiftDate b.start k u).y) (h2 : (shiftDate b.start k u).y ≤ 9999) :
    b.offset (.n k) (some u) = .ok ⟨b.unit, shiftDate b.start k u, b.size⟩ := by
  unfold Period.offset
  simp only [Option.getD_some]
  rw [instOffset_n_total _ _ _ hv hy hu h1 h2]
  rfl

theorem offsetsFrom_total (b : Period) (u : DUnit) (n : Int) (hv : b.start.Valid) (hy : b.start.y ≤ 9999)
    (hu : u ≠ .eternity)
    (hb : ∀ i : Nat, (i : Int) < n → 1 ≤ (shiftDate b.start i u).y ∧ (shiftDate b.start i u).y ≤ 9999) :
    ∃ qs, offsetsFrom b u n = .ok qs := by
  unfold offsetsFrom
  apply mapM_total
  intro i hi
  have hi' : i < n.toNat := List.mem_range.1 hi
  have hlt : (i : Int) < n := by omega
  obtain ⟨h1, h2⟩ := hb i hlt
  exact ⟨_, offset_n_total b (Int.ofNat i) u hv hy hu h1 h2⟩

/-- day shifts that stay at or before 31 December 9999 -/
theorem addDays_year_ok (s : Date) (hv : s.Valid) (k : Int) (h0 : 0 ≤ k) (h : ord s + k ≤ 3652059) :
    1 ≤ (addDays s k).y ∧ (addDays s k).y ≤ 9999 := by
  have h1 := ord_pos _ hv
  exact year_ok _ (addDays_valid _ _ (by omega)) (by rw [ord_addDays _ _ (by omega)]; exact h)

theorem addMonths_year (c : Date) (n : Int) : (addMonths c n).y = (c.y * 12 + (c.m - 1) + n) / 12 := rfl



theorem addDays_year_ok_neg (s : Date) (_hv : s.Valid) (h0 : 1 ≤ ord s + -1) (h : ord s + -1 ≤ 3652059) :
    1 ≤ (shiftDate s (-1) .day).y ∧ (shiftDate s (-1) .day).y ≤ 9999 := by
  simp only [shiftDate]
  exact year_ok _ (addDays_valid _ _ h0) (by rw [ord_addDays _ _ h0]; exact h)

theorem dbm_leap_tbl : ∀ l l' : Bool, ∀ m : Fin 13, dbm l m.val ≤ dbm l' m.val + 1 := by
  decide +kernel

theorem dbm_leap_diff (l l' : Bool) (m : Int) (h1 : 1 ≤ m) (h12 : m ≤ 12) : dbm l m ≤ dbm l' m + 1 := by
  have := dbm_leap_tbl l l' ⟨m.toNat, by omega⟩
  have e : ((m.toNat : Nat) : Int) = m := by omega
  simpa [e] using this

/-- a year period covers at least a week (in fact at least 334 days) -/
theorem year_length_ge (p : Period) (hp : p.WF) (hu : p.unit = .year) : 334 ≤ p.hi - p.lo + 1 := by
  obtain ⟨hne, hv, hs⟩ := hp
  have hym := addMonths_ym p.start (12 * p.size)
  have hm1 := hv.2.1; have hm2 := hv.2.2.1; have hy := hv.1
  have ey : (addMonths p.start (12 * p.size)).y = p.start.y + p.size := by omega
  have em : (addMonths p.start (12 * p.size)).m = p.start.m := by omega
  have hva : (addMonths p.start (12 * p.size)).Valid := addMonths_valid _ _ hv (by omega)
  have hd1 := hva.2.2.2.1
  have hd2 := hv.2.2.2.2
  have hdim := dim_le p.start.y p.start.m
  have hdb := dby_lt p.start.y (p.start.y + p.size) (by omega)
  have hdm := dbm_leap_diff (isLeap p.start.y) (isLeap (p.start.y + p.size)) p.start.m hm1 hm2
  unfold Period.hi Period.lo
  simp only [hu]
  simp only [ord, ey, em]
  omega

/-! ## sizes of a representable period -/

theorem afterDate_eq_shift (p : Period) (_hne : p.unit ≠ .eternity) :
    p.afterDate = shiftDate p.start p.size p.unit := by
  unfold Period.afterDate
  cases hp : p.unit <;> simp only [shiftDate]

theorem range_facts (p : Period) (hp : p.WF) (hr : p.hi + 1 ≤ 3652059) :
    p.start.y ≤ 9999 ∧ p.afterDate.Valid ∧ ord p.afterDate = p.hi + 1 ∧
      1 ≤ p.afterDate.y ∧ p.afterDate.y ≤ 9999 := by
  have hlo := lo_le_hi p hp
  have hhi := hi_eq p hp
  obtain ⟨hne, hv, hs⟩ := hp
  have hav : p.afterDate.Valid := by
    rw [afterDate_eq_shift p hne]; exact shiftDate_valid _ hv _ (by omega) _
  have hao : ord p.afterDate = p.hi + 1 := by omega
  have hy := year_ok _ hv (by unfold Period.lo at hlo; omega)
  have ha := year_ok _ hav (by omega)
  exact ⟨hy.2, hav, hao, ha.1, ha.2⟩

theorem spanDays_total (p : Period) (hp : p.WF) (hu : p.unit = .year ∨ p.unit = .month)
    (hr : p.hi + 1 ≤ 3652059) : p.spanDays = .ok (p.hi - p.lo + 1) := by
  obtain ⟨hy, hav, hao, ha1, ha2⟩ := range_facts p hp hr
  have hlo := lo_le_hi p hp
  have hne := hp.1
  have hv := hp.2.1
  have h1 := ord_pos _ hv
  have hlo' : p.lo = ord p.start := rfl
  have e1 : instOffset p.start (.n p.size) p.unit = .ok (some p.afterDate) := by
    rw [afterDate_eq_shift p hne]
    exact instOffset_n_total _ _ _ hv hy hne (by rw [← afterDate_eq_shift p hne]; exact ha1)
      (by rw [← afterDate_eq_shift p hne]; exact ha2)
  have hd := addDays_year_ok_neg p.afterDate hav (by omega) (by omega)
  have e2 : instOffset p.afterDate (.n (-1)) .day = .ok (some (addDays p.afterDate (-1))) :=
    instOffset_n_total _ _ _ hav ha2 (by decide) hd.1 hd.2
  have : ∃ k, p.spanDays = .ok k := by
    unfold Period.spanDays
    rw [e1]; simp only [bind, Except.bind]
    rw [e2]
    exact ⟨_, rfl⟩
  obtain ⟨k, hk⟩ := this
  rw [hk, spanDays_spec p hp hu k hk]

theorem sizeInDays_total (p : Period) (hp : p.WF) (hr : p.hi + 1 ≤ 3652059) :
    p.sizeInDays = .ok (p.hi - p.lo + 1) := by
  have hne := hp.1
  unfold Period.sizeInDays
  cases hu : p.unit <;> simp only
  · congr 1; unfold Period.hi Period.lo; simp only [hu]; omega
  · congr 1; unfold Period.hi Period.lo; simp only [hu]; omega
  · congr 1; unfold Period.hi Period.lo; simp only [hu]; omega
  · exact spanDays_total p hp (Or.inr hu) hr
  · exact spanDays_total p hp (Or.inl hu) hr
  · exact absurd hu hne

/-- `size_in_weeks`: the number of whole weeks in the period -/
theorem sizeInWeeks_total (p : Period) (hp : p.WF) (hr : p.hi + 1 ≤ 3652059)
    (hu : p.unit = .week ∨ p.unit = .month ∨ p.unit = .year) :
    p.sizeInWeeks = .ok ((p.hi - p.lo + 1) / 7) := by
  obtain ⟨hy, hav, hao, ha1, ha2⟩ := range_facts p hp hr
  have hlo := lo_le_hi p hp
  have hv := hp.2.1
  have hlo' : p.lo = ord p.start := rfl
  have hin : inWeeks p.start p.afterDate = (p.hi - p.lo + 1) / 7 := by
    unfold inWeeks
    simp only
    rw [if_neg (by omega)]
    congr 1; omega
  unfold Period.sizeInWeeks
  rcases hu with hu | hu | hu
  · simp only [hu]
    congr 1; unfold Period.hi Period.lo; simp only [hu]; omega
  · have ea : p.afterDate = addMonths p.start p.size := by unfold Period.afterDate; simp only [hu]
    simp only [hu]
    rw [if_pos (dateOk_of _ hv hy), ← ea, chk_of _ ha1 ha2]
    simp only [bind, Except.bind]
    rw [hin]
  · have ea : p.afterDate = addMonths p.start (12 * p.size) := by unfold Period.afterDate; simp only [hu]
    simp only [hu]
    rw [if_pos (dateOk_of _ hv hy), ← ea, chk_of _ ha1 ha2]
    simp only [bind, Except.bind]
    rw [hin]

/-- `size_in_weekdays` never exceeds the number of days (it is smaller for year periods:
    7 × the number of whole weeks) -/
theorem sizeInWeekdays_total (p : Period) (hp : p.WF) (hr : p.hi + 1 ≤ 3652059) :
    ∃ n, p.sizeInWeekdays = .ok n ∧ 1 ≤ n ∧ n ≤ p.hi - p.lo + 1 ∧
      (p.unit ≠ .year → n = p.hi - p.lo + 1) ∧ (p.unit = .year → n = (p.hi - p.lo + 1) / 7 * 7) := by
  have hne := hp.1
  have hlo := lo_le_hi p hp
  unfold Period.sizeInWeekdays
  cases hu : p.unit <;> simp only
  · refine ⟨_, rfl, ?_⟩; unfold Period.hi Period.lo at *; simp only [hu] at *; have := hp.2.2; simp; omega
  · refine ⟨_, rfl, ?_⟩; unfold Period.hi Period.lo at *; simp only [hu] at *; have := hp.2.2; simp; omega
  · refine ⟨_, rfl, ?_⟩; unfold Period.hi Period.lo at *; simp only [hu] at *; have := hp.2.2; simp; omega
  · rw [spanDays_total p hp (Or.inr hu) hr]
    exact ⟨_, rfl, by omega, by omega, fun _ => rfl, by simp⟩
  · rw [sizeInWeeks_total p hp hr (Or.inr (Or.inr hu))]
    simp only [bind, Except.bind]
    refine ⟨_, rfl, ?_, by omega, by simp, fun _ => rfl⟩
    have hy := year_length_ge p hp hu
    omega
  · exact absurd hu hne


/-! ## `get_subperiods` succeeds on every cell the unit table lets through -/

theorem inRange_hi (p : Period) (hr : p.InRange) : p.hi + 1 ≤ 3652059 := by
  have := hr.2; rw [ord_9998, dby_9999] at this; omega

theorem week_cells : ∀ pu : DUnit, ¬ unitWeight .week > unitWeight pu → pu ≠ .eternity →
    pu = .week ∨ pu = .month ∨ pu = .year := by
  intro pu; cases pu <;> decide +kernel

theorem month_cells : ∀ pu : DUnit, ¬ unitWeight .month > unitWeight pu → pu ≠ .eternity → pu ≠ .week →
    pu = .month ∨ pu = .year := by
  intro pu; cases pu <;> decide +kernel

theorem year_cells : ∀ pu : DUnit, ¬ unitWeight .year > unitWeight pu → pu ≠ .eternity → pu = .year := by
  intro pu; cases pu <;> decide +kernel

theorem firstWeek_total (p : Period) (hv : p.start.Valid) (hy : p.start.y ≤ 9999) (h7 : 7 ≤ p.lo) :
    p.firstWeek = .ok ⟨.week, startOfWeek p.start, 1⟩ ∧ (startOfWeek p.start).Valid ∧
      ord (startOfWeek p.start) = p.lo - weekday0 p.lo := by
  have hw := weekday0_range (ord p.start)
  have hlo : p.lo = ord p.start := rfl
  have hpos : 1 ≤ ord p.start - weekday0 (ord p.start) := by omega
  have ho := ord_startOfWeek p.start hv hpos
  have hsv : (startOfWeek p.start).Valid := ofOrd_valid _ hpos
  have hyy := year_le_of_ord_le _ hsv 9999 (by
    have := ord_le_of_year_le _ hv 9999 hy; omega)
  refine ⟨?_, hsv, by rw [ho, hlo]⟩
  unfold Period.firstWeek instOffset
  simp only [reduceCtorEq, if_false]
  rw [if_pos (dateOk_of _ hv hy), chk_of _ hsv.1 hyy]
  rfl

theorem subperiods_total (p : Period) (u : DUnit) (hp : p.WF) (hr : p.InRange)
    (hw : ¬ unitWeight u > unitWeight p.unit) (hu : u ≠ .eternity)
    (hmw : ¬ (u = .month ∧ p.unit = .week)) : ∃ qs, p.subperiods u = .ok qs := by
  have hr' := inRange_hi p hr
  obtain ⟨hy, hav, hao, ha1, ha2⟩ := range_facts p hp hr'
  have hlo := lo_le_hi p hp
  have hlo' : p.lo = ord p.start := rfl
  have hne := hp.1
  have hv := hp.2.1
  have hs := hp.2.2
  have h1 := ord_pos _ hv
  unfold Period.subperiods
  rw [if_neg hw]
  cases u <;> simp only
  · -- weekday pieces
    obtain ⟨n, hn, _, hn2, _⟩ := sizeInWeekdays_total p hp hr'
    rw [hn]; simp only [bind, Except.bind]
    apply offsetsFrom_total p.firstWeekday .weekday n hv hy (by decide)
    intro i hi
    simp only [Period.firstWeekday, shiftDate]
    exact addDays_year_ok _ hv _ (by omega) (by omega)
  · -- week pieces
    have hpu := week_cells p.unit hw hne
    obtain ⟨hfw, hsv, hso⟩ := firstWeek_total p hv hy hr.1
    have hwd := weekday0_range p.lo
    rw [hfw, sizeInWeeks_total p hp hr' hpu]; simp only [bind, Except.bind]
    have hyy := year_le_of_ord_le _ hsv 9999 (by
      have := ord_le_of_year_le _ hv 9999 hy; omega)
    apply offsetsFrom_total ⟨.week, startOfWeek p.start, 1⟩ .week _ hsv hyy (by decide)
    intro i hi
    simp only [shiftDate]
    exact addDays_year_ok _ hsv _ (by omega) (by omega)
  · -- day pieces
    rw [sizeInDays_total p hp hr']; simp only [bind, Except.bind]
    apply offsetsFrom_total p.firstDay .day _ hv hy (by decide)
    intro i hi
    simp only [Period.firstDay, shiftDate]
    exact addDays_year_ok _ hv _ (by omega) (by omega)
  · -- month pieces
    have hpu := month_cells p.unit hw hne (fun h => hmw ⟨rfl, h⟩)
    have hm1 := hv.2.1; have hm2 := hv.2.2.1; have hy1 := hv.1
    rw [(C04_named_periods p hv).2.1]; simp only [bind, Except.bind]
    have hbv : (Date.mk p.start.y p.start.m 1).Valid :=
      ⟨hy1, hm1, hm2, by simp only; omega, by have := dim_ge p.start.y p.start.m; simp only; omega⟩
    rcases hpu with hpu | hpu
    · rw [(C04_size_in_smaller_unit p hp).2.1 hpu]; simp only
      have ea : p.afterDate = addMonths p.start p.size := by unfold Period.afterDate; simp only [hpu]
      rw [ea, addMonths_year] at ha2
      apply offsetsFrom_total ⟨.month, ⟨p.start.y, p.start.m, 1⟩, 1⟩ .month _ hbv hy (by decide)
      intro i hi
      simp only [shiftDate, addMonths_year]
      omega
    · rw [(C04_size_in_smaller_unit p hp).1 hpu]; simp only
      have ea : p.afterDate = addMonths p.start (12 * p.size) := by unfold Period.afterDate; simp only [hpu]
      rw [ea, addMonths_year] at ha2
      apply offsetsFrom_total ⟨.month, ⟨p.start.y, p.start.m, 1⟩, 1⟩ .month _ hbv hy (by decide)
      intro i hi
      simp only [shiftDate, addMonths_year]
      omega
  · -- year pieces
    have hpu := year_cells p.unit hw hne
    have hm1 := hv.2.1; have hm2 := hv.2.2.1; have hy1 := hv.1
    rw [(C04_named_periods p hv).1]; simp only [bind, Except.bind]
    have hbv : (Date.mk p.start.y 1 1).Valid :=
      ⟨hy1, by simp only; omega, by simp only; omega, by simp only; omega, by have := dim_ge p.start.y 1; simp only; omega⟩
    have ea : p.afterDate = addMonths p.start (12 * p.size) := by unfold Period.afterDate; simp only [hpu]
    rw [ea, addMonths_year] at ha2
    apply offsetsFrom_total ⟨.year, ⟨p.start.y, 1, 1⟩, 1⟩ .year _ hbv hy (by decide)
    intro i hi
    simp only [shiftDate, addMonths_year]
    omega
  · exact absurd rfl hu


/-! ## DIVIDE: the enclosing definition period and the denominator -/

theorem ord_dec31 (y : Int) : ord ⟨y, 12, 31⟩ = dby (y + 1) := by
  have h := ord_jan1_succ y
  have h1 : ∀ l, dbm l 1 = 0 := by intro l; cases l <;> decide
  simp only [ord] at h ⊢
  rw [h1] at h
  omega

theorem ord_first_of_month (c : Date) : ord ⟨c.y, c.m, 1⟩ = ord c - c.d + 1 := by
  simp only [ord]; omega

/-- the period DIVIDE computes the variable for: one definition period, aligned, containing the
    first day of the request -/
theorem enclosing_total (u : DUnit) (p : Period) (hp : p.WF) (hr : p.InRange) (hu : u ≠ .eternity) :
    ∃ c, enclosing u p = .ok c ∧ c.WF ∧ c.unit = u ∧ c.size = 1 ∧ c.hi + 1 ≤ 3652059 ∧
      c.lo ≤ p.lo ∧ p.lo ≤ c.hi ∧ AlignedTo c.start u := by
  have hr' := inRange_hi p hr
  obtain ⟨hy, hav, hao, ha1, ha2⟩ := range_facts p hp hr'
  have hlo := lo_le_hi p hp
  have hlo' : p.lo = ord p.start := rfl
  have hv := hp.2.1
  have h1 := ord_pos _ hv
  have hy1 := hv.1; have hm1 := hv.2.1; have hm2 := hv.2.2.1; have hd1 := hv.2.2.2.1; have hd2 := hv.2.2.2.2
  have hy98 : p.start.y ≤ 9998 := year_le_of_ord_le _ hv 9998 (by
    have := hr.2; rw [ord_9998] at this; simp only [show (9998 : Int) + 1 = 9999 by rfl]; omega)
  have hb := ord_bounds _ hv
  cases u <;> simp only [enclosing]
  · -- weekday
    refine ⟨_, rfl, ⟨by simp [Period.firstWeekday], hv, by simp [Period.firstWeekday]⟩, rfl, rfl, ?_, ?_, ?_, trivial⟩
    all_goals (simp only [Period.firstWeekday, Period.hi, Period.lo] at *; omega)
  · -- week
    obtain ⟨hfw, hsv, hso⟩ := firstWeek_total p hv hy hr.1
    have hwd := weekday0_range p.lo
    have h7 := hr.1
    have h98 := hr.2
    rw [ord_9998, dby_9999] at h98
    refine ⟨_, hfw, ⟨by simp, hsv, by simp⟩, rfl, rfl, ?_, ?_, ?_, ?_⟩
    · simp only [Period.hi]; omega
    · simp only [Period.lo]; omega
    · simp only [Period.hi]; omega
    · exact weekday0_startOfWeek p.start hv (by rw [← hlo']; omega)
  · -- day
    refine ⟨_, rfl, ⟨by simp [Period.firstDay], hv, by simp [Period.firstDay]⟩, rfl, rfl, ?_, ?_, ?_, trivial⟩
    all_goals (simp only [Period.firstDay, Period.hi, Period.lo] at *; omega)
  · -- month
    have hbv : (Date.mk p.start.y p.start.m 1).Valid :=
      ⟨hy1, hm1, hm2, by simp only; omega, by have := dim_ge p.start.y p.start.m; simp only; omega⟩
    have hev : (Date.mk p.start.y p.start.m (dim p.start.y p.start.m)).Valid :=
      ⟨hy1, hm1, hm2, by have := dim_ge p.start.y p.start.m; simp only; omega, by simp only; omega⟩
    have hle := ord_le_of_year_le _ hev 9998 hy98
    have hdm := dby_9999
    have hhi : (Period.mk .month ⟨p.start.y, p.start.m, 1⟩ 1).hi = ord p.start - p.start.d + dim p.start.y p.start.m := by
      simp only [Period.hi]
      rw [ord_addMonths_one _ hbv rfl, ord_first_of_month]; simp only; omega
    refine ⟨_, (C04_named_periods p hv).2.1, ⟨by simp, hbv, by simp⟩, rfl, rfl, ?_, ?_, ?_, rfl⟩
    · rw [hhi]; simp only [ord, show (9998 : Int) + 1 = 9999 by rfl] at hle ⊢; omega
    · simp only [Period.lo]; rw [ord_first_of_month]; omega
    · rw [hhi]; omega
  · -- year
    have hbv : (Date.mk p.start.y 1 1).Valid :=
      ⟨hy1, by simp only; omega, by simp only; omega, by simp only; omega, by have := dim_ge p.start.y 1; simp only; omega⟩
    have hhi : (Period.mk .year ⟨p.start.y, 1, 1⟩ 1).hi = dby (p.start.y + 1) := by
      rw [hi_year_jan, ← ord_dec31]; congr 2; omega
    have hlo1 : (Period.mk .year ⟨p.start.y, 1, 1⟩ 1).lo = dby p.start.y + 1 := by
      have h1 : ∀ l, dbm l 1 = 0 := by intro l; cases l <;> decide
      simp only [Period.lo, ord, h1]; omega
    have hmono := dby_mono (p.start.y + 1) 9999 (by omega)
    have hsucc := dby_succ p.start.y
    have hdm := dby_9999
    refine ⟨_, (C04_named_periods p hv).1, ⟨by simp, hbv, by simp⟩, rfl, rfl, ?_, ?_, ?_, ⟨rfl, rfl⟩⟩
    · rw [hhi]; omega
    · rw [hlo1]; omega
    · rw [hhi, hsucc]; split at hb <;> simp_all <;> omega
  · exact absurd rfl hu

theorem div_week_cells : ∀ cu : DUnit, ¬ unitWeight cu < unitWeight .week → cu ≠ .eternity →
    cu = .week ∨ cu = .month ∨ cu = .year := by
  intro cu; cases cu <;> decide +kernel

theorem div_month_cells : ∀ cu : DUnit, ¬ unitWeight cu < unitWeight .month → cu ≠ .eternity → cu ≠ .week →
    cu = .month ∨ cu = .year := by
  intro cu; cases cu <;> decide +kernel

theorem div_year_cells : ∀ cu : DUnit, ¬ unitWeight cu < unitWeight .year → cu ≠ .eternity → cu = .year := by
  intro cu; cases cu <;> decide +kernel

/-- the denominator exists on every cell the unit table lets through -/
theorem denominator_total (pu : DUnit) (c : Period) (hc : c.WF) (hr : c.hi + 1 ≤ 3652059)
    (hw : ¬ unitWeight c.unit < unitWeight pu) (hpu : pu ≠ .eternity)
    (hwm : ¬ (c.unit = .week ∧ pu = .month)) : ∃ n, denominator pu c = .ok n := by
  have hne := hc.1
  cases pu <;> simp only [denominator]
  · obtain ⟨n, hn, _⟩ := sizeInWeekdays_total c hc hr; exact ⟨n, hn⟩
  · exact ⟨_, sizeInWeeks_total c hc hr (div_week_cells c.unit hw hne)⟩
  · exact ⟨_, sizeInDays_total c hc hr⟩
  · rcases div_month_cells c.unit hw hne (fun h => hwm ⟨h, rfl⟩) with h | h
    · exact ⟨_, (C04_size_in_smaller_unit c hc).2.1 h⟩
    · exact ⟨_, (C04_size_in_smaller_unit c hc).1 h⟩
  · have h := div_year_cells c.unit hw hne
    exact ⟨c.size, by simp only [Period.sizeInYears, h, if_true]⟩
  · exact absurd rfl hpu


/-! ## the calendar duration order, and the enclosing period without range hypotheses -/

/-- how long one unit lasts, in days at least (weekday = day < week < month < year); eternity
    outlasts everything -/
def DUnit.span : DUnit → Nat
  | .weekday => 1 | .day => 1 | .week => 7 | .month => 28 | .year => 365 | .eternity => 1000000

/-- the code's ADD guard (generated weights) together with the one sub-division the period
    algebra refuses (months of a week) is exactly the duration order -/
theorem add_table : ∀ u pu : DUnit, u ≠ .eternity → pu ≠ .eternity →
    ((unitWeight u > unitWeight pu ∨ (u = .month ∧ pu = .week)) ↔ pu.span < u.span) := by
  intro u pu; cases u <;> cases pu <;> decide +kernel

/-- the code's DIVIDE guard together with the one denominator the period algebra refuses
    (months in a week) is exactly the duration order -/
theorem divide_table : ∀ u pu : DUnit, u ≠ .eternity → pu ≠ .eternity →
    ((unitWeight u < unitWeight pu ∨ (u = .week ∧ pu = .month)) ↔ u.span < pu.span) := by
  intro u pu; cases u <;> cases pu <;> decide +kernel

theorem year_period_bounds (y : Int) :
    (Period.mk .year ⟨y, 1, 1⟩ 1).lo = dby y + 1 ∧ (Period.mk .year ⟨y, 1, 1⟩ 1).hi = dby (y + 1) := by
  constructor
  · have h1 : ∀ l, dbm l 1 = 0 := by intro l; cases l <;> decide
    simp only [Period.lo, ord, h1]; omega
  · rw [hi_year_jan, ← ord_dec31]; congr 2; omega

theorem month_period_bounds (c : Date) (hv : c.Valid) :
    (Period.mk .month ⟨c.y, c.m, 1⟩ 1).lo = ord c - c.d + 1 ∧
    (Period.mk .month ⟨c.y, c.m, 1⟩ 1).hi = ord c - c.d + dim c.y c.m := by
  have hbv : (Date.mk c.y c.m 1).Valid :=
    ⟨hv.1, hv.2.1, hv.2.2.1, by simp only; omega, by have := dim_ge c.y c.m; simp only; omega⟩
  constructor
  · simp only [Period.lo]; rw [ord_first_of_month]
  · simp only [Period.hi]
    rw [ord_addMonths_one _ hbv rfl, ord_first_of_month]; simp only; omega

/-- whatever `calculate_divide` takes as calculation period is one definition period, aligned
    to its unit, that contains the first day of the request -/
theorem enclosing_spec (u : DUnit) (p c : Period) (hv : p.start.Valid) (hu : u ≠ .eternity)
    (h : enclosing u p = .ok c) :
    c.WF ∧ c.unit = u ∧ c.size = 1 ∧ AlignedTo c.start u ∧ c.lo ≤ p.lo ∧ p.lo ≤ c.hi := by
  have hlo' : p.lo = ord p.start := rfl
  have hy1 := hv.1; have hm1 := hv.2.1; have hm2 := hv.2.2.1; have hd1 := hv.2.2.2.1; have hd2 := hv.2.2.2.2
  have hb := ord_bounds _ hv
  cases u <;> simp only [enclosing] at h
  · injection h with h; subst h
    refine ⟨⟨by simp [Period.firstWeekday], hv, by simp [Period.firstWeekday]⟩, rfl, rfl, trivial, ?_, ?_⟩
    all_goals (simp only [Period.firstWeekday, Period.hi, Period.lo]; omega)
  · obtain ⟨h1, h2, h3, h4, h5, h6⟩ := (C04_named_periods p hv).2.2.2.2.1 c h
    refine ⟨⟨by rw [h1]; decide, h3, by omega⟩, h1, h2, h4, h5, ?_⟩
    simp only [Period.hi, h1, h2, hlo']; omega
  · injection h with h; subst h
    refine ⟨⟨by simp [Period.firstDay], hv, by simp [Period.firstDay]⟩, rfl, rfl, trivial, ?_, ?_⟩
    all_goals (simp only [Period.firstDay, Period.hi, Period.lo]; omega)
  · rw [(C04_named_periods p hv).2.1] at h
    injection h with h; subst h
    have hbv : (Date.mk p.start.y p.start.m 1).Valid :=
      ⟨hy1, hm1, hm2, by simp only; omega, by have := dim_ge p.start.y p.start.m; simp only; omega⟩
    obtain ⟨e1, e2⟩ := month_period_bounds p.start hv
    refine ⟨⟨by simp, hbv, by simp⟩, rfl, rfl, rfl, ?_, ?_⟩
    · rw [e1]; omega
    · rw [e2]; omega
  · rw [(C04_named_periods p hv).1] at h
    injection h with h; subst h
    have hbv : (Date.mk p.start.y 1 1).Valid :=
      ⟨hy1, by simp only; omega, by simp only; omega, by simp only; omega, by have := dim_ge p.start.y 1; simp only; omega⟩
    obtain ⟨e1, e2⟩ := year_period_bounds p.start.y
    have hsucc := dby_succ p.start.y
    refine ⟨⟨by simp, hbv, by simp⟩, rfl, rfl, ⟨rfl, rfl⟩, ?_, ?_⟩
    · rw [e1]; omega
    · rw [e2, hsucc]; split at hb <;> simp_all <;> omega
  · exact absurd rfl hu

/-- alignment to a unit implies alignment to every smaller unit of its family -/
theorem aligned_down (c : Date) : ∀ u pu : DUnit, AlignedTo c u → pu.family = u.family → pu.rank ≤ u.rank →
    AlignedTo c pu := by
  intro u pu h hf hr
  cases u <;> cases pu <;> simp only [DUnit.family, DUnit.rank, AlignedTo] at * <;>
    first | trivial | exact h | exact h.2 | omega

/-- the number of pieces `get_subperiods` returns is the size in the requested unit -/
theorem subperiods_length (c : Period) (pu : DUnit) (qs : List Period) (n : Int)
    (h : c.subperiods pu = .ok qs) (hn : denominator pu c = .ok n) : qs.length = n.toNat := by
  unfold Period.subperiods at h
  split at h
  · cases h
  · cases pu <;> simp only [denominator] at hn <;> simp only at h
    · rw [hn] at h; simp only [bind, Except.bind] at h
      exact (offsetsFrom_units _ _ _ _ h).1
    · cases hb : c.firstWeek with
      | error e => rw [hb] at h; cases h
      | ok b =>
        rw [hb, hn] at h; simp only [bind, Except.bind] at h
        exact (offsetsFrom_units _ _ _ _ h).1
    · rw [hn] at h; simp only [bind, Except.bind] at h
      exact (offsetsFrom_units _ _ _ _ h).1
    · cases hb : c.firstMonth with
      | error e => rw [hb] at h; cases h
      | ok b =>
        rw [hb, hn] at h; simp only [bind, Except.bind] at h
        exact (offsetsFrom_units _ _ _ _ h).1
    · cases hb : c.thisYear with
      | error e => rw [hb] at h; cases h
      | ok b =>
        rw [hb] at h; simp only [bind, Except.bind] at h
        unfold Period.sizeInYears at hn
        split at hn
        · injection hn with hn; rw [← hn]; exact (offsetsFrom_units _ _ _ _ h).1
        · cases hn
    · cases h

end OFCore
