import OFCore.Lemmas.HeapRun
/-!
# What every call keeps true of a memory-backed simulation's region

`Tidy r h`: every simulation of region `r` has no memory configuration and no temporary directory, lists its
`persons` under the person entity, its person population has no `members` and is bound to it; no holder of
the region has an on-disk storage.  With `Closed r h` this is what the clone theorems ask of the simulation
that gets cloned (`WellFormed`, `MemoryBacked`).  `Keep r m Q`: the computation `m` keeps `Closed r` and
`Tidy r` and answers `Q`.  The composite lemmas repeat, combinator by combinator, the locality lemmas of
`Lemmas/Heap.lean`.
-/
set_option linter.unusedSimpArgs false
set_option linter.unusedVariables false
namespace OFCore.Heap
open HM

def Tidy (r : Nat) (h : Heap) : Prop :=
  (∀ i so, h.get? ⟨r, i⟩ = some (.sim so) →
      so.memConfig = none ∧ so.dir = none ∧ alGet so.pops 0 = some so.persons
      ∧ ∀ po, h.get? so.persons = some (.pop po) → po.members = none ∧ po.sim = ⟨r, i⟩)
  ∧ (∀ i ho, h.get? ⟨r, i⟩ = some (.holder ho) → ho.disk = none)

theorem Tidy.congr {r : Nat} {h1 h2 : Heap} (t : Tidy r h1) (c : Closed r h1) (e : h1[r]? = h2[r]?) : Tidy r h2 := by
  have eg : ∀ i, h2.get? ⟨r, i⟩ = h1.get? ⟨r, i⟩ := fun i => (get?_congr (p := ⟨r, i⟩) e).symm
  refine ⟨fun i so hs => ?_, fun i ho hh => t.2 i ho (by rw [← eg]; exact hh)⟩
  rw [eg] at hs
  obtain ⟨a, b, c', d⟩ := t.1 i so hs
  refine ⟨a, b, c', fun po hp => d po ?_⟩
  have hr : so.persons.reg = r := (c i _ hs).1
  rw [get?_congr (p := so.persons) (hr ▸ e)]
  exact hp

/-- writing the content of a storage / directory / tracer / set -/
theorem Tidy.putLeaf {r : Nat} {h : Heap} (t : Tidy r h) {p : Id} {old o : Obj} (hp : h.get? p = some old)
    (hk : old.leafKind = o.leafKind ∧ o.leafKind ≠ 0) : Tidy r (h.put p o) := by
  have other : ∀ q x, (h.put p o).get? q = some x → x.leafKind = 0 → h.get? q = some x := by
    intro q x hq hx
    by_cases e : q = p
    · subst e
      rw [get?_put_self h q o old hp] at hq
      cases hq
      exact absurd hx hk.2
    · rw [get?_put_ne h p q o e] at hq
      exact hq
  refine ⟨fun i so hs => ?_, fun i ho hh => t.2 i ho (other _ _ hh rfl)⟩
  obtain ⟨a, b, c, d⟩ := t.1 i so (other _ _ hs rfl)
  exact ⟨a, b, c, fun po hpo => d po (other _ _ hpo rfl)⟩

/-- assigning attributes of a simulation other than its populations and storage settings -/
theorem Tidy.putSim {r : Nat} {h : Heap} (t : Tidy r h) {x : Id} {so so' : SimObj} (hx : h.get? x = some (.sim so))
    (h1 : so'.memConfig = so.memConfig) (h2 : so'.dir = so.dir) (h3 : so'.pops = so.pops)
    (h4 : so'.persons = so.persons) : Tidy r (h.put x (.sim so')) := by
  have other : ∀ q y, q ≠ x → (h.put x (.sim so')).get? q = some y → h.get? q = some y := by
    intro q y e hq
    rw [get?_put_ne h x q _ e] at hq
    exact hq
  have popAt : ∀ q po, (h.put x (.sim so')).get? q = some (.pop po) → h.get? q = some (.pop po) := by
    intro q po hq
    by_cases e : q = x
    · subst e
      rw [get?_put_self h q _ _ hx] at hq
      cases hq
    · exact other q _ e hq
  refine ⟨fun i s2 hs => ?_, fun i ho hh => ?_⟩
  · by_cases e : (⟨r, i⟩ : Id) = x
    · rw [e, get?_put_self h x _ _ hx] at hs
      cases hs
      obtain ⟨a, b, c, d⟩ := t.1 i so (by rw [e]; exact hx)
      refine ⟨by rw [h1]; exact a, by rw [h2]; exact b, by rw [h3, h4]; exact c, fun po hpo => ?_⟩
      rw [h4] at hpo
      exact d po (popAt _ _ hpo)
    · obtain ⟨a, b, c, d⟩ := t.1 i s2 (other _ _ e hs)
      exact ⟨a, b, c, fun po hpo => d po (popAt _ _ hpo)⟩
  · by_cases e : (⟨r, i⟩ : Id) = x
    · rw [e, get?_put_self h x _ _ hx] at hh
      cases hh
    · exact t.2 i ho (other _ _ e hh)

/-- assigning attributes of a population other than its simulation and members -/
theorem Tidy.putPop {r : Nat} {h : Heap} (t : Tidy r h) {p : Id} {po po' : PopObj} (hp : h.get? p = some (.pop po))
    (h1 : po'.members = po.members) (h2 : po'.sim = po.sim) : Tidy r (h.put p (.pop po')) := by
  have other : ∀ q y, q ≠ p → (h.put p (.pop po')).get? q = some y → h.get? q = some y := by
    intro q y e hq
    rw [get?_put_ne h p q _ e] at hq
    exact hq
  refine ⟨fun i so hs => ?_, fun i ho hh => ?_⟩
  · have e : (⟨r, i⟩ : Id) ≠ p := by
      intro e
      rw [e, get?_put_self h p _ _ hp] at hs
      cases hs
    obtain ⟨a, b, c, d⟩ := t.1 i so (other _ _ e hs)
    refine ⟨a, b, c, fun q hq => ?_⟩
    by_cases e2 : so.persons = p
    · rw [e2, get?_put_self h p _ _ hp] at hq
      cases hq
      have := d po (by rw [e2]; exact hp)
      exact ⟨by rw [h1]; exact this.1, by rw [h2]; exact this.2⟩
    · exact d q (other _ _ e2 hq)
  · have e : (⟨r, i⟩ : Id) ≠ p := by
      intro e
      rw [e, get?_put_self h p _ _ hp] at hh
      cases hh
    exact t.2 i ho (other _ _ e hh)

/-- allocating anything but a simulation or a population, a holder only without on-disk storage -/
theorem Tidy.push {r : Nat} {h h' : Heap} (t : Tidy r h) {r' : Nat} {o : Obj} {p : Id}
    (e : new r' o h = (.ok p, h')) (hs : o.sim? = none) (hp : o.pop? = none)
    (hh : ∀ ho, o = .holder ho → ho.disk = none) : Tidy r h' := by
  obtain ⟨f, g, _, x, _, inv⟩ := new_spec e
  refine ⟨fun i so hso => ?_, fun i ho hho => ?_⟩
  · rcases inv _ _ hso with old | ⟨_, eo⟩
    · obtain ⟨a, b, c, d⟩ := t.1 i so old
      refine ⟨a, b, c, fun po hpo => ?_⟩
      rcases inv _ _ hpo with old2 | ⟨_, eo2⟩
      · exact d po old2
      · rw [← eo2] at hp; cases hp
    · rw [← eo] at hs; cases hs
  · rcases inv _ _ hho with old | ⟨_, eo⟩
    · exact t.2 i ho old
    · exact hh ho eo.symm

/-! ## the triple -/

def Keep {α : Type} (r : Nat) (m : HM α) (Q : α → Prop) : Prop :=
  ∀ h, Closed r h → Tidy r h → Closed r (m h).2 ∧ Tidy r (m h).2 ∧ (∀ a, (m h).1 = .ok a → Q a)

theorem Keep.mono {α : Type} {r : Nat} {m : HM α} {Q Q' : α → Prop} (l : Keep r m Q) (hq : ∀ a, Q a → Q' a) :
    Keep r m Q' := fun h c t => ⟨(l h c t).1, (l h c t).2.1, fun a e => hq a ((l h c t).2.2 a e)⟩

theorem Keep.pure {α : Type} {r : Nat} {Q : α → Prop} (a : α) (hq : Q a) : Keep r (pure a : HM α) Q :=
  fun h c t => ⟨c, t, fun b e => by cases e; exact hq⟩

theorem Keep.fail {α : Type} {r : Nat} {Q : α → Prop} (e : Err) : Keep r (fail e : HM α) Q :=
  fun h c t => ⟨c, t, fun b e => by cases e⟩

theorem Keep.bind {α β : Type} {r : Nat} {m : HM α} {f : α → HM β} {Q : α → Prop} {Q' : β → Prop}
    (lm : Keep r m Q) (lf : ∀ a, Q a → Keep r (f a) Q') : Keep r (m >>= f) Q' := by
  intro h c t
  have fm := lm h c t
  rw [bind_apply]
  cases hm : m h with
  | mk res h1 =>
    rw [hm] at fm
    cases res with
    | error e => exact ⟨fm.1, fm.2.1, fun a e => by cases e⟩
    | ok a => exact lf a (fm.2.2 a rfl) h1 fm.1 fm.2.1

theorem Keep.ite {α : Type} {r : Nat} {c : Prop} [Decidable c] {a b : HM α} {Q : α → Prop}
    (la : c → Keep r a Q) (lb : ¬ c → Keep r b Q) : Keep r (if c then a else b) Q := by
  split
  · exact la ‹_›
  · exact lb ‹_›

theorem Keep.ofOption {α : Type} {r : Nat} {Q : α → Prop} (e : Err) (x : Option α) (hq : ∀ a, x = some a → Q a) :
    Keep r (ofOption e x) Q := by
  cases x with
  | none => exact Keep.fail e
  | some a => exact Keep.pure a (hq a rfl)

theorem Keep.ofPeriod {α : Type} {r : Nat} {Q : α → Prop} (x : Except String α) (hq : ∀ a, x = .ok a → Q a) :
    Keep r (ofPeriod x) Q := by
  cases x with
  | error _ => exact Keep.fail _
  | ok a => exact Keep.pure a (hq a rfl)

theorem Keep.rd {r : Nat} {p : Id} (hp : p.reg = r) : Keep r (rd p) (InReg r) := by
  intro h c t
  unfold Heap.rd
  cases hg : h.get? p with
  | none => exact ⟨c, t, fun a e => by cases e⟩
  | some o => exact ⟨c, t, fun a e => by cases e; exact c.get hp hg⟩

theorem Keep.wrLeaf {r : Nat} {p : Id} {o : Obj} (hp : p.reg = r) (ho : InReg r o) :
    Keep r (wrLeaf p o) (fun _ => True) := by
  intro h c t
  unfold Heap.wrLeaf
  cases hg : h.get? p with
  | none => exact ⟨c, t, fun a _ => trivial⟩
  | some o' =>
    simp only
    split
    · rename_i hk
      exact ⟨c.put p o (fun _ => ho), t.putLeaf hg hk, fun _ _ => trivial⟩
    · exact ⟨c, t, fun a _ => trivial⟩

theorem Keep.tryFinally {α : Type} {r : Nat} {m : HM α} {fin : HM Unit} {Q : α → Prop} {Q' : Unit → Prop}
    (lm : Keep r m Q) (lf : Keep r fin Q') : Keep r (tryFinally m fin) Q := by
  intro h c t
  have fm := lm h c t
  have ff := lf (m h).2 fm.1 fm.2.1
  unfold HM.tryFinally
  cases hf : fin (m h).2 with
  | mk res2 h2 =>
    rw [hf] at ff
    cases res2 with
    | ok u => exact ⟨ff.1, ff.2.1, fm.2.2⟩
    | error e => exact ⟨ff.1, ff.2.1, fun a e => by cases e⟩

theorem Keep.catchSpiral {α : Type} {r : Nat} {m handler : HM α} {Q : α → Prop}
    (lm : Keep r m Q) (lh : Keep r handler Q) : Keep r (catchSpiral m handler) Q := by
  intro h c t
  have fm := lm h c t
  unfold HM.catchSpiral
  cases hm : m h with
  | mk res h1 =>
    rw [hm] at fm
    cases res with
    | ok a => exact ⟨fm.1, fm.2.1, fm.2.2⟩
    | error er =>
      cases er with
      | spiral => exact lh h1 fm.1 fm.2.1
      | bad => exact ⟨fm.1, fm.2.1, fun a e => by cases e⟩
      | value => exact ⟨fm.1, fm.2.1, fun a e => by cases e⟩
      | cycle => exact ⟨fm.1, fm.2.1, fun a e => by cases e⟩
      | fuel => exact ⟨fm.1, fm.2.1, fun a e => by cases e⟩

theorem Keep.rdSim {r : Nat} {p : Id} (hp : p.reg = r) : Keep r (rdSim p) (fun o => InReg r (.sim o)) := by
  unfold Heap.rdSim
  refine Keep.bind (Keep.rd hp) fun o ho => Keep.ofOption _ _ fun a ha => ?_
  cases o <;> simp [Obj.sim?] at ha
  subst ha; exact ho

/-- reading a simulation of a tidy region -/
theorem Keep.rdSimT {r : Nat} {p : Id} (hp : p.reg = r) :
    Keep r (Heap.rdSim p) (fun o => InReg r (.sim o) ∧ o.memConfig = none ∧ o.dir = none) := by
  intro h c t
  have b := Keep.rdSim hp h c t
  refine ⟨b.1, b.2.1, fun a e => ⟨b.2.2 a e, ?_⟩⟩
  have hres : Heap.rdSim p h = (.ok a, (Heap.rdSim p h).2) := Prod.ext e rfl
  obtain ⟨hg, _⟩ := rdSim_ok hres
  obtain ⟨pr, pi⟩ := p
  simp only at hp
  subst hp
  exact ⟨(t.1 pi a hg).1, (t.1 pi a hg).2.1⟩

/-! ## typed reads -/

theorem Keep.rdPop {r : Nat} {p : Id} (hp : p.reg = r) : Keep r (rdPop p) (fun o => InReg r (.pop o)) := by
  unfold Heap.rdPop
  refine Keep.bind (Keep.rd hp) fun o ho => Keep.ofOption _ _ fun a ha => ?_
  cases o <;> simp [Obj.pop?] at ha
  subst ha; exact ho

theorem Keep.rdHolder {r : Nat} {p : Id} (hp : p.reg = r) : Keep r (rdHolder p) (fun o => InReg r (.holder o)) := by
  unfold Heap.rdHolder
  refine Keep.bind (Keep.rd hp) fun o ho => Keep.ofOption _ _ fun a ha => ?_
  cases o <;> simp [Obj.holder?] at ha
  subst ha; exact ho

theorem Keep.rdStore {r : Nat} {p : Id} (hp : p.reg = r) : Keep r (rdStore p) (fun _ => True) := by
  unfold Heap.rdStore
  exact Keep.bind (Keep.rd hp) fun o _ => Keep.ofOption _ _ fun _ _ => trivial

theorem Keep.rdDisk {r : Nat} {p : Id} (hp : p.reg = r) : Keep r (rdDisk p) (fun o => InReg r (.disk o)) := by
  unfold Heap.rdDisk
  refine Keep.bind (Keep.rd hp) fun o ho => Keep.ofOption _ _ fun a ha => ?_
  cases o <;> simp [Obj.disk?] at ha
  subst ha; exact ho

theorem Keep.rdDir {r : Nat} {p : Id} (hp : p.reg = r) : Keep r (rdDir p) (fun _ => True) := by
  unfold Heap.rdDir
  exact Keep.bind (Keep.rd hp) fun o _ => Keep.ofOption _ _ fun _ _ => trivial

theorem Keep.rdTracer {r : Nat} {p : Id} (hp : p.reg = r) : Keep r (rdTracer p) (fun _ => True) := by
  unfold Heap.rdTracer
  exact Keep.bind (Keep.rd hp) fun o _ => Keep.ofOption _ _ fun _ _ => trivial

theorem Keep.rdInval {r : Nat} {p : Id} (hp : p.reg = r) : Keep r (rdInval p) (fun _ => True) := by
  unfold Heap.rdInval
  exact Keep.bind (Keep.rd hp) fun o _ => Keep.ofOption _ _ fun _ _ => trivial

theorem Keep.varDecl {r : Nat} (sys : Sys) (v : Var) : Keep r (varDecl sys v) (fun _ => True) :=
  Keep.ofOption _ _ fun _ _ => trivial

theorem Keep.mapMH {α β : Type} {r : Nat} {f : α → HM β} (l : List α)
    (hf : ∀ a ∈ l, Keep r (f a) (fun _ => True)) : Keep r (mapMH f l) (fun _ => True) := by
  induction l with
  | nil => exact Keep.pure _ trivial
  | cons a t ih =>
    unfold Heap.mapMH
    refine Keep.bind (hf a (List.mem_cons_self ..)) fun b _ => ?_
    refine Keep.bind (ih fun x hx => hf x (List.mem_cons_of_mem _ hx)) fun bs _ => ?_
    exact Keep.pure _ trivial


/-! ## allocation sites and simulation / population attributes (by hand: what is allocated matters) -/

theorem Keep.new {r : Nat} {o : Obj} (ho : InReg r o) (hs : o.sim? = none) (hp : o.pop? = none)
    (hh : ∀ x, o = .holder x → x.disk = none) : Keep r (new r o) (fun p => p.reg = r) := by
  intro h c t
  cases hres : Heap.new r o h with
  | mk res h1 =>
    cases res with
    | error e =>
      have : h1 = h := by
        unfold Heap.new at hres
        cases hg : h[r]? with
        | none => rw [hg] at hres; simp only [Prod.mk.injEq] at hres; exact hres.2.symm
        | some l => rw [hg] at hres; cases hres
      subst this
      exact ⟨c, t, fun a e => by cases e⟩
    | ok p =>
      obtain ⟨l, hl, rfl, rfl⟩ := new_ok hres
      exact ⟨c.push r o (fun _ => ho), t.push hres hs hp hh, fun a e => by cases e; rfl⟩

theorem Keep.updSim {r : Nat} {x : Id} {f : SimObj → SimObj} (hx : x.reg = r)
    (hf : ∀ so, InReg r (.sim so) → InReg r (.sim (f so)))
    (h1 : ∀ so, (f so).memConfig = so.memConfig) (h2 : ∀ so, (f so).dir = so.dir) (h3 : ∀ so, (f so).pops = so.pops)
    (h4 : ∀ so, (f so).persons = so.persons) : Keep r (updSim x f) (fun _ => True) := by
  intro h c t
  unfold Heap.updSim
  rw [bind_apply]
  cases hres : Heap.rdSim x h with
  | mk res h0 =>
    cases res with
    | error e =>
      have b := Keep.rdSim hx h c t
      rw [hres] at b
      exact ⟨b.1, b.2.1, fun a e => by cases e⟩
    | ok so =>
      obtain ⟨hg, rfl⟩ := rdSim_ok hres
      have hin : InReg r (.sim so) := c.get hx hg
      simp only [Heap.wr, hg]
      exact ⟨c.put x _ (fun _ => hf so hin), t.putSim hg (h1 so) (h2 so) (h3 so) (h4 so), fun _ _ => trivial⟩

theorem Keep.updPop {r : Nat} {p : Id} {f : PopObj → PopObj} (hp : p.reg = r)
    (hf : ∀ po, InReg r (.pop po) → InReg r (.pop (f po)))
    (h1 : ∀ po, (f po).members = po.members) (h2 : ∀ po, (f po).sim = po.sim) : Keep r (updPop p f) (fun _ => True) := by
  intro h c t
  unfold Heap.updPop
  rw [bind_apply]
  cases hres : Heap.rdPop p h with
  | mk res h0 =>
    cases res with
    | error e =>
      have b := Keep.rdPop hp h c t
      rw [hres] at b
      exact ⟨b.1, b.2.1, fun a e => by cases e⟩
    | ok po =>
      obtain ⟨hg, rfl⟩ := rdPop_ok hres
      have hin : InReg r (.pop po) := c.get hp hg
      simp only [Heap.wr, hg]
      exact ⟨c.put p _ (fun _ => hf po hin), t.putPop hg (h1 po) (h2 po), fun _ _ => trivial⟩

theorem Keep.createDisk {r : Nat} {sid : Id} (hs : sid.reg = r) (v : Var) (eternal : Bool) :
    Keep r (createDisk r sid v eternal) (fun (d : Option Id) => d = none) := by
  unfold Heap.createDisk
  refine Keep.bind (Keep.rdSimT hs) fun so hso => ?_
  rw [hso.2.1]
  exact Keep.pure _ rfl

theorem Keep.createHolder {r : Nat} (sys : Sys) {pid : Id} (hp : pid.reg = r) (v : Var) :
    Keep r (createHolder sys r pid v) (fun x => x.1.reg = r ∧ InReg r (.holder x.2)) := by
  unfold Heap.createHolder
  refine Keep.bind (Keep.varDecl sys v) fun decl _ => ?_
  refine Keep.bind (Keep.rdPop hp) fun po hpo => ?_
  refine Keep.bind (Keep.new trivial rfl rfl (fun _ e => by cases e)) fun mem hmem => ?_
  refine Keep.bind (Keep.createDisk hpo.1 v _) fun disk hdisk => ?_
  subst hdisk
  refine Keep.bind (Keep.rdSim hpo.1) fun so _ => ?_
  generalize (match so.memConfig with | none => false | some mc => decide (v ∈ mc.drop)) = ns
  have hho : InReg r (.holder ⟨v, pid, po.sim, mem, none, ns⟩) := ⟨hp, hpo.1, hmem, fun _ e => by cases e⟩
  refine Keep.bind (Keep.new hho rfl rfl (fun x e => by cases e; rfl)) fun hid hhid => ?_
  refine Keep.bind (Keep.updPop hp (fun po2 hpo2 => ?_) (fun _ => rfl) (fun _ => rfl)) fun _ _ => Keep.pure _ ⟨hhid, hho⟩
  refine ⟨hpo2.1, fun e he => ?_, hpo2.2.2⟩
  rcases List.mem_append.mp he with h1 | h1
  · exact hpo2.2.1 e h1
  · simp only [List.mem_singleton] at h1; subst h1; exact hhid

theorem Keep.setTrace {r : Nat} {x : Id} (hx : x.reg = r) (b : Bool) : Keep r (setTrace x b) (fun _ => True) := by
  unfold Heap.setTrace
  refine Keep.bind (by rw [hx]; exact Keep.new trivial rfl rfl (fun _ e => by cases e)) fun t ht => ?_
  exact Keep.updSim hx (fun so hso => ⟨hso.1, hso.2.1, ht, hso.2.2.2.1, hso.2.2.2.2⟩) (fun _ => rfl) (fun _ => rfl)
    (fun _ => rfl) (fun _ => rfl)

/-! ## storages and holders -/

theorem Keep.diskFind {r : Nat} {d : DiskObj} (hd : InReg r (.disk d)) (p : Period) :
    Keep r (diskFind d p) (fun _ => True) := by
  unfold Heap.diskFind
  refine Keep.ite (fun _ => ?_) (fun _ => Keep.pure _ trivial)
  refine Keep.bind (Keep.rdDir hd) fun dir _ => ?_
  split
  · exact Keep.pure _ trivial
  · exact Keep.fail _

theorem Keep.diskInsert {r : Nat} {did : Id} (hd : did.reg = r) (v : Vec) (p : Period) :
    Keep r (diskInsert did v p) (fun _ => True) := by
  unfold Heap.diskInsert
  refine Keep.bind (Keep.rdDisk hd) fun d hdo => ?_
  refine Keep.bind (Keep.rdDir hdo) fun dir _ => ?_
  refine Keep.bind (Keep.wrLeaf hdo trivial) fun _ _ => ?_
  exact Keep.wrLeaf hd hdo

theorem Keep.diskRemove {r : Nat} {did : Id} (hd : did.reg = r) (p : Option Period) :
    Keep r (diskRemove did p) (fun _ => True) := by
  unfold Heap.diskRemove
  refine Keep.bind (Keep.rdDisk hd) fun d hdo => ?_
  cases p with
  | none => exact Keep.wrLeaf hd hdo
  | some p =>
    refine Keep.bind (Keep.ofPeriod _ fun _ _ => trivial) fun l _ => ?_
    exact Keep.wrLeaf hd hdo

theorem Keep.getHolder {r : Nat} (sys : Sys) {x : Id} (hx : x.reg = r) (v : Var) :
    Keep r (getHolder sys x v) (fun y => y.1.reg = r ∧ InReg r (.holder y.2)) := by
  unfold Heap.getHolder
  refine Keep.bind (Keep.varDecl sys v) fun decl _ => ?_
  refine Keep.bind (Keep.rdSim hx) fun so hso => ?_
  refine Keep.bind (Q := fun pid => pid.reg = r) (Keep.ofOption _ _ fun a ha => hso.2.1 _ (alGet_mem ha)) fun pid hpid => ?_
  refine Keep.bind (Keep.rdPop hpid) fun po hpo => ?_
  cases hh : alGet po.holders v with
  | none => rw [← hx]; exact Keep.createHolder sys (by rw [hx]; exact hpid) v
  | some hid =>
    have hhid : hid.reg = r := hpo.2.1 _ (alGet_mem hh)
    exact Keep.bind (Keep.rdHolder hhid) fun ho hho => Keep.pure _ ⟨hhid, hho⟩

theorem Keep.diskLookup {r : Nat} {disk : Option Id} (hd : ∀ d, disk = some d → d.reg = r) (p : Period) :
    Keep r (diskLookup disk p) (fun _ => True) := by
  unfold Heap.diskLookup
  cases disk with
  | none => exact Keep.pure _ trivial
  | some did => exact Keep.bind (Keep.rdDisk (hd did rfl)) fun d hdo => Keep.diskFind hdo p

theorem Keep.holderFind {r : Nat} {ho : HolderObj} (hho : InReg r (.holder ho)) (p : Period) :
    Keep r (holderFind ho p) (fun _ => True) := by
  unfold Heap.holderFind
  refine Keep.bind (Keep.rdStore hho.2.2.1) fun st _ => ?_
  split
  · exact Keep.pure _ trivial
  · exact Keep.diskLookup hho.2.2.2 p

theorem Keep.diskPeriods {r : Nat} {disk : Option Id} (hd : ∀ d, disk = some d → d.reg = r) :
    Keep r (diskPeriods disk) (fun _ => True) := by
  unfold Heap.diskPeriods
  cases disk with
  | none => exact Keep.pure _ trivial
  | some did => exact Keep.bind (Keep.rdDisk (hd did rfl)) fun d _ => Keep.pure _ trivial

theorem Keep.knownPeriods {r : Nat} {ho : HolderObj} (hho : InReg r (.holder ho)) :
    Keep r (knownPeriods ho) (fun _ => True) := by
  unfold Heap.knownPeriods
  refine Keep.bind (Keep.rdStore hho.2.2.1) fun st _ => ?_
  exact Keep.bind (Keep.diskPeriods hho.2.2.2) fun _ _ => Keep.pure _ trivial

theorem Keep.holderKnown {r : Nat} {ho : HolderObj} (hho : InReg r (.holder ho)) :
    Keep r (holderKnown ho) (fun _ => True) := by
  unfold Heap.holderKnown
  refine Keep.bind (Keep.knownPeriods hho) fun ps _ => ?_
  exact Keep.mapMH ps fun p _ => Keep.bind (Keep.holderFind hho p) fun _ _ => Keep.pure _ trivial

theorem Keep.holderSet {r : Nat} (sys : Sys) {ho : HolderObj} (hho : InReg r (.holder ho)) (p : Period) (v : Vec) :
    Keep r (holderSet sys ho p v) (fun _ => True) := by
  unfold Heap.holderSet
  refine Keep.bind (Keep.varDecl sys _) fun decl _ => ?_
  refine Keep.bind (Keep.rdPop hho.1) fun po _ => ?_
  refine Keep.ite (fun _ => Keep.fail _) fun _ => ?_
  refine Keep.ite (fun _ => Keep.fail _) fun _ => ?_
  refine Keep.bind (Keep.rdStore hho.2.2.1) fun st _ => ?_
  cases hd : ho.disk with
  | none => exact Keep.wrLeaf hho.2.2.1 trivial
  | some did =>
    simp only
    split
    · exact Keep.wrLeaf hho.2.2.1 trivial
    · refine Keep.bind (Keep.rdSim hho.2.1) fun so _ => ?_
      split
      · exact Keep.fail _
      · exact Keep.diskInsert (hho.2.2.2 did hd) v p

theorem Keep.putInCache {r : Nat} (sys : Sys) {ho : HolderObj} (hho : InReg r (.holder ho)) (p : Period) (v : Vec) :
    Keep r (putInCache sys ho p v) (fun _ => True) := by
  unfold Heap.putInCache
  refine Keep.ite (fun _ => Keep.pure _ trivial) fun _ => ?_
  refine Keep.bind (Keep.rdSim hho.2.1) fun so _ => ?_
  refine Keep.bind (Keep.varDecl sys _) fun decl _ => ?_
  exact Keep.ite (fun _ => Keep.pure _ trivial) fun _ => Keep.holderSet sys hho p v

theorem Keep.holderDelete {r : Nat} {ho : HolderObj} (hho : InReg r (.holder ho)) (p : Option Period) :
    Keep r (holderDelete ho p) (fun _ => True) := by
  unfold Heap.holderDelete
  refine Keep.bind (Keep.rdStore hho.2.2.1) fun st _ => ?_
  refine Keep.bind (Keep.ofPeriod _ fun _ _ => trivial) fun st' _ => ?_
  refine Keep.bind (Keep.wrLeaf hho.2.2.1 trivial) fun _ _ => ?_
  cases hd : ho.disk with
  | none => exact Keep.pure _ trivial
  | some did => exact Keep.diskRemove (hho.2.2.2 did hd) p

theorem Keep.holderDefault {r : Nat} (sys : Sys) {ho : HolderObj} (hho : InReg r (.holder ho)) :
    Keep r (holderDefault sys ho) (fun _ => True) := by
  unfold Heap.holderDefault
  refine Keep.bind (Keep.varDecl sys _) fun decl _ => ?_
  exact Keep.bind (Keep.rdPop hho.1) fun po _ => Keep.pure _ trivial

/-! ## simulation operations -/

theorem Keep.dispatchOne {r : Nat} (sys : Sys) {ho : HolderObj} (hho : InReg r (.holder ho)) (a : Vec) (sub : Period) :
    Keep r (dispatchOne sys ho a sub) (fun _ => True) := by
  unfold Heap.dispatchOne
  refine Keep.bind (Keep.holderFind hho sub) fun found _ => ?_
  cases found with
  | some _ => exact Keep.pure _ trivial
  | none => exact Keep.holderSet sys hho sub a

theorem Keep.dispatchLoop {r : Nat} (sys : Sys) {ho : HolderObj} (hho : InReg r (.holder ho)) (a : Vec) (after : Date) :
    ∀ (n : Nat) (sub : Period), Keep r (dispatchLoop sys ho a after n sub) (fun _ => True) := by
  intro n
  induction n with
  | zero => intro sub; exact Keep.fail _
  | succ n ih =>
    intro sub
    unfold Heap.dispatchLoop
    refine Keep.ite (fun _ => ?_) fun _ => Keep.pure _ trivial
    refine Keep.bind (Keep.dispatchOne sys hho a sub) fun _ _ => ?_
    exact Keep.bind (Keep.ofPeriod _ fun _ _ => trivial) fun nxt _ => ih nxt

theorem Keep.dispatchInput {r : Nat} (sys : Sys) {ho : HolderObj} (hho : InReg r (.holder ho)) (decl : VarDecl)
    (p : Period) (a : Vec) : Keep r (dispatchInput sys ho decl p a) (fun _ => True) := by
  unfold Heap.dispatchInput
  refine Keep.bind (Keep.rdPop hho.1) fun po _ => ?_
  refine Keep.ite (fun _ => Keep.fail _) fun _ => ?_
  refine Keep.ite (fun _ => Keep.fail _) fun _ => ?_
  refine Keep.bind (Keep.ofPeriod _ fun _ _ => trivial) fun after _ => ?_
  cases after with
  | none => exact Keep.fail _
  | some af => exact Keep.dispatchLoop sys hho a af _ _

theorem Keep.setInput {r : Nat} (sys : Sys) {x : Id} (hx : x.reg = r) (v : Var) (p : Period) (a : Vec) :
    Keep r (setInput sys x v p a) (fun _ => True) := by
  unfold Heap.setInput
  refine Keep.bind (Keep.varDecl sys v) fun decl _ => ?_
  refine Keep.bind (Keep.getHolder sys hx v) fun y hy => ?_
  obtain ⟨hid, ho⟩ := y
  refine Keep.ite (fun _ => Keep.fail _) fun _ => ?_
  exact Keep.ite (fun _ => Keep.dispatchInput sys hy.2 decl p a) fun _ => Keep.holderSet sys hy.2 p a

theorem Keep.setInputBad {r : Nat} (sys : Sys) {x : Id} (hx : x.reg = r) (v : Var) (p : Period) :
    Keep r (setInputBad sys x v p) (fun _ => True) := by
  unfold Heap.setInputBad
  refine Keep.bind (Keep.varDecl sys v) fun decl _ => ?_
  refine Keep.bind (Keep.getHolder sys hx v) fun y _ => ?_
  exact Keep.ite (fun _ => Keep.fail _) fun _ => Keep.fail _

theorem Keep.deleteArrays {r : Nat} (sys : Sys) {x : Id} (hx : x.reg = r) (v : Var) (p : Option Period) :
    Keep r (deleteArrays sys x v p) (fun _ => True) := by
  unfold Heap.deleteArrays
  refine Keep.bind (Keep.getHolder sys hx v) fun y hy => ?_
  obtain ⟨hid, ho⟩ := y
  exact Keep.holderDelete hy.2 p

theorem Keep.checkForCycle {r : Nat} {x : Id} (hx : x.reg = r) (v : Var) (p : Period) :
    Keep r (checkForCycle x v p) (fun _ => True) := by
  unfold Heap.checkForCycle
  refine Keep.bind (Keep.rdSim hx) fun so hso => ?_
  refine Keep.bind (Keep.rdTracer hso.2.2.1) fun tr _ => ?_
  refine Keep.ite (fun _ => Keep.fail _) fun _ => ?_
  refine Keep.ite (fun _ => ?_) fun _ => Keep.pure _ trivial
  refine Keep.bind (Keep.rdInval hso.2.2.2.1) fun inv _ => ?_
  exact Keep.bind (Keep.wrLeaf hso.2.2.2.1 trivial) fun _ _ => Keep.fail _

theorem Keep.tracerStart {r : Nat} {x : Id} (hx : x.reg = r) (v : Var) (p : Period) :
    Keep r (tracerStart x v p) (fun _ => True) := by
  unfold Heap.tracerStart
  refine Keep.bind (Keep.rdSim hx) fun so hso => ?_
  refine Keep.bind (Keep.rdTracer hso.2.2.1) fun tr _ => ?_
  exact Keep.wrLeaf hso.2.2.1 trivial

theorem Keep.tracerEnd {r : Nat} {x : Id} (hx : x.reg = r) : Keep r (tracerEnd x) (fun _ => True) := by
  unfold Heap.tracerEnd
  refine Keep.bind (Keep.rdSim hx) fun so hso => ?_
  refine Keep.bind (Keep.rdTracer hso.2.2.1) fun tr _ => ?_
  exact Keep.wrLeaf hso.2.2.1 trivial

theorem Keep.purgeEach {r : Nat} (sys : Sys) {x : Id} (hx : x.reg = r) (ks : List Key) :
    Keep r (purgeEach sys x ks) (fun _ => True) := by
  induction ks with
  | nil => exact Keep.pure _ trivial
  | cons k t ih =>
    obtain ⟨v, p⟩ := k
    unfold Heap.purgeEach
    refine Keep.bind (Keep.getHolder sys hx v) fun y hy => ?_
    obtain ⟨hid, ho⟩ := y
    exact Keep.bind (Keep.holderDelete hy.2 _) fun _ _ => ih

theorem Keep.purge {r : Nat} (sys : Sys) {x : Id} (hx : x.reg = r) : Keep r (purge sys x) (fun _ => True) := by
  unfold Heap.purge
  refine Keep.bind (Keep.rdSim hx) fun so hso => ?_
  refine Keep.bind (Keep.rdTracer hso.2.2.1) fun tr _ => ?_
  refine Keep.ite (fun _ => ?_) fun _ => Keep.pure _ trivial
  refine Keep.bind (Keep.rdInval hso.2.2.2.1) fun inv _ => ?_
  refine Keep.bind (Keep.purgeEach sys hx inv) fun _ _ => ?_
  refine Keep.bind (by rw [hx]; exact Keep.new trivial rfl rfl (fun _ e => by cases e)) fun i hi => ?_
  exact Keep.updSim hx (fun so2 hso2 => ⟨hso2.1, hso2.2.1, hso2.2.2.1, hi, hso2.2.2.2.2⟩) (fun _ => rfl) (fun _ => rfl)
    (fun _ => rfl) (fun _ => rfl)


theorem Keep.transformPeriod {r : Nat} (pt : PT) (p : Period) : Keep r (transformPeriod pt p) (fun _ => True) := by
  cases pt with
  | same => exact Keep.pure _ trivial
  | lastMonth => exact Keep.ofPeriod _ fun _ _ => trivial

/-- what the engine's recursion is assumed to be: keeping the region tidy when called on a simulation of it -/
def RecKeep (r : Nat) (rec : Id → Var → Period → HM Vec) : Prop :=
  ∀ x v p, x.reg = r → Keep r (rec x v p) (fun _ => True)

theorem Keep.evalTerm {r : Nat} (sys : Sys) {rec : Id → Var → Period → HM Vec} (hrec : RecKeep r rec)
    {pid : Id} (hp : pid.reg = r) (ent : Nat) (p : Period) (t : Term) :
    Keep r (evalTerm sys rec pid ent p t) (fun _ => True) := by
  unfold Heap.evalTerm
  refine Keep.bind (Keep.transformPeriod _ _) fun p' _ => ?_
  refine Keep.bind (Keep.varDecl sys _) fun ddecl _ => ?_
  refine Keep.bind (Keep.rdPop hp) fun po hpo => ?_
  cases t.via with
  | same => exact Keep.ite (fun _ => Keep.fail _) fun _ => hrec _ _ _ hpo.1
  | enumIs k =>
    simp only
    refine Keep.ite (fun _ => Keep.fail _) fun _ => ?_
    exact Keep.bind (hrec _ _ _ hpo.1) fun a _ => Keep.pure _ trivial
  | members =>
    simp only
    refine Keep.bind (Q := fun (m : Id) => m.reg = r) (Keep.ofOption _ _ fun a ha => hpo.2.2 a ha) fun mid hmid => ?_
    refine Keep.bind (Keep.rdPop hmid) fun mo hmo => ?_
    refine Keep.ite (fun _ => Keep.fail _) fun _ => ?_
    refine Keep.bind (hrec _ _ _ hmo.1) fun a _ => ?_
    exact Keep.ite (fun _ => Keep.fail _) fun _ => Keep.pure _ trivial
  | project =>
    simp only
    refine Keep.bind (Keep.rdSim hpo.1) fun so hso => ?_
    refine Keep.bind (Q := fun (g : Id) => g.reg = r) (Keep.ofOption _ _ fun a ha => hso.2.1 _ (alGet_mem ha)) fun gid hgid => ?_
    refine Keep.ite (fun _ => Keep.fail _) fun _ => ?_
    refine Keep.bind (Keep.rdPop hgid) fun go hgo => ?_
    refine Keep.bind (hrec _ _ _ hgo.1) fun a _ => ?_
    exact Keep.ite (fun _ => Keep.fail _) fun _ => Keep.ofOption _ _ fun _ _ => trivial
  | membersRole role =>
    simp only
    refine Keep.bind (Q := fun (m : Id) => m.reg = r) (Keep.ofOption _ _ fun a ha => hpo.2.2 a ha) fun mid hmid => ?_
    refine Keep.bind (Keep.rdPop hmid) fun mo hmo => ?_
    refine Keep.ite (fun _ => Keep.fail _) fun _ => ?_
    refine Keep.bind (hrec _ _ _ hmo.1) fun a _ => ?_
    refine Keep.ite (fun _ => Keep.fail _) fun _ => ?_
    refine Keep.bind (Keep.rdSim hmo.1) fun so hso => ?_
    refine Keep.bind (Q := fun (g : Id) => g.reg = r) (Keep.ofOption _ _ fun a ha => hso.2.1 _ (alGet_mem ha)) fun gid hgid => ?_
    refine Keep.bind (Keep.rdPop hgid) fun go _ => ?_
    exact Keep.ite (fun _ => Keep.fail _) fun _ => Keep.pure _ trivial
  | nbPersons role =>
    simp only
    exact Keep.ite (fun _ => Keep.fail _) fun _ => Keep.pure _ trivial
  | hasRole g role =>
    simp only
    refine Keep.bind (Keep.rdSim hpo.1) fun so hso => ?_
    refine Keep.bind (Q := fun (g : Id) => g.reg = r) (Keep.ofOption _ _ fun a ha => hso.2.1 _ (alGet_mem ha)) fun gid hgid => ?_
    exact Keep.bind (Keep.rdPop hgid) fun go _ => Keep.pure _ trivial
  | param => exact Keep.pure _ trivial
  | nth k =>
    simp only
    refine Keep.bind (Q := fun (m : Id) => m.reg = r) (Keep.ofOption _ _ fun a ha => hpo.2.2 a ha) fun mid hmid => ?_
    refine Keep.bind (Keep.rdPop hmid) fun mo hmo => ?_
    refine Keep.ite (fun _ => Keep.fail _) fun _ => ?_
    refine Keep.bind (hrec _ _ _ hmo.1) fun a _ => ?_
    refine Keep.ite (fun _ => Keep.fail _) fun _ => ?_
    exact Keep.ite (fun _ => Keep.fail _) fun _ => Keep.ofOption _ _ fun _ _ => trivial

theorem Keep.evalTerms {r : Nat} (sys : Sys) {rec : Id → Var → Period → HM Vec} (hrec : RecKeep r rec)
    {pid : Id} (hp : pid.reg = r) (ent : Nat) (p : Period) (ts : List Term) (acc : Vec) :
    Keep r (evalTerms sys rec pid ent p ts acc) (fun _ => True) := by
  induction ts generalizing acc with
  | nil => exact Keep.pure _ trivial
  | cons t rest ih =>
    unfold Heap.evalTerms
    refine Keep.bind (Keep.evalTerm sys hrec hp ent p t) fun a _ => ?_
    exact Keep.ite (fun _ => Keep.fail _) fun _ => ih _

theorem Keep.formulaValue {r : Nat} (sys : Sys) {rec : Id → Var → Period → HM Vec} (hrec : RecKeep r rec)
    (p : Period) (decl : VarDecl) {pid : Id} (hp : pid.reg = r) {ho : HolderObj} (hho : InReg r (.holder ho)) :
    Keep r (formulaValue sys rec p decl pid ho) (fun _ => True) := by
  unfold Heap.formulaValue
  cases decl.formula with
  | none => exact Keep.holderDefault sys hho
  | some ct =>
    refine Keep.ite (fun _ => Keep.fail _) fun _ => ?_
    exact Keep.bind (Keep.rdPop hp) fun po _ => Keep.evalTerms sys hrec hp _ _ _ _

theorem Keep.computeAndStore {r : Nat} (sys : Sys) {rec : Id → Var → Period → HM Vec} (hrec : RecKeep r rec)
    {x : Id} (hx : x.reg = r) (v : Var) (p : Period) (decl : VarDecl) {pid : Id} (hp : pid.reg = r)
    {ho : HolderObj} (hho : InReg r (.holder ho)) :
    Keep r (computeAndStore sys rec x v p decl pid ho) (fun _ => True) := by
  unfold Heap.computeAndStore
  refine Keep.bind (Keep.checkForCycle hx v p) fun _ _ => ?_
  refine Keep.bind (Keep.formulaValue sys hrec p decl hp hho) fun a _ => ?_
  exact Keep.bind (Keep.putInCache sys hho p a) fun _ _ => Keep.pure _ trivial

theorem Keep.invalidateEntry {r : Nat} {x : Id} (hx : x.reg = r) (v : Var) (p : Period) :
    Keep r (invalidateEntry x v p) (fun _ => True) := by
  unfold Heap.invalidateEntry
  refine Keep.bind (Keep.rdSim hx) fun so hso => ?_
  exact Keep.bind (Keep.rdInval hso.2.2.2.1) fun inv _ => Keep.wrLeaf hso.2.2.2.1 trivial

theorem Keep.taintOnHit {r : Nat} {x : Id} (hx : x.reg = r) (v : Var) (p : Period) (et : Bool) :
    Keep r (taintOnHit x v p et) (fun _ => True) := by
  unfold Heap.taintOnHit
  refine Keep.bind (Keep.rdSim hx) fun so hso => ?_
  refine Keep.bind (Keep.rdInval hso.2.2.2.1) fun inv _ => ?_
  refine Keep.ite (fun _ => ?_) fun _ => Keep.pure _ trivial
  exact Keep.bind (Keep.rdTracer hso.2.2.1) fun tr _ => Keep.wrLeaf hso.2.2.2.1 trivial

theorem Keep.calcInner {r : Nat} (sys : Sys) {rec : Id → Var → Period → HM Vec} (hrec : RecKeep r rec)
    {x : Id} (hx : x.reg = r) (v : Var) (p : Period) : Keep r (calcInner sys rec x v p) (fun _ => True) := by
  unfold Heap.calcInner
  refine Keep.bind (Keep.varDecl sys v) fun decl _ => ?_
  refine Keep.bind (Keep.rdSim hx) fun so hso => ?_
  refine Keep.bind (Q := fun (g : Id) => g.reg = r) (Keep.ofOption _ _ fun a ha => hso.2.1 _ (alGet_mem ha)) fun pid hpid => ?_
  refine Keep.bind (Keep.getHolder sys hx v) fun y hy => ?_
  obtain ⟨hid, ho⟩ := y
  refine Keep.ite (fun _ => Keep.fail _) fun _ => ?_
  refine Keep.bind (Keep.holderFind hy.2 p) fun found _ => ?_
  cases found with
  | some a => exact Keep.bind (Keep.taintOnHit hx v p _) fun _ _ => Keep.pure _ trivial
  | none => exact Keep.catchSpiral (Keep.computeAndStore sys hrec hx v p decl hpid hy.2) (Keep.holderDefault sys hy.2)

theorem Keep.calcF {r : Nat} (sys : Sys) (n : Nat) : RecKeep r (calcF sys n) := by
  induction n with
  | zero => intro x v p _; exact Keep.fail _
  | succ n ih =>
    intro x v p hx
    unfold Heap.calcF
    refine Keep.bind (Keep.tracerStart hx v p) fun _ _ => ?_
    exact Keep.tryFinally (Keep.calcInner sys ih hx v p) (Keep.bind (Keep.tracerEnd hx) fun _ _ => Keep.purge sys hx)

theorem Keep.sumCalc {r : Nat} (sys : Sys) (n : Nat) {x : Id} (hx : x.reg = r) (v : Var) (ps : List Period)
    (acc : Option Vec) : Keep r (sumCalc sys n x v ps acc) (fun _ => True) := by
  induction ps generalizing acc with
  | nil => exact Keep.pure _ trivial
  | cons sp rest ih =>
    unfold Heap.sumCalc
    exact Keep.bind (Keep.calcF sys n x v sp hx) fun a _ => ih _

theorem Keep.calcAdd {r : Nat} (sys : Sys) (n : Nat) {x : Id} (hx : x.reg = r) (v : Var) (p : Period) :
    Keep r (calcAdd sys n x v p) (fun _ => True) := by
  unfold Heap.calcAdd
  refine Keep.bind (Keep.varDecl sys v) fun decl _ => ?_
  refine Keep.ite (fun _ => Keep.fail _) fun _ => ?_
  refine Keep.ite (fun _ => Keep.fail _) fun _ => ?_
  refine Keep.ite (fun _ => Keep.fail _) fun _ => ?_
  refine Keep.bind (Keep.ofPeriod _ fun _ _ => trivial) fun subs _ => ?_
  exact Keep.sumCalc sys n hx v subs none

theorem Keep.routePop {r : Nat} {x : Id} (hx : x.reg = r) (rt : Route) (ent : Nat) :
    Keep r (routePop x rt ent) (fun pid => pid.reg = r) := by
  unfold Heap.routePop
  refine Keep.bind (Keep.rdSim hx) fun so hso => ?_
  cases rt with
  | persons => exact Keep.pure _ hso.1
  | getPopulation => exact Keep.ofOption _ _ fun a ha => hso.2.1 _ (alGet_mem ha)
  | populations => exact Keep.ofOption _ _ fun a ha => hso.2.1 _ (alGet_mem ha)
  | shortcut => exact Keep.ofOption _ _ fun a ha => hso.2.1 _ (alGet_mem ha)

theorem Keep.calcThrough {r : Nat} (sys : Sys) (n : Nat) {x : Id} (hx : x.reg = r) (rt : Route) (ent : Nat) (v : Var)
    (p : Period) : Keep r (calcThrough sys n x rt ent v p) (fun _ => True) := by
  unfold Heap.calcThrough
  refine Keep.bind (Keep.routePop hx rt ent) fun pid hpid => ?_
  refine Keep.bind (Keep.rdPop hpid) fun po hpo => ?_
  refine Keep.bind (Keep.varDecl sys v) fun decl _ => ?_
  exact Keep.ite (fun _ => Keep.fail _) fun _ => Keep.calcF sys n _ v p hpo.1

theorem Keep.popGetHolder {r : Nat} (sys : Sys) {pid : Id} (hp : pid.reg = r) (v : Var) :
    Keep r (popGetHolder sys r pid v) (fun y => y.1.reg = r ∧ InReg r (.holder y.2)) := by
  unfold Heap.popGetHolder
  refine Keep.bind (Keep.varDecl sys v) fun decl _ => ?_
  refine Keep.bind (Keep.rdPop hp) fun po hpo => ?_
  refine Keep.ite (fun _ => Keep.fail _) fun _ => ?_
  cases hh : alGet po.holders v with
  | none => exact Keep.createHolder sys hp v
  | some hid =>
    have hhid : hid.reg = r := hpo.2.1 _ (alGet_mem hh)
    exact Keep.bind (Keep.rdHolder hhid) fun ho hho => Keep.pure _ ⟨hhid, hho⟩

theorem Keep.readThrough {r : Nat} (sys : Sys) {x : Id} (hx : x.reg = r) (rt : Route) (ent : Nat) (v : Var) (p : Period) :
    Keep r (readThrough sys x rt ent v p) (fun _ => True) := by
  unfold Heap.readThrough
  refine Keep.bind (Keep.routePop hx rt ent) fun pid hpid => ?_
  refine Keep.bind (by rw [hx]; exact Keep.popGetHolder sys hpid v) fun y hy => ?_
  obtain ⟨hid, ho⟩ := y
  exact Keep.holderFind hy.2 p

/-- every public-API call on a simulation of region `r` keeps region `r` closed and tidy -/
theorem step_keep {r : Nat} (sys : Sys) (fuel : Nat) {x : Id} (hx : x.reg = r) (op : Op) :
    Keep r (step sys fuel x op) (fun _ => True) := by
  cases op with
  | setInput v p a =>
    unfold step
    exact Keep.bind (Keep.setInput sys hx v p a) fun _ _ => Keep.pure _ trivial
  | deleteArrays v p =>
    unfold step
    exact Keep.bind (Keep.deleteArrays sys hx v p) fun _ _ => Keep.pure _ trivial
  | calculate v p =>
    unfold step
    exact Keep.bind (Keep.calcF sys fuel x v p hx) fun _ _ => Keep.pure _ trivial
  | calculateAdd v p =>
    unfold step
    refine Keep.bind (Keep.calcAdd sys fuel hx v p) fun a _ => ?_
    cases a with
    | none => exact Keep.pure _ trivial
    | some a => exact Keep.pure _ trivial
  | setTrace b =>
    unfold step
    exact Keep.bind (Keep.setTrace hx b) fun _ _ => Keep.pure _ trivial
  | touch v =>
    unfold step
    exact Keep.bind (Keep.getHolder sys hx v) fun _ _ => Keep.pure _ trivial
  | setBad v p =>
    unfold step
    exact Keep.bind (Keep.setInputBad sys hx v p) fun _ _ => Keep.pure _ trivial
  | calcVia rt ent v p =>
    unfold step
    exact Keep.bind (Keep.calcThrough sys fuel hx rt ent v p) fun _ _ => Keep.pure _ trivial
  | readVia rt ent v p =>
    unfold step
    refine Keep.bind (Keep.readThrough sys hx rt ent v p) fun a _ => ?_
    cases a with
    | none => exact Keep.pure _ trivial
    | some a => exact Keep.pure _ trivial
  | invalidate v p =>
    unfold step
    exact Keep.bind (Keep.invalidateEntry hx v p) fun _ _ => Keep.pure _ trivial


end OFCore.Heap
