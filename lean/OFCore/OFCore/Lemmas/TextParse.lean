import OFCore.Lemmas.TextForms
import OFCore.Lemmas.Iso
import OFCore.Lemmas.Period
/-! # Parsing what the printer prints: the two shapes (plain ISO spelling, `unit:ISO[:size]`) -/
namespace OFCore

theorem lexIso_unit_prefix (u : DUnit) (hu : u ≠ .eternity) (rest : List Char) :
    lexIso (u.name.toList ++ ':' :: rest) = none ∧
    (∃ c cs, u.name.toList ++ ':' :: rest = c :: cs ∧ c.toLower ≠ 'e') ∧
    ':' ∉ u.name.toList ∧ unitOfName? (String.ofList u.name.toList) = some u := by
  cases u
  · refine ⟨?_, ⟨'w', _, rfl, by decide⟩, by decide, by decide⟩
    show lexIso ('w' :: 'e' :: 'e' :: 'k' :: _) = none
    simp [lexIso, digitsVal, digitVal]
  · refine ⟨?_, ⟨'w', _, rfl, by decide⟩, by decide, by decide⟩
    show lexIso ('w' :: 'e' :: 'e' :: 'k' :: _) = none
    simp [lexIso, digitsVal, digitVal]
  · refine ⟨?_, ⟨'d', _, rfl, by decide⟩, by decide, by decide⟩
    show lexIso ('d' :: 'a' :: 'y' :: ':' :: _) = none
    simp [lexIso, digitsVal, digitVal]
  · refine ⟨?_, ⟨'m', _, rfl, by decide⟩, by decide, by decide⟩
    show lexIso ('m' :: 'o' :: 'n' :: 't' :: _) = none
    simp [lexIso, digitsVal, digitVal]
  · refine ⟨?_, ⟨'y', _, rfl, by decide⟩, by decide, by decide⟩
    show lexIso ('y' :: 'e' :: 'a' :: 'r' :: _) = none
    simp [lexIso, digitsVal, digitVal]
  · exact absurd rfl hu

/-- a plain ISO spelling starting with a digit is handed to `parse_period` -/
theorem parse_plain (cs : List Char) (tok : Tok) (c : Char) (rest : List Char) (hcs : cs = c :: rest)
    (hc : IsDig c) (hlex : lexIso cs = some tok) : parsePeriod cs = parseIsoPeriod cs := by
  unfold parsePeriod
  rw [if_neg (by rw [hcs]; exact lower_ne_eternity c rest hc.lower_ne_e)]
  rw [if_pos (by rw [hlex]; rfl)]

/-- `unit:ISO` -/
theorem parse_prefixed1 (u : DUnit) (hu : u ≠ .eternity) (iso : List Char) (tok : Tok)
    (hlex : lexIso iso = some tok) (hnc : ':' ∉ iso) (base : Period)
    (hbase : parseIsoPeriod iso = .ok base) (hw : finerThanDate u base.unit = false) :
    parsePeriod (u.name.toList ++ ':' :: iso) = .ok ⟨u, base.start, 1⟩ := by
  obtain ⟨h1, ⟨c, cs, hcs, hc⟩, h3, h4⟩ := lexIso_unit_prefix u hu iso
  unfold parsePeriod
  rw [if_neg (by rw [hcs]; exact lower_ne_eternity c cs hc)]
  rw [if_neg (by rw [h1]; simp)]
  rw [splitOn_append ':' _ _ h3, splitOn_none ':' _ hnc]
  simp only [parseUnitForm, sizeField, hlex, Option.isNone_some, Bool.false_eq_true, if_false, h4, hbase]
  cases u <;> first | exact absurd rfl hu | (simp only [hw, Bool.false_eq_true, if_false])

/-- `unit:ISO:size` -/
theorem parse_prefixed2 (u : DUnit) (hu : u ≠ .eternity) (iso : List Char) (tok : Tok)
    (hlex : lexIso iso = some tok) (hnc : ':' ∉ iso) (base : Period)
    (hbase : parseIsoPeriod iso = .ok base) (hw : finerThanDate u base.unit = false) (n : Nat) :
    parsePeriod (u.name.toList ++ ':' :: (iso ++ ':' :: natDigits n)) = .ok ⟨u, base.start, n⟩ := by
  obtain ⟨h1, ⟨c, cs, hcs, hc⟩, h3, h4⟩ := lexIso_unit_prefix u hu (iso ++ ':' :: natDigits n)
  have hnn : ':' ∉ natDigits n := fun hm => (natDigits_isDig n _ hm).ne_colon rfl
  unfold parsePeriod
  rw [if_neg (by rw [hcs]; exact lower_ne_eternity c cs hc)]
  rw [if_neg (by rw [h1]; simp)]
  rw [splitOn_append ':' _ _ h3, splitOn_append ':' _ _ hnc, splitOn_none ':' _ hnn]
  simp only [parseUnitForm, sizeField, hlex, Option.isNone_some, Bool.false_eq_true, if_false, h4, hbase, pyInt_natDigits]
  cases u <;> first | exact absurd rfl hu | (simp only [hw, Bool.false_eq_true, if_false])

/-! ## a string the ISO expressions accept begins with a digit (so it is not `eternity`) -/
theorem digitVal_some_isDig (a : Char) (k : Nat) (h : digitVal a = some k) : IsDig a := by
  unfold digitVal at h
  split at h
  · rename_i hr
    obtain ⟨h0, h9⟩ := hr
    have h9' : a.toNat ≤ 57 := h9
    have h0' : 48 ≤ a.toNat := h0
    have ha : a = Char.ofNat a.toNat := (Char.ofNat_toNat a).symm
    have hc : a.toNat = 48 ∨ a.toNat = 49 ∨ a.toNat = 50 ∨ a.toNat = 51 ∨ a.toNat = 52 ∨ a.toNat = 53 ∨
        a.toNat = 54 ∨ a.toNat = 55 ∨ a.toNat = 56 ∨ a.toNat = 57 := by omega
    rcases hc with e | e | e | e | e | e | e | e | e | e <;> rw [ha, e]
    · exact ⟨0, by omega, by decide⟩
    · exact ⟨1, by omega, by decide⟩
    · exact ⟨2, by omega, by decide⟩
    · exact ⟨3, by omega, by decide⟩
    · exact ⟨4, by omega, by decide⟩
    · exact ⟨5, by omega, by decide⟩
    · exact ⟨6, by omega, by decide⟩
    · exact ⟨7, by omega, by decide⟩
    · exact ⟨8, by omega, by decide⟩
    · exact ⟨9, by omega, by decide⟩
  · cases h

theorem lexIso_first_digit (cs : List Char) (t : Tok) (h : lexIso cs = some t) :
    ∃ c rest, cs = c :: rest ∧ IsDig c := by
  unfold lexIso at h
  split at h
  · rename_i a b c d rest
    refine ⟨a, _, rfl, ?_⟩
    cases ha : digitVal a with
    | some k => exact digitVal_some_isDig a k ha
    | none =>
      exfalso
      have : digitsVal [a, b, c, d] = none := by
        simp only [digitsVal, List.foldl, ha]
      rw [this] at h; cases h
  · cases h

/-- a bare ISO spelling is handed to `parse_period` -/
theorem parse_plain' (cs : List Char) (tok : Tok) (hlex : lexIso cs = some tok) : parsePeriod cs = parseIsoPeriod cs := by
  obtain ⟨c, rest, hcs, hc⟩ := lexIso_first_digit cs tok hlex
  exact parse_plain cs tok c rest hcs hc hlex

end OFCore
