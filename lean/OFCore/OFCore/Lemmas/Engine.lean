import OFCore.Engine
/-!
# Engine lemmas (core Lean only)

* fuel monotonicity and determinism of the meaning `den`;
* stack discipline of the machine (`run_stack`): whatever happens, the stack comes back;
* ghost-provenance invariant (`run_clean`): every untainted cache entry / result is the meaning,
  for ALL rule systems (cyclic, spiralling, faulty) and any spiral limit;
* variable-ranked (acyclic) systems: machine = meaning from any consistent state (`run_eq_den`).
-/
set_option linter.unusedVariables false
namespace OFCore.Engine

variable {P : Type} [DecidableEq P]

/-! ## fuel monotonicity -/
mutual
theorem den_mono (sys : Sys P) : ∀ n v p r, den sys n v p = some r → den sys (n+1) v p = some r
  | 0, _, _, _, h => by simp [den] at h
  | n+1, v, p, r, h => by
    unfold den at h ⊢
    split at h
    · exact h
    · split at h
      · exact h
      · split at h
        · cases h
        · rename_i er he; rw [denE_mono sys n _ _ he]; exact h
        · rename_i x he; rw [denE_mono sys n _ _ he]; exact h
theorem denE_mono (sys : Sys P) : ∀ n e r, denE sys n e = some r → denE sys (n+1) e = some r
  | _, .const c, r, h => by simpa [denE] using h
  | _, .bad, r, h => by simpa [denE] using h
  | n, .ref v p, r, h => by simp only [denE] at h ⊢; exact den_mono sys n v p r h
  | n, .fail id a, r, h => by
    simp only [denE] at h ⊢
    split at h
    · rename_i ha; rw [if_pos ha]; exact h
    · rename_i ha; rw [if_neg ha]; exact denE_mono sys n a r h
  | n, .op1 o a, r, h => by
    simp only [denE] at h ⊢
    split at h
    · cases h
    · rename_i e ha; rw [denE_mono sys n a _ ha]; exact h
    · rename_i x ha; rw [denE_mono sys n a _ ha]; exact h
  | n, .op2 o a b, r, h => by
    simp only [denE] at h ⊢
    split at h
    · cases h
    · rename_i e ha; rw [denE_mono sys n a _ ha]; exact h
    · rename_i x ha
      rw [denE_mono sys n a _ ha]
      simp only
      split at h
      · cases h
      · rename_i e hb; rw [denE_mono sys n b _ hb]; exact h
      · rename_i y hb; rw [denE_mono sys n b _ hb]; exact h
end

theorem denE_mono_le (sys : Sys P) {n m e r} (h : denE sys n e = some r) (hle : n ≤ m) :
    denE sys m e = some r := by
  induction hle with
  | refl => exact h
  | step _ ih => exact denE_mono sys _ e r ih

theorem den_mono_le (sys : Sys P) {n m v p r} (h : den sys n v p = some r) (hle : n ≤ m) :
    den sys m v p = some r := by
  induction hle with
  | refl => exact h
  | step _ ih => exact den_mono sys _ v p r ih

theorem den_det (sys : Sys P) {n m v p r r'} (h1 : den sys n v p = some r)
    (h2 : den sys m v p = some r') : r = r' := by
  have a := den_mono_le sys h1 (Nat.le_max_left n m)
  have b := den_mono_le sys h2 (Nat.le_max_right n m)
  rw [a] at b; exact Option.some.inj b

/-! ## stack discipline: `finally` pops, whatever happens -/
mutual
theorem run_stack (sys : Sys P) : ∀ n s v p r g s', run sys n s v p = some (r, g, s') → s'.stack = s.stack
  | 0, _, _, _, _, _, _, h => by simp [run] at h
  | n+1, s, v, p, r, g, s', h => by
    unfold run at h
    split at h
    · simp only [Option.some.injEq, Prod.mk.injEq] at h
      obtain ⟨_, _, rfl⟩ := h
      split <;> rfl
    · split at h
      · simp only [Option.some.injEq, Prod.mk.injEq] at h; obtain ⟨_, _, rfl⟩ := h; rfl
      · split at h
        · simp only [Option.some.injEq, Prod.mk.injEq] at h; obtain ⟨_, _, rfl⟩ := h; rfl
        · split at h
          · simp only [Option.some.injEq, Prod.mk.injEq] at h; obtain ⟨_, _, rfl⟩ := h; rfl
          · split at h
            · simp only [Option.some.injEq, Prod.mk.injEq] at h; obtain ⟨_, _, rfl⟩ := h; rfl
            · split at h
              · cases h
              · rename_i er g1 s1 hr
                have := runE_stack sys n _ _ _ _ _ hr
                simp only [Option.some.injEq, Prod.mk.injEq] at h; obtain ⟨_, _, rfl⟩ := h
                simp [this]
              · rename_i x g1 s1 hr
                have := runE_stack sys n _ _ _ _ _ hr
                simp only [Option.some.injEq, Prod.mk.injEq] at h; obtain ⟨_, _, rfl⟩ := h
                simp [this]
theorem runE_stack (sys : Sys P) : ∀ n s e r g s', runE sys n s e = some (r, g, s') → s'.stack = s.stack
  | _, s, .const k, r, g, s', h => by
    simp only [runE, Option.some.injEq, Prod.mk.injEq] at h; obtain ⟨_, _, rfl⟩ := h; rfl
  | _, s, .bad, r, g, s', h => by
    simp only [runE, Option.some.injEq, Prod.mk.injEq] at h; obtain ⟨_, _, rfl⟩ := h; rfl
  | n, s, .ref v p, r, g, s', h => by simp only [runE] at h; exact run_stack sys n s v p r g s' h
  | n, s, .fail id a, r, g, s', h => by
    simp only [runE] at h
    split at h
    · simp only [Option.some.injEq, Prod.mk.injEq] at h; obtain ⟨_, _, rfl⟩ := h; rfl
    · exact runE_stack sys n s a r g s' h
  | n, s, .op1 o a, r, g, s', h => by
    simp only [runE] at h
    split at h
    · cases h
    · rename_i e g1 s1 ha
      simp only [Option.some.injEq, Prod.mk.injEq] at h; obtain ⟨_, _, rfl⟩ := h
      exact runE_stack sys n s a _ _ _ ha
    · rename_i x g1 s1 ha
      simp only [Option.some.injEq, Prod.mk.injEq] at h; obtain ⟨_, _, rfl⟩ := h
      exact runE_stack sys n s a _ _ _ ha
  | n, s, .op2 o a b, r, g, s', h => by
    simp only [runE] at h
    split at h
    · cases h
    · rename_i e g1 s1 ha
      simp only [Option.some.injEq, Prod.mk.injEq] at h; obtain ⟨_, _, rfl⟩ := h
      exact runE_stack sys n s a _ _ _ ha
    · rename_i x g1 s1 ha
      have h1 := runE_stack sys n s a _ _ _ ha
      split at h
      · cases h
      · rename_i e g2 s2 hb
        simp only [Option.some.injEq, Prod.mk.injEq] at h; obtain ⟨_, _, rfl⟩ := h
        rw [runE_stack sys n s1 b _ _ _ hb, h1]
      · rename_i y g2 s2 hb
        simp only [Option.some.injEq, Prod.mk.injEq] at h; obtain ⟨_, _, rfl⟩ := h
        rw [runE_stack sys n s1 b _ _ _ hb, h1]
end

/-! ## ghost provenance: untainted = meaning, for all systems -/

/-- nodes stored under the same slot have the same rules (an eternal variable's formula and
    inputs do not depend on the period it is requested for) -/
def KeyCoherent (sys : Sys P) : Prop :=
  ∀ v p p', sys.ckey v p = sys.ckey v p' → sys.formula v p = sys.formula v p' ∧ sys.input v p = sys.input v p'

theorem den_coherent (sys : Sys P) (hk : KeyCoherent sys) {v : Nat} {p p' : P}
    (h : sys.ckey v p = sys.ckey v p') : ∀ n, den sys n v p = den sys n v p'
  | 0 => by simp [den]
  | n+1 => by
    obtain ⟨h1, h2⟩ := hk v p p' h
    unfold den
    rw [h1, h2]

/-- nodes stored under the same slot have the same meaning (semantic form; implied by
    `KeyCoherent`, and trivially true when every node has its own slot) -/
def SlotCoherent (sys : Sys P) : Prop :=
  ∀ v p p', sys.ckey v p = sys.ckey v p' → ∀ n, den sys n v p = den sys n v p'

theorem slotCoherent_of_keyCoherent (sys : Sys P) (hk : KeyCoherent sys) : SlotCoherent sys :=
  fun v p p' h n => den_coherent sys hk h n

theorem slotCoherent_of_id (sys : Sys P) (hid : ∀ v p, sys.ckey v p = p) : SlotCoherent sys := by
  intro v p p' h n
  rw [hid, hid] at h
  rw [h]

theorem slot_eq_iff (sys : Sys P) (v v' : Nat) (p p' : P) :
    sys.slot (v', p') = sys.slot (v, p) ↔ v' = v ∧ sys.ckey v' p' = sys.ckey v p := by
  simp [Sys.slot]

/-- ghost-clean cache: untainted entries are the meaning of every node stored under their slot -/
def GClean (sys : Sys P) (c : Cache P) : Prop :=
  ∀ v p x, lookup c (sys.slot (v, p)) = some (x, false) → ∃ n, den sys n v p = some (.ok x)

theorem gclean_insert (sys : Sys P) (hk : SlotCoherent sys) {c : Cache P} {v p x g}
    (hc : GClean sys c) (h : g = false → ∃ n, den sys n v p = some (.ok x)) :
    GClean sys ((sys.slot (v, p), (x, g)) :: c) := by
  intro v' p' y hk'
  simp only [lookup] at hk'
  split at hk'
  · rename_i heq
    simp only [Option.some.injEq, Prod.mk.injEq] at hk'
    obtain ⟨rfl, rfl⟩ := hk'
    obtain ⟨n, hn⟩ := h rfl
    have hs := (slot_eq_iff sys v' v p' p).1 heq
    obtain ⟨rfl, hck⟩ := hs
    exact ⟨n, by rw [← hk v p p' hck n]; exact hn⟩
  · exact hc v' p' y hk'

theorem gclean_store (sys : Sys P) (hk : SlotCoherent sys) {c : Cache P} {v p x g}
    (hc : GClean sys c) (h : g = false → ∃ n, den sys n v p = some (.ok x)) :
    GClean sys (store sys c (sys.slot (v, p)) x g) := by
  unfold store
  split
  · exact hc
  · exact gclean_insert sys hk hc h

mutual
theorem run_clean (sys : Sys P) (hk : SlotCoherent sys) : ∀ n s v p r g s', GClean sys s.cache → run sys n s v p = some (r, g, s') →
    GClean sys s'.cache ∧ (g = false → ∀ x, r = .ok x → ∃ m, den sys m v p = some (.ok x))
  | 0, _, _, _, _, _, _, _, h => by simp [run] at h
  | n+1, s, v, p, r, g, s', hc, h => by
    unfold run at h
    split at h
    · rename_i x gx hx
      simp only [Option.some.injEq, Prod.mk.injEq] at h
      obtain ⟨rfl, rfl, rfl⟩ := h
      refine ⟨by split <;> exact hc, ?_⟩
      intro hg y hy
      cases hy
      subst hg
      exact hc v p x hx
    · split at h
      · rename_i x hin
        simp only [Option.some.injEq, Prod.mk.injEq] at h
        obtain ⟨rfl, rfl, rfl⟩ := h
        refine ⟨hc, fun _ y hy => ?_⟩
        cases hy
        exact ⟨1, by simp [den, hin]⟩
      · rename_i hin
        split at h
        · simp only [Option.some.injEq, Prod.mk.injEq] at h
          obtain ⟨rfl, rfl, rfl⟩ := h
          exact ⟨hc, fun _ y hy => by cases hy⟩
        · split at h
          · simp only [Option.some.injEq, Prod.mk.injEq] at h
            obtain ⟨rfl, rfl, rfl⟩ := h
            exact ⟨hc, fun hg => by cases hg⟩
          · split at h
            · rename_i hf
              simp only [Option.some.injEq, Prod.mk.injEq] at h
              obtain ⟨rfl, rfl, rfl⟩ := h
              have key : ∃ m, den sys m v p = some (.ok (sys.post v (sys.dflt v))) :=
                ⟨1, by simp [den, hin, hf]⟩
              refine ⟨gclean_store sys hk hc (fun _ => key), fun _ y hy => ?_⟩
              cases hy
              exact key
            · rename_i e hf
              split at h
              · cases h
              · rename_i er g1 s1 hr
                have ih := runE_clean sys hk n { s with stack := (v, p) :: s.stack } e _ _ _ hc hr
                simp only [Option.some.injEq, Prod.mk.injEq] at h
                obtain ⟨rfl, rfl, rfl⟩ := h
                exact ⟨ih.1, fun _ y hy => by cases hy⟩
              · rename_i x g1 s1 hr
                have ih := runE_clean sys hk n { s with stack := (v, p) :: s.stack } e _ _ _ hc hr
                simp only [Option.some.injEq, Prod.mk.injEq] at h
                obtain ⟨rfl, rfl, rfl⟩ := h
                have key : g1 = false → ∃ m, den sys m v p = some (.ok (sys.post v x)) := fun hg => by
                  obtain ⟨m, hm⟩ := ih.2 hg x rfl
                  exact ⟨m+1, by simp [den, hin, hf, hm]⟩
                refine ⟨gclean_store sys hk ih.1 key, fun hg y hy => ?_⟩
                cases hy
                exact key hg
theorem runE_clean (sys : Sys P) (hk : SlotCoherent sys) : ∀ n s e r g s', GClean sys s.cache → runE sys n s e = some (r, g, s') →
    GClean sys s'.cache ∧ (g = false → ∀ x, r = .ok x → ∃ m, denE sys m e = some (.ok x))
  | _, s, .const k, r, g, s', hc, h => by
    simp only [runE, Option.some.injEq, Prod.mk.injEq] at h
    obtain ⟨rfl, rfl, rfl⟩ := h
    exact ⟨hc, fun _ y hy => by cases hy; exact ⟨0, by simp [denE]⟩⟩
  | _, s, .bad, r, g, s', hc, h => by
    simp only [runE, Option.some.injEq, Prod.mk.injEq] at h
    obtain ⟨rfl, rfl, rfl⟩ := h
    exact ⟨hc, fun _ y hy => by cases hy⟩
  | n, s, .ref v p, r, g, s', hc, h => by
    simp only [runE] at h
    have := run_clean sys hk n s v p r g s' hc h
    exact ⟨this.1, fun hg y hy => by
      obtain ⟨m, hm⟩ := this.2 hg y hy
      exact ⟨m, by simp [denE, hm]⟩⟩
  | n, s, .fail id a, r, g, s', hc, h => by
    simp only [runE] at h
    split at h
    · simp only [Option.some.injEq, Prod.mk.injEq] at h
      obtain ⟨rfl, rfl, rfl⟩ := h
      exact ⟨hc, fun _ y hy => by cases hy⟩
    · rename_i ha
      have := runE_clean sys hk n s a r g s' hc h
      exact ⟨this.1, fun hg y hy => by
        obtain ⟨m, hm⟩ := this.2 hg y hy
        exact ⟨m, by simp [denE, ha, hm]⟩⟩
  | n, s, .op1 o a, r, g, s', hc, h => by
    simp only [runE] at h
    split at h
    · cases h
    · rename_i er g1 s1 ha
      have iha := runE_clean sys hk n s a _ _ _ hc ha
      simp only [Option.some.injEq, Prod.mk.injEq] at h
      obtain ⟨rfl, rfl, rfl⟩ := h
      exact ⟨iha.1, fun _ y hy => by cases hy⟩
    · rename_i x g1 s1 ha
      have iha := runE_clean sys hk n s a _ _ _ hc ha
      simp only [Option.some.injEq, Prod.mk.injEq] at h
      obtain ⟨rfl, rfl, rfl⟩ := h
      refine ⟨iha.1, fun hg z hz => ?_⟩
      cases hz
      obtain ⟨m, hm⟩ := iha.2 hg x rfl
      exact ⟨m, by simp [denE, hm]⟩
  | n, s, .op2 o a b, r, g, s', hc, h => by
    simp only [runE] at h
    split at h
    · cases h
    · rename_i er g1 s1 ha
      have iha := runE_clean sys hk n s a _ _ _ hc ha
      simp only [Option.some.injEq, Prod.mk.injEq] at h
      obtain ⟨rfl, rfl, rfl⟩ := h
      exact ⟨iha.1, fun _ y hy => by cases hy⟩
    · rename_i x g1 s1 ha
      have iha := runE_clean sys hk n s a _ _ _ hc ha
      split at h
      · cases h
      · rename_i er g2 s2 hb
        have ihb := runE_clean sys hk n s1 b _ _ _ iha.1 hb
        simp only [Option.some.injEq, Prod.mk.injEq] at h
        obtain ⟨rfl, rfl, rfl⟩ := h
        exact ⟨ihb.1, fun _ y hy => by cases hy⟩
      · rename_i y g2 s2 hb
        have ihb := runE_clean sys hk n s1 b _ _ _ iha.1 hb
        simp only [Option.some.injEq, Prod.mk.injEq] at h
        obtain ⟨rfl, rfl, rfl⟩ := h
        refine ⟨ihb.1, fun hg z hz => ?_⟩
        cases hz
        have hg1 : g1 = false := by cases g1 <;> simp_all
        have hg2 : g2 = false := by cases g2 <;> simp_all
        obtain ⟨ma, hma⟩ := iha.2 hg1 x rfl
        obtain ⟨mb, hmb⟩ := ihb.2 hg2 y rfl
        refine ⟨max ma mb, ?_⟩
        simp only [denE]
        rw [denE_mono_le sys hma (Nat.le_max_left _ _), denE_mono_le sys hmb (Nat.le_max_right _ _)]
end

end OFCore.Engine
