import OFCore.RuleSys
import OFCore.Lemmas.Engine
import OFCore.Lemmas.EngineRanked
/-!
# Elaborated systems are slot-coherent

An eternal variable is stored under ETERNITY whatever period it is requested for.  Its meaning
does not depend on the requested period when (`EternalWF`) it has no end date, its formulas all
start on or before day 1, and its formulas read only fixed periods or other eternal variables at
the formula's own period.  (An eternal variable whose formula depends on the request period has
no period-independent meaning — the code then returns whichever period was asked first.)
-/
set_option linter.unusedVariables false
namespace OFCore.RuleSys
open OFCore OFCore.Engine

/-- reads that do not depend on the formula's own period -/
def PeriodFree (d : Decl) : DExpr → Prop
  | .const _ => True
  | .var w pt add =>
    (∃ q, pt = .fixed q) ∨
    (pt = .same ∧ add = false ∧ ∃ wv, d.vars[w]? = some wv ∧ wv.unit = .eternity)
  | .op1 _ a => PeriodFree d a
  | .op2 _ a b => PeriodFree d a ∧ PeriodFree d b
  | .fail _ a => PeriodFree d a

def EternalWF (d : Decl) : Prop :=
  ∀ (v : Nat) (vv : Var), d.vars[v]? = some vv → vv.unit = DUnit.eternity →
    vv.endOrd = none ∧ ∀ f ∈ vv.formulas, f.1 ≤ 1 ∧ PeriodFree d f.2

theorem startOrdOf_ge (p : Period) : 1 ≤ startOrdOf p := by
  unfold startOrdOf; split
  · exact Int.le_refl 1
  · exact Int.le_max_left 1 _

theorem pick_fold_indep (o o' : Int) : ∀ (fs : List (Int × DExpr)) (best : Option (Int × DExpr)),
    (∀ f ∈ fs, f.1 ≤ o ∧ f.1 ≤ o') → fs.foldl (pickStep o) best = fs.foldl (pickStep o') best
  | [], _, _ => rfl
  | f :: fs, best, h => by
    simp only [List.foldl_cons]
    have hf := h f List.mem_cons_self
    have e : pickStep o best f = pickStep o' best f := by
      unfold pickStep; rw [if_pos hf.1, if_pos hf.2]
    rw [e]
    exact pick_fold_indep o o' fs _ (fun g hg => h g (List.mem_cons_of_mem _ hg))

theorem formulaInForce_indep (vv : Var) (he : vv.endOrd = none) (hs : ∀ f ∈ vv.formulas, f.1 ≤ 1)
    (p p' : Period) : formulaInForce vv (startOrdOf p) = formulaInForce vv (startOrdOf p') := by
  unfold formulaInForce
  rw [he]
  simp only [pickFormula]
  rw [pick_fold_indep (startOrdOf p) (startOrdOf p') vv.formulas none
    (fun f hf => ⟨Int.le_trans (hs f hf) (startOrdOf_ge p), Int.le_trans (hs f hf) (startOrdOf_ge p')⟩)]

theorem storageKey_eternal (d : Decl) (v : Nat) (vv : Var) (hv : d.vars[v]? = some vv) (hu : vv.unit = .eternity)
    (p : Period) : storageKey d v p = Period.eternity := by
  simp [storageKey, hv, hu]

theorem storageKey_dated (d : Decl) (v : Nat) (p : Period)
    (h : ∀ vv, d.vars[v]? = some vv → vv.unit ≠ .eternity) : storageKey d v p = p := by
  unfold storageKey
  cases hv : d.vars[v]? with
  | none => rfl
  | some vv => simp [h vv hv]

theorem elab_formula (d : Decl) (armed : List Nat) (v : Nat) (vv : Var) (hv : d.vars[v]? = some vv) (p : Period) :
    (elabSys d armed).formula v p = (formulaInForce vv (startOrdOf p)).map (elabExpr d vv.entity p) := by
  simp [elabSys, hv]

/-- the meaning of an eternal variable does not depend on the requested period -/
theorem den_eternal_indep (d : Decl) (armed : List Nat) (hwf : EternalWF d) :
    ∀ (n : Nat) (v : Nat) (vv : Var), d.vars[v]? = some vv → vv.unit = .eternity →
      ∀ p p', den (elabSys d armed) n v p = den (elabSys d armed) n v p'
  | 0, _, _, _, _, _, _ => by simp [den]
  | n+1, v, vv, hv, hu, p, p' => by
    obtain ⟨hend, hfs⟩ := hwf v vv hv hu
    have ih := den_eternal_indep d armed hwf n
    -- expressions
    have hexp : ∀ (e : DExpr) (ent : Nat), PeriodFree d e →
        denE (elabSys d armed) n (elabExpr d ent p e) = denE (elabSys d armed) n (elabExpr d ent p' e) := by
      intro e
      induction e with
      | const k => intro ent _; rfl
      | var w pt add =>
        intro ent hpf
        simp only [elabExpr]
        cases hw : d.vars[w]? with
        | none => rfl
        | some wv =>
          simp only
          split
          · rcases hpf with ⟨q, rfl⟩ | ⟨rfl, rfl, wv', hw', hwu⟩
            · rfl
            · rw [hw] at hw'; injection hw' with hw'; subst hw'
              simp only [applyPT, elabRead, hw, servedPeriod, hwu, if_true, Bool.false_eq_true, if_false, denE]
              exact ih w wv hw hwu p p'
          · rfl
      | op1 o a iha =>
        intro ent hpf
        simp only [elabExpr, denE]
        rw [iha _ hpf]
      | op2 o a b iha ihb =>
        intro ent hpf
        simp only [elabExpr, denE]
        rw [iha _ hpf.1, ihb _ hpf.2]
      | fail id a iha =>
        intro ent hpf
        simp only [elabExpr, denE]
        rw [iha _ hpf]
    have hin : (elabSys d armed).input v p = (elabSys d armed).input v p' := by
      simp only [elabSys, hv, hend, inputLookup, storageKey_eternal d v vv hv hu]
    have hform : formulaInForce vv (startOrdOf p) = formulaInForce vv (startOrdOf p') :=
      formulaInForce_indep vv hend (fun f hf => (hfs f hf).1) p p'
    unfold den
    rw [hin, elab_formula d armed v vv hv p, elab_formula d armed v vv hv p', hform]
    split
    · rfl
    · cases hff : formulaInForce vv (startOrdOf p') with
      | none => rfl
      | some e =>
        simp only [Option.map_some]
        -- the formula in force is one of the declared ones, hence period-free
        have hmem : ∃ s, (s, e) ∈ vv.formulas := by
          unfold formulaInForce at hff
          rw [hend] at hff
          simp only [pickFormula] at hff
          rw [Option.map_eq_some_iff] at hff
          obtain ⟨b, hb, rfl⟩ := hff
          have : ∀ (fs : List (Int × DExpr)) (best : Option (Int × DExpr)) (b : Int × DExpr),
              fs.foldl (pickStep (startOrdOf p')) best = some b → b ∈ fs ∨ best = some b := by
            intro fs
            induction fs with
            | nil => intro best b h; right; simpa using h
            | cons f fs ihf =>
              intro best b h
              simp only [List.foldl_cons] at h
              rcases ihf _ b h with h1 | h1
              · left; exact List.mem_cons_of_mem _ h1
              · unfold pickStep at h1
                split at h1
                · cases best with
                  | none => simp only at h1; injection h1 with h1; left; rw [← h1]; exact List.mem_cons_self
                  | some b0 =>
                    simp only at h1
                    split at h1
                    · injection h1 with h1; left; rw [← h1]; exact List.mem_cons_self
                    · right; exact h1
                · right; exact h1
          rcases this vv.formulas none b hb with h1 | h1
          · exact ⟨b.1, h1⟩
          · cases h1
        obtain ⟨s, hs⟩ := hmem
        rw [hexp e vv.entity (hfs (s, e) hs).2]

/-- hence every elaborated well-formed system is slot-coherent -/
theorem elabSys_slotCoherent (d : Decl) (armed : List Nat) (hwf : EternalWF d) :
    SlotCoherent (elabSys d armed) := by
  intro v p p' hck n
  cases hv : d.vars[v]? with
  | none =>
    have : storageKey d v p = p ∧ storageKey d v p' = p' := by simp [storageKey, hv]
    have hck' : storageKey d v p = storageKey d v p' := hck
    rw [this.1, this.2] at hck'; rw [hck']
  | some vv =>
    by_cases hu : vv.unit = .eternity
    · exact den_eternal_indep d armed hwf n v vv hv hu p p'
    · have hck' : storageKey d v p = storageKey d v p' := hck
      simp only [storageKey, hv, hu, if_false] at hck'
      rw [hck']


/-! ## the extended language (`xelabSys`) -/

/-- what `divideTarget` returns, spelled out: the variable exists, is dated and not shorter than
    the requested period, which is one unit long; the node is the variable at its
    definition-period-long period around the start of the requested one; the denominator is the
    (positive) size of that period in units of the requested one -/
theorem divideTarget_spec (d : Decl) (w : Nat) (q : Period) (k : Node Period) (m : Nat)
    (h : divideTarget d w q = .ok (k, m)) :
    ∃ wv c n, d.vars[w]? = some wv ∧ ¬ (unitWeight wv.unit < unitWeight q.unit) ∧ q.size = 1 ∧
      wv.unit ≠ .eternity ∧ q.unit ≠ .eternity ∧
      divPeriod wv.unit q = .ok c ∧ divDenominator q.unit c = .ok n ∧ 0 < n ∧ m = n.toNat ∧
      servedPeriod wv.unit c = .ok k.2 ∧ k.1 = w := by
  unfold divideTarget at h
  cases hw : d.vars[w]? with
  | none => rw [hw] at h; cases h
  | some wv =>
    rw [hw] at h
    simp only at h
    split at h
    · cases h
    · rename_i h1
      split at h
      · cases h
      · rename_i h2
        split at h
        · cases h
        · rename_i h3
          cases hc : divPeriod wv.unit q with
          | error e => rw [hc] at h; cases h
          | ok c =>
            rw [hc] at h
            simp only at h
            cases hn : divDenominator q.unit c with
            | error e => rw [hn] at h; cases h
            | ok n =>
              rw [hn] at h
              simp only at h
              split at h
              · cases h
              · rename_i h4
                cases hs : servedPeriod wv.unit c with
                | error e => rw [hs] at h; cases h
                | ok c' =>
                  rw [hs] at h
                  simp only [Except.ok.injEq, Prod.mk.injEq] at h
                  obtain ⟨rfl, rfl⟩ := h
                  refine ⟨wv, c, n, rfl, ?_, ?_, h2, ?_, hc, hn, by omega, rfl, hs, rfl⟩
                  · intro hlt; exact h1 (Or.inl hlt)
                  · have : ¬ q.size ≠ 1 := fun hne => h3 (Or.inr hne)
                    omega
                  · intro hq; exact h3 (Or.inl hq)

theorem xf1_div (d : Decl) (m : Nat) (hm : 0 < m) (v : Val) :
    xf1 d (XDIV + m) v = v.map (fun a => a / (m : Int)) := by
  unfold xf1
  rw [if_pos (by omega)]
  have : XDIV + m - XDIV = m := by omega
  rw [this]

theorem xf1_low (d : Decl) (o : Nat) (ho : o ≤ XDIV) (v : Val) : xf1 d o v = f1 d o v := by
  unfold xf1
  rw [if_neg (by omega)]

/-- one step of the scan for the latest dated value -/
theorem latestStep_spec (o : Int) (best : Option (Int × Int)) (f : Int × Int) (seen : List (Int × Int))
    (h1 : ∀ b, best = some b → b ∈ seen ∧ b.1 ≤ o ∧ ∀ f' ∈ seen, f'.1 ≤ o → f'.1 ≤ b.1)
    (h2 : best = none → ∀ f' ∈ seen, ¬ f'.1 ≤ o) :
    (∀ b, latestStep o best f = some b → b ∈ seen ++ [f] ∧ b.1 ≤ o ∧ ∀ f' ∈ seen ++ [f], f'.1 ≤ o → f'.1 ≤ b.1) ∧
    (latestStep o best f = none → ∀ f' ∈ seen ++ [f], ¬ f'.1 ≤ o) := by
  unfold latestStep
  by_cases hf : f.1 ≤ o
  · rw [if_pos hf]
    cases best with
    | none =>
      simp only
      refine ⟨?_, by intro h; cases h⟩
      intro b hb; injection hb with hb; subst hb
      refine ⟨by simp, hf, ?_⟩
      intro f' hf' hle
      rcases List.mem_append.1 hf' with hm | hm
      · exact absurd hle (h2 rfl f' hm)
      · simp at hm; subst hm; exact Int.le_refl _
    | some b0 =>
      obtain ⟨hm0, hle0, hmax0⟩ := h1 b0 rfl
      simp only
      by_cases hb0 : b0.1 ≤ f.1
      · rw [if_pos hb0]
        refine ⟨?_, by intro h; cases h⟩
        intro b hb; injection hb with hb; subst hb
        refine ⟨by simp, hf, ?_⟩
        intro f' hf' hle
        rcases List.mem_append.1 hf' with hm | hm
        · exact Int.le_trans (hmax0 f' hm hle) hb0
        · simp at hm; subst hm; exact Int.le_refl _
      · rw [if_neg hb0]
        refine ⟨?_, by intro h; cases h⟩
        intro b hb; injection hb with hb; subst hb
        refine ⟨by simp [hm0], hle0, ?_⟩
        intro f' hf' hle
        rcases List.mem_append.1 hf' with hm | hm
        · exact hmax0 f' hm hle
        · simp at hm; subst hm; omega
  · rw [if_neg hf]
    constructor
    · intro b hb
      obtain ⟨hm0, hle0, hmax0⟩ := h1 b hb
      refine ⟨by simp [hm0], hle0, ?_⟩
      intro f' hf' hle
      rcases List.mem_append.1 hf' with hm | hm
      · exact hmax0 f' hm hle
      · simp at hm; subst hm; exact absurd hle hf
    · intro hn f' hf'
      rcases List.mem_append.1 hf' with hm | hm
      · exact h2 hn f' hm
      · simp at hm; subst hm; exact hf

theorem latest_fold_spec (o : Int) : ∀ (l : List (Int × Int)) (best : Option (Int × Int)) (seen : List (Int × Int)),
    (∀ b, best = some b → b ∈ seen ∧ b.1 ≤ o ∧ ∀ f' ∈ seen, f'.1 ≤ o → f'.1 ≤ b.1) →
    (best = none → ∀ f' ∈ seen, ¬ f'.1 ≤ o) →
    (∀ b, l.foldl (latestStep o) best = some b → b ∈ seen ++ l ∧ b.1 ≤ o ∧ ∀ f' ∈ seen ++ l, f'.1 ≤ o → f'.1 ≤ b.1) ∧
    (l.foldl (latestStep o) best = none → ∀ f' ∈ seen ++ l, ¬ f'.1 ≤ o) := by
  intro l
  induction l with
  | nil => intro best seen h1 h2; simp only [List.foldl_nil, List.append_nil]; exact ⟨h1, h2⟩
  | cons f l ih =>
    intro best seen h1 h2
    obtain ⟨k1, k2⟩ := latestStep_spec o best f seen h1 h2
    have := ih (latestStep o best f) (seen ++ [f]) k1 k2
    simpa [List.append_assoc] using this

/-- `paramAt`: the value whose start is the greatest one on or before the instant; none exactly
    when every value starts later -/
theorem paramAt_spec (tbl : List (Int × Int)) (o : Int) :
    (∀ k, paramAt tbl o = some k → ∃ s, (s, k) ∈ tbl ∧ s ≤ o ∧ ∀ f ∈ tbl, f.1 ≤ o → f.1 ≤ s) ∧
    (paramAt tbl o = none → ∀ f ∈ tbl, ¬ f.1 ≤ o) := by
  have := latest_fold_spec o tbl none [] (by intro b hb; cases hb) (by intro _ f hf; cases hf)
  simp only [List.nil_append] at this
  obtain ⟨h1, h2⟩ := this
  unfold paramAt
  constructor
  · intro k hk
    rw [Option.map_eq_some_iff] at hk
    obtain ⟨b, hb, rfl⟩ := hk
    obtain ⟨hm, hle, hmax⟩ := h1 b hb
    exact ⟨b.1, hm, hle, hmax⟩
  · intro hn
    rw [Option.map_eq_none_iff] at hn
    exact h2 hn

/-- expressions of the plain language: neither reserved form occurs -/
def Plain : DExpr → Prop
  | .const _ => True
  | .var _ _ _ => True
  | .op1 o a => o ≠ OP_DIVIDE ∧ o ≠ OP_PARAM ∧ Plain a
  | .op2 _ a b => Plain a ∧ Plain b
  | .fail _ a => Plain a

theorem specialOp_none (x : XDecl) (ent : Nat) (p : Period) (o : Nat) (a : DExpr)
    (h1 : o ≠ OP_DIVIDE) (h2 : o ≠ OP_PARAM) : specialOp x ent p o a = none := by
  cases a <;> simp [specialOp, h1, h2]

/-- the extension is conservative: a plain expression elaborates exactly as before -/
theorem xelabExpr_plain (x : XDecl) (p : Period) : ∀ (e : DExpr) (ent : Nat), Plain e →
    xelabExpr x ent p e = elabExpr x.toDecl ent p e := by
  intro e
  induction e with
  | const k => intro ent _; rfl
  | var w pt add => intro ent _; rfl
  | op1 o a ih =>
    intro ent h
    simp only [xelabExpr, elabExpr, specialOp_none x ent p o a h.1 h.2.1]
    rw [ih _ h.2.2]
  | op2 o a b iha ihb =>
    intro ent h
    simp only [xelabExpr, elabExpr]
    rw [iha _ h.1, ihb _ h.2]
  | fail id a ih =>
    intro ent h
    simp only [xelabExpr, elabExpr]
    rw [ih _ h]

/-! ### declarative acyclicity implies node-level acyclicity -/

/-- the variables a declarative expression reads -/
def dreads : DExpr → List Nat
  | .const _ => []
  | .var w _ _ => [w]
  | .op1 o a =>
    match a with
    | .var w _ _ => if o = OP_PARAM then [] else [w]
    | .const _ => []
    | .op1 _ _ => dreads a
    | .op2 _ _ _ => dreads a
    | .fail _ _ => dreads a
  | .op2 _ a b => dreads a ++ dreads b
  | .fail _ a => dreads a

theorem refs_foldl_add (w : Nat) (node : Period → Expr Period) (hnode : ∀ s, ∀ k ∈ refs (node s), k.1 = w) :
    ∀ (ss : List Period) (acc : Expr Period), (∀ k ∈ refs acc, k.1 = w) →
      ∀ k ∈ refs (ss.foldl (fun acc s => Expr.op2 0 acc (node s)) acc), k.1 = w := by
  intro ss
  induction ss with
  | nil => intro acc h; exact h
  | cons s ss ih =>
    intro acc h
    simp only [List.foldl_cons]
    apply ih
    intro k hk
    simp only [refs, List.mem_append] at hk
    rcases hk with hk | hk
    · exact h k hk
    · exact hnode s k hk

theorem refs_servedNode (u : DUnit) (w : Nat) (s : Period) :
    ∀ k ∈ refs (match servedPeriod u s with | .ok s' => Expr.ref w s' | .error _ => Expr.bad), k.1 = w := by
  intro k hk
  cases h : servedPeriod u s with
  | error e => rw [h] at hk; simp [refs] at hk
  | ok s' => rw [h] at hk; simp only [refs, List.mem_singleton] at hk; rw [hk]

/-- every node a read elaborates to is a node of the variable read -/
theorem refs_elabRead (d : Decl) (w : Nat) (q : Except String Period) (add : Bool) :
    ∀ k ∈ refs (elabRead d w q add), k.1 = w := by
  unfold elabRead
  cases hw : d.vars[w]? with
  | none => intro k hk; simp [refs] at hk
  | some wv =>
    cases q with
    | error e => intro k hk; simp [refs] at hk
    | ok q =>
      simp only
      by_cases hadd : add = true
      · simp only [hadd, if_true]
        split
        · intro k hk; simp [refs] at hk
        split
        · intro k hk; simp [refs] at hk
        split
        · intro k hk; simp [refs] at hk
        split
        · intro k hk; simp [refs] at hk
        · intro k hk; simp [refs] at hk
        · rename_i s ss _
          exact refs_foldl_add w _ (fun s => refs_servedNode wv.unit w s) ss _ (refs_servedNode wv.unit w s)
      · simp only [hadd]
        exact refs_servedNode wv.unit w q

theorem refs_elabDivide (d : Decl) (w : Nat) (q : Except String Period) :
    ∀ k ∈ refs (elabDivide d w q), k.1 = w := by
  unfold elabDivide
  cases q with
  | error e => intro k hk; simp [refs] at hk
  | ok q =>
    simp only
    cases h : divideTarget d w q with
    | error e => intro k hk; simp [refs] at hk
    | ok kn =>
      obtain ⟨k0, m⟩ := kn
      obtain ⟨_, _, _, _, _, _, _, _, _, _, _, _, _, hk0⟩ := divideTarget_spec d w q k0 m h
      intro k hk
      simp only [refs, List.mem_singleton] at hk
      rw [hk]; exact hk0

theorem refs_elabParam (x : XDecl) (ent i : Nat) (q : Except String Period) : refs (elabParam x ent i q) = [] := by
  unfold elabParam
  split <;> rfl

/-- the nodes an elaborated expression reads are nodes of the variables the expression reads -/
theorem refs_xelabExpr (x : XDecl) (p : Period) : ∀ (e : DExpr) (ent : Nat),
    ∀ k ∈ refs (xelabExpr x ent p e), k.1 ∈ dreads e := by
  intro e
  induction e with
  | const c => intro ent k hk; simp [xelabExpr, refs] at hk
  | var w pt add =>
    intro ent k hk
    simp only [xelabExpr] at hk
    cases hw : x.vars[w]? with
    | none => rw [hw] at hk; simp [refs] at hk
    | some wv =>
      rw [hw] at hk
      simp only at hk
      split at hk
      · simp only [dreads, List.mem_singleton]; exact refs_elabRead _ w _ add k hk
      · simp [refs] at hk
  | op1 o a ih =>
    intro ent k hk
    simp only [xelabExpr] at hk
    cases a with
    | var w pt add =>
      simp only [specialOp] at hk
      by_cases h1 : o = OP_DIVIDE
      · simp only [h1, if_true] at hk
        have hne : ¬ OP_DIVIDE = OP_PARAM := by decide
        simp only [dreads, h1, hne, if_false, List.mem_singleton]
        cases hw : x.vars[w]? with
        | none => rw [hw] at hk; simp [refs] at hk
        | some wv =>
          rw [hw] at hk
          simp only at hk
          split at hk
          · exact refs_elabDivide _ w _ k hk
          · simp [refs] at hk
      · simp only [h1, if_false] at hk
        by_cases h2 : o = OP_PARAM
        · simp only [h2, if_true, refs_elabParam] at hk
          cases hk
        · simp only [h2, if_false, refs] at hk
          have := ih _ k hk
          simpa [dreads, h2] using this
    | const c =>
      simp only [specialOp, refs] at hk
      exact absurd (ih _ k hk) (by simp [dreads])
    | op1 o' b => simp only [specialOp, refs] at hk; simpa [dreads] using ih _ k hk
    | op2 o' b c => simp only [specialOp, refs] at hk; simpa [dreads] using ih _ k hk
    | fail id b => simp only [specialOp, refs] at hk; simpa [dreads] using ih _ k hk
  | op2 o a b iha ihb =>
    intro ent k hk
    simp only [xelabExpr, refs, List.mem_append] at hk
    simp only [dreads, List.mem_append]
    rcases hk with hk | hk
    · exact Or.inl (iha _ k hk)
    · exact Or.inr (ihb _ k hk)
  | fail id a ih =>
    intro ent k hk
    simp only [xelabExpr, refs] at hk
    simpa [dreads] using ih _ k hk

/-- a declarative system whose variables are ranked: every formula of a variable reads only
    variables of strictly lower rank (the rule system is a DAG of variables) -/
def DeclRanked (x : XDecl) (rk : Nat → Nat) : Prop :=
  ∀ (v : Nat) (vv : Var), x.vars[v]? = some vv → ∀ f ∈ vv.formulas, ∀ w ∈ dreads f.2, rk w < rk v

theorem pick_fold_mem (o : Int) : ∀ (fs : List (Int × DExpr)) (best : Option (Int × DExpr)) (b : Int × DExpr),
    fs.foldl (pickStep o) best = some b → b ∈ fs ∨ best = some b := by
  intro fs
  induction fs with
  | nil => intro best b h; right; simpa using h
  | cons f fs ihf =>
    intro best b h
    simp only [List.foldl_cons] at h
    rcases ihf _ b h with h1 | h1
    · left; exact List.mem_cons_of_mem _ h1
    · unfold pickStep at h1
      split at h1
      · cases best with
        | none => simp only at h1; injection h1 with h1; left; rw [← h1]; exact List.mem_cons_self
        | some b0 =>
          simp only at h1
          split at h1
          · injection h1 with h1; left; rw [← h1]; exact List.mem_cons_self
          · right; exact h1
      · right; exact h1

theorem formulaInForce_mem (vv : Var) (o : Int) (e : DExpr) (h : formulaInForce vv o = some e) :
    ∃ s, (s, e) ∈ vv.formulas := by
  have key : pickFormula vv o = some e → ∃ s, (s, e) ∈ vv.formulas := by
    intro hp
    simp only [pickFormula] at hp
    rw [Option.map_eq_some_iff] at hp
    obtain ⟨b, hb, rfl⟩ := hp
    rcases pick_fold_mem o vv.formulas none b hb with h1 | h1
    · exact ⟨b.1, h1⟩
    · cases h1
  unfold formulaInForce at h
  split at h
  · split at h
    · cases h
    · exact key h
  · exact key h

/-- declarative acyclicity gives the hypothesis `VarRanked` of the engine theorems -/
theorem xelabSys_varRanked (x : XDecl) (armed : List Nat) (rk : Nat → Nat) (h : DeclRanked x rk) :
    VarRanked (xelabSys x armed) rk := by
  intro v p e hf k hk
  simp only [xelabSys] at hf
  cases hv : x.vars[v]? with
  | none => rw [hv] at hf; cases hf
  | some vv =>
    rw [hv] at hf
    simp only [Option.map_eq_some_iff] at hf
    obtain ⟨de, hde, rfl⟩ := hf
    obtain ⟨s, hs⟩ := formulaInForce_mem vv _ de hde
    exact h v vv hv (s, de) hs k.1 (refs_xelabExpr x p de vv.entity k hk)

/-- a system without eternal variable stores every value under its own period -/
theorem xelabSys_slotCoherent_dated (x : XDecl) (armed : List Nat)
    (h : ∀ (v : Nat) (vv : Var), x.vars[v]? = some vv → vv.unit ≠ DUnit.eternity) : SlotCoherent (xelabSys x armed) := by
  apply slotCoherent_of_id
  intro v p
  exact storageKey_dated x.toDecl v p (h v)


/-! ### eternal variables in the extended language -/

/-- reads that do not depend on the formula's own period, extended language: a DIVIDE read or a
    parameter read must name a fixed period -/
def XPeriodFree (d : Decl) : DExpr → Prop
  | .const _ => True
  | .var w pt add =>
    (∃ q, pt = .fixed q) ∨
    (pt = .same ∧ add = false ∧ ∃ wv, d.vars[w]? = some wv ∧ wv.unit = .eternity)
  | .op1 o a => XPeriodFree d a ∧
      ((o = OP_DIVIDE ∨ o = OP_PARAM) → ∀ w pt add, a = .var w pt add → ∃ q, pt = .fixed q)
  | .op2 _ a b => XPeriodFree d a ∧ XPeriodFree d b
  | .fail _ a => XPeriodFree d a

def XEternalWF (x : XDecl) : Prop :=
  ∀ (v : Nat) (vv : Var), x.vars[v]? = some vv → vv.unit = DUnit.eternity →
    vv.endOrd = none ∧ ∀ f ∈ vv.formulas, f.1 ≤ 1 ∧ XPeriodFree x.toDecl f.2

theorem specialOp_indep (x : XDecl) (ent : Nat) (p p' : Period) (o : Nat) (a : DExpr)
    (h : (o = OP_DIVIDE ∨ o = OP_PARAM) → ∀ w pt add, a = .var w pt add → ∃ q, pt = .fixed q) :
    specialOp x ent p o a = specialOp x ent p' o a := by
  cases a with
  | var w pt add =>
    by_cases ho : o = OP_DIVIDE ∨ o = OP_PARAM
    · obtain ⟨q, rfl⟩ := h ho w pt add rfl
      simp only [specialOp, applyPT]
    · have h1 : o ≠ OP_DIVIDE := fun e => ho (Or.inl e)
      have h2 : o ≠ OP_PARAM := fun e => ho (Or.inr e)
      simp only [specialOp, h1, h2, if_false]
  | const k => rfl
  | op1 o' b => rfl
  | op2 o' b c => rfl
  | fail id b => rfl

theorem xelab_formula (x : XDecl) (armed : List Nat) (v : Nat) (vv : Var) (hv : x.vars[v]? = some vv) (p : Period) :
    (xelabSys x armed).formula v p = (formulaInForce vv (startOrdOf p)).map (xelabExpr x vv.entity p) := by
  simp [xelabSys, hv]

/-- the meaning of an eternal variable of the extended language does not depend on the requested period -/
theorem xden_eternal_indep (x : XDecl) (armed : List Nat) (hwf : XEternalWF x) :
    ∀ (n : Nat) (v : Nat) (vv : Var), x.vars[v]? = some vv → vv.unit = .eternity →
      ∀ p p', den (xelabSys x armed) n v p = den (xelabSys x armed) n v p'
  | 0, _, _, _, _, _, _ => by simp [den]
  | n+1, v, vv, hv, hu, p, p' => by
    obtain ⟨hend, hfs⟩ := hwf v vv hv hu
    have ih := xden_eternal_indep x armed hwf n
    have hexp : ∀ (e : DExpr) (ent : Nat), XPeriodFree x.toDecl e →
        denE (xelabSys x armed) n (xelabExpr x ent p e) = denE (xelabSys x armed) n (xelabExpr x ent p' e) := by
      intro e
      induction e with
      | const k => intro ent _; rfl
      | var w pt add =>
        intro ent hpf
        simp only [xelabExpr]
        cases hw : x.vars[w]? with
        | none => rfl
        | some wv =>
          simp only
          split
          · rcases hpf with ⟨q, rfl⟩ | ⟨rfl, rfl, wv', hw', hwu⟩
            · rfl
            · have hw2 : x.toDecl.vars[w]? = some wv := hw
              rw [hw2] at hw'; injection hw' with hw'; subst hw'
              simp only [applyPT, elabRead, hw2, servedPeriod, hwu, if_true, Bool.false_eq_true, if_false, denE]
              exact ih w wv hw hwu p p'
          · rfl
      | op1 o a iha =>
        intro ent hpf
        simp only [xelabExpr]
        rw [specialOp_indep x ent p p' o a hpf.2]
        cases specialOp x ent p' o a with
        | some e => rfl
        | none =>
          simp only [denE]
          rw [iha _ hpf.1]
      | op2 o a b iha ihb =>
        intro ent hpf
        simp only [xelabExpr, denE]
        rw [iha _ hpf.1, ihb _ hpf.2]
      | fail id a iha =>
        intro ent hpf
        simp only [xelabExpr, denE]
        rw [iha _ hpf]
    have hin : (xelabSys x armed).input v p = (xelabSys x armed).input v p' := by
      have hv2 : x.toDecl.vars[v]? = some vv := hv
      show (elabSys x.toDecl armed).input v p = (elabSys x.toDecl armed).input v p'
      simp only [elabSys, hv2, hend, inputLookup, storageKey_eternal x.toDecl v vv hv2 hu]
    have hform : formulaInForce vv (startOrdOf p) = formulaInForce vv (startOrdOf p') :=
      formulaInForce_indep vv hend (fun f hf => (hfs f hf).1) p p'
    unfold den
    rw [hin, xelab_formula x armed v vv hv p, xelab_formula x armed v vv hv p', hform]
    split
    · rfl
    · cases hff : formulaInForce vv (startOrdOf p') with
      | none => rfl
      | some e =>
        simp only [Option.map_some]
        obtain ⟨s, hs⟩ := formulaInForce_mem vv _ e hff
        rw [hexp e vv.entity (hfs (s, e) hs).2]

/-- every well-formed extended system is slot-coherent -/
theorem xelabSys_slotCoherent (x : XDecl) (armed : List Nat) (hwf : XEternalWF x) :
    SlotCoherent (xelabSys x armed) := by
  intro v p p' hck n
  have hck' : storageKey x.toDecl v p = storageKey x.toDecl v p' := hck
  cases hv : x.vars[v]? with
  | none =>
    have hv2 : x.toDecl.vars[v]? = none := hv
    have : storageKey x.toDecl v p = p ∧ storageKey x.toDecl v p' = p' := by simp [storageKey, hv2]
    rw [this.1, this.2] at hck'; rw [hck']
  | some vv =>
    have hv2 : x.toDecl.vars[v]? = some vv := hv
    by_cases hu : vv.unit = .eternity
    · exact xden_eternal_indep x armed hwf n v vv hv hu p p'
    · simp only [storageKey, hv2, hu, if_false] at hck'
      rw [hck']

end OFCore.RuleSys
