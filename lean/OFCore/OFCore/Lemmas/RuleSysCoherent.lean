import OFCore.RuleSys
import OFCore.Lemmas.Engine
/-!
# Elaborated systems are slot-coherent

An eternal variable is stored under ETERNITY whatever period it is requested for.  Its meaning
does not depend on the requested period when (`EternalWF`) it has no end date, its formulas all
start on or before day 1, and its formulas read only fixed periods or other eternal variables at
the formula's own period.  (An eternal variable whose formula depends on the request period has
no period-independent meaning — the code then returns whichever period was asked first.)
-/
set_option linter.unusedVariables false
namespace OFCore.RuleSys
open OFCore OFCore.Engine

/-- reads that do not depend on the formula's own period -/
def PeriodFree (d : Decl) : DExpr → Prop
  | .const _ => True
  | .var w pt add =>
    (∃ q, pt = .fixed q) ∨
    (pt = .same ∧ add = false ∧ ∃ wv, d.vars[w]? = some wv ∧ wv.unit = .eternity)
  | .op1 _ a => PeriodFree d a
  | .op2 _ a b => PeriodFree d a ∧ PeriodFree d b
  | .fail _ a => PeriodFree d a

def EternalWF (d : Decl) : Prop :=
  ∀ (v : Nat) (vv : Var), d.vars[v]? = some vv → vv.unit = DUnit.eternity →
    vv.endOrd = none ∧ ∀ f ∈ vv.formulas, f.1 ≤ 1 ∧ PeriodFree d f.2

theorem startOrdOf_ge (p : Period) : 1 ≤ startOrdOf p := by
  unfold startOrdOf; split
  · exact Int.le_refl 1
  · exact Int.le_max_left 1 _

theorem pick_fold_indep (o o' : Int) : ∀ (fs : List (Int × DExpr)) (best : Option (Int × DExpr)),
    (∀ f ∈ fs, f.1 ≤ o ∧ f.1 ≤ o') → fs.foldl (pickStep o) best = fs.foldl (pickStep o') best
  | [], _, _ => rfl
  | f :: fs, best, h => by
    simp only [List.foldl_cons]
    have hf := h f List.mem_cons_self
    have e : pickStep o best f = pickStep o' best f := by
      unfold pickStep; rw [if_pos hf.1, if_pos hf.2]
    rw [e]
    exact pick_fold_indep o o' fs _ (fun g hg => h g (List.mem_cons_of_mem _ hg))

theorem formulaInForce_indep (vv : Var) (he : vv.endOrd = none) (hs : ∀ f ∈ vv.formulas, f.1 ≤ 1)
    (p p' : Period) : formulaInForce vv (startOrdOf p) = formulaInForce vv (startOrdOf p') := by
  unfold formulaInForce
  rw [he]
  simp only [pickFormula]
  rw [pick_fold_indep (startOrdOf p) (startOrdOf p') vv.formulas none
    (fun f hf => ⟨Int.le_trans (hs f hf) (startOrdOf_ge p), Int.le_trans (hs f hf) (startOrdOf_ge p')⟩)]

theorem storageKey_eternal (d : Decl) (v : Nat) (vv : Var) (hv : d.vars[v]? = some vv) (hu : vv.unit = .eternity)
    (p : Period) : storageKey d v p = Period.eternity := by
  simp [storageKey, hv, hu]

theorem storageKey_dated (d : Decl) (v : Nat) (p : Period)
    (h : ∀ vv, d.vars[v]? = some vv → vv.unit ≠ .eternity) : storageKey d v p = p := by
  unfold storageKey
  cases hv : d.vars[v]? with
  | none => rfl
  | some vv => simp [h vv hv]

theorem elab_formula (d : Decl) (armed : List Nat) (v : Nat) (vv : Var) (hv : d.vars[v]? = some vv) (p : Period) :
    (elabSys d armed).formula v p = (formulaInForce vv (startOrdOf p)).map (elabExpr d vv.entity p) := by
  simp [elabSys, hv]

/-- the meaning of an eternal variable does not depend on the requested period -/
theorem den_eternal_indep (d : Decl) (armed : List Nat) (hwf : EternalWF d) :
    ∀ (n : Nat) (v : Nat) (vv : Var), d.vars[v]? = some vv → vv.unit = .eternity →
      ∀ p p', den (elabSys d armed) n v p = den (elabSys d armed) n v p'
  | 0, _, _, _, _, _, _ => by simp [den]
  | n+1, v, vv, hv, hu, p, p' => by
    obtain ⟨hend, hfs⟩ := hwf v vv hv hu
    have ih := den_eternal_indep d armed hwf n
    -- expressions
    have hexp : ∀ (e : DExpr) (ent : Nat), PeriodFree d e →
        denE (elabSys d armed) n (elabExpr d ent p e) = denE (elabSys d armed) n (elabExpr d ent p' e) := by
      intro e
      induction e with
      | const k => intro ent _; rfl
      | var w pt add =>
        intro ent hpf
        simp only [elabExpr]
        cases hw : d.vars[w]? with
        | none => rfl
        | some wv =>
          simp only
          split
          · rcases hpf with ⟨q, rfl⟩ | ⟨rfl, rfl, wv', hw', hwu⟩
            · rfl
            · rw [hw] at hw'; injection hw' with hw'; subst hw'
              simp only [applyPT, elabRead, hw, servedPeriod, hwu, if_true, Bool.false_eq_true, if_false, denE]
              exact ih w wv hw hwu p p'
          · rfl
      | op1 o a iha =>
        intro ent hpf
        simp only [elabExpr, denE]
        rw [iha _ hpf]
      | op2 o a b iha ihb =>
        intro ent hpf
        simp only [elabExpr, denE]
        rw [iha _ hpf.1, ihb _ hpf.2]
      | fail id a iha =>
        intro ent hpf
        simp only [elabExpr, denE]
        rw [iha _ hpf]
    have hin : (elabSys d armed).input v p = (elabSys d armed).input v p' := by
      simp only [elabSys, hv, hend, inputLookup, storageKey_eternal d v vv hv hu]
    have hform : formulaInForce vv (startOrdOf p) = formulaInForce vv (startOrdOf p') :=
      formulaInForce_indep vv hend (fun f hf => (hfs f hf).1) p p'
    unfold den
    rw [hin, elab_formula d armed v vv hv p, elab_formula d armed v vv hv p', hform]
    split
    · rfl
    · cases hff : formulaInForce vv (startOrdOf p') with
      | none => rfl
      | some e =>
        simp only [Option.map_some]
        -- the formula in force is one of the declared ones, hence period-free
        have hmem : ∃ s, (s, e) ∈ vv.formulas := by
          unfold formulaInForce at hff
          rw [hend] at hff
          simp only [pickFormula] at hff
          rw [Option.map_eq_some_iff] at hff
          obtain ⟨b, hb, rfl⟩ := hff
          have : ∀ (fs : List (Int × DExpr)) (best : Option (Int × DExpr)) (b : Int × DExpr),
              fs.foldl (pickStep (startOrdOf p')) best = some b → b ∈ fs ∨ best = some b := by
            intro fs
            induction fs with
            | nil => intro best b h; right; simpa using h
            | cons f fs ihf =>
              intro best b h
              simp only [List.foldl_cons] at h
              rcases ihf _ b h with h1 | h1
              · left; exact List.mem_cons_of_mem _ h1
              · unfold pickStep at h1
                split at h1
                · cases best with
                  | none => simp only at h1; injection h1 with h1; left; rw [← h1]; exact List.mem_cons_self
                  | some b0 =>
                    simp only at h1
                    split at h1
                    · injection h1 with h1; left; rw [← h1]; exact List.mem_cons_self
                    · right; exact h1
                · right; exact h1
          rcases this vv.formulas none b hb with h1 | h1
          · exact ⟨b.1, h1⟩
          · cases h1
        obtain ⟨s, hs⟩ := hmem
        rw [hexp e vv.entity (hfs (s, e) hs).2]

/-- hence every elaborated well-formed system is slot-coherent -/
theorem elabSys_slotCoherent (d : Decl) (armed : List Nat) (hwf : EternalWF d) :
    SlotCoherent (elabSys d armed) := by
  intro v p p' hck n
  cases hv : d.vars[v]? with
  | none =>
    have : storageKey d v p = p ∧ storageKey d v p' = p' := by simp [storageKey, hv]
    have hck' : storageKey d v p = storageKey d v p' := hck
    rw [this.1, this.2] at hck'; rw [hck']
  | some vv =>
    by_cases hu : vv.unit = .eternity
    · exact den_eternal_indep d armed hwf n v vv hv hu p p'
    · have hck' : storageKey d v p = storageKey d v p' := hck
      simp only [storageKey, hv, hu, if_false] at hck'
      rw [hck']

end OFCore.RuleSys
