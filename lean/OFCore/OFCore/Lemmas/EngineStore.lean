import OFCore.Lemmas.EngineRanked
/-!
# What the machine stores: purge, frames being computed are never stored by nested runs,
  nothing is stored for a computation that failed
-/
set_option linter.unusedVariables false
namespace OFCore.Engine

variable {P : Type} [DecidableEq P]

theorem lookup_filter_key (c : Cache P) (f : Node P → Bool) (k : Node P) :
    lookup (c.filter (fun e => f e.1)) k = if f k then lookup c k else none := by
  induction c with
  | nil => simp [lookup]
  | cons e r ih =>
    obtain ⟨k', x⟩ := e
    by_cases hk : k' = k
    · subst hk
      by_cases hf : f k' = true
      · simp [List.filter_cons, hf, lookup]
      · have hf' : f k' = false := by simpa using hf
        simp only [List.filter_cons, hf', Bool.false_eq_true, if_false]
        rw [ih]; simp [hf']
    · by_cases hf : f k' = true
      · simp only [List.filter_cons, hf, if_true, lookup, hk, if_false]; exact ih
      · have hf' : f k' = false := by simpa using hf
        simp only [List.filter_cons, hf', Bool.false_eq_true, if_false, lookup, hk]; exact ih

/-- after a purge: no slot of a marked node is left, every other slot is as before, nothing is
    marked -/
theorem purge_spec (sys : Sys P) (s : St P) (k : Node P) :
    (purge sys s).inval = [] ∧ (purge sys s).stack = s.stack ∧
    lookup (purge sys s).cache k = if k ∈ s.inval.map sys.slot then none else lookup s.cache k := by
  refine ⟨rfl, rfl, ?_⟩
  unfold purge
  simp only
  rw [lookup_filter_key s.cache (fun k => !((s.inval.map sys.slot).contains k)) k]
  by_cases h : k ∈ s.inval.map sys.slot
  · simp [h]
  · simp [h]

theorem purge_of_inval_nil (sys : Sys P) (s : St P) (h : s.inval = []) : purge sys s = s := by
  unfold purge
  rw [h]
  cases s
  simp_all

theorem lookup_store_ne (sys : Sys P) (c : Cache P) (k k' : Node P) (x : Val) (g : Bool) (h : k' ≠ k) :
    lookup (store sys c k' x g) k = lookup c k := by
  unfold store
  split
  · rfl
  · simp [lookup, h]

-- nested runs never store a node that is on the stack (being computed)
mutual
theorem run_keeps_stack_nodes (sys : Sys P) (hid : ∀ v p, sys.ckey v p = p) : ∀ n s v p r g s', run sys n s v p = some (r, g, s') →
    ∀ k ∈ s.stack, lookup s'.cache k = lookup s.cache k
  | 0, _, _, _, _, _, _, h => by simp [run] at h
  | n+1, s, v, p, r, g, s', h => by
    intro k hk
    have hslot : sys.slot (v, p) = (v, p) := by simp [Sys.slot, hid]
    unfold run at h
    rw [hslot] at h
    split at h
    · simp only [Option.some.injEq, Prod.mk.injEq] at h
      obtain ⟨_, _, rfl⟩ := h
      split <;> rfl
    · split at h
      · simp only [Option.some.injEq, Prod.mk.injEq] at h; obtain ⟨_, _, rfl⟩ := h; rfl
      · split at h
        · simp only [Option.some.injEq, Prod.mk.injEq] at h; obtain ⟨_, _, rfl⟩ := h; rfl
        · rename_i hns
          have hne : (v, p) ≠ k := fun e => hns (e ▸ hk)
          split at h
          · simp only [Option.some.injEq, Prod.mk.injEq] at h; obtain ⟨_, _, rfl⟩ := h; rfl
          · split at h
            · simp only [Option.some.injEq, Prod.mk.injEq] at h; obtain ⟨_, _, rfl⟩ := h
              exact lookup_store_ne sys _ _ _ _ _ hne
            · split at h
              · cases h
              · rename_i er g1 s1 hr
                have ih := runE_keeps_stack_nodes sys hid n _ _ _ _ _ hr k (List.mem_cons_of_mem _ hk)
                simp only [Option.some.injEq, Prod.mk.injEq] at h; obtain ⟨_, _, rfl⟩ := h
                exact ih
              · rename_i x g1 s1 hr
                have ih := runE_keeps_stack_nodes sys hid n _ _ _ _ _ hr k (List.mem_cons_of_mem _ hk)
                simp only [Option.some.injEq, Prod.mk.injEq] at h; obtain ⟨_, _, rfl⟩ := h
                simp only
                rw [lookup_store_ne sys _ _ _ _ _ hne]; exact ih
theorem runE_keeps_stack_nodes (sys : Sys P) (hid : ∀ v p, sys.ckey v p = p) : ∀ n s e r g s', runE sys n s e = some (r, g, s') →
    ∀ k ∈ s.stack, lookup s'.cache k = lookup s.cache k
  | _, s, .const c, r, g, s', h => by
    simp only [runE, Option.some.injEq, Prod.mk.injEq] at h; obtain ⟨_, _, rfl⟩ := h; intro k hk; rfl
  | _, s, .bad, r, g, s', h => by
    simp only [runE, Option.some.injEq, Prod.mk.injEq] at h; obtain ⟨_, _, rfl⟩ := h; intro k hk; rfl
  | n, s, .ref v p, r, g, s', h => by
    simp only [runE] at h; exact run_keeps_stack_nodes sys hid n s v p r g s' h
  | n, s, .fail id a, r, g, s', h => by
    simp only [runE] at h
    split at h
    · simp only [Option.some.injEq, Prod.mk.injEq] at h; obtain ⟨_, _, rfl⟩ := h; intro k hk; rfl
    · exact runE_keeps_stack_nodes sys hid n s a r g s' h
  | n, s, .op1 o a, r, g, s', h => by
    simp only [runE] at h
    split at h
    · cases h
    · rename_i e g1 s1 ha
      simp only [Option.some.injEq, Prod.mk.injEq] at h; obtain ⟨_, _, rfl⟩ := h
      exact runE_keeps_stack_nodes sys hid n s a _ _ _ ha
    · rename_i x g1 s1 ha
      simp only [Option.some.injEq, Prod.mk.injEq] at h; obtain ⟨_, _, rfl⟩ := h
      exact runE_keeps_stack_nodes sys hid n s a _ _ _ ha
  | n, s, .op2 o a b, r, g, s', h => by
    simp only [runE] at h
    split at h
    · cases h
    · rename_i e g1 s1 ha
      simp only [Option.some.injEq, Prod.mk.injEq] at h; obtain ⟨_, _, rfl⟩ := h
      exact runE_keeps_stack_nodes sys hid n s a _ _ _ ha
    · rename_i x g1 s1 ha
      have h1 := runE_keeps_stack_nodes sys hid n s a _ _ _ ha
      have hs1 := runE_stack sys n s a _ _ _ ha
      split at h
      · cases h
      · rename_i e g2 s2 hb
        simp only [Option.some.injEq, Prod.mk.injEq] at h; obtain ⟨_, _, rfl⟩ := h
        intro k hk
        rw [runE_keeps_stack_nodes sys hid n s1 b _ _ _ hb k (hs1 ▸ hk), h1 k hk]
      · rename_i y g2 s2 hb
        simp only [Option.some.injEq, Prod.mk.injEq] at h; obtain ⟨_, _, rfl⟩ := h
        intro k hk
        rw [runE_keeps_stack_nodes sys hid n s1 b _ _ _ hb k (hs1 ▸ hk), h1 k hk]
end

/-- no value is recorded for a node whose computation did not complete -/
theorem run_error_no_store (sys : Sys P) (hid : ∀ v p, sys.ckey v p = p) (n : Nat) (s : St P) (v : Nat) (p : P)
    (er : Err) (g : Bool) (s' : St P)
    (h : run sys n s v p = some (.error er, g, s')) : lookup s'.cache (v, p) = lookup s.cache (v, p) := by
  cases n with
  | zero => simp [run] at h
  | succ n =>
    have hslot : sys.slot (v, p) = (v, p) := by simp [Sys.slot, hid]
    unfold run at h
    rw [hslot] at h
    split at h
    · simp only [Option.some.injEq, Prod.mk.injEq] at h; obtain ⟨h1, _, _⟩ := h; cases h1
    · split at h
      · simp only [Option.some.injEq, Prod.mk.injEq] at h; obtain ⟨h1, _, _⟩ := h; cases h1
      · split at h
        · simp only [Option.some.injEq, Prod.mk.injEq] at h; obtain ⟨_, _, rfl⟩ := h; rfl
        · split at h
          · simp only [Option.some.injEq, Prod.mk.injEq] at h; obtain ⟨h1, _, _⟩ := h; cases h1
          · split at h
            · simp only [Option.some.injEq, Prod.mk.injEq] at h; obtain ⟨h1, _, _⟩ := h; cases h1
            · split at h
              · cases h
              · rename_i er' g1 s1 hr
                have ih := runE_keeps_stack_nodes sys hid n _ _ _ _ _ hr (v, p) List.mem_cons_self
                simp only [Option.some.injEq, Prod.mk.injEq] at h; obtain ⟨_, _, rfl⟩ := h
                exact ih
              · simp only [Option.some.injEq, Prod.mk.injEq] at h; obtain ⟨h1, _, _⟩ := h; cases h1

/-! ## variable-ranked systems, any storage key (eternal variables included): a run only writes
    slots of variables of rank at most its own -/

theorem lookup_store_var_ne (sys : Sys P) (c : Cache P) (k k' : Node P) (x : Val) (g : Bool) (h : k'.1 ≠ k.1) :
    lookup (store sys c k' x g) k = lookup c k :=
  lookup_store_ne sys c k k' x g (fun e => h (e ▸ rfl))

mutual
theorem run_touches_ranked (sys : Sys P) (rk : Nat → Nat) (hr : VarRanked sys rk) :
    ∀ n s v p r g s', run sys n s v p = some (r, g, s') →
    ∀ k : Node P, rk v < rk k.1 → lookup s'.cache k = lookup s.cache k
  | 0, _, _, _, _, _, _, h => by simp [run] at h
  | n+1, s, v, p, r, g, s', h => by
    intro k hk
    have hne : (sys.slot (v, p)).1 ≠ k.1 := by
      intro e; simp only [Sys.slot] at e; rw [e] at hk; exact Nat.lt_irrefl _ hk
    unfold run at h
    split at h
    · simp only [Option.some.injEq, Prod.mk.injEq] at h
      obtain ⟨_, _, rfl⟩ := h
      split <;> rfl
    · split at h
      · simp only [Option.some.injEq, Prod.mk.injEq] at h; obtain ⟨_, _, rfl⟩ := h; rfl
      · split at h
        · simp only [Option.some.injEq, Prod.mk.injEq] at h; obtain ⟨_, _, rfl⟩ := h; rfl
        · split at h
          · simp only [Option.some.injEq, Prod.mk.injEq] at h; obtain ⟨_, _, rfl⟩ := h; rfl
          · split at h
            · simp only [Option.some.injEq, Prod.mk.injEq] at h; obtain ⟨_, _, rfl⟩ := h
              exact lookup_store_var_ne sys _ _ _ _ _ hne
            · rename_i e hf
              have hrefs : ∀ k' ∈ refs e, rk k'.1 < rk k.1 := fun k' hk' => Nat.lt_trans (hr v p e hf k' hk') hk
              split at h
              · cases h
              · rename_i er g1 s1 hrun
                have ih := runE_touches_ranked sys rk hr n _ _ _ _ _ hrun k hrefs
                simp only [Option.some.injEq, Prod.mk.injEq] at h; obtain ⟨_, _, rfl⟩ := h
                exact ih
              · rename_i x g1 s1 hrun
                have ih := runE_touches_ranked sys rk hr n _ _ _ _ _ hrun k hrefs
                simp only [Option.some.injEq, Prod.mk.injEq] at h; obtain ⟨_, _, rfl⟩ := h
                simp only
                rw [lookup_store_var_ne sys _ _ _ _ _ hne]; exact ih
theorem runE_touches_ranked (sys : Sys P) (rk : Nat → Nat) (hr : VarRanked sys rk) :
    ∀ n s e r g s', runE sys n s e = some (r, g, s') →
    ∀ k : Node P, (∀ k' ∈ refs e, rk k'.1 < rk k.1) → lookup s'.cache k = lookup s.cache k
  | _, s, .const c, r, g, s', h => by
    simp only [runE, Option.some.injEq, Prod.mk.injEq] at h; obtain ⟨_, _, rfl⟩ := h; intro k hk; rfl
  | _, s, .bad, r, g, s', h => by
    simp only [runE, Option.some.injEq, Prod.mk.injEq] at h; obtain ⟨_, _, rfl⟩ := h; intro k hk; rfl
  | n, s, .ref v p, r, g, s', h => by
    simp only [runE] at h
    intro k hk
    exact run_touches_ranked sys rk hr n s v p r g s' h k (hk (v, p) (by simp [refs]))
  | n, s, .fail id a, r, g, s', h => by
    simp only [runE] at h
    split at h
    · simp only [Option.some.injEq, Prod.mk.injEq] at h; obtain ⟨_, _, rfl⟩ := h; intro k hk; rfl
    · intro k hk
      exact runE_touches_ranked sys rk hr n s a r g s' h k (by simpa [refs] using hk)
  | n, s, .op1 o a, r, g, s', h => by
    simp only [runE] at h
    intro k hk
    have hka : ∀ k' ∈ refs a, rk k'.1 < rk k.1 := by simpa [refs] using hk
    split at h
    · cases h
    · rename_i e g1 s1 ha
      simp only [Option.some.injEq, Prod.mk.injEq] at h; obtain ⟨_, _, rfl⟩ := h
      exact runE_touches_ranked sys rk hr n s a _ _ _ ha k hka
    · rename_i x g1 s1 ha
      simp only [Option.some.injEq, Prod.mk.injEq] at h; obtain ⟨_, _, rfl⟩ := h
      exact runE_touches_ranked sys rk hr n s a _ _ _ ha k hka
  | n, s, .op2 o a b, r, g, s', h => by
    simp only [runE] at h
    intro k hk
    have hka : ∀ k' ∈ refs a, rk k'.1 < rk k.1 := fun k' hk' => hk k' (by simp [refs, hk'])
    have hkb : ∀ k' ∈ refs b, rk k'.1 < rk k.1 := fun k' hk' => hk k' (by simp [refs, hk'])
    split at h
    · cases h
    · rename_i e g1 s1 ha
      simp only [Option.some.injEq, Prod.mk.injEq] at h; obtain ⟨_, _, rfl⟩ := h
      exact runE_touches_ranked sys rk hr n s a _ _ _ ha k hka
    · rename_i x g1 s1 ha
      have h1 := runE_touches_ranked sys rk hr n s a _ _ _ ha k hka
      split at h
      · cases h
      · rename_i e g2 s2 hb
        simp only [Option.some.injEq, Prod.mk.injEq] at h; obtain ⟨_, _, rfl⟩ := h
        rw [runE_touches_ranked sys rk hr n s1 b _ _ _ hb k hkb, h1]
      · rename_i y g2 s2 hb
        simp only [Option.some.injEq, Prod.mk.injEq] at h; obtain ⟨_, _, rfl⟩ := h
        rw [runE_touches_ranked sys rk hr n s1 b _ _ _ hb k hkb, h1]
end

/-- no value is recorded under the storage slot of a node whose computation did not complete —
    variable-ranked systems, any storage key -/
theorem run_error_no_store_ranked (sys : Sys P) (rk : Nat → Nat) (hr : VarRanked sys rk) (n : Nat) (s : St P)
    (v : Nat) (p : P) (er : Err) (g : Bool) (s' : St P)
    (h : run sys n s v p = some (.error er, g, s')) :
    lookup s'.cache (sys.slot (v, p)) = lookup s.cache (sys.slot (v, p)) := by
  cases n with
  | zero => simp [run] at h
  | succ n =>
    unfold run at h
    split at h
    · simp only [Option.some.injEq, Prod.mk.injEq] at h; obtain ⟨h1, _, _⟩ := h; cases h1
    · split at h
      · simp only [Option.some.injEq, Prod.mk.injEq] at h; obtain ⟨h1, _, _⟩ := h; cases h1
      · split at h
        · simp only [Option.some.injEq, Prod.mk.injEq] at h; obtain ⟨_, _, rfl⟩ := h; rfl
        · split at h
          · simp only [Option.some.injEq, Prod.mk.injEq] at h; obtain ⟨h1, _, _⟩ := h; cases h1
          · split at h
            · simp only [Option.some.injEq, Prod.mk.injEq] at h; obtain ⟨h1, _, _⟩ := h; cases h1
            · rename_i e hf
              split at h
              · cases h
              · rename_i er' g1 s1 hrun
                have ih := runE_touches_ranked sys rk hr n _ _ _ _ _ hrun (sys.slot (v, p))
                  (fun k' hk' => by simpa [Sys.slot] using hr v p e hf k' hk')
                simp only [Option.some.injEq, Prod.mk.injEq] at h; obtain ⟨_, _, rfl⟩ := h
                exact ih
              · simp only [Option.some.injEq, Prod.mk.injEq] at h; obtain ⟨h1, _, _⟩ := h; cases h1

end OFCore.Engine
