import OFCore.Dump
import OFCore.Props.C05
/-!
# Helper lemmas for C19 (dump / restore)

Association lists (`alookup`, `upsert`, `upsertAll`), the `Except` loops (`mapE`, `foldE`), the
file names (the store keys are period texts: their round trip is C05), one holder
(`loadStore (files h) = h` up to the order of the keys), the entity files, and the whole
`restore sys (dump s)`.
-/
set_option linter.unusedSimpArgs false
set_option linter.unusedVariables false
namespace OFCore.Dump
open OFCore

/-! ## association lists -/

section AList
variable {κ α : Type} [DecidableEq κ]

theorem alookup_upsert (m : List (κ × α)) (k k' : κ) (v : α) :
    alookup k' (upsert m k v) = if k = k' then some v else alookup k' m := by
  induction m with
  | nil => simp only [upsert, alookup]
  | cons e r ih =>
    unfold upsert
    by_cases h : e.1 = k
    · simp only [h, if_true, alookup]
      by_cases h' : k = k'
      · simp only [h', if_true]
      · simp only [h', if_false]
    · simp only [h, if_false, alookup, ih]
      by_cases h' : k = k'
      · subst h'; simp only [h, if_false, if_true]
      · simp only [h', if_false]

theorem mem_keys_upsert (m : List (κ × α)) (k x : κ) (v : α) :
    x ∈ keys (upsert m k v) ↔ x = k ∨ x ∈ keys m := by
  induction m with
  | nil => simp [upsert, keys]
  | cons e r ih =>
    unfold upsert
    by_cases h : e.1 = k
    · simp only [h, if_true, keys, List.map_cons, List.mem_cons]
      constructor
      · rintro (h1 | h1)
        · exact Or.inl h1
        · exact Or.inr (Or.inr h1)
      · rintro (h1 | h1 | h1)
        · exact Or.inl h1
        · exact Or.inl h1
        · exact Or.inr h1
    · simp only [h, if_false, keys, List.map_cons, List.mem_cons]
      have ih' : x ∈ List.map (fun x => x.1) (upsert r k v) ↔ x = k ∨ x ∈ List.map (fun x => x.1) r := ih
      rw [ih']
      constructor
      · rintro (h1 | h1 | h1)
        · exact Or.inr (Or.inl h1)
        · exact Or.inl h1
        · exact Or.inr (Or.inr h1)
      · rintro (h1 | h1 | h1)
        · exact Or.inr (Or.inl h1)
        · exact Or.inl h1
        · exact Or.inr (Or.inr h1)

theorem alookup_eq_none_iff (m : List (κ × α)) (k : κ) : alookup k m = none ↔ k ∉ keys m := by
  induction m with
  | nil => simp [alookup, keys]
  | cons e r ih =>
    unfold alookup
    by_cases h : e.1 = k
    · simp [h, keys]
    · simp only [h, if_false, ih, keys, List.map_cons, List.mem_cons, not_or]
      constructor
      · intro h1; exact ⟨fun h2 => h h2.symm, h1⟩
      · intro h1; exact h1.2

theorem alookup_isSome_of_mem (m : List (κ × α)) (k : κ) (h : k ∈ keys m) :
    ∃ v, alookup k m = some v := by
  cases hl : alookup k m with
  | none => exact absurd h ((alookup_eq_none_iff m k).1 hl)
  | some v => exact ⟨v, rfl⟩

theorem mem_of_alookup (m : List (κ × α)) (k : κ) (v : α) (h : alookup k m = some v) :
    (k, v) ∈ m := by
  induction m with
  | nil => simp [alookup] at h
  | cons e r ih =>
    unfold alookup at h
    by_cases h' : e.1 = k
    · simp only [h', if_true, Option.some.injEq] at h
      have : e = (k, v) := by rw [← h', ← h]
      rw [this]; exact List.mem_cons_self
    · simp only [h', if_false] at h
      exact List.mem_cons_of_mem _ (ih h)

omit [DecidableEq κ] in
theorem mem_keys_of_mem (m : List (κ × α)) (k : κ) (v : α) (h : (k, v) ∈ m) : k ∈ keys m :=
  List.mem_map.2 ⟨(k, v), h, rfl⟩

/-- no key carries two values -/
def Functional (l : List (κ × α)) : Prop := ∀ k v v', (k, v) ∈ l → (k, v') ∈ l → v = v'

theorem mem_keys_upsertAll (m l : List (κ × α)) (k : κ) :
    k ∈ keys (upsertAll m l) ↔ k ∈ keys m ∨ k ∈ keys l := by
  induction l generalizing m with
  | nil => simp [upsertAll, keys]
  | cons a r ih =>
    have : upsertAll m (a :: r) = upsertAll (upsert m a.1 a.2) r := rfl
    rw [this, ih, mem_keys_upsert]
    simp only [keys, List.map_cons, List.mem_cons]
    constructor
    · rintro ((h | h) | h)
      · exact Or.inr (Or.inl h)
      · exact Or.inl h
      · exact Or.inr (Or.inr h)
    · rintro (h | h | h)
      · exact Or.inl (Or.inr h)
      · exact Or.inl (Or.inl h)
      · exact Or.inr h

theorem alookup_upsertAll_of_not_mem (m l : List (κ × α)) (k : κ) (h : k ∉ keys l) :
    alookup k (upsertAll m l) = alookup k m := by
  induction l generalizing m with
  | nil => rfl
  | cons a r ih =>
    have e : upsertAll m (a :: r) = upsertAll (upsert m a.1 a.2) r := rfl
    simp only [keys, List.map_cons, List.mem_cons, not_or] at h
    rw [e, ih _ h.2, alookup_upsert, if_neg (fun h' => h.1 h'.symm)]

theorem alookup_upsertAll_of_mem (m l : List (κ × α)) (hf : Functional l) (k : κ) (v : α)
    (h : (k, v) ∈ l) : alookup k (upsertAll m l) = some v := by
  induction l generalizing m with
  | nil => cases h
  | cons a r ih =>
    have e : upsertAll m (a :: r) = upsertAll (upsert m a.1 a.2) r := rfl
    have hfr : Functional r := fun k v v' h1 h2 =>
      hf k v v' (List.mem_cons_of_mem _ h1) (List.mem_cons_of_mem _ h2)
    rw [e]
    by_cases hk : k ∈ keys r
    · obtain ⟨⟨k', v'⟩, hm, hk'⟩ := List.mem_map.1 hk
      simp only at hk'; subst hk'
      have : v' = v := hf k' v' v (List.mem_cons_of_mem _ hm) h
      subst this
      exact ih _ hfr hm
    · rw [alookup_upsertAll_of_not_mem _ _ _ hk, alookup_upsert]
      rcases List.mem_cons.1 h with h | h
      · rw [← h]; simp only [if_true]
      · exact absurd (mem_keys_of_mem r k v h) hk

theorem alookup_map_of_inj {β : Type} (l : List β) (f : β → κ) (g : β → α) (b : β) (hb : b ∈ l)
    (hinj : ∀ x ∈ l, f x = f b → g x = g b) :
    alookup (f b) (l.map (fun x => (f x, g x))) = some (g b) := by
  induction l with
  | nil => cases hb
  | cons a r ih =>
    simp only [List.map_cons, alookup]
    by_cases h : f a = f b
    · simp only [h, if_true, hinj a List.mem_cons_self h]
    · simp only [h, if_false]
      rcases List.mem_cons.1 hb with hb | hb
      · exact absurd (by rw [hb]) h
      · exact ih hb (fun x hx => hinj x (List.mem_cons_of_mem _ hx))

end AList

/-! ## the `Except` loops -/

theorem mapE_ok_map {α β : Type} (f : α → Except String β) (g : α → β) (l : List α)
    (h : ∀ x ∈ l, f x = .ok (g x)) : mapE f l = .ok (l.map g) := by
  induction l with
  | nil => rfl
  | cons a r ih =>
    unfold mapE
    rw [h a List.mem_cons_self, ih (fun x hx => h x (List.mem_cons_of_mem _ hx))]
    rfl

theorem mapE_map_ok {α β γ : Type} (f : β → Except String γ) (g : α → β) (k : α → γ) (l : List α)
    (h : ∀ x ∈ l, f (g x) = .ok (k x)) : mapE f (l.map g) = .ok (l.map k) := by
  induction l with
  | nil => rfl
  | cons a r ih =>
    rw [List.map_cons]
    unfold mapE
    rw [h a List.mem_cons_self, ih (fun x hx => h x (List.mem_cons_of_mem _ hx))]
    rfl

theorem mapE_error {α β : Type} (f : α → Except String β) (l : List α) (x : α) (e : String)
    (hx : x ∈ l) (h : f x = .error e) : ∃ e', mapE f l = .error e' := by
  induction l with
  | nil => cases hx
  | cons a r ih =>
    unfold mapE
    cases hfa : f a with
    | error e1 => exact ⟨e1, rfl⟩
    | ok b =>
      rcases List.mem_cons.1 hx with hx | hx
      · rw [hx, hfa] at h; cases h
      · obtain ⟨e', he'⟩ := ih hx
        rw [he']; exact ⟨e', rfl⟩

theorem foldE_inv {α σ : Type} (f : σ → α → Except String σ) (I : σ → Prop) (l : List α) (s r : σ)
    (hs : I s) (hstep : ∀ s a s', a ∈ l → I s → f s a = .ok s' → I s')
    (h : foldE f s l = .ok r) : I r := by
  induction l generalizing s with
  | nil => unfold foldE at h; injection h with h; rw [← h]; exact hs
  | cons a t ih =>
    unfold foldE at h
    cases hfa : f s a with
    | error e => rw [hfa] at h; cases h
    | ok s' =>
      rw [hfa] at h
      exact ih s' (hstep s a s' List.mem_cons_self hs hfa)
        (fun s a s' ha => hstep s a s' (List.mem_cons_of_mem _ ha)) h

/-! ## file names -/

theorem stripNpy_fileName (p : Period) : stripNpy (fileName p) = some p.text := by
  unfold stripNpy fileName
  have h : (p.text ++ ".npy".toList).reverse = 'y' :: 'p' :: 'n' :: '.' :: p.text.reverse := by
    simp [List.reverse_append]
  rw [h]
  simp

theorem fileName_inj (p q : Period) (h : fileName p = fileName q) : p.text = q.text := by
  unfold fileName at h
  exact List.append_cancel_right h

/-- the keys a holder of variable `var` may hold and that the text forms round-trip (C05):
    `ETERNITY` for an eternal variable; otherwise one definition period, starting on a valid
    date aligned to the unit, with four-digit years -/
def KeyOk (var : VarDecl) (p : Period) : Prop :=
  if var.defUnit = .eternity then p = Period.eternity
  else p.unit = var.defUnit ∧ p.size = 1 ∧ p.start.Valid ∧ OwnAligned p ∧ InTextDomain p

theorem parse_eternity : parsePeriod Period.eternity.text = .ok Period.eternity := by
  decide +kernel

theorem KeyOk.parse {var : VarDecl} {p : Period} (h : KeyOk var p) :
    parsePeriod p.text = .ok p := by
  unfold KeyOk at h
  split at h
  · rw [h]; exact parse_eternity
  · rename_i hne
    obtain ⟨hu, hs, hv, hal, hdom⟩ := h
    have hwf : p.WF := ⟨by rw [hu]; exact hne, hv, by omega⟩
    rw [parse_text p hwf hal hdom]
    unfold canon
    rw [if_neg (by intro h; omega)]

theorem KeyOk.text_inj {var : VarDecl} {p q : Period} (hp : KeyOk var p) (hq : KeyOk var q)
    (ht : p.text = q.text) : p = q := by
  unfold KeyOk at hp hq
  split at hp
  · rename_i he
    rw [if_pos he] at hq
    rw [hp, hq]
  · rename_i hne
    rw [if_neg hne] at hq
    obtain ⟨hu, hs, hv, hal, hdom⟩ := hp
    obtain ⟨hu', hs', hv', hal', hdom'⟩ := hq
    exact C05_print_injective p q ⟨by rw [hu]; exact hne, hv, by omega⟩
      ⟨by rw [hu']; exact hne, hv', by omega⟩ hal hal' hdom hdom' (by rw [hu, hu']) ht

theorem KeyOk.key {var : VarDecl} {p : Period} (h : KeyOk var p) : var.key p = p := by
  unfold KeyOk at h
  unfold VarDecl.key
  split at h
  · rename_i he; rw [if_pos he, h]
  · rename_i hne; rw [if_neg hne]

theorem KeyOk.unit_check {var : VarDecl} {p : Period} (h : KeyOk var p) :
    ¬ (var.defUnit ≠ .eternity ∧ (var.defUnit ≠ p.unit ∨ p.size > 1)) := by
  unfold KeyOk at h
  split at h
  · rename_i he; intro hc; exact hc.1 he
  · intro hc
    rcases hc.2 with h1 | h1
    · exact h1 h.1.symm
    · omega

theorem key_idem (var : VarDecl) (p : Period) : var.key (var.key p) = var.key p := by
  unfold VarDecl.key
  split <;> rfl

theorem parseName_fileName {var : VarDecl} {p : Period} (h : KeyOk var p) :
    parseName (fileName p) = .ok (some (p, fileName p)) := by
  unfold parseName
  rw [stripNpy_fileName]
  simp only [h.parse]

/-! ## one holder -/

/-- what `_set` guarantees of a holder in a population of `c` members: every known key is a
    round-tripping key of the variable, every array has the population's length and the
    variable's type -/
structure Holder.Inv (h : Holder) (c : Nat) : Prop where
  keyOk : ∀ p ∈ h.known, KeyOk h.var p
  valOk : ∀ p ∈ h.known, ∀ v, h.getArray c p = some v → v.length = c ∧ v.vtype = h.var.vtype

theorem Holder.mem_known (h : Holder) (p : Period) :
    p ∈ h.known ↔ p ∈ keys h.mem ∨ ∃ d, h.disk = some d ∧ p ∈ keys d := by
  unfold Holder.known
  cases hd : h.disk with
  | none => simp
  | some d => simp

theorem Holder.raw_some (h : Holder) (p : Period) (hp : p ∈ h.known) : ∃ v, h.raw p = some v := by
  unfold Holder.raw
  cases hm : alookup p h.mem with
  | some v => exact ⟨v, rfl⟩
  | none =>
    have hnm := (alookup_eq_none_iff _ _).1 hm
    rcases (h.mem_known p).1 hp with h1 | ⟨d, hd, h1⟩
    · exact absurd h1 hnm
    · simp only [hd]
      exact alookup_isSome_of_mem d p h1

theorem Holder.raw_none (h : Holder) (p : Period) (hp : p ∉ h.known) : h.raw p = none := by
  unfold Holder.raw
  have h1 : p ∉ keys h.mem := fun hh => hp ((h.mem_known p).2 (Or.inl hh))
  rw [(alookup_eq_none_iff _ _).2 h1]
  cases hd : h.disk with
  | none => rfl
  | some d =>
    have h2 : p ∉ keys d := fun hh => hp ((h.mem_known p).2 (Or.inr ⟨d, hd, hh⟩))
    exact (alookup_eq_none_iff _ _).2 h2

/-- the array `get_array` returns (a dummy when it returns `None`) -/
def Holder.val (h : Holder) (c : Nat) (p : Period) : Vec :=
  (h.getArray c p).getD (.plain (.ints []))

theorem Holder.Inv.getArray_known {h : Holder} {c : Nat} (hinv : h.Inv c) {p : Period}
    (hp : p ∈ h.known) : h.getArray c p = some (h.val c p) := by
  unfold Holder.val
  unfold Holder.getArray
  split
  · rfl
  · rw [(hinv.keyOk p hp).key]
    obtain ⟨v, hv⟩ := h.raw_some p hp
    rw [hv]; rfl

theorem Holder.Inv.saved_known {h : Holder} {c : Nat} (hinv : h.Inv c) {p : Period}
    (hp : p ∈ h.known) : h.saved c p = some (fileName p, (h.val c p).strip) := by
  unfold Holder.saved
  rw [hinv.getArray_known hp, (hinv.keyOk p hp).key]

theorem Holder.Inv.mem_saved {h : Holder} {c : Nat} (hinv : h.Inv c) (f : List Char) (a : Arr) :
    (f, a) ∈ h.known.filterMap (h.saved c) ↔
      ∃ p ∈ h.known, f = fileName p ∧ a = (h.val c p).strip := by
  rw [List.mem_filterMap]
  constructor
  · rintro ⟨p, hp, hs⟩
    rw [hinv.saved_known hp] at hs
    injection hs with hs
    injection hs with h1 h2
    exact ⟨p, hp, h1.symm, h2.symm⟩
  · rintro ⟨p, hp, h1, h2⟩
    exact ⟨p, hp, by rw [hinv.saved_known hp, h1, h2]⟩

theorem Holder.Inv.fileName_inj_known {h : Holder} {c : Nat} (hinv : h.Inv c) {p q : Period}
    (hp : p ∈ h.known) (hq : q ∈ h.known) (hf : fileName p = fileName q) : p = q :=
  (hinv.keyOk p hp).text_inj (hinv.keyOk q hq) (fileName_inj p q hf)

theorem Holder.Inv.saved_functional {h : Holder} {c : Nat} (hinv : h.Inv c) :
    Functional (h.known.filterMap (h.saved c)) := by
  intro f a a' h1 h2
  obtain ⟨p, hp, hf, ha⟩ := (hinv.mem_saved f a).1 h1
  obtain ⟨q, hq, hf', ha'⟩ := (hinv.mem_saved f a').1 h2
  have : p = q := hinv.fileName_inj_known hp hq (by rw [← hf, ← hf'])
  rw [ha, ha', this]

theorem Holder.Inv.mem_keys_files {h : Holder} {c : Nat} (hinv : h.Inv c) (f : List Char) :
    f ∈ keys (h.files c []) ↔ ∃ p ∈ h.known, f = fileName p := by
  unfold Holder.files
  rw [mem_keys_upsertAll]
  constructor
  · rintro (h1 | h1)
    · simp [keys] at h1
    · obtain ⟨⟨f', a⟩, hm, hf⟩ := List.mem_map.1 h1
      simp only at hf; subst hf
      obtain ⟨p, hp, hf, _⟩ := (hinv.mem_saved f' a).1 hm
      exact ⟨p, hp, hf⟩
  · rintro ⟨p, hp, hf⟩
    exact Or.inr (mem_keys_of_mem _ f _ ((hinv.mem_saved f _).2 ⟨p, hp, hf, rfl⟩))

theorem Holder.Inv.alookup_files {h : Holder} {c : Nat} (hinv : h.Inv c) {p : Period}
    (hp : p ∈ h.known) : alookup (fileName p) (h.files c []) = some (h.val c p).strip := by
  unfold Holder.files
  exact alookup_upsertAll_of_mem _ _ hinv.saved_functional _ _
    ((hinv.mem_saved _ _).2 ⟨p, hp, rfl, rfl⟩)

/-- the result of `parseName` as a total function -/
def parsedOf (f : List Char) : Option (Period × List Char) :=
  match parseName f with
  | .ok r => r
  | .error _ => none

theorem parsedOf_fileName {var : VarDecl} {p : Period} (h : KeyOk var p) :
    parsedOf (fileName p) = some (p, fileName p) := by
  unfold parsedOf; rw [parseName_fileName h]

/-- the `(period, file name)` pairs `OnDiskStorage.restore` reads from a dumped directory -/
def Holder.parsedFiles (h : Holder) (c : Nat) : List (Period × List Char) :=
  ((keys (h.files c [])).map parsedOf).filterMap id

theorem Holder.Inv.parseDir_files {h : Holder} {c : Nat} (hinv : h.Inv c) :
    parseDir (h.files c []) = .ok (upsertAll [] (h.parsedFiles c)) := by
  unfold parseDir
  rw [mapE_ok_map parseName parsedOf]
  · rfl
  · intro f hf
    obtain ⟨p, hp, hfp⟩ := (hinv.mem_keys_files f).1 hf
    rw [hfp, parseName_fileName (hinv.keyOk p hp), parsedOf_fileName (hinv.keyOk p hp)]

theorem Holder.Inv.mem_parsedFiles {h : Holder} {c : Nat} (hinv : h.Inv c) (q : Period)
    (f : List Char) : (q, f) ∈ h.parsedFiles c ↔ q ∈ h.known ∧ f = fileName q := by
  unfold Holder.parsedFiles
  rw [List.mem_filterMap]
  constructor
  · rintro ⟨o, ho, hid⟩
    simp only [id] at hid; subst hid
    obtain ⟨f', hf', hpo⟩ := List.mem_map.1 ho
    obtain ⟨p, hp, hfp⟩ := (hinv.mem_keys_files f').1 hf'
    rw [hfp, parsedOf_fileName (hinv.keyOk p hp)] at hpo
    injection hpo with hpo
    injection hpo with h1 h2
    rw [← h1, ← h2]; exact ⟨hp, rfl⟩
  · rintro ⟨hq, hf⟩
    refine ⟨some (q, f), List.mem_map.2 ⟨fileName q, (hinv.mem_keys_files _).2 ⟨q, hq, rfl⟩, ?_⟩, rfl⟩
    rw [parsedOf_fileName (hinv.keyOk q hq), hf]

theorem Holder.Inv.parsedFiles_functional {h : Holder} {c : Nat} (hinv : h.Inv c) :
    Functional (h.parsedFiles c) := by
  intro q f f' h1 h2
  rw [((hinv.mem_parsedFiles q f).1 h1).2, ((hinv.mem_parsedFiles q f').1 h2).2]

theorem Holder.Inv.mem_keys_parsed {h : Holder} {c : Nat} (hinv : h.Inv c) (q : Period) :
    q ∈ keys (upsertAll [] (h.parsedFiles c)) ↔ q ∈ h.known := by
  rw [mem_keys_upsertAll]
  constructor
  · rintro (h1 | h1)
    · simp [keys] at h1
    · obtain ⟨⟨q', f⟩, hm, hq⟩ := List.mem_map.1 h1
      simp only at hq; subst hq
      exact ((hinv.mem_parsedFiles q' f).1 hm).1
  · intro hq
    exact Or.inr (mem_keys_of_mem _ q _ ((hinv.mem_parsedFiles q _).2 ⟨hq, rfl⟩))

theorem Holder.Inv.alookup_parsed {h : Holder} {c : Nat} (hinv : h.Inv c) {p : Period}
    (hp : p ∈ h.known) :
    alookup p (upsertAll [] (h.parsedFiles c)) = some (fileName p) :=
  alookup_upsertAll_of_mem _ _ hinv.parsedFiles_functional _ _
    ((hinv.mem_parsedFiles _ _).2 ⟨hp, rfl⟩)

theorem decodeFile_strip (v : Vec) : decodeFile v.vtype v.strip = .ok v := by
  cases v with
  | plain a => cases a <;> rfl
  | enum e idx => rfl

theorem Holder.Inv.loadOne_known {h : Holder} {c : Nat} (hinv : h.Inv c) {p : Period}
    (hp : p ∈ h.known) :
    loadOne h.var c (h.files c []) (upsertAll [] (h.parsedFiles c)) p = .ok (p, h.val c p) := by
  have hk := hinv.keyOk p hp
  obtain ⟨hlen, hty⟩ := hinv.valOk p hp _ (hinv.getArray_known hp)
  unfold loadOne
  rw [hk.key, hinv.alookup_parsed hp]
  simp only [hinv.alookup_files hp]
  rw [← hty, decodeFile_strip]
  simp only [hlen, ne_eq, not_true_eq_false, if_false]
  rw [if_neg hk.unit_check]

/-- the memory store `_restore_holder` builds from the directory `_dump_holder` wrote -/
def Holder.reloaded (h : Holder) (c : Nat) : Store :=
  upsertAll [] ((keys (upsertAll [] (h.parsedFiles c))).map (fun p => (p, h.val c p)))

theorem Holder.Inv.loadStore_files {h : Holder} {c : Nat} (hinv : h.Inv c) :
    loadStore h.var c (h.files c []) [] = .ok (h.reloaded c) := by
  unfold loadStore
  rw [hinv.parseDir_files]
  simp only
  rw [mapE_ok_map _ (fun p => (p, h.val c p))]
  · rfl
  · intro p hp
    exact hinv.loadOne_known ((hinv.mem_keys_parsed p).1 hp)

theorem keys_map_pair {κ α : Type} (l : List κ) (g : κ → α) :
    keys (l.map (fun p => (p, g p))) = l := by
  induction l with
  | nil => rfl
  | cons a r ih =>
    have : keys (List.map (fun p => (p, g p)) (a :: r)) = a :: keys (List.map (fun p => (p, g p)) r) := rfl
    rw [this, ih]

theorem Holder.Inv.mem_keys_reloaded {h : Holder} {c : Nat} (hinv : h.Inv c) (q : Period) :
    q ∈ keys (h.reloaded c) ↔ q ∈ h.known := by
  unfold Holder.reloaded
  rw [mem_keys_upsertAll, keys_map_pair]
  constructor
  · rintro (h1 | h1)
    · simp [keys] at h1
    · exact (hinv.mem_keys_parsed q).1 h1
  · intro hq
    exact Or.inr ((hinv.mem_keys_parsed q).2 hq)

theorem Holder.Inv.alookup_reloaded {h : Holder} {c : Nat} (hinv : h.Inv c) (q : Period) :
    alookup q (h.reloaded c) = if q ∈ h.known then some (h.val c q) else none := by
  by_cases hq : q ∈ h.known
  · rw [if_pos hq]
    unfold Holder.reloaded
    refine alookup_upsertAll_of_mem _ _ ?_ _ _
      (List.mem_map.2 ⟨q, (hinv.mem_keys_parsed q).2 hq, rfl⟩)
    intro k v v' h1 h2
    obtain ⟨a, _, ha⟩ := List.mem_map.1 h1
    obtain ⟨b, _, hb⟩ := List.mem_map.1 h2
    injection ha with ha1 ha2
    injection hb with hb1 hb2
    rw [← ha2, ← hb2, ha1, hb1]
  · rw [if_neg hq]
    exact (alookup_eq_none_iff _ _).2 (fun hh => hq ((hinv.mem_keys_reloaded q).1 hh))

/-- the holder `_restore_holder` creates in a fresh simulation -/
def Holder.restored (h : Holder) (c : Nat) : Holder := { var := h.var, mem := h.reloaded c }

theorem Holder.Inv.restored_known {h : Holder} {c : Nat} (hinv : h.Inv c) (q : Period) :
    q ∈ (h.restored c).known ↔ q ∈ h.known := by
  rw [Holder.mem_known]
  simp only [Holder.restored, reduceCtorEq, false_and, exists_false, or_false]
  exact hinv.mem_keys_reloaded q

theorem getArray_mk (var : VarDecl) (mem : Store) (c : Nat) (p : Period) :
    ({ var := var, mem := mem } : Holder).getArray c p =
      if var.neutralized then some (var.default.fill c) else alookup (var.key p) mem := by
  unfold Holder.getArray Holder.raw
  simp only
  cases alookup (var.key p) mem <;> rfl

theorem Holder.Inv.restored_getArray {h : Holder} {c : Nat} (hinv : h.Inv c) (p : Period) :
    (h.restored c).getArray c p = h.getArray c p := by
  unfold Holder.restored
  rw [getArray_mk]
  unfold Holder.getArray
  by_cases hn : h.var.neutralized = true
  · rw [if_pos hn, if_pos hn]
  · rw [if_neg hn, if_neg hn, hinv.alookup_reloaded]
    by_cases hk : h.var.key p ∈ h.known
    · rw [if_pos hk]
      have h1 := hinv.getArray_known hk
      unfold Holder.getArray at h1
      rw [if_neg hn, key_idem] at h1
      exact h1.symm
    · rw [if_neg hk, h.raw_none _ hk]

/-! ## entity files -/

theorem eq_of_nodup_map {α β : Type} (f : α → β) (l : List α) (hn : (l.map f).Nodup) (a b : α)
    (ha : a ∈ l) (hb : b ∈ l) (hf : f a = f b) : a = b := by
  induction l with
  | nil => cases ha
  | cons x r ih =>
    rw [List.map_cons, List.nodup_cons] at hn
    rcases List.mem_cons.1 ha with ha | ha <;> rcases List.mem_cons.1 hb with hb | hb
    · rw [ha, hb]
    · exact absurd (List.mem_map.2 ⟨b, hb, by rw [← hf, ha]⟩) hn.1
    · exact absurd (List.mem_map.2 ⟨a, ha, by rw [hf, hb]⟩) hn.1
    · exact ih hn.2 ha hb

/-- role-key injectivity: two role objects of the entity never share a key -/
def RoleKeysInjective (roles : List Role) : Prop :=
  ∀ r ∈ roles, ∀ r' ∈ roles, r.key = r'.key → r = r'

theorem decode_encode_role (roles : List Role) (hinj : RoleKeysInjective roles) (r : Role)
    (hr : r ∈ roles) : decodeRole roles (encodeRole roles (.role r)) = .role r := by
  have h1 : encodeRole roles (.role r) = r.key := by
    cases hf : roles.find? (fun r' => decide (r' = r)) with
    | none =>
      have := List.find?_eq_none.1 hf r hr
      simp at this
    | some r' =>
      have := List.find?_some hf
      simp only [decide_eq_true_eq] at this
      simp only [encodeRole, hf, this]
  rw [h1]
  cases hf : roles.find? (fun x => decide (x.key = r.key)) with
  | none =>
    have := List.find?_eq_none.1 hf r hr
    simp at this
  | some r' =>
    have h2 := List.find?_some hf
    simp only [decide_eq_true_eq] at h2
    have h3 := List.mem_of_find?_eq_some hf
    simp only [decodeRole, hf, hinj r' h3 r hr h2]

/-- the population `_restore_entity` rebuilds from the files `_dump_entity` wrote for `pop` -/
def Pop.normal (pop : Pop) : Pop :=
  if pop.entity.isPerson then { entity := pop.entity, ids := pop.ids, count := pop.ids.length }
  else
    { entity := pop.entity, ids := pop.ids, count := pop.ids.length,
      membersEntityId := pop.membersEntityId,
      membersRole := if pop.entity.roles.isEmpty then []
        else (pop.membersRole.map (encodeRole pop.entity.roles)).map (decodeRole pop.entity.roles),
      membersPosition := pop.membersPosition }

theorem restoreEntity_entityFiles (fs : FS) (pop : Pop)
    (h : alookup pop.entity.key fs.ents = some (entityFiles pop)) :
    restoreEntity fs pop.entity = .ok pop.normal := by
  unfold restoreEntity Pop.normal
  rw [h]
  unfold entityFiles
  by_cases hp : pop.entity.isPerson = true
  · simp [hp, readIds, alookup]
  · by_cases hr : pop.entity.roles.isEmpty = true
    · simp [hp, hr, readIds, readInts, readNode, alookup]
    · simp [hp, hr, readIds, readInts, readNode, alookup]

/-- what the builder guarantees of a population: `count = len(ids)`; for a group entity the
    role keys are injective and every member's role is one of the entity's (flattened) roles
    (so an entity without roles has no role array) -/
structure Pop.Ok (pop : Pop) : Prop where
  count_eq : pop.count = pop.ids.length
  roles_inj : RoleKeysInjective pop.entity.roles
  roles_mem : ∀ rv ∈ pop.membersRole, ∃ r ∈ pop.entity.roles, rv = .role r

theorem Pop.Ok.roles_roundtrip {pop : Pop} (hok : pop.Ok) :
    (if pop.entity.roles.isEmpty then []
      else (pop.membersRole.map (encodeRole pop.entity.roles)).map (decodeRole pop.entity.roles))
      = pop.membersRole := by
  by_cases hr : pop.entity.roles.isEmpty = true
  · rw [if_pos hr]
    have hnil : pop.entity.roles = [] := List.isEmpty_iff.1 hr
    cases hm : pop.membersRole with
    | nil => rfl
    | cons rv t =>
      obtain ⟨r, hr', _⟩ := hok.roles_mem rv (by rw [hm]; exact List.mem_cons_self)
      rw [hnil] at hr'; cases hr'
  · rw [if_neg hr, List.map_map]
    have : ∀ l : List RoleVal, (∀ rv ∈ l, ∃ r ∈ pop.entity.roles, rv = .role r) →
        l.map (decodeRole pop.entity.roles ∘ encodeRole pop.entity.roles) = l := by
      intro l hl
      induction l with
      | nil => rfl
      | cons rv t ih =>
        obtain ⟨r, hr', he⟩ := hl rv List.mem_cons_self
        rw [List.map_cons, ih (fun x hx => hl x (List.mem_cons_of_mem _ hx)), he]
        simp only [Function.comp, decode_encode_role _ hok.roles_inj r hr']
    exact this _ hok.roles_mem

theorem Pop.Ok.normal_entity (pop : Pop) : pop.normal.entity = pop.entity := by
  unfold Pop.normal; split <;> rfl

theorem Pop.Ok.normal_count {pop : Pop} (hok : pop.Ok) : pop.normal.count = pop.count := by
  unfold Pop.normal; rw [hok.count_eq]; split <;> rfl

theorem Pop.Ok.normal_view {pop : Pop} (hok : pop.Ok) : pop.normal.view = pop.view := by
  unfold Pop.normal
  by_cases hp : pop.entity.isPerson = true
  · simp only [hp, if_true, Pop.view, hok.count_eq]
  · simp only [hp, if_false, Pop.view, hok.count_eq, hok.roles_roundtrip, Bool.false_eq_true]

/-! ## the whole dump -/

section AList2
variable {κ α : Type} [DecidableEq κ]

theorem upsert_of_not_mem (m : List (κ × α)) (k : κ) (v : α) (h : k ∉ keys m) :
    upsert m k v = m ++ [(k, v)] := by
  induction m with
  | nil => rfl
  | cons e r ih =>
    simp only [keys, List.map_cons, List.mem_cons, not_or] at h
    unfold upsert
    rw [if_neg (fun hh => h.1 hh.symm), ih h.2]
    rfl

omit [DecidableEq κ] in
theorem keys_append (m l : List (κ × α)) : keys (m ++ l) = keys m ++ keys l := by
  unfold keys; exact List.map_append

end AList2

theorem dumpEntities_acc (pops : List Pop) (acc : List (String × List (String × Node)))
    (hn : (pops.map (fun p => p.entity.key)).Nodup)
    (hd : ∀ p ∈ pops, p.entity.key ∉ keys acc) :
    foldE dumpEntityStep acc pops
      = .ok (acc ++ pops.map (fun p => (p.entity.key, entityFiles p))) := by
  induction pops generalizing acc with
  | nil => simp [foldE]
  | cons p t ih =>
    rw [List.map_cons, List.nodup_cons] at hn
    unfold foldE
    have hstep : dumpEntityStep acc p = .ok (acc ++ [(p.entity.key, entityFiles p)]) := by
      unfold dumpEntityStep
      rw [(alookup_eq_none_iff acc p.entity.key).2 (hd p List.mem_cons_self)]
    rw [hstep]
    simp only
    rw [ih _ hn.2]
    · simp
    · intro q hq
      rw [keys_append]
      simp only [keys, List.map_cons, List.map_nil, List.mem_append, List.mem_singleton, not_or]
      refine ⟨hd q (List.mem_cons_of_mem _ hq), ?_⟩
      intro he
      exact hn.1 (List.mem_map.2 ⟨q, hq, he⟩)

theorem dumpEntities_ok (pops : List Pop) (hn : (pops.map (fun p => p.entity.key)).Nodup) :
    dumpEntities pops = .ok (pops.map (fun p => (p.entity.key, entityFiles p))) := by
  unfold dumpEntities
  rw [dumpEntities_acc pops [] hn (fun _ _ h => by simp [keys] at h)]
  simp

theorem alookup_entityFiles (pops : List Pop) (hn : (pops.map (fun p => p.entity.key)).Nodup)
    (pop : Pop) (hp : pop ∈ pops) :
    alookup pop.entity.key (pops.map (fun p => (p.entity.key, entityFiles p)))
      = some (entityFiles pop) :=
  alookup_map_of_inj pops (fun p => p.entity.key) entityFiles pop hp
    (fun x hx he => by rw [eq_of_nodup_map _ pops hn x pop hx hp he])

theorem dumpAll_acc (cnt : Holder → Nat) (hs : List Holder)
    (vars : List (String × List (List Char × Arr)))
    (hn : (hs.map (fun h => h.var.name)).Nodup)
    (hne : ∀ h ∈ hs, h.var.name ≠ "__entities__")
    (hd : ∀ h ∈ hs, h.var.name ∉ keys vars) :
    hs.foldl (fun vars h => dumpHolder vars (cnt h) h) vars
      = vars ++ hs.map (fun h => (h.var.name, h.files (cnt h) [])) := by
  induction hs generalizing vars with
  | nil => simp
  | cons h t ih =>
    rw [List.map_cons, List.nodup_cons] at hn
    rw [List.foldl_cons]
    have h1 : dumpHolder vars (cnt h) h = vars ++ [(h.var.name, h.files (cnt h) [])] := by
      unfold dumpHolder
      rw [if_neg (hne h List.mem_cons_self),
        (alookup_eq_none_iff vars h.var.name).2 (hd h List.mem_cons_self)]
      exact upsert_of_not_mem _ _ _ (hd h List.mem_cons_self)
    rw [h1, ih _ hn.2 (fun x hx => hne x (List.mem_cons_of_mem _ hx))]
    · simp
    · intro q hq
      rw [keys_append]
      simp only [keys, List.map_cons, List.map_nil, List.mem_append, List.mem_singleton, not_or]
      refine ⟨hd q (List.mem_cons_of_mem _ hq), ?_⟩
      intro he
      exact hn.1 (List.mem_map.2 ⟨q, hq, he⟩)

/-! ## the whole restore -/

theorem setHolderIn_of_fresh (hs : List Holder) (h : Holder)
    (hf : ∀ h' ∈ hs, h'.var.name ≠ h.var.name) : setHolderIn hs h = hs ++ [h] := by
  induction hs with
  | nil => rfl
  | cons a r ih =>
    unfold setHolderIn
    rw [if_neg (hf a List.mem_cons_self), ih (fun x hx => hf x (List.mem_cons_of_mem _ hx))]
    rfl

theorem holder?_none_of_fresh (s : Sim) (n : String)
    (hf : ∀ h' ∈ s.holders, h'.var.name ≠ n) : s.holder? n = none := by
  unfold Sim.holder?
  rw [List.find?_eq_none]
  intro x hx
  simp only [decide_eq_true_eq]
  exact hf x hx

theorem restoreHolder_fresh (sys : System) (fs : FS) (a : Sim) (h : Holder) (c : Nat) (pop : Pop)
    (hv : sys.var? h.var.name = some h.var) (hp : a.pop? h.var.entity = some pop)
    (hc : pop.count = c) (hfresh : ∀ h' ∈ a.holders, h'.var.name ≠ h.var.name)
    (hf : alookup h.var.name fs.vars = some (h.files c [])) (hinv : h.Inv c) :
    restoreHolder sys fs a h.var.name
      = .ok { pops := a.pops, holders := a.holders ++ [h.restored c] } := by
  unfold restoreHolder
  rw [hv]
  simp only [hp, holder?_none_of_fresh a _ hfresh, Option.getD_none, hf, Option.getD_some, hc]
  rw [hinv.loadStore_files]
  simp only [Sim.setHolder]
  rw [setHolderIn_of_fresh]
  · rfl
  · exact hfresh

theorem restore_fold (sys : System) (fs : FS) (cnt : Holder → Nat) (hs : List Holder) (a : Sim)
    (hn : (hs.map (fun h => h.var.name)).Nodup)
    (hfresh : ∀ h ∈ hs, ∀ h' ∈ a.holders, h'.var.name ≠ h.var.name)
    (each : ∀ h ∈ hs, sys.var? h.var.name = some h.var ∧
      (∃ pop, a.pop? h.var.entity = some pop ∧ pop.count = cnt h) ∧
      alookup h.var.name fs.vars = some (h.files (cnt h) []) ∧ h.Inv (cnt h)) :
    foldE (restoreHolder sys fs) a (hs.map (fun h => h.var.name))
      = .ok { pops := a.pops, holders := a.holders ++ hs.map (fun h => h.restored (cnt h)) } := by
  induction hs generalizing a with
  | nil => simp [foldE]
  | cons h t ih =>
    rw [List.map_cons, List.nodup_cons] at hn
    obtain ⟨hv, ⟨pop, hp, hc⟩, hf, hinv⟩ := each h List.mem_cons_self
    rw [List.map_cons]
    unfold foldE
    rw [restoreHolder_fresh sys fs a h (cnt h) pop hv hp hc (hfresh h List.mem_cons_self) hf hinv]
    simp only
    rw [ih _ hn.2]
    · simp
    · intro x hx h' hh'
      simp only [List.mem_append, List.mem_singleton] at hh'
      rcases hh' with hh' | hh'
      · exact hfresh x (List.mem_cons_of_mem _ hx) h' hh'
      · rw [hh']
        intro he
        exact hn.1 (List.mem_map.2 ⟨x, hx, he.symm⟩)
    · intro x hx
      exact each x (List.mem_cons_of_mem _ hx)

/-- "dumped under `sys`, well formed": the hypotheses of the round trip.
    * `same_system`: the populations are those of the system's entities, person first;
    * `keys_nodup`, `names_nodup`: entity keys and holder names are unique (they are `dict` keys);
    * `pop_ok`: see `Pop.Ok`;
    * `holder_ok`: the holder's variable is the system's variable of that name, is not called
      `__entities__`, its entity has a population, and the holder satisfies `Holder.Inv` -/
structure Dumpable (sys : System) (s : Sim) : Prop where
  same_system : s.pops.map (fun p => p.entity) = sys.person :: sys.groups
  keys_nodup : (s.pops.map (fun p => p.entity.key)).Nodup
  names_nodup : (s.holders.map (fun h => h.var.name)).Nodup
  pop_ok : ∀ pop ∈ s.pops, pop.Ok
  holder_ok : ∀ h ∈ s.holders, h.var.name ≠ "__entities__" ∧ sys.var? h.var.name = some h.var ∧
    (s.pop? h.var.entity).isSome ∧ h.Inv (s.countOf h)

/-- the simulation `restore sys (dump s)` computes -/
def Sim.reloaded (s : Sim) : Sim :=
  { pops := s.pops.map Pop.normal, holders := s.holders.map (fun h => h.restored (s.countOf h)) }

theorem Dumpable.dumpVars_eq {sys : System} {s : Sim} (hd : Dumpable sys s) :
    dumpVars s = s.holders.map (fun h => (h.var.name, h.files (s.countOf h) [])) := by
  unfold dumpVars
  have hfil : s.holders.filter (fun h => (s.pop? h.var.entity).isSome) = s.holders :=
    List.filter_eq_self.2 (fun h hh => (hd.holder_ok h hh).2.2.1)
  rw [hfil, dumpAll_acc s.countOf s.holders [] hd.names_nodup (fun h hh => (hd.holder_ok h hh).1)
    (fun _ _ h => by simp [keys] at h)]
  simp

theorem Dumpable.dump_eq {sys : System} {s : Sim} (hd : Dumpable sys s) :
    dump s = .ok { ents := s.pops.map (fun p => (p.entity.key, entityFiles p)),
                   vars := s.holders.map (fun h => (h.var.name, h.files (s.countOf h) [])) } := by
  unfold dump
  rw [dumpEntities_ok s.pops hd.keys_nodup, hd.dumpVars_eq]

theorem pop?_map_normal (pops : List Pop) (k : String) :
    (pops.map Pop.normal).find? (fun p => decide (p.entity.key = k))
      = (pops.find? (fun p => decide (p.entity.key = k))).map Pop.normal := by
  induction pops with
  | nil => rfl
  | cons a t ih =>
    simp only [List.map_cons, List.find?_cons, Pop.Ok.normal_entity]
    by_cases h : a.entity.key = k
    · simp only [h, decide_true, Option.map_some]
    · simp only [h, decide_false]
      exact ih

theorem Dumpable.restore_eq {sys : System} {s : Sim} (hd : Dumpable sys s) (fs : FS)
    (hfs : dump s = .ok fs) : restore sys fs = .ok s.reloaded := by
  rw [hd.dump_eq] at hfs
  injection hfs with hfs
  have hents : fs.ents = s.pops.map (fun p => (p.entity.key, entityFiles p)) := by rw [← hfs]
  have hvars : fs.vars = s.holders.map (fun h => (h.var.name, h.files (s.countOf h) [])) := by
    rw [← hfs]
  have hent : ∀ pop ∈ s.pops, restoreEntity fs pop.entity = .ok pop.normal := by
    intro pop hp
    apply restoreEntity_entityFiles
    rw [hents]
    exact alookup_entityFiles s.pops hd.keys_nodup pop hp
  have hsame := hd.same_system
  cases hpops : s.pops with
  | nil => rw [hpops] at hsame; cases hsame
  | cons p0 gps =>
    rw [hpops, List.map_cons] at hsame
    injection hsame with hperson hgroups
    unfold restore
    rw [← hgroups, mapE_map_ok (restoreEntity fs) (fun p => p.entity) Pop.normal gps
        (fun x hx => hent x (by rw [hpops]; exact List.mem_cons_of_mem _ hx))]
    simp only
    rw [← hperson, hent p0 (by rw [hpops]; exact List.mem_cons_self)]
    simp only
    have hkeys : keys fs.vars = s.holders.map (fun h => h.var.name) := by
      rw [hvars]; unfold keys; rw [List.map_map]; rfl
    rw [hkeys]
    have := restore_fold sys fs s.countOf s.holders
      { pops := p0.normal :: gps.map Pop.normal, holders := [] } hd.names_nodup
      (fun _ _ _ h => by cases h)
      (fun h hh => by
        obtain ⟨_, hv, hpop, hinv⟩ := hd.holder_ok h hh
        refine ⟨hv, ?_, ?_, hinv⟩
        · cases hp : s.pop? h.var.entity with
          | none => rw [hp] at hpop; cases hpop
          | some pop =>
            refine ⟨pop.normal, ?_, ?_⟩
            · have := pop?_map_normal s.pops h.var.entity
              unfold Sim.pop? at hp
              rw [hp, hpops] at this
              exact this
            · have hmem : pop ∈ s.pops := List.mem_of_find?_eq_some hp
              rw [(hd.pop_ok pop hmem).normal_count]
              unfold Sim.countOf
              rw [hp]
        · rw [hvars]
          exact alookup_map_of_inj s.holders (fun h => h.var.name)
            (fun h => h.files (s.countOf h) []) h hh
            (fun x hx he => by rw [eq_of_nodup_map _ s.holders hd.names_nodup x h hx hh he]))
    rw [this]
    unfold Sim.reloaded
    rw [hpops]
    simp

/-! ## the restored simulation is observationally the dumped one -/

theorem holder?_reloaded (s : Sim) (v : String) :
    s.reloaded.holder? v = (s.holder? v).map (fun h => h.restored (s.countOf h)) := by
  unfold Sim.holder? Sim.reloaded
  simp only
  induction s.holders with
  | nil => rfl
  | cons a t ih =>
    simp only [List.map_cons, List.find?_cons]
    have : (a.restored (s.countOf a)).var.name = a.var.name := rfl
    rw [this]
    by_cases h : a.var.name = v
    · simp only [h, decide_true, Option.map_some]
    · simp only [h, decide_false]
      exact ih

theorem Dumpable.countOf_reloaded {sys : System} {s : Sim} (hd : Dumpable sys s) (h : Holder)
    (hh : h ∈ s.holders) (c : Nat) : s.reloaded.countOf (h.restored c) = s.countOf h := by
  have hname : (h.restored c).var.entity = h.var.entity := rfl
  unfold Sim.countOf
  rw [hname]
  have hp : s.reloaded.pop? h.var.entity = (s.pop? h.var.entity).map Pop.normal :=
    pop?_map_normal s.pops h.var.entity
  rw [hp]
  cases hq : s.pop? h.var.entity with
  | none => rfl
  | some pop =>
    have hmem : pop ∈ s.pops := List.mem_of_find?_eq_some hq
    simp only [Option.map_some, (hd.pop_ok pop hmem).normal_count]

theorem Dumpable.view_reloaded {sys : System} {s : Sim} (hd : Dumpable sys s) :
    s.reloaded.view = s.view := by
  unfold Sim.view
  have hpops : s.reloaded.pops.map Pop.view = s.pops.map Pop.view := by
    unfold Sim.reloaded
    simp only [List.map_map]
    apply List.map_congr_left
    intro pop hp
    exact (hd.pop_ok pop hp).normal_view
  have hhas : (fun v => (s.reloaded.holder? v).isSome) = (fun v => (s.holder? v).isSome) := by
    funext v
    rw [holder?_reloaded]
    cases s.holder? v <;> rfl
  have hknows : s.reloaded.knows = s.knows := by
    funext v p
    unfold Sim.knows
    rw [holder?_reloaded]
    cases hf : s.holder? v with
    | none => rfl
    | some h =>
      have hh : h ∈ s.holders := List.mem_of_find?_eq_some hf
      have hinv := (hd.holder_ok h hh).2.2.2
      simp only [Option.map_some]
      exact decide_eq_decide.2 (hinv.restored_known p)
  have hread : s.reloaded.read = s.read := by
    funext v p
    unfold Sim.read
    rw [holder?_reloaded]
    cases hf : s.holder? v with
    | none => rfl
    | some h =>
      have hh : h ∈ s.holders := List.mem_of_find?_eq_some hf
      have hinv := (hd.holder_ok h hh).2.2.2
      simp only [Option.map_some]
      rw [hd.countOf_reloaded h hh, hinv.restored_getArray]
  rw [hpops, hhas, hknows, hread]

/-! ## restore on an arbitrary directory: counts, error branches -/

theorem restoreEntity_count (fs : FS) (e : EntityDecl) (pop : Pop)
    (h : restoreEntity fs e = .ok pop) : pop.count = pop.ids.length ∧ pop.entity = e := by
  unfold restoreEntity at h
  cases h1 : alookup e.key fs.ents with
  | none => rw [h1] at h; cases h
  | some d =>
    rw [h1] at h
    simp only at h
    cases h2 : readIds d "id.npy" with
    | error err => rw [h2] at h; cases h
    | ok ids =>
      rw [h2] at h
      simp only at h
      by_cases hp : e.isPerson = true
      · rw [if_pos hp] at h
        injection h with h; rw [← h]; exact ⟨rfl, rfl⟩
      · rw [if_neg hp] at h
        cases h3 : readInts d "members_position.npy" with
        | error err => rw [h3] at h; cases h
        | ok pos =>
          rw [h3] at h
          simp only at h
          cases h4 : readInts d "members_entity_id.npy" with
          | error err => rw [h4] at h; cases h
          | ok mei =>
            rw [h4] at h
            simp only at h
            cases h5 : readNode d "members_role.npy" with
            | error err => rw [h5] at h; cases h
            | ok node =>
              rw [h5] at h
              simp only at h
              by_cases hr : e.roles.isEmpty = true
              · rw [if_pos hr] at h
                injection h with h; rw [← h]; exact ⟨rfl, rfl⟩
              · rw [if_neg hr] at h
                cases node with
                | roleKeys ks => simp only at h; injection h with h; rw [← h]; exact ⟨rfl, rfl⟩
                | ids l => cases h
                | ints l => cases h
                | int16zero => cases h

/-- `_restore_entity` takes the positions (and the memberships) from their own files: they are
    never recomputed from one another -/
theorem restoreEntity_files (fs : FS) (e : EntityDecl) (pop : Pop) (hg : e.isPerson = false)
    (h : restoreEntity fs e = .ok pop) :
    ∃ d, alookup e.key fs.ents = some d ∧
      readIds d "id.npy" = .ok pop.ids ∧
      readInts d "members_position.npy" = .ok pop.membersPosition ∧
      readInts d "members_entity_id.npy" = .ok pop.membersEntityId := by
  unfold restoreEntity at h
  cases h1 : alookup e.key fs.ents with
  | none => rw [h1] at h; cases h
  | some d =>
    rw [h1] at h
    simp only at h
    refine ⟨d, rfl, ?_⟩
    cases h2 : readIds d "id.npy" with
    | error err => rw [h2] at h; cases h
    | ok ids =>
      rw [h2] at h
      simp only [hg, Bool.false_eq_true, if_false] at h
      cases h3 : readInts d "members_position.npy" with
      | error err => rw [h3] at h; cases h
      | ok pos =>
        rw [h3] at h
        simp only at h
        cases h4 : readInts d "members_entity_id.npy" with
        | error err => rw [h4] at h; cases h
        | ok mei =>
          rw [h4] at h
          simp only at h
          cases h5 : readNode d "members_role.npy" with
          | error err => rw [h5] at h; cases h
          | ok node =>
            rw [h5] at h
            simp only at h
            by_cases hr : e.roles.isEmpty = true
            · rw [if_pos hr] at h
              injection h with h; rw [← h]; exact ⟨rfl, rfl, rfl⟩
            · rw [if_neg hr] at h
              cases node with
              | roleKeys ks => simp only at h; injection h with h; rw [← h]; exact ⟨rfl, rfl, rfl⟩
              | ids l => cases h
              | ints l => cases h
              | int16zero => cases h

theorem Pop.Ok.normal_fields {pop : Pop} (hok : pop.Ok) (hg : pop.entity.isPerson = false) :
    pop.normal.entity = pop.entity ∧ pop.normal.ids = pop.ids ∧ pop.normal.count = pop.count ∧
    pop.normal.membersEntityId = pop.membersEntityId ∧ pop.normal.membersRole = pop.membersRole ∧
    pop.normal.membersPosition = pop.membersPosition := by
  refine ⟨Pop.Ok.normal_entity pop, ?_, hok.normal_count, ?_, ?_, ?_⟩
  · unfold Pop.normal; simp only [hg, Bool.false_eq_true, if_false]
  · unfold Pop.normal; simp only [hg, Bool.false_eq_true, if_false]
  · unfold Pop.normal; simp only [hg, Bool.false_eq_true, if_false]; exact hok.roles_roundtrip
  · unfold Pop.normal; simp only [hg, Bool.false_eq_true, if_false]

theorem mapE_forall {α β : Type} (f : α → Except String β) (P : β → Prop) (l : List α)
    (bs : List β) (h : mapE f l = .ok bs) (hP : ∀ a b, a ∈ l → f a = .ok b → P b) :
    ∀ b ∈ bs, P b := by
  induction l generalizing bs with
  | nil => unfold mapE at h; injection h with h; rw [← h]; intro b hb; cases hb
  | cons a r ih =>
    unfold mapE at h
    cases hfa : f a with
    | error e => rw [hfa] at h; cases h
    | ok b0 =>
      rw [hfa] at h
      simp only at h
      cases hr : mapE f r with
      | error e => rw [hr] at h; cases h
      | ok bs0 =>
        rw [hr] at h
        injection h with h
        rw [← h]
        intro b hb
        rcases List.mem_cons.1 hb with hb | hb
        · rw [hb]; exact hP a b0 List.mem_cons_self hfa
        · exact ih bs0 hr (fun a b ha => hP a b (List.mem_cons_of_mem _ ha)) b hb

theorem restoreHolder_pops (sys : System) (fs : FS) (s s' : Sim) (n : String)
    (h : restoreHolder sys fs s n = .ok s') : s'.pops = s.pops := by
  unfold restoreHolder at h
  cases h1 : sys.var? n with
  | none => rw [h1] at h; cases h
  | some var =>
    rw [h1] at h
    simp only at h
    cases h2 : s.pop? var.entity with
    | none => rw [h2] at h; cases h
    | some pop =>
      rw [h2] at h
      simp only at h
      cases h3 : loadStore var pop.count ((alookup n fs.vars).getD [])
          ((s.holder? n).getD { var := var }).mem with
      | error e => rw [h3] at h; cases h
      | ok mem => rw [h3] at h; injection h with h; rw [← h]; rfl

theorem foldE_error_of_mem {α σ : Type} (f : σ → α → Except String σ) (l : List α) (x : α)
    (hx : x ∈ l) (hf : ∀ s, ∃ e, f s x = .error e) (s : σ) : ∃ e, foldE f s l = .error e := by
  induction l generalizing s with
  | nil => cases hx
  | cons a t ih =>
    unfold foldE
    cases hfa : f s a with
    | error e => exact ⟨e, rfl⟩
    | ok s' =>
      rcases List.mem_cons.1 hx with hx | hx
      · obtain ⟨e, he⟩ := hf s
        rw [hx, hfa] at he; cases he
      · exact ih hx s'

theorem restore_error_of_holder (sys : System) (fs : FS) (n : String) (hn : n ∈ keys fs.vars)
    (hf : ∀ s, ∃ e, restoreHolder sys fs s n = .error e) : ∃ e, restore sys fs = .error e := by
  unfold restore
  cases mapE (restoreEntity fs) sys.groups with
  | error e => exact ⟨e, rfl⟩
  | ok gs =>
    simp only
    cases restoreEntity fs sys.person with
    | error e => exact ⟨e, rfl⟩
    | ok pp => exact foldE_error_of_mem _ _ n hn hf _

theorem restoreHolder_error_of_loadStore (sys : System) (fs : FS) (n : String)
    (hl : ∀ var c mem, ∃ e, loadStore var c ((alookup n fs.vars).getD []) mem = .error e)
    (s : Sim) : ∃ e, restoreHolder sys fs s n = .error e := by
  unfold restoreHolder
  cases sys.var? n with
  | none => exact ⟨_, rfl⟩
  | some var =>
    simp only
    cases s.pop? var.entity with
    | none => exact ⟨_, rfl⟩
    | some pop =>
      simp only
      obtain ⟨e, he⟩ := hl var pop.count ((s.holder? n).getD { var := var }).mem
      rw [he]; exact ⟨e, rfl⟩

/-! ## the restored simulation can be dumped again -/

theorem Pop.Ok.normal_ok {pop : Pop} (hok : pop.Ok) : pop.normal.Ok := by
  by_cases hp : pop.entity.isPerson = true
  · refine ⟨?_, ?_, ?_⟩
    · unfold Pop.normal; rw [if_pos hp]
    · rw [Pop.Ok.normal_entity]; exact hok.roles_inj
    · unfold Pop.normal; rw [if_pos hp]; intro rv h; cases h
  · have hg : pop.entity.isPerson = false := by simpa using hp
    obtain ⟨he, hi, hc, _, hr, _⟩ := hok.normal_fields hg
    refine ⟨by rw [hc, hi]; exact hok.count_eq, by rw [he]; exact hok.roles_inj, ?_⟩
    rw [hr, he]; exact hok.roles_mem

theorem Holder.Inv.restored_inv {h : Holder} {c : Nat} (hinv : h.Inv c) : (h.restored c).Inv c where
  keyOk := fun p hp => hinv.keyOk p ((hinv.restored_known p).1 hp)
  valOk := fun p hp v hv => by
    rw [hinv.restored_getArray] at hv
    exact hinv.valOk p ((hinv.restored_known p).1 hp) v hv

theorem Dumpable.reloaded {sys : System} {s : Sim} (hd : Dumpable sys s) :
    Dumpable sys s.reloaded where
  same_system := by
    have : s.reloaded.pops.map (fun p => p.entity) = s.pops.map (fun p => p.entity) := by
      unfold Sim.reloaded
      simp only [List.map_map]
      apply List.map_congr_left
      intro pop _
      exact Pop.Ok.normal_entity pop
    rw [this]; exact hd.same_system
  keys_nodup := by
    have : s.reloaded.pops.map (fun p => p.entity.key) = s.pops.map (fun p => p.entity.key) := by
      unfold Sim.reloaded
      simp only [List.map_map]
      apply List.map_congr_left
      intro pop _
      simp only [Function.comp, Pop.Ok.normal_entity]
    rw [this]; exact hd.keys_nodup
  names_nodup := by
    have : s.reloaded.holders.map (fun h => h.var.name) = s.holders.map (fun h => h.var.name) := by
      unfold Sim.reloaded
      simp only [List.map_map]
      apply List.map_congr_left
      intro h _
      rfl
    rw [this]; exact hd.names_nodup
  pop_ok := by
    intro pop hp
    obtain ⟨p0, hp0, he⟩ := List.mem_map.1 hp
    rw [← he]
    exact (hd.pop_ok p0 hp0).normal_ok
  holder_ok := by
    intro h' hh'
    obtain ⟨h, hh, he⟩ := List.mem_map.1 hh'
    obtain ⟨hne, hv, hpop, hinv⟩ := hd.holder_ok h hh
    rw [← he]
    refine ⟨hne, hv, ?_, ?_⟩
    · have hp : s.reloaded.pop? h.var.entity = (s.pop? h.var.entity).map Pop.normal :=
        pop?_map_normal s.pops h.var.entity
      have hent : (h.restored (s.countOf h)).var.entity = h.var.entity := rfl
      rw [hent, hp]
      cases hq : s.pop? h.var.entity with
      | none => rw [hq] at hpop; cases hpop
      | some pop => rfl
    · rw [hd.countOf_reloaded h hh]
      exact hinv.restored_inv

/-! ## foreign files in a variable directory -/

theorem mapE_congr {α β : Type} (f g : α → Except String β) (l : List α)
    (h : ∀ x ∈ l, f x = g x) : mapE f l = mapE g l := by
  induction l with
  | nil => rfl
  | cons a r ih =>
    unfold mapE
    rw [h a List.mem_cons_self, ih (fun x hx => h x (List.mem_cons_of_mem _ hx))]

theorem mapE_append_ok {α β : Type} (f : α → Except String β) (g : α → β) (a b : List α)
    (hb : ∀ x ∈ b, f x = .ok (g x)) :
    mapE f (a ++ b) = match mapE f a with
      | .error e => .error e
      | .ok as => .ok (as ++ b.map g) := by
  induction a with
  | nil =>
    rw [List.nil_append, mapE_ok_map f g b hb]
    rfl
  | cons x r ih =>
    rw [List.cons_append]
    unfold mapE
    cases f x with
    | error e => rfl
    | ok y =>
      simp only
      rw [ih]
      cases mapE f r with
      | error e => rfl
      | ok ys => rfl

section AList3
variable {κ α : Type} [DecidableEq κ]

theorem alookup_append_of_not_mem (a b : List (κ × α)) (k : κ) (h : k ∉ keys b) :
    alookup k (a ++ b) = alookup k a := by
  induction a with
  | nil => rw [List.nil_append]; exact (alookup_eq_none_iff b k).2 h
  | cons e r ih =>
    rw [List.cons_append]
    unfold alookup
    rw [ih]

theorem mem_upsert (m : List (κ × α)) (k : κ) (v : α) (x : κ × α) (h : x ∈ upsert m k v) :
    x = (k, v) ∨ x ∈ m := by
  induction m with
  | nil => simp only [upsert, List.mem_singleton] at h; exact Or.inl h
  | cons e r ih =>
    unfold upsert at h
    by_cases he : e.1 = k
    · rw [if_pos he] at h
      rcases List.mem_cons.1 h with h | h
      · exact Or.inl h
      · exact Or.inr (List.mem_cons_of_mem _ h)
    · rw [if_neg he] at h
      rcases List.mem_cons.1 h with h | h
      · exact Or.inr (by rw [h]; exact List.mem_cons_self)
      · rcases ih h with h | h
        · exact Or.inl h
        · exact Or.inr (List.mem_cons_of_mem _ h)

theorem mem_upsertAll (m l : List (κ × α)) (x : κ × α) (h : x ∈ upsertAll m l) :
    x ∈ m ∨ x ∈ l := by
  induction l generalizing m with
  | nil => exact Or.inl h
  | cons a r ih =>
    have e : upsertAll m (a :: r) = upsertAll (upsert m a.1 a.2) r := rfl
    rw [e] at h
    rcases ih _ h with h | h
    · rcases mem_upsert m a.1 a.2 x h with h | h
      · exact Or.inr (by rw [h]; exact List.mem_cons_self)
      · exact Or.inl h
    · exact Or.inr (List.mem_cons_of_mem _ h)

end AList3

theorem parseName_some (f : List Char) (pf : Period × List Char)
    (h : parseName f = .ok (some pf)) : pf.2 = f ∧ ∃ core, stripNpy f = some core := by
  unfold parseName at h
  cases hs : stripNpy f with
  | none => rw [hs] at h; simp only at h; injection h with h; cases h
  | some core =>
    rw [hs] at h
    simp only at h
    cases hp : parsePeriod core with
    | error e => rw [hp] at h; cases h
    | ok p =>
      rw [hp] at h
      injection h with h
      injection h with h
      rw [← h]
      exact ⟨rfl, core, rfl⟩

/-- every file `OnDiskStorage.restore` registers is a `*.npy` file of the directory -/
theorem parseDir_values (dir : List (List Char × Arr)) (files : List (Period × List Char))
    (h : parseDir dir = .ok files) (q : Period) (f : List Char) (hm : (q, f) ∈ files) :
    ∃ core, stripNpy f = some core := by
  unfold parseDir at h
  cases he : mapE parseName (keys dir) with
  | error e => rw [he] at h; cases h
  | ok es =>
    rw [he] at h
    injection h with h
    rw [← h] at hm
    rcases mem_upsertAll _ _ _ hm with hm | hm
    · cases hm
    · obtain ⟨o, ho, hid⟩ := List.mem_filterMap.1 hm
      simp only [id] at hid
      subst hid
      have := mapE_forall parseName
        (fun b => ∀ pf, b = some pf → ∃ core, stripNpy pf.2 = some core) (keys dir) es he
        (fun a b _ hab pf hb => by
          rw [hb] at hab
          obtain ⟨h1, core, h2⟩ := parseName_some a pf hab
          exact ⟨core, by rw [h1]; exact h2⟩)
        (some (q, f)) ho (q, f) rfl
      exact this

theorem parseDir_append (dir ex : List (List Char × Arr))
    (hex : ∀ e ∈ ex, stripNpy e.1 = none) : parseDir (dir ++ ex) = parseDir dir := by
  unfold parseDir
  rw [keys_append, mapE_append_ok parseName (fun _ => none) (keys dir) (keys ex)]
  · cases mapE parseName (keys dir) with
    | error e => rfl
    | ok es =>
      simp only
      have : List.filterMap id (es ++ List.map (fun _ => (none : Option (Period × List Char))) (keys ex))
          = List.filterMap id es := by
        rw [List.filterMap_append]
        have h0 : ∀ l : List (List Char),
            List.filterMap id (l.map (fun _ => (none : Option (Period × List Char)))) = [] := by
          intro l
          induction l with
          | nil => rfl
          | cons a r ih => simp only [List.map_cons, List.filterMap_cons, id, ih]
        rw [h0, List.append_nil]
      rw [this]
  · intro x hx
    obtain ⟨e, he, hxe⟩ := List.mem_map.1 hx
    unfold parseName
    rw [← hxe, hex e he]

/-- Files and sub-directories whose name does not end with `.npy`, added to a variable's
    directory, change nothing of what `_restore_holder` loads. -/
theorem loadStore_append (var : VarDecl) (c : Nat) (dir ex : List (List Char × Arr)) (mem : Store)
    (hex : ∀ e ∈ ex, stripNpy e.1 = none) :
    loadStore var c (dir ++ ex) mem = loadStore var c dir mem := by
  unfold loadStore
  rw [parseDir_append dir ex hex]
  cases hp : parseDir dir with
  | error e => rfl
  | ok files =>
    simp only
    rw [mapE_congr (loadOne var c (dir ++ ex) files) (loadOne var c dir files)]
    intro p hp'
    unfold loadOne
    cases hl : alookup (var.key p) files with
    | none => rfl
    | some f =>
      simp only
      have hm := mem_of_alookup _ _ _ hl
      obtain ⟨core, hcore⟩ := parseDir_values dir files hp _ f hm
      have hnot : f ∉ keys ex := by
        intro hf
        obtain ⟨e, he, hfe⟩ := List.mem_map.1 hf
        have := hex e he
        rw [hfe, hcore] at this
        cases this
      rw [alookup_append_of_not_mem dir ex f hnot]

/-- `extras n` put into the directory of every variable `n` -/
def addExtras (extras : String → List (List Char × Arr)) (fs : FS) : FS :=
  { fs with vars := fs.vars.map (fun nd => (nd.1, nd.2 ++ extras nd.1)) }

theorem alookup_addExtras (extras : String → List (List Char × Arr))
    (vars : List (String × List (List Char × Arr))) (n : String) :
    alookup n (vars.map (fun nd => (nd.1, nd.2 ++ extras nd.1)))
      = (alookup n vars).map (fun d => d ++ extras n) := by
  induction vars with
  | nil => rfl
  | cons e r ih =>
    simp only [List.map_cons, alookup]
    by_cases h : e.1 = n
    · simp only [h, if_true, Option.map_some]
    · simp only [h, if_false]
      exact ih

theorem restore_addExtras (sys : System) (fs : FS) (extras : String → List (List Char × Arr))
    (hex : ∀ n, ∀ e ∈ extras n, stripNpy e.1 = none) :
    restore sys (addExtras extras fs) = restore sys fs := by
  have hH : restoreHolder sys (addExtras extras fs) = restoreHolder sys fs := by
    funext s n
    unfold restoreHolder
    cases sys.var? n with
    | none => rfl
    | some var =>
      simp only
      cases s.pop? var.entity with
      | none => rfl
      | some pop =>
        simp only
        have : (alookup n (addExtras extras fs).vars).getD []
            = (alookup n fs.vars).getD [] ++ (if (alookup n fs.vars).isSome then extras n else []) := by
          unfold addExtras
          simp only
          rw [alookup_addExtras]
          cases alookup n fs.vars with
          | none => rfl
          | some d => rfl
        rw [this]
        cases hd : alookup n fs.vars with
        | none => simp only [Option.isSome_none, Bool.false_eq_true, if_false, List.append_nil]
        | some d =>
          simp only [Option.isSome_some, if_true, Option.getD_some]
          rw [loadStore_append var pop.count d (extras n) _ (hex n)]
  have hE : ∀ e, restoreEntity (addExtras extras fs) e = restoreEntity fs e := fun e => rfl
  have hK : keys (addExtras extras fs).vars = keys fs.vars := by
    unfold addExtras keys
    simp only [List.map_map]
    apply List.map_congr_left
    intro x _
    rfl
  unfold restore
  rw [hH, hK]
  have : restoreEntity (addExtras extras fs) = restoreEntity fs := funext hE
  rw [this]

theorem loadStore_nil (var : VarDecl) (c : Nat) (mem : Store) : loadStore var c [] mem = .ok mem :=
  rfl

end OFCore.Dump
