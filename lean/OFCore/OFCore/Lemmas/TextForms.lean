import OFCore.Lemmas.Text
/-! # How the ISO spellings produced by the printer are read back by the lexer -/
namespace OFCore

theorem intText_nat (n : Nat) : intText (n : Int) = natDigits n := by
  unfold intText; simp

theorem lex_y (y : Nat) (h1 : 1000 ≤ y) (h2 : y ≤ 9999) : lexIso (natDigits y) = some (.y y) := by
  rw [natDigits4 y h1 h2]
  simp only [lexIso]
  rw [digitsVal4 _ _ _ _ (by omega) (by omega) (by omega) (by omega)]
  simp only
  congr 2; omega

theorem lex_ym (y m : Nat) (h1 : 1000 ≤ y) (h2 : y ≤ 9999) (hm1 : 1 ≤ m) (hm2 : m ≤ 12) :
    lexIso (natDigits y ++ '-' :: pad 2 m) = some (.ym y m) := by
  rw [natDigits4 y h1 h2, pad2 m (by omega)]
  simp only [lexIso, List.cons_append, List.nil_append]
  rw [digitsVal4 _ _ _ _ (by omega) (by omega) (by omega) (by omega)]
  simp only
  rw [two_dc _ _ (by omega) (by omega)]
  simp only
  have e : m / 10 * 10 + m % 10 = m := by omega
  rw [e, if_pos ⟨hm1, hm2⟩]
  congr 2; omega

theorem lex_ymd (y m d : Nat) (h1 : 1000 ≤ y) (h2 : y ≤ 9999) (hm1 : 1 ≤ m) (hm2 : m ≤ 12)
    (hd1 : 1 ≤ d) (hd2 : d ≤ 31) :
    lexIso (natDigits y ++ '-' :: pad 2 m ++ '-' :: pad 2 d) = some (.ymd y m d) := by
  rw [natDigits4 y h1 h2, pad2 m (by omega), pad2 d (by omega)]
  simp only [lexIso, List.cons_append, List.nil_append]
  rw [digitsVal4 _ _ _ _ (by omega) (by omega) (by omega) (by omega)]
  simp only
  rw [two_dc _ _ (by omega) (by omega), two_dc _ _ (by omega) (by omega)]
  simp only
  have e : m / 10 * 10 + m % 10 = m := by omega
  have e' : d / 10 * 10 + d % 10 = d := by omega
  rw [e, e', if_pos ⟨hm1, hm2, hd1, hd2⟩]
  congr 2; omega

theorem lex_yw (y w : Nat) (h1 : 1000 ≤ y) (h2 : y ≤ 9999) (hw1 : 1 ≤ w) (hw2 : w ≤ 53) :
    lexIso (natDigits y ++ ['-', 'W'] ++ pad 2 w) = some (.yw y w) := by
  rw [natDigits4 y h1 h2, pad2 w (by omega)]
  simp only [lexIso, List.cons_append, List.nil_append]
  rw [digitsVal4 _ _ _ _ (by omega) (by omega) (by omega) (by omega)]
  simp only
  rw [two_dc _ _ (by omega) (by omega)]
  simp only
  have e : w / 10 * 10 + w % 10 = w := by omega
  rw [e, if_pos ⟨hw1, hw2⟩]
  congr 2; omega

theorem natDigits1 (d : Nat) (h : d < 10) : natDigits d = [Nat.digitChar d] := by
  unfold natDigits; exact Nat.toDigits_of_lt_base h

theorem lex_ywd (y w d : Nat) (h1 : 1000 ≤ y) (h2 : y ≤ 9999) (hw1 : 1 ≤ w) (hw2 : w ≤ 53)
    (hd1 : 1 ≤ d) (hd2 : d ≤ 7) :
    lexIso (natDigits y ++ ['-', 'W'] ++ pad 2 w ++ ['-'] ++ natDigits d) = some (.ywd y w d) := by
  rw [natDigits4 y h1 h2, pad2 w (by omega), natDigits1 d (by omega)]
  have hne : (w % 10).digitChar ≠ '-' := (digitVal_digitChar ⟨w % 10, by omega⟩).2.2.2.1
  have e : w / 10 * 10 + w % 10 = w := by omega
  have ey : ((y / 1000 * 10 + y / 100 % 10) * 10 + y / 10 % 10) * 10 + y % 10 = y := by omega
  simp [lexIso, digitsVal4, two_dc, digitVal_dc, hne, e, ey, hw1, hw2, hd1, hd2,
    show y / 1000 < 10 by omega, show y / 100 % 10 < 10 by omega, show y / 10 % 10 < 10 by omega,
    show y % 10 < 10 by omega, show w / 10 < 10 by omega, show w % 10 < 10 by omega, show d < 10 by omega]

/-- the ISO spellings contain no ':' and start with a digit -/
theorem pad_isDig (w n : Nat) : ∀ c ∈ pad w n, IsDig c := by
  intro c hc
  unfold pad at hc
  rcases List.mem_append.1 hc with h | h
  · have := List.eq_of_mem_replicate h; exact ⟨0, by omega, by rw [this]; rfl⟩
  · exact natDigits_isDig n c h

/-! ## decimal texts are injective and free of `_` (for `key_period_size`) -/

theorem natDigits_inj (a b : Nat) (h : natDigits a = natDigits b) : a = b := by
  have := foldVal_natDigits a
  rw [h, foldVal_natDigits] at this
  exact this.symm

theorem intText_inj (i j : Int) (h : intText i = intText j) : i = j := by
  unfold intText at h
  have hd : ∀ n : Nat, ∀ cs, '-' :: cs ≠ natDigits n := by
    intro n cs he
    have hmem : '-' ∈ natDigits n := by rw [← he]; exact List.mem_cons_self
    exact (natDigits_isDig n _ hmem).ne_minus rfl
  split at h <;> split at h
  · injection h with _ h
    have := natDigits_inj _ _ h; omega
  · exact absurd h (hd _ _)
  · exact absurd h.symm (hd _ _)
  · have := natDigits_inj _ _ h; omega

theorem intText_no_us (i : Int) : '_' ∉ intText i := by
  unfold intText
  intro hm
  split at hm
  · rcases List.mem_cons.1 hm with h | h
    · cases h
    · exact (natDigits_isDig _ _ h).ne_us rfl
  · exact (natDigits_isDig _ _ hm).ne_us rfl

theorem append_sep_inj (sep : Char) : ∀ (a a' b b' : List Char), sep ∉ a → sep ∉ a' →
    a ++ sep :: b = a' ++ sep :: b' → a = a' ∧ b = b' := by
  intro a
  induction a with
  | nil =>
    intro a' b b' _ h' h
    cases a' with
    | nil => simp only [List.nil_append] at h; injection h with _ h; exact ⟨rfl, h⟩
    | cons c cs =>
      simp only [List.nil_append, List.cons_append] at h
      injection h with h1 _
      exact absurd (h1 ▸ List.mem_cons_self) h'
  | cons x xs ih =>
    intro a' b b' hx h' h
    cases a' with
    | nil =>
      simp only [List.nil_append, List.cons_append] at h
      injection h with h1 _
      exact absurd (h1 ▸ List.mem_cons_self) hx
    | cons c cs =>
      simp only [List.cons_append] at h
      injection h with h1 h2
      obtain ⟨e1, e2⟩ := ih cs b b' (fun hm => hx (List.mem_cons_of_mem _ hm)) (fun hm => h' (List.mem_cons_of_mem _ hm)) h2
      exact ⟨by rw [h1, e1], e2⟩

end OFCore
