import OFCore.PeriodText
/-! # Character-level lemmas for the text forms: digits, padding, splitting -/
namespace OFCore

theorem digitVal_digitChar : ∀ k : Fin 10, digitVal (Nat.digitChar k.val) = some k.val ∧
    Nat.digitChar k.val ≠ ':' ∧ Nat.digitChar k.val ≠ '_' ∧ Nat.digitChar k.val ≠ '-' ∧ Nat.digitChar k.val ≠ '+' ∧
    isSpace (Nat.digitChar k.val) = false ∧ (Nat.digitChar k.val).toLower ≠ 'e' := by decide +kernel

theorem digitVal_dc (k : Nat) (h : k < 10) : digitVal (Nat.digitChar k) = some k :=
  (digitVal_digitChar ⟨k, h⟩).1

/-- a character that is an ASCII digit, with everything the parser asks of it -/
def IsDig (c : Char) : Prop := ∃ k, k < 10 ∧ c = Nat.digitChar k

theorem IsDig.val {c : Char} (h : IsDig c) : ∃ k, k < 10 ∧ digitVal c = some k ∧ c = Nat.digitChar k := by
  obtain ⟨k, hk, rfl⟩ := h; exact ⟨k, hk, digitVal_dc k hk, rfl⟩
theorem IsDig.ne_colon {c : Char} (h : IsDig c) : c ≠ ':' := by
  obtain ⟨k, hk, rfl⟩ := h; exact (digitVal_digitChar ⟨k, hk⟩).2.1
theorem IsDig.ne_us {c : Char} (h : IsDig c) : c ≠ '_' := by
  obtain ⟨k, hk, rfl⟩ := h; exact (digitVal_digitChar ⟨k, hk⟩).2.2.1
theorem IsDig.ne_minus {c : Char} (h : IsDig c) : c ≠ '-' := by
  obtain ⟨k, hk, rfl⟩ := h; exact (digitVal_digitChar ⟨k, hk⟩).2.2.2.1
theorem IsDig.ne_plus {c : Char} (h : IsDig c) : c ≠ '+' := by
  obtain ⟨k, hk, rfl⟩ := h; exact (digitVal_digitChar ⟨k, hk⟩).2.2.2.2.1
theorem IsDig.not_space {c : Char} (h : IsDig c) : isSpace c = false := by
  obtain ⟨k, hk, rfl⟩ := h; exact (digitVal_digitChar ⟨k, hk⟩).2.2.2.2.2.1
theorem IsDig.lower_ne_e {c : Char} (h : IsDig c) : c.toLower ≠ 'e' := by
  obtain ⟨k, hk, rfl⟩ := h; exact (digitVal_digitChar ⟨k, hk⟩).2.2.2.2.2.2

/-- all decimal digits of a number are digits -/
theorem natDigits_isDig (n : Nat) : ∀ c ∈ natDigits n, IsDig c := by
  unfold natDigits
  induction n using Nat.strongRecOn with
  | _ n ih =>
    rw [Nat.toDigits_eq_if (by decide)]
    split
    · intro c hc; simp only [List.mem_singleton] at hc; exact ⟨n, by omega, hc⟩
    · intro c hc
      rcases List.mem_append.1 hc with h | h
      · exact ih (n / 10) (by omega) c h
      · simp only [List.mem_singleton] at h; exact ⟨n % 10, by omega, h⟩

theorem natDigits_ne_nil (n : Nat) : natDigits n ≠ [] := Nat.toDigits_ne_nil

/-- value of a digit list by left fold (what both `digitsVal` and `pyDigits` compute) -/
def foldVal (acc : Nat) (cs : List Char) : Nat := cs.foldl (fun a c => a * 10 + (digitVal c).getD 0) acc

theorem foldVal_natDigits (n : Nat) : foldVal 0 (natDigits n) = n := by
  unfold natDigits
  induction n using Nat.strongRecOn with
  | _ n ih =>
    rw [Nat.toDigits_eq_if (by decide)]
    split
    · rename_i h; simp [foldVal, digitVal_dc n h]
    · have := ih (n / 10) (by omega)
      unfold foldVal at this ⊢
      rw [List.foldl_append, this]
      simp only [List.foldl_cons, List.foldl_nil, digitVal_dc (n % 10) (by omega), Option.getD_some]
      omega

theorem pyDigits_go_cons (c : Char) (cs : List Char) (acc : Nat) (hne : c ≠ '_') :
    pyDigits.go acc (c :: cs) = (match digitVal c with
      | some d => pyDigits.go (acc * 10 + d) cs
      | none => none) := by
  rw [pyDigits.go.eq_def]
  split
  · rename_i heq; cases heq
  · rename_i heq; injection heq with h1 _; exact absurd h1 hne
  · rename_i heq; injection heq with h1 h2; subst h1 h2; rfl

theorem pyDigits_go (cs : List Char) (h : ∀ c ∈ cs, IsDig c) (acc : Nat) :
    pyDigits.go acc cs = some (foldVal acc cs) := by
  induction cs generalizing acc with
  | nil => simp [pyDigits.go, foldVal]
  | cons c cs ih =>
    have hc := h c (List.mem_cons_self)
    obtain ⟨k, hk, hv, _⟩ := hc.val
    have ih' := ih (fun c' hc' => h c' (List.mem_cons_of_mem _ hc')) (acc * 10 + k)
    rw [pyDigits_go_cons c cs acc hc.ne_us, hv]
    simp only; rw [ih']; simp [foldVal, hv]

theorem pyDigits_natDigits (n : Nat) : pyDigits (natDigits n) = some n := by
  have hd := natDigits_isDig n
  have hv := foldVal_natDigits n
  cases hcs : natDigits n with
  | nil => exact absurd hcs (natDigits_ne_nil n)
  | cons c cs =>
    rw [hcs] at hd hv
    have hc := hd c List.mem_cons_self
    obtain ⟨k, hk, hvk, _⟩ := hc.val
    simp only [pyDigits, hvk]
    rw [pyDigits_go cs (fun c' hc' => hd c' (List.mem_cons_of_mem _ hc'))]
    simp only [foldVal, List.foldl_cons, hvk, Option.getD_some, Nat.zero_mul, Nat.zero_add] at hv
    simp only [foldVal]; rw [hv]

theorem dropWhile_space_dig (cs : List Char) (h : ∀ c ∈ cs, IsDig c) : cs.dropWhile isSpace = cs := by
  cases cs with
  | nil => rfl
  | cons c cs => simp [List.dropWhile, (h c List.mem_cons_self).not_space]

/-- Python `int()` reads back the decimal text of a natural number -/
theorem pyInt_natDigits (n : Nat) : pyInt (natDigits n) = some (n : Int) := by
  have hd := natDigits_isDig n
  unfold pyInt
  simp only
  rw [dropWhile_space_dig _ hd]
  rw [dropWhile_space_dig _ (by intro c hc; exact hd c (List.mem_reverse.1 hc)), List.reverse_reverse]
  cases hcs : natDigits n with
  | nil => exact absurd hcs (natDigits_ne_nil n)
  | cons c cs =>
    have hc : IsDig c := hd c (by rw [hcs]; exact List.mem_cons_self)
    have h1 := hc.ne_minus; have h2 := hc.ne_plus
    split
    · rename_i heq; injection heq with h _; exact absurd h h1
    · rename_i heq; injection heq with h _; exact absurd h h2
    · rw [← hcs, pyDigits_natDigits]; rfl

/-- four-digit numbers -/
theorem natDigits4 (y : Nat) (h1 : 1000 ≤ y) (h2 : y ≤ 9999) :
    natDigits y = [Nat.digitChar (y / 1000), Nat.digitChar (y / 100 % 10), Nat.digitChar (y / 10 % 10), Nat.digitChar (y % 10)] := by
  unfold natDigits
  rw [Nat.toDigits_eq_if (by decide), if_neg (by omega)]
  rw [Nat.toDigits_eq_if (by decide), if_neg (by omega)]
  rw [Nat.toDigits_eq_if (by decide), if_neg (by omega)]
  rw [Nat.toDigits_eq_if (by decide), if_pos (by omega)]
  have e1 : y / 10 / 10 / 10 = y / 1000 := by omega
  have e2 : y / 10 / 10 % 10 = y / 100 % 10 := by omega
  simp [e1, e2]

theorem digitsVal4 (a b c d : Nat) (ha : a < 10) (hb : b < 10) (hc : c < 10) (hd : d < 10) :
    digitsVal [Nat.digitChar a, Nat.digitChar b, Nat.digitChar c, Nat.digitChar d] = some (((a * 10 + b) * 10 + c) * 10 + d) := by
  simp [digitsVal, digitVal_dc, ha, hb, hc, hd]

theorem pad2 (m : Nat) (h : m ≤ 99) : pad 2 m = [Nat.digitChar (m / 10), Nat.digitChar (m % 10)] := by
  unfold pad natDigits
  rw [Nat.toDigits_eq_if (by decide)]
  split
  · rename_i h1
    have : m / 10 = 0 := by omega
    have e : m % 10 = m := by omega
    simp [this, e]
  · rw [Nat.toDigits_eq_if (by decide), if_pos (by omega)]
    simp

theorem two_dc (a b : Nat) (ha : a < 10) (hb : b < 10) : two (Nat.digitChar a) (Nat.digitChar b) = some (a * 10 + b) := by
  simp [two, digitVal_dc, ha, hb]

/-- splitting on a separator that does not occur -/
theorem splitOn_none (sep : Char) (cs : List Char) (h : sep ∉ cs) : splitOn sep cs = [cs] := by
  induction cs with
  | nil => rfl
  | cons c cs ih =>
    have hc : c ≠ sep := fun e => h (by rw [e]; exact List.mem_cons_self)
    have := ih (fun hm => h (List.mem_cons_of_mem _ hm))
    simp [splitOn, hc, this]

theorem splitOn_append (sep : Char) (a b : List Char) (h : sep ∉ a) :
    splitOn sep (a ++ sep :: b) = a :: splitOn sep b := by
  induction a with
  | nil => simp [splitOn]
  | cons c cs ih =>
    have hc : c ≠ sep := fun e => h (by rw [e]; exact List.mem_cons_self)
    have := ih (fun hm => h (List.mem_cons_of_mem _ hm))
    simp [splitOn, hc, this]

theorem lower_ne_eternity (c : Char) (cs : List Char) (h : c.toLower ≠ 'e') :
    lower (c :: cs) ≠ "eternity".toList := by
  intro he
  simp only [lower, List.map_cons] at he
  have : "eternity".toList = 'e' :: "ternity".toList := by decide
  rw [this] at he
  injection he with h1 _
  exact h h1

end OFCore
