import OFCore.Api
/-!
# Helper lemmas and specification predicates for the web API / YAML test model (property C20)
-/
set_option linter.unusedSimpArgs false
set_option linter.unusedVariables false
namespace OFCore.Api

/-! ## Leaves -/

theorem renderVal_isLeaf (v : Val) : (renderVal v).isLeaf = true := by cases v <;> rfl

theorem renderVal_not_null (v : Val) : (renderVal v).isNull = false := by cases v <;> rfl

theorem render_ok {t : VType} {v : Val} {j : J} (h : render t v = .ok j) : v.family = t ∧ j = renderVal v := by
  unfold render at h
  split at h
  · next hf => exact ⟨hf, by cases h; rfl⟩
  · cases h

theorem render_of_family (v : Val) : render v.family v = .ok (renderVal v) := by
  unfold render; simp

/-- what a slot function must return for the structural theorems: a non-null leaf -/
def LeafValued (f : List String → Except String J) : Prop :=
  ∀ p r, f p = .ok r → r.isLeaf = true ∧ r.isNull = false

theorem slotValue_leaf {w : Sim} {s : Slot} {r : J} (h : slotValue w s = .ok r) :
    r.isLeaf = true ∧ r.isNull = false := by
  unfold slotValue at h
  cases hv : w.vtype s.var with
  | none => rw [hv] at h; cases h
  | some t =>
    rw [hv] at h
    cases he : engineAt w s with
    | error e => rw [he] at h; cases h
    | ok v =>
      rw [he] at h
      obtain ⟨_, rfl⟩ := render_ok h
      exact ⟨renderVal_isLeaf v, renderVal_not_null v⟩

theorem pathValue_leafValued (w : Sim) : LeafValued (pathValue w) := by
  intro p r h
  unfold pathValue at h
  cases hs : slotOfPath p with
  | none => rw [hs] at h; cases h
  | some s => rw [hs] at h; exact slotValue_leaf h

/-! ## `fillAt`: reading the answer at a path -/

section Fill
variable {f : List String → Except String J}

theorem fillKV_nil (d : Nat) (path : List String) : fillKV f d path [] = .ok [] := by
  simp only [fillKV]

theorem fillKV_cons_ok {d : Nat} {path : List String} {k : String} {v : J} {r kvs' : List (String × J)}
    (h : fillKV f d path ((k, v) :: r) = .ok kvs') :
    ∃ v' r', fillAt f d (k :: path) v = .ok v' ∧ fillKV f d path r = .ok r' ∧ kvs' = (k, v') :: r' := by
  simp only [fillKV] at h
  cases hv : fillAt f d (k :: path) v with
  | error e => rw [hv] at h; cases h
  | ok v' =>
    rw [hv] at h
    cases hr : fillKV f d path r with
    | error e => rw [hr] at h; cases h
    | ok r' =>
      rw [hr] at h
      cases h
      exact ⟨v', r', rfl, rfl, rfl⟩

theorem fillKV_lookup {d : Nat} {path : List String} :
    ∀ {kvs kvs' : List (String × J)}, fillKV f d path kvs = .ok kvs' → ∀ k,
      (lookupKV k kvs = none → lookupKV k kvs' = none) ∧
      (∀ v, lookupKV k kvs = some v → ∃ v', lookupKV k kvs' = some v' ∧ fillAt f d (k :: path) v = .ok v')
  | [], kvs', h, k => by
    rw [fillKV_nil] at h; cases h
    exact ⟨fun _ => rfl, fun v hv => by simp [lookupKV] at hv⟩
  | (k0, v0) :: r, kvs', h, k => by
    obtain ⟨v', r', hv, hr, rfl⟩ := fillKV_cons_ok h
    have ih := fillKV_lookup hr k
    by_cases hk : k0 = k
    · subst hk
      refine ⟨fun hn => by simp [lookupKV] at hn, fun v hl => ?_⟩
      simp only [lookupKV, if_true] at hl ⊢
      cases hl
      exact ⟨v', rfl, hv⟩
    · simp only [lookupKV, if_neg hk]
      exact ih

theorem fillAt_zero_nonnull {path : List String} {j j' : J} (h : fillAt f 0 path j = .ok j')
    (hn : j.isNull = false) : j' = j := by
  cases j <;> simp only [fillAt, J.isNull] at h hn <;> first | (cases h; rfl) | cases hn

theorem fillAt_succ_leaf {d : Nat} {path : List String} {j j' : J} (h : fillAt f (d + 1) path j = .ok j')
    (hl : j.isLeaf = true) : j' = j := by
  cases j <;> simp only [fillAt, J.isLeaf] at h hl <;> first | (cases h; rfl) | cases hl

theorem fillAt_succ_obj {d : Nat} {path : List String} {kvs : List (String × J)} {j' : J}
    (h : fillAt f (d + 1) path (.obj kvs) = .ok j') :
    ∃ kvs', fillKV f d path kvs = .ok kvs' ∧ j' = .obj kvs' := by
  simp only [fillAt] at h
  cases hr : fillKV f d path kvs with
  | error e => rw [hr] at h; cases h
  | ok r => rw [hr] at h; cases h; exact ⟨r, rfl, rfl⟩

theorem getPath_cons_some {k : String} {p : List String} {j v : J} (h : getPath (k :: p) j = some v) :
    ∃ kvs u, j = .obj kvs ∧ lookupKV k kvs = some u ∧ getPath p u = some v := by
  cases j <;> simp only [getPath] at h <;> try cases h
  next kvs =>
    cases hl : lookupKV k kvs with
    | none => rw [hl] at h; cases h
    | some u => rw [hl] at h; exact ⟨kvs, u, rfl, hl, h⟩

theorem getPath_obj {k : String} {p : List String} {kvs : List (String × J)} {u : J}
    (h : lookupKV k kvs = some u) : getPath (k :: p) (.obj kvs) = getPath p u := by
  simp only [getPath, h]

/-- a leaf that is not a requested slot is read back unchanged -/
theorem fillAt_get_leaf : ∀ (p : List String) (d : Nat) (path : List String) (j j' : J),
    fillAt f d path j = .ok j' → ∀ v, getPath p j = some v → v.isLeaf = true →
    (v.isNull = true → p.length ≠ d) → getPath p j' = some v
  | [], d, path, j, j', h, v, hg, hl, hn => by
    simp only [getPath] at hg; cases hg
    cases d with
    | zero =>
      have : j.isNull = false := by
        cases hjn : j.isNull with
        | false => rfl
        | true => exact absurd rfl (hn hjn)
      rw [fillAt_zero_nonnull h this]; rfl
    | succ d => rw [fillAt_succ_leaf h hl]; rfl
  | k :: p, d, path, j, j', h, v, hg, hl, hn => by
    obtain ⟨kvs, u, rfl, hlk, hgu⟩ := getPath_cons_some hg
    cases d with
    | zero => simp only [fillAt] at h; cases h; exact hg
    | succ d =>
      obtain ⟨kvs', hkv, rfl⟩ := fillAt_succ_obj h
      obtain ⟨u', hl', hu'⟩ := (fillKV_lookup hkv k).2 u hlk
      rw [getPath_obj hl']
      exact fillAt_get_leaf p d (k :: path) u u' hu' v hgu hl (fun hv hlen => hn hv (by simp [hlen]))

/-- a requested slot holds the slot function's value for its full path -/
theorem fillAt_get_slot : ∀ (p : List String) (d : Nat) (path : List String) (j j' : J),
    fillAt f d path j = .ok j' → getPath p j = some .null → p.length = d →
    ∃ r, f (path.reverse ++ p) = .ok r ∧ getPath p j' = some r
  | [], d, path, j, j', h, hg, hlen => by
    simp only [getPath] at hg; cases hg
    simp only [List.length_nil] at hlen; subst hlen
    simp only [fillAt] at h
    exact ⟨j', by simpa using h, rfl⟩
  | k :: p, d, path, j, j', h, hg, hlen => by
    obtain ⟨kvs, u, rfl, hlk, hgu⟩ := getPath_cons_some hg
    cases d with
    | zero => simp at hlen
    | succ d =>
      obtain ⟨kvs', hkv, rfl⟩ := fillAt_succ_obj h
      obtain ⟨u', hl', hu'⟩ := (fillKV_lookup hkv k).2 u hlk
      obtain ⟨r, hr, hg'⟩ := fillAt_get_slot p d (k :: path) u u' hu' hgu (by simpa using hlen)
      refine ⟨r, ?_, ?_⟩
      · simpa using hr
      · rw [getPath_obj hl']; exact hg'

/-- nothing appears where the request had nothing -/
theorem fillAt_get_none (hf : LeafValued f) : ∀ (p : List String) (d : Nat) (path : List String) (j j' : J),
    fillAt f d path j = .ok j' → getPath p j = none → getPath p j' = none
  | [], d, path, j, j', h, hg => by simp [getPath] at hg
  | k :: p, d, path, j, j', h, hg => by
    cases d with
    | zero =>
      cases j with
      | null =>
        simp only [fillAt] at h
        have := (hf _ _ h).1
        cases j' <;> simp_all [getPath, J.isLeaf]
      | bool b => simp only [fillAt] at h; cases h; exact hg
      | int n => simp only [fillAt] at h; cases h; exact hg
      | num q => simp only [fillAt] at h; cases h; exact hg
      | str s => simp only [fillAt] at h; cases h; exact hg
      | arr xs => simp only [fillAt] at h; cases h; exact hg
      | obj kvs => simp only [fillAt] at h; cases h; exact hg
    | succ d =>
      cases j with
      | obj kvs =>
        obtain ⟨kvs', hkv, rfl⟩ := fillAt_succ_obj h
        cases hlk : lookupKV k kvs with
        | none => simp only [getPath, (fillKV_lookup hkv k).1 hlk]
        | some u =>
          obtain ⟨u', hl', hu'⟩ := (fillKV_lookup hkv k).2 u hlk
          rw [getPath_obj hlk] at hg
          rw [getPath_obj hl']
          exact fillAt_get_none hf p d (k :: path) u u' hu' hg
      | null => simp only [fillAt] at h; cases h; exact hg
      | bool b => simp only [fillAt] at h; cases h; exact hg
      | int n => simp only [fillAt] at h; cases h; exact hg
      | num q => simp only [fillAt] at h; cases h; exact hg
      | str s => simp only [fillAt] at h; cases h; exact hg
      | arr xs => simp only [fillAt] at h; cases h; exact hg

/-! ## `fillAt`: the key structure, success, idempotence -/

theorem shape_of_leaf {j : J} (h : j.isLeaf = true) : j.shape = .null := by
  cases j <;> simp only [J.shape, J.isLeaf] at h ⊢ <;> cases h

mutual
theorem fillAt_shape (hf : LeafValued f) : ∀ (d : Nat) (path : List String) (j j' : J),
    fillAt f d path j = .ok j' → j'.shape = j.shape
  | 0, path, .null, j', h => by
    simp only [fillAt] at h
    rw [shape_of_leaf (hf _ _ h).1]; rfl
  | 0, _, .bool _, j', h => by simp only [fillAt] at h; cases h; rfl
  | 0, _, .int _, j', h => by simp only [fillAt] at h; cases h; rfl
  | 0, _, .num _, j', h => by simp only [fillAt] at h; cases h; rfl
  | 0, _, .str _, j', h => by simp only [fillAt] at h; cases h; rfl
  | 0, _, .arr _, j', h => by simp only [fillAt] at h; cases h; rfl
  | 0, _, .obj _, j', h => by simp only [fillAt] at h; cases h; rfl
  | d + 1, path, .obj kvs, j', h => by
    obtain ⟨kvs', hkv, rfl⟩ := fillAt_succ_obj h
    simp only [J.shape, fillKV_shape hf d path kvs kvs' hkv]
  | _ + 1, _, .null, j', h => by simp only [fillAt] at h; cases h; rfl
  | _ + 1, _, .bool _, j', h => by simp only [fillAt] at h; cases h; rfl
  | _ + 1, _, .int _, j', h => by simp only [fillAt] at h; cases h; rfl
  | _ + 1, _, .num _, j', h => by simp only [fillAt] at h; cases h; rfl
  | _ + 1, _, .str _, j', h => by simp only [fillAt] at h; cases h; rfl
  | _ + 1, _, .arr _, j', h => by simp only [fillAt] at h; cases h; rfl
theorem fillKV_shape (hf : LeafValued f) : ∀ (d : Nat) (path : List String) (kvs kvs' : List (String × J)),
    fillKV f d path kvs = .ok kvs' → shapeO kvs' = shapeO kvs
  | _, _, [], kvs', h => by rw [fillKV_nil] at h; cases h; rfl
  | d, path, (k, v) :: r, kvs', h => by
    obtain ⟨v', r', hv, hr, rfl⟩ := fillKV_cons_ok h
    simp only [shapeO, fillAt_shape hf d (k :: path) v v' hv, fillKV_shape hf d path r r' hr]
end

mutual
/-- the handler answers exactly when the slot function answers on every requested slot -/
theorem fillAt_ok_iff : ∀ (d : Nat) (path : List String) (j : J),
    (∃ j', fillAt f d path j = .ok j') ↔ ∀ p ∈ nullPaths d path j, ∃ r, f p = .ok r
  | 0, path, .null => by simp only [fillAt, nullPaths, List.mem_singleton, forall_eq]
  | 0, _, .bool _ => by simp [fillAt, nullPaths]
  | 0, _, .int _ => by simp [fillAt, nullPaths]
  | 0, _, .num _ => by simp [fillAt, nullPaths]
  | 0, _, .str _ => by simp [fillAt, nullPaths]
  | 0, _, .arr _ => by simp [fillAt, nullPaths]
  | 0, _, .obj _ => by simp [fillAt, nullPaths]
  | d + 1, path, .obj kvs => by
    simp only [nullPaths, ← fillKV_ok_iff d path kvs, fillAt]
    constructor
    · rintro ⟨j', h⟩
      cases hr : fillKV f d path kvs with
      | error e => rw [hr] at h; cases h
      | ok r => exact ⟨r, rfl⟩
    · rintro ⟨r, hr⟩
      exact ⟨.obj r, by rw [hr]⟩
  | _ + 1, _, .null => by simp [fillAt, nullPaths]
  | _ + 1, _, .bool _ => by simp [fillAt, nullPaths]
  | _ + 1, _, .int _ => by simp [fillAt, nullPaths]
  | _ + 1, _, .num _ => by simp [fillAt, nullPaths]
  | _ + 1, _, .str _ => by simp [fillAt, nullPaths]
  | _ + 1, _, .arr _ => by simp [fillAt, nullPaths]
theorem fillKV_ok_iff : ∀ (d : Nat) (path : List String) (kvs : List (String × J)),
    (∃ kvs', fillKV f d path kvs = .ok kvs') ↔ ∀ p ∈ nullPathsKV d path kvs, ∃ r, f p = .ok r
  | _, _, [] => by simp [fillKV, nullPathsKV]
  | d, path, (k, v) :: r => by
    simp only [nullPathsKV, List.mem_append, or_imp, forall_and, ← fillAt_ok_iff d (k :: path) v,
      ← fillKV_ok_iff d path r]
    constructor
    · rintro ⟨kvs', h⟩
      obtain ⟨v', r', hv, hr, _⟩ := fillKV_cons_ok h
      exact ⟨⟨v', hv⟩, ⟨r', hr⟩⟩
    · rintro ⟨⟨v', hv⟩, ⟨r', hr⟩⟩
      exact ⟨(k, v') :: r', by simp only [fillKV, hv, hr]⟩
end

mutual
/-- a document without requested slots is returned as it is, whatever the engine -/
theorem fillAt_of_no_slots : ∀ (d : Nat) (path : List String) (j : J),
    nullPaths d path j = [] → fillAt f d path j = .ok j
  | 0, path, .null => by simp [nullPaths]
  | 0, _, .bool _ => by simp [fillAt]
  | 0, _, .int _ => by simp [fillAt]
  | 0, _, .num _ => by simp [fillAt]
  | 0, _, .str _ => by simp [fillAt]
  | 0, _, .arr _ => by simp [fillAt]
  | 0, _, .obj _ => by simp [fillAt]
  | d + 1, path, .obj kvs => by
    intro h
    simp only [nullPaths] at h
    simp only [fillAt, fillKV_of_no_slots d path kvs h]
  | _ + 1, _, .null => by simp [fillAt]
  | _ + 1, _, .bool _ => by simp [fillAt]
  | _ + 1, _, .int _ => by simp [fillAt]
  | _ + 1, _, .num _ => by simp [fillAt]
  | _ + 1, _, .str _ => by simp [fillAt]
  | _ + 1, _, .arr _ => by simp [fillAt]
theorem fillKV_of_no_slots : ∀ (d : Nat) (path : List String) (kvs : List (String × J)),
    nullPathsKV d path kvs = [] → fillKV f d path kvs = .ok kvs
  | _, _, [] => by simp [fillKV]
  | d, path, (k, v) :: r => by
    intro h
    simp only [nullPathsKV, List.append_eq_nil_iff] at h
    simp only [fillKV, fillAt_of_no_slots d (k :: path) v h.1, fillKV_of_no_slots d path r h.2]
end

mutual
/-- an answer holds no requested slot any more (for any later path prefix) -/
theorem fillAt_no_slots_left (hf : LeafValued f) : ∀ (d : Nat) (path path' : List String) (j j' : J),
    fillAt f d path j = .ok j' → nullPaths d path' j' = []
  | 0, path, path', .null, j', h => by
    simp only [fillAt] at h
    have := hf _ _ h
    cases j' <;> simp_all [nullPaths, J.isNull, J.isLeaf]
  | 0, _, _, .bool _, j', h => by simp only [fillAt] at h; cases h; rfl
  | 0, _, _, .int _, j', h => by simp only [fillAt] at h; cases h; rfl
  | 0, _, _, .num _, j', h => by simp only [fillAt] at h; cases h; rfl
  | 0, _, _, .str _, j', h => by simp only [fillAt] at h; cases h; rfl
  | 0, _, _, .arr _, j', h => by simp only [fillAt] at h; cases h; rfl
  | 0, _, _, .obj _, j', h => by simp only [fillAt] at h; cases h; rfl
  | d + 1, path, path', .obj kvs, j', h => by
    obtain ⟨kvs', hkv, rfl⟩ := fillAt_succ_obj h
    simp only [nullPaths, fillKV_no_slots_left hf d path path' kvs kvs' hkv]
  | _ + 1, _, _, .null, j', h => by simp only [fillAt] at h; cases h; rfl
  | _ + 1, _, _, .bool _, j', h => by simp only [fillAt] at h; cases h; rfl
  | _ + 1, _, _, .int _, j', h => by simp only [fillAt] at h; cases h; rfl
  | _ + 1, _, _, .num _, j', h => by simp only [fillAt] at h; cases h; rfl
  | _ + 1, _, _, .str _, j', h => by simp only [fillAt] at h; cases h; rfl
  | _ + 1, _, _, .arr _, j', h => by simp only [fillAt] at h; cases h; rfl
theorem fillKV_no_slots_left (hf : LeafValued f) : ∀ (d : Nat) (path path' : List String)
    (kvs kvs' : List (String × J)), fillKV f d path kvs = .ok kvs' → nullPathsKV d path' kvs' = []
  | _, _, _, [], kvs', h => by rw [fillKV_nil] at h; cases h; rfl
  | d, path, path', (k, v) :: r, kvs', h => by
    obtain ⟨v', r', hv, hr, rfl⟩ := fillKV_cons_ok h
    simp only [nullPathsKV, fillAt_no_slots_left hf d (k :: path) (k :: path') v v' hv,
      fillKV_no_slots_left hf d path path' r r' hr, List.append_nil]
end

theorem mem_nullPathsKV_of_lookup {d : Nat} {path : List String} {k : String} {u : J} :
    ∀ {kvs : List (String × J)}, lookupKV k kvs = some u → ∀ q ∈ nullPaths d (k :: path) u,
      q ∈ nullPathsKV d path kvs
  | [], h, q, hq => by simp [lookupKV] at h
  | (k0, v0) :: r, h, q, hq => by
    simp only [nullPathsKV, List.mem_append]
    by_cases hk : k0 = k
    · subst hk
      simp only [lookupKV, if_true] at h; cases h
      exact Or.inl hq
    · simp only [lookupKV, if_neg hk] at h
      exact Or.inr (mem_nullPathsKV_of_lookup h q hq)

/-- a `null` read four keys deep is one of the enumerated requested slots -/
theorem mem_nullPaths_of_get : ∀ (p : List String) (d : Nat) (path : List String) (j : J),
    getPath p j = some .null → p.length = d → (path.reverse ++ p) ∈ nullPaths d path j
  | [], d, path, j, hg, hlen => by
    simp only [getPath] at hg; cases hg
    simp only [List.length_nil] at hlen; subst hlen
    simp [nullPaths]
  | k :: p, d, path, j, hg, hlen => by
    obtain ⟨kvs, u, rfl, hlk, hgu⟩ := getPath_cons_some hg
    cases d with
    | zero => simp at hlen
    | succ d =>
      simp only [nullPaths]
      have := mem_nullPaths_of_get p d (k :: path) u hgu (by simpa using hlen)
      exact mem_nullPathsKV_of_lookup hlk _ (by simpa using this)

end Fill

/-! ## `/trace` -/

/-- the engine reads a period through its canonical form: two spellings of one period give one
value (the second is a cache hit of the same simulation) -/
def Coherent (w : Sim) : Prop :=
  ∀ v p p', w.canon p = w.canon p' → w.calcv v p = w.calcv v p'

/-- every element of a calculated vector has the variable's declared type (C01_result_type) -/
def Typed (w : Sim) : Prop :=
  ∀ v p vec t, w.calcv v p = .ok vec → w.vtype v = some t → ∀ x ∈ vec, x.family = t

theorem serializeVec_typed (t : VType) : ∀ (vec : List Val), (∀ x ∈ vec, x.family = t) →
    serializeVec t vec = .ok (vec.map renderVal)
  | [], _ => rfl
  | v :: r, h => by
    have hv : v.family = t := h v (by simp)
    have hr := serializeVec_typed t r (fun x hx => h x (by simp [hx]))
    simp only [serializeVec, ← hv, render_of_family]
    rw [hv, hr]; rfl

theorem serializeVec_get (t : VType) : ∀ (vec : List Val) (js : List J), serializeVec t vec = .ok js →
    ∀ (i : Nat) (v : Val), vec[i]? = some v → ∃ j, render t v = .ok j ∧ js[i]? = some j
  | [], js, h, i, v, hv => by simp at hv
  | x :: r, js, h, i, v, hv => by
    simp only [serializeVec] at h
    cases hx : render t x with
    | error e => rw [hx] at h; cases h
    | ok j =>
      rw [hx] at h
      cases hr : serializeVec t r with
      | error e => rw [hr] at h; cases h
      | ok js' =>
        rw [hr] at h; cases h
        cases i with
        | zero => simp only [List.getElem?_cons_zero] at hv; cases hv; exact ⟨j, hx, rfl⟩
        | succ i =>
          simp only [List.getElem?_cons_succ] at hv ⊢
          exact serializeVec_get t r js' hr i v hv

theorem lookupT_append_new (k k' : TKey) (v : List J) : ∀ (l : List (TKey × List J)),
    lookupT k (l ++ [(k', v)]) = match lookupT k l with
      | some x => some x
      | none => if k' = k then some v else none
  | [] => by simp [lookupT]
  | (k0, v0) :: r => by
    simp only [List.cons_append, lookupT]
    by_cases h : k0 = k
    · simp [h]
    · simp only [if_neg h]; exact lookupT_append_new k k' v r

theorem lookupT_insertNew_keep {k k' : TKey} {v x : List J} {l : List (TKey × List J)}
    (h : lookupT k l = some x) : lookupT k (insertNew k' v l) = some x := by
  unfold insertNew
  cases hk : lookupT k' l with
  | some _ => exact h
  | none => simp only [lookupT_append_new, h]

theorem lookupT_insertNew_self (k : TKey) (v : List J) (l : List (TKey × List J)) :
    ∃ x, lookupT k (insertNew k v l) = some x ∧ (lookupT k l = none → x = v) := by
  unfold insertNew
  cases hk : lookupT k l with
  | some x => exact ⟨x, by simp [hk], fun h => by cases h⟩
  | none => exact ⟨v, by simp [lookupT_append_new, hk], fun _ => rfl⟩

/-- the entries of an accumulated trace are the serialised vectors of their keys -/
def TraceInv (w : Sim) (acc : List (TKey × List J)) : Prop :=
  ∀ v c js, lookupT (v, c) acc = some js → ∀ p, w.canon p = c → ∀ vec t, w.calcv v p = .ok vec →
    w.vtype v = some t → serializeVec t vec = .ok js

theorem traceInv_nil (w : Sim) : TraceInv w [] := by
  intro v c js h; simp [lookupT] at h

theorem traceInv_insert {w : Sim} (hc : Coherent w) {acc : List (TKey × List J)} (hi : TraceInv w acc)
    {s : Slot} {vec : List Val} {t : VType} {js : List J} (hv : w.calcv s.var s.period = .ok vec)
    (ht : w.vtype s.var = some t) (hs : serializeVec t vec = .ok js) :
    TraceInv w (insertNew (s.var, w.canon s.period) js acc) := by
  intro v c js' hl p hp vec' t' hv' ht'
  unfold insertNew at hl
  cases hk : lookupT (s.var, w.canon s.period) acc with
  | some x => rw [hk] at hl; exact hi v c js' hl p hp vec' t' hv' ht'
  | none =>
    rw [hk] at hl
    simp only [lookupT_append_new] at hl
    cases hacc : lookupT (v, c) acc with
    | some y => rw [hacc] at hl; cases hl; exact hi v c _ hacc p hp vec' t' hv' ht'
    | none =>
      rw [hacc] at hl
      by_cases hkey : (s.var, w.canon s.period) = (v, c)
      · simp only [hkey, if_true] at hl; cases hl
        cases hkey
        have := hc s.var p s.period hp
        rw [this, hv] at hv'; cases hv'
        rw [ht] at ht'; cases ht'
        exact hs
      · simp only [if_neg hkey] at hl; cases hl

theorem traceEntries_spec {w : Sim} (hc : Coherent w) : ∀ (slots : List Slot) (acc tr : List (TKey × List J)),
    traceEntries w slots acc = .ok tr → TraceInv w acc →
    TraceInv w tr ∧ (∀ k x, lookupT k acc = some x → lookupT k tr = some x) ∧
      ∀ s ∈ slots, ∃ x, lookupT (s.var, w.canon s.period) tr = some x
  | [], acc, tr, h, hi => by
    simp only [traceEntries] at h; cases h
    exact ⟨hi, fun _ _ h => h, fun s hs => by simp at hs⟩
  | s :: r, acc, tr, h, hi => by
    cases hv : w.calcv s.var s.period with
    | error e => simp only [traceEntries, hv] at h; cases h
    | ok vec =>
      cases ht : w.vtype s.var with
      | none => simp only [traceEntries, hv, ht] at h; cases h
      | some t =>
        cases hs : serializeVec t vec with
        | error e => simp only [traceEntries, hv, ht, hs] at h; cases h
        | ok js =>
          simp only [traceEntries, hv, ht, hs] at h
          obtain ⟨h1, h2, h3⟩ := traceEntries_spec hc r _ tr h (traceInv_insert hc hi hv ht hs)
          refine ⟨h1, fun k x hk => h2 k x (lookupT_insertNew_keep hk), ?_⟩
          intro s' hs'
          rcases List.mem_cons.mp hs' with rfl | hs'
          · obtain ⟨x, hx, _⟩ := lookupT_insertNew_self (s'.var, w.canon s'.period) js acc
            exact ⟨x, h2 _ x hx⟩
          · exact h3 s' hs'

/-- `/trace` answers whenever every requested vector is computed and well typed -/
theorem traceEntries_ok {w : Sim} (hty : Typed w) : ∀ (slots : List Slot) (acc : List (TKey × List J)),
    (∀ s ∈ slots, ∃ vec t, w.calcv s.var s.period = .ok vec ∧ w.vtype s.var = some t) →
    ∃ tr, traceEntries w slots acc = .ok tr
  | [], acc, _ => ⟨acc, rfl⟩
  | s :: r, acc, h => by
    obtain ⟨vec, t, hv, ht⟩ := h s (by simp)
    simp only [traceEntries, hv, ht, serializeVec_typed t vec (hty s.var s.period vec t hv ht)]
    exact traceEntries_ok hty r _ (fun s' hs' => h s' (by simp [hs']))

theorem slotOfPath_some {p : List String} {s : Slot} (h : slotOfPath p = some s) : p = s.path := by
  match p, h with
  | [a, b, c, d], h => simp only [slotOfPath] at h; cases h; rfl

theorem slotOfPath_path (s : Slot) : slotOfPath s.path = some s := rfl

/-- what a successful slot computation consists of -/
theorem engineAt_ok {w : Sim} {s : Slot} {v : Val} (h : engineAt w s = .ok v) :
    ∃ vec i, w.calcv s.var s.period = .ok vec ∧ w.index s.plural s.id = some i ∧ vec[i]? = some v := by
  cases hv : w.calcv s.var s.period with
  | error e => simp only [engineAt, hv] at h; cases h
  | ok vec =>
    cases hi : w.index s.plural s.id with
    | none => simp only [engineAt, hv, hi] at h; cases h
    | some i =>
      cases hg : vec[i]? with
      | none => simp only [engineAt, hv, hi, hg, optE] at h; cases h
      | some v' =>
        simp only [engineAt, hv, hi, hg, optE] at h; cases h
        exact ⟨vec, i, rfl, rfl, hg⟩

/-- what a successful slot computation consists of -/
theorem slotValue_ok {w : Sim} {s : Slot} {r : J} (h : slotValue w s = .ok r) :
    ∃ t vec i v, w.vtype s.var = some t ∧ w.calcv s.var s.period = .ok vec ∧ w.index s.plural s.id = some i ∧
      vec[i]? = some v ∧ engineAt w s = .ok v ∧ render t v = .ok r := by
  cases ht : w.vtype s.var with
  | none => simp only [slotValue, ht] at h; cases h
  | some t =>
    cases he : engineAt w s with
    | error e => simp only [slotValue, ht, he] at h; cases h
    | ok v =>
      simp only [slotValue, ht, he] at h
      obtain ⟨vec, i, hv, hi, hg⟩ := engineAt_ok he
      exact ⟨t, vec, i, v, rfl, hv, hi, hg, rfl, h⟩

theorem mem_nullSlots_of_path {req : J} {p : List String} {s : Slot} (hp : p ∈ nullPaths 4 [] req)
    (hs : slotOfPath p = some s) : s ∈ nullSlots req := by
  unfold nullSlots
  exact List.mem_filterMap.mpr ⟨p, hp, hs⟩

theorem mem_nullSlots {req : J} {s : Slot} (h : s ∈ nullSlots req) : s.path ∈ nullPaths 4 [] req := by
  unfold nullSlots at h
  obtain ⟨p, hp, hs⟩ := List.mem_filterMap.mp h
  rw [← slotOfPath_some hs]; exact hp

/-! ## `assert_near`: the numeric decision -/

theorem absQ_le_iff (x m : Rat) : absQ x ≤ m ↔ -m ≤ x ∧ x ≤ m := by
  unfold absQ; split <;> constructor <;> intro h <;> (try constructor) <;> grind

theorem absQ_nonneg (x : Rat) : 0 ≤ absQ x := by unfold absQ; split <;> grind

theorem absQ_le_zero_iff (x : Rat) : absQ x ≤ 0 ↔ x = 0 := by
  unfold absQ; split <;> constructor <;> intro h <;> grind

/-- the statement's "lies within the stated absolute or relative margin", on exact numbers: with
no margin at all the values are equal; a stated absolute margin bounds the distance; a stated
relative margin bounds it by that fraction of the expected value; both stated: both hold -/
def InMargins (abs rel : Option Rat) (e a : Rat) : Prop :=
  (abs = none → rel = none → e = a) ∧
  (∀ m, abs = some m → absQ (e - a) ≤ m) ∧
  (∀ r, rel = some r → absQ (e - a) ≤ absQ (r * e))

theorem near_iff (abs rel : Option Rat) (e a : Rat) : near abs rel e a = true ↔ InMargins abs rel e a := by
  cases abs with
  | none =>
    cases rel with
    | none =>
      have hn : near none none e a = decide (absQ (e - a) ≤ 0) := by simp [near]
      rw [hn, decide_eq_true_eq, absQ_le_zero_iff]
      unfold InMargins
      constructor
      · intro h
        exact ⟨fun _ _ => by grind, fun m hm => (by cases hm), fun r hr => (by cases hr)⟩
      · intro h; have := h.1 rfl rfl; grind
    | some r =>
      have hn : near none (some r) e a = decide (absQ (e - a) ≤ absQ (r * e)) := by simp [near]
      rw [hn, decide_eq_true_eq]
      unfold InMargins
      constructor
      · intro h
        exact ⟨fun _ h' => (by cases h'), fun m hm => (by cases hm), fun r' hr => (by cases hr; exact h)⟩
      · intro h; exact h.2.2 r rfl
  | some m =>
    cases rel with
    | none =>
      have hn : near (some m) none e a = decide (absQ (e - a) ≤ m) := by simp [near]
      rw [hn, decide_eq_true_eq]
      unfold InMargins
      constructor
      · intro h
        exact ⟨fun h' => (by cases h'), fun m' hm => (by cases hm; exact h), fun r hr => (by cases hr)⟩
      · intro h; exact h.2.1 m rfl
    | some r =>
      have hn : near (some m) (some r) e a =
          (decide (absQ (e - a) ≤ m) && decide (absQ (e - a) ≤ absQ (r * e))) := by simp [near]
      rw [hn, Bool.and_eq_true, decide_eq_true_eq, decide_eq_true_eq]
      unfold InMargins
      constructor
      · intro h
        exact ⟨fun h' => (by cases h'), fun m' hm => (by cases hm; exact h.1), fun r' hr => (by cases hr; exact h.2)⟩
      · intro h; exact ⟨h.2.1 m rfl, h.2.2 r rfl⟩

/-! ## The specification of one comparison and of one expectation -/

/-- "the expected scalar lies within the margins of the calculated element", per comparison mode -/
def Within (mode : Mode) (abs rel : Option Rat) (v : Val) (e : Exp) : Prop :=
  match mode with
  | .enum => ∃ name, v = .enum name ∧ e = .str name
  | .date => ∃ d, v = .date d ∧ e.toDate = .ok d ∧ InMargins abs rel 0 0
  | .text => ∃ s, v = .str s ∧ e.toText = .ok s
  | .numeric => ∃ a t, v.toNum = .ok a ∧ e.toNum = .ok t ∧ InMargins abs rel t a

theorem holds1_enum (abs rel : Option Rat) (v : Val) (e : Exp) :
    holds1 .enum abs rel (v, e) = true ↔ Within .enum abs rel v e := by
  cases v <;> cases e <;> simp [holds1, cmp1, Within, eq_comm]

theorem holds1_date (abs rel : Option Rat) (v : Val) (e : Exp) :
    holds1 .date abs rel (v, e) = true ↔ Within .date abs rel v e := by
  cases v with
  | date d =>
    simp only [holds1, cmp1, Within]
    cases hd : e.toDate with
    | error x => simp
    | ok d' =>
      simp only [Bool.and_eq_true, decide_eq_true_eq, near_iff, Val.date.injEq, Except.ok.injEq]
      constructor
      · rintro ⟨rfl, h⟩; exact ⟨d, rfl, rfl, h⟩
      · rintro ⟨d0, rfl, rfl, h⟩; exact ⟨rfl, h⟩
  | int n => simp [holds1, cmp1, Within]
  | num q => simp [holds1, cmp1, Within]
  | bool b => simp [holds1, cmp1, Within]
  | str s => simp [holds1, cmp1, Within]
  | enum n => simp [holds1, cmp1, Within]

theorem holds1_text (abs rel : Option Rat) (v : Val) (e : Exp) :
    holds1 .text abs rel (v, e) = true ↔ Within .text abs rel v e := by
  cases v with
  | str s =>
    simp only [holds1, cmp1, Within]
    cases hd : e.toText with
    | error x => simp
    | ok s' =>
      simp only [decide_eq_true_eq, Val.str.injEq, Except.ok.injEq]
      constructor
      · rintro rfl; exact ⟨s, rfl, rfl⟩
      · rintro ⟨s0, rfl, rfl⟩; rfl
  | int n => simp [holds1, cmp1, Within]
  | num q => simp [holds1, cmp1, Within]
  | bool b => simp [holds1, cmp1, Within]
  | date s => simp [holds1, cmp1, Within]
  | enum n => simp [holds1, cmp1, Within]

theorem holds1_numeric (abs rel : Option Rat) (v : Val) (e : Exp) :
    holds1 .numeric abs rel (v, e) = true ↔ Within .numeric abs rel v e := by
  simp only [holds1, cmp1, Within]
  cases hv : v.toNum with
  | error x => simp
  | ok a =>
    cases he : e.toNum with
    | error x => simp
    | ok t =>
      simp only [near_iff, Except.ok.injEq]
      constructor
      · intro h; exact ⟨a, t, rfl, rfl, h⟩
      · rintro ⟨a', t', rfl, rfl, h⟩; exact h

theorem holds1_iff (mode : Mode) (abs rel : Option Rat) (v : Val) (e : Exp) :
    holds1 mode abs rel (v, e) = true ↔ Within mode abs rel v e := by
  cases mode
  · exact holds1_enum abs rel v e
  · exact holds1_date abs rel v e
  · exact holds1_text abs rel v e
  · exact holds1_numeric abs rel v e

/-- **the expected value lies within the margins of the engine's value**: the period is given, the
engine computes the variable for it, the instance (if one is named) is selected, the margins of
the variable are defined, the expected value broadcasts against the selected elements and every
pair is within the margins -/
def HoldsValue (w : Sim) (t : YTest) (x : Expectation) : Prop :=
  ∃ per ty vec vs a r ps, x.period = some per ∧ w.vtype x.var = some ty ∧ w.calcv x.var per = .ok vec ∧
    selectInst w x vec = .ok vs ∧ marginFor t.absM x.var = .ok a ∧ marginFor t.relM x.var = .ok r ∧
    pairUp vs x.expected = .ok ps ∧ ∀ p ∈ ps, Within (cmpMode ty x.expected) a r p.1 p.2

/-- **an expectation holds of the engine**: a named instance exists, and either the runner was told
to leave the variable out (`only_variables` / `ignore_variables`) or the value is within the margins -/
def Holds (w : Sim) (t : YTest) (x : Expectation) : Prop :=
  instKnown w x = true ∧ (shouldIgnore t x.var = true ∨ HoldsValue w t x)

theorem assertNear_iff (ty : VType) (vs : List Val) (tg : Target) (a r : Option Rat) :
    assertNear ty vs tg a r = true ↔
      ∃ ps, pairUp vs tg = .ok ps ∧ ∀ p ∈ ps, Within (cmpMode ty tg) a r p.1 p.2 := by
  unfold assertNear
  cases hp : pairUp vs tg with
  | error e => simp
  | ok ps =>
    simp only [List.all_eq_true, Except.ok.injEq, exists_eq_left']
    constructor
    · intro h p hp; exact (holds1_iff _ a r p.1 p.2).mp (h p hp)
    · intro h p hp; exact (holds1_iff _ a r p.1 p.2).mpr (h p hp)

theorem checkValue_iff (w : Sim) (t : YTest) (x : Expectation) :
    checkValue w t x = true ↔ HoldsValue w t x := by
  constructor
  · intro h
    cases hper : x.period with
    | none => simp [checkValue, hper] at h
    | some per =>
      cases hty : w.vtype x.var with
      | none => simp [checkValue, hper, hty] at h
      | some ty =>
        cases hv : w.calcv x.var per with
        | error e => simp [checkValue, hper, hty, hv] at h
        | ok vec =>
          cases hs : selectInst w x vec with
          | error e => simp [checkValue, hper, hty, hv, hs] at h
          | ok vs =>
            cases ha : marginFor t.absM x.var with
            | error e => simp [checkValue, hper, hty, hv, hs, ha] at h
            | ok a =>
              cases hr : marginFor t.relM x.var with
              | error e => simp [checkValue, hper, hty, hv, hs, ha, hr] at h
              | ok r =>
                simp only [checkValue, hper, hty, hv, hs, ha, hr] at h
                obtain ⟨ps, hp, hall⟩ := (assertNear_iff ty vs x.expected a r).mp h
                exact ⟨per, ty, vec, vs, a, r, ps, hper, hty, hv, hs, ha, hr, hp, hall⟩
  · rintro ⟨per, ty, vec, vs, a, r, ps, h1, h2, h3, h4, h5, h6, h7, h8⟩
    simp only [checkValue, h1, h2, h3, h4, h5, h6]
    exact (assertNear_iff ty vs x.expected a r).mpr ⟨ps, h7, h8⟩

theorem checkExpectation_iff (w : Sim) (t : YTest) (x : Expectation) :
    checkExpectation w t x = true ↔ Holds w t x := by
  unfold checkExpectation Holds
  cases hk : instKnown w x with
  | false => simp
  | true =>
    cases hi : shouldIgnore t x.var with
    | true => simp
    | false => simp [checkValue_iff]

theorem checkExpectation_eq_false_of {w : Sim} {t : YTest} {x : Expectation}
    (hig : shouldIgnore t x.var = false) (h : checkValue w t x = false) : checkExpectation w t x = false := by
  unfold checkExpectation
  cases instKnown w x <;> simp [hig, h]

theorem checkExpectation_eq_value {w : Sim} {t : YTest} {x : Expectation}
    (hk : instKnown w x = true) (hig : shouldIgnore t x.var = false) :
    checkExpectation w t x = checkValue w t x := by
  unfold checkExpectation
  simp [hk, hig]

/-! ## The three layouts of one set of expectations -/

/-- an explicit period for the expectation: `{period: expected}` instead of `expected` -/
def wrapPeriod : Option String → Y → Y
  | none, y => y
  | some p, y => .map [(p, y)]

/-- by variable: `{variable: [e₀, e₁, …]}` -/
def outByVariable (var : String) (pw : Option String) (es : List Exp) : List (String × Y) :=
  [(var, wrapPeriod pw (.list es))]

/-- by entity: `{entity: {variable: [e₀, e₁, …]}}` -/
def outByEntity (sg var : String) (pw : Option String) (es : List Exp) : List (String × Y) :=
  [(sg, .map [(var, wrapPeriod pw (.list es))])]

def instEntries (var : String) (pw : Option String) : List String → List Exp → List (String × Y)
  | [], _ => []
  | _ :: _, [] => []
  | id :: ids, e :: es => (id, .map [(var, wrapPeriod pw (.leaf e))]) :: instEntries var pw ids es

/-- by entity instance: `{entities: {id₀: {variable: e₀}, id₁: {variable: e₁}, …}}` -/
def outByInstance (pl var : String) (pw : Option String) (ids : List String) (es : List Exp) :
    List (String × Y) :=
  [(pl, .map (instEntries var pw ids es))]

def orPeriod : Option String → Option String → Option String
  | some p, _ => some p
  | none, per => per

def instExps (pl var : String) (per : Option String) : List String → List Exp → List Expectation
  | [], _ => []
  | _ :: _, [] => []
  | id :: ids, e :: es => ⟨some pl, some id, var, per, .scalar e⟩ :: instExps pl var per ids es

theorem flattenVar_wrap_list (ent inst : Option String) (var : String) (pw per : Option String) (es : List Exp) :
    flattenVar ent inst var per (wrapPeriod pw (.list es)) = [⟨ent, inst, var, orPeriod pw per, .list es⟩] := by
  cases pw <;> simp [wrapPeriod, flattenVar, flattenPeriods, orPeriod]

theorem flattenVar_wrap_leaf (ent inst : Option String) (var : String) (pw per : Option String) (e : Exp) :
    flattenVar ent inst var per (wrapPeriod pw (.leaf e)) = [⟨ent, inst, var, orPeriod pw per, .scalar e⟩] := by
  cases pw <;> simp [wrapPeriod, flattenVar, flattenPeriods, orPeriod]

theorem flattenInstances_instEntries (pl var : String) (pw per : Option String) :
    ∀ (ids : List String) (es : List Exp),
      flattenInstances pl per (instEntries var pw ids es) = .ok (instExps pl var (orPeriod pw per) ids es)
  | [], _ => rfl
  | _ :: _, [] => rfl
  | id :: ids, e :: es => by
    simp only [instEntries, flattenInstances, flattenInstances_instEntries pl var pw per ids es,
      flattenVars, flattenVar_wrap_leaf, instExps, List.append_nil, List.singleton_append]

theorem expectations_byVariable (w : Sim) (t : YTest) (var : String) (pw : Option String) (es : List Exp)
    (hvar : (w.vtype var).isSome = true) :
    expectations w { t with output := some (outByVariable var pw es) } =
      .ok [⟨none, none, var, orPeriod pw t.period, .list es⟩] := by
  simp [expectations, outByVariable, expectationsOfOutput, expectationsOfKey, hvar, flattenVar_wrap_list]

theorem expectations_byEntity (w : Sim) (t : YTest) (sg var : String) (pw : Option String) (es : List Exp)
    (h1 : w.vtype sg = none) (h2 : w.singular sg = true) :
    expectations w { t with output := some (outByEntity sg var pw es) } =
      .ok [⟨some sg, none, var, orPeriod pw t.period, .list es⟩] := by
  simp [expectations, outByEntity, expectationsOfOutput, expectationsOfKey, h1, h2, flattenVars,
    flattenVar_wrap_list]

theorem expectations_byInstance (w : Sim) (t : YTest) (pl var : String) (pw : Option String)
    (ids : List String) (es : List Exp)
    (h1 : w.vtype pl = none) (h2 : w.singular pl = false) (h3 : w.plural pl = true) :
    expectations w { t with output := some (outByInstance pl var pw ids es) } =
      .ok (instExps pl var (orPeriod pw t.period) ids es) := by
  simp [expectations, outByInstance, expectationsOfOutput, expectationsOfKey, h1, h2, h3,
    flattenInstances_instEntries]

/-- expected values that `_is_number` classifies alike: all numbers, or none -/
def Homogeneous (es : List Exp) : Prop := (∀ e ∈ es, e.isNum = true) ∨ (∀ e ∈ es, e.isNum = false)

theorem cmpMode_scalar_of_list (ty : VType) {es : List Exp} (hh : Homogeneous es) {e : Exp} (he : e ∈ es) :
    cmpMode ty (.scalar e) = cmpMode ty (.list es) := by
  cases ty <;> simp only [cmpMode, Target.isNum]
  rcases hh with h | h
  · have : es.all Exp.isNum = true := List.all_eq_true.mpr h
    simp only [h e he, this]
  · have : es.all Exp.isNum = false := by
      apply Bool.eq_false_iff.mpr
      intro hall
      have := List.all_eq_true.mp hall e he
      rw [h e he] at this; cases this
    simp only [h e he, this]

/-- the comparison of the `k`-th instance alone is the `k`-th comparison of the whole vector -/
theorem instExps_all (w : Sim) (t : YTest) (pl var per : String) (ty : VType) (vec : List Val) (a r : Option Rat)
    (m : Mode) (hty : w.vtype var = some ty) (hv : w.calcv var per = .ok vec)
    (ha : marginFor t.absM var = .ok a) (hr : marginFor t.relM var = .ok r)
    (hig : shouldIgnore t var = false) :
    ∀ (ids : List String) (es : List Exp) (o : Nat), es.length = ids.length → o + ids.length = vec.length →
      (∀ k (h : k < ids.length), w.index pl ids[k] = some (o + k)) →
      (∀ e ∈ es, cmpMode ty (.scalar e) = m) →
      (instExps pl var (some per) ids es).all (checkExpectation w t) =
        ((vec.drop o).zip es).all (holds1 m a r)
  | [], es, o, hl, ho, _, _ => by
    have : es = [] := List.length_eq_zero_iff.mp hl
    subst this; simp [instExps]
  | id :: ids, [], o, hl, _, _, _ => by simp at hl
  | id :: ids, e :: es, o, hl, ho, hidx, hm => by
    have ho' : o < vec.length := by simp at ho; omega
    have hd : vec.drop o = vec[o] :: vec.drop (o + 1) := (List.drop_eq_getElem_cons ho')
    have hi0 : w.index pl id = some o := by
      have := hidx 0 (by simp)
      simpa using this
    have hg : vec[o]? = some vec[o] := List.getElem?_eq_getElem ho'
    have ih := instExps_all w t pl var per ty vec a r m hty hv ha hr hig ids es (o + 1)
      (by simpa using hl) (by simp at ho; omega)
      (fun k h => by
        have := hidx (k + 1) (by simp; omega)
        simp only [List.getElem_cons_succ] at this
        rw [this]; congr 1; omega)
      (fun e' he' => hm e' (by simp [he']))
    have hme : cmpMode ty (.scalar e) = m := hm e (by simp)
    simp only [instExps, List.all_cons, ih, hd, List.zip_cons_cons]
    congr 1
    simp only [checkExpectation, instKnown, checkValue, hig, hty, hv, selectInst, Option.getD_some, hi0, hg,
      ha, hr, assertNear, pairUp, List.map_cons, List.map_nil, List.all_cons, List.all_nil, Bool.and_true, hme,
      Option.isSome_some, Bool.true_eq_false, Bool.false_eq_true, if_false]

theorem instExps_all_false_of (w : Sim) (t : YTest) (pl var : String) (per : Option String)
    (hbad : ∀ x : Expectation, x.var = var → x.period = per → checkExpectation w t x = false) :
    ∀ (ids : List String) (es : List Exp), es.length = ids.length → ids ≠ [] →
      (instExps pl var per ids es).all (checkExpectation w t) = false
  | [], _, _, hne => absurd rfl hne
  | _ :: _, [], hl, _ => by simp at hl
  | id :: ids, e :: es, _, _ => by
    simp only [instExps, List.all_cons, hbad ⟨some pl, some id, var, per, .scalar e⟩ rfl rfl, Bool.false_and]

/-! ## Listings -/

section Listings
variable {V : Type}
open Param

theorem sorted_cons_lt : ∀ {e : Entry V} {r : List (Entry V)}, Sorted (e :: r) →
    (∀ x ∈ r, x.date < e.date) ∧ Sorted r
  | e, [], _ => ⟨fun x hx => by simp at hx, trivial⟩
  | e, f :: r, h => by
    have h' : f.date < e.date ∧ Sorted (f :: r) := h
    obtain ⟨h1, h2⟩ := sorted_cons_lt h'.2
    refine ⟨fun x hx => ?_, h'.2⟩
    rcases List.mem_cons.mp hx with rfl | hx
    · exact h'.1
    · exact Int.lt_trans (h1 x hx) h'.1

theorem apiBest_servedHistory (d : Int) : ∀ (l : List (Entry V)), Sorted l →
    (apiBest d (servedHistory l) = none → pget l d = none) ∧
    (∀ k v, apiBest d (servedHistory l) = some (k, v) → pget l d = v ∧ k ≤ d ∧ ∃ x ∈ l, x.date = k)
  | [], _ => ⟨fun _ => rfl, fun k v h => by simp [servedHistory, apiBest] at h⟩
  | e :: r, hl => by
    obtain ⟨hlt, hr⟩ := sorted_cons_lt hl
    obtain ⟨ih1, ih2⟩ := apiBest_servedHistory d r hr
    have hs : servedHistory (e :: r) = (e.date, e.val) :: servedHistory r := rfl
    rw [hs]
    cases hb : apiBest d (servedHistory r) with
    | none =>
      simp only [apiBest, hb, pget]
      by_cases hd : e.date ≤ d
      · simp only [if_pos hd]
        refine ⟨fun h => (by cases h), fun k v h => ?_⟩
        cases h
        exact ⟨rfl, hd, e, by simp, rfl⟩
      · simp only [if_neg hd]
        exact ⟨fun _ => ih1 hb, fun k v h => by cases h⟩
    | some kv =>
      obtain ⟨k', v'⟩ := kv
      obtain ⟨hp, hk, x, hx, hxk⟩ := ih2 k' v' hb
      have hlt' : k' < e.date := by rw [← hxk]; exact hlt x hx
      simp only [apiBest, hb, pget]
      by_cases hd : e.date ≤ d
      · have hc : e.date ≤ d ∧ k' < e.date := ⟨hd, hlt'⟩
        simp only [if_pos hd, if_pos hc]
        refine ⟨fun h => (by cases h), fun k v h => ?_⟩
        cases h
        exact ⟨rfl, hd, e, by simp, rfl⟩
      · have : ¬ (e.date ≤ d ∧ k' < e.date) := fun h => hd h.1
        simp only [if_neg hd, if_neg this]
        refine ⟨fun h => (by cases h), fun k v h => ?_⟩
        cases h
        exact ⟨hp, hk, x, by simp [hx], hxk⟩

/-- a reader of the served history gets the value the engine uses -/
theorem apiGetValue_servedHistory (l : List (Entry V)) (hl : Sorted l) (d : Int) :
    apiGetValue d (servedHistory l) = pget l d := by
  obtain ⟨h1, h2⟩ := apiBest_servedHistory d l hl
  unfold apiGetValue
  cases hb : apiBest d (servedHistory l) with
  | none => exact (h1 hb).symm
  | some kv => obtain ⟨k, v⟩ := kv; exact (h2 k v hb).1.symm

def baseFormulas (formulas : List (Int × V)) : List (Int × Option V) := formulas.map fun (s, f) => (s, some f)

theorem apiBest_base (d : Int) : ∀ (l : List (Int × V)), l.Pairwise (fun a b => a.1 < b.1) →
    (apiBest d (baseFormulas l) = none → latestStarted d l = none) ∧
    (∀ k v, apiBest d (baseFormulas l) = some (k, v) → v = latestStarted d l ∧ (∃ x ∈ l, x.1 = k))
  | [], _ => ⟨fun _ => rfl, fun k v h => by simp [baseFormulas, apiBest] at h⟩
  | (s, f) :: r, hl => by
    obtain ⟨hlt, hr⟩ := List.pairwise_cons.mp hl
    obtain ⟨ih1, ih2⟩ := apiBest_base d r hr
    have hs : baseFormulas ((s, f) :: r) = (s, some f) :: baseFormulas r := rfl
    rw [hs]
    cases hb : apiBest d (baseFormulas r) with
    | none =>
      simp only [apiBest, hb, latestStarted, ih1 hb]
      by_cases hd : s ≤ d
      · simp only [if_pos hd]
        refine ⟨fun h => (by cases h), fun k v h => ?_⟩
        cases h
        exact ⟨rfl, (s, f), by simp, rfl⟩
      · simp only [if_neg hd]
        exact ⟨by simp, fun k v h => (by cases h)⟩
    | some kv =>
      obtain ⟨k', v'⟩ := kv
      obtain ⟨hv, x, hx, hxk⟩ := ih2 k' v' hb
      have hlt' : ¬ (s ≤ d ∧ k' < s) := by
        intro h
        have := hlt x hx
        simp only at this
        omega
      simp only [apiBest, hb, if_neg hlt', latestStarted]
      refine ⟨fun h => (by cases h), fun k v h => ?_⟩
      cases h
      have hsome : ∃ g, latestStarted d r = some g := by
        cases hl' : latestStarted d r with
        | some g => exact ⟨g, rfl⟩
        | none =>
          exfalso
          -- the best served entry carries `some`, as every entry of `baseFormulas`
          have : ∀ (l : List (Int × V)) k v, apiBest d (baseFormulas l) = some (k, v) → v.isSome = true := by
            intro l
            induction l with
            | nil => intro k v h; simp [baseFormulas, apiBest] at h
            | cons y l ih =>
              intro k v h
              obtain ⟨s', f'⟩ := y
              have hs' : baseFormulas ((s', f') :: l) = (s', some f') :: baseFormulas l := rfl
              rw [hs'] at h
              simp only [apiBest] at h
              cases hb' : apiBest d (baseFormulas l) with
              | none =>
                rw [hb'] at h
                by_cases hd : s' ≤ d
                · simp only [if_pos hd] at h; cases h; rfl
                · simp only [if_neg hd] at h; cases h
              | some kv' =>
                obtain ⟨k2, v2⟩ := kv'
                rw [hb'] at h
                simp only at h
                split at h
                · cases h; rfl
                · cases h; exact ih k v hb'
          have h' := this r k' v' hb
          rw [hv, hl'] at h'; cases h'
      obtain ⟨g, hg⟩ := hsome
      exact ⟨by rw [hv, hg], x, by simp [hx], hxk⟩

theorem apiGetValue_base (l : List (Int × V)) (hl : l.Pairwise (fun a b => a.1 < b.1)) (d : Int) :
    apiGetValue d (baseFormulas l) = latestStarted d l := by
  obtain ⟨h1, h2⟩ := apiBest_base d l hl
  unfold apiGetValue
  cases hb : apiBest d (baseFormulas l) with
  | none => exact (h1 hb).symm
  | some kv => obtain ⟨k, v⟩ := kv; exact (h2 k v hb).1

theorem apiBest_append_last (d : Int) (z : Int × Option V) : ∀ (l : List (Int × Option V)),
    (∀ x ∈ l, x.1 < z.1) → apiBest d (l ++ [z]) = if z.1 ≤ d then some z else apiBest d l
  | [], _ => by simp [apiBest]
  | (k, v) :: r, h => by
    have ih := apiBest_append_last d z r (fun x hx => h x (by simp [hx]))
    have hk : k < z.1 := h (k, v) (by simp)
    simp only [List.cons_append, apiBest, ih]
    by_cases hz : z.1 ≤ d
    · simp only [if_pos hz]
      have : ¬ (k ≤ d ∧ z.1 < k) := by omega
      simp only [if_neg this]
    · simp only [if_neg hz]

theorem setKey_absent (k : Int) (v : Option V) : ∀ (l : List (Int × Option V)), (∀ x ∈ l, x.1 ≠ k) →
    setKey k v l = l ++ [(k, v)]
  | [], _ => rfl
  | (k', v') :: r, h => by
    have hne : k' ≠ k := h (k', v') (by simp)
    simp only [setKey, if_neg hne, List.cons_append, setKey_absent k v r (fun x hx => h x (by simp [hx]))]

/-- a reader of the served formulas gets the formula the engine uses -/
theorem apiFormulaAt_served (l : List (Int × V)) (hl : l.Pairwise (fun a b => a.1 < b.1)) (stop : Option Int)
    (hstop : ∀ e, stop = some e → ∀ x ∈ l, x.1 ≤ e) (d : Int) :
    apiFormulaAt d (servedFormulas l stop) = engineFormulaAt l stop d := by
  cases stop with
  | none =>
    simp only [apiFormulaAt, servedFormulas, engineFormulaAt]
    exact apiGetValue_base l hl d
  | some e =>
    have hle := hstop e rfl
    have habs : ∀ x ∈ baseFormulas l, x.1 ≠ e + 1 := by
      intro x hx
      obtain ⟨y, hy, rfl⟩ := List.mem_map.mp hx
      have := hle y hy
      simp only; omega
    have hlt : ∀ x ∈ baseFormulas l, x.1 < ((e + 1, none) : Int × Option V).1 := by
      intro x hx
      obtain ⟨y, hy, rfl⟩ := List.mem_map.mp hx
      have := hle y hy
      simp only; omega
    have hserved : servedFormulas l (some e) = baseFormulas l ++ [(e + 1, none)] := by
      simp only [servedFormulas]; exact setKey_absent (e + 1) none _ habs
    simp only [apiFormulaAt, hserved, engineFormulaAt, apiGetValue, apiBest_append_last d _ _ hlt]
    by_cases hd : e < d
    · have : e + 1 ≤ d := by omega
      simp only [if_pos this, if_pos hd]
    · have : ¬ e + 1 ≤ d := by omega
      simp only [if_neg this, if_neg hd]
      exact apiGetValue_base l hl d

end Listings

/-! ## scales (round 2) -/

section
variable {V : Type}

theorem apiBest_stable (D d : Int) (hD : D ≤ d) : ∀ (h : List (Int × Option V)),
    (∀ kv ∈ h, kv.1 ≤ d → kv.1 ≤ D) → apiBest D h = apiBest d h
  | [], _ => rfl
  | (k, v) :: r, hk => by
    have ih := apiBest_stable D d hD r (fun kv hkv => hk kv (List.mem_cons_of_mem _ hkv))
    have hk0 := hk (k, v) List.mem_cons_self
    simp only at hk0
    have hiff : k ≤ D ↔ k ≤ d := ⟨fun h => Int.le_trans h hD, hk0⟩
    simp only [apiBest, ih, hiff]

/-- `get_value` picks an entry with the greatest date on or before `d`, when there is one -/
theorem apiBest_spec (d : Int) : ∀ (l : List (Int × Option V)),
    (∀ k v, apiBest d l = some (k, v) → (k, v) ∈ l ∧ k ≤ d ∧ ∀ kv ∈ l, kv.1 ≤ d → kv.1 ≤ k) ∧
    (apiBest d l = none → ∀ kv ∈ l, ¬ kv.1 ≤ d)
  | [] => ⟨fun k v h => by simp [apiBest] at h, fun _ kv hkv => by cases hkv⟩
  | (k₀, v₀) :: r => by
    obtain ⟨ih1, ih2⟩ := apiBest_spec d r
    constructor
    · intro k v h
      simp only [apiBest] at h
      cases hb : apiBest d r with
      | none =>
        rw [hb] at h
        simp only at h
        by_cases hk : k₀ ≤ d
        · rw [if_pos hk] at h
          cases h
          refine ⟨List.mem_cons_self, hk, ?_⟩
          intro kv hkv hle
          rcases List.mem_cons.mp hkv with e | hm
          · rw [e]; exact Int.le_refl _
          · exact absurd hle (ih2 hb kv hm)
        · rw [if_neg hk] at h; cases h
      | some p =>
        obtain ⟨k', v'⟩ := p
        rw [hb] at h
        simp only at h
        obtain ⟨hm, hle, hmax⟩ := ih1 k' v' hb
        by_cases hc : k₀ ≤ d ∧ k' < k₀
        · rw [if_pos hc] at h
          cases h
          refine ⟨List.mem_cons_self, hc.1, ?_⟩
          intro kv hkv hle'
          rcases List.mem_cons.mp hkv with e | hm'
          · rw [e]; exact Int.le_refl _
          · exact Int.le_trans (hmax kv hm' hle') (Int.le_of_lt hc.2)
        · rw [if_neg hc] at h
          cases h
          refine ⟨List.mem_cons_of_mem _ hm, hle, ?_⟩
          intro kv hkv hle'
          rcases List.mem_cons.mp hkv with e | hm'
          · rw [e]
            simp only
            by_cases h1 : k₀ ≤ d
            · have : ¬ k < k₀ := fun h2 => hc ⟨h1, h2⟩
              omega
            · exact absurd hle' (by rw [e] at hle'; exact fun _ => h1 hle')
          · exact hmax kv hm' hle'
    · intro h kv hkv
      simp only [apiBest] at h
      cases hb : apiBest d r with
      | none =>
        rw [hb] at h
        simp only at h
        by_cases hk : k₀ ≤ d
        · rw [if_pos hk] at h; cases h
        · rcases List.mem_cons.mp hkv with e | hm
          · rw [e]; exact hk
          · exact ih2 hb kv hm
      | some p =>
        rw [hb] at h
        simp only at h
        split at h <;> cases h

theorem apiGetValue_stable (D d : Int) (hD : D ≤ d) (h : List (Int × Option V))
    (hk : ∀ kv ∈ h, kv.1 ≤ d → kv.1 ≤ D) : apiGetValue D h = apiGetValue d h := by
  unfold apiGetValue; rw [apiBest_stable D d hD h hk]

theorem apiGetValue_none_of_after (d : Int) (h : List (Int × Option V)) (hno : ∀ kv ∈ h, ¬ kv.1 ≤ d) :
    apiGetValue d h = none := by
  obtain ⟨h1, _⟩ := apiBest_spec d h
  unfold apiGetValue
  cases hbb : apiBest d h with
  | none => rfl
  | some p =>
    obtain ⟨k, v⟩ := p
    obtain ⟨hm, hle, _⟩ := h1 k v hbb
    exact absurd hle (hno (k, v) hm)
end

theorem mem_dedupDates (x : Int) : ∀ (l : List Int), x ∈ dedupDates l ↔ x ∈ l
  | [] => by simp [dedupDates]
  | y :: ys => by
    simp only [dedupDates, List.mem_cons, List.mem_filter, mem_dedupDates x ys, decide_eq_true_eq]
    constructor
    · rintro (h | ⟨h, _⟩)
      · exact Or.inl h
      · exact Or.inr h
    · rintro (h | h)
      · exact Or.inl h
      · by_cases e : x = y
        · exact Or.inl e
        · exact Or.inr ⟨h, e⟩

theorem mem_bracketDates_thr {brs : List ApiBracket} {b : ApiBracket} (hb : b ∈ brs) {kv : Int × Option Rat}
    (h : kv ∈ b.thresholds) : kv.1 ∈ bracketDates brs :=
  List.mem_flatMap.mpr ⟨b, hb, List.mem_append_left _ (List.mem_map.mpr ⟨kv, h, rfl⟩)⟩

theorem mem_bracketDates_val {brs : List ApiBracket} {b : ApiBracket} (hb : b ∈ brs) {kv : Int × Option Rat}
    (h : kv ∈ b.values) : kv.1 ∈ bracketDates brs :=
  List.mem_flatMap.mpr ⟨b, hb, List.mem_append_right _ (List.mem_map.mpr ⟨kv, h, rfl⟩)⟩

theorem foldl_congr_mem {α β : Type} (f g : β → α → β) : ∀ (l : List α) (b : β), (∀ a ∈ l, ∀ b, f b a = g b a) →
    l.foldl f b = l.foldl g b
  | [], _, _ => rfl
  | a :: l, b, h => by
    simp only [List.foldl_cons, h a List.mem_cons_self b]
    exact foldl_congr_mem f g l _ (fun x hx => h x (List.mem_cons_of_mem _ hx))

/-- between two consecutive dates of the scale nothing changes -/
theorem scaleRow_stable (brs : List ApiBracket) (D d : Int) (hD : D ≤ d)
    (hmax : ∀ k ∈ bracketDates brs, k ≤ d → k ≤ D) : scaleRow D brs = scaleRow d brs := by
  unfold scaleRow
  apply foldl_congr_mem
  intro b hb row
  rw [apiGetValue_stable D d hD b.thresholds (fun kv hkv => hmax kv.1 (mem_bracketDates_thr hb hkv)),
    apiGetValue_stable D d hD b.values (fun kv hkv => hmax kv.1 (mem_bracketDates_val hb hkv))]

/-- before the first date of the scale no bracket is in force -/
theorem scaleRow_nil_of_before (brs : List ApiBracket) (d : Int) (hno : ∀ k ∈ bracketDates brs, ¬ k ≤ d) :
    scaleRow d brs = [] := by
  unfold scaleRow
  have : ∀ (l : List ApiBracket) (row : List (Rat × Option Rat)), (∀ b ∈ l, b ∈ brs) →
      l.foldl (fun row b => match apiGetValue d b.thresholds with
        | some t => rowSet t (apiGetValue d b.values) row
        | none => row) row = row := by
    intro l
    induction l with
    | nil => intro row _; rfl
    | cons b l ih =>
      intro row hl
      have hb := hl b List.mem_cons_self
      have hn : apiGetValue d b.thresholds = none :=
        apiGetValue_none_of_after d b.thresholds (fun kv hkv => hno kv.1 (mem_bracketDates_thr hb hkv))
      simp only [List.foldl_cons, hn]
      exact ih row (fun b' hb' => hl b' (List.mem_cons_of_mem _ hb'))
  exact this brs [] (fun _ h => h)

/-- **what a reader of the rows sees on day `d`**: the brackets in force on that day -/
theorem servedScale_read (brs : List ApiBracket) (d : Int) :
    (∀ D, D ∈ bracketDates brs → D ≤ d → (∀ k ∈ bracketDates brs, k ≤ d → k ≤ D) → scaleRow D brs ≠ [] →
      apiGetValue d (servedScale brs) = some (scaleRow d brs)) ∧
    ((∀ k ∈ bracketDates brs, ¬ k ≤ d) → apiGetValue d (servedScale brs) = none ∧ scaleRow d brs = []) := by
  have hmemS : ∀ k v, (k, v) ∈ servedScale brs → k ∈ bracketDates brs ∧ v = some (scaleRow k brs) := by
    intro k v hm
    unfold servedScale at hm
    obtain ⟨k', hk', hkv⟩ := List.mem_filterMap.mp hm
    split at hkv
    · cases hkv
    · simp only [Option.some.injEq, Prod.mk.injEq] at hkv
      obtain ⟨rfl, rfl⟩ := hkv
      exact ⟨(mem_dedupDates _ _).mp hk', rfl⟩
  constructor
  · intro D hDm hDd hmax hne
    have hDs : (D, some (scaleRow D brs)) ∈ servedScale brs := by
      unfold servedScale
      refine List.mem_filterMap.mpr ⟨D, (mem_dedupDates _ _).mpr hDm, ?_⟩
      have : (scaleRow D brs).isEmpty = false := by
        cases hr : scaleRow D brs with
        | nil => exact absurd hr hne
        | cons _ _ => rfl
      rw [this]; rfl
    obtain ⟨h1, h2⟩ := apiBest_spec d (servedScale brs)
    unfold apiGetValue
    cases hb : apiBest d (servedScale brs) with
    | none => exact absurd hDd (h2 hb _ hDs)
    | some p =>
      obtain ⟨k, v⟩ := p
      obtain ⟨hm, hle, hgt⟩ := h1 k v hb
      obtain ⟨hk', rfl⟩ := hmemS k v hm
      have hkD : k = D := by
        have a := hmax k hk' hle
        have b := hgt _ hDs hDd
        simp only at b
        omega
      simp only
      rw [hkD, scaleRow_stable brs D d hDd hmax]
  · intro hno
    refine ⟨?_, scaleRow_nil_of_before brs d hno⟩
    apply apiGetValue_none_of_after
    intro kv hkv
    exact hno kv.1 (hmemS kv.1 kv.2 hkv).1

theorem instExps_all_true_of_ignored (w : Sim) (t : YTest) (pl var : String) (per : Option String)
    (hig : shouldIgnore t var = true) :
    ∀ (ids : List String) (es : List Exp) (o : Nat),
      (∀ k (h : k < ids.length), w.index pl ids[k] = some (o + k)) →
      (instExps pl var per ids es).all (checkExpectation w t) = true
  | [], _, _, _ => rfl
  | _ :: _, [], _, _ => rfl
  | id :: ids, e :: es, o, hidx => by
    have hi0 : w.index pl id = some o := by
      have := hidx 0 (by simp)
      simpa using this
    have ih := instExps_all_true_of_ignored w t pl var per hig ids es (o + 1) (fun k h => by
      have := hidx (k + 1) (by simp; omega)
      simp only [List.getElem_cons_succ] at this
      rw [this]; congr 1; omega)
    simp only [instExps, List.all_cons, ih, Bool.and_true, checkExpectation, instKnown, Option.getD_some, hi0,
      Option.isSome_some, Bool.true_eq_false, if_false, hig, if_true]

/-! ## Wider margins (round 2) -/

theorem absQ_mul (a b : Rat) : absQ (a * b) = absQ a * absQ b := by
  unfold absQ
  by_cases ha : a < 0 <;> by_cases hb : b < 0
  · have : ¬ a * b < 0 := by
      have := Rat.mul_pos (a := -a) (b := -b) (by grind) (by grind)
      grind
    simp only [ha, hb, this, if_true, if_false]; grind
  · by_cases hb0 : b = 0
    · subst hb0; simp
    · have : a * b < 0 := by
        have := Rat.mul_pos (a := -a) (b := b) (by grind) (by grind)
        grind
      simp only [ha, hb, this, if_true, if_false]; grind
  · by_cases ha0 : a = 0
    · subst ha0; simp
    · have : a * b < 0 := by
        have := Rat.mul_pos (a := a) (b := -b) (by grind) (by grind)
        grind
      simp only [ha, hb, this, if_true, if_false]; grind
  · have : ¬ a * b < 0 := by
      have := Rat.mul_nonneg (a := a) (b := b) (by grind) (by grind)
      grind
    simp only [ha, hb, this, if_false]

/-- the margins `(a', r')` accept whatever the margins `(a, r)` accept -/
def Wider (a r a' r' : Option Rat) : Prop := ∀ e x : Rat, near a r e x = true → near a' r' e x = true

theorem Wider.refl (a r : Option Rat) : Wider a r a r := fun _ _ h => h

theorem Wider.trans {a r a' r' a'' r'' : Option Rat} (h₁ : Wider a r a' r') (h₂ : Wider a' r' a'' r'') :
    Wider a r a'' r'' := fun e x h => h₂ e x (h₁ e x h)

/-- the comparison of one element: the margins only enter through `near` -/
theorem holds1_mono {a r a' r' : Option Rat} (hw : Wider a r a' r') (mode : Mode) (p : Val × Exp)
    (h : holds1 mode a r p = true) : holds1 mode a' r' p = true := by
  obtain ⟨v, e⟩ := p
  cases mode with
  | enum => cases v <;> cases e <;> simp [holds1, cmp1] at h ⊢ <;> exact h
  | text =>
    cases v with
    | str s =>
      simp only [holds1, cmp1] at h ⊢
      cases ht : e.toText with
      | error x => rw [ht] at h; simp at h
      | ok s' => rw [ht] at h; simpa using h
    | int n => simp [holds1, cmp1] at h
    | num q => simp [holds1, cmp1] at h
    | bool b => simp [holds1, cmp1] at h
    | date d => simp [holds1, cmp1] at h
    | enum n => simp [holds1, cmp1] at h
  | date =>
    cases v with
    | date d =>
      simp only [holds1, cmp1] at h ⊢
      cases ht : e.toDate with
      | error x => rw [ht] at h; simp at h
      | ok d' =>
        rw [ht] at h
        simp only [Bool.and_eq_true, decide_eq_true_eq] at h ⊢
        exact ⟨h.1, hw 0 0 h.2⟩
    | int n => simp [holds1, cmp1] at h
    | num q => simp [holds1, cmp1] at h
    | bool b => simp [holds1, cmp1] at h
    | str s => simp [holds1, cmp1] at h
    | enum n => simp [holds1, cmp1] at h
  | numeric =>
    simp only [holds1, cmp1] at h ⊢
    cases hv : v.toNum with
    | error x => rw [hv] at h; simp at h
    | ok x =>
      rw [hv] at h
      cases he : e.toNum with
      | error y => rw [he] at h; simp at h
      | ok t =>
        rw [he] at h
        simp only at h ⊢
        exact hw t x h

theorem assertNear_mono {a r a' r' : Option Rat} (hw : Wider a r a' r') (ty : VType) (vs : List Val) (tg : Target)
    (h : assertNear ty vs tg a r = true) : assertNear ty vs tg a' r' = true := by
  unfold assertNear at h ⊢
  cases hp : pairUp vs tg with
  | error e => rw [hp] at h; cases h
  | ok ps =>
    rw [hp] at h
    simp only [List.all_eq_true] at h ⊢
    exact fun p hpm => holds1_mono hw _ p (h p hpm)

/-- test `t'` states, for every variable, margins at least as wide as test `t` -/
def MarginsWider (t t' : YTest) : Prop :=
  ∀ var a r, marginFor t.absM var = .ok a → marginFor t.relM var = .ok r →
    ∃ a' r', marginFor t'.absM var = .ok a' ∧ marginFor t'.relM var = .ok r' ∧ Wider a r a' r'

theorem checkValue_mono (w : Sim) (t t' : YTest) (hm : MarginsWider t t') (x : Expectation)
    (h : checkValue w t x = true) : checkValue w t' x = true := by
  obtain ⟨per, ty, vec, vs, a, r, ps, h1, h2, h3, h4, h5, h6, h7, h8⟩ := (checkValue_iff w t x).mp h
  obtain ⟨a', r', ha', hr', hw⟩ := hm x.var a r h5 h6
  have hn : assertNear ty vs x.expected a r = true := (assertNear_iff ty vs x.expected a r).mpr ⟨ps, h7, h8⟩
  simp only [checkValue, h1, h2, h3, h4, ha', hr']
  exact assertNear_mono hw ty vs x.expected hn

/-! ## What the three layouts denote (round 2) -/

/-- one elementary assertion of a test: the value of `var` at `period` for the entity instance of
index `idx` is expected to be `expected` -/
structure Atom where
  var : String
  period : Option String
  idx : Nat
  expected : Exp
deriving DecidableEq, Repr

/-- the elementary assertions an expectation stands for, over a population of `n` instances: a named
instance selects its index; a whole-vector expectation is read element by element (a scalar is
broadcast) -/
def atomsOf (w : Sim) (n : Nat) (x : Expectation) : List Atom :=
  match x.inst with
  | some id =>
    match w.index (x.entity.getD "") id with
    | none => []
    | some i =>
      match x.expected with
      | .scalar e => [⟨x.var, x.period, i, e⟩]
      | .list es => es.map (fun e => ⟨x.var, x.period, i, e⟩)
  | none =>
    match x.expected with
    | .scalar e => (List.range n).map (fun i => ⟨x.var, x.period, i, e⟩)
    | .list es => (List.zipIdx es).map (fun (p : Exp × Nat) => ⟨x.var, x.period, p.2, p.1⟩)

theorem atoms_instExps (w : Sim) (n : Nat) (pl var : String) (per : Option String) :
    ∀ (ids : List String) (es : List Exp) (o : Nat), es.length = ids.length →
      (∀ k (h : k < ids.length), w.index pl ids[k] = some (o + k)) →
      (instExps pl var per ids es).flatMap (atomsOf w n) =
        (List.zipIdx es o).map (fun (p : Exp × Nat) => ⟨var, per, p.2, p.1⟩)
  | [], [], _, _, _ => rfl
  | [], _ :: _, _, hl, _ => by simp at hl
  | _ :: _, [], _, hl, _ => by simp at hl
  | id :: ids, e :: es, o, hl, hidx => by
    have hi0 : w.index pl id = some o := by
      have := hidx 0 (by simp)
      simpa using this
    have ih := atoms_instExps w n pl var per ids es (o + 1) (by simpa using hl) (fun k h => by
      have := hidx (k + 1) (by simp; omega)
      simp only [List.getElem_cons_succ] at this
      rw [this]; congr 1; omega)
    simp only [instExps, List.flatMap_cons, ih, atomsOf, Option.getD_some, hi0, List.zipIdx_cons, List.map_cons,
      List.singleton_append]

end OFCore.Api
