import OFCore.Param
import OFCore.Lemmas.Calendar
/-!
# Helper lemmas for the dated-parameter model (C06)

* `SortedBelow` — the working form of the sortedness invariant, and its links with `Sorted`
  and `List.Pairwise`;
* `upd` — `Parameter.update` on a closed range as one structural recursion over the
  reverse-chronological list; `update_eq_upd` shows that the five-phase transcription of the
  code (`update`) computes the same list on sorted histories;
* pointwise reading and sortedness of `upd` / open-ended updates;
* `ofData` (sorting, `expected` skipped);
* tax-scale rows (`scaleAdd`, `addAll`);
* `childrenAt`.
-/
namespace OFCore.Param

variable {V : Type}

/-! ## Sortedness -/

/-- all dates of `l` are `< b` and strictly decreasing -/
def SortedBelow : Int → List (Entry V) → Prop
  | _, [] => True
  | b, e :: r => e.date < b ∧ SortedBelow e.date r

theorem sorted_cons_iff (e : Entry V) (r : List (Entry V)) :
    Sorted (e :: r) ↔ SortedBelow e.date r := by
  induction r generalizing e with
  | nil => simp [Sorted, SortedBelow]
  | cons f r ih => simp only [Sorted, SortedBelow]; rw [ih]

/-- a bound above every date of the list -/
def bound : List (Entry V) → Int
  | [] => 0
  | e :: _ => e.date + 1

theorem sortedBelow_mono {b b' : Int} {l : List (Entry V)} (h : SortedBelow b l) (hb : b ≤ b') :
    SortedBelow b' l := by
  cases l with
  | nil => trivial
  | cons e r => exact ⟨by have := h.1; omega, h.2⟩

theorem sortedBelow_of_sorted {l : List (Entry V)} (h : Sorted l) : SortedBelow (bound l) l := by
  cases l with
  | nil => trivial
  | cons e r => exact ⟨by show e.date < e.date + 1; omega, (sorted_cons_iff e r).mp h⟩

theorem sorted_of_sortedBelow {b : Int} {l : List (Entry V)} (h : SortedBelow b l) : Sorted l := by
  cases l with
  | nil => trivial
  | cons e r => exact (sorted_cons_iff e r).mpr h.2

theorem lt_of_mem_sortedBelow {b : Int} {l : List (Entry V)} (h : SortedBelow b l) :
    ∀ e ∈ l, e.date < b := by
  induction l generalizing b with
  | nil => intro e he; cases he
  | cons x r ih =>
    intro e he
    rcases List.mem_cons.mp he with rfl | he'
    · exact h.1
    · have := ih h.2 e he'; have := h.1; omega

theorem sortedBelow_iff_pairwise (b : Int) (l : List (Entry V)) :
    SortedBelow b l ↔ (∀ e ∈ l, e.date < b) ∧ l.Pairwise (fun x y => y.date < x.date) := by
  induction l generalizing b with
  | nil => simp [SortedBelow]
  | cons x r ih =>
    simp only [SortedBelow, List.pairwise_cons, List.mem_cons, forall_eq_or_imp]
    rw [ih]
    constructor
    · rintro ⟨h1, h2, h3⟩
      exact ⟨⟨h1, fun e he => by have := h2 e he; omega⟩, h2, h3⟩
    · rintro ⟨⟨h1, _⟩, h2, h3⟩
      exact ⟨h1, h2, h3⟩

theorem sorted_iff_pairwise (l : List (Entry V)) :
    Sorted l ↔ l.Pairwise (fun x y => y.date < x.date) := by
  cases l with
  | nil => simp [Sorted]
  | cons e r =>
    rw [sorted_cons_iff, sortedBelow_iff_pairwise, List.pairwise_cons]

/-! ## Reading a sorted history -/

theorem pget_none_of_all_later (l : List (Entry V)) (d : Int) (h : ∀ e ∈ l, d < e.date) :
    pget l d = none := by
  induction l with
  | nil => rfl
  | cons x r ih =>
    have hx := h x (List.mem_cons_self ..)
    simp only [pget]
    rw [if_neg (by omega)]
    exact ih (fun e he => h e (List.mem_cons_of_mem _ he))

theorem pget_of_isLatest {l : List (Entry V)} (hl : Sorted l) {d : Int} {e : Entry V}
    (h : IsLatest l d e) : pget l d = e.val := by
  induction l with
  | nil => exact absurd h.1 (by simp)
  | cons x r ih =>
    obtain ⟨hm, hd, hmax⟩ := h
    have hb := (sorted_cons_iff x r).mp hl
    simp only [pget]
    by_cases hx : x.date ≤ d
    · rw [if_pos hx]
      rcases List.mem_cons.mp hm with rfl | hr
      · rfl
      · have h1 := lt_of_mem_sortedBelow hb e hr
        have h2 := hmax x (List.mem_cons_self ..) hx
        omega
    · rw [if_neg hx]
      rcases List.mem_cons.mp hm with rfl | hr
      · exact absurd hd hx
      · exact ih (sorted_of_sortedBelow hb) ⟨hr, hd, fun e' he' => hmax e' (List.mem_cons_of_mem _ he')⟩

theorem exists_isLatest {l : List (Entry V)} (hl : Sorted l) {d : Int}
    (h : ∃ e ∈ l, e.date ≤ d) : ∃ e, IsLatest l d e := by
  induction l with
  | nil => obtain ⟨e, he, _⟩ := h; cases he
  | cons x r ih =>
    have hb := (sorted_cons_iff x r).mp hl
    by_cases hx : x.date ≤ d
    · refine ⟨x, List.mem_cons_self .., hx, ?_⟩
      intro e' he' _
      rcases List.mem_cons.mp he' with rfl | hr
      · omega
      · have := lt_of_mem_sortedBelow hb e' hr; omega
    · obtain ⟨e, he, hed⟩ := h
      have her : e ∈ r := by
        rcases List.mem_cons.mp he with rfl | hr
        · exact absurd hed hx
        · exact hr
      obtain ⟨e0, h0m, h0d, h0max⟩ := ih (sorted_of_sortedBelow hb) ⟨e, her, hed⟩
      refine ⟨e0, List.mem_cons_of_mem _ h0m, h0d, ?_⟩
      intro e' he' hd'
      rcases List.mem_cons.mp he' with rfl | hr
      · exact absurd hd' hx
      · exact h0max e' hr hd'

/-! ## `Parameter.update` as one recursion -/

/-- the update of the range `[a, s)` (`s` = day after `stop`): keep entries `> s`; at the first
    entry `≤ s` re-open at `s` (unless dated `s`), insert `(a, v)`, drop entries in `[a, s)`. -/
def upd (l : List (Entry V)) (a s : Int) (v : Option V) : List (Entry V) :=
  match l with
  | [] => [⟨s, none⟩, ⟨a, v⟩]
  | e :: r =>
    if s < e.date then e :: upd r a s v
    else if s = e.date then e :: ⟨a, v⟩ :: skipFrom r a
    else ⟨s, e.val⟩ :: ⟨a, v⟩ :: skipFrom (e :: r) a

theorem pget_skipFrom {b : Int} (l : List (Entry V)) (a d : Int) (h : SortedBelow b l) (hd : d < a) :
    pget (skipFrom l a) d = pget l d := by
  induction l generalizing b with
  | nil => rfl
  | cons e r ih =>
    simp only [skipFrom]
    split
    · rw [ih h.2]
      simp only [pget]
      rw [if_neg (by omega)]
    · rfl

theorem sorted_skipFrom {b : Int} (l : List (Entry V)) (a : Int) (h : SortedBelow b l) :
    SortedBelow a (skipFrom l a) := by
  induction l generalizing b with
  | nil => trivial
  | cons e r ih =>
    simp only [skipFrom]
    split
    · exact ih h.2
    · exact ⟨by omega, h.2⟩

/-- pointwise effect of an update on `[a, s)` -/
theorem pget_upd {b : Int} (l : List (Entry V)) (a s : Int) (v : Option V)
    (h : SortedBelow b l) (d : Int) :
    pget (upd l a s v) d = if a ≤ d ∧ d < s then v else pget l d := by
  induction l generalizing b with
  | nil =>
    simp only [upd, pget]
    by_cases h1 : s ≤ d
    · rw [if_pos h1, if_neg (by omega)]
    · rw [if_neg h1]
      by_cases h2 : a ≤ d
      · rw [if_pos h2, if_pos ⟨h2, by omega⟩]
      · rw [if_neg h2, if_neg (show ¬ (a ≤ d ∧ d < s) from fun c => h2 c.1)]
  | cons e r ih =>
    simp only [upd]
    split
    · rename_i hlt
      simp only [pget]
      by_cases hed : e.date ≤ d
      · rw [if_pos hed, if_neg (by omega), if_pos hed]
      · rw [if_neg hed, ih h.2]
        by_cases hc : a ≤ d ∧ d < s
        · rw [if_pos hc, if_pos hc]
        · rw [if_neg hc, if_neg hc, if_neg hed]
    · split
      · rename_i _ heq
        simp only [pget]
        by_cases hed : e.date ≤ d
        · rw [if_pos hed, if_neg (by omega), if_pos hed]
        · rw [if_neg hed]
          by_cases had : a ≤ d
          · rw [if_pos had, if_pos ⟨had, by omega⟩]
          · rw [if_neg had, if_neg (show ¬ (a ≤ d ∧ d < s) from fun c => had c.1), if_neg hed]
            exact pget_skipFrom r a d h.2 (by omega)
      · rename_i hnlt hne
        have hes : e.date < s := by omega
        simp only [pget]
        by_cases hsd : s ≤ d
        · rw [if_pos hsd, if_neg (by omega), if_pos (by omega)]
        · rw [if_neg hsd]
          by_cases had : a ≤ d
          · rw [if_pos had, if_pos ⟨had, by omega⟩]
          · rw [if_neg had, if_neg (show ¬ (a ≤ d ∧ d < s) from fun c => had c.1)]
            have := pget_skipFrom (e :: r) a d h (by omega)
            simpa only [pget] using this

theorem sorted_upd {b : Int} (l : List (Entry V)) (a s : Int) (v : Option V) (has : a < s)
    (h : SortedBelow b l) (hb : s < b) : SortedBelow b (upd l a s v) := by
  induction l generalizing b with
  | nil => exact ⟨hb, has, trivial⟩
  | cons e r ih =>
    simp only [upd]
    split
    · rename_i hlt
      exact ⟨h.1, ih h.2 hlt⟩
    · split
      · rename_i _ heq
        exact ⟨h.1, by show a < e.date; omega, sorted_skipFrom r a h.2⟩
      · exact ⟨hb, has, sorted_skipFrom (e :: r) a h⟩

/-! ## The five phases compute `upd` on sorted histories -/

theorem keepFrom_of_below {s : Int} {r : List (Entry V)} (h : SortedBelow s r) : keepFrom r s = [] := by
  cases r with
  | nil => rfl
  | cons e r => simp only [keepFrom]; rw [if_neg (by have := h.1; omega)]

theorem skipFrom_of_below {s : Int} {r : List (Entry V)} (h : SortedBelow s r) : skipFrom r s = r := by
  cases r with
  | nil => rfl
  | cons e r => simp only [skipFrom]; rw [if_neg (by have := h.1; omega)]

theorem lastDate_cons_ne (e : Entry V) (k : List (Entry V)) (s : Int) (hne : e.date ≠ s) :
    (lastDate (e :: k) = some s) ↔ (lastDate k = some s) := by
  cases k with
  | nil => simp [lastDate, hne]
  | cons f k => simp [lastDate]

theorem reopen_cons_ne (e : Entry V) (k rest : List (Entry V)) (s : Int) (hne : e.date ≠ s) :
    reopen (e :: k) rest s = reopen k rest s := by
  unfold reopen
  by_cases h : lastDate k = some s
  · rw [if_pos h, if_pos ((lastDate_cons_ne e k s hne).mpr h)]
  · rw [if_neg h, if_neg (fun c => h ((lastDate_cons_ne e k s hne).mp c))]

/-- refinement: the transcription of the code's five phases equals the one-pass recursion
    whenever the history is sorted (any `a`, any `s`, reversed ranges included) -/
theorem updateSpan_eq_upd {bnd : Int} (l : List (Entry V)) (a s : Int) (v : Option V)
    (h : SortedBelow bnd l) : updateSpan l a s v = upd l a s v := by
  simp only [updateSpan]
  induction l generalizing bnd with
  | nil => simp [keepFrom, skipFrom, reopen, lastDate, upd]
  | cons e r ih =>
    simp only [upd]
    by_cases h1 : s < e.date
    · have h1' : s ≤ e.date := by omega
      rw [if_pos h1]
      simp only [keepFrom, skipFrom, if_pos h1']
      rw [reopen_cons_ne e _ _ _ (by omega), ← ih h.2]
      simp
    · rw [if_neg h1]
      by_cases h2 : s = e.date
      · rw [if_pos h2]
        have hr : SortedBelow s r := by rw [h2]; exact h.2
        simp only [keepFrom, skipFrom, if_pos (show s ≤ e.date by omega)]
        rw [keepFrom_of_below hr, skipFrom_of_below hr]
        simp [reopen, lastDate, h2]
      · rw [if_neg h2]
        simp only [keepFrom, skipFrom, if_neg (show ¬ s ≤ e.date by omega)]
        simp [reopen, lastDate]

theorem update_eq_upd {bnd : Int} (l : List (Entry V)) (a b : Int) (v : Option V)
    (h : SortedBelow bnd l) : update l a (some b) v = upd l a (b + 1) v :=
  updateSpan_eq_upd l a (b + 1) v h

/-! ## Spelled keys: the ticks order like the texts -/

/-- when does a key take effect: on its first day -/
theorem fine_le_iff (o q : Int) (sp : Spell) : fine o sp ≤ 3 * q ↔ o ≤ q := by
  cases sp <;> simp only [fine] <;> omega

theorem fine_lt_iff (o o' : Int) (sp sp' : Spell) :
    fine o sp < fine o' sp' ↔ o < o' ∨ (o = o' ∧ fine 0 sp < fine 0 sp') := by
  cases sp <;> cases sp' <;> simp only [fine] <;> omega

theorem fine_inj (o o' : Int) (sp sp' : Spell) (h : fine o sp = fine o' sp') : o = o' ∧ sp = sp' := by
  cases sp <;> cases sp' <;> simp only [fine] at h <;> first | exact ⟨by omega, rfl⟩ | omega

/-- a spelled key as the triple the TEXT order compares: zero-padded `YYYY[-MM[-DD]]`, a missing component
    counting as 0 (a text that is a proper prefix of another one is smaller) -/
structure SKey where
  y : Int
  m : Int
  d : Int

def SKey.WF (k : SKey) : Prop :=
  1 ≤ k.y ∧ ((k.m = 0 ∧ k.d = 0) ∨ (1 ≤ k.m ∧ k.m ≤ 12 ∧ (k.d = 0 ∨ (1 ≤ k.d ∧ k.d ≤ dim k.y k.m))))

def SKey.spell (k : SKey) : Spell := if k.m = 0 then .year else if k.d = 0 then .month else .day

/-- the first day the key denotes -/
def SKey.first (k : SKey) : Date := ⟨k.y, if k.m = 0 then 1 else k.m, if k.d = 0 then 1 else k.d⟩

def SKey.tick (k : SKey) : Int := fine (ord k.first) k.spell

/-- the order of the texts -/
def SKey.lt (a b : SKey) : Prop := a.y < b.y ∨ (a.y = b.y ∧ (a.m < b.m ∨ (a.m = b.m ∧ a.d < b.d)))

instance (k : SKey) : Decidable k.WF := by unfold SKey.WF; infer_instance
instance (a b : SKey) : Decidable (a.lt b) := by unfold SKey.lt; infer_instance

theorem dim_pos (y m : Int) : 28 ≤ dim y m := by
  unfold dim; split <;> (try split) <;> omega

theorem SKey.first_valid (k : SKey) (h : k.WF) : k.first.Valid := by
  obtain ⟨hy, hmd⟩ := h
  have := dim_pos k.y k.m
  have h31 : dim k.y 1 = 31 := by simp [dim]
  rcases hmd with ⟨hm, hd⟩ | ⟨hm1, hm2, hd | ⟨hd1, hd2⟩⟩
  · simp only [SKey.first, Date.Valid, hm, hd, if_true, h31]; omega
  · simp only [SKey.first, Date.Valid, hd, if_true, if_neg (show ¬ k.m = 0 by omega)]; omega
  · simp only [SKey.first, Date.Valid, if_neg (show ¬ k.m = 0 by omega), if_neg (show ¬ k.d = 0 by omega)]; omega

/-- The ticks of the model order like the key texts of the code (`values_list` is sorted by text, and
    `update` / `_get_at_instant` compare texts): `"2014-12-31" < "2015" < "2015-01" < "2015-01-01"`. -/
theorem fine_lt_of_lex (a b : SKey) (ha : a.WF) (hb : b.WF) (h : a.lt b) : a.tick < b.tick := by
  have va := a.first_valid ha
  have vb := b.first_valid hb
  -- either the first days are in lexicographic order, or they are equal and the spelling of `a` is shorter
  have key : (a.first.y < b.first.y ∨ (a.first.y = b.first.y ∧ (a.first.m < b.first.m ∨
        (a.first.m = b.first.m ∧ a.first.d < b.first.d)))) ∨
      (a.first = b.first ∧ fine 0 a.spell < fine 0 b.spell) := by
    obtain ⟨_, hamd⟩ := ha
    obtain ⟨_, hbmd⟩ := hb
    unfold SKey.lt at h
    simp only [SKey.first, SKey.spell]
    by_cases am : a.m = 0 <;> by_cases ad : a.d = 0 <;> by_cases bm : b.m = 0 <;> by_cases bd : b.d = 0 <;>
      simp only [am, ad, bm, bd, if_true, if_false, fine, Date.mk.injEq] <;>
      first | omega | (simp only [and_true, and_false, or_false, Int.lt_irrefl] <;> omega)
  rcases key with hlex | ⟨heq, hsp⟩
  · have := ord_lt_of_lex a.first b.first va vb hlex
    unfold SKey.tick
    rw [fine_lt_iff]; exact Or.inl this
  · unfold SKey.tick
    rw [fine_lt_iff, heq]; exact Or.inr ⟨rfl, hsp⟩

/-! ## `update` on a history in ticks -/

theorem pget_updateFine (l : List (Entry V)) (hl : Sorted l) (a b : Int) (v : Option V) (d : Int) :
    pget (updateFine l a (some b) v) (3 * d) = if a ≤ d ∧ d ≤ b then v else pget l (3 * d) := by
  have h0 := sortedBelow_of_sorted hl
  show pget (updateSpan l (3 * a) (3 * (b + 1)) v) (3 * d) = _
  rw [updateSpan_eq_upd l _ _ v h0, pget_upd l _ _ v h0]
  by_cases h : a ≤ d ∧ d ≤ b
  · rw [if_pos h, if_pos (by omega)]
  · rw [if_neg h, if_neg (by omega)]

theorem sorted_updateFine (l : List (Entry V)) (hl : Sorted l) (a b : Int) (hab : a ≤ b) (v : Option V) :
    Sorted (updateFine l a (some b) v) := by
  have h0 := sortedBelow_of_sorted hl
  have h1 : SortedBelow (max (bound l) (3 * (b + 1) + 1)) l := sortedBelow_mono h0 (by omega)
  show Sorted (updateSpan l (3 * a) (3 * (b + 1)) v)
  rw [updateSpan_eq_upd l _ _ v h1]
  exact sorted_of_sortedBelow (sorted_upd l _ _ v (by omega) h1 (by omega))

theorem updateFine_open (l : List (Entry V)) (hl : Sorted l) (a : Int) (v : Option V) :
    Sorted (updateFine l a none v) ∧
    ∀ d, pget (updateFine l a none v) (3 * d) = if a ≤ d then v else pget l (3 * d) := by
  have h0 := sortedBelow_of_sorted hl
  constructor
  · show Sorted (⟨3 * a, v⟩ :: skipFrom l (3 * a))
    rw [sorted_cons_iff]
    exact sorted_skipFrom l _ h0
  · intro d
    show pget (⟨3 * a, v⟩ :: skipFrom l (3 * a)) (3 * d) = _
    simp only [pget]
    by_cases h : a ≤ d
    · rw [if_pos (by omega), if_pos h]
    · rw [if_neg (by omega), if_neg h]
      exact pget_skipFrom l _ _ h0 (by omega)

/-! ## Construction from YAML-like data -/

/-- every key is an instant TEXT -/
def AllDates (kvs : List (YKey × Y)) : Prop := ∀ p ∈ kvs, ∃ o sp t, p.1 = YKey.date o sp t

/-- the tick of a date key -/
def keyTick : YKey → Int
  | .date o sp _ => fine o sp
  | .name _ => 0
  | .int _ => 0

theorem allDates_cons (p : YKey × Y) (r : List (YKey × Y)) :
    AllDates (p :: r) ↔ (∃ o sp t, p.1 = YKey.date o sp t) ∧ AllDates r := by
  unfold AllDates
  simp only [List.mem_cons, forall_eq_or_imp]

theorem lookupName_none_of_allDates (kvs : List (YKey × Y)) (h : AllDates kvs) (s : String) :
    lookupName kvs s = none := by
  induction kvs with
  | nil => rfl
  | cons p r ih =>
    obtain ⟨k, y⟩ := p
    obtain ⟨⟨o, sp, t, hk⟩, hr⟩ := (allDates_cons _ _).mp h
    simp only at hk
    subst hk
    simp only [lookupName, YKey.isName, Bool.false_eq_true, if_false]
    exact ih hr

theorem all_isInstant_of_allDates (kvs : List (YKey × Y)) (h : AllDates kvs) :
    kvs.all (fun p => p.1.isInstant) = true := by
  rw [List.all_eq_true]
  intro p hp
  obtain ⟨o, sp, t, hk⟩ := h p hp
  rw [hk]; rfl

/-- `paramItems` succeeds exactly on mappings whose keys are all instant texts and whose values are all
    readable (`itemOf`); the items are the ticks of the keys with what the values denote, in order -/
theorem paramItems_spec (kvs : List (YKey × Y)) (its : List (Int × Item String)) (h : paramItems kvs = .ok its) :
    AllDates kvs ∧ its.map (·.1) = kvs.map (fun p => keyTick p.1) ∧
    ∀ x, x ∈ its ↔ ∃ o sp t y i, (YKey.date o sp t, y) ∈ kvs ∧ itemOf y = .ok i ∧ x = (fine o sp, i) := by
  induction kvs generalizing its with
  | nil =>
    simp only [paramItems] at h
    cases h
    exact ⟨fun p hp => (by cases hp), rfl, fun x => (by simp)⟩
  | cons p r ih =>
    obtain ⟨k, y⟩ := p
    cases k with
    | name s => simp only [paramItems] at h; cases h
    | int i => simp only [paramItems] at h; cases h
    | date o sp t =>
      simp only [paramItems] at h
      cases h1 : itemOf y with
      | error e => rw [h1] at h; cases h
      | ok it =>
        cases h2 : paramItems r with
        | error e => rw [h1, h2] at h; cases h
        | ok its' =>
          rw [h1, h2] at h
          cases h
          obtain ⟨a1, a2, a3⟩ := ih its' h2
          refine ⟨(allDates_cons _ _).mpr ⟨⟨o, sp, t, rfl⟩, a1⟩, by simp [keyTick, a2], ?_⟩
          intro x
          simp only [List.mem_cons]
          rw [a3 x]
          constructor
          · rintro (rfl | ⟨o', sp', t', y', i', hm, hi, rfl⟩)
            · exact ⟨o, sp, t, y, it, Or.inl rfl, h1, rfl⟩
            · exact ⟨o', sp', t', y', i', Or.inr hm, hi, rfl⟩
          · rintro ⟨o', sp', t', y', i', hm | hm, hi, rfl⟩
            · left
              simp only [Prod.mk.injEq, YKey.date.injEq] at hm
              obtain ⟨⟨rfl, rfl, rfl⟩, rfl⟩ := hm
              rw [h1] at hi; cases hi; rfl
            · exact Or.inr ⟨o', sp', t', y', i', hm, hi, rfl⟩

/-- the simplified declaration `{instant: value, …}` builds the parameter whose values list is `ofData` of
    the items -/
theorem parseChild_dates (rat : String → Option Rat) (kvs : List (YKey × Y)) (h : AllDates kvs)
    (its : List (Int × Item String)) (hi : paramItems kvs = .ok its) :
    parseChild rat (.map kvs) = .ok (.param (ofData its)) := by
  have hv : lookupName kvs "values" = none := lookupName_none_of_allDates kvs h _
  have hb : lookupName kvs "brackets" = none := lookupName_none_of_allDates kvs h _
  simp only [parseChild, hasName, hv, hb, Option.isSome_none, Bool.false_eq_true, if_false,
    all_isInstant_of_allDates kvs h, if_true, buildParam, paramValues, hi]

/-- the declaration with `values:` (and description, metadata, …) builds the same parameter from the
    mapping under `values` -/
theorem parseChild_values (rat : String → Option Rat) (kvs vkvs : List (YKey × Y)) (x : YKey × Y) (hne : vkvs = x :: vkvs.tail)
    (hv : lookupName kvs "values" = some (.map vkvs))
    (hk : keysWithin kvs (commonKeys ++ ["values"]) = true) (hm : metaOk kvs = true)
    (its : List (Int × Item String)) (hi : paramItems vkvs = .ok its) :
    parseChild rat (.map kvs) = .ok (.param (ofData its)) := by
  have ht : (Y.map vkvs).truthy = true := by rw [hne]; rfl
  simp only [parseChild, hasName, hv, Option.isSome_some, if_true, buildParam, paramValues, ht, hk, hm,
    Bool.not_true, Bool.false_eq_true, if_false, hi]

/-- the loop of `ParameterNode.__init__`: the children built are those of the non-reserved keys, in order,
    each named by the text of its key and parsed from its data; names end up distinct -/
theorem nodeKids_spec (rat : String → Option Rat) (kvs : List (YKey × Y)) (acc cs : List (String × PNode String))
    (h : nodeKids rat kvs acc = .ok cs) :
    ∃ new, cs = acc ++ new ∧
      new.map (·.1) = (kvs.filter (fun p => !p.1.within commonKeys)).map (·.1.text) ∧
      (∀ k c, (k, c) ∈ new → ∃ p ∈ kvs, p.1.within commonKeys = false ∧ p.1.text = k ∧ parseChild rat p.2 = .ok c) ∧
      ((acc.map (·.1)).Nodup → (cs.map (·.1)).Nodup) := by
  induction kvs generalizing acc with
  | nil =>
    simp only [nodeKids] at h
    cases h
    exact ⟨[], (by simp), rfl, fun k c hm => (by cases hm), fun hn => hn⟩
  | cons p r ih =>
    obtain ⟨k, y⟩ := p
    simp only [nodeKids] at h
    by_cases hw : k.within commonKeys = true
    · rw [if_pos hw] at h
      obtain ⟨new, h1, h2, h3, h4⟩ := ih acc h
      refine ⟨new, h1, ?_, ?_, h4⟩
      · rw [h2, List.filter_cons]
        simp [hw]
      · intro k' c hm
        obtain ⟨p, hp, hq⟩ := h3 k' c hm
        exact ⟨p, List.mem_cons_of_mem _ hp, hq⟩
    · rw [if_neg hw] at h
      cases hc : parseChild rat y with
      | error e => rw [hc] at h; cases h
      | ok c =>
        rw [hc] at h
        simp only at h
        cases ha : addChild acc k.text c with
        | error e => rw [ha] at h; cases h
        | ok acc' =>
          rw [ha] at h
          simp only at h
          have hacc : acc' = acc ++ [(k.text, c)] ∧ k.text ∉ acc.map (·.1) := by
            unfold addChild at ha
            split at ha
            · cases ha
            · rename_i hany
              cases ha
              refine ⟨rfl, ?_⟩
              intro hmem
              apply hany
              obtain ⟨q, hq, hqk⟩ := List.mem_map.mp hmem
              rw [List.any_eq_true]
              exact ⟨q, hq, by simp [hqk]⟩
          obtain ⟨new, h1, h2, h3, h4⟩ := ih acc' h
          have hwf : k.within commonKeys = false := by
            cases hb : k.within commonKeys with
            | true => exact absurd hb hw
            | false => rfl
          refine ⟨(k.text, c) :: new, ?_, ?_, ?_, ?_⟩
          · rw [h1, hacc.1]; simp
          · rw [List.filter_cons]
            simp [hwf, h2]
          · intro k' c' hm
            rcases List.mem_cons.mp hm with heq | hm'
            · simp only [Prod.mk.injEq] at heq
              obtain ⟨rfl, rfl⟩ := heq
              exact ⟨(k, y), List.mem_cons_self .., hwf, rfl, hc⟩
            · obtain ⟨p, hp, hq⟩ := h3 k' c' hm'
              exact ⟨p, List.mem_cons_of_mem _ hp, hq⟩
          · intro hn
            apply h4
            rw [hacc.1, List.map_append, List.nodup_append]
            refine ⟨hn, by simp, ?_⟩
            intro a ha b hb
            simp only [List.map_cons, List.map_nil, List.mem_singleton] at hb
            subst hb
            intro hab
            subst hab
            exact hacc.2 ha

/-! ## Sequences of updates -/

theorem foldl_specStep_untouched (d : Int) (acc : Option V) (us : List (Upd V))
    (h : ∀ u ∈ us, ¬ u.covers d) : us.foldl (specStep d) acc = acc := by
  induction us generalizing acc with
  | nil => rfl
  | cons u us ih =>
    rw [List.foldl_cons]
    have : specStep d acc u = acc := by
      unfold specStep; rw [if_neg (h u (List.mem_cons_self ..))]
    rw [this]
    exact ih acc (fun u' hu' => h u' (List.mem_cons_of_mem _ hu'))

/-! ## Histories with clones -/

section Clones
variable {σ U : Type}

theorem length_runOp (f : σ → U → σ) (st : List σ) (op : HOp U) :
    st.length ≤ (runOp f st op).length := by
  cases op with
  | clone s =>
    simp only [runOp]
    split
    · simp
    · exact Nat.le_refl _
  | upd i u =>
    simp only [runOp]
    split
    · simp
    · exact Nat.le_refl _

/-- frame property of one step: an object that is not the target keeps its content -/
theorem getElem?_runOp_of_ne (f : σ → U → σ) (st : List σ) (op : HOp U) (j : Nat)
    (hj : j < st.length) (h : op.target ≠ some j) : (runOp f st op)[j]? = st[j]? := by
  cases op with
  | clone s =>
    simp only [runOp]
    split
    · exact List.getElem?_append_left hj
    · rfl
  | upd i u =>
    simp only [runOp]
    split
    · have hne : i ≠ j := fun c => h (by simp [HOp.target, c])
      exact List.getElem?_set_ne hne
    · rfl

theorem getElem?_runOps_of_ne (f : σ → U → σ) (st : List σ) (ops : List (HOp U)) (j : Nat)
    (hj : j < st.length) (h : ∀ op ∈ ops, op.target ≠ some j) : (runOps f st ops)[j]? = st[j]? := by
  induction ops generalizing st with
  | nil => rfl
  | cons op ops ih =>
    show (runOps f (runOp f st op) ops)[j]? = _
    rw [ih (runOp f st op) (Nat.lt_of_lt_of_le hj (length_runOp f st op))
      (fun op' h' => h op' (List.mem_cons_of_mem _ h'))]
    exact getElem?_runOp_of_ne f st op j hj (h op (List.mem_cons_self ..))

/-- one step commutes with "replay the object's own updates on the common ancestor" -/
theorem runOp_map_trace (f : σ → U → σ) (x0 : σ) (tr : List (List U)) (op : HOp U) :
    runOp f (tr.map (fun us => us.foldl f x0)) op = (runOp snoc tr op).map (fun us => us.foldl f x0) := by
  cases op with
  | clone s =>
    simp only [runOp, List.getElem?_map]
    cases tr[s]? with
    | none => rfl
    | some us => simp
  | upd i u =>
    simp only [runOp, List.getElem?_map]
    cases tr[i]? with
    | none => rfl
    | some us => simp [List.map_set, snoc, List.foldl_append]

theorem runOps_map_trace (f : σ → U → σ) (x0 : σ) (tr : List (List U)) (ops : List (HOp U)) :
    runOps f (tr.map (fun us => us.foldl f x0)) ops = (runOps snoc tr ops).map (fun us => us.foldl f x0) := by
  induction ops generalizing tr with
  | nil => rfl
  | cons op ops ih =>
    show runOps f (runOp f _ op) ops = (runOps snoc (runOp snoc tr op) ops).map _
    rw [runOp_map_trace, ih]

/-- every update found in a trace was either there before or is an update of the history -/
theorem mem_trace_runOp (tr : List (List U)) (op : HOp U) (us : List U) (hus : us ∈ runOp snoc tr op)
    (u : U) (hu : u ∈ us) : (∃ us' ∈ tr, u ∈ us') ∨ ∃ i, op = HOp.upd i u := by
  cases op with
  | clone s =>
    simp only [runOp] at hus
    split at hus
    · rename_i x hx
      rcases List.mem_append.mp hus with h | h
      · exact Or.inl ⟨us, h, hu⟩
      · simp only [List.mem_singleton] at h
        subst h
        exact Or.inl ⟨us, List.mem_of_getElem? hx, hu⟩
    · exact Or.inl ⟨us, hus, hu⟩
  | upd i w =>
    simp only [runOp] at hus
    split at hus
    · rename_i x hx
      rcases List.mem_or_eq_of_mem_set hus with h | h
      · exact Or.inl ⟨us, h, hu⟩
      · subst h
        rcases List.mem_append.mp hu with h' | h'
        · exact Or.inl ⟨x, List.mem_of_getElem? hx, h'⟩
        · simp only [List.mem_singleton] at h'
          subst h'
          exact Or.inr ⟨i, rfl⟩
    · exact Or.inl ⟨us, hus, hu⟩

theorem mem_trace_runOps (tr : List (List U)) (ops : List (HOp U)) (us : List U)
    (hus : us ∈ runOps snoc tr ops) (u : U) (hu : u ∈ us) :
    (∃ us' ∈ tr, u ∈ us') ∨ ∃ i, HOp.upd i u ∈ ops := by
  induction ops generalizing tr with
  | nil => exact Or.inl ⟨us, hus, hu⟩
  | cons op ops ih =>
    rcases ih (runOp snoc tr op) hus with ⟨us', hus', hu'⟩ | ⟨i, hi⟩
    · rcases mem_trace_runOp tr op us' hus' u hu' with h | ⟨i, hi⟩
      · exact Or.inl h
      · exact Or.inr ⟨i, by rw [hi]; exact List.mem_cons_self ..⟩
    · exact Or.inr ⟨i, List.mem_cons_of_mem _ hi⟩

end Clones

/-! ## Construction from data -/

theorem mem_insertDesc (x y : Int × Item V) (l : List (Int × Item V)) :
    y ∈ insertDesc x l ↔ y = x ∨ y ∈ l := by
  induction l with
  | nil => simp [insertDesc]
  | cons z r ih =>
    simp only [insertDesc]
    split
    · simp
    · simp only [List.mem_cons, ih]
      constructor
      · rintro (h | h | h)
        · exact Or.inr (Or.inl h)
        · exact Or.inl h
        · exact Or.inr (Or.inr h)
      · rintro (h | h | h)
        · exact Or.inr (Or.inl h)
        · exact Or.inl h
        · exact Or.inr (Or.inr h)

theorem mem_sortDesc (y : Int × Item V) (l : List (Int × Item V)) : y ∈ sortDesc l ↔ y ∈ l := by
  induction l with
  | nil => simp [sortDesc]
  | cons x r ih => simp only [sortDesc, mem_insertDesc, ih, List.mem_cons]

/-- keys strictly decreasing -/
def DescKeys (l : List (Int × Item V)) : Prop := l.Pairwise (fun x y => y.1 < x.1)

theorem descKeys_insertDesc (x : Int × Item V) (l : List (Int × Item V)) (h : DescKeys l)
    (hx : ∀ y ∈ l, y.1 ≠ x.1) : DescKeys (insertDesc x l) := by
  induction l with
  | nil => simp [insertDesc, DescKeys]
  | cons z r ih =>
    unfold DescKeys at h ⊢
    rw [List.pairwise_cons] at h
    simp only [insertDesc]
    have hz := hx z (List.mem_cons_self ..)
    split
    · rename_i hle
      rw [List.pairwise_cons, List.pairwise_cons]
      refine ⟨?_, h.1, h.2⟩
      intro y hy
      rcases List.mem_cons.mp hy with rfl | hr
      · omega
      · have := h.1 y hr; omega
    · rename_i hnle
      rw [List.pairwise_cons]
      refine ⟨?_, ih h.2 (fun y hy => hx y (List.mem_cons_of_mem _ hy))⟩
      intro y hy
      rcases (mem_insertDesc x y r).mp hy with rfl | hr
      · omega
      · exact h.1 y hr

theorem descKeys_sortDesc (l : List (Int × Item V)) (hnd : (l.map (·.1)).Nodup) :
    DescKeys (sortDesc l) := by
  induction l with
  | nil => simp [sortDesc, DescKeys]
  | cons x r ih =>
    rw [List.map_cons, List.nodup_cons] at hnd
    simp only [sortDesc]
    apply descKeys_insertDesc x _ (ih hnd.2)
    intro y hy heq
    exact hnd.1 (List.mem_map.mpr ⟨y, (mem_sortDesc y r).mp hy, heq⟩)

theorem mem_keepValues (d : Int) (v : Option V) (l : List (Int × Item V)) :
    (⟨d, v⟩ : Entry V) ∈ keepValues l ↔ (d, Item.value v) ∈ l := by
  induction l with
  | nil => simp [keepValues]
  | cons x r ih =>
    obtain ⟨dx, ix⟩ := x
    cases ix with
    | value w =>
      simp only [keepValues, List.mem_cons, ih]
      constructor
      · rintro (h | h)
        · left; cases h; rfl
        · right; exact h
      · rintro (h | h)
        · left; cases h; rfl
        · right; exact h
    | expected =>
      simp only [keepValues, List.mem_cons, ih]
      constructor
      · intro h; right; exact h
      · rintro (h | h)
        · cases h
        · exact h

theorem sorted_keepValues (l : List (Int × Item V)) (h : DescKeys l) : Sorted (keepValues l) := by
  rw [sorted_iff_pairwise]
  induction l with
  | nil => simp [keepValues]
  | cons x r ih =>
    unfold DescKeys at h
    rw [List.pairwise_cons] at h
    obtain ⟨dx, ix⟩ := x
    cases ix with
    | value w =>
      simp only [keepValues]
      rw [List.pairwise_cons]
      refine ⟨?_, ih h.2⟩
      intro e he
      have := h.1 (e.date, Item.value e.val) ((mem_keepValues e.date e.val r).mp he)
      exact this
    | expected =>
      simp only [keepValues]
      exact ih h.2

/-! ## Tax-scale rows -/

theorem keys_bumpRow (rows : List (Rat × Rat)) (t r : Rat) :
    (bumpRow rows t r).map (·.1) = rows.map (·.1) := by
  induction rows with
  | nil => rfl
  | cons p rest ih =>
    obtain ⟨t', r'⟩ := p
    simp only [bumpRow]
    split
    · simp
    · simp [ih]

theorem mem_keys_insertRow (rows : List (Rat × Rat)) (t r u : Rat) :
    u ∈ (insertRow rows t r).map (·.1) ↔ u = t ∨ u ∈ rows.map (·.1) := by
  induction rows with
  | nil => simp [insertRow]
  | cons p rest ih =>
    obtain ⟨t', r'⟩ := p
    simp only [insertRow]
    split
    · simp
    · simp only [List.map_cons, List.mem_cons, ih]
      constructor
      · rintro (h | h | h)
        · exact Or.inr (Or.inl h)
        · exact Or.inl h
        · exact Or.inr (Or.inr h)
      · rintro (h | h | h)
        · exact Or.inr (Or.inl h)
        · exact Or.inl h
        · exact Or.inr (Or.inr h)

theorem any_key_iff (rows : List (Rat × Rat)) (t : Rat) :
    rows.any (fun p => p.1 == t) = true ↔ t ∈ rows.map (·.1) := by
  simp only [List.any_eq_true, List.mem_map, beq_iff_eq]

theorem mem_keys_scaleAdd (rows : List (Rat × Rat)) (t r u : Rat) :
    u ∈ (scaleAdd rows t r).map (·.1) ↔ u = t ∨ u ∈ rows.map (·.1) := by
  unfold scaleAdd
  split
  · rename_i h
    rw [keys_bumpRow]
    have := (any_key_iff rows t).mp h
    constructor
    · exact Or.inr
    · rintro (rfl | h')
      · exact this
      · exact h'
  · exact mem_keys_insertRow rows t r u

/-- thresholds strictly increasing -/
def RowsSorted (rows : List (Rat × Rat)) : Prop := (rows.map (·.1)).Pairwise (· < ·)

theorem rowsSorted_insertRow (rows : List (Rat × Rat)) (t r : Rat) (h : RowsSorted rows)
    (hn : t ∉ rows.map (·.1)) : RowsSorted (insertRow rows t r) := by
  induction rows with
  | nil => simp [insertRow, RowsSorted]
  | cons p rest ih =>
    obtain ⟨t', r'⟩ := p
    unfold RowsSorted at h ⊢
    rw [List.map_cons, List.pairwise_cons] at h
    have hne : t ≠ t' := fun c => hn (by simp [c])
    have hn' : t ∉ rest.map (·.1) := fun c => hn (by simp only [List.map_cons, List.mem_cons]; exact Or.inr c)
    simp only [insertRow]
    split
    · rename_i hle
      have hlt : t < t' := Rat.lt_of_le_of_ne hle hne
      simp only [List.map_cons, List.pairwise_cons]
      refine ⟨?_, h.1, h.2⟩
      intro u hu
      rcases List.mem_cons.mp hu with rfl | hr
      · exact hlt
      · have := h.1 u hr; grind
    · rename_i hnle
      have hlt : t' < t := Rat.not_le.mp hnle
      rw [List.map_cons, List.pairwise_cons]
      refine ⟨?_, ih h.2 hn'⟩
      intro u hu
      rcases (mem_keys_insertRow rest t r u).mp hu with rfl | hr
      · exact hlt
      · exact h.1 u hr

theorem rowsSorted_scaleAdd (rows : List (Rat × Rat)) (t r : Rat) (h : RowsSorted rows) :
    RowsSorted (scaleAdd rows t r) := by
  unfold scaleAdd
  split
  · unfold RowsSorted; rw [keys_bumpRow]; exact h
  · rename_i hn
    exact rowsSorted_insertRow rows t r h (fun c => hn ((any_key_iff rows t).mpr c))

theorem rowVal_of_not_mem (rows : List (Rat × Rat)) (t : Rat) (h : t ∉ rows.map (·.1)) :
    rowVal rows t = 0 := by
  induction rows with
  | nil => rfl
  | cons p rest ih =>
    obtain ⟨t', r'⟩ := p
    simp only [List.map_cons, List.mem_cons, not_or] at h
    simp only [rowVal]
    rw [if_neg (fun c => h.1 c.symm)]
    exact ih h.2

theorem rowVal_bumpRow (rows : List (Rat × Rat)) (t r u : Rat) (h : t ∈ rows.map (·.1)) :
    rowVal (bumpRow rows t r) u = rowVal rows u + (if u = t then r else 0) := by
  induction rows with
  | nil => simp at h
  | cons p rest ih =>
    obtain ⟨t', r'⟩ := p
    simp only [bumpRow]
    by_cases h1 : t' = t
    · rw [if_pos h1]
      simp only [rowVal]
      by_cases h2 : t' = u
      · rw [if_pos h2, if_pos h2, if_pos (show u = t by rw [← h2, h1])]
      · rw [if_neg h2, if_neg h2, if_neg (show ¬ u = t from fun c => h2 (by rw [h1, c])), Rat.add_zero]
    · rw [if_neg h1]
      have hr : t ∈ rest.map (·.1) := by
        simp only [List.map_cons, List.mem_cons] at h
        rcases h with h | h
        · exact absurd h.symm h1
        · exact h
      simp only [rowVal]
      by_cases h2 : t' = u
      · rw [if_pos h2, if_pos h2, if_neg (show ¬ u = t from fun c => h1 (by rw [h2, c])), Rat.add_zero]
      · rw [if_neg h2, if_neg h2]
        exact ih hr

theorem rowVal_insertRow (rows : List (Rat × Rat)) (t r u : Rat) (h : t ∉ rows.map (·.1)) :
    rowVal (insertRow rows t r) u = rowVal rows u + (if u = t then r else 0) := by
  induction rows with
  | nil =>
    simp only [insertRow, rowVal]
    by_cases h1 : t = u
    · rw [if_pos h1, if_pos h1.symm, Rat.zero_add]
    · rw [if_neg h1, if_neg (show ¬ u = t from fun c => h1 c.symm), Rat.add_zero]
  | cons p rest ih =>
    obtain ⟨t', r'⟩ := p
    simp only [List.map_cons, List.mem_cons, not_or] at h
    simp only [insertRow]
    split
    · simp only [rowVal]
      by_cases h1 : t = u
      · rw [if_pos h1, if_pos h1.symm, if_neg (show ¬ t' = u from fun c => h.1 (by rw [h1, c])),
          rowVal_of_not_mem rest u (by rw [← h1]; exact h.2), Rat.zero_add]
      · rw [if_neg h1, if_neg (show ¬ u = t from fun c => h1 c.symm), Rat.add_zero]
    · simp only [rowVal]
      by_cases h2 : t' = u
      · rw [if_pos h2, if_pos h2, if_neg (show ¬ u = t from fun c => h.1 (by rw [← c, h2])), Rat.add_zero]
      · rw [if_neg h2, if_neg h2]
        exact ih h.2

theorem rowVal_scaleAdd (rows : List (Rat × Rat)) (t r u : Rat) :
    rowVal (scaleAdd rows t r) u = rowVal rows u + (if u = t then r else 0) := by
  unfold scaleAdd
  split
  · rename_i h
    exact rowVal_bumpRow rows t r u ((any_key_iff rows t).mp h)
  · rename_i h
    exact rowVal_insertRow rows t r u (fun c => h ((any_key_iff rows t).mpr c))

theorem bracketPair_eq_some (k : ScaleKind) (d : Int) (b : Bracket) (t x : Rat) :
    bracketPair k d b = some (t, x) ↔ pget b.threshold d = some t ∧ pget (b.field k) d = some x := by
  unfold bracketPair
  cases h1 : pget (b.field k) d <;> cases h2 : pget b.threshold d <;> simp

theorem rowsSorted_addAll (k : ScaleKind) (d : Int) (bs : List Bracket) (rows : List (Rat × Rat))
    (h : RowsSorted rows) : RowsSorted (addAll k d bs rows) := by
  induction bs generalizing rows with
  | nil => exact h
  | cons b bs ih =>
    simp only [addAll]
    split
    · exact ih _ (rowsSorted_scaleAdd rows _ _ h)
    · exact ih _ h

theorem mem_keys_addAll (k : ScaleKind) (d : Int) (bs : List Bracket) (rows : List (Rat × Rat)) (u : Rat) :
    u ∈ (addAll k d bs rows).map (·.1) ↔
      u ∈ rows.map (·.1) ∨ ∃ b ∈ bs, ∃ x, bracketPair k d b = some (u, x) := by
  induction bs generalizing rows with
  | nil => simp [addAll]
  | cons b bs ih =>
    simp only [addAll]
    split
    · rename_i t x hp
      rw [ih, mem_keys_scaleAdd]
      constructor
      · rintro ((rfl | h) | ⟨b', hb', x', hx'⟩)
        · exact Or.inr ⟨b, List.mem_cons_self .., x, hp⟩
        · exact Or.inl h
        · exact Or.inr ⟨b', List.mem_cons_of_mem _ hb', x', hx'⟩
      · rintro (h | ⟨b', hb', x', hx'⟩)
        · exact Or.inl (Or.inr h)
        · rcases List.mem_cons.mp hb' with rfl | hr
          · rw [hp] at hx'
            cases hx'
            exact Or.inl (Or.inl rfl)
          · exact Or.inr ⟨b', hr, x', hx'⟩
    · rename_i hp
      rw [ih]
      constructor
      · rintro (h | ⟨b', hb', x', hx'⟩)
        · exact Or.inl h
        · exact Or.inr ⟨b', List.mem_cons_of_mem _ hb', x', hx'⟩
      · rintro (h | ⟨b', hb', x', hx'⟩)
        · exact Or.inl h
        · rcases List.mem_cons.mp hb' with rfl | hr
          · rw [hp] at hx'; cases hx'
          · exact Or.inr ⟨b', hr, x', hx'⟩

theorem rowVal_addAll (k : ScaleKind) (d : Int) (bs : List Bracket) (rows : List (Rat × Rat)) (u : Rat) :
    rowVal (addAll k d bs rows) u = rowVal rows u + contribSum k d bs u := by
  induction bs generalizing rows with
  | nil => simp only [addAll, contribSum, Rat.add_zero]
  | cons b bs ih =>
    simp only [addAll, contribSum]
    split
    · rename_i t x hp
      rw [ih, rowVal_scaleAdd, Rat.add_assoc]
      congr 2
      by_cases h : t = u
      · rw [if_pos h, if_pos h.symm]
      · rw [if_neg h, if_neg (show ¬ u = t from fun c => h c.symm)]
    · rw [ih, Rat.zero_add]

/-! ## Nodes -/

theorem atInstant_isSome (c : PNode V) (d : Int) : (c.atInstant d).isSome = c.definedAt d := by
  cases c with
  | param l => simp [PNode.atInstant, PNode.definedAt]
  | scale m bs => simp [PNode.atInstant, PNode.definedAt]
  | node cs => simp [PNode.atInstant, PNode.definedAt]

theorem mem_childrenAt (cs : List (String × PNode V)) (d : Int) (k : String) (s : Snap V) :
    (k, s) ∈ childrenAt cs d ↔ ∃ c, (k, c) ∈ cs ∧ c.atInstant d = some s := by
  induction cs with
  | nil => simp [childrenAt]
  | cons p r ih =>
    obtain ⟨k', c'⟩ := p
    simp only [childrenAt]
    split
    · rename_i s' hs'
      simp only [List.mem_cons, ih]
      constructor
      · rintro (h | ⟨c, hc, hcs⟩)
        · cases h; exact ⟨c', Or.inl rfl, hs'⟩
        · exact ⟨c, Or.inr hc, hcs⟩
      · rintro ⟨c, hc | hc, hcs⟩
        · cases hc; rw [hs'] at hcs; cases hcs; exact Or.inl rfl
        · exact Or.inr ⟨c, hc, hcs⟩
    · rename_i hs'
      simp only [List.mem_cons, ih]
      constructor
      · rintro ⟨c, hc, hcs⟩; exact ⟨c, Or.inr hc, hcs⟩
      · rintro ⟨c, hc | hc, hcs⟩
        · cases hc; rw [hs'] at hcs; cases hcs
        · exact ⟨c, hc, hcs⟩

theorem keys_childrenAt (cs : List (String × PNode V)) (d : Int) :
    (childrenAt cs d).map (·.1) = (cs.filter (fun p => p.2.definedAt d)).map (·.1) := by
  induction cs with
  | nil => simp [childrenAt]
  | cons p r ih =>
    obtain ⟨k', c'⟩ := p
    have hdef := atInstant_isSome c' d
    simp only [childrenAt]
    split
    · rename_i s' hs'
      rw [hs'] at hdef
      simp only [Option.isSome_some] at hdef
      rw [List.filter_cons_of_pos (by simpa using hdef.symm)]
      simp [ih]
    · rename_i hs'
      rw [hs'] at hdef
      simp only [Option.isSome_none] at hdef
      rw [List.filter_cons_of_neg (by simpa using hdef.symm)]
      exact ih

theorem childrenAt_append (cs₁ cs₂ : List (String × PNode V)) (d : Int) :
    childrenAt (cs₁ ++ cs₂) d = childrenAt cs₁ d ++ childrenAt cs₂ d := by
  induction cs₁ with
  | nil => simp [childrenAt]
  | cons p r ih =>
    obtain ⟨k, c⟩ := p
    simp only [List.cons_append, childrenAt]
    split
    · simp [ih]
    · exact ih

theorem lookup_none_of_not_mem {β : Type} (k : String) (l : List (String × β))
    (h : k ∉ l.map (·.1)) : l.lookup k = none := by
  induction l with
  | nil => rfl
  | cons p r ih =>
    obtain ⟨k', b⟩ := p
    simp only [List.map_cons, List.mem_cons, not_or] at h
    simp only [List.lookup_cons]
    have : (k == k') = false := by simpa using h.1
    rw [this]
    exact ih h.2

/-- access by name (`node_at.name`, `node_at[name]`): the named child's own value at `d`;
    nothing (the access raises) when there is no such child or it is not defined at `d` -/
theorem lookup_childrenAt (cs : List (String × PNode V)) (d : Int) (k : String)
    (hnd : (cs.map (·.1)).Nodup) :
    (childrenAt cs d).lookup k = (cs.lookup k).bind (fun c => c.atInstant d) := by
  induction cs with
  | nil => simp [childrenAt]
  | cons p r ih =>
    obtain ⟨k', c⟩ := p
    rw [List.map_cons, List.nodup_cons] at hnd
    simp only [childrenAt, List.lookup_cons]
    split
    · rename_i s hs
      simp only [List.lookup_cons]
      cases hk : (k == k') with
      | true => simp [hs]
      | false => exact ih hnd.2
    · rename_i hs
      cases hk : (k == k') with
      | true =>
        have hkk : k = k' := by simpa using hk
        have hnone : (childrenAt r d).lookup k = none := by
          apply lookup_none_of_not_mem
          rw [keys_childrenAt, hkk]
          intro hm
          obtain ⟨q, hq, hq1⟩ := List.mem_map.mp hm
          exact hnd.1 (List.mem_map.mpr ⟨q, (List.mem_filter.mp hq).1, hq1⟩)
        simp [hnone, hs]
      | false => exact ih hnd.2

theorem addChild_ok_iff (cs : List (String × PNode V)) (name : String) (c : PNode V) :
    (addChild cs name c = .ok (cs ++ [(name, c)]) ↔ name ∉ cs.map (·.1)) ∧
    ((∃ e, addChild cs name c = .error e) ↔ name ∈ cs.map (·.1)) := by
  have hany : (cs.any (fun p => p.1 == name) = true) ↔ name ∈ cs.map (·.1) := by
    simp only [List.any_eq_true, List.mem_map, beq_iff_eq]
  unfold addChild
  by_cases h : cs.any (fun p => p.1 == name) = true
  · rw [if_pos h]
    constructor
    · constructor
      · intro c'; cases c'
      · intro hn; exact absurd (hany.mp h) hn
    · constructor
      · intro _; exact hany.mp h
      · intro _; exact ⟨_, rfl⟩
  · rw [if_neg h]
    constructor
    · constructor
      · intro _ hm; exact h (hany.mpr hm)
      · intro _; rfl
    · constructor
      · rintro ⟨e, he⟩; cases he
      · intro hm; exact absurd (hany.mpr hm) h

theorem mergeChildren_ok (cs other : List (String × PNode V))
    (hdisj : ∀ k ∈ other.map (·.1), k ∉ cs.map (·.1)) (hnd : (other.map (·.1)).Nodup) :
    mergeChildren cs other = .ok (cs ++ other) := by
  induction other generalizing cs with
  | nil => simp [mergeChildren]
  | cons p rest ih =>
    obtain ⟨k, c⟩ := p
    rw [List.map_cons, List.nodup_cons] at hnd
    have hk : k ∉ cs.map (·.1) := hdisj k (by simp)
    simp only [mergeChildren]
    rw [((addChild_ok_iff cs k c).1).mpr hk]
    simp only []
    rw [ih (cs ++ [(k, c)]) ?_ hnd.2]
    · simp
    · intro k' hk' hm
      simp only [List.map_append, List.map_cons, List.map_nil, List.mem_append, List.mem_singleton] at hm
      rcases hm with hm | hm
      · exact hdisj k' (by simp only [List.map_cons, List.mem_cons]; exact Or.inr hk') hm
      · subst hm; exact hnd.1 hk'


theorem bracketList_length (rat : String → Option Rat) (xs : List Y) (bs : List Bracket)
    (h : bracketList rat xs = .ok bs) : bs.length = xs.length := by
  induction xs generalizing bs with
  | nil => simp only [bracketList] at h; cases h; rfl
  | cons x r ih =>
    simp only [bracketList] at h
    cases hb : bracketOf rat x with
    | error e => rw [hb] at h; cases h
    | ok b =>
      rw [hb] at h
      simp only at h
      cases hr : bracketList rat r with
      | error e => rw [hr] at h; cases h
      | ok bs' =>
        rw [hr] at h
        cases h
        simp only [List.length_cons, ih bs' hr]

/-! ## Absent members and descendants -/

theorem absentAt_keys (name : String) (cs : List (String × PNode V)) (d : Int) :
    (absentAt name cs d).map (·.1) = (cs.filter (fun p => !p.2.definedAt d)).map (·.1) ∧
    ∀ k n, (k, n) ∈ absentAt name cs d → n = composeItem name k := by
  induction cs with
  | nil => exact ⟨rfl, fun k n h => (by cases h)⟩
  | cons p r ih =>
    obtain ⟨k, c⟩ := p
    simp only [absentAt, List.filter_cons]
    by_cases hd : c.definedAt d = true
    · simp only [hd, if_true, Bool.not_true, Bool.false_eq_true, if_false]
      exact ih
    · have hf : c.definedAt d = false := by
        cases hb : c.definedAt d with
        | true => exact absurd hb hd
        | false => rfl
      simp only [hf, Bool.false_eq_true, if_false, Bool.not_false, if_true, List.map_cons, ih.1, true_and]
      intro k' n hm
      rcases List.mem_cons.mp hm with heq | hm'
      · simp only [Prod.mk.injEq] at heq
        obtain ⟨rfl, rfl⟩ := heq; rfl
      · exact ih.2 k' n hm'

theorem length_childrenAt_absentAt (name : String) (cs : List (String × PNode V)) (d : Int) :
    (childrenAt cs d).length + (absentAt name cs d).length = cs.length := by
  induction cs with
  | nil => rfl
  | cons p r ih =>
    obtain ⟨k, c⟩ := p
    have hd := atInstant_isSome c d
    simp only [childrenAt, absentAt]
    cases hc : c.atInstant d with
    | none =>
      rw [hc] at hd
      simp only [Option.isSome_none] at hd
      simp only [← hd, Bool.false_eq_true, if_false, List.length_cons]
      omega
    | some s =>
      rw [hc] at hd
      simp only [Option.isSome_some] at hd
      simp only [← hd, if_true, List.length_cons]
      omega

theorem descAll_append (name : String) (cs₁ cs₂ : List (String × PNode V)) :
    descAll name (cs₁ ++ cs₂) = descAll name cs₁ ++ descAll name cs₂ := by
  induction cs₁ with
  | nil => rfl
  | cons p r ih =>
    obtain ⟨k, c⟩ := p
    simp only [List.cons_append, descAll, ih, List.append_assoc, List.cons_append]

end OFCore.Param
