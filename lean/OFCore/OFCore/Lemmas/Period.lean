import OFCore.PeriodSpec
import OFCore.Lemmas.CalendarArith
/-! # Period lemmas -/
namespace OFCore

theorem chk_ok {c d : Date} (h : chk c = .ok d) : d = c ∧ 1 ≤ c.y ∧ c.y ≤ 9999 := by
  unfold chk at h; split at h
  · injection h with h; exact ⟨h.symm, by assumption⟩
  · cases h

theorem dateOk_iff (c : Date) : dateOk c = true ↔ c.Valid ∧ c.y ≤ 9999 := by
  simp [dateOk]

/-- the day after the period, as a date -/
def Period.afterDate (p : Period) : Date :=
  match p.unit with
  | .year => addMonths p.start (12 * p.size)
  | .month => addMonths p.start p.size
  | .week => addDays p.start (7 * p.size)
  | _ => addDays p.start p.size

theorem hi_eq (p : Period) (h : p.WF) : p.hi = ord p.afterDate - 1 := by
  obtain ⟨hu, hv, hs⟩ := h
  have h1 := ord_pos _ hv
  unfold Period.hi Period.afterDate
  cases hp : p.unit <;> simp only
  · rw [ord_addDays _ _ (by omega)]
  · rw [ord_addDays _ _ (by omega)]
  · rw [ord_addDays _ _ (by omega)]
  · exact absurd hp hu

theorem lo_le_hi (p : Period) (h : p.WF) : p.lo ≤ p.hi := by
  obtain ⟨hu, hv, hs⟩ := h
  unfold Period.hi Period.lo
  cases hp : p.unit <;> simp only
  · omega
  · omega
  · omega
  · have := addMonths_lt p.start p.size hv hs; omega
  · have := addMonths_lt p.start (12 * p.size) hv (by omega); omega
  · exact absurd hp hu

theorem bind_ok {α β} {x : Except String α} {f : α → Except String β} {b : β}
    (h : (x >>= f) = .ok b) : ∃ a, x = .ok a ∧ f a = .ok b := by
  cases x with
  | error e => cases h
  | ok a => exact ⟨a, rfl, h⟩

theorem stop_days_aux (c s : Date) (k : Int) (hv : c.Valid) (hk : 0 ≤ k)
    (hs : chk (addDays c k) = .ok s) : s.Valid ∧ ord s = ord c + k := by
  have h1 := ord_pos _ hv
  obtain ⟨rfl, _⟩ := chk_ok hs
  exact ⟨addDays_valid _ _ (by omega), ord_addDays _ _ (by omega)⟩

theorem stop_months_aux (c s : Date) (k : Int) (hv : c.Valid) (hk : 1 ≤ k)
    (hs : (chk (addMonths c k) >>= fun a => chk (addDays a (-1))) = .ok s) :
    s.Valid ∧ ord s = ord (addMonths c k) - 1 := by
  have h1 := ord_pos _ hv
  obtain ⟨a, ha, hs⟩ := bind_ok hs
  obtain ⟨rfl, _⟩ := chk_ok ha
  obtain ⟨rfl, _⟩ := chk_ok hs
  have := addMonths_lt c k hv hk
  exact ⟨addDays_valid _ _ (by omega), by rw [ord_addDays _ _ (by omega)]; omega⟩

theorem stop_spec (p : Period) (h : p.WF) (s : Date) (hs : p.stop = .ok s) :
    s.Valid ∧ ord s = p.hi := by
  obtain ⟨hu, hv, hsz⟩ := h
  unfold Period.stop at hs
  unfold Period.hi
  cases hp : p.unit <;> simp only [hp] at hs ⊢
  · split at hs
    · have := stop_days_aux _ _ _ hv (by omega) hs; exact ⟨this.1, by omega⟩
    · cases hs
  · split at hs
    · have := stop_days_aux _ _ _ hv (by omega) hs; exact ⟨this.1, by omega⟩
    · cases hs
  · split at hs
    · have := stop_days_aux _ _ _ hv (by omega) hs; exact ⟨this.1, by omega⟩
    · cases hs
  · split at hs
    · exact stop_months_aux _ _ _ hv hsz hs
    · cases hs
  · split at hs
    · exact stop_months_aux _ _ _ hv (by omega) hs
    · cases hs
  · exact absurd hp hu

end OFCore

namespace OFCore

theorem map_some_ok {x : Except String Date} {r : Option Date} (h : x.map some = .ok r) :
    ∃ d, x = .ok d ∧ r = some d := by
  cases x with
  | error e => cases h
  | ok d => injection h with h; exact ⟨d, rfl, h.symm⟩

/-- numeric instant offsets, characterised -/
theorem instOffset_n_ok (c : Date) (k : Int) (u : DUnit) (r : Option Date)
    (h : instOffset c (.n k) u = .ok r) :
    c.Valid ∧ ∃ d, r = some d ∧ 1 ≤ d.y ∧ d.y ≤ 9999 ∧
      d = shiftDate c k u := by
  unfold instOffset at h
  split at h
  · cases h
  · simp only at h
    split at h
    · cases h
    · rename_i hok
      have hv : c.Valid := by
        have : dateOk c = true := by simpa using hok
        exact ((dateOk_iff c).1 this).1
      refine ⟨hv, ?_⟩
      have key : ∀ x : Date, (chk x).map some = .ok r →
          ∃ d, r = some d ∧ 1 ≤ d.y ∧ d.y ≤ 9999 ∧ d = x := by
        intro x hx
        obtain ⟨d, hd, hr⟩ := map_some_ok hx
        obtain ⟨hdx, h1, h2⟩ := chk_ok hd
        exact ⟨d, hr, by rw [hdx]; exact h1, by rw [hdx]; exact h2, hdx⟩
      cases u
      · exact key _ h
      · exact key _ h
      · exact key _ h
      · exact key _ h
      · exact key _ h
      · rename_i hne; exact absurd rfl hne

theorem spanDays_spec (p : Period) (h : p.WF) (hu : p.unit = .year ∨ p.unit = .month) (k : Int)
    (hk : p.spanDays = .ok k) : k = p.hi - p.lo + 1 := by
  obtain ⟨_, hv, hsz⟩ := h
  unfold Period.spanDays at hk
  cases hr : instOffset p.start (.n p.size) p.unit with
  | error e => rw [hr] at hk; cases hk
  | ok r =>
    rw [hr] at hk
    obtain ⟨_, last, hrl, _, _, hlast⟩ := instOffset_n_ok _ _ _ _ hr
    subst hrl
    simp only [bind, Except.bind] at hk
    cases hr2 : instOffset last (.n (-1)) .day with
    | error e => rw [hr2] at hk; cases hk
    | ok r2 =>
      rw [hr2] at hk
      obtain ⟨hlv, ld, hrl2, _, _, hld⟩ := instOffset_n_ok _ _ _ _ hr2
      subst hrl2
      have hld : ld = addDays last (-1) := hld
      simp only at hk
      injection hk with hk
      subst hk
      have h1 := ord_pos _ hv
      unfold Period.hi Period.lo
      rcases hu with hu | hu <;> rw [hu] at hlast <;> simp only [hu]
      · have hlast : last = addMonths p.start (12 * p.size) := hlast
        have := addMonths_lt p.start (12 * p.size) hv (by omega)
        rw [hld, ord_addDays _ _ (by rw [hlast]; omega), hlast]; omega
      · have hlast : last = addMonths p.start p.size := hlast
        have := addMonths_lt p.start p.size hv hsz
        rw [hld, ord_addDays _ _ (by rw [hlast]; omega), hlast]; omega

end OFCore

namespace OFCore

theorem ord_max' (a b : Date) (ha : a.Valid) (hb : b.Valid) :
    (Date.max' a b).Valid ∧ ord (Date.max' a b) = max (ord a) (ord b) := by
  unfold Date.max'
  split
  · rename_i h; have := (lt_iff_ord_lt a b ha hb).1 h; exact ⟨hb, by omega⟩
  · rename_i h; have := mt (lt_iff_ord_lt a b ha hb).2 h; exact ⟨ha, by omega⟩

theorem ord_min' (a b : Date) (ha : a.Valid) (hb : b.Valid) :
    (Date.min' a b).Valid ∧ ord (Date.min' a b) = min (ord a) (ord b) := by
  unfold Date.min'
  split
  · rename_i h; have := (lt_iff_ord_lt b a hb ha).1 h; exact ⟨hb, by omega⟩
  · rename_i h; have := mt (lt_iff_ord_lt b a hb ha).2 h; exact ⟨ha, by omega⟩

theorem ord_jan1_succ (y : Int) : ord ⟨y + 1, 1, 1⟩ = ord ⟨y, 12, 31⟩ + 1 := by
  simp only [ord]
  rw [dby_succ]
  have h1 : ∀ l, dbm l 1 = 0 := by intro l; cases l <;> decide
  have h12 := dbm_12 (isLeap y)
  have hd : ∀ l, dimL l 12 = 31 := by intro l; cases l <;> decide
  rw [h1, ← h12, hd]; omega

/-- a year period starting 1 January covering `n` civil years ends on 31 December -/
theorem hi_year_jan (y n : Int) : (Period.mk .year ⟨y, 1, 1⟩ n).hi = ord ⟨y + n - 1, 12, 31⟩ := by
  simp only [Period.hi]
  rw [addMonths_first _ _ rfl]
  have e1 : (y * 12 + (1 - 1) + 12 * n) / 12 = (y + n - 1) + 1 := by omega
  have e2 : (y * 12 + (1 - 1) + 12 * n) % 12 + 1 = 1 := by omega
  simp only [e1, e2]
  rw [ord_jan1_succ]; omega

/-- a month period starting on the first of a month and ending with month `(y2, m2)` -/
theorem hi_month_first (y1 m1 y2 m2 : Int) (h2 : 1 ≤ m2 ∧ m2 ≤ 12) (hy : 1 ≤ y2) :
    (Period.mk .month ⟨y1, m1, 1⟩ ((y2 - y1) * 12 + m2 - m1 + 1)).hi = ord ⟨y2, m2, dim y2 m2⟩ := by
  simp only [Period.hi]
  have hv : (Date.mk y2 m2 1).Valid := ⟨hy, h2.1, h2.2, by simp only; omega, by have := dim_ge y2 m2; simp only; omega⟩
  have key : addMonths ⟨y1, m1, 1⟩ ((y2 - y1) * 12 + m2 - m1 + 1) = addMonths ⟨y2, m2, 1⟩ 1 := by
    rw [addMonths_first _ _ rfl, addMonths_first _ _ rfl]
    simp only
    congr 1 <;> omega
  rw [key, ord_addMonths_one _ hv rfl]
  simp only [ord]; omega

end OFCore

namespace OFCore

/-- dates reachable by shifting a valid (month-aligned for month/year) date forward stay valid -/
theorem shiftDate_valid (s : Date) (hv : s.Valid) (i : Int) (hi : 0 ≤ i) (u : DUnit) :
    (shiftDate s i u).Valid := by
  have h1 := ord_pos _ hv
  have hy := hv.1; have hm1 := hv.2.1; have hm2 := hv.2.2.1
  cases u <;> simp only [shiftDate]
  · exact addDays_valid _ _ (by omega)
  · exact addDays_valid _ _ (by omega)
  · exact addDays_valid _ _ (by omega)
  · refine addMonths_valid _ _ hv ?_
    have := (addMonths_ym s i).1; have := (addMonths_ym s i).2; omega
  · refine addMonths_valid _ _ hv ?_
    have := (addMonths_ym s (12 * i)).1; have := (addMonths_ym s (12 * i)).2; omega
  · exact addDays_valid _ _ (by omega)

/-- one more unit after `i` units is `i + 1` units (months and years: from the first of a month) -/
theorem ord_shift_succ (s : Date) (hv : s.Valid) (i : Int) (hi : 0 ≤ i) (u : DUnit)
    (hal : (u = .month ∨ u = .year) → s.d = 1) :
    ord (shiftDate (shiftDate s i u) 1 u) = ord (shiftDate s (i + 1) u) := by
  have h1 := ord_pos _ hv
  cases u <;> simp only [shiftDate]
  · rw [ord_addDays _ _ (by rw [ord_addDays _ _ (by omega)]; omega), ord_addDays _ _ (by omega), ord_addDays _ _ (by omega)]; omega
  · rw [ord_addDays _ _ (by rw [ord_addDays _ _ (by omega)]; omega), ord_addDays _ _ (by omega), ord_addDays _ _ (by omega)]; omega
  · rw [ord_addDays _ _ (by rw [ord_addDays _ _ (by omega)]; omega), ord_addDays _ _ (by omega), ord_addDays _ _ (by omega)]; omega
  · rw [addMonths_addMonths_first _ _ _ (hal (Or.inl rfl))]
  · rw [addMonths_addMonths_first _ _ _ (hal (Or.inr rfl))]
    have : 12 * i + 12 * 1 = 12 * (i + 1) := by omega
    rw [this]
  · rw [ord_addDays _ _ (by rw [ord_addDays _ _ (by omega)]; omega), ord_addDays _ _ (by omega), ord_addDays _ _ (by omega)]; omega

theorem ord_shift_lt (s : Date) (hv : s.Valid) (i : Int) (hi : 0 ≤ i) (u : DUnit) :
    ord (shiftDate s i u) < ord (shiftDate (shiftDate s i u) 1 u) := by
  have hv' := shiftDate_valid s hv i hi u
  have h1 := ord_pos _ hv'
  generalize shiftDate s i u = c at *
  cases u <;> simp only [shiftDate]
  · rw [ord_addDays _ _ (by omega)]; omega
  · rw [ord_addDays _ _ (by omega)]; omega
  · rw [ord_addDays _ _ (by omega)]; omega
  · exact addMonths_lt _ _ hv' (by omega)
  · exact addMonths_lt _ _ hv' (by omega)
  · rw [ord_addDays _ _ (by omega)]; omega

/-- the period of one unit starting at `c` -/
theorem unit_period_hi (c : Date) (hv : c.Valid) (u : DUnit) (hu : u ≠ .eternity) :
    (Period.mk u c 1).hi = ord (shiftDate c 1 u) - 1 := by
  have h1 := ord_pos _ hv
  cases u <;> simp only [Period.hi, shiftDate]
  · rw [ord_addDays _ _ (by omega)]
  · rw [ord_addDays _ _ (by omega)]
  · rw [ord_addDays _ _ (by omega)]
  · exact absurd rfl hu

theorem offset_n_ok (b : Period) (i : Int) (uo : Option DUnit) (q : Period)
    (h : b.offset (.n i) uo = .ok q) :
    b.start.Valid ∧ q = ⟨b.unit, shiftDate b.start i (uo.getD b.unit), b.size⟩ := by
  unfold Period.offset at h
  cases hr : instOffset b.start (.n i) (uo.getD b.unit) with
  | error e => rw [hr] at h; cases h
  | ok r =>
    rw [hr] at h
    obtain ⟨hv, d, hrd, _, _, hd⟩ := instOffset_n_ok _ _ _ _ hr
    subst hrd
    simp only [bind, Except.bind] at h
    injection h with h
    exact ⟨hv, by rw [← h, hd]⟩

/-- `[base.offset(i, u) for i in range(start, start+len)]` tiles the interval it spans -/
theorem tiles_range' (s : Date) (hv : s.Valid) (u : DUnit) (hu : u ≠ .eternity)
    (hal : (u = .month ∨ u = .year) → s.d = 1) :
    ∀ (len start : Nat) (qs : List Period),
      (List.range' start len).mapM (fun (i : Nat) => (Period.mk u s 1).offset (.n (Int.ofNat i)) (some u)) = .ok qs →
      Tiles qs (ord (shiftDate s start u)) (ord (shiftDate s (start + len : Nat) u) - 1) ∧
      ∀ q ∈ qs, q.unit = u ∧ q.size = 1 := by
  intro len
  induction len with
  | zero =>
    intro start qs h
    simp only [List.range'_zero, List.mapM_nil, pure, Except.pure] at h
    injection h with h; subst h
    simp only [Tiles, Nat.add_zero]
    exact ⟨by omega, by intro q hq; cases hq⟩
  | succ len ih =>
    intro start qs h
    simp only [List.range'_succ, List.mapM_cons] at h
    cases hq : (Period.mk u s 1).offset (.n (Int.ofNat start)) (some u) with
    | error e => rw [hq] at h; cases h
    | ok q =>
      rw [hq] at h
      simp only [bind, Except.bind] at h
      cases hrest : (List.range' (start + 1) len).mapM (fun (i : Nat) => (Period.mk u s 1).offset (.n (Int.ofNat i)) (some u)) with
      | error e => rw [hrest] at h; cases h
      | ok rest =>
        rw [hrest] at h
        simp only [pure, Except.pure] at h
        injection h with h; subst h
        obtain ⟨_, hqe⟩ := offset_n_ok _ _ _ _ hq
        simp only [Option.getD_some] at hqe
        obtain ⟨ihT, ihU⟩ := ih (start + 1) rest hrest
        have hpos : (0 : Int) ≤ Int.ofNat start := Int.natCast_nonneg start
        have hqlo : q.lo = ord (shiftDate s (Int.ofNat start) u) := by rw [hqe]; rfl
        have hqhi : q.hi = ord (shiftDate s (Int.ofNat start + 1) u) - 1 := by
          rw [hqe, unit_period_hi _ (shiftDate_valid s hv _ hpos u) u hu, ord_shift_succ s hv _ hpos u hal]
        have hlt := ord_shift_lt s hv _ hpos u
        rw [ord_shift_succ s hv _ hpos u hal] at hlt
        refine ⟨?_, ?_⟩
        · simp only [Tiles]
          refine ⟨hqlo, by omega, ?_⟩
          have e1 : q.hi + 1 = ord (shiftDate s ((start + 1 : Nat) : Int) u) := by
            rw [hqhi]; simp only [Int.ofNat_eq_natCast, Int.natCast_add, Int.cast_ofNat_Int]; omega
          have e2 : ((start + (len + 1) : Nat) : Int) = ((start + 1 + len : Nat) : Int) := by omega
          rw [e1, e2]; exact ihT
        · intro q' hq'
          rcases List.mem_cons.1 hq' with rfl | hq'
          · rw [hqe]; exact ⟨rfl, rfl⟩
          · exact ihU q' hq'

/-! ## tilings compose; day tilings are unique; pieces of `offsetsFrom` -/

theorem valid_first (y m : Int) (hy : 1 ≤ y) (hm1 : 1 ≤ m) (hm12 : m ≤ 12) : (Date.mk y m 1).Valid :=
  ⟨hy, hm1, hm12, by simp only; omega, by have := dim_ge y m; simp only; omega⟩

theorem ord_month_day (c : Date) : ord c = ord ⟨c.y, c.m, 1⟩ + (c.d - 1) := by
  simp only [ord]; omega

theorem ord_endOfWeek (c : Date) (h : 1 ≤ ord c - weekday0 (ord c)) :
    ord (endOfWeek c) = ord c - weekday0 (ord c) + 6 := ord_ofOrd _ (by omega)

theorem tiles_append : ∀ (as bs : List Period) (lo mid hi : Int),
    Tiles as lo mid → Tiles bs (mid + 1) hi → Tiles (as ++ bs) lo hi := by
  intro as
  induction as with
  | nil => intro bs lo mid hi ha hb; simp only [Tiles] at ha; rw [ha]; exact hb
  | cons a as ih =>
    intro bs lo mid hi ha hb
    obtain ⟨h1, h2, h3⟩ := ha
    exact ⟨h1, h2, ih bs _ mid hi h3 hb⟩

theorem tiles_le : ∀ (qs : List Period) (lo hi : Int), Tiles qs lo hi → lo ≤ hi + 1 := by
  intro qs
  induction qs with
  | nil => intro lo hi h; simp only [Tiles] at h; omega
  | cons q qs ih =>
    intro lo hi h
    obtain ⟨h1, h2, h3⟩ := h
    have := ih _ _ h3
    omega

/-- tilings compose: replacing every piece of a tiling by a tiling of that piece tiles the whole -/
theorem tiles_flatten : ∀ (qs : List Period) (dss : List (List Period)) (lo hi : Int),
    Tiles qs lo hi → Piecewise (fun q ds => Tiles ds q.lo q.hi) qs dss → Tiles dss.flatten lo hi := by
  intro qs
  induction qs with
  | nil =>
    intro dss lo hi ht hf
    cases dss with
    | nil => simpa using ht
    | cons _ _ => cases hf
  | cons q qs ih =>
    intro dss lo hi ht hf
    cases dss with
    | nil => cases hf
    | cons ds dss =>
      obtain ⟨hq, hrest⟩ := hf
      obtain ⟨h1, _, h3⟩ := ht
      simp only [List.flatten_cons]
      rw [← h1]
      exact tiles_append _ _ _ _ _ hq (ih _ _ _ h3 hrest)

/-- a one-day piece named by its ordinal -/
def IsDayPiece (q : Period) : Prop := q.unit = .day ∧ q.size = 1 ∧ q.start = ofOrd q.lo

theorem tiles_days_unique : ∀ (as bs : List Period) (lo hi : Int), Tiles as lo hi → Tiles bs lo hi →
    (∀ q ∈ as, IsDayPiece q) → (∀ q ∈ bs, IsDayPiece q) → as = bs := by
  intro as
  induction as with
  | nil =>
    intro bs lo hi ha hb _ hB
    cases bs with
    | nil => rfl
    | cons b bs =>
      simp only [Tiles] at ha
      obtain ⟨h1, h2, h3⟩ := hb
      obtain ⟨hu, hs, _⟩ := hB b List.mem_cons_self
      have : b.hi = b.lo := by simp only [Period.hi, Period.lo, hu, hs]; omega
      have := tiles_le _ _ _ h3
      omega
  | cons a as ih =>
    intro bs lo hi ha hb hA hB
    obtain ⟨ha1, ha2, ha3⟩ := ha
    obtain ⟨hau, has, hast⟩ := hA a List.mem_cons_self
    have hahi : a.hi = a.lo := by simp only [Period.hi, Period.lo, hau, has]; omega
    cases bs with
    | nil => simp only [Tiles] at hb; have := tiles_le _ _ _ ha3; omega
    | cons b bs =>
      obtain ⟨hb1, hb2, hb3⟩ := hb
      obtain ⟨hbu, hbs, hbst⟩ := hB b List.mem_cons_self
      have hbhi : b.hi = b.lo := by simp only [Period.hi, Period.lo, hbu, hbs]; omega
      have hab : a = b := by
        obtain ⟨au, ast, an⟩ := a
        obtain ⟨bu, bst, bn⟩ := b
        simp only at hau has hast hbu hbs hbst
        subst hau has hbu hbs
        have : ast = bst := by rw [hast, hbst, ha1, hb1]
        rw [this]
      subst hab
      congr 1
      exact ih bs _ hi ha3 hb3 (fun q hq => hA q (List.mem_cons_of_mem _ hq)) (fun q hq => hB q (List.mem_cons_of_mem _ hq))

theorem mapM_mem_ok {α β : Type} (f : α → Except String β) : ∀ (xs : List α) (ys : List β),
    xs.mapM f = .ok ys → ∀ y ∈ ys, ∃ x ∈ xs, f x = .ok y := by
  intro xs
  induction xs with
  | nil =>
    intro ys h y hy
    simp only [List.mapM_nil, pure, Except.pure] at h
    injection h with h; subst h; cases hy
  | cons x xs ih =>
    intro ys h y hy
    simp only [List.mapM_cons] at h
    cases hx : f x with
    | error e => rw [hx] at h; cases h
    | ok y0 =>
      rw [hx] at h
      simp only [bind, Except.bind] at h
      cases hr : xs.mapM f with
      | error e => rw [hr] at h; cases h
      | ok rest =>
        rw [hr] at h
        simp only [pure, Except.pure] at h
        injection h with h; subst h
        rcases List.mem_cons.1 hy with rfl | hy
        · exact ⟨x, List.mem_cons_self, hx⟩
        · obtain ⟨x', hx', hfx⟩ := ih rest hr y hy
          exact ⟨x', List.mem_cons_of_mem _ hx', hfx⟩

/-- every element of `[base.offset(i, unit) for i in range(n)]` is the base moved forward -/
theorem offsetsFrom_pieces (b : Period) (u : DUnit) (n : Int) (qs : List Period)
    (h : offsetsFrom b u n = .ok qs) :
    ∀ q ∈ qs, b.start.Valid ∧ ∃ i : Nat, q = ⟨b.unit, shiftDate b.start i u, b.size⟩ := by
  intro q hq
  unfold offsetsFrom at h
  obtain ⟨i, _, hi⟩ := mapM_mem_ok _ _ _ h q hq
  obtain ⟨hv, he⟩ := offset_n_ok _ _ _ _ hi
  exact ⟨hv, i, by simpa using he⟩

theorem Piecewise.imp {R R' : Period → List Period → Prop} : ∀ (qs : List Period) (dss : List (List Period)),
    (∀ q ∈ qs, ∀ ds, R q ds → R' q ds) → Piecewise R qs dss → Piecewise R' qs dss := by
  intro qs
  induction qs with
  | nil => intro dss _ h; cases dss with
    | nil => trivial
    | cons _ _ => cases h
  | cons q qs ih =>
    intro dss himp h
    cases dss with
    | nil => cases h
    | cons ds dss =>
      exact ⟨himp q List.mem_cons_self ds h.1, ih dss (fun q' hq' => himp q' (List.mem_cons_of_mem _ hq')) h.2⟩

theorem Piecewise.flatten_all {R : Period → List Period → Prop} {P : Period → Prop} :
    ∀ (qs : List Period) (dss : List (List Period)),
    (∀ q ∈ qs, ∀ ds, R q ds → ∀ x ∈ ds, P x) → Piecewise R qs dss → ∀ x ∈ dss.flatten, P x := by
  intro qs
  induction qs with
  | nil => intro dss _ h x hx; cases dss with
    | nil => cases hx
    | cons _ _ => cases h
  | cons q qs ih =>
    intro dss himp h x hx
    cases dss with
    | nil => cases h
    | cons ds dss =>
      simp only [List.flatten_cons, List.mem_append] at hx
      rcases hx with hx | hx
      · exact himp q List.mem_cons_self ds h.1 x hx
      · exact ih dss (fun q' hq' => himp q' (List.mem_cons_of_mem _ hq')) h.2 x hx

end OFCore
