import OFCore.Lemmas.HeapTidy
/-!
# Families of simulations: any number of clones, clones of clones, any history
-/
set_option linter.unusedSimpArgs false
namespace OFCore.Heap
open HM

/-- the simulations live in pairwise distinct existing regions, each closed and tidy -/
structure Separate (h : Heap) (sims : List Id) : Prop where
  distinct : sims.Pairwise (fun a b => a.reg ≠ b.reg)
  ok : ∀ x ∈ sims, x.reg < h.length ∧ Closed x.reg h ∧ Tidy x.reg h

theorem Tidy.wellFormed {h : Heap} {x : Id} (c : Closed x.reg h) (t : Tidy x.reg h) : WellFormed h x ∧ MemoryBacked h x := by
  obtain ⟨xr, xi⟩ := x
  refine ⟨⟨c, fun so hs => (t.1 xi so hs).2.2.1, fun so po m hs hp hm => ?_, fun so po hs hp => ((t.1 xi so hs).2.2.2 po hp).2⟩,
    ⟨fun q ho hq hg => ?_, fun so hs => (t.1 xi so hs).2.1⟩⟩
  · rw [((t.1 xi so hs).2.2.2 po hp).1] at hm
    cases hm
  · obtain ⟨qr, qi⟩ := q
    simp only at hq
    subst hq
    exact t.2 qi ho hg

/-- a call on one simulation of a separate family: the family stays separate, the other regions are untouched -/
theorem step_separate (sys : Sys) (fuel : Nat) {h : Heap} {sims : List Id} (sp : Separate h sims) {x : Id}
    (hx : x ∈ sims) (op : Op) : Separate (step sys fuel x op h).2 sims := by
  have L := step_loc sys fuel (x := x) rfl op
  have K := step_keep sys fuel (x := x) rfl op
  obtain ⟨lx, cx, tx⟩ := sp.ok x hx
  have fr := L.frame h cx
  have kp := K h cx tx
  have hl := L.len h cx
  refine ⟨sp.distinct, fun y hy => ?_⟩
  obtain ⟨ly, cy, ty⟩ := sp.ok y hy
  by_cases e : y.reg = x.reg
  · rw [e]
    exact ⟨by rw [hl]; exact lx, kp.1, kp.2.1⟩
  · have same := (fr.2.1 y.reg e).symm
    exact ⟨by rw [hl]; exact ly, cy.congr same, ty.congr cy same⟩

theorem pairwise_mem_ne {sims : List Id} (d : sims.Pairwise (fun a b => a.reg ≠ b.reg)) {i j : Nat} {x y : Id}
    (hi : sims[i]? = some x) (hj : sims[j]? = some y) (hne : i ≠ j) : x.reg ≠ y.reg := by
  induction d generalizing i j with
  | nil => simp at hi
  | @cons a l ha _ ih =>
    cases i with
    | zero =>
      cases j with
      | zero => exact absurd rfl hne
      | succ j =>
        simp only [List.getElem?_cons_zero, Option.some.injEq] at hi
        simp only [List.getElem?_cons_succ] at hj
        subst hi
        exact ha y (List.mem_of_getElem? hj)
    | succ i =>
      cases j with
      | zero =>
        simp only [List.getElem?_cons_zero, Option.some.injEq] at hj
        simp only [List.getElem?_cons_succ] at hi
        subst hj
        exact fun e => ha x (List.mem_of_getElem? hi) e.symm
      | succ j =>
        simp only [List.getElem?_cons_succ] at hi hj
        exact ih hi hj (fun e => hne (by rw [e]))

/-- calls on a separate family against the calls of one member alone: its region, hence everything observable
from it, and the answers to its calls are the same -/
theorem family_agree (sys : Sys) (fuel : Nat) (sims : List Id) (d : sims.Pairwise (fun a b => a.reg ≠ b.reg))
    (j : Nat) (x : Id) (hj : sims[j]? = some x) :
    ∀ (calls : List (Nat × Op)) (hi ha : Heap), (∀ y ∈ sims, Closed y.reg hi) → hi[x.reg]? = ha[x.reg]? →
      (runCalls sys fuel sims calls hi)[x.reg]? = (runSide sys fuel x (calls.filterMap (callsOf j)) ha)[x.reg]?
      ∧ Closed x.reg (runCalls sys fuel sims calls hi)
      ∧ resultsCalls sys fuel sims j calls hi = resultsSide sys fuel x (calls.filterMap (callsOf j)) ha := by
  intro calls
  induction calls with
  | nil => intro hi ha cl e; exact ⟨e, cl x (List.mem_of_getElem? hj), rfl⟩
  | cons a rest ih =>
    intro hi ha cl e
    obtain ⟨i, op⟩ := a
    cases hs : sims[i]? with
    | none =>
      have hne : i ≠ j := by rintro rfl; rw [hj] at hs; cases hs
      simp only [runCalls, resultsCalls, hs, List.filterMap_cons, callsOf, hne, if_false]
      exact ih hi ha cl e
    | some y =>
      have hy : y ∈ sims := List.mem_of_getElem? hs
      have L := step_loc sys fuel (x := y) rfl op
      have fr := L.frame hi (cl y hy)
      have cl' : ∀ z ∈ sims, Closed z.reg (step sys fuel y op hi).2 := by
        intro z hz
        by_cases ez : z.reg = y.reg
        · rw [ez]; exact fr.1
        · exact (cl z hz).congr (fr.2.1 z.reg ez).symm
      by_cases hij : i = j
      · subst hij
        rw [hj] at hs
        cases hs
        have lc := L.loc hi ha (cl x hy) e
        have := ih _ (step sys fuel x op ha).2 cl' lc.2.symm
        simp only [runCalls, resultsCalls, hj, List.filterMap_cons, callsOf, if_true, runSide, resultsSide]
        exact ⟨this.1, this.2.1, by rw [this.2.2, lc.1]⟩
      · have hr : y.reg ≠ x.reg := pairwise_mem_ne d hs hj hij
        have keep : (step sys fuel y op hi).2[x.reg]? = hi[x.reg]? := fr.2.1 _ (Ne.symm hr)
        have := ih _ ha cl' (keep.trans e)
        simp only [runCalls, resultsCalls, hs, List.filterMap_cons, callsOf, hij, if_false]
        exact this

/-! ## arbitrary region-local computations on a family -/

/-- the heap after computations addressed to members of a family (by rank) -/
def runFamilyAny {α : Type} : List (Nat × HM α) → Heap → Heap
  | [], h => h
  | (_, m) :: rest, h => runFamilyAny rest (m h).2

def resultsFamilyAny {α : Type} (j : Nat) : List (Nat × HM α) → Heap → List (Except Err α)
  | [], _ => []
  | (i, m) :: rest, h => if i = j then (m h).1 :: resultsFamilyAny j rest (m h).2 else resultsFamilyAny j rest (m h).2

def ofRankAny {α : Type} (j : Nat) (e : Nat × HM α) : Option (HM α) := if e.1 = j then some e.2 else none

/-- frame rule + induction for any number of simulations: computations that are each local to the region of the
member they are addressed to, against the computations of member `j` alone -/
theorem family_any_agree {α : Type} (sims : List Id) (d : sims.Pairwise (fun a b => a.reg ≠ b.reg))
    (j : Nat) (x : Id) (hj : sims[j]? = some x) :
    ∀ (calls : List (Nat × HM α)),
      (∀ e ∈ calls, ∃ y, sims[e.1]? = some y ∧ Loc y.reg e.2 (fun _ => True)) →
      ∀ (hi ha : Heap), (∀ y ∈ sims, Closed y.reg hi) → hi[x.reg]? = ha[x.reg]? →
      (runFamilyAny calls hi)[x.reg]? = (runAnySide (calls.filterMap (ofRankAny j)) ha)[x.reg]?
      ∧ (∀ y ∈ sims, Closed y.reg (runFamilyAny calls hi))
      ∧ resultsFamilyAny j calls hi = resultsAnySide (calls.filterMap (ofRankAny j)) ha := by
  intro calls
  induction calls with
  | nil => intro _ hi ha cl e; exact ⟨e, cl, rfl⟩
  | cons a rest ih =>
    intro hloc hi ha cl e
    obtain ⟨i, m⟩ := a
    obtain ⟨y, hs, L⟩ := hloc (i, m) (List.mem_cons_self ..)
    have hrest : ∀ e ∈ rest, ∃ y, sims[e.1]? = some y ∧ Loc y.reg e.2 (fun _ => True) :=
      fun e he => hloc e (List.mem_cons_of_mem _ he)
    have hy : y ∈ sims := List.mem_of_getElem? hs
    have fr := L.frame hi (cl y hy)
    have cl' : ∀ z ∈ sims, Closed z.reg (m hi).2 := by
      intro z hz
      by_cases ez : z.reg = y.reg
      · rw [ez]; exact fr.1
      · exact (cl z hz).congr (fr.2.1 z.reg ez).symm
    by_cases hij : i = j
    · subst hij
      simp only at hs
      rw [hj] at hs
      cases hs
      have lc := L.loc hi ha (cl x hy) e
      have := ih hrest _ (m ha).2 cl' lc.2.symm
      simp only [runFamilyAny, resultsFamilyAny, List.filterMap_cons, ofRankAny, if_true, runAnySide, resultsAnySide]
      exact ⟨this.1, this.2.1, by rw [this.2.2, lc.1]⟩
    · have hr : y.reg ≠ x.reg := pairwise_mem_ne d hs hj hij
      have keep : (m hi).2[x.reg]? = hi[x.reg]? := fr.2.1 _ (Ne.symm hr)
      have := ih hrest _ ha cl' (keep.trans e)
      simp only [runFamilyAny, resultsFamilyAny, List.filterMap_cons, ofRankAny, hij, if_false]
      exact this

/-- cloning a member of a separate family: the family with the clone is separate -/
theorem clone_separate {h h' : Heap} {sims : List Id} (sp : Separate h sims) {x c : Id} {t d : Bool}
    (hx : x ∈ sims) (hc : cloneSim x t d h = (.ok c, h')) : Separate h' (sims ++ [c]) := by
  obtain ⟨lx, cx, tx⟩ := sp.ok x hx
  have sc := cloneSim_spec cx hc
  obtain ⟨so, persons', groups', trc, inv, a1, a2, a3, a4, a5, a6, a7, a8, a9⟩ := sc.ex
  obtain ⟨wf, mb⟩ := Tidy.wellFormed cx tx
  have all := a9 mb.noDisk (mb.noDir so a1) (fun po m hpo hm => wf.plain so po m a1 hpo hm)
  have hlen : h'.length = h.length + 1 := by
    -- region `h.length` exists in `h'` (it holds `c`), and nothing exists beyond it
    have hlt := reg_lt_of_get? a2
    rw [sc.reg] at hlt
    have hnone : h'[h.length + 1]? = none := by
      rw [sc.others (h.length + 1) (by omega)]
      exact List.getElem?_eq_none (by omega)
    have hge : h'.length ≤ h.length + 1 := List.getElem?_eq_none_iff.mp hnone
    omega
  have old : ∀ y ∈ sims, y.reg < h'.length ∧ Closed y.reg h' ∧ Tidy y.reg h' := by
    intro y hy
    obtain ⟨ly, cy, ty⟩ := sp.ok y hy
    have same := (sc.others y.reg (Nat.ne_of_lt ly)).symm
    exact ⟨by omega, cy.congr same, ty.congr cy same⟩
  have cc : Closed c.reg h' := fun i y hy => (all i y hy).1
  have tc : Tidy c.reg h' := by
    have tidy_so := tx
    obtain ⟨xr, xi⟩ := x
    obtain ⟨m1, m2, m3, m4⟩ := tx.1 xi so a1
    refine ⟨fun i s2 hs => ?_, fun i ho hh => ?_⟩
    · by_cases e : (⟨c.reg, i⟩ : Id) = c
      · rw [e, a2] at hs
        cases hs
        refine ⟨m1, m2, by simp [alGet], fun po hpo => ?_⟩
        simp only at hpo
        obtain ⟨_, po0, hs0, members, b1, b2, b3, b4, b5, b6⟩ := a7
        simp only at b5
        rw [b5] at hpo
        cases hpo
        have hplain := (m4 po0 b1).1
        rcases b4 with ⟨_, hm⟩ | ⟨m, hm, _⟩
        · exact ⟨hm, e.symm ▸ rfl⟩
        · rw [hplain] at hm; cases hm
      · have := ((all i _ hs).2 e).1
        cases this
    · by_cases e : (⟨c.reg, i⟩ : Id) = c
      · rw [e, a2] at hh
        cases hh
      · exact ((all i _ hh).2 e).2 ho rfl
  refine ⟨List.pairwise_append.mpr ⟨sp.distinct, List.pairwise_singleton .., fun a ha b hb => ?_⟩, fun y hy => ?_⟩
  · simp only [List.mem_singleton] at hb
    subst hb
    rw [sc.reg]
    exact Nat.ne_of_lt (sp.ok a ha).1
  · rcases List.mem_append.mp hy with hy | hy
    · exact old y hy
    · simp only [List.mem_singleton] at hy
      subst hy
      exact ⟨by rw [sc.reg, hlen]; omega, cc, tc⟩

/-- whatever the history — calls on any live simulation, clones of any of them, clones of clones — the live
simulations stay a separate family, and the earlier ones keep their rank -/
theorem history_separate (sys : Sys) (fuel : Nat) (evs : List Ev) :
    ∀ (h : Heap) (sims : List Id), Separate h sims →
      Separate (runEvs sys fuel evs (h, sims)).1 (runEvs sys fuel evs (h, sims)).2
      ∧ ∃ more, (runEvs sys fuel evs (h, sims)).2 = sims ++ more := by
  induction evs with
  | nil => intro h sims sp; exact ⟨sp, [], by simp [runEvs]⟩
  | cons ev rest ih =>
    intro h sims sp
    cases ev with
    | call i op =>
      cases hs : sims[i]? with
      | none => simp only [runEvs, hs]; exact ih h sims sp
      | some x =>
        simp only [runEvs, hs]
        exact ih _ sims (step_separate sys fuel sp (List.mem_of_getElem? hs) op)
    | clone i t d =>
      cases hs : sims[i]? with
      | none => simp only [runEvs, hs]; exact ih h sims sp
      | some x =>
        simp only [runEvs, hs]
        cases hc : cloneSim x t d h with
        | mk res h' =>
          cases res with
          | error e => simp only; exact ih h sims sp
          | ok c =>
            simp only
            obtain ⟨s1, more, hm⟩ := ih h' (sims ++ [c]) (clone_separate sp (List.mem_of_getElem? hs) hc)
            exact ⟨s1, c :: more, by rw [hm]; simp⟩

/-! ## checking the hypotheses on a concrete heap -/

instance decAllSim (x : Option Obj) (P : SimObj → Prop) [DecidablePred P] : Decidable (∀ so, x = some (.sim so) → P so) :=
  match x with
  | none => isTrue (fun _ e => by cases e)
  | some (.sim so) => if h : P so then isTrue (fun _ e => by cases e; exact h) else isFalse (fun f => h (f so rfl))
  | some (.pop _) => isTrue (fun _ e => by cases e)
  | some (.holder _) => isTrue (fun _ e => by cases e)
  | some (.store _) => isTrue (fun _ e => by cases e)
  | some (.disk _) => isTrue (fun _ e => by cases e)
  | some (.dir _) => isTrue (fun _ e => by cases e)
  | some (.tracer _) => isTrue (fun _ e => by cases e)
  | some (.inval _) => isTrue (fun _ e => by cases e)

instance decAllPop (x : Option Obj) (P : PopObj → Prop) [DecidablePred P] : Decidable (∀ po, x = some (.pop po) → P po) :=
  match x with
  | none => isTrue (fun _ e => by cases e)
  | some (.pop po) => if h : P po then isTrue (fun _ e => by cases e; exact h) else isFalse (fun f => h (f po rfl))
  | some (.sim _) => isTrue (fun _ e => by cases e)
  | some (.holder _) => isTrue (fun _ e => by cases e)
  | some (.store _) => isTrue (fun _ e => by cases e)
  | some (.disk _) => isTrue (fun _ e => by cases e)
  | some (.dir _) => isTrue (fun _ e => by cases e)
  | some (.tracer _) => isTrue (fun _ e => by cases e)
  | some (.inval _) => isTrue (fun _ e => by cases e)

instance decAllHolder (x : Option Obj) (P : HolderObj → Prop) [DecidablePred P] :
    Decidable (∀ ho, x = some (.holder ho) → P ho) :=
  match x with
  | none => isTrue (fun _ e => by cases e)
  | some (.holder ho) => if h : P ho then isTrue (fun _ e => by cases e; exact h) else isFalse (fun f => h (f ho rfl))
  | some (.sim _) => isTrue (fun _ e => by cases e)
  | some (.pop _) => isTrue (fun _ e => by cases e)
  | some (.store _) => isTrue (fun _ e => by cases e)
  | some (.disk _) => isTrue (fun _ e => by cases e)
  | some (.dir _) => isTrue (fun _ e => by cases e)
  | some (.tracer _) => isTrue (fun _ e => by cases e)
  | some (.inval _) => isTrue (fun _ e => by cases e)

/-- `Tidy` with the indices bounded by the size of the region -/
def TidyB (r : Nat) (h : Heap) : Prop :=
  (∀ i, i < h.size r → ∀ so, h.get? ⟨r, i⟩ = some (.sim so) →
      so.memConfig = none ∧ so.dir = none ∧ alGet so.pops 0 = some so.persons
      ∧ ∀ po, h.get? so.persons = some (.pop po) → po.members = none ∧ po.sim = ⟨r, i⟩)
  ∧ (∀ i, i < h.size r → ∀ ho, h.get? ⟨r, i⟩ = some (.holder ho) → ho.disk = none)

instance (r : Nat) (h : Heap) : Decidable (TidyB r h) := by unfold TidyB; infer_instance

theorem lt_size_of_get? {h : Heap} {r i : Nat} {o : Obj} (e : h.get? ⟨r, i⟩ = some o) : i < h.size r := by
  simp only [get?_def] at e
  unfold Heap.size
  cases hl : h[r]? with
  | none => rw [hl] at e; cases e
  | some l =>
    rw [hl] at e
    simp only [Option.bind_some] at e
    simp only [Option.getD_some]
    exact (List.getElem?_eq_some_iff.mp e).1

theorem Tidy.ofB {r : Nat} {h : Heap} (t : TidyB r h) : Tidy r h :=
  ⟨fun i so hs => t.1 i (lt_size_of_get? hs) so hs, fun i ho hh => t.2 i (lt_size_of_get? hh) ho hh⟩

theorem Separate.single {h : Heap} {x : Id} (hl : x.reg < h.length) (c : Closed x.reg h) (t : TidyB x.reg h) :
    Separate h [x] :=
  ⟨List.pairwise_singleton .., fun y hy => by simp only [List.mem_singleton] at hy; subst hy; exact ⟨hl, c, Tidy.ofB t⟩⟩

/-- a route is a look-up in the simulation object: it reads nothing else and writes nothing -/
def routeAnswer (so : SimObj) (rt : Route) (ent : Nat) : Except Err Id :=
  match rt with
  | .persons => .ok so.persons
  | .getPopulation => match alGet so.pops ent with | some q => .ok q | none => .error .value
  | .populations => match alGet so.pops ent with | some q => .ok q | none => .error .value
  | .shortcut => match alGet so.pops ent with | some q => .ok q | none => .error .value

theorem routePop_eq {h : Heap} {x : Id} {so : SimObj} (hs : h.get? x = some (.sim so)) (rt : Route) (ent : Nat) :
    routePop x rt ent h = (routeAnswer so rt ent, h) := by
  unfold routePop
  rw [bind_of_ok (rdSim_eq hs)]
  cases rt <;> simp only [routeAnswer] <;> first | rfl | (cases alGet so.pops ent <;> rfl)

theorem routeAnswer_mem {so : SimObj} {rt : Route} {ent : Nat} {pid : Id} (e : routeAnswer so rt ent = .ok pid)
    (hl : alGet so.pops 0 = some so.persons) : ∃ k, (k, pid) ∈ so.pops := by
  cases rt with
  | persons => simp only [routeAnswer, Except.ok.injEq] at e; subst e; exact ⟨0, alGet_mem hl⟩
  | getPopulation =>
    simp only [routeAnswer] at e
    cases hg : alGet so.pops ent with
    | none => rw [hg] at e; cases e
    | some q => rw [hg] at e; cases e; exact ⟨ent, alGet_mem hg⟩
  | populations =>
    simp only [routeAnswer] at e
    cases hg : alGet so.pops ent with
    | none => rw [hg] at e; cases e
    | some q => rw [hg] at e; cases e; exact ⟨ent, alGet_mem hg⟩
  | shortcut =>
    simp only [routeAnswer] at e
    cases hg : alGet so.pops ent with
    | none => rw [hg] at e; cases e
    | some q => rw [hg] at e; cases e; exact ⟨ent, alGet_mem hg⟩

end OFCore.Heap
