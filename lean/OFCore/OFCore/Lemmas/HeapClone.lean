import OFCore.Lemmas.Heap
/-!
# The shape of a clone

`cloneSim` only ever allocates in, and writes to, the new region; every object it allocates is
described here, from which ownership, closedness of the new region (for memory-backed
simulations), and equality of the readable content follow.
-/
set_option linter.unusedSimpArgs false
namespace OFCore.Heap
open HM

/-- everything of `h1` is still there, unchanged, in `h2` -/
def Ext (h1 h2 : Heap) : Prop := ∀ q x, h1.get? q = some x → h2.get? q = some x

theorem Ext.refl (h : Heap) : Ext h h := fun _ _ e => e
theorem Ext.trans {h1 h2 h3 : Heap} (a : Ext h1 h2) (b : Ext h2 h3) : Ext h1 h3 := fun q x e => b q x (a q x e)

/-- the regions other than `rc` are left as they were -/
def Others (rc : Nat) (h1 h2 : Heap) : Prop := ∀ r, r ≠ rc → h2[r]? = h1[r]?

theorem Others.refl (rc : Nat) (h : Heap) : Others rc h h := fun _ _ => rfl
theorem Others.trans {rc : Nat} {h1 h2 h3 : Heap} (a : Others rc h1 h2) (b : Others rc h2 h3) : Others rc h1 h3 :=
  fun r hr => by rw [b r hr, a r hr]
theorem Others.get {rc : Nat} {h1 h2 : Heap} (a : Others rc h1 h2) {q : Id} (hq : q.reg ≠ rc) :
    h2.get? q = h1.get? q := get?_congr (a q.reg hq)

theorem new_spec {r : Nat} {o : Obj} {h h' : Heap} {p : Id} (e : new r o h = (.ok p, h')) :
    h.get? p = none ∧ h'.get? p = some o ∧ p.reg = r ∧ Ext h h' ∧ Others r h h' ∧
    (∀ q x, h'.get? q = some x → h.get? q = some x ∨ (q = p ∧ x = o)) := by
  obtain ⟨l, hl, hp, hh⟩ := new_ok e
  subst hp hh
  refine ⟨get?_fresh h r l hl, get?_push_new h r o l hl, rfl, fun q x hq => get?_push_old h r o q x hq,
    fun r' hr => push_other h r o r' hr, ?_⟩
  intro q x hq
  obtain ⟨qr, qi⟩ := q
  by_cases hr : qr = r
  · subst hr
    simp only [get?_def, push_same, hl, Option.map_some, Option.bind_some, List.getElem?_append] at hq
    split at hq
    · left; simp only [get?_def, hl, Option.bind_some]; exact hq
    · right
      rename_i hge
      have h0 : qi - l.length = 0 := by
        cases hi : qi - l.length with
        | zero => rfl
        | succ n => rw [hi] at hq; simp at hq
      rw [h0] at hq
      simp at hq
      refine ⟨?_, hq.symm⟩
      congr
      omega
  · left; rw [← get?_congr (p := ⟨qr, qi⟩) (push_other h r o qr hr)]; exact hq

theorem wr_spec {p : Id} {o : Obj} {h h' : Heap} (e : wr p o h = (.ok (), h')) :
    (∃ y, h.get? p = some y) ∧ h'.get? p = some o ∧ (∀ q, q ≠ p → h'.get? q = h.get? q) ∧ Others p.reg h h' := by
  obtain ⟨⟨y, hy⟩, hh⟩ := wr_ok e
  subst hh
  exact ⟨⟨y, hy⟩, get?_put_self h p o y hy, fun q hq => get?_put_ne h p q o hq, fun r hr => put_other h p o r hr⟩

theorem rdSim_ok {p : Id} {h h' : Heap} {o : SimObj} (e : rdSim p h = (.ok o, h')) : h.get? p = some (.sim o) ∧ h = h' := by
  unfold rdSim at e
  obtain ⟨x, h1, e1, e2⟩ := bind_ok e
  obtain ⟨hg, rfl⟩ := rd_ok e1
  obtain ⟨hx, rfl⟩ := ofOption_ok e2
  cases x <;> simp [Obj.sim?] at hx
  subst hx; exact ⟨hg, rfl⟩

theorem rdPop_ok {p : Id} {h h' : Heap} {o : PopObj} (e : rdPop p h = (.ok o, h')) : h.get? p = some (.pop o) ∧ h = h' := by
  unfold rdPop at e
  obtain ⟨x, h1, e1, e2⟩ := bind_ok e
  obtain ⟨hg, rfl⟩ := rd_ok e1
  obtain ⟨hx, rfl⟩ := ofOption_ok e2
  cases x <;> simp [Obj.pop?] at hx
  subst hx; exact ⟨hg, rfl⟩

theorem rdHolder_ok {p : Id} {h h' : Heap} {o : HolderObj} (e : rdHolder p h = (.ok o, h')) :
    h.get? p = some (.holder o) ∧ h = h' := by
  unfold rdHolder at e
  obtain ⟨x, h1, e1, e2⟩ := bind_ok e
  obtain ⟨hg, rfl⟩ := rd_ok e1
  obtain ⟨hx, rfl⟩ := ofOption_ok e2
  cases x <;> simp [Obj.holder?] at hx
  subst hx; exact ⟨hg, rfl⟩

theorem rdStore_ok {p : Id} {h h' : Heap} {o : StoreObj} (e : rdStore p h = (.ok o, h')) :
    h.get? p = some (.store o) ∧ h = h' := by
  unfold rdStore at e
  obtain ⟨x, h1, e1, e2⟩ := bind_ok e
  obtain ⟨hg, rfl⟩ := rd_ok e1
  obtain ⟨hx, rfl⟩ := ofOption_ok e2
  cases x <;> simp [Obj.store?] at hx
  subst hx; exact ⟨hg, rfl⟩

theorem pure_ok {α : Type} {a b : α} {h h' : Heap} (e : (pure a : HM α) h = (.ok b, h')) : b = a ∧ h = h' := by
  simp only [pure_apply, Prod.mk.injEq, Except.ok.injEq] at e
  exact ⟨e.1.symm, e.2⟩

/-! ## one holder -/

/-- what `cloneHolder` did -/
structure HolderCloned (rc : Nat) (newPop hid hid' : Id) (h1 h2 : Heap) : Prop where
  ex : ∃ ho np st mem', h1.get? hid = some (.holder ho) ∧ h1.get? newPop = some (.pop np)
      ∧ h1.get? ho.mem = some (.store st)
      ∧ h1.get? mem' = none ∧ h1.get? hid' = none ∧ mem'.reg = rc ∧ hid'.reg = rc
      ∧ h2.get? mem' = some (.store st)
      ∧ h2.get? hid' = some (.holder { ho with pop := newPop, sim := np.sim, mem := mem' })
      ∧ (∀ q x, h2.get? q = some x → h1.get? q = some x ∨ (q = mem' ∧ x = .store st)
          ∨ (q = hid' ∧ x = .holder { ho with pop := newPop, sim := np.sim, mem := mem' }))
  ext : Ext h1 h2
  others : Others rc h1 h2

theorem cloneHolder_spec {rc : Nat} {newPop hid hid' : Id} {h1 h2 : Heap}
    (e : cloneHolder rc newPop hid h1 = (.ok hid', h2)) : HolderCloned rc newPop hid hid' h1 h2 := by
  unfold cloneHolder at e
  obtain ⟨ho, ha, e1, k1⟩ := bind_ok e
  obtain ⟨hho, eh⟩ := rdHolder_ok e1
  subst eh
  obtain ⟨np, hb, e2, k2⟩ := bind_ok k1
  obtain ⟨hnp, eh⟩ := rdPop_ok e2
  subst eh
  obtain ⟨st, hc, e3, k3⟩ := bind_ok k2
  obtain ⟨hst, eh⟩ := rdStore_ok e3
  subst eh
  obtain ⟨mem', hd, e4, k4⟩ := bind_ok k3
  obtain ⟨f1, g1, r1, x1, o1, i1⟩ := new_spec e4
  obtain ⟨f2, g2, r2, x2, o2, i2⟩ := new_spec k4
  refine ⟨⟨ho, np, st, mem', hho, hnp, hst, f1, ?_, r1, r2, x2 _ _ g1, g2, ?_⟩, x1.trans x2, o1.trans o2⟩
  · cases hh : h1.get? hid' with
    | none => rfl
    | some y => rw [x1 _ _ hh] at f2; cases f2
  · intro q x hq
    rcases i2 q x hq with h | ⟨rfl, rfl⟩
    · rcases i1 q x h with h | ⟨rfl, rfl⟩
      · exact Or.inl h
      · exact Or.inr (Or.inl ⟨rfl, rfl⟩)
    · exact Or.inr (Or.inr ⟨rfl, rfl⟩)

/-- two lists related element by element -/
inductive Rel₂ {α β : Type} (R : α → β → Prop) : List α → List β → Prop
  | nil : Rel₂ R [] []
  | cons {a b l l'} : R a b → Rel₂ R l l' → Rel₂ R (a :: l) (b :: l')

theorem Rel₂.imp {α β : Type} {R S : α → β → Prop} {l : List α} {l' : List β} (h : Rel₂ R l l')
    (f : ∀ a b, a ∈ l → R a b → S a b) : Rel₂ S l l' := by
  induction h with
  | nil => exact Rel₂.nil
  | cons hr _ ih =>
    exact Rel₂.cons (f _ _ (List.mem_cons_self ..) hr) (ih fun a b ha => f a b (List.mem_cons_of_mem _ ha))

theorem Rel₂.forall_right {α β : Type} {R : α → β → Prop} {P : β → Prop} {l : List α} {l' : List β}
    (h : Rel₂ R l l') (f : ∀ a b, R a b → P b) : ∀ b ∈ l', P b := by
  induction h with
  | nil => intro b hb; cases hb
  | cons hr _ ih =>
    intro b hb
    rcases List.mem_cons.mp hb with rfl | h'
    · exact f _ _ hr
    · exact ih b h'

theorem Rel₂.exists_left {α β : Type} {R : α → β → Prop} {l : List α} {l' : List β}
    (h : Rel₂ R l l') : ∀ b ∈ l', ∃ a ∈ l, R a b := by
  induction h with
  | nil => intro b hb; cases hb
  | cons hr _ ih =>
    intro b hb
    rcases List.mem_cons.mp hb with rfl | h'
    · exact ⟨_, List.mem_cons_self .., hr⟩
    · obtain ⟨a, ha, hab⟩ := ih b h'
      exact ⟨a, List.mem_cons_of_mem _ ha, hab⟩

theorem Ext.fresh {h1 h2 : Heap} (x : Ext h1 h2) {q : Id} (f : h2.get? q = none) : h1.get? q = none := by
  cases hh : h1.get? q with
  | none => rfl
  | some y => rw [x _ _ hh] at f; cases f

theorem Closed.others {rs rc : Nat} {h1 h2 : Heap} (c : Closed rs h1) (o : Others rc h1 h2) (hne : rs ≠ rc) :
    Closed rs h2 := c.congr (o rs hne).symm

/-! ## the holders of one population -/

/-- `e'` is the clone of the holder entry `e` (source read in `h1`, clone in `h2`) -/
def HolderPair (rc : Nat) (newPop : Id) (sim : Id) (h1 h2 : Heap) (e e' : Var × Id) : Prop :=
  e.1 = e'.1 ∧ ∃ ho st mem', h1.get? e.2 = some (.holder ho) ∧ h1.get? ho.mem = some (.store st)
    ∧ h2.get? e'.2 = some (.holder { ho with pop := newPop, sim := sim, mem := mem' })
    ∧ h2.get? mem' = some (.store st) ∧ mem'.reg = rc ∧ e'.2.reg = rc
    ∧ h1.get? e'.2 = none ∧ h1.get? mem' = none

/-- a new object made by cloning the holders `L` -/
def HolderMade (rc : Nat) (newPop : Id) (sim : Id) (h1 : Heap) (L : List (Var × Id)) (x : Obj) : Prop :=
  (∃ st, x = .store st) ∨
  ∃ ho mem' e, e ∈ L ∧ h1.get? e.2 = some (.holder ho) ∧ mem'.reg = rc
    ∧ x = .holder { ho with pop := newPop, sim := sim, mem := mem' }

structure HoldersCloned (rc : Nat) (newPop : Id) (sim : Id) (L L' : List (Var × Id)) (h1 h2 : Heap) : Prop where
  pairs : Rel₂ (HolderPair rc newPop sim h1 h2) L L'
  origin : ∀ q x, h2.get? q = some x →
    h1.get? q = some x ∨ (q.reg = rc ∧ h1.get? q = none ∧ HolderMade rc newPop sim h1 L x)
  ext : Ext h1 h2
  others : Others rc h1 h2

theorem cloneHolders_spec {rs rc : Nat} (hne : rs ≠ rc) {newPop : Id} {np : PopObj} (L : List (Var × Id)) :
    ∀ {L' : List (Var × Id)} {h1 h2 : Heap}, Closed rs h1 → (∀ e ∈ L, e.2.reg = rs) →
      h1.get? newPop = some (.pop np) → cloneHolders rc newPop L h1 = (.ok L', h2) →
      HoldersCloned rc newPop np.sim L L' h1 h2 := by
  induction L with
  | nil =>
    intro L' h1 h2 _ _ _ e
    unfold cloneHolders at e
    obtain ⟨rfl, rfl⟩ := pure_ok e
    exact ⟨Rel₂.nil, fun q x hq => Or.inl hq, Ext.refl _, Others.refl _ _⟩
  | cons a t ih =>
    intro L' h1 h2 cl hreg hnp e
    obtain ⟨v, hid⟩ := a
    unfold cloneHolders at e
    obtain ⟨hid', ha, e1, k1⟩ := bind_ok e
    obtain ⟨t', hb, e2, k2⟩ := bind_ok k1
    obtain ⟨rfl, rfl⟩ := pure_ok k2
    have s1 := cloneHolder_spec e1
    obtain ⟨ho, np', st, mem', hho, hnp', hst, fm, fh, rm, rh, gm, gh, org⟩ := s1.ex
    rw [hnp] at hnp'
    cases hnp'
    have cla : Closed rs ha := cl.others s1.others hne
    have s2 := ih cla (fun e he => hreg e (List.mem_cons_of_mem _ he)) (s1.ext _ _ hnp) e2
    -- a source object of region `rs` is the same in `ha` and in `h1`
    have back : ∀ q : Id, q.reg = rs → ha.get? q = h1.get? q := fun q hq =>
      s1.others.get (by rw [hq]; exact hne)
    refine ⟨Rel₂.cons ?_ ?_, ?_, s1.ext.trans s2.ext, s1.others.trans s2.others⟩
    · exact ⟨rfl, ho, st, mem', hho, hst, s2.ext _ _ gh, s2.ext _ _ gm, rm, rh, fh, fm⟩
    · refine s2.pairs.imp ?_
      intro e e' he hp
      obtain ⟨hv, ho2, st2, m2, a1, a2, a3, a4, a5, a6, a7, a8⟩ := hp
      have hs : e.2.reg = rs := hreg e (List.mem_cons_of_mem _ he)
      have hm : ho2.mem.reg = rs := (cla.get hs a1).2.2.1
      rw [back _ hs] at a1
      rw [back _ hm] at a2
      exact ⟨hv, ho2, st2, m2, a1, a2, a3, a4, a5, a6, s1.ext.fresh a7, s1.ext.fresh a8⟩
    · intro q x hq
      rcases s2.origin q x hq with h | ⟨hr, hf, hm⟩
      · rcases org q x h with h' | ⟨rfl, rfl⟩ | ⟨rfl, rfl⟩
        · exact Or.inl h'
        · exact Or.inr ⟨rm, fm, Or.inl ⟨_, rfl⟩⟩
        · exact Or.inr ⟨rh, fh, Or.inr ⟨ho, mem', (v, hid), List.mem_cons_self .., hho, rm, rfl⟩⟩
      · refine Or.inr ⟨hr, s1.ext.fresh hf, ?_⟩
        rcases hm with hm | ⟨ho2, m2, e, he, a1, a2, a3⟩
        · exact Or.inl hm
        · have hs : e.2.reg = rs := hreg e (List.mem_cons_of_mem _ he)
          rw [back _ hs] at a1
          exact Or.inr ⟨ho2, m2, e, List.mem_cons_of_mem _ he, a1, a2, a3⟩

/-! ## one population -/

/-- the `members` of a cloned population: none for the persons, `simulation.persons` for a group -/
def MembersCloned (newSim : Id) (h1 : Heap) (old new : Option Id) : Prop :=
  (old = none ∧ new = none) ∨ ∃ m ns, old = some m ∧ h1.get? newSim = some (.sim ns) ∧ new = some ns.persons

theorem cloneMembers_spec {newSim : Id} {old new : Option Id} {h1 h2 : Heap}
    (e : cloneMembers newSim old h1 = (.ok new, h2)) : MembersCloned newSim h1 old new ∧ h1 = h2 := by
  cases old with
  | none =>
    unfold cloneMembers at e
    obtain ⟨rfl, rfl⟩ := pure_ok e
    exact ⟨Or.inl ⟨rfl, rfl⟩, rfl⟩
  | some m =>
    unfold cloneMembers at e
    obtain ⟨ns, ha, e1, k1⟩ := bind_ok e
    obtain ⟨hns, eh⟩ := rdSim_ok e1
    subst eh
    obtain ⟨rfl, rfl⟩ := pure_ok k1
    exact ⟨Or.inr ⟨m, ns, rfl, hns, rfl⟩, rfl⟩

/-- a new object made by cloning the population `po` into `pid'` -/
def PopMade (rc : Nat) (newSim pid' : Id) (h1 : Heap) (po : PopObj) (hs : List (Var × Id)) (members : Option Id)
    (q : Id) (x : Obj) : Prop :=
  (q = pid' ∧ x = .pop { po with sim := newSim, holders := hs, members := members })
  ∨ HolderMade rc pid' newSim h1 po.holders x

structure PopCloned (rc : Nat) (newSim pid pid' : Id) (h1 h2 : Heap) : Prop where
  ex : ∃ po hs members, h1.get? pid = some (.pop po) ∧ h1.get? pid' = none ∧ pid'.reg = rc
    ∧ MembersCloned newSim h1 po.members members
    ∧ h2.get? pid' = some (.pop { po with sim := newSim, holders := hs, members := members })
    ∧ Rel₂ (HolderPair rc pid' newSim h1 h2) po.holders hs
    ∧ ∀ q x, h2.get? q = some x →
        h1.get? q = some x ∨ (q.reg = rc ∧ h1.get? q = none ∧ PopMade rc newSim pid' h1 po hs members q x)
  ext : Ext h1 h2
  others : Others rc h1 h2

theorem clonePop_spec {rs rc : Nat} (hne : rs ≠ rc) {newSim pid pid' : Id} {h1 h2 : Heap} (cl : Closed rs h1)
    (hpid : pid.reg = rs) (e : clonePop rc newSim pid h1 = (.ok pid', h2)) : PopCloned rc newSim pid pid' h1 h2 := by
  unfold clonePop at e
  obtain ⟨po, h0, e1, k1⟩ := bind_ok e
  obtain ⟨hpo, eh⟩ := rdPop_ok e1
  subst eh
  obtain ⟨members, h0, e2, k2⟩ := bind_ok k1
  obtain ⟨hmem, eh⟩ := cloneMembers_spec e2
  subst eh
  obtain ⟨pidn, ha, e3, k3⟩ := bind_ok k2
  obtain ⟨f1, g1, r1, x1, o1, i1⟩ := new_spec e3
  obtain ⟨hs, hb, e4, k4⟩ := bind_ok k3
  obtain ⟨np, hc, e5, k5⟩ := bind_ok k4
  obtain ⟨hnp, eh⟩ := rdPop_ok e5
  subst eh
  obtain ⟨u, hd, e6, k6⟩ := bind_ok k5
  obtain ⟨rfl, rfl⟩ := pure_ok k6
  obtain ⟨_, gw, ow, otw⟩ := wr_spec e6
  have hin : InReg rs (.pop po) := cl.get hpid hpo
  have s1 := cloneHolders_spec hne (np := { po with sim := newSim, holders := [], members := members }) po.holders
    (cl.others o1 hne) (fun e he => hin.2.1 e he) g1 e4
  -- the placeholder is still there after the holders have been cloned
  have hnp' := s1.ext _ _ g1
  rw [hnp] at hnp'
  cases hnp'
  have r1' : pid'.reg = rc := r1
  have otw' : Others rc hb hd := by rw [← r1']; exact otw
  have back : ∀ q : Id, q.reg = rs → ha.get? q = h1.get? q := fun q hq => o1.get (by rw [hq]; exact hne)
  have keep : ∀ q x, hb.get? q = some x → ha.get? q = none → hd.get? q = some x := by
    intro q x hq hf
    rw [ow q (by intro heq; subst heq; rw [g1] at hf; cases hf)]
    exact hq
  refine ⟨⟨po, hs, members, hpo, f1, r1, hmem, gw, ?_, ?_⟩, ?_, o1.trans (s1.others.trans otw')⟩
  · refine s1.pairs.imp ?_
    intro e e' he hp
    obtain ⟨hv, ho2, st2, m2, a1, a2, a3, a4, a5, a6, a7, a8⟩ := hp
    have hs' : e.2.reg = rs := hin.2.1 e he
    have hm : ho2.mem.reg = rs := ((cl.others o1 hne).get hs' a1).2.2.1
    rw [back _ hs'] at a1
    rw [back _ hm] at a2
    exact ⟨hv, ho2, st2, m2, a1, a2, keep _ _ a3 a7, keep _ _ a4 a8, a5, a6, x1.fresh a7, x1.fresh a8⟩
  · intro q x hq
    by_cases hqp : q = pid'
    · subst hqp
      rw [gw] at hq
      cases hq
      exact Or.inr ⟨r1, f1, Or.inl ⟨rfl, rfl⟩⟩
    · rw [ow q hqp] at hq
      rcases s1.origin q x hq with h | ⟨hr, hf, hm⟩
      · rcases i1 q x h with h' | ⟨rfl, _⟩
        · exact Or.inl h'
        · exact absurd rfl hqp
      · refine Or.inr ⟨hr, x1.fresh hf, Or.inr ?_⟩
        rcases hm with hm | ⟨ho2, m2, e, he, a1, a2, a3⟩
        · exact Or.inl hm
        · have hs' : e.2.reg = rs := hin.2.1 e he
          rw [back _ hs'] at a1
          exact Or.inr ⟨ho2, m2, e, he, a1, a2, a3⟩
  · intro q x hq
    have hne' : q ≠ pid' := by intro heq; subst heq; rw [f1] at hq; cases hq
    rw [ow q hne']
    exact s1.ext _ _ (x1 _ _ hq)

/-! ## what the new objects refer to -/

/-- no holder of region `rs` has an on-disk storage -/
def NoDisk (rs : Nat) (h : Heap) : Prop := ∀ q ho, q.reg = rs → h.get? q = some (.holder ho) → ho.disk = none

theorem NoDisk.congr {rs : Nat} {h1 h2 : Heap} (n : NoDisk rs h1) (e : h1[rs]? = h2[rs]?) : NoDisk rs h2 := by
  intro q ho hq hg
  subst hq
  exact n q ho rfl (by rw [get?_congr (p := q) e]; exact hg)

/-- a new object that only refers to the new region, is not a simulation, and if a holder has no on-disk
storage -/
def Fine (rc : Nat) (x : Obj) : Prop := InReg rc x ∧ x.sim? = none ∧ ∀ ho, x = .holder ho → ho.disk = none

theorem HolderMade.inReg {rs rc : Nat} {newPop sim : Id} {h1 : Heap} {L : List (Var × Id)} {x : Obj}
    (m : HolderMade rc newPop sim h1 L x) (hp : newPop.reg = rc) (hs : sim.reg = rc) (hL : ∀ e ∈ L, e.2.reg = rs)
    (nd : NoDisk rs h1) : Fine rc x := by
  rcases m with ⟨st, rfl⟩ | ⟨ho, mem', e, he, hg, hm, rfl⟩
  · exact ⟨trivial, rfl, fun _ e => by cases e⟩
  · have hd0 : ho.disk = none := nd e.2 ho (hL e he) hg
    refine ⟨⟨hp, hs, hm, fun d hd => ?_⟩, rfl, fun ho2 e2 => ?_⟩
    · rw [hd0] at hd
      cases hd
    · cases e2
      exact hd0

/-- everything of `h1` except the object `c` is still there, unchanged, in `h2` -/
def ExtX (c : Id) (h1 h2 : Heap) : Prop := ∀ q x, q ≠ c → h1.get? q = some x → h2.get? q = some x

theorem Ext.toX {h1 h2 : Heap} (x : Ext h1 h2) (c : Id) : ExtX c h1 h2 := fun q y _ e => x q y e
theorem ExtX.trans {c : Id} {h1 h2 h3 : Heap} (a : ExtX c h1 h2) (b : ExtX c h2 h3) : ExtX c h1 h3 :=
  fun q x hq e => b q x hq (a q x hq e)

theorem ne_of_fresh {h : Heap} {q c : Id} (f : h.get? q = none) (hc : ∃ y, h.get? c = some y) : q ≠ c := by
  rintro rfl
  obtain ⟨y, hy⟩ := hc
  rw [f] at hy
  cases hy

theorem HolderPair.lift {rc rs : Nat} {newPop sim c : Id} {h1 ha hb h2 : Heap} {e e' : Var × Id}
    (p : HolderPair rc newPop sim ha hb e e') (hne : rs ≠ rc) (cl : Closed rs ha) (he : e.2.reg = rs)
    (o : Others rc h1 ha) (x1 : Ext h1 ha) (hc : ∃ y, ha.get? c = some y) (x2 : ExtX c hb h2) :
    HolderPair rc newPop sim h1 h2 e e' := by
  obtain ⟨hv, ho2, st2, m2, a1, a2, a3, a4, a5, a6, a7, a8⟩ := p
  have hm : ho2.mem.reg = rs := (cl.get he a1).2.2.1
  rw [o.get (by rw [he]; exact hne)] at a1
  rw [o.get (by rw [hm]; exact hne)] at a2
  exact ⟨hv, ho2, st2, m2, a1, a2, x2 _ _ (ne_of_fresh a7 hc) a3, x2 _ _ (ne_of_fresh a8 hc) a4, a5, a6,
    x1.fresh a7, x1.fresh a8⟩

/-- a new object is fine when it only refers to the new region (which it does when no source holder
has an on-disk storage) -/
def Origin (rs rc : Nat) (h1 h2 : Heap) : Prop :=
  ∀ q x, h2.get? q = some x → h1.get? q = some x ∨ (q.reg = rc ∧ h1.get? q = none ∧ (NoDisk rs h1 → Fine rc x))

theorem Origin.refl (rs rc : Nat) (h : Heap) : Origin rs rc h h := fun _ _ e => Or.inl e

theorem Origin.trans {rs rc : Nat} {h1 h2 h3 : Heap} (a : Origin rs rc h1 h2) (b : Origin rs rc h2 h3)
    (x : Ext h1 h2) (o : Others rc h1 h2) (hne : rs ≠ rc) : Origin rs rc h1 h3 := by
  intro q y hq
  rcases b q y hq with h | ⟨hr, hf, hg⟩
  · exact a q y h
  · exact Or.inr ⟨hr, x.fresh hf, fun nd => hg (nd.congr (o rs hne).symm)⟩

/-- `e'` is the clone of the population entry `e` -/
def PopPair (rc : Nat) (newSim persons' : Id) (h1 h2 : Heap) (e e' : Nat × Id) : Prop :=
  e.1 = e'.1 ∧ ∃ po hs members, h1.get? e.2 = some (.pop po) ∧ e'.2.reg = rc ∧ h1.get? e'.2 = none
    ∧ ((po.members = none ∧ members = none) ∨ (∃ m, po.members = some m ∧ members = some persons'))
    ∧ h2.get? e'.2 = some (.pop { po with sim := newSim, holders := hs, members := members })
    ∧ Rel₂ (HolderPair rc e'.2 newSim h1 h2) po.holders hs

theorem PopCloned.pair {rc : Nat} {newSim pid pid' : Id} {h1 h2 : Heap} {ns : SimObj} (k : Nat)
    (p : PopCloned rc newSim pid pid' h1 h2) (hns : h1.get? newSim = some (.sim ns)) :
    PopPair rc newSim ns.persons h1 h2 (k, pid) (k, pid') := by
  obtain ⟨po, hs, members, a1, a2, a3, a4, a5, a6, _⟩ := p.ex
  refine ⟨rfl, po, hs, members, a1, a3, a2, ?_, a5, a6⟩
  rcases a4 with h | ⟨m, ns', h1', h2', h3'⟩
  · exact Or.inl h
  · rw [hns] at h2'
    cases h2'
    exact Or.inr ⟨m, h1', h3'⟩

theorem PopCloned.origin {rs rc : Nat} {newSim pid pid' : Id} {h1 h2 : Heap} {ns : SimObj}
    (p : PopCloned rc newSim pid pid' h1 h2) (cl : Closed rs h1) (hpid : pid.reg = rs)
    (hns : h1.get? newSim = some (.sim ns)) (hsim : newSim.reg = rc)
    (hpers : ∀ po m, h1.get? pid = some (.pop po) → po.members = some m → ns.persons.reg = rc) :
    Origin rs rc h1 h2 := by
  obtain ⟨po, hs, members, a1, a2, a3, a4, a5, a6, a7⟩ := p.ex
  have hin : InReg rs (.pop po) := cl.get hpid a1
  intro q x hq
  rcases a7 q x hq with h | ⟨hr, hf, hm⟩
  · exact Or.inl h
  · refine Or.inr ⟨hr, hf, fun nd => ?_⟩
    rcases hm with ⟨rfl, rfl⟩ | hm
    · refine ⟨⟨hsim, ?_, ?_⟩, rfl, fun _ e => by cases e⟩
      · exact a6.forall_right fun a b hp => by
          obtain ⟨_, _, _, _, _, _, _, _, _, h6, _, _⟩ := hp
          exact h6
      · intro m hm
        rcases a4 with ⟨_, h2'⟩ | ⟨m0, ns', _, h2', h3'⟩
        · rw [h2'] at hm; cases hm
        · rw [hns] at h2'
          cases h2'
          rw [h3'] at hm
          cases hm
          exact hpers po m0 a1 ‹_›
    · exact hm.inReg a3 hsim (fun e he => hin.2.1 e he) nd

/-! ## the group populations -/

structure GroupsCloned (rs rc : Nat) (newSim persons' : Id) (G G' : List (Nat × Id)) (h1 h2 : Heap) : Prop where
  pairs : Rel₂ (PopPair rc newSim persons' h1 h2) G G'
  origin : Origin rs rc h1 h2
  ext : Ext h1 h2
  others : Others rc h1 h2

theorem PopPair.lift {rc rs : Nat} {newSim persons' c : Id} {h1 ha hb h2 : Heap} {e e' : Nat × Id}
    (p : PopPair rc newSim persons' ha hb e e') (hne : rs ≠ rc) (cl : Closed rs ha) (he : e.2.reg = rs)
    (o : Others rc h1 ha) (x1 : Ext h1 ha) (hc : ∃ y, ha.get? c = some y) (x2 : ExtX c hb h2) :
    PopPair rc newSim persons' h1 h2 e e' := by
  obtain ⟨hk, po, hs, members, a1, a2, a3, a4, a5, a6⟩ := p
  have hin : InReg rs (.pop po) := cl.get he a1
  rw [o.get (by rw [he]; exact hne)] at a1
  exact ⟨hk, po, hs, members, a1, a2, x1.fresh a3, a4, x2 _ _ (ne_of_fresh a3 hc) a5,
    a6.imp fun a b ha hp => hp.lift hne cl (hin.2.1 a ha) o x1 hc x2⟩

theorem cloneGroups_spec {rs rc : Nat} (hne : rs ≠ rc) {newSim : Id} {ns : SimObj} (hsim : newSim.reg = rc)
    (hpers : ns.persons.reg = rc) (G : List (Nat × Id)) :
    ∀ {G' : List (Nat × Id)} {h1 h2 : Heap}, Closed rs h1 → (∀ e ∈ G, e.2.reg = rs) →
      h1.get? newSim = some (.sim ns) → cloneGroups rc newSim G h1 = (.ok G', h2) →
      GroupsCloned rs rc newSim ns.persons G G' h1 h2 := by
  induction G with
  | nil =>
    intro G' h1 h2 _ _ _ e
    unfold cloneGroups at e
    obtain ⟨rfl, rfl⟩ := pure_ok e
    exact ⟨Rel₂.nil, Origin.refl _ _ _, Ext.refl _, Others.refl _ _⟩
  | cons a t ih =>
    intro G' h1 h2 cl hreg hns e
    obtain ⟨k, pid⟩ := a
    unfold cloneGroups at e
    obtain ⟨pid', ha, e1, k1⟩ := bind_ok e
    obtain ⟨t', hb, e2, k2⟩ := bind_ok k1
    obtain ⟨rfl, rfl⟩ := pure_ok k2
    have hpid : pid.reg = rs := hreg (k, pid) (List.mem_cons_self ..)
    have s1 := clonePop_spec hne cl hpid e1
    have cla : Closed rs ha := cl.others s1.others hne
    have s2 := ih cla (fun e he => hreg e (List.mem_cons_of_mem _ he)) (s1.ext _ _ hns) e2
    refine ⟨Rel₂.cons ?_ ?_, ?_, s1.ext.trans s2.ext, s1.others.trans s2.others⟩
    · exact (s1.pair k hns).lift hne cl hpid (Others.refl _ _) (Ext.refl _) ⟨_, hns⟩ (s2.ext.toX newSim)
    · exact s2.pairs.imp fun a b ha' hp =>
        hp.lift hne cla (hreg a (List.mem_cons_of_mem _ ha')) s1.others s1.ext ⟨_, s1.ext _ _ hns⟩
          ((Ext.refl _).toX newSim)
    · exact (s1.origin cl hpid hns hsim fun _ _ _ _ => hpers).trans s2.origin s1.ext s1.others hne

/-! ## the whole simulation -/

theorem reg_lt_of_get? {h : Heap} {p : Id} {o : Obj} (e : h.get? p = some o) : p.reg < h.length := by
  rw [get?_def] at e
  cases hl : h[p.reg]? with
  | none => rw [hl] at e; cases e
  | some l => exact (List.getElem?_eq_some_iff.mp hl).1

theorem newRegion_spec (h : Heap) : Others h.length h (h ++ [[]]) ∧ Ext h (h ++ [[]]) ∧ (h ++ [[]])[h.length]? = some [] := by
  refine ⟨fun r hr => ?_, fun q x hq => ?_, by simp⟩
  · rcases Nat.lt_or_ge r h.length with hlt | hge
    · rw [List.getElem?_append_left hlt]
    · have : h.length < r := Nat.lt_of_le_of_ne hge (Ne.symm hr)
      rw [List.getElem?_eq_none (by simp; omega), List.getElem?_eq_none (by omega)]
  · have hlt := reg_lt_of_get? hq
    rw [get?_def, List.getElem?_append_left hlt]
    exact hq

structure SimCloned (s c : Id) (tr dbg : Bool) (h h' : Heap) : Prop where
  reg : c.reg = h.length
  lt : s.reg < h.length
  others : Others h.length h h'
  ex : ∃ so persons' groups' trc inv,
    h.get? s = some (.sim so)
    ∧ h'.get? c = some (.sim { so with persons := persons', pops := (0, persons') :: groups', tracer := trc,
                                       inval := inv, trace := tr, debug := dbg })
    ∧ trc.reg = c.reg ∧ inv.reg = c.reg
    ∧ h'.get? trc = some (.tracer ⟨tr, [], []⟩) ∧ h'.get? inv = some (.inval [])
    ∧ PopPair c.reg c so.persons h h' (0, so.persons) (0, persons')
    ∧ Rel₂ (PopPair c.reg c persons' h h') (so.pops.filter (fun e => e.1 ≠ 0)) groups'
    ∧ (NoDisk s.reg h → so.dir = none →
        (∀ po m, h.get? so.persons = some (.pop po) → po.members = some m → False) →
        ∀ i x, h'.get? ⟨c.reg, i⟩ = some x → InReg c.reg x ∧ ((⟨c.reg, i⟩ : Id) ≠ c →
          x.sim? = none ∧ ∀ ho, x = .holder ho → ho.disk = none))

theorem cloneSim_spec {s c : Id} {tr dbg : Bool} {h h' : Heap} (cl : Closed s.reg h)
    (e : cloneSim s tr dbg h = (.ok c, h')) : SimCloned s c tr dbg h h' := by
  unfold cloneSim at e
  obtain ⟨so, h0, e1, k1⟩ := bind_ok e
  obtain ⟨hso, eh⟩ := rdSim_ok e1
  subst eh
  obtain ⟨rc, h0, e2, k2⟩ := bind_ok k1
  have erc : rc = h.length ∧ h0 = h ++ [[]] := by
    simp only [newRegion, Prod.mk.injEq, Except.ok.injEq] at e2
    exact ⟨e2.1.symm, e2.2.symm⟩
  obtain ⟨rfl, rfl⟩ := erc
  obtain ⟨o0, x0, z0⟩ := newRegion_spec h
  have hlt : s.reg < h.length := reg_lt_of_get? hso
  have hne : s.reg ≠ h.length := Nat.ne_of_lt hlt
  have hin : InReg s.reg (.sim so) := cl.get rfl hso
  -- c
  obtain ⟨c', ha, e3, k3⟩ := bind_ok k2
  obtain ⟨f3, g3, r3, x3, o3, i3⟩ := new_spec e3
  -- inval
  obtain ⟨inv, hb, e4, k4⟩ := bind_ok k3
  obtain ⟨f4, g4, r4, x4, o4, i4⟩ := new_spec e4
  -- persons
  obtain ⟨persons', hc, e5, k5⟩ := bind_ok k4
  have ohb : Others h.length h hb := o0.trans (o3.trans o4)
  have xhb : Ext h hb := x0.trans (x3.trans x4)
  have clb : Closed s.reg hb := cl.others ohb hne
  have hcb : hb.get? c' = some (.sim so) := x4 _ _ g3
  have s5 := clonePop_spec hne clb hin.1 e5
  obtain ⟨ns, hd0, e6, k6⟩ := bind_ok k5
  obtain ⟨hns, eh⟩ := rdSim_ok e6
  subst eh
  have hcc : hc.get? c' = some (.sim so) := s5.ext _ _ hcb
  rw [hcc] at hns
  cases hns
  obtain ⟨u7, hd, e7, k7⟩ := bind_ok k6
  obtain ⟨_, g7, ow7, ot7⟩ := wr_spec e7
  rw [r3] at ot7
  -- groups
  obtain ⟨groups', he, e8, k8⟩ := bind_ok k7
  have ohd : Others h.length h hd := ohb.trans (s5.others.trans ot7)
  have cld : Closed s.reg hd := cl.others ohd hne
  obtain ⟨po5, hs5, mem5, p1, p2, p3, p4, p5, p6, p7⟩ := s5.ex
  have s8 := cloneGroups_spec hne (ns := { so with persons := persons', inval := inv }) r3 p3
    (so.pops.filter (fun e => e.1 ≠ 0)) cld
    (fun e he' => hin.2.1 e (List.mem_filter.mp he').1) g7 e8
  -- tracer
  obtain ⟨trc, hf, e9, k9⟩ := bind_ok k8
  obtain ⟨f9, g9, r9, x9, o9, i9⟩ := new_spec e9
  obtain ⟨ns3, hf0, e10, k10⟩ := bind_ok k9
  obtain ⟨hns3, eh⟩ := rdSim_ok e10
  subst eh
  have hcf : hf.get? c' = some (.sim { so with persons := persons', inval := inv }) := x9 _ _ (s8.ext _ _ g7)
  rw [hcf] at hns3
  cases hns3
  obtain ⟨u11, hg, e11, k11⟩ := bind_ok k10
  obtain ⟨rfl, rfl⟩ := pure_ok k11
  obtain ⟨_, g11, ow11, ot11⟩ := wr_spec e11
  rw [r3] at ot11
  -- persistence of everything but `c`
  have xw7 : ExtX c hc hd := fun q x hq hx => by rw [ow7 q hq]; exact hx
  have xw11 : ExtX c hf hg := fun q x hq hx => by rw [ow11 q hq]; exact hx
  have xcg : ExtX c hc hg := xw7.trans ((s8.ext.trans x9).toX c |>.trans xw11)
  have xdg : ExtX c he hg := (x9.toX c).trans xw11
  have xhd : Ext h hd := fun q x hq => by
    have hqc : q ≠ c := by
      rintro rfl
      rw [x0 _ _ hq] at f3
      cases f3
    rw [ow7 q hqc]
    exact s5.ext _ _ (xhb _ _ hq)
  have others : Others h.length h hg := ohd.trans (s8.others.trans (o9.trans ot11))
  refine ⟨r3, hlt, others, so, persons', groups', trc, inv, hso, g11, r9.trans r3.symm, r4.trans r3.symm,
    ?_, ?_, ?_, ?_, ?_⟩
  · rw [ow11 trc (ne_of_fresh f9 ⟨_, s8.ext _ _ g7⟩)]
    exact g9
  · have : inv ≠ c := ne_of_fresh f4 ⟨_, g3⟩
    exact xcg _ _ this (s5.ext _ _ g4)
  · rw [r3]
    exact (s5.pair 0 hcb).lift hne clb hin.1 ohb xhb ⟨_, hcb⟩ xcg
  · rw [r3]
    exact s8.pairs.imp fun a b ha' hp =>
      hp.lift hne cld (hin.2.1 a (List.mem_filter.mp ha').1) ohd xhd ⟨_, g7⟩ xdg
  · intro nd hdir hplain
    rw [r3]
    intro i x hx
    by_cases hqc : (⟨h.length, i⟩ : Id) = c
    · rw [hqc, g11] at hx
      cases hx
      refine ⟨⟨p3, ?_, r9, r4, fun d hd' => ?_⟩, fun hne' => absurd hqc hne'⟩
      · intro e' he'
        rcases List.mem_cons.mp he' with rfl | h'
        · exact p3
        · exact s8.pairs.forall_right (fun a b hp => by
            obtain ⟨_, _, _, _, _, h2', _⟩ := hp
            exact h2') e' h'
      · simp only [hdir] at hd'
        cases hd'
    · rw [ow11 _ hqc] at hx
      rcases i9 _ _ hx with hx | ⟨_, rfl⟩
      · rcases s8.origin _ _ hx with hx | ⟨_, _, hgood⟩
        · rw [ow7 _ hqc] at hx
          rcases (s5.origin clb hin.1 hcb r3 fun po m hpo hm => by
              rw [ohb.get (by rw [hin.1]; exact hne)] at hpo
              exact (hplain po m hpo hm).elim) _ _ hx with hx | ⟨_, _, hgood⟩
          · rcases i4 _ _ hx with hx | ⟨_, rfl⟩
            · rcases i3 _ _ hx with hx | ⟨hq, _⟩
              · simp [get?_def, z0] at hx
              · exact absurd hq hqc
            · exact ⟨trivial, fun _ => ⟨rfl, fun _ e => by cases e⟩⟩
          · have g := hgood (nd.congr (ohb _ hne).symm)
            exact ⟨g.1, fun _ => g.2⟩
        · have g := hgood (nd.congr (ohd _ hne).symm)
          exact ⟨g.1, fun _ => g.2⟩
      · exact ⟨trivial, fun _ => ⟨rfl, fun _ e => by cases e⟩⟩

end OFCore.Heap
