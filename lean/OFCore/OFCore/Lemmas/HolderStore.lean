import OFCore.HolderStore
/-!
# The two-tier store refines a finite map, whatever the pressure at each write
-/
set_option linter.unusedVariables false
namespace OFCore.HolderStore

variable {P K V : Type} [DecidableEq K]

theorem tget_tdel (t : Tbl K V) (k k' : K) :
    tget (tdel t k) k' = if k = k' then none else tget t k' := by
  induction t with
  | nil => simp [tget, tdel]
  | cons e r ih =>
    obtain ⟨a, x⟩ := e
    by_cases ha : a = k
    · subst ha
      simp only [tdel, if_true, ih, tget]
      by_cases hk : a = k'
      · simp [hk]
      · simp [hk]
    · simp only [tdel, ha, if_false, tget, ih]
      by_cases hak : a = k'
      · subst hak
        have : ¬ k = a := fun e => ha e.symm
        simp [this]
      · simp [hak]

theorem tget_tput (t : Tbl K V) (k k' : K) (x : V) :
    tget (tput t k x) k' = if k = k' then some x else tget t k' := by
  unfold tput
  by_cases hk : k = k'
  · subst hk; simp [tget]
  · simp [tget, hk, tget_tdel]

theorem tget_ne_none_iff (t : Tbl K V) (k : K) : tget t k ≠ none ↔ k ∈ t.map (·.1) := by
  induction t with
  | nil => simp [tget]
  | cons e r ih =>
    obtain ⟨a, x⟩ := e
    by_cases ha : a = k
    · subst ha; simp [tget]
    · simp only [tget, ha, if_false, List.map_cons, List.mem_cons]
      rw [ih]
      constructor
      · intro h; exact Or.inr h
      · intro h; rcases h with h | h
        · exact absurd h.symm ha
        · exact h

theorem get_eq_view (key : P → K) (h : Holder K V) (p : P) : h.get key p = h.view (key p) := rfl

/-- after a write the key reads the written value and every other key reads as before — whether the
    value went to memory or to disk -/
theorem view_set (key : P → K) (h : Holder K V) (p : P) (x : V) (b : Bool) (k : K) :
    (h.set key p x b).view k = if k = key p then some x else h.view k := by
  unfold Holder.set
  by_cases hc : h.diskable ∧ tget h.mem (key p) = none ∧ b = true
  · obtain ⟨hd, hm, hb⟩ := hc
    simp only [hd, hm, hb, and_self, if_true, Holder.view, tget_tput]
    by_cases hk : k = key p
    · subst hk; simp [hm]
    · have hk' : ¬ key p = k := fun e => hk e.symm
      simp [hk, hk']
  · rw [if_neg hc]
    simp only [Holder.view, tget_tput]
    by_cases hk : k = key p
    · subst hk; simp
    · have hk' : ¬ key p = k := fun e => hk e.symm
      simp [hk, hk']

theorem view_delete_all (key : P → K) (h : Holder K V) (k : K) : (h.delete key none).view k = none := by
  simp [Holder.delete, Holder.view, tget]

theorem view_delete (key : P → K) (h : Holder K V) (p : P) (k : K) :
    (h.delete key (some p)).view k = if k = key p then none else h.view k := by
  simp only [Holder.delete, Holder.view, tget_tdel]
  by_cases hk : k = key p
  · subst hk; simp
  · have hk' : ¬ key p = k := fun e => hk e.symm
    simp [hk, hk']

theorem view_step (key : P → K) (h : Holder K V) (op : Op P V) :
    (h.step key op).view = specStep key h.view op := by
  funext k
  cases op with
  | set p x b => simp [Holder.step, specStep, view_set]
  | del p =>
    cases p with
    | none => simp [Holder.step, specStep, view_delete_all]
    | some p => simp [Holder.step, specStep, view_delete]

/-- refinement: any history of writes and deletions, under any pressure schedule, shows exactly what
    the plain finite map shows -/
theorem view_run (key : P → K) : ∀ (ops : List (Op P V)) (h : Holder K V),
    (h.run key ops).view = specRun key h.view ops
  | [], h => rfl
  | op :: ops, h => by
    have ih := view_run key ops (h.step key op)
    simp only [Holder.run, List.foldl_cons, specRun] at *
    rw [ih, view_step]

/-- forgetting the pressure of every write -/
def Op.plain : Op P V → Op P V
  | .set p x _ => .set p x false
  | .del p => .del p

theorem specStep_plain (key : P → K) (m : K → Option V) (op : Op P V) :
    specStep key m op.plain = specStep key m op := by
  cases op with
  | set p x b => rfl
  | del p => rfl

theorem specRun_plain (key : P → K) : ∀ (ops : List (Op P V)) (m : K → Option V),
    specRun key m (ops.map Op.plain) = specRun key m ops
  | [], m => rfl
  | op :: ops, m => by
    simp only [specRun, List.map_cons, List.foldl_cons, specStep_plain]
    exact specRun_plain key ops _

theorem known_iff (h : Holder K V) (k : K) : k ∈ h.known ↔ h.view k ≠ none := by
  unfold Holder.known Holder.view
  rw [List.mem_append]
  cases hm : tget h.mem k with
  | some x =>
    have : k ∈ h.mem.map (·.1) := (tget_ne_none_iff h.mem k).mp (by simp [hm])
    simp [this]
  | none =>
    have hn : k ∉ h.mem.map (·.1) := fun hin => ((tget_ne_none_iff h.mem k).mpr hin) hm
    by_cases hd : h.diskable
    · simp only [hd, if_true]
      constructor
      · intro hh
        rcases hh with hh | hh
        · exact absurd hh hn
        · exact (tget_ne_none_iff h.disk k).mpr hh
      · intro hh
        exact Or.inr ((tget_ne_none_iff h.disk k).mp hh)
    · simp [hd, hn]

end OFCore.HolderStore
