import OFCore.Lemmas.TextParse
/-! # Printing then parsing a period (all units) -/
set_option linter.unusedSimpArgs false
namespace OFCore

def canon (p : Period) : Period :=
  if p.unit = .month ∧ p.size = 12 then ⟨.year, p.start, 1⟩ else p

theorem dateOk_mk (y m d : Int) (hy1 : 1 ≤ y) (hy2 : y ≤ 9999) (hm1 : 1 ≤ m) (hm2 : m ≤ 12)
    (hd1 : 1 ≤ d) (hd2 : d ≤ dim y m) : dateOk ⟨y, m, d⟩ = true := by
  rw [dateOk_iff]; exact ⟨⟨hy1, hm1, hm2, hd1, hd2⟩, hy2⟩

theorem tokUnit_y (y : Nat) : tokUnit (.y y) = some .year := rfl
theorem tokUnit_ym (y m : Nat) : tokUnit (.ym y m) = some .month := rfl
theorem tokUnit_ymd (y m d : Nat) : tokUnit (.ymd y m d) = some .day := rfl
theorem tokUnit_yw (y w : Nat) : tokUnit (.yw y w) = some .week := rfl
theorem tokUnit_ywd (y w d : Nat) : tokUnit (.ywd y w d) = some .weekday := rfl

theorem iso_y (y : Nat) (h1 : 1000 ≤ y) (h2 : y ≤ 9999) :
    parseIsoPeriod (natDigits y) = .ok ⟨.year, ⟨y, 1, 1⟩, 1⟩ := by
  unfold parseIsoPeriod
  rw [lex_y y h1 h2]
  have hd := dateOk_mk y 1 1 (by omega) (by omega) (by omega) (by omega) (by omega) (by have := dim_ge (y : Int) 1; omega)
  simp only [tokDate, hd, if_true, tokUnit_y]

theorem iso_ym (y m : Nat) (h1 : 1000 ≤ y) (h2 : y ≤ 9999) (hm1 : 1 ≤ m) (hm2 : m ≤ 12) :
    parseIsoPeriod (natDigits y ++ '-' :: pad 2 m) = .ok ⟨.month, ⟨y, m, 1⟩, 1⟩ := by
  unfold parseIsoPeriod
  rw [lex_ym y m h1 h2 hm1 hm2]
  have hd := dateOk_mk y m 1 (by omega) (by omega) (by omega) (by omega) (by omega) (by have := dim_ge (y : Int) m; omega)
  simp only [tokDate, hd, if_true, tokUnit_ym]

theorem year_pref : "year:".toList = DUnit.year.name.toList ++ [':'] := by decide
theorem day_pref : "day:".toList = DUnit.day.name.toList ++ [':'] := by decide
theorem week_pref : "week:".toList = DUnit.week.name.toList ++ [':'] := by decide
theorem weekday_pref : "weekday:".toList = DUnit.weekday.name.toList ++ [':'] := by decide

theorem no_colon_ym (Y M : Nat) : ':' ∉ natDigits Y ++ '-' :: pad 2 M := by
  intro hm
  rcases List.mem_append.1 hm with h | h
  · exact (natDigits_isDig Y _ h).ne_colon rfl
  · rcases List.mem_cons.1 h with h | h
    · cases h
    · exact (pad_isDig 2 M _ h).ne_colon rfl

theorem first_dig (Y : Nat) (rest : List Char) : ∃ c cs, natDigits Y ++ rest = c :: cs ∧ IsDig c := by
  cases h : natDigits Y with
  | nil => exact absurd h (natDigits_ne_nil Y)
  | cons c cs => exact ⟨c, cs ++ rest, rfl, natDigits_isDig Y c (by rw [h]; exact List.mem_cons_self)⟩

theorem weight_month_year : finerThanDate DUnit.year DUnit.month = false := by decide +kernel
theorem weight_month_month : finerThanDate DUnit.month DUnit.month = false := by decide +kernel

theorem one_ne_12 : ¬ ((1 : Int) = 12) := by decide

theorem text_parse_month (Y M : Nat) (n : Int) (hn : 1 ≤ n) (h1 : 1000 ≤ Y) (h2 : Y ≤ 9999)
    (hm1 : 1 ≤ M) (hm2 : M ≤ 12) :
    parsePeriod (Period.text ⟨.month, ⟨Y, M, 1⟩, n⟩) = .ok (canon ⟨.month, ⟨Y, M, 1⟩, n⟩) := by
  obtain ⟨N, rfl⟩ := Int.eq_ofNat_of_zero_le (show 0 ≤ n by omega)
  have hnc := no_colon_ym Y M
  by_cases h12 : (N : Int) = 12
  · by_cases hM : (M : Int) = 1
    · simp only [Period.text, canon, h12, hM, reduceCtorEq, and_self, true_and, if_true, if_false, true_or, intText_nat]
      obtain ⟨c, cs, hcs, hc⟩ := first_dig Y []
      rw [List.append_nil] at hcs
      rw [parse_plain _ _ c cs hcs hc (lex_y Y h1 h2), iso_y Y h1 h2]
    · simp only [Period.text, canon, h12, hM, reduceCtorEq, and_self, true_and, if_true, if_false, true_or, intText_nat,
        Int.toNat_natCast, year_pref, List.append_assoc, List.cons_append, List.nil_append]
      rw [parse_prefixed1 .year (by decide) _ _ (lex_ym Y M h1 h2 hm1 hm2) hnc _ (iso_ym Y M h1 h2 hm1 hm2) weight_month_year]
  · by_cases hN1 : (N : Int) = 1
    · simp only [Period.text, canon, hN1, one_ne_12, reduceCtorEq, and_self, true_and, and_true, false_and, if_true, if_false, or_false, false_or,
        intText_nat, Int.toNat_natCast, List.append_assoc, List.cons_append, List.nil_append]
      obtain ⟨c, cs, hcs, hc⟩ := first_dig Y ('-' :: pad 2 M)
      rw [parse_plain _ _ c cs hcs hc (lex_ym Y M h1 h2 hm1 hm2), iso_ym Y M h1 h2 hm1 hm2]
    · simp only [Period.text, canon, h12, hN1, reduceCtorEq, and_self, true_and, and_true, and_false, false_and, if_true, if_false, or_false, false_or,
        intText_nat, Int.toNat_natCast, List.append_assoc, List.cons_append, List.nil_append]
      have h := parse_prefixed2 .month (by decide) _ _ (lex_ym Y M h1 h2 hm1 hm2) hnc _ (iso_ym Y M h1 h2 hm1 hm2) weight_month_month N
      simp only [List.append_assoc, List.cons_append, List.nil_append] at h
      exact h

theorem weight_year_year : finerThanDate DUnit.year DUnit.year = false := by decide +kernel
theorem weight_day_day : finerThanDate DUnit.day DUnit.day = false := by decide +kernel
theorem weight_week_week : finerThanDate DUnit.week DUnit.week = false := by decide +kernel
theorem weight_weekday_weekday : finerThanDate DUnit.weekday DUnit.weekday = false := by decide +kernel

theorem no_colon_y (Y : Nat) : ':' ∉ natDigits Y :=
  fun hm => (natDigits_isDig Y _ hm).ne_colon rfl

theorem text_parse_year (Y M : Nat) (n : Int) (hn : 1 ≤ n) (h1 : 1000 ≤ Y) (h2 : Y ≤ 9999)
    (hm1 : 1 ≤ M) (hm2 : M ≤ 12) :
    parsePeriod (Period.text ⟨.year, ⟨Y, M, 1⟩, n⟩) = .ok (canon ⟨.year, ⟨Y, M, 1⟩, n⟩) := by
  obtain ⟨N, rfl⟩ := Int.eq_ofNat_of_zero_le (show 0 ≤ n by omega)
  have hnc := no_colon_ym Y M
  by_cases hN1 : (N : Int) = 1
  · by_cases hM : (M : Int) = 1
    · simp only [Period.text, canon, hN1, hM, reduceCtorEq, and_self, true_and, false_and, if_true, if_false, or_true, intText_nat]
      obtain ⟨c, cs, hcs, hc⟩ := first_dig Y []
      rw [List.append_nil] at hcs
      rw [parse_plain _ _ c cs hcs hc (lex_y Y h1 h2), iso_y Y h1 h2]
    · simp only [Period.text, canon, hN1, hM, reduceCtorEq, and_self, true_and, false_and, if_true, if_false, or_true, intText_nat,
        Int.toNat_natCast, year_pref, List.append_assoc, List.cons_append, List.nil_append]
      rw [parse_prefixed1 .year (by decide) _ _ (lex_ym Y M h1 h2 hm1 hm2) hnc _ (iso_ym Y M h1 h2 hm1 hm2) weight_month_year]
  · by_cases hM : (M : Int) = 1
    · simp only [Period.text, canon, hN1, hM, reduceCtorEq, and_self, true_and, and_true, and_false, false_and, if_true, if_false, or_false, false_or,
        intText_nat, Int.toNat_natCast, year_pref, List.append_assoc, List.cons_append, List.nil_append]
      have h := parse_prefixed2 .year (by decide) _ _ (lex_y Y h1 h2) (no_colon_y Y) _ (iso_y Y h1 h2) weight_year_year N
      simp only [List.append_assoc, List.cons_append, List.nil_append] at h
      exact h
    · simp only [Period.text, canon, hN1, hM, reduceCtorEq, and_self, true_and, and_true, and_false, false_and, if_true, if_false, or_false, false_or,
        intText_nat, Int.toNat_natCast, List.append_assoc, List.cons_append, List.nil_append]
      have h := parse_prefixed2 .year (by decide) _ _ (lex_ym Y M h1 h2 hm1 hm2) hnc _ (iso_ym Y M h1 h2 hm1 hm2) weight_month_year N
      simp only [List.append_assoc, List.cons_append, List.nil_append] at h
      exact h

theorem no_colon_ymd (Y M D : Nat) : ':' ∉ natDigits Y ++ '-' :: pad 2 M ++ '-' :: pad 2 D := by
  intro hm
  rcases List.mem_append.1 hm with h | h
  · exact no_colon_ym Y M h
  · rcases List.mem_cons.1 h with h | h
    · cases h
    · exact (pad_isDig 2 D _ h).ne_colon rfl

theorem iso_ymd (y m d : Nat) (h1 : 1000 ≤ y) (h2 : y ≤ 9999) (hv : (Date.mk y m d).Valid) :
    parseIsoPeriod (natDigits y ++ '-' :: pad 2 m ++ '-' :: pad 2 d) = .ok ⟨.day, ⟨y, m, d⟩, 1⟩ := by
  obtain ⟨_, hm1, hm2, hd1, hd2⟩ := hv
  simp only at hm1 hm2 hd1 hd2
  have := dim_le (y : Int) m
  unfold parseIsoPeriod
  rw [lex_ymd y m d h1 h2 (by omega) (by omega) (by omega) (by omega)]
  have hd := dateOk_mk y m d (by omega) (by omega) hm1 hm2 hd1 hd2
  simp only [tokDate, hd, if_true, tokUnit_ymd]

theorem text_parse_day (Y M D : Nat) (n : Int) (hn : 1 ≤ n) (h1 : 1000 ≤ Y) (h2 : Y ≤ 9999)
    (hv : (Date.mk Y M D).Valid) :
    parsePeriod (Period.text ⟨.day, ⟨Y, M, D⟩, n⟩) = .ok (canon ⟨.day, ⟨Y, M, D⟩, n⟩) := by
  obtain ⟨N, rfl⟩ := Int.eq_ofNat_of_zero_le (show 0 ≤ n by omega)
  have hv' := hv
  obtain ⟨_, hm1, hm2, hd1, hd2⟩ := hv'
  simp only at hm1 hm2 hd1 hd2
  have := dim_le (Y : Int) M
  have hlex := lex_ymd Y M D h1 h2 (by omega) (by omega) (by omega) (by omega)
  by_cases hN1 : (N : Int) = 1
  · simp only [Period.text, canon, hN1, reduceCtorEq, and_self, true_and, and_true, false_and, if_true, if_false, or_false, false_or,
      intText_nat, Int.toNat_natCast, List.append_assoc, List.cons_append, List.nil_append]
    obtain ⟨c, cs, hcs, hc⟩ := first_dig Y ('-' :: pad 2 M ++ '-' :: pad 2 D)
    have hi := iso_ymd Y M D h1 h2 hv
    simp only [List.append_assoc, List.cons_append, List.nil_append] at hcs hlex hi
    rw [parse_plain _ _ c cs hcs hc hlex, hi]
  · simp only [Period.text, canon, hN1, reduceCtorEq, and_self, true_and, and_true, false_and, if_true, if_false, or_false, false_or,
      intText_nat, Int.toNat_natCast, day_pref, List.append_assoc, List.cons_append, List.nil_append]
    have h := parse_prefixed2 .day (by decide) _ _ hlex (no_colon_ymd Y M D) _ (iso_ymd Y M D h1 h2 hv) weight_day_day N
    simp only [List.append_assoc, List.cons_append, List.nil_append] at h
    exact h

theorem no_colon_yw (Y W : Nat) : ':' ∉ natDigits Y ++ ['-', 'W'] ++ pad 2 W := by
  intro hm
  rcases List.mem_append.1 hm with h | h
  · rcases List.mem_append.1 h with h | h
    · exact no_colon_y Y h
    · simp at h
  · exact (pad_isDig 2 W _ h).ne_colon rfl

theorem no_colon_ywd (Y W D : Nat) : ':' ∉ natDigits Y ++ ['-', 'W'] ++ pad 2 W ++ ['-'] ++ natDigits D := by
  intro hm
  rcases List.mem_append.1 hm with h | h
  · rcases List.mem_append.1 h with h | h
    · exact no_colon_yw Y W h
    · simp at h
  · exact no_colon_y D h

/-- reading back the ISO-week spelling of a date -/
theorem iso_week_forms (c : Date) (hv : c.Valid) (hy : c.y ≤ 9999) (CY W D : Nat)
    (hiso : toIso c = ((CY : Int), (W : Int), (D : Int))) (h1 : 1000 ≤ CY) (h2 : CY ≤ 9999) :
    parseIsoPeriod (natDigits CY ++ ['-', 'W'] ++ pad 2 W ++ ['-'] ++ natDigits D) = .ok ⟨.weekday, c, 1⟩ ∧
    lexIso (natDigits CY ++ ['-', 'W'] ++ pad 2 W ++ ['-'] ++ natDigits D) = some (.ywd CY W D) ∧
    (weekday0 (ord c) = 0 →
      parseIsoPeriod (natDigits CY ++ ['-', 'W'] ++ pad 2 W) = .ok ⟨.week, c, 1⟩ ∧
      lexIso (natDigits CY ++ ['-', 'W'] ++ pad 2 W) = some (.yw CY W)) := by
  obtain ⟨hw1, hw2, hw3, hd1, hd2, hof, hmon, _, _⟩ := toIso_spec c hv _ _ _ hiso
  have hdok : dateOk c = true := by rw [dateOk_iff]; exact ⟨hv, hy⟩
  have hl1 := lex_ywd CY W D h1 h2 (by omega) (by omega) (by omega) (by omega)
  have hl2 := lex_yw CY W h1 h2 (by omega) (by omega)
  refine ⟨?_, hl1, ?_⟩
  · unfold parseIsoPeriod
    rw [hl1]
    simp only [tokDate, tokUnit_ywd]
    rw [if_pos ⟨by omega, by omega, hw2⟩, hof, if_pos hdok]
  · intro hm
    have hD : (D : Int) = 1 := hmon hm
    refine ⟨?_, hl2⟩
    unfold parseIsoPeriod
    rw [hl2]
    simp only [tokDate, tokUnit_yw]
    rw [hD] at hof
    rw [if_pos ⟨by omega, by omega, hw2⟩, hof, if_pos hdok]

theorem text_parse_week (c : Date) (hv : c.Valid) (hy : c.y ≤ 9999) (hmon : weekday0 (ord c) = 0)
    (hcy : 1000 ≤ (toIso c).1 ∧ (toIso c).1 ≤ 9999) (n : Int) (hn : 1 ≤ n) :
    parsePeriod (Period.text ⟨.week, c, n⟩) = .ok (canon ⟨.week, c, n⟩) := by
  obtain ⟨N, rfl⟩ := Int.eq_ofNat_of_zero_le (show 0 ≤ n by omega)
  have hsp := toIso_spec c hv (toIso c).1 (toIso c).2.1 (toIso c).2.2 rfl
  obtain ⟨CY, hCY⟩ := Int.eq_ofNat_of_zero_le (show 0 ≤ (toIso c).1 by omega)
  obtain ⟨W, hW⟩ := Int.eq_ofNat_of_zero_le (show 0 ≤ (toIso c).2.1 by omega)
  obtain ⟨D, hD⟩ := Int.eq_ofNat_of_zero_le (show 0 ≤ (toIso c).2.2 by omega)
  have hiso : toIso c = ((CY : Int), (W : Int), (D : Int)) := by rw [← hCY, ← hW, ← hD]
  obtain ⟨_, _, hwk⟩ := iso_week_forms c hv hy CY W D hiso (by omega) (by omega)
  obtain ⟨hpi, hlex⟩ := hwk hmon
  by_cases hN1 : (N : Int) = 1
  · simp only [Period.text, canon, hN1, hiso, weekText, reduceCtorEq, and_self, true_and, and_true, false_and, if_true, if_false, or_false, false_or,
      intText_nat, Int.toNat_natCast]
    obtain ⟨c', cs, hcs, hc⟩ := first_dig CY (['-', 'W'] ++ pad 2 W)
    rw [← List.append_assoc] at hcs
    rw [parse_plain _ _ c' cs hcs hc hlex, hpi]
  · have hgt : (N : Int) > 1 := by omega
    simp only [Period.text, canon, hN1, hgt, hiso, weekText, reduceCtorEq, and_self, true_and, and_true, false_and, if_true, if_false, or_false, false_or,
      intText_nat, Int.toNat_natCast, week_pref, List.append_assoc, List.cons_append, List.nil_append]
    have h := parse_prefixed2 .week (by decide) _ _ hlex (no_colon_yw CY W) _ hpi weight_week_week N
    simp only [List.append_assoc, List.cons_append, List.nil_append] at h
    exact h

theorem text_parse_weekday (c : Date) (hv : c.Valid) (hy : c.y ≤ 9999)
    (hcy : 1000 ≤ (toIso c).1 ∧ (toIso c).1 ≤ 9999) (n : Int) (hn : 1 ≤ n) :
    parsePeriod (Period.text ⟨.weekday, c, n⟩) = .ok (canon ⟨.weekday, c, n⟩) := by
  obtain ⟨N, rfl⟩ := Int.eq_ofNat_of_zero_le (show 0 ≤ n by omega)
  have hsp := toIso_spec c hv (toIso c).1 (toIso c).2.1 (toIso c).2.2 rfl
  obtain ⟨CY, hCY⟩ := Int.eq_ofNat_of_zero_le (show 0 ≤ (toIso c).1 by omega)
  obtain ⟨W, hW⟩ := Int.eq_ofNat_of_zero_le (show 0 ≤ (toIso c).2.1 by omega)
  obtain ⟨D, hD⟩ := Int.eq_ofNat_of_zero_le (show 0 ≤ (toIso c).2.2 by omega)
  have hiso : toIso c = ((CY : Int), (W : Int), (D : Int)) := by rw [← hCY, ← hW, ← hD]
  obtain ⟨hpi, hlex, _⟩ := iso_week_forms c hv hy CY W D hiso (by omega) (by omega)
  by_cases hN1 : (N : Int) = 1
  · simp only [Period.text, canon, hN1, hiso, weekText, reduceCtorEq, and_self, true_and, and_true, false_and, if_true, if_false, or_false, false_or,
      intText_nat, Int.toNat_natCast]
    obtain ⟨c', cs, hcs, hc⟩ := first_dig CY (['-', 'W'] ++ pad 2 W ++ ['-'] ++ natDigits D)
    simp only [← List.append_assoc] at hcs
    rw [parse_plain _ _ c' cs hcs hc hlex, hpi]
  · have hgt : (N : Int) > 1 := by omega
    simp only [Period.text, canon, hN1, hgt, hiso, weekText, reduceCtorEq, and_self, true_and, and_true, false_and, if_true, if_false, or_false, false_or,
      intText_nat, Int.toNat_natCast, weekday_pref, List.append_assoc, List.cons_append, List.nil_append]
    have h := parse_prefixed2 .weekday (by decide) _ _ hlex (no_colon_ywd CY W D) _ hpi weight_weekday_weekday N
    simp only [List.append_assoc, List.cons_append, List.nil_append] at h
    exact h

end OFCore
