import OFCore.HeapSys
import OFCore.Lemmas.Param
/-!
# Helper lemmas for the object-identity model of tax-benefit systems (C14)

* heap basics (`look` after `allocs` / `put`), Python-`dict` lemmas;
* the **frame**: `Framed n h h'` (every object with identity `< n` is the same in `h'`), the
  ownership invariant `Inv n` (every system object created at or after `n` owns a variable dict
  created at or after `n`, and — unless it is a reform — a parameter tree created at or after `n`),
  one frame lemma per operation, and the induction over histories (`run_frame`);
* observations depend only on the objects reachable from the system (`sysObs_agree`);
* locality of one modification (`applyMod_*`), copies (`copyVar_spec`, `copyVars_spec`,
  `cloneSys_spec`), reforms (`reformInit_spec`);
* `Variable.__init__`: what `constructWith` inherits; `lastLE` (the formula in force);
* the consistency invariant (`Consistent`): every variable object can be rebuilt from its class and
  its baseline with the same attributes — which is what makes `Variable.clone()` (hence
  neutralising and annualising) always succeed and keep the attributes.
-/
set_option linter.unusedSimpArgs false
namespace OFCore.HeapSys
open OFCore.Param

/-! ## Heap basics -/

theorem alloc_eq_allocs (h : Heap) (o : Obj) : (h.alloc o).1 = h.allocs [o] := rfl
theorem alloc_snd (h : Heap) (o : Obj) : (h.alloc o).2 = h.next := rfl

theorem next_allocs (h : Heap) (os : List Obj) : (h.allocs os).next = h.next + os.length := by
  simp [Heap.next, Heap.allocs]

theorem next_put (h : Heap) (i : Oid) (o : Obj) : (h.put i o).next = h.next := by
  simp [Heap.next, Heap.put]

theorem look_allocs (h : Heap) (os : List Obj) (i : Oid) :
    (h.allocs os).look i = if i < h.next then h.look i else os[i - h.next]? := by
  show (h.objs ++ os)[i]? = if i < h.objs.length then h.objs[i]? else os[i - h.objs.length]?
  exact List.getElem?_append

theorem look_allocs_lt (h : Heap) (os : List Obj) {i : Oid} (hi : i < h.next) :
    (h.allocs os).look i = h.look i := by rw [look_allocs, if_pos hi]

theorem look_allocs_ge (h : Heap) (os : List Obj) (k : Nat) : (h.allocs os).look (h.next + k) = os[k]? := by
  rw [look_allocs, if_neg (Nat.not_lt.mpr (Nat.le_add_right _ _)), Nat.add_sub_cancel_left]

theorem look_put (h : Heap) (i j : Oid) (o : Obj) :
    (h.put i o).look j = if i = j then (if i < h.next then some o else none) else h.look j := by
  show (h.objs.set i o)[j]? = if i = j then (if i < h.objs.length then some o else none) else h.objs[j]?
  exact List.getElem?_set

theorem look_put_ne (h : Heap) {i j : Oid} (o : Obj) (hne : i ≠ j) : (h.put i o).look j = h.look j := by
  rw [look_put, if_neg hne]

theorem look_none_of_ge (h : Heap) {i : Oid} (hi : h.next ≤ i) : h.look i = none := by
  simp only [Heap.look]; exact List.getElem?_eq_none hi

theorem lt_next_of_look (h : Heap) {i : Oid} {o : Obj} (hl : h.look i = some o) : i < h.next := by
  by_cases hi : i < h.next
  · exact hi
  · rw [look_none_of_ge h (Nat.le_of_not_lt hi)] at hl; cases hl

/-- typed reads are functions of `look` -/
theorem getSys_congr {h h' : Heap} {i j : Oid} (e : h'.look i = h.look j) : h'.getSys i = h.getSys j := by
  simp only [Heap.getSys, e]
theorem getEnt_congr {h h' : Heap} {i j : Oid} (e : h'.look i = h.look j) : h'.getEnt i = h.getEnt j := by
  simp only [Heap.getEnt, e]
theorem getMap_congr {h h' : Heap} {i j : Oid} (e : h'.look i = h.look j) : h'.getMap i = h.getMap j := by
  simp only [Heap.getMap, e]
theorem getVar_congr {h h' : Heap} {i j : Oid} (e : h'.look i = h.look j) : h'.getVar i = h.getVar j := by
  simp only [Heap.getVar, e]
theorem getPar_congr {h h' : Heap} {i j : Oid} (e : h'.look i = h.look j) : h'.getPar i = h.getPar j := by
  simp only [Heap.getPar, e]

theorem look_of_getSys {h : Heap} {i : Oid} {s : SysObj} (e : h.getSys i = some s) : h.look i = some (.sys s) := by
  unfold Heap.getSys at e
  cases hl : h.look i with
  | none => rw [hl] at e; cases e
  | some o => rw [hl] at e; cases o <;> simp at e; rw [e]
theorem look_of_getEnt {h : Heap} {i : Oid} {s : EntObj} (e : h.getEnt i = some s) : h.look i = some (.ent s) := by
  unfold Heap.getEnt at e
  cases hl : h.look i with
  | none => rw [hl] at e; cases e
  | some o => rw [hl] at e; cases o <;> simp at e; rw [e]
theorem look_of_getMap {h : Heap} {i : Oid} {s : List (String × Oid)} (e : h.getMap i = some s) :
    h.look i = some (.vmap s) := by
  unfold Heap.getMap at e
  cases hl : h.look i with
  | none => rw [hl] at e; cases e
  | some o => rw [hl] at e; cases o <;> simp at e; rw [e]
theorem look_of_getVar {h : Heap} {i : Oid} {s : VarObj} (e : h.getVar i = some s) : h.look i = some (.var s) := by
  unfold Heap.getVar at e
  cases hl : h.look i with
  | none => rw [hl] at e; cases e
  | some o => rw [hl] at e; cases o <;> simp at e; rw [e]
theorem look_of_getPar {h : Heap} {i : Oid} {s : ParamTree} (e : h.getPar i = some s) : h.look i = some (.par s) := by
  unfold Heap.getPar at e
  cases hl : h.look i with
  | none => rw [hl] at e; cases e
  | some o => rw [hl] at e; cases o <;> simp at e; rw [e]

theorem getSys_of_look {h : Heap} {i : Oid} {s : SysObj} (e : h.look i = some (.sys s)) : h.getSys i = some s := by
  simp only [Heap.getSys, e]
theorem getEnt_of_look {h : Heap} {i : Oid} {s : EntObj} (e : h.look i = some (.ent s)) : h.getEnt i = some s := by
  simp only [Heap.getEnt, e]
theorem getMap_of_look {h : Heap} {i : Oid} {s : List (String × Oid)} (e : h.look i = some (.vmap s)) :
    h.getMap i = some s := by simp only [Heap.getMap, e]
theorem getVar_of_look {h : Heap} {i : Oid} {s : VarObj} (e : h.look i = some (.var s)) : h.getVar i = some s := by
  simp only [Heap.getVar, e]
theorem getPar_of_look {h : Heap} {i : Oid} {s : ParamTree} (e : h.look i = some (.par s)) : h.getPar i = some s := by
  simp only [Heap.getPar, e]

/-! ## `dict` -/

theorem dictGet_dictSet_self {α} (k : String) (v : α) (m : List (String × α)) :
    dictGet k (dictSet k v m) = some v := by
  induction m with
  | nil => simp [dictSet, dictGet]
  | cons p r ih =>
    obtain ⟨k', v'⟩ := p
    by_cases hk : k' = k
    · simp [dictSet, dictGet, hk]
    · simp [dictSet, dictGet, hk, ih]

theorem dictGet_dictSet_ne {α} {k k' : String} (v : α) (m : List (String × α)) (hne : k' ≠ k) :
    dictGet k' (dictSet k v m) = dictGet k' m := by
  induction m with
  | nil => simp [dictSet, dictGet, Ne.symm hne]
  | cons p r ih =>
    obtain ⟨k₀, v₀⟩ := p
    by_cases hk : k₀ = k
    · subst hk
      simp [dictSet, dictGet, Ne.symm hne]
    · by_cases hk' : k₀ = k'
      · subst hk'
        simp [dictSet, dictGet, hne]
      · simp [dictSet, dictGet, hk, hk', ih]

theorem dictGet_dictDel_ne {α} {k k' : String} (m : List (String × α)) (hne : k' ≠ k) :
    dictGet k' (dictDel k m) = dictGet k' m := by
  induction m with
  | nil => rfl
  | cons p r ih =>
    obtain ⟨k₀, v₀⟩ := p
    by_cases hk : k₀ = k
    · subst hk
      simp [dictDel, dictGet, Ne.symm hne]
    · by_cases hk' : k₀ = k'
      · subst hk'
        simp [dictDel, dictGet, hne]
      · simp [dictDel, dictGet, hk, hk', ih]

theorem mem_of_dictGet {α} {k : String} {v : α} {m : List (String × α)} (h : dictGet k m = some v) :
    (k, v) ∈ m := by
  induction m with
  | nil => cases h
  | cons p r ih =>
    obtain ⟨k', v'⟩ := p
    by_cases hk : k' = k
    · simp [dictGet, hk] at h; simp [hk, h]
    · simp [dictGet, hk] at h; exact List.mem_cons_of_mem _ (ih h)

/-! ## Framed and ownership -/

/-- every object created before `n` is the same in `h'`, and nothing was freed -/
def Framed (n : Nat) (h h' : Heap) : Prop :=
  (∀ i, i < n → h'.look i = h.look i) ∧ h.next ≤ h'.next

theorem Framed.refl (n : Nat) (h : Heap) : Framed n h h := ⟨fun _ _ => rfl, Nat.le_refl _⟩

theorem Framed.trans {n : Nat} {h₁ h₂ h₃ : Heap} (a : Framed n h₁ h₂) (b : Framed n h₂ h₃) : Framed n h₁ h₃ :=
  ⟨fun i hi => (b.1 i hi).trans (a.1 i hi), Nat.le_trans a.2 b.2⟩

theorem Framed.mono {n m : Nat} {h h' : Heap} (a : Framed n h h') (hm : m ≤ n) : Framed m h h' :=
  ⟨fun i hi => a.1 i (by omega), a.2⟩

theorem frame_allocs {n : Nat} (h : Heap) (os : List Obj) (hn : n ≤ h.next) : Framed n h (h.allocs os) :=
  ⟨fun i hi => look_allocs_lt h os (Nat.lt_of_lt_of_le hi hn), by rw [next_allocs]; exact Nat.le_add_right _ _⟩

theorem frame_put {n : Nat} (h : Heap) {i : Nat} (o : Obj) (hi : n ≤ i) : Framed n h (h.put i o) :=
  ⟨fun j hj => look_put_ne h o (fun e => by subst e; exact absurd hj (Nat.not_lt.mpr hi)), by rw [next_put]; exact Nat.le_refl _⟩

/-- what a system object created at or after `n` must own -/
def SysOK (n : Nat) : Obj → Prop
  | .sys s => n ≤ s.vars ∧ (s.baseline = none → n ≤ s.params)
  | .ent _ => True
  | .vmap _ => True
  | .var _ => True
  | .par _ => True

/-- the ownership invariant of the systems created at or after `n` -/
def Inv (n : Nat) (h : Heap) : Prop := ∀ X o, n ≤ X → h.look X = some o → SysOK n o

theorem inv_allocs {n : Nat} {h : Heap} (hi : Inv n h) (os : List Obj) (hos : ∀ o ∈ os, SysOK n o) :
    Inv n (h.allocs os) := by
  intro X o hX hl
  rw [look_allocs] at hl
  by_cases hlt : X < h.next
  · rw [if_pos hlt] at hl; exact hi X o hX hl
  · rw [if_neg hlt] at hl; exact hos o (List.mem_of_getElem? hl)

theorem inv_put {n : Nat} {h : Heap} (hi : Inv n h) (i : Oid) (o : Obj) (ho : SysOK n o) :
    Inv n (h.put i o) := by
  intro X o' hX hl
  rw [look_put] at hl
  by_cases hx : i = X
  · rw [if_pos hx] at hl
    by_cases hlt : i < h.next
    · rw [if_pos hlt] at hl; cases hl; exact ho
    · rw [if_neg hlt] at hl; cases hl
  · rw [if_neg hx] at hl; exact hi X o' hX hl

theorem inv_sys {n : Nat} {h : Heap} (hi : Inv n h) {X : Oid} {s : SysObj} (hX : n ≤ X)
    (hs : h.getSys X = some s) : n ≤ s.vars ∧ (s.baseline = none → n ≤ s.params) :=
  hi X _ hX (look_of_getSys hs)

/-- "the operation only wrote objects created at or after `n`, and kept the ownership invariant" -/
def Good (n : Nat) (h h' : Heap) : Prop := Framed n h h' ∧ Inv n h' ∧ n ≤ h'.next

theorem Good.refl {n : Nat} {h : Heap} (hi : Inv n h) (hn : n ≤ h.next) : Good n h h := ⟨Framed.refl _ _, hi, hn⟩

theorem Good.trans {n : Nat} {h₁ h₂ h₃ : Heap} (a : Good n h₁ h₂) (b : Good n h₂ h₃) : Good n h₁ h₃ :=
  ⟨a.1.trans b.1, b.2⟩

theorem good_allocs {n : Nat} {h : Heap} (hi : Inv n h) (hn : n ≤ h.next) (os : List Obj)
    (hos : ∀ o ∈ os, SysOK n o) : Good n h (h.allocs os) :=
  ⟨frame_allocs h os hn, inv_allocs hi os hos, by rw [next_allocs]; exact Nat.le_trans hn (Nat.le_add_right _ _)⟩

theorem good_put {n : Nat} {h : Heap} (hi : Inv n h) (hn : n ≤ h.next) {i : Nat} (o : Obj) (hge : n ≤ i)
    (ho : SysOK n o) : Good n h (h.put i o) :=
  ⟨frame_put h o hge, inv_put hi i o ho, by rw [next_put]; exact hn⟩

/-! ### what each modification does (inversion lemmas) -/

theorem loadVariable_inv (h : Heap) (X : Oid) (cls : ClassDef) (u : Bool) :
    (∃ e, loadVariable h X cls u = (h, .error e)) ∨
    (∃ s m v, h.getSys X = some s ∧ h.getMap s.vars = some m ∧
        ((dictGet cls.name m).isSome && !u) = false ∧ construct h cls (dictGet cls.name m) = .ok v ∧
        loadVariable h X cls u = (bindVar h s m cls.name v, .ok ())) := by
  unfold loadVariable
  cases hs : h.getSys X with
  | none => exact Or.inl ⟨_, rfl⟩
  | some s =>
    dsimp only
    cases hm : h.getMap s.vars with
    | none => exact Or.inl ⟨_, rfl⟩
    | some m =>
      dsimp only
      by_cases hc : ((dictGet cls.name m).isSome && !u) = true
      · rw [if_pos hc]; exact Or.inl ⟨_, rfl⟩
      · rw [if_neg hc]
        cases hv : construct h cls (dictGet cls.name m) with
        | error e => exact Or.inl ⟨_, rfl⟩
        | ok v => exact Or.inr ⟨s, m, v, rfl, hm, by simpa using hc, hv, rfl⟩

theorem replaceVariable_inv (h : Heap) (X : Oid) (cls : ClassDef) :
    (∃ e, replaceVariable h X cls = (h, .error e)) ∨
    (∃ s m, h.getSys X = some s ∧ h.getMap s.vars = some m ∧ dictGet cls.name m = none ∧
        replaceVariable h X cls = loadVariable h X cls false) ∨
    (∃ s m vid, h.getSys X = some s ∧ h.getMap s.vars = some m ∧ dictGet cls.name m = some vid ∧
        replaceVariable h X cls = loadVariable (h.put s.vars (.vmap (dictDel cls.name m))) X cls false) := by
  unfold replaceVariable
  cases hs : h.getSys X with
  | none => exact Or.inl ⟨_, rfl⟩
  | some s =>
    dsimp only
    cases hm : h.getMap s.vars with
    | none => exact Or.inl ⟨_, rfl⟩
    | some m =>
      dsimp only
      cases hd : dictGet cls.name m with
      | none => exact Or.inr (Or.inl ⟨s, m, rfl, hm, hd, rfl⟩)
      | some vid => exact Or.inr (Or.inr ⟨s, m, vid, rfl, hm, hd, rfl⟩)

theorem neutralizeVar_inv (h : Heap) (X : Oid) (name : String) :
    (∃ e, neutralizeVar h X name = (h, .error e)) ∨
    (∃ s m vid v c, h.getSys X = some s ∧ h.getMap s.vars = some m ∧ dictGet name m = some vid ∧
        h.getVar vid = some v ∧ cloneVar h v = .ok c ∧
        neutralizeVar h X name = (bindVar h s m name { c with isNeutralized := true, label := some (neutralizedLabel v.label) }, .ok ())) := by
  unfold neutralizeVar
  cases hs : h.getSys X with
  | none => exact Or.inl ⟨_, rfl⟩
  | some s =>
    dsimp only
    cases hm : h.getMap s.vars with
    | none => exact Or.inl ⟨_, rfl⟩
    | some m =>
      dsimp only
      cases hd : dictGet name m with
      | none => exact Or.inl ⟨_, rfl⟩
      | some vid =>
        dsimp only
        cases hv : h.getVar vid with
        | none => exact Or.inl ⟨_, rfl⟩
        | some v =>
          dsimp only
          cases hc : cloneVar h v with
          | error e => exact Or.inl ⟨_, rfl⟩
          | ok c => exact Or.inr ⟨s, m, vid, v, c, rfl, hm, hd, hv, hc, rfl⟩

theorem annualizeVar_inv (h : Heap) (X : Oid) (name : String) :
    (∃ e, annualizeVar h X name = (h, .error e)) ∨
    (∃ s m vid v c, h.getSys X = some s ∧ h.getMap s.vars = some m ∧ dictGet name m = some vid ∧
        h.getVar vid = some v ∧ cloneVar h v = .ok c ∧
        annualizeVar h X name =
          (bindVar h s m name { c with formulas := v.formulas.map (fun p => (p.1, Fml.annual p.2)),
                                       isNeutralized := v.isNeutralized }, .ok ())) := by
  unfold annualizeVar
  cases hs : h.getSys X with
  | none => exact Or.inl ⟨_, rfl⟩
  | some s =>
    dsimp only
    cases hm : h.getMap s.vars with
    | none => exact Or.inl ⟨_, rfl⟩
    | some m =>
      dsimp only
      cases hd : dictGet name m with
      | none => exact Or.inl ⟨_, rfl⟩
      | some vid =>
        dsimp only
        cases hv : h.getVar vid with
        | none => exact Or.inl ⟨_, rfl⟩
        | some v =>
          dsimp only
          cases hc : cloneVar h v with
          | error e => exact Or.inl ⟨_, rfl⟩
          | ok c => exact Or.inr ⟨s, m, vid, v, c, rfl, hm, hd, hv, hc, rfl⟩

theorem modifyParams_inv (h : Heap) (X : Oid) (us : List PUpd) :
    (∃ e, modifyParams h X us = (h, .error e)) ∨
    (∃ s p b p', h.getSys X = some s ∧ h.getPar s.params = some p ∧ s.baseline = some b ∧
        applyUpds p us = (p', .ok ()) ∧
        modifyParams h X us = ((h.allocs [.par p']).put X (.sys { s with params := h.next }), .ok ())) ∨
    (∃ s p p' r, h.getSys X = some s ∧ h.getPar s.params = some p ∧ s.baseline = none ∧
        applyUpds p us = (p', r) ∧ modifyParams h X us = (h.put s.params (.par p'), r)) := by
  unfold modifyParams
  cases hs : h.getSys X with
  | none => exact Or.inl ⟨_, rfl⟩
  | some s =>
    dsimp only
    cases hp : h.getPar s.params with
    | none => exact Or.inl ⟨_, rfl⟩
    | some p =>
      dsimp only
      cases hb : s.baseline with
      | some b =>
        dsimp only
        cases hu : applyUpds p us with
        | mk p' r =>
          cases r with
          | error e => exact Or.inl ⟨_, rfl⟩
          | ok u => cases u; exact Or.inr (Or.inl ⟨s, p, b, p', rfl, hp, hb, hu, by rw [hb]; rfl⟩)
      | none =>
        dsimp only
        cases hu : applyUpds p us with
        | mk p' r => exact Or.inr (Or.inr ⟨s, p, p', r, rfl, hp, hb, hu, rfl⟩)

theorem loadExtension_inv (h : Heap) (X : Oid) (e : Ext) :
    (loadExtension h X e).1 = (addVariables h X e.vars).1 ∨
    (∃ h1 s p b p' r, addVariables h X e.vars = (h1, .ok ()) ∧ h1.getSys X = some s ∧
        h1.getPar s.params = some p ∧ s.baseline = some b ∧ e.params ≠ [] ∧
        loadExtension h X e = ((h1.allocs [.par p']).put X (.sys { s with params := h1.next }), r)) ∨
    (∃ h1 s p p' r, addVariables h X e.vars = (h1, .ok ()) ∧ h1.getSys X = some s ∧
        h1.getPar s.params = some p ∧ s.baseline = none ∧ e.params ≠ [] ∧
        loadExtension h X e = (h1.put s.params (.par p'), r)) := by
  unfold loadExtension
  cases hr : addVariables h X e.vars with
  | mk h1 res =>
    cases res with
    | error er => exact Or.inl rfl
    | ok u =>
      cases u
      dsimp only
      cases hq : e.params with
      | nil => exact Or.inl rfl
      | cons q qs =>
        dsimp only
        cases hs : h1.getSys X with
        | none => exact Or.inl rfl
        | some s =>
          dsimp only
          cases hp : h1.getPar s.params with
          | none => exact Or.inl rfl
          | some p =>
            dsimp only
            cases hb : s.baseline with
            | some b =>
              dsimp only
              cases hm : mergeParams p (q :: qs) with
              | mk p' r => exact Or.inr (Or.inl ⟨h1, s, p, b, p', r, rfl, hs, hp, hb, by simp, by rw [hb]⟩)
            | none =>
              dsimp only
              cases hm : mergeParams p (q :: qs) with
              | mk p' r => exact Or.inr (Or.inr ⟨h1, s, p, p', r, rfl, hs, hp, hb, by simp, rfl⟩)

/-! ### one frame lemma per operation -/

theorem good_bindVar {n : Nat} {h : Heap} (hi : Inv n h) (hn : n ≤ h.next) (s : SysObj)
    (m : List (String × Oid)) (name : String) (v : VarObj) (hv : n ≤ s.vars) :
    Good n h (bindVar h s m name v) := by
  unfold bindVar
  have g1 : Good n h (h.allocs [.var v]) := good_allocs hi hn _ (by intro o ho; simp at ho; subst ho; trivial)
  exact g1.trans (good_put g1.2.1 g1.2.2 _ hv trivial)

theorem good_loadVariable {n : Nat} {h : Heap} (hi : Inv n h) (hn : n ≤ h.next) {X : Nat} (hX : n ≤ X)
    (cls : ClassDef) (u : Bool) : Good n h (loadVariable h X cls u).1 := by
  rcases loadVariable_inv h X cls u with ⟨e, he⟩ | ⟨s, m, v, hs, hm, _, _, he⟩
  · rw [he]; exact Good.refl hi hn
  · rw [he]; exact good_bindVar hi hn s m _ v (inv_sys hi hX hs).1

theorem good_replaceVariable {n : Nat} {h : Heap} (hi : Inv n h) (hn : n ≤ h.next) {X : Nat} (hX : n ≤ X)
    (cls : ClassDef) : Good n h (replaceVariable h X cls).1 := by
  rcases replaceVariable_inv h X cls with ⟨e, he⟩ | ⟨s, m, hs, hm, _, he⟩ | ⟨s, m, vid, hs, hm, _, he⟩
  · rw [he]; exact Good.refl hi hn
  · rw [he]; exact good_loadVariable hi hn hX cls false
  · rw [he]
    have g1 : Good n h (h.put s.vars (.vmap (dictDel cls.name m))) :=
      good_put hi hn _ (inv_sys hi hX hs).1 trivial
    exact g1.trans (good_loadVariable g1.2.1 g1.2.2 hX cls false)

theorem good_neutralizeVar {n : Nat} {h : Heap} (hi : Inv n h) (hn : n ≤ h.next) {X : Nat} (hX : n ≤ X)
    (name : String) : Good n h (neutralizeVar h X name).1 := by
  rcases neutralizeVar_inv h X name with ⟨e, he⟩ | ⟨s, m, vid, v, c, hs, hm, _, _, _, he⟩
  · rw [he]; exact Good.refl hi hn
  · rw [he]; exact good_bindVar hi hn s m _ _ (inv_sys hi hX hs).1

theorem good_annualizeVar {n : Nat} {h : Heap} (hi : Inv n h) (hn : n ≤ h.next) {X : Nat} (hX : n ≤ X)
    (name : String) : Good n h (annualizeVar h X name).1 := by
  rcases annualizeVar_inv h X name with ⟨e, he⟩ | ⟨s, m, vid, v, c, hs, hm, _, _, _, he⟩
  · rw [he]; exact Good.refl hi hn
  · rw [he]; exact good_bindVar hi hn s m _ _ (inv_sys hi hX hs).1

theorem good_modifyParams {n : Nat} {h : Heap} (hi : Inv n h) (hn : n ≤ h.next) {X : Nat} (hX : n ≤ X)
    (us : List PUpd) : Good n h (modifyParams h X us).1 := by
  rcases modifyParams_inv h X us with ⟨e, he⟩ | ⟨s, p, b, p', hs, hp, hb, _, he⟩ | ⟨s, p, p', r, hs, hp, hb, _, he⟩
  · rw [he]; exact Good.refl hi hn
  · rw [he]
    have hinv := inv_sys hi hX hs
    have g1 : Good n h (h.allocs [.par p']) :=
      good_allocs hi hn _ (by intro o ho; simp at ho; subst ho; trivial)
    refine g1.trans (good_put g1.2.1 g1.2.2 _ hX ?_)
    exact ⟨hinv.1, fun hnone => by simp [hb] at hnone⟩
  · rw [he]
    exact good_put hi hn _ ((inv_sys hi hX hs).2 hb) trivial

theorem good_addVariables' {n : Nat} {h : Heap} (hi : Inv n h) (hn : n ≤ h.next) {X : Nat} (hX : n ≤ X)
    (cs : List ClassDef) : Good n h (addVariables h X cs).1 := by
  induction cs generalizing h with
  | nil => exact Good.refl hi hn
  | cons c r ih =>
    have g1 := good_loadVariable hi hn hX c false
    unfold addVariables
    cases hr : loadVariable h X c false with
    | mk h1 res =>
      rw [hr] at g1
      cases res with
      | ok u => cases u; exact g1.trans (ih g1.2.1 g1.2.2)
      | error e => exact g1

/-- `load_extension` writes only objects owned by its target: a plain derived system is a copy and
    owns its tree; a system with a baseline merges into a fresh copy (repair F-C14f) -/
theorem good_loadExtension {n : Nat} {h : Heap} (hi : Inv n h) (hn : n ≤ h.next) {X : Nat} (hX : n ≤ X)
    (e : Ext) : Good n h (loadExtension h X e).1 := by
  have g1 := good_addVariables' hi hn hX e.vars
  rcases loadExtension_inv h X e with he | ⟨h1, s, p, b, p', r, ha, hs, hp, hb, _, he⟩ | ⟨h1, s, p, p', r, ha, hs, hp, hb, _, he⟩
  · rw [he]; exact g1
  · rw [ha] at g1
    rw [he]
    have hinv := inv_sys g1.2.1 hX hs
    have g2 : Good n h1 (h1.allocs [.par p']) :=
      good_allocs g1.2.1 g1.2.2 _ (by intro o ho; simp at ho; subst ho; trivial)
    exact g1.trans (g2.trans (good_put g2.2.1 g2.2.2 _ hX ⟨hinv.1, fun hnone => by simp [hb] at hnone⟩))
  · rw [ha] at g1
    rw [he]
    exact g1.trans (good_put g1.2.1 g1.2.2 _ ((inv_sys g1.2.1 hX hs).2 hb) trivial)

theorem good_applyMod {n : Nat} {h : Heap} (hi : Inv n h) (hn : n ≤ h.next) {X : Nat} (hX : n ≤ X)
    (m : Mod) : Good n h (applyMod h X m).1 := by
  cases m with
  | add c => exact good_loadVariable hi hn hX c false
  | update c => exact good_loadVariable hi hn hX c true
  | replace c => exact good_replaceVariable hi hn hX c
  | neutralize nm => exact good_neutralizeVar hi hn hX nm
  | annualize nm => exact good_annualizeVar hi hn hX nm
  | params us => exact good_modifyParams hi hn hX us
  | loadExt e => exact good_loadExtension hi hn hX e

theorem good_applyMods {n : Nat} {h : Heap} (hi : Inv n h) (hn : n ≤ h.next) {X : Nat} (hX : n ≤ X)
    (ms : List Mod) : Good n h (applyMods h X ms).1 := by
  induction ms generalizing h with
  | nil => exact Good.refl hi hn
  | cons m r ih =>
    have g1 := good_applyMod hi hn hX m
    unfold applyMods
    cases hr : applyMod h X m with
    | mk h1 res =>
      rw [hr] at g1
      cases res with
      | ok u => cases u; exact g1.trans (ih g1.2.1 g1.2.2)
      | error e => exact g1

theorem copyVar_inv {fuel : Nat} {h : Heap} {vid : Oid} {h1 : Heap} {vid' : Oid}
    (hc : copyVar (fuel + 1) h vid = some (h1, vid')) :
    ∃ v, h.getVar vid = some v ∧
      ((v.baseline = none ∧ h1 = h.allocs [.var v] ∧ vid' = h.next) ∨
       (∃ b h0 b', v.baseline = some b ∧ copyVar fuel h b = some (h0, b') ∧
          h1 = h0.allocs [.var { v with baseline := some b' }] ∧ vid' = h0.next)) := by
  unfold copyVar at hc
  cases hv : h.getVar vid with
  | none => rw [hv] at hc; cases hc
  | some v =>
    rw [hv] at hc
    dsimp only at hc
    refine ⟨v, rfl, ?_⟩
    cases hb : v.baseline with
    | none =>
      rw [hb] at hc
      simp only [Heap.alloc, Option.some.injEq, Prod.mk.injEq] at hc
      obtain ⟨rfl, rfl⟩ := hc
      exact Or.inl ⟨rfl, rfl, rfl⟩
    | some b =>
      rw [hb] at hc
      dsimp only at hc
      cases hr : copyVar fuel h b with
      | none => rw [hr] at hc; cases hc
      | some r =>
        obtain ⟨h0, b'⟩ := r
        rw [hr] at hc
        simp only [Heap.alloc, Option.some.injEq, Prod.mk.injEq] at hc
        obtain ⟨rfl, rfl⟩ := hc
        exact Or.inr ⟨b, h0, b', rfl, hr, rfl, rfl⟩

theorem copyVars_inv {h : Heap} {k : String} {vid : Oid} {r : List (String × Oid)} {h2 : Heap}
    {m' : List (String × Oid)} (hc : copyVars h ((k, vid) :: r) = some (h2, m')) :
    ∃ h1 vid' r', copyVar (vid + 1) h vid = some (h1, vid') ∧ copyVars h1 r = some (h2, r') ∧
      m' = (k, vid') :: r' := by
  unfold copyVars at hc
  cases h1 : copyVar (vid + 1) h vid with
  | none => rw [h1] at hc; cases hc
  | some r1 =>
    obtain ⟨ha, vid'⟩ := r1
    rw [h1] at hc
    dsimp only at hc
    cases h2' : copyVars ha r with
    | none => rw [h2'] at hc; cases hc
    | some r2 =>
      obtain ⟨hb, r'⟩ := r2
      rw [h2'] at hc
      simp only [Option.some.injEq, Prod.mk.injEq] at hc
      obtain ⟨rfl, rfl⟩ := hc
      exact ⟨ha, vid', r', rfl, h2', rfl⟩

/-- `copy.deepcopy` of a variable only allocates (variable objects) -/
theorem copyVar_allocs (fuel : Nat) (h : Heap) (vid : Oid) {h1 : Heap} {vid' : Oid}
    (hc : copyVar fuel h vid = some (h1, vid')) :
    ∃ os, h1 = h.allocs os ∧ (∀ o ∈ os, ∃ v, o = Obj.var v) := by
  induction fuel generalizing h vid h1 vid' with
  | zero => cases hc
  | succ fuel ih =>
    obtain ⟨v, hv, hcase⟩ := copyVar_inv hc
    rcases hcase with ⟨_, rfl, _⟩ | ⟨b, h0, b', _, hr, rfl, _⟩
    · exact ⟨[.var v], rfl, by intro o ho; simp at ho; exact ⟨v, ho⟩⟩
    · obtain ⟨os, hos, hall⟩ := ih h b hr
      refine ⟨os ++ [.var { v with baseline := some b' }], ?_, ?_⟩
      · rw [hos]; simp [Heap.allocs]
      · intro o ho
        rcases List.mem_append.mp ho with ho | ho
        · exact hall o ho
        · simp at ho; exact ⟨_, ho⟩

theorem copyVars_allocs (h : Heap) (m : List (String × Oid)) {h2 : Heap} {m' : List (String × Oid)}
    (hc : copyVars h m = some (h2, m')) :
    ∃ os, h2 = h.allocs os ∧ (∀ o ∈ os, ∃ v, o = Obj.var v) := by
  induction m generalizing h h2 m' with
  | nil =>
    simp only [copyVars, Option.some.injEq, Prod.mk.injEq] at hc
    exact ⟨[], by rw [← hc.1]; simp [Heap.allocs], by intro o ho; cases ho⟩
  | cons p r ih =>
    obtain ⟨k, vid⟩ := p
    obtain ⟨ha, vid', r', h1, h2', _⟩ := copyVars_inv hc
    obtain ⟨os1, e1, a1⟩ := copyVar_allocs _ _ _ h1
    obtain ⟨os2, e2, a2⟩ := ih ha h2'
    refine ⟨os1 ++ os2, ?_, ?_⟩
    · rw [e2, e1]; simp [Heap.allocs]
    · intro o ho
      rcases List.mem_append.mp ho with ho | ho
      · exact a1 o ho
      · exact a2 o ho

theorem sysOK_of_var {n : Nat} {os : List Obj} (hall : ∀ o ∈ os, ∃ v, o = Obj.var v) : ∀ o ∈ os, SysOK n o := by
  intro o ho
  obtain ⟨v, rfl⟩ := hall o ho
  trivial

theorem sysOK_of_entityCopies {n : Nat} (h : Heap) (owner : Oid) (es : List Oid) {os : List Obj}
    (hc : entityCopies h owner es = some os) : ∀ o ∈ os, SysOK n o := by
  induction es generalizing os with
  | nil => simp [entityCopies] at hc; subst hc; intro o ho; cases ho
  | cons e r ih =>
    unfold entityCopies at hc
    cases he : h.getEnt e with
    | none => rw [he] at hc; simp at hc
    | some eo =>
      cases hr : entityCopies h owner r with
      | none => rw [he, hr] at hc; simp at hc
      | some rest =>
        rw [he, hr] at hc
        simp only [Option.some.injEq] at hc
        subst hc
        intro o ho
        rcases List.mem_cons.mp ho with rfl | ho
        · trivial
        · exact ih hr o ho

theorem good_cloneSys {n : Nat} {h : Heap} (hi : Inv n h) (hn : n ≤ h.next) (src : Oid) {h' : Heap} {N : Oid}
    (hc : cloneSys h src = .ok (h', N)) : Good n h h' ∧ N = h.next := by
  unfold cloneSys at hc
  cases hs : h.getSys src with
  | none => rw [hs] at hc; cases hc
  | some s =>
    rw [hs] at hc
    simp only [] at hc
    cases he : entityCopies h h.next s.entities with
    | none => rw [he] at hc; simp at hc
    | some ents =>
      cases hp : h.getPar s.params with
      | none => rw [he, hp] at hc; simp at hc
      | some p =>
        cases hm : h.getMap s.vars with
        | none => rw [he, hp, hm] at hc; simp at hc
        | some m =>
          rw [he, hp, hm] at hc
          simp only [] at hc
          generalize hh1 : h.allocs _ = h1 at hc
          cases hcv : copyVars h1 m with
          | none => rw [hcv] at hc; cases hc
          | some r =>
            obtain ⟨h2, m'⟩ := r
            rw [hcv] at hc
            simp only [Except.ok.injEq, Prod.mk.injEq] at hc
            obtain ⟨hh', hN⟩ := hc
            refine ⟨?_, hN.symm⟩
            have g1 : Good n h h1 := by
              rw [← hh1]
              refine good_allocs hi hn _ ?_
              intro o ho
              rcases List.mem_cons.mp ho with rfl | ho
              · exact ⟨by show n ≤ h.next; exact hn, fun _ => by show n ≤ h.next + 1 + ents.length; omega⟩
              · rcases List.mem_append.mp ho with ho | ho
                · exact sysOK_of_entityCopies h _ _ he o ho
                · simp at ho; subst ho; trivial
            obtain ⟨os, e2, a2⟩ := copyVars_allocs h1 m hcv
            have g2 : Good n h1 h2 := by rw [e2]; exact good_allocs g1.2.1 g1.2.2 _ (sysOK_of_var a2)
            have g12 := g1.trans g2
            have g3 : Good n h2 (h2.allocs [.vmap m']) :=
              good_allocs g12.2.1 g12.2.2 _ (by intro o ho; simp at ho; subst ho; trivial)
            have g123 := g12.trans g3
            rw [← hh']
            refine g123.trans (good_put g123.2.1 g123.2.2 _ hn ?_)
            refine ⟨?_, fun _ => by show n ≤ h.next + 1 + ents.length; omega⟩
            show n ≤ (h2.alloc (.vmap m')).2
            rw [alloc_snd]
            exact g12.2.2

theorem good_reformInit {n : Nat} {h : Heap} (hi : Inv n h) (hn : n ≤ h.next) (src : Oid) {h' : Heap} {R : Oid}
    (hc : reformInit h src = .ok (h', R)) : Good n h h' ∧ R = h.next := by
  unfold reformInit at hc
  cases hs : h.getSys src with
  | none => rw [hs] at hc; cases hc
  | some s =>
    rw [hs] at hc
    simp only [] at hc
    cases he : entityCopies h h.next s.entities with
    | none => rw [he] at hc; simp at hc
    | some ents =>
      cases hm : h.getMap s.vars with
      | none => rw [he, hm] at hc; simp at hc
      | some m =>
        rw [he, hm] at hc
        simp only [Except.ok.injEq, Prod.mk.injEq] at hc
        obtain ⟨hh', hR⟩ := hc
        refine ⟨?_, hR.symm⟩
        rw [← hh']
        refine good_allocs hi hn _ ?_
        intro o ho
        rcases List.mem_cons.mp ho with rfl | ho
        · exact ⟨by show n ≤ h.next + 1 + ents.length; omega, fun hb => by simp at hb⟩
        · rcases List.mem_append.mp ho with ho | ho
          · exact sysOK_of_entityCopies h _ _ he o ho
          · simp at ho; subst ho; trivial

theorem good_reformSys {n : Nat} {h : Heap} (hi : Inv n h) (hn : n ≤ h.next) (src : Oid) (mods : List Mod) :
    Good n h (reformSys h src mods).1 ∧ ∀ R, (reformSys h src mods).2 = .ok R → R = h.next := by
  unfold reformSys
  cases hr : reformInit h src with
  | error e => exact ⟨Good.refl hi hn, fun R hR => by cases hR⟩
  | ok r =>
    obtain ⟨h1, sid⟩ := r
    obtain ⟨g1, hsid⟩ := good_reformInit hi hn src hr
    have g2 := good_applyMods g1.2.1 g1.2.2 (X := sid) (by rw [hsid]; exact hn) mods
    simp only []
    cases hm : applyMods h1 sid mods with
    | mk h2 res =>
      rw [hm] at g2
      cases res with
      | ok u => cases u; exact ⟨g1.trans g2, fun R hR => by simp at hR; rw [← hR, hsid]⟩
      | error e => exact ⟨g1.trans g2, fun R hR => by cases hR⟩

/-! ### extensions and the test runner's derivation -/

theorem getSys_put_nonsys {h : Heap} {j Y : Nat} {o : Obj} {x : SysObj} (ho : ∀ s, o ≠ .sys s)
    (hg : (h.put j o).getSys Y = some x) : h.getSys Y = some x := by
  have hl := look_of_getSys hg
  rw [look_put] at hl
  by_cases hji : j = Y
  · rw [if_pos hji] at hl
    by_cases hlt : j < h.next
    · rw [if_pos hlt] at hl; cases hl; exact absurd rfl (ho x)
    · rw [if_neg hlt] at hl; cases hl
  · rw [if_neg hji] at hl; exact getSys_of_look hl

theorem getSys_allocs_nonsys {h : Heap} {os : List Obj} {Y : Nat} {x : SysObj}
    (hos : ∀ o ∈ os, ∀ s, o ≠ Obj.sys s) (hg : (h.allocs os).getSys Y = some x) : h.getSys Y = some x := by
  have hl := look_of_getSys hg
  rw [look_allocs] at hl
  by_cases hlt : Y < h.next
  · rw [if_pos hlt] at hl; exact getSys_of_look hl
  · rw [if_neg hlt] at hl; exact absurd rfl (hos _ (List.mem_of_getElem? hl) x)

theorem getSys_bindVar {h : Heap} {s0 : SysObj} {m : List (String × Oid)} {name : String} {w : VarObj}
    {Y : Nat} {x : SysObj} (hg : (bindVar h s0 m name w).getSys Y = some x) : h.getSys Y = some x := by
  have hb : bindVar h s0 m name w = (h.allocs [.var w]).put s0.vars (.vmap (dictSet name h.next m)) := rfl
  rw [hb] at hg
  exact getSys_allocs_nonsys (by intro o ho s; simp at ho; subst ho; simp)
    (getSys_put_nonsys (by intro s; simp) hg)

theorem getSys_loadVariable {h : Heap} {X : Oid} {cls : ClassDef} {u : Bool} {Y : Nat} {x : SysObj}
    (hg : (loadVariable h X cls u).1.getSys Y = some x) : h.getSys Y = some x := by
  rcases loadVariable_inv h X cls u with ⟨e, he⟩ | ⟨s, m, v, _, _, _, _, he⟩
  · rw [he] at hg; exact hg
  · rw [he] at hg; exact getSys_bindVar hg

theorem getSys_addVariables {h : Heap} {X : Oid} {cs : List ClassDef} {Y : Nat} {x : SysObj}
    (hg : (addVariables h X cs).1.getSys Y = some x) : h.getSys Y = some x := by
  induction cs generalizing h with
  | nil => exact hg
  | cons c r ih =>
    unfold addVariables at hg
    cases hr : loadVariable h X c false with
    | mk h1 res =>
      rw [hr] at hg
      have back : h1.getSys Y = some x → h.getSys Y = some x := fun h' => by
        have : (loadVariable h X c false).1.getSys Y = some x := by rw [hr]; exact h'
        exact getSys_loadVariable this
      cases res with
      | ok u => cases u; exact back (ih hg)
      | error e => exact back hg

theorem next_loadVariable (h : Heap) (X : Oid) (c : ClassDef) (u : Bool) : h.next ≤ (loadVariable h X c u).1.next := by
  rcases loadVariable_inv h X c u with ⟨e, he⟩ | ⟨s, m, v, _, _, _, _, he⟩
  · rw [he]; exact Nat.le_refl _
  · rw [he]
    show h.next ≤ ((h.allocs [.var v]).put s.vars _).next
    rw [next_put, next_allocs]; exact Nat.le_add_right _ _

theorem next_addVariables (h : Heap) (X : Oid) (cs : List ClassDef) : h.next ≤ (addVariables h X cs).1.next := by
  induction cs generalizing h with
  | nil => exact Nat.le_refl _
  | cons c r ih =>
    have n1 := next_loadVariable h X c false
    unfold addVariables
    cases hr : loadVariable h X c false with
    | mk h1 res =>
      rw [hr] at n1
      cases res with
      | ok u => cases u; exact Nat.le_trans n1 (ih h1)
      | error e => exact n1

/-- the system objects after one modification of `X`: the same, except that a parameter modifier on
    a reform re-points `X` to a tree allocated just now -/
theorem applyMod_getSys {h : Heap} {X : Oid} {m : Mod} {Y : Nat} {x : SysObj}
    (hg : (applyMod h X m).1.getSys Y = some x) : h.getSys Y = some x ∨ (Y = X ∧ h.next ≤ x.params) := by
  cases m with
  | add c => exact Or.inl (getSys_loadVariable hg)
  | update c => exact Or.inl (getSys_loadVariable hg)
  | replace c =>
    left
    change (replaceVariable h X c).1.getSys Y = some x at hg
    rcases replaceVariable_inv h X c with ⟨e, he⟩ | ⟨s, m, _, _, _, he⟩ | ⟨s, m, vid, _, _, _, he⟩
    · rw [he] at hg; exact hg
    · rw [he] at hg; exact getSys_loadVariable hg
    · rw [he] at hg; exact getSys_put_nonsys (by intro s; simp) (getSys_loadVariable hg)
  | neutralize nm =>
    left
    change (neutralizeVar h X nm).1.getSys Y = some x at hg
    rcases neutralizeVar_inv h X nm with ⟨e, he⟩ | ⟨s, m, vid, v, c, _, _, _, _, _, he⟩
    · rw [he] at hg; exact hg
    · rw [he] at hg; exact getSys_bindVar hg
  | annualize nm =>
    left
    change (annualizeVar h X nm).1.getSys Y = some x at hg
    rcases annualizeVar_inv h X nm with ⟨e, he⟩ | ⟨s, m, vid, v, c, _, _, _, _, _, he⟩
    · rw [he] at hg; exact hg
    · rw [he] at hg; exact getSys_bindVar hg
  | params us =>
    change (modifyParams h X us).1.getSys Y = some x at hg
    rcases modifyParams_inv h X us with ⟨e, he⟩ | ⟨s, p, b, p', hs, _, _, _, he⟩ | ⟨s, p, p', r, _, _, _, _, he⟩
    · rw [he] at hg; exact Or.inl hg
    · rw [he] at hg
      by_cases hY : X = Y
      · right
        subst hY
        have hl := look_of_getSys hg
        rw [look_put, if_pos rfl] at hl
        by_cases hlt : X < (h.allocs [Obj.par p']).next
        · rw [if_pos hlt] at hl
          simp only [Option.some.injEq, Obj.sys.injEq] at hl
          rw [← hl]
          exact ⟨rfl, Nat.le_refl _⟩
        · rw [if_neg hlt] at hl; cases hl
      · left
        have hl := look_of_getSys hg
        rw [look_put_ne _ _ hY] at hl
        exact getSys_allocs_nonsys (by intro o ho s; simp at ho; subst ho; simp) (getSys_of_look hl)
    · rw [he] at hg; exact Or.inl (getSys_put_nonsys (by intro s; simp) hg)
  | loadExt e =>
    change (loadExtension h X e).1.getSys Y = some x at hg
    rcases loadExtension_inv h X e with he | ⟨h1, s, p, b, p', r, ha, hs, _, _, _, he⟩ | ⟨h1, s, p, p', r, ha, _, _, _, _, he⟩
    · rw [he] at hg; exact Or.inl (getSys_addVariables hg)
    · have hgrow : h.next ≤ h1.next := by have := next_addVariables h X e.vars; rw [ha] at this; exact this
      have back : h1.getSys Y = some x → h.getSys Y = some x := fun h' =>
        getSys_addVariables (by rw [ha]; exact h')
      rw [he] at hg
      by_cases hY : X = Y
      · right
        subst hY
        have hl := look_of_getSys hg
        rw [look_put, if_pos rfl] at hl
        by_cases hlt : X < (h1.allocs [Obj.par p']).next
        · rw [if_pos hlt] at hl
          simp only [Option.some.injEq, Obj.sys.injEq] at hl
          rw [← hl]
          exact ⟨rfl, hgrow⟩
        · rw [if_neg hlt] at hl; cases hl
      · left
        have hl := look_of_getSys hg
        rw [look_put_ne _ _ hY] at hl
        exact back (getSys_allocs_nonsys (by intro o ho s; simp at ho; subst ho; simp) (getSys_of_look hl))
    · rw [he] at hg
      exact Or.inl (getSys_addVariables (by rw [ha]; exact getSys_put_nonsys (by intro s; simp) hg))

/-- `X` holds a parameter tree created at or after `n` (it may update it in place) -/
def OwnsP (n : Nat) (h : Heap) (X : Oid) : Prop := ∀ s, h.getSys X = some s → n ≤ s.params

theorem ownsP_applyMod {n : Nat} {h : Heap} {X : Oid} (hn : n ≤ h.next) (ho : OwnsP n h X) (m : Mod) :
    OwnsP n (applyMod h X m).1 X := by
  intro s' hs'
  rcases applyMod_getSys hs' with h1 | ⟨_, h2⟩
  · exact ho s' h1
  · exact Nat.le_trans hn h2

theorem ownsP_applyMods {n : Nat} {h : Heap} {X : Nat} (hi : Inv n h) (hn : n ≤ h.next) (hX : n ≤ X)
    (ho : OwnsP n h X) (ms : List Mod) : OwnsP n (applyMods h X ms).1 X := by
  induction ms generalizing h with
  | nil => exact ho
  | cons m r ih =>
    have g1 := good_applyMod hi hn hX m
    have o1 := ownsP_applyMod hn ho m
    unfold applyMods
    cases hr : applyMod h X m with
    | mk h1 res =>
      rw [hr] at g1 o1
      cases res with
      | ok u => cases u; exact ih g1.2.1 g1.2.2 o1
      | error e => exact o1

theorem ownsP_reformInit {n : Nat} {h : Heap} {src : Oid} {h1 : Heap} {R : Oid}
    (hc : reformInit h src = .ok (h1, R)) (ho : OwnsP n h src) : OwnsP n h1 R := by
  unfold reformInit at hc
  cases hs : h.getSys src with
  | none => rw [hs] at hc; cases hc
  | some s =>
    rw [hs] at hc
    dsimp only at hc
    cases he : entityCopies h h.next s.entities with
    | none => rw [he] at hc; simp at hc
    | some ents =>
      cases hm : h.getMap s.vars with
      | none => rw [he, hm] at hc; simp at hc
      | some m =>
        rw [he, hm] at hc
        simp only [Except.ok.injEq, Prod.mk.injEq] at hc
        obtain ⟨hh, hR⟩ := hc
        subst hR
        intro s' hs'
        have hl := look_of_getSys hs'
        rw [← hh] at hl
        have h0 : (h.allocs (Obj.sys ⟨(List.range ents.length).map (fun i => h.next + 1 + i),
            h.next + 1 + ents.length, s.params, some src⟩ :: ents ++ [Obj.vmap m])).look h.next
            = some (Obj.sys ⟨(List.range ents.length).map (fun i => h.next + 1 + i),
                h.next + 1 + ents.length, s.params, some src⟩) := by
          have := look_allocs_ge h (Obj.sys ⟨(List.range ents.length).map (fun i => h.next + 1 + i),
            h.next + 1 + ents.length, s.params, some src⟩ :: ents ++ [Obj.vmap m]) 0
          simpa using this
        rw [h0] at hl
        simp only [Option.some.injEq, Obj.sys.injEq] at hl
        rw [← hl]
        exact ho s hs

theorem ownsP_reformSys {n : Nat} {h : Heap} (hi : Inv n h) (hn : n ≤ h.next) {src : Oid} (ho : OwnsP n h src)
    (mods : List Mod) : ∀ R, (reformSys h src mods).2 = .ok R → OwnsP n (reformSys h src mods).1 R := by
  unfold reformSys
  cases hr : reformInit h src with
  | error e => intro R hR; cases hR
  | ok r =>
    obtain ⟨h1, sid⟩ := r
    obtain ⟨g1, hsid⟩ := good_reformInit hi hn src hr
    have o1 := ownsP_reformInit hr ho
    have o2 := ownsP_applyMods g1.2.1 g1.2.2 (X := sid) (by rw [hsid]; exact hn) o1 mods
    dsimp only
    cases hm : applyMods h1 sid mods with
    | mk h2 res =>
      rw [hm] at o2
      cases res with
      | ok u => cases u; intro R hR; simp at hR; rw [← hR]; exact o2
      | error e => intro R hR; cases hR

/-- the reforms of a derivation, stacked on a system that owns its tree: only fresh objects are
    written, and the last reform owns its tree too -/
theorem good_applyReforms {n : Nat} {h : Heap} (hi : Inv n h) (hn : n ≤ h.next) {cur : Nat} (hcur : n ≤ cur)
    (ho : OwnsP n h cur) (rs : List (List Mod)) :
    Good n h (applyReforms h cur rs).1 ∧
    ∀ R, (applyReforms h cur rs).2 = .ok R → n ≤ R ∧ OwnsP n (applyReforms h cur rs).1 R := by
  induction rs generalizing h cur with
  | nil => exact ⟨Good.refl hi hn, fun R hR => by simp [applyReforms] at hR; rw [← hR]; exact ⟨hcur, ho⟩⟩
  | cons mods r ih =>
    obtain ⟨g1, hR1⟩ := good_reformSys hi hn cur mods
    have o1 := ownsP_reformSys hi hn ho mods
    unfold applyReforms
    cases hr : reformSys h cur mods with
    | mk h1 res =>
      rw [hr] at g1 hR1 o1
      cases res with
      | error e => exact ⟨g1, fun R hR => by cases hR⟩
      | ok R1 =>
        have hge : n ≤ R1 := by rw [hR1 R1 rfl]; exact hn
        obtain ⟨g2, h2⟩ := ih g1.2.1 g1.2.2 hge (o1 R1 rfl)
        exact ⟨g1.trans g2, h2⟩

theorem good_loadExtensions {n : Nat} {h : Heap} (hi : Inv n h) (hn : n ≤ h.next) {X : Nat} (hX : n ≤ X)
    (es : List Ext) : Good n h (loadExtensions h X es).1 := by
  induction es generalizing h with
  | nil => exact Good.refl hi hn
  | cons e r ih =>
    have g1 := good_loadExtension hi hn hX e
    unfold loadExtensions
    cases hr : loadExtension h X e with
    | mk h1 res =>
      rw [hr] at g1
      cases res with
      | ok u => cases u; exact g1.trans (ih g1.2.1 g1.2.2)
      | error er => exact g1

/-- a clone owns its parameter tree, whatever it is a clone of -/
theorem ownsP_cloneSys {n : Nat} {h : Heap} (hn : n ≤ h.next) {src : Oid} {h' : Heap} {N : Oid}
    (hc : cloneSys h src = .ok (h', N)) : OwnsP n h' N := by
  unfold cloneSys at hc
  cases hs : h.getSys src with
  | none => rw [hs] at hc; cases hc
  | some s =>
    rw [hs] at hc
    dsimp only at hc
    cases he : entityCopies h h.next s.entities with
    | none => rw [he] at hc; simp at hc
    | some ents =>
      cases hp : h.getPar s.params with
      | none => rw [he, hp] at hc; simp at hc
      | some p =>
        cases hm : h.getMap s.vars with
        | none => rw [he, hp, hm] at hc; simp at hc
        | some m =>
          rw [he, hp, hm] at hc
          dsimp only at hc
          generalize hh1 : h.allocs _ = h1 at hc
          cases hcv : copyVars h1 m with
          | none => rw [hcv] at hc; cases hc
          | some r =>
            obtain ⟨h2, m'⟩ := r
            rw [hcv] at hc
            simp only [Except.ok.injEq, Prod.mk.injEq] at hc
            obtain ⟨hh', hN⟩ := hc
            subst hN
            intro s' hs'
            have hl := look_of_getSys hs'
            rw [← hh', look_put, if_pos rfl] at hl
            split at hl
            · simp only [Option.some.injEq, Obj.sys.injEq] at hl
              rw [← hl]
              show n ≤ h.next + 1 + ents.length
              omega
            · cases hl

/-- **frame of the test runner's derivation**: a `clone()` of the baseline, reforms stacked on it,
    extensions merged in place into the last one's tree — which is the clone's or a fresh one, never
    the baseline's -/
theorem good_testRunnerDerive {n : Nat} {h : Heap} (hi : Inv n h) (hn : n ≤ h.next) (src : Oid)
    (rs : List (List Mod)) (es : List Ext) :
    Good n h (testRunnerDerive h src rs es).1 ∧ ∀ R, (testRunnerDerive h src rs es).2 = .ok R → n ≤ R := by
  unfold testRunnerDerive
  cases hc : cloneSys h src with
  | error e => exact ⟨Good.refl hi hn, fun R hR => by cases hR⟩
  | ok r =>
    obtain ⟨h1, N⟩ := r
    obtain ⟨g1, hN⟩ := good_cloneSys hi hn src hc
    have o1 : OwnsP n h1 N := ownsP_cloneSys hn hc
    have hNge : n ≤ N := by rw [hN]; exact hn
    obtain ⟨g2, h2⟩ := good_applyReforms g1.2.1 g1.2.2 hNge o1 rs
    dsimp only
    cases hr : applyReforms h1 N rs with
    | mk h2' res =>
      rw [hr] at g2 h2
      cases res with
      | error e => exact ⟨g1.trans g2, fun R hR => by cases hR⟩
      | ok R =>
        obtain ⟨hRge, oR⟩ := h2 R rfl
        have g3 := good_loadExtensions g2.2.1 g2.2.2 hRge es
        dsimp only
        cases hl : loadExtensions h2' R es with
        | mk h3 res3 =>
          rw [hl] at g3
          cases res3 with
          | ok u => cases u; exact ⟨(g1.trans g2).trans g3, fun R' hR' => by simp at hR'; rw [← hR']; exact hRge⟩
          | error e => exact ⟨(g1.trans g2).trans g3, fun R' hR' => by cases hR'⟩

/-! ### histories -/

/-- state invariant of a history that started with `k0` systems and a heap of `n` objects -/
def SInv (n k0 : Nat) (st : State) : Prop :=
  Inv n st.heap ∧ n ≤ st.heap.next ∧ ∀ k sid, k0 ≤ k → st.systems[k]? = some sid → n ≤ sid

theorem sinv_append {n k0 : Nat} {st st' : State} (hs : SInv n k0 st) (g : Good n st.heap st'.heap)
    (sid : Oid) (hsys : st'.systems = st.systems ++ [sid]) (hsid : n ≤ sid) : SInv n k0 st' := by
  refine ⟨g.2.1, g.2.2, ?_⟩
  intro k s hk hl
  rw [hsys] at hl
  simp only [List.getElem?_append] at hl
  split at hl
  · exact hs.2.2 k s hk hl
  · cases hx : k - st.systems.length with
    | zero => rw [hx] at hl; simp at hl; rw [← hl]; exact hsid
    | succ j => rw [hx] at hl; simp at hl

theorem step_frame {n k0 : Nat} {st : State} (hs : SInv n k0 st) (op : Op) (hop : op.targetsDerived k0) :
    Framed n st.heap (step st op).1.heap ∧ SInv n k0 (step st op).1 ∧
      ∀ k, k < st.systems.length → (step st op).1.systems[k]? = st.systems[k]? := by
  obtain ⟨hi, hn, hsys⟩ := hs
  cases op with
  | clone src =>
    simp only [step]
    cases hsrc : st.systems[src]? with
    | none => exact ⟨Framed.refl _ _, ⟨hi, hn, hsys⟩, fun _ _ => rfl⟩
    | some sid =>
      simp only []
      cases hc : cloneSys st.heap sid with
      | error e => exact ⟨Framed.refl _ _, ⟨hi, hn, hsys⟩, fun _ _ => rfl⟩
      | ok r =>
        obtain ⟨h', N⟩ := r
        obtain ⟨g, hN⟩ := good_cloneSys hi hn sid hc
        exact ⟨g.1, sinv_append ⟨hi, hn, hsys⟩ g N rfl (by rw [hN]; exact hn),
          fun k hk => by simp [List.getElem?_append_left hk]⟩
  | reform src mods =>
    simp only [step]
    cases hsrc : st.systems[src]? with
    | none => exact ⟨Framed.refl _ _, ⟨hi, hn, hsys⟩, fun _ _ => rfl⟩
    | some sid =>
      simp only []
      obtain ⟨g, hR⟩ := good_reformSys hi hn sid mods
      cases hr : reformSys st.heap sid mods with
      | mk h' res =>
        rw [hr] at g hR
        cases res with
        | ok R =>
          exact ⟨g.1, sinv_append ⟨hi, hn, hsys⟩ g R rfl (by rw [hR R rfl]; exact hn),
            fun k hk => by simp [List.getElem?_append_left hk]⟩
        | error e => exact ⟨g.1, ⟨g.2.1, g.2.2, hsys⟩, fun _ _ => rfl⟩
  | modify tgt m =>
    simp only [step]
    cases htgt : st.systems[tgt]? with
    | none => exact ⟨Framed.refl _ _, ⟨hi, hn, hsys⟩, fun _ _ => rfl⟩
    | some sid =>
      simp only []
      have hX : n ≤ sid := hsys tgt sid hop htgt
      have g := good_applyMod hi hn hX m
      cases hr : applyMod st.heap sid m with
      | mk h' res =>
        rw [hr] at g
        cases res with
        | ok u => cases u; exact ⟨g.1, ⟨g.2.1, g.2.2, hsys⟩, fun _ _ => rfl⟩
        | error e => exact ⟨g.1, ⟨g.2.1, g.2.2, hsys⟩, fun _ _ => rfl⟩
  | testRunner src reforms exts =>
    simp only [step]
    cases hsrc : st.systems[src]? with
    | none => exact ⟨Framed.refl _ _, ⟨hi, hn, hsys⟩, fun _ _ => rfl⟩
    | some sid =>
      dsimp only
      cases lookupMemo (sid, reforms.map (fun r => r.1), nameSet (exts.map (fun e => e.name))) st.memo with
      | some _ => exact ⟨Framed.refl _ _, ⟨hi, hn, hsys⟩, fun _ _ => rfl⟩
      | none =>
        dsimp only
        obtain ⟨g, hR⟩ := good_testRunnerDerive hi hn sid (reforms.map (fun r => r.2)) exts
        cases hr : testRunnerDerive st.heap sid (reforms.map (fun r => r.2)) exts with
        | mk h' res =>
          rw [hr] at g hR
          cases res with
          | ok R =>
            exact ⟨g.1, sinv_append ⟨hi, hn, hsys⟩ g R rfl (hR R rfl),
              fun k hk => by simp [List.getElem?_append_left hk]⟩
          | error e => exact ⟨g.1, ⟨g.2.1, g.2.2, hsys⟩, fun _ _ => rfl⟩

theorem step_length (st : State) (op : Op) : st.systems.length ≤ (step st op).1.systems.length := by
  cases op with
  | clone src =>
    simp only [step]
    cases st.systems[src]? with
    | none => exact Nat.le_refl _
    | some sid =>
      simp only []
      cases cloneSys st.heap sid with
      | error e => exact Nat.le_refl _
      | ok r => simp
  | reform src mods =>
    simp only [step]
    cases st.systems[src]? with
    | none => exact Nat.le_refl _
    | some sid =>
      simp only []
      cases reformSys st.heap sid mods with
      | mk h' res => cases res <;> simp
  | modify tgt m =>
    simp only [step]
    cases st.systems[tgt]? with
    | none => exact Nat.le_refl _
    | some sid =>
      simp only []
      cases applyMod st.heap sid m with
      | mk h' res => cases res with
        | ok u => cases u; exact Nat.le_refl _
        | error e => exact Nat.le_refl _
  | testRunner src reforms exts =>
    simp only [step]
    cases st.systems[src]? with
    | none => exact Nat.le_refl _
    | some sid =>
      dsimp only
      cases lookupMemo (sid, reforms.map (fun r => r.1), nameSet (exts.map (fun e => e.name))) st.memo with
      | some _ => exact Nat.le_refl _
      | none =>
        dsimp only
        cases testRunnerDerive st.heap sid (reforms.map (fun r => r.2)) exts with
        | mk h' res => cases res <;> simp

/-- induction over the history -/
theorem run_frame {n k0 : Nat} (ops : List Op) {st : State} (hs : SInv n k0 st)
    (hops : ∀ op ∈ ops, op.targetsDerived k0) :
    Framed n st.heap (run st ops).heap ∧ SInv n k0 (run st ops) ∧
      ∀ k, k < st.systems.length → (run st ops).systems[k]? = st.systems[k]? := by
  induction ops generalizing st with
  | nil => exact ⟨Framed.refl _ _, hs, fun _ _ => rfl⟩
  | cons op r ih =>
    obtain ⟨f1, s1, k1⟩ := step_frame hs op (hops op (List.mem_cons_self ..))
    obtain ⟨f2, s2, k2⟩ := ih s1 (fun o ho => hops o (List.mem_cons_of_mem _ ho))
    refine ⟨f1.trans f2, s2, fun k hk => ?_⟩
    show (run (step st op).1 r).systems[k]? = _
    rw [k2 k (Nat.lt_of_lt_of_le hk (step_length st op)), k1 k hk]

theorem sinv_init (st : State) : SInv st.heap.next st.systems.length st := by
  refine ⟨?_, Nat.le_refl _, ?_⟩
  · intro X o hX hl
    rw [look_none_of_ge st.heap hX] at hl; cases hl
  · intro k sid hk hl
    rw [List.getElem?_eq_none hk] at hl; cases hl

/-! ## Observations read only what is reachable -/

/-- `h'` agrees with `h` on every object of `h` -/
def Agree (h h' : Heap) : Prop := ∀ i, i < h.next → h'.look i = h.look i

theorem closed_look {h : Heap} (hc : Closed h) {i : Nat} {o : Obj} (hl : h.look i = some o) :
    ∀ j ∈ o.ptrs, j < h.next := hc o (List.mem_of_getElem? hl)

theorem resolve_agree {h h' : Heap} (hA : Agree h h') (hC : Closed h) {b : Nat} (hb : b < h.next)
    (name : String) :
    resolve h' b name = resolve h b name ∧ ∀ vid, resolve h b name = some vid → vid < h.next := by
  unfold resolve
  rw [getSys_congr (hA b hb)]
  cases hs : h.getSys b with
  | none => exact ⟨rfl, fun _ hv => by cases hv⟩
  | some s =>
    dsimp only
    have hv : s.vars < h.next := closed_look hC (look_of_getSys hs) _ (by simp [Obj.ptrs])
    rw [getMap_congr (hA _ hv)]
    cases hm : h.getMap s.vars with
    | none => exact ⟨rfl, fun _ hv => by cases hv⟩
    | some m =>
      dsimp only
      refine ⟨rfl, fun vid hg => ?_⟩
      refine closed_look hC (look_of_getMap hm) vid ?_
      simp only [Obj.ptrs, List.mem_map]
      exact ⟨(name, vid), mem_of_dictGet hg, rfl⟩

theorem varObs_agree {h h' : Heap} (hA : Agree h h') (hC : Closed h) {b : Nat} (hb : b < h.next)
    (name : String) : varObs h' b name = varObs h b name := by
  obtain ⟨e, hlt⟩ := resolve_agree hA hC hb name
  unfold varObs
  rw [e]
  cases hr : resolve h b name with
  | none => rfl
  | some vid => dsimp only; rw [getVar_congr (hA vid (hlt vid hr))]

theorem varObsVia_agree {h h' : Heap} (hA : Agree h h') (hC : Closed h) {e : Nat} (he : e < h.next)
    (name : String) : varObsVia h' e name = varObsVia h e name := by
  unfold varObsVia resolveVia
  rw [getEnt_congr (hA e he)]
  cases hg : h.getEnt e with
  | none => rfl
  | some eo =>
    dsimp only
    cases hsys : eo.system with
    | none => rfl
    | some sid =>
      dsimp only
      have hsid : sid < h.next := closed_look hC (look_of_getEnt hg) sid (by simp [Obj.ptrs, hsys])
      obtain ⟨e1, hlt⟩ := resolve_agree hA hC hsid name
      rw [e1]
      cases hr : resolve h sid name with
      | none => rfl
      | some vid => dsimp only; rw [getVar_congr (hA vid (hlt vid hr))]

theorem varNames_agree {h h' : Heap} (hA : Agree h h') (hC : Closed h) {b : Nat} (hb : b < h.next) :
    varNames h' b = varNames h b := by
  unfold varNames
  rw [getSys_congr (hA b hb)]
  cases hs : h.getSys b with
  | none => rfl
  | some s =>
    dsimp only
    have hv : s.vars < h.next := closed_look hC (look_of_getSys hs) _ (by simp [Obj.ptrs])
    rw [getMap_congr (hA _ hv)]

theorem paramObs_agree {h h' : Heap} (hA : Agree h h') (hC : Closed h) {b : Nat} (hb : b < h.next)
    (name : String) (d : Int) : paramObs h' b name d = paramObs h b name d := by
  unfold paramObs
  rw [getSys_congr (hA b hb)]
  cases hs : h.getSys b with
  | none => rfl
  | some s =>
    dsimp only
    have hv : s.params < h.next := closed_look hC (look_of_getSys hs) _ (by simp [Obj.ptrs])
    rw [getPar_congr (hA _ hv)]

theorem sysObs_agree {h h' : Heap} (hA : Agree h h') (hC : Closed h) {b : Nat} (hb : b < h.next) :
    sysObs h' b = sysObs h b := by
  unfold sysObs
  have e1 : varNames h' b = varNames h b := varNames_agree hA hC hb
  have e2 : varObs h' b = varObs h b := funext fun name => varObs_agree hA hC hb name
  have e5 : paramObs h' b = paramObs h b := funext fun name => funext fun d => paramObs_agree hA hC hb name d
  rw [e1, e2, e5, getSys_congr (hA b hb)]
  cases hs : h.getSys b with
  | none => rfl
  | some s =>
    dsimp only
    have hents : ∀ e ∈ s.entities, e < h.next := fun e he =>
      closed_look hC (look_of_getSys hs) e (by simp [Obj.ptrs, he])
    have e3 : s.entities.map (fun e => varObsVia h' e) = s.entities.map (fun e => varObsVia h e) :=
      List.map_congr_left fun e he => funext fun name => varObsVia_agree hA hC (hents e he) name
    have e4 : s.entities.map (fun e => (h'.getEnt e).map (·.key)) = s.entities.map (fun e => (h.getEnt e).map (·.key)) :=
      List.map_congr_left fun e he => by rw [getEnt_congr (hA e (hents e he))]
    rw [e3, e4]

/-- a well-formed system of `h` is still one in any heap that agrees with `h` on its objects -/
theorem sysWF_agree {h h' : Heap} (hA : Agree h h') (hC : Closed h) {b : Nat} (hw : SysWF h b) : SysWF h' b := by
  obtain ⟨s, m, p, hs, hm, hp, he⟩ := hw
  have lS := look_of_getSys hs
  have hb := lt_next_of_look h lS
  have hv : s.vars < h.next := closed_look hC lS _ (by simp [Obj.ptrs])
  have hpp : s.params < h.next := closed_look hC lS _ (by simp [Obj.ptrs])
  refine ⟨s, m, p, by rw [getSys_congr (hA b hb)]; exact hs, by rw [getMap_congr (hA _ hv)]; exact hm,
    by rw [getPar_congr (hA _ hpp)]; exact hp, fun e hmem => ?_⟩
  obtain ⟨v, hv'⟩ := he e hmem
  have hlt : e.2 < h.next := closed_look hC (look_of_getMap hm) e.2 (by
    simp only [Obj.ptrs, List.mem_map]; exact ⟨e, hmem, rfl⟩)
  exact ⟨v, by rw [getVar_congr (hA _ hlt)]; exact hv'⟩

/-! ## One modification is local to its target and to the names it declares -/

theorem ne_of_look {h : Heap} {i j : Nat} {o1 o2 : Obj} (h1 : h.look i = some o1) (h2 : h.look j = some o2)
    (hne : o1 ≠ o2) : i ≠ j := by
  intro e; subst e; rw [h1] at h2; cases h2; exact hne rfl

theorem mem_dictSet {α} {k : String} {v : α} {m : List (String × α)} {e : String × α}
    (he : e ∈ dictSet k v m) : e = (k, v) ∨ e ∈ m := by
  induction m with
  | nil => simp [dictSet] at he; exact Or.inl he
  | cons p r ih =>
    obtain ⟨k', v'⟩ := p
    by_cases hk : k' = k
    · simp [dictSet, hk] at he
      rcases he with he | he
      · exact Or.inl he
      · exact Or.inr (List.mem_cons_of_mem _ he)
    · simp [dictSet, hk] at he
      rcases he with he | he
      · exact Or.inr (by rw [he]; exact List.mem_cons_self ..)
      · rcases ih he with h1 | h1
        · exact Or.inl h1
        · exact Or.inr (List.mem_cons_of_mem _ h1)

theorem mem_dictDel {α} {k : String} {m : List (String × α)} {e : String × α}
    (he : e ∈ dictDel k m) : e ∈ m := by
  induction m with
  | nil => simp [dictDel] at he
  | cons p r ih =>
    obtain ⟨k', v'⟩ := p
    by_cases hk : k' = k
    · simp [dictDel, hk] at he; exact List.mem_cons_of_mem _ he
    · simp [dictDel, hk] at he
      rcases he with he | he
      · rw [he]; exact List.mem_cons_self ..
      · exact List.mem_cons_of_mem _ (ih he)

/-- the local facts every modification of `X` keeps: `X`'s system object up to its parameter
    pointer, every variable object, every entity object -/
structure Keeps (h : Heap) (X : Oid) (h' : Heap) : Prop where
  keepVar : ∀ i v, h.getVar i = some v → h'.getVar i = some v
  keepEnt : ∀ i eo, h.getEnt i = some eo → h'.getEnt i = some eo
  grows : h.next ≤ h'.next

theorem Keeps.refl (h : Heap) (X : Oid) : Keeps h X h := ⟨fun _ _ a => a, fun _ _ a => a, Nat.le_refl _⟩

theorem Keeps.trans {h₁ h₂ h₃ : Heap} {X : Oid} (a : Keeps h₁ X h₂) (b : Keeps h₂ X h₃) : Keeps h₁ X h₃ :=
  ⟨fun i v hv => b.keepVar i v (a.keepVar i v hv), fun i e he => b.keepEnt i e (a.keepEnt i e he),
   Nat.le_trans a.grows b.grows⟩

/-- overwriting an object by one of the same kind (a dict, a system, a parameter tree) -/
theorem keeps_put {h : Heap} {X : Oid} {i : Nat} {o o' : Obj} (hl : h.look i = some o)
    (hv : ∀ v, o ≠ .var v) (he : ∀ e, o ≠ .ent e) : Keeps h X (h.put i o') := by
  refine ⟨fun j v hj => ?_, fun j e hj => ?_, by rw [next_put]; exact Nat.le_refl _⟩
  · have hne : i ≠ j := ne_of_look hl (look_of_getVar hj) (hv v)
    rw [getVar_congr (look_put_ne h o' hne)]; exact hj
  · have hne : i ≠ j := ne_of_look hl (look_of_getEnt hj) (he e)
    rw [getEnt_congr (look_put_ne h o' hne)]; exact hj

theorem keeps_allocs (h : Heap) (X : Oid) (os : List Obj) : Keeps h X (h.allocs os) := by
  refine ⟨fun j v hj => ?_, fun j e hj => ?_, by rw [next_allocs]; exact Nat.le_add_right _ _⟩
  · rw [getVar_congr (look_allocs_lt h os (lt_next_of_look h (look_of_getVar hj)))]; exact hj
  · rw [getEnt_congr (look_allocs_lt h os (lt_next_of_look h (look_of_getEnt hj)))]; exact hj

/-- `self.variables[name] = <new object>` seen from the system -/
theorem bindVar_spec {h : Heap} {X : Oid} {s : SysObj} {m : List (String × Oid)} {p : ParamTree}
    (hs : h.getSys X = some s) (hm : h.getMap s.vars = some m) (hp : h.getPar s.params = some p)
    (name : String) (w : VarObj) :
    (bindVar h s m name w).getSys X = some s ∧
    (bindVar h s m name w).getMap s.vars = some (dictSet name h.next m) ∧
    (bindVar h s m name w).getPar s.params = some p ∧
    (bindVar h s m name w).getVar h.next = some w ∧
    Keeps h X (bindVar h s m name w) := by
  have lX := look_of_getSys hs
  have lM := look_of_getMap hm
  have lP := look_of_getPar hp
  have hXlt := lt_next_of_look h lX
  have hMlt := lt_next_of_look h lM
  have hPlt := lt_next_of_look h lP
  have hb : bindVar h s m name w = (h.allocs [.var w]).put s.vars (.vmap (dictSet name h.next m)) := rfl
  have lM1 : (h.allocs [.var w]).look s.vars = some (.vmap m) := by rw [look_allocs_lt h _ hMlt]; exact lM
  rw [hb]
  refine ⟨?_, ?_, ?_, ?_, (keeps_allocs h X _).trans (keeps_put lM1 (by intro v; simp) (by intro e; simp))⟩
  · have hne : s.vars ≠ X := ne_of_look lM lX (by simp)
    rw [getSys_congr (look_put_ne _ _ hne), getSys_congr (look_allocs_lt h _ hXlt)]; exact hs
  · apply getMap_of_look
    rw [look_put, if_pos rfl, if_pos (by rw [next_allocs]; exact Nat.lt_of_lt_of_le hMlt (Nat.le_add_right _ _))]
  · have hne : s.vars ≠ s.params := ne_of_look lM lP (by simp)
    rw [getPar_congr (look_put_ne _ _ hne), getPar_congr (look_allocs_lt h _ hPlt)]; exact hp
  · have hne : s.vars ≠ h.next := Nat.ne_of_lt hMlt
    apply getVar_of_look
    rw [look_put_ne _ _ hne, look_allocs, if_neg (Nat.lt_irrefl _), Nat.sub_self]; rfl

theorem resolve_eq {h : Heap} {X : Oid} {s : SysObj} {m : List (String × Oid)}
    (hs : h.getSys X = some s) (hm : h.getMap s.vars = some m) (name : String) :
    resolve h X name = dictGet name m := by
  unfold resolve; rw [hs]; dsimp only; rw [hm]

/-- the same, needing nothing of the parameter tree -/
theorem bindVar_reads {h : Heap} {X : Oid} {s : SysObj} {m : List (String × Oid)}
    (hs : h.getSys X = some s) (hm : h.getMap s.vars = some m) (name : String) (w : VarObj) :
    resolve (bindVar h s m name w) X name = some h.next ∧
    (bindVar h s m name w).getVar h.next = some w ∧
    (∀ i v, h.getVar i = some v → (bindVar h s m name w).getVar i = some v) := by
  have lX := look_of_getSys hs
  have lM := look_of_getMap hm
  have hXlt := lt_next_of_look h lX
  have hMlt := lt_next_of_look h lM
  have hb : bindVar h s m name w = (h.allocs [.var w]).put s.vars (.vmap (dictSet name h.next m)) := rfl
  have lM1 : (h.allocs [.var w]).look s.vars = some (.vmap m) := by rw [look_allocs_lt h _ hMlt]; exact lM
  have hk : Keeps h X (bindVar h s m name w) := by
    rw [hb]; exact (keeps_allocs h X _).trans (keeps_put lM1 (by intro v; simp) (by intro e; simp))
  have hs' : (bindVar h s m name w).getSys X = some s := by
    rw [hb, getSys_congr (look_put_ne _ _ (ne_of_look lM lX (by simp))),
      getSys_congr (look_allocs_lt h _ hXlt)]; exact hs
  have hm' : (bindVar h s m name w).getMap s.vars = some (dictSet name h.next m) := by
    apply getMap_of_look
    rw [hb, look_put, if_pos rfl,
      if_pos (by rw [next_allocs]; exact Nat.lt_of_lt_of_le hMlt (Nat.le_add_right _ _))]
  refine ⟨by rw [resolve_eq hs' hm', dictGet_dictSet_self], ?_, hk.keepVar⟩
  apply getVar_of_look
  rw [hb, look_put_ne _ _ (Nat.ne_of_lt hMlt), look_allocs, if_neg (Nat.lt_irrefl _), Nat.sub_self]; rfl

theorem sysWF_intro {h : Heap} {X : Oid} {s : SysObj} {m : List (String × Oid)} {p : ParamTree}
    (hs : h.getSys X = some s) (hm : h.getMap s.vars = some m) (hp : h.getPar s.params = some p)
    (he : ∀ e ∈ m, ∃ v, h.getVar e.2 = some v) : SysWF h X := ⟨s, m, p, hs, hm, hp, he⟩

theorem varObs_eq {h : Heap} {X : Oid} {s : SysObj} {m : List (String × Oid)}
    (hs : h.getSys X = some s) (hm : h.getMap s.vars = some m) (name : String) :
    varObs h X name = match dictGet name m with | none => none | some vid => (h.getVar vid).map (·.view) := by
  unfold varObs resolve; rw [hs]; dsimp only; rw [hm]; rfl

theorem paramObs_eq {h : Heap} {X : Oid} {s : SysObj} {p : ParamTree}
    (hs : h.getSys X = some s) (hp : h.getPar s.params = some p) (pn : String) (d : Int) :
    paramObs h X pn d = match dictGet pn p with | none => none | some l => pget l d := by
  unfold paramObs; rw [hs]; dsimp only; rw [hp]; rfl

/-- executable check of `SysWF` (for concrete heaps) -/
def sysWFb (h : Heap) (X : Oid) : Bool :=
  match h.getSys X with
  | none => false
  | some s =>
    match h.getMap s.vars with
    | none => false
    | some m =>
      match h.getPar s.params with
      | none => false
      | some _ => m.all (fun e => (h.getVar e.2).isSome)

theorem sysWF_of_check {h : Heap} {X : Oid} (hc : sysWFb h X = true) : SysWF h X := by
  unfold sysWFb at hc
  cases hs : h.getSys X with
  | none => rw [hs] at hc; cases hc
  | some s =>
    rw [hs] at hc
    dsimp only at hc
    cases hm : h.getMap s.vars with
    | none => rw [hm] at hc; cases hc
    | some m =>
      rw [hm] at hc
      dsimp only at hc
      cases hp : h.getPar s.params with
      | none => rw [hp] at hc; cases hc
      | some p =>
        rw [hp] at hc
        dsimp only at hc
        refine ⟨s, m, p, hs, hm, hp, fun e he => ?_⟩
        have := List.all_eq_true.mp hc e he
        exact Option.isSome_iff_exists.mp this

/-- what one modification of `X` guarantees -/
structure ModSpec (h : Heap) (X : Oid) (touched : List String) (isPar : Bool) (h' : Heap) : Prop where
  wf : SysWF h' X
  vars : ∀ name, name ∉ touched → varObs h' X name = varObs h X name
  pars : isPar = false → ∀ pn d, paramObs h' X pn d = paramObs h X pn d
  keeps : Keeps h X h'
  sysSame : ∀ s, h.getSys X = some s → ∃ s', h'.getSys X = some s' ∧ s'.entities = s.entities ∧
              s'.baseline = s.baseline ∧ s'.vars = s.vars

theorem ModSpec.refl {h : Heap} {X : Oid} (hw : SysWF h X) (t : List String) (b : Bool) : ModSpec h X t b h :=
  ⟨hw, fun _ _ => rfl, fun _ _ _ => rfl, Keeps.refl h X, fun s hs => ⟨s, hs, rfl, rfl, rfl⟩⟩

theorem modSpec_bindVar {h : Heap} {X : Oid} {s : SysObj} {m : List (String × Oid)} {p : ParamTree}
    (hs : h.getSys X = some s) (hm : h.getMap s.vars = some m) (hp : h.getPar s.params = some p)
    (he : ∀ e ∈ m, ∃ v, h.getVar e.2 = some v) (name : String) (w : VarObj) (b : Bool) :
    ModSpec h X [name] b (bindVar h s m name w) := by
  obtain ⟨hs', hm', hp', hw', hk⟩ := bindVar_spec hs hm hp name w
  refine ⟨sysWF_intro hs' hm' hp' ?_, ?_, ?_, hk, fun s0 hs0 => ?_⟩
  · intro e hemem
    rcases mem_dictSet hemem with rfl | hin
    · exact ⟨w, hw'⟩
    · obtain ⟨v, hv⟩ := he e hin
      exact ⟨v, hk.keepVar _ _ hv⟩
  · intro nm hnm
    have hne : nm ≠ name := by simpa using hnm
    rw [varObs_eq hs' hm', varObs_eq hs hm, dictGet_dictSet_ne _ _ hne]
    cases hd : dictGet nm m with
    | none => rfl
    | some vid =>
      obtain ⟨v, hv⟩ := he _ (mem_of_dictGet hd)
      dsimp only
      rw [hk.keepVar _ _ hv, hv]
  · intro _ pn d
    rw [paramObs_eq hs' hp', paramObs_eq hs hp]
  · rw [hs] at hs0; cases hs0; exact ⟨s, hs', rfl, rfl, rfl⟩

theorem modSpec_loadVariable {h : Heap} {X : Oid} (hw : SysWF h X) (cls : ClassDef) (u : Bool) (b : Bool) :
    ModSpec h X [cls.name] b (loadVariable h X cls u).1 := by
  rcases loadVariable_inv h X cls u with ⟨e, he⟩ | ⟨s, m, v, hs, hm, _, _, he⟩
  · rw [he]; exact ModSpec.refl hw _ _
  · obtain ⟨s0, m0, p0, hs0, hm0, hp0, he0⟩ := hw
    rw [hs] at hs0; cases hs0
    rw [hm] at hm0; cases hm0
    rw [he]; exact modSpec_bindVar hs hm hp0 he0 _ v b

theorem modSpec_replaceVariable {h : Heap} {X : Oid} (hw : SysWF h X) (cls : ClassDef) (b : Bool) :
    ModSpec h X [cls.name] b (replaceVariable h X cls).1 := by
  rcases replaceVariable_inv h X cls with ⟨e, he⟩ | ⟨s, m, hs, hm, _, he⟩ | ⟨s, m, vid, hs, hm, _, he⟩
  · rw [he]; exact ModSpec.refl hw _ _
  · rw [he]; exact modSpec_loadVariable hw cls false b
  · obtain ⟨s0, m0, p0, hs0, hm0, hp0, he0⟩ := hw
    rw [hs] at hs0; cases hs0
    rw [hm] at hm0; cases hm0
    rw [he]
    -- the deletion
    have lX := look_of_getSys hs
    have lM := look_of_getMap hm
    have lP := look_of_getPar hp0
    have hMlt := lt_next_of_look h lM
    let h1 := h.put s.vars (.vmap (dictDel cls.name m))
    have hk1 : Keeps h X h1 := keeps_put lM (by intro v; simp) (by intro e; simp)
    have hs1 : h1.getSys X = some s := by
      rw [getSys_congr (look_put_ne _ _ (ne_of_look lM lX (by simp)))]; exact hs
    have hm1 : h1.getMap s.vars = some (dictDel cls.name m) := by
      apply getMap_of_look; rw [look_put, if_pos rfl, if_pos hMlt]
    have hp1 : h1.getPar s.params = some p0 := by
      rw [getPar_congr (look_put_ne _ _ (ne_of_look lM lP (by simp)))]; exact hp0
    have he1 : ∀ e ∈ dictDel cls.name m, ∃ v, h1.getVar e.2 = some v := fun e hmem => by
      obtain ⟨v, hv⟩ := he0 e (mem_dictDel hmem)
      exact ⟨v, hk1.keepVar _ _ hv⟩
    have hw1 : SysWF h1 X := sysWF_intro hs1 hm1 hp1 he1
    have sp := modSpec_loadVariable hw1 cls false b
    refine ⟨sp.wf, ?_, ?_, hk1.trans sp.keeps, fun s0 hs0 => ?_⟩
    · intro nm hnm
      rw [sp.vars nm hnm]
      have hne : nm ≠ cls.name := by simpa using hnm
      rw [varObs_eq hs1 hm1, varObs_eq hs hm, dictGet_dictDel_ne _ hne]
      cases hd : dictGet nm m with
      | none => rfl
      | some vid' =>
        obtain ⟨v, hv⟩ := he0 _ (mem_of_dictGet hd)
        dsimp only
        rw [hk1.keepVar _ _ hv, hv]
    · intro hb pn d
      rw [sp.pars hb pn d, paramObs_eq hs1 hp1, paramObs_eq hs hp0]
    · rw [hs] at hs0; cases hs0; exact sp.sysSame s hs1

theorem modSpec_neutralizeVar {h : Heap} {X : Oid} (hw : SysWF h X) (name : String) (b : Bool) :
    ModSpec h X [name] b (neutralizeVar h X name).1 := by
  rcases neutralizeVar_inv h X name with ⟨e, he⟩ | ⟨s, m, vid, v, c, hs, hm, _, _, _, he⟩
  · rw [he]; exact ModSpec.refl hw _ _
  · obtain ⟨s0, m0, p0, hs0, hm0, hp0, he0⟩ := hw
    rw [hs] at hs0; cases hs0
    rw [hm] at hm0; cases hm0
    rw [he]; exact modSpec_bindVar hs hm hp0 he0 _ _ b

theorem modSpec_annualizeVar {h : Heap} {X : Oid} (hw : SysWF h X) (name : String) (b : Bool) :
    ModSpec h X [name] b (annualizeVar h X name).1 := by
  rcases annualizeVar_inv h X name with ⟨e, he⟩ | ⟨s, m, vid, v, c, hs, hm, _, _, _, he⟩
  · rw [he]; exact ModSpec.refl hw _ _
  · obtain ⟨s0, m0, p0, hs0, hm0, hp0, he0⟩ := hw
    rw [hs] at hs0; cases hs0
    rw [hm] at hm0; cases hm0
    rw [he]; exact modSpec_bindVar hs hm hp0 he0 _ _ b

theorem modSpec_modifyParams {h : Heap} {X : Oid} (hw : SysWF h X) (us : List PUpd) :
    ModSpec h X [] true (modifyParams h X us).1 := by
  rcases modifyParams_inv h X us with ⟨e, he⟩ | ⟨s, p, b, p', hs, hp, hb, _, he⟩ | ⟨s, p, p', r, hs, hp, hb, _, he⟩
  · rw [he]; exact ModSpec.refl hw _ _
  · obtain ⟨s0, m0, p0, hs0, hm0, hp0, he0⟩ := hw
    rw [hs] at hs0; cases hs0
    rw [he]
    have lX := look_of_getSys hs
    have lM := look_of_getMap hm0
    have hXlt := lt_next_of_look h lX
    have hMlt := lt_next_of_look h lM
    have lX1 : (h.allocs [.par p']).look X = some (.sys s) := by rw [look_allocs_lt h _ hXlt]; exact lX
    have hk : Keeps h X ((h.allocs [.par p']).put X (.sys { s with params := h.next })) :=
      (keeps_allocs h X _).trans (keeps_put lX1 (by intro v; simp) (by intro e; simp))
    have hs' : ((h.allocs [.par p']).put X (.sys { s with params := h.next })).getSys X
        = some { s with params := h.next } := by
      apply getSys_of_look
      rw [look_put, if_pos rfl, if_pos (by rw [next_allocs]; exact Nat.lt_of_lt_of_le hXlt (Nat.le_add_right _ _))]
    have hm' : ((h.allocs [.par p']).put X (.sys { s with params := h.next })).getMap s.vars = some m0 := by
      rw [getMap_congr (look_put_ne _ _ (ne_of_look lX lM (by simp))), getMap_congr (look_allocs_lt h _ hMlt)]
      exact hm0
    have hp' : ((h.allocs [.par p']).put X (.sys { s with params := h.next })).getPar h.next = some p' := by
      apply getPar_of_look
      rw [look_put_ne _ _ (Nat.ne_of_lt hXlt), look_allocs, if_neg (Nat.lt_irrefl _), Nat.sub_self]; rfl
    refine ⟨sysWF_intro hs' hm' hp' (fun e hmem => ?_), ?_, (fun hb' => by cases hb'), hk,
      fun s1 hs1 => ?_⟩
    · obtain ⟨v, hv⟩ := he0 e hmem
      exact ⟨v, hk.keepVar _ _ hv⟩
    · intro nm _
      rw [varObs_eq hs' hm', varObs_eq hs hm0]
      cases hd : dictGet nm m0 with
      | none => rfl
      | some vid =>
        obtain ⟨v, hv⟩ := he0 _ (mem_of_dictGet hd)
        dsimp only
        rw [hk.keepVar _ _ hv, hv]
    · rw [hs] at hs1; cases hs1; exact ⟨_, hs', rfl, rfl, rfl⟩
  · obtain ⟨s0, m0, p0, hs0, hm0, hp0, he0⟩ := hw
    rw [hs] at hs0; cases hs0
    rw [he]
    have lX := look_of_getSys hs
    have lM := look_of_getMap hm0
    have lP := look_of_getPar hp
    have hPlt := lt_next_of_look h lP
    have hk : Keeps h X (h.put s.params (.par p')) := keeps_put lP (by intro v; simp) (by intro e; simp)
    have hs' : (h.put s.params (.par p')).getSys X = some s := by
      rw [getSys_congr (look_put_ne _ _ (ne_of_look lP lX (by simp)))]; exact hs
    have hm' : (h.put s.params (.par p')).getMap s.vars = some m0 := by
      rw [getMap_congr (look_put_ne _ _ (ne_of_look lP lM (by simp)))]; exact hm0
    have hp' : (h.put s.params (.par p')).getPar s.params = some p' := by
      apply getPar_of_look; rw [look_put, if_pos rfl, if_pos hPlt]
    refine ⟨sysWF_intro hs' hm' hp' (fun e hmem => ?_), ?_, (fun hb' => by cases hb'), hk,
      fun s1 hs1 => ?_⟩
    · obtain ⟨v, hv⟩ := he0 e hmem
      exact ⟨v, hk.keepVar _ _ hv⟩
    · intro nm _
      rw [varObs_eq hs' hm', varObs_eq hs hm0]
      cases hd : dictGet nm m0 with
      | none => rfl
      | some vid =>
        obtain ⟨v, hv⟩ := he0 _ (mem_of_dictGet hd)
        dsimp only
        rw [hk.keepVar _ _ hv, hv]
    · rw [hs] at hs1; cases hs1; exact ⟨_, hs', rfl, rfl, rfl⟩

theorem ModSpec.weaken {h h' : Heap} {X : Oid} {t t' : List String} {b b' : Bool} (sp : ModSpec h X t b h')
    (ht : ∀ n, n ∉ t' → n ∉ t) (hb : b' = false → b = false) : ModSpec h X t' b' h' :=
  ⟨sp.wf, fun n hn => sp.vars n (ht n hn), fun hb' => sp.pars (hb hb'), sp.keeps, sp.sysSame⟩

theorem ModSpec.trans {h₁ h₂ h₃ : Heap} {X : Oid} {t₁ t₂ : List String} {b₁ b₂ : Bool}
    (a : ModSpec h₁ X t₁ b₁ h₂) (c : ModSpec h₂ X t₂ b₂ h₃) : ModSpec h₁ X (t₁ ++ t₂) (b₁ || b₂) h₃ := by
  refine ⟨c.wf, ?_, ?_, a.keeps.trans c.keeps, fun s hs => ?_⟩
  · intro nm hnm
    simp only [List.mem_append, not_or] at hnm
    rw [c.vars nm hnm.2, a.vars nm hnm.1]
  · intro hb pn d
    simp only [Bool.or_eq_false_iff] at hb
    rw [c.pars hb.2 pn d, a.pars hb.1 pn d]
  · obtain ⟨s1, hs1, e1, e2, e3⟩ := a.sysSame s hs
    obtain ⟨s2, hs2, f1, f2, f3⟩ := c.sysSame s1 hs1
    exact ⟨s2, hs2, f1.trans e1, f2.trans e2, f3.trans e3⟩

theorem modSpec_addVariables {h : Heap} {X : Oid} (hw : SysWF h X) (cs : List ClassDef) :
    ModSpec h X (cs.map (fun c => c.name)) false (addVariables h X cs).1 := by
  induction cs generalizing h with
  | nil => exact ModSpec.refl hw _ _
  | cons c r ih =>
    have sp1 := modSpec_loadVariable hw c false false
    unfold addVariables
    cases hr : loadVariable h X c false with
    | mk h1 res =>
      rw [hr] at sp1
      cases res with
      | ok u => cases u; exact (sp1.trans (ih sp1.wf)).weaken (fun n hn => by simpa using hn) (fun _ => rfl)
      | error e =>
        exact sp1.weaken (fun n hn => by simp only [List.map_cons, List.mem_cons, not_or] at hn; simpa using hn.1)
          (fun _ => rfl)

/-- re-pointing `X` to a freshly allocated tree (what `modify_parameters` and, on a reform,
    `load_extension` do) -/
theorem modSpec_rebind {h : Heap} {X : Oid} (hw : SysWF h X) {s : SysObj} (hs : h.getSys X = some s)
    (p' : ParamTree) :
    ModSpec h X [] true ((h.allocs [.par p']).put X (.sys { s with params := h.next })) := by
  obtain ⟨s0, m0, p0, hs0, hm0, hp0, he0⟩ := hw
  rw [hs] at hs0; cases hs0
  have lX := look_of_getSys hs
  have lM := look_of_getMap hm0
  have hXlt := lt_next_of_look h lX
  have hMlt := lt_next_of_look h lM
  have lX1 : (h.allocs [.par p']).look X = some (.sys s) := by rw [look_allocs_lt h _ hXlt]; exact lX
  have hk : Keeps h X ((h.allocs [.par p']).put X (.sys { s with params := h.next })) :=
    (keeps_allocs h X _).trans (keeps_put lX1 (by intro v; simp) (by intro e; simp))
  have hs' : ((h.allocs [.par p']).put X (.sys { s with params := h.next })).getSys X
      = some { s with params := h.next } := by
    apply getSys_of_look
    rw [look_put, if_pos rfl, if_pos (by rw [next_allocs]; exact Nat.lt_of_lt_of_le hXlt (Nat.le_add_right _ _))]
  have hm' : ((h.allocs [.par p']).put X (.sys { s with params := h.next })).getMap s.vars = some m0 := by
    rw [getMap_congr (look_put_ne _ _ (ne_of_look lX lM (by simp))), getMap_congr (look_allocs_lt h _ hMlt)]
    exact hm0
  have hp' : ((h.allocs [.par p']).put X (.sys { s with params := h.next })).getPar h.next = some p' := by
    apply getPar_of_look
    rw [look_put_ne _ _ (Nat.ne_of_lt hXlt), look_allocs, if_neg (Nat.lt_irrefl _), Nat.sub_self]; rfl
  refine ⟨sysWF_intro hs' hm' hp' (fun e hmem => ?_), ?_, (fun hb' => by cases hb'), hk, fun s1 hs1 => ?_⟩
  · obtain ⟨v, hv⟩ := he0 e hmem
    exact ⟨v, hk.keepVar _ _ hv⟩
  · intro nm _
    rw [varObs_eq hs' hm', varObs_eq hs hm0]
    cases hd : dictGet nm m0 with
    | none => rfl
    | some vid =>
      obtain ⟨v, hv⟩ := he0 _ (mem_of_dictGet hd)
      dsimp only
      rw [hk.keepVar _ _ hv, hv]
  · rw [hs] at hs1; cases hs1; exact ⟨_, hs', rfl, rfl, rfl⟩

/-- overwriting the tree `X` holds, in place -/
theorem modSpec_putPar {h : Heap} {X : Oid} (hw : SysWF h X) {s : SysObj} (hs : h.getSys X = some s)
    (p' : ParamTree) : ModSpec h X [] true (h.put s.params (.par p')) := by
  obtain ⟨s0, m0, p0, hs0, hm0, hp0, he0⟩ := hw
  rw [hs] at hs0; cases hs0
  have lX := look_of_getSys hs
  have lM := look_of_getMap hm0
  have lP := look_of_getPar hp0
  have hPlt := lt_next_of_look h lP
  have hk : Keeps h X (h.put s.params (.par p')) := keeps_put lP (by intro v; simp) (by intro e; simp)
  have hs' : (h.put s.params (.par p')).getSys X = some s := by
    rw [getSys_congr (look_put_ne _ _ (ne_of_look lP lX (by simp)))]; exact hs
  have hm' : (h.put s.params (.par p')).getMap s.vars = some m0 := by
    rw [getMap_congr (look_put_ne _ _ (ne_of_look lP lM (by simp)))]; exact hm0
  have hp' : (h.put s.params (.par p')).getPar s.params = some p' := by
    apply getPar_of_look; rw [look_put, if_pos rfl, if_pos hPlt]
  refine ⟨sysWF_intro hs' hm' hp' (fun e hmem => ?_), ?_, (fun hb' => by cases hb'), hk, fun s1 hs1 => ?_⟩
  · obtain ⟨v, hv⟩ := he0 e hmem
    exact ⟨v, hk.keepVar _ _ hv⟩
  · intro nm _
    rw [varObs_eq hs' hm', varObs_eq hs hm0]
    cases hd : dictGet nm m0 with
    | none => rfl
    | some vid =>
      obtain ⟨v, hv⟩ := he0 _ (mem_of_dictGet hd)
      dsimp only
      rw [hk.keepVar _ _ hv, hv]
  · rw [hs] at hs1; cases hs1; exact ⟨_, hs', rfl, rfl, rfl⟩

theorem modSpec_loadExtension {h : Heap} {X : Oid} (hw : SysWF h X) (e : Ext) :
    ModSpec h X (e.vars.map (fun c => c.name)) (!e.params.isEmpty) (loadExtension h X e).1 := by
  have sp1 := modSpec_addVariables hw e.vars
  have hne : ∀ {l : ParamTree}, l ≠ [] → (!l.isEmpty) = false → False := by
    intro l hl hb; cases l with
    | nil => exact hl rfl
    | cons a r => simp at hb
  rcases loadExtension_inv h X e with he | ⟨h1, s, p, b, p', r, ha, hs, hp, hb, hq, he⟩ | ⟨h1, s, p, p', r, ha, hs, hp, hb, hq, he⟩
  · rw [he]; exact sp1.weaken (fun _ hn => hn) (fun _ => rfl)
  · rw [ha] at sp1
    rw [he]
    exact (sp1.trans (modSpec_rebind sp1.wf hs p')).weaken (fun n hn => by simpa using hn)
      (fun hb' => (hne hq hb').elim)
  · rw [ha] at sp1
    rw [he]
    exact (sp1.trans (modSpec_putPar sp1.wf hs p')).weaken (fun n hn => by simpa using hn)
      (fun hb' => (hne hq hb').elim)

theorem modSpec_applyMod {h : Heap} {X : Oid} (hw : SysWF h X) (m : Mod) :
    ModSpec h X m.touched m.isParams (applyMod h X m).1 := by
  cases m with
  | add c => exact modSpec_loadVariable hw c false _
  | update c => exact modSpec_loadVariable hw c true _
  | replace c => exact modSpec_replaceVariable hw c _
  | neutralize nm => exact modSpec_neutralizeVar hw nm _
  | annualize nm => exact modSpec_annualizeVar hw nm _
  | params us => exact modSpec_modifyParams hw us
  | loadExt e => exact modSpec_loadExtension hw e

/-- a whole `apply()` -/
theorem modSpec_applyMods {h : Heap} {X : Oid} (hw : SysWF h X) (ms : List Mod) :
    ModSpec h X (ms.flatMap Mod.touched) (ms.any Mod.isParams) (applyMods h X ms).1 := by
  induction ms generalizing h with
  | nil => exact ModSpec.refl hw _ _
  | cons m r ih =>
    have sp1 := modSpec_applyMod hw m
    unfold applyMods
    cases hr : applyMod h X m with
    | mk h1 res =>
      rw [hr] at sp1
      have weaken : ∀ {h2 : Heap}, ModSpec h1 X (r.flatMap Mod.touched) (r.any Mod.isParams) h2 →
          ModSpec h X ((m :: r).flatMap Mod.touched) ((m :: r).any Mod.isParams) h2 := by
        intro h2 sp2
        refine ⟨sp2.wf, ?_, ?_, sp1.keeps.trans sp2.keeps, fun s hs => ?_⟩
        · intro nm hnm
          simp only [List.flatMap_cons, List.mem_append, not_or] at hnm
          rw [sp2.vars nm hnm.2, sp1.vars nm hnm.1]
        · intro hb pn d
          simp only [List.any_cons, Bool.or_eq_false_iff] at hb
          rw [sp2.pars hb.2 pn d, sp1.pars hb.1 pn d]
        · obtain ⟨s1, hs1, e1, e2, e3⟩ := sp1.sysSame s hs
          obtain ⟨s2, hs2, f1, f2, f3⟩ := sp2.sysSame s1 hs1
          exact ⟨s2, hs2, f1.trans e1, f2.trans e2, f3.trans e3⟩
      cases res with
      | ok u => cases u; exact weaken (ih sp1.wf)
      | error e => exact weaken (ModSpec.refl sp1.wf _ _)

/-! ## What `Reform.__init__` and `TaxBenefitSystem.clone` build -/

theorem getElem?_cons_append_last {α} (a : α) (l : List α) (x : α) : (a :: l ++ [x])[1 + l.length]? = some x := by
  rw [Nat.add_comm]; simp

theorem getElem?_cons_append_mid {α} (a : α) (l : List α) (x : α) {i : Nat} (hi : i < l.length) :
    (a :: l ++ [x])[1 + i]? = l[i]? := by
  rw [Nat.add_comm]; simp [List.getElem?_append_left hi]

theorem entityCopies_spec (h : Heap) (owner : Oid) (es : List Oid) {os : List Obj}
    (hc : entityCopies h owner es = some os) :
    ∀ o ∈ os, ∃ k, o = Obj.ent { key := k, system := some owner } := by
  induction es generalizing os with
  | nil => simp [entityCopies] at hc; subst hc; intro o ho; cases ho
  | cons e r ih =>
    unfold entityCopies at hc
    cases he : h.getEnt e with
    | none => rw [he] at hc; simp at hc
    | some eo =>
      cases hr : entityCopies h owner r with
      | none => rw [he, hr] at hc; simp at hc
      | some rest =>
        rw [he, hr] at hc
        simp only [Option.some.injEq] at hc
        subst hc
        intro o ho
        rcases List.mem_cons.mp ho with rfl | ho
        · exact ⟨eo.key, rfl⟩
        · exact ih hr o ho

/-- the entity copies of a freshly built system `sid` resolve names in `sid` -/
theorem fresh_entities_bound {h1 : Heap} {sid : Nat} {ents : List Obj}
    (hents : ∀ o ∈ ents, ∃ k, o = Obj.ent { key := k, system := some sid })
    (hlook : ∀ i, i < ents.length → h1.look (sid + 1 + i) = ents[i]?) :
    ∀ e ∈ (List.range ents.length).map (fun i => sid + 1 + i),
      ∃ eo, h1.getEnt e = some eo ∧ eo.system = some sid := by
  intro e he
  simp only [List.mem_map, List.mem_range] at he
  obtain ⟨i, hi, rfl⟩ := he
  have hl := hlook i hi
  have hget : ents[i]? = some ents[i] := List.getElem?_eq_getElem hi
  obtain ⟨k, hk⟩ := hents _ (List.mem_of_getElem? hget)
  rw [hget, hk] at hl
  exact ⟨_, getEnt_of_look hl, rfl⟩

/-- what `Reform.__init__` builds before `apply()`: the *same* variable objects and parameter tree,
    its own dict and entities -/
theorem reformInit_spec {h : Heap} {src : Oid} {h1 : Heap} {R : Oid} (hc : reformInit h src = .ok (h1, R))
    (hw : SysWF h src) :
    SysWF h1 R ∧ (∀ name, resolve h1 R name = resolve h src name) ∧
    (∀ name, varObs h1 R name = varObs h src name) ∧
    (∀ pn d, paramObs h1 R pn d = paramObs h src pn d) ∧ Keeps h R h1 ∧
    ∃ sR, h1.getSys R = some sR ∧ sR.baseline = some src ∧
      ∀ e ∈ sR.entities, ∃ eo, h1.getEnt e = some eo ∧ eo.system = some R := by
  obtain ⟨s, m, p, hs, hm, hp, he⟩ := hw
  unfold reformInit at hc
  rw [hs] at hc
  dsimp only at hc
  cases hec : entityCopies h h.next s.entities with
  | none => rw [hec] at hc; simp at hc
  | some ents =>
    rw [hec, hm] at hc
    simp only [Except.ok.injEq, Prod.mk.injEq] at hc
    obtain ⟨hh, hR⟩ := hc
    subst hR
    have hk : Keeps h h.next h1 := by rw [← hh]; exact keeps_allocs h _ _
    have hPlt := lt_next_of_look h (look_of_getPar hp)
    obtain ⟨sR, hsR, hRents, hRvars, hRpar, hRbase⟩ : ∃ sR, h1.getSys h.next = some sR ∧
        sR.entities = (List.range ents.length).map (fun i => h.next + 1 + i) ∧
        sR.vars = h.next + 1 + ents.length ∧ sR.params = s.params ∧ sR.baseline = some src := by
      refine ⟨(⟨(List.range ents.length).map (fun i => h.next + 1 + i), h.next + 1 + ents.length,
        s.params, some src⟩ : SysObj), getSys_of_look ?_, rfl, rfl, rfl, rfl⟩
      rw [← hh]
      have := look_allocs_ge h (Obj.sys ⟨(List.range ents.length).map (fun i => h.next + 1 + i),
        h.next + 1 + ents.length, s.params, some src⟩ :: ents ++ [Obj.vmap m]) 0
      simpa using this
    have hmR : h1.getMap sR.vars = some m := by
      apply getMap_of_look
      rw [hRvars, ← hh, show h.next + 1 + ents.length = h.next + (1 + ents.length) from Nat.add_assoc _ _ _, look_allocs_ge, getElem?_cons_append_last]
    have hpR : h1.getPar sR.params = some p := by
      rw [hRpar, ← hh, getPar_congr (look_allocs_lt h _ hPlt)]; exact hp
    have heR : ∀ e ∈ m, ∃ v, h1.getVar e.2 = some v := fun e hmem => by
      obtain ⟨v, hv⟩ := he e hmem; exact ⟨v, hk.keepVar _ _ hv⟩
    refine ⟨sysWF_intro hsR hmR hpR heR, ?_, ?_, ?_, hk, _, hsR, hRbase, ?_⟩
    · intro name
      rw [resolve_eq hsR hmR, resolve_eq hs hm]
    · intro name
      rw [varObs_eq hsR hmR, varObs_eq hs hm]
      cases hd : dictGet name m with
      | none => rfl
      | some vid =>
        obtain ⟨v, hv⟩ := he _ (mem_of_dictGet hd)
        dsimp only
        rw [hk.keepVar _ _ hv, hv]
    · intro pn d
      rw [paramObs_eq hsR hpR, paramObs_eq hs hp]
    · rw [hRents]
      refine fresh_entities_bound (entityCopies_spec h _ _ hec) ?_
      intro i hi
      rw [← hh, show h.next + 1 + i = h.next + (1 + i) from Nat.add_assoc _ _ _, look_allocs_ge, getElem?_cons_append_mid _ _ _ hi]

theorem view_with_baseline (v : VarObj) (b : Option Oid) : ({ v with baseline := b } : VarObj).view = v.view := rfl

/-- `copy.deepcopy` of a variable: a fresh object with the same observable content -/
theorem copyVar_spec (fuel : Nat) (h : Heap) (vid : Oid) {h1 : Heap} {vid' : Oid}
    (hc : copyVar fuel h vid = some (h1, vid')) :
    ∃ v v', h.getVar vid = some v ∧ h1.getVar vid' = some v' ∧ v'.view = v.view ∧ v'.cls = v.cls ∧
      h.next ≤ vid' ∧ vid' < h1.next := by
  cases fuel with
  | zero => cases hc
  | succ fuel =>
    obtain ⟨v, hv, hcase⟩ := copyVar_inv hc
    rcases hcase with ⟨_, rfl, rfl⟩ | ⟨b, h0, b', _, hr, rfl, rfl⟩
    · refine ⟨v, v, hv, ?_, rfl, rfl, Nat.le_refl _, by rw [next_allocs]; simp⟩
      apply getVar_of_look
      have := look_allocs_ge h [Obj.var v] 0
      simpa using this
    · obtain ⟨os, hos, _⟩ := copyVar_allocs fuel h b hr
      refine ⟨v, { v with baseline := some b' }, hv, ?_, rfl, rfl, ?_, by rw [next_allocs]; simp⟩
      · apply getVar_of_look
        have := look_allocs_ge h0 [Obj.var { v with baseline := some b' }] 0
        simpa using this
      · rw [hos, next_allocs]; exact Nat.le_add_right _ _

/-- `copy.deepcopy(self.variables)`: the same names, each bound to a fresh copy -/
theorem copyVars_spec (h : Heap) (m : List (String × Oid)) {h2 : Heap} {m' : List (String × Oid)}
    (hc : copyVars h m = some (h2, m')) (hent : ∀ e ∈ m, ∃ v, h.getVar e.2 = some v) :
    (∀ name, match dictGet name m with
        | none => dictGet name m' = none
        | some vid => ∃ vid', dictGet name m' = some vid' ∧
            (h2.getVar vid').map (·.view) = (h.getVar vid).map (·.view)) ∧
    (∀ e ∈ m', (∃ v, h2.getVar e.2 = some v) ∧ h.next ≤ e.2) := by
  induction m generalizing h h2 m' with
  | nil =>
    simp only [copyVars, Option.some.injEq, Prod.mk.injEq] at hc
    obtain ⟨rfl, rfl⟩ := hc
    exact ⟨fun name => by simp [dictGet], fun e he => by cases he⟩
  | cons pr r ih =>
    obtain ⟨k, vid⟩ := pr
    obtain ⟨ha, vid', r', h1, h2', rfl⟩ := copyVars_inv hc
    obtain ⟨os1, e1, _⟩ := copyVar_allocs _ _ _ h1
    obtain ⟨os2, e2, _⟩ := copyVars_allocs ha r h2'
    obtain ⟨v, v', hv, hv', hview, _, hge, hlt⟩ := copyVar_spec _ _ _ h1
    have k1 : Keeps h 0 ha := by rw [e1]; exact keeps_allocs h _ _
    have k2 : Keeps ha 0 h2 := by rw [e2]; exact keeps_allocs ha _ _
    have hent' : ∀ e ∈ r, ∃ v, ha.getVar e.2 = some v := fun e he => by
      obtain ⟨w, hw⟩ := hent e (List.mem_cons_of_mem _ he); exact ⟨w, k1.keepVar _ _ hw⟩
    obtain ⟨ih1, ih2⟩ := ih ha h2' hent'
    refine ⟨fun name => ?_, fun e he => ?_⟩
    · by_cases hk : k = name
      · subst hk
        simp only [dictGet, if_pos rfl]
        exact ⟨vid', rfl, by rw [k2.keepVar _ _ hv', hv, Option.map_some, Option.map_some, hview]⟩
      · simp only [dictGet, if_neg hk]
        have := ih1 name
        cases hd : dictGet name r with
        | none => rw [hd] at this; exact this
        | some vid0 =>
          rw [hd] at this
          obtain ⟨vid1, g1, g2⟩ := this
          obtain ⟨w, hw⟩ := hent (name, vid0) (List.mem_cons_of_mem _ (mem_of_dictGet hd))
          exact ⟨vid1, g1, by rw [g2, k1.keepVar _ _ hw, hw]⟩
    · rcases List.mem_cons.mp he with rfl | he
      · exact ⟨⟨v', k2.keepVar _ _ hv'⟩, hge⟩
      · obtain ⟨a, b⟩ := ih2 e he
        exact ⟨a, Nat.le_trans k1.grows b⟩

/-- what `TaxBenefitSystem.clone` builds: its own entities, its own dict of fresh copies of the
    variables, its own copy of the parameter tree, the same baseline -/
theorem cloneSys_spec {h : Heap} {src : Oid} {h' : Heap} {N : Oid} (hc : cloneSys h src = .ok (h', N))
    (hw : SysWF h src) :
    SysWF h' N ∧ (∀ name, varObs h' N name = varObs h src name) ∧
    (∀ name vid, resolve h' N name = some vid → h.next ≤ vid) ∧
    (∀ pn d, paramObs h' N pn d = paramObs h src pn d) ∧ Keeps h N h' ∧
    ∃ sN s, h'.getSys N = some sN ∧ h.getSys src = some s ∧ sN.baseline = s.baseline ∧
      h.next ≤ sN.vars ∧ h.next ≤ sN.params ∧
      ∀ e ∈ sN.entities, h.next ≤ e ∧ ∃ eo, h'.getEnt e = some eo ∧ eo.system = some N := by
  obtain ⟨s, m, p, hs, hm, hp, he⟩ := hw
  unfold cloneSys at hc
  rw [hs] at hc
  dsimp only at hc
  cases hec : entityCopies h h.next s.entities with
  | none => rw [hec] at hc; simp at hc
  | some ents =>
    rw [hec, hp, hm] at hc
    dsimp only at hc
    generalize hh1 : h.allocs _ = h1 at hc
    cases hcv : copyVars h1 m with
    | none => rw [hcv] at hc; cases hc
    | some r =>
      obtain ⟨h2, m'⟩ := r
      rw [hcv] at hc
      simp only [Except.ok.injEq, Prod.mk.injEq] at hc
      obtain ⟨hh', hN⟩ := hc
      subst hN
      have k1 : Keeps h h.next h1 := by rw [← hh1]; exact keeps_allocs h _ _
      have hn1 : h1.next = h.next + (1 + ents.length + 1) := by
        rw [← hh1, next_allocs]; simp; omega
      obtain ⟨os2, e2, _⟩ := copyVars_allocs h1 m hcv
      have k2 : Keeps h1 h.next h2 := by rw [e2]; exact keeps_allocs h1 _ _
      have hn2 : h1.next ≤ h2.next := k2.grows
      have hent1 : ∀ e ∈ m, ∃ v, h1.getVar e.2 = some v := fun e hmem => by
        obtain ⟨v, hv⟩ := he e hmem; exact ⟨v, k1.keepVar _ _ hv⟩
      obtain ⟨cs1, cs2⟩ := copyVars_spec h1 m hcv hent1
      -- reading the final heap below `h2.next`, away from the system object
      have hlook : ∀ i, i ≠ h.next → i < h2.next → h'.look i = h2.look i := by
        intro i hne hlt
        rw [← hh', look_put_ne _ _ (Ne.symm hne)]
        exact look_allocs_lt h2 _ hlt
      have hlook1 : ∀ i, i ≠ h.next → i < h1.next → h'.look i = h1.look i := by
        intro i hne hlt
        rw [hlook i hne (Nat.lt_of_lt_of_le hlt hn2), e2, look_allocs_lt h1 _ hlt]
      obtain ⟨sN, hsN, hNents, hNvars, hNpar, hNbase⟩ : ∃ sN, h'.getSys h.next = some sN ∧
          sN.entities = (List.range ents.length).map (fun i => h.next + 1 + i) ∧
          sN.vars = h2.next ∧ sN.params = h.next + 1 + ents.length ∧ sN.baseline = s.baseline := by
        refine ⟨(⟨(List.range ents.length).map (fun i => h.next + 1 + i), h2.next,
          h.next + 1 + ents.length, s.baseline⟩ : SysObj), getSys_of_look ?_, rfl, rfl, rfl, rfl⟩
        rw [← hh', look_put, if_pos rfl, if_pos]
        · rfl
        · show h.next < (h2.allocs [Obj.vmap m']).next
          rw [next_allocs]; simp only [List.length_singleton]; omega
      have hmN : h'.getMap sN.vars = some m' := by
        apply getMap_of_look
        have hneq : h.next ≠ h2.next := by omega
        rw [hNvars, ← hh', look_put_ne _ _ hneq]
        show (h2.allocs [Obj.vmap m']).look (h2.next + 0) = _
        rw [look_allocs_ge]; rfl
      have hpN : h'.getPar sN.params = some p := by
        apply getPar_of_look
        rw [hNpar, hlook1 _ (by omega) (by omega), ← hh1, show h.next + 1 + ents.length = h.next + (1 + ents.length) from Nat.add_assoc _ _ _, look_allocs_ge, getElem?_cons_append_last]
      have hvN : ∀ e ∈ m', ∃ v, h'.getVar e.2 = some v := fun e hmem => by
        obtain ⟨⟨v, hv⟩, hge⟩ := cs2 e hmem
        refine ⟨v, ?_⟩
        have hlt := lt_next_of_look h2 (look_of_getVar hv)
        rw [getVar_congr (hlook e.2 (by omega) hlt)]; exact hv
      have kN : Keeps h h.next h' := by
        refine ⟨fun i v hv => ?_, fun i eo heo => ?_, ?_⟩
        · have hlt := lt_next_of_look h (look_of_getVar hv)
          rw [getVar_congr (hlook1 i (by omega) (by omega))]; exact k1.keepVar _ _ hv
        · have hlt := lt_next_of_look h (look_of_getEnt heo)
          rw [getEnt_congr (hlook1 i (by omega) (by omega))]; exact k1.keepEnt _ _ heo
        · rw [← hh', next_put, alloc_eq_allocs, next_allocs]; omega
      refine ⟨sysWF_intro hsN hmN hpN hvN, ?_, ?_, ?_, kN, _, s, hsN, hs, hNbase, by rw [hNvars]; omega,
        by rw [hNpar]; omega, ?_⟩
      · intro name
        rw [varObs_eq hsN hmN, varObs_eq hs hm]
        have := cs1 name
        cases hd : dictGet name m with
        | none => rw [hd] at this; rw [this]
        | some vid =>
          rw [hd] at this
          obtain ⟨vid', g1, g2⟩ := this
          rw [g1]
          dsimp only
          obtain ⟨⟨v, hv⟩, hge⟩ := cs2 _ (mem_of_dictGet g1)
          have hlt := lt_next_of_look h2 (look_of_getVar hv)
          rw [getVar_congr (hlook vid' (by omega) hlt), g2]
          obtain ⟨w, hw⟩ := he _ (mem_of_dictGet hd)
          rw [k1.keepVar _ _ hw, hw]
      · intro name vid hr
        rw [resolve_eq hsN hmN] at hr
        have := (cs2 _ (mem_of_dictGet hr)).2
        omega
      · intro pn d
        rw [paramObs_eq hsN hpN, paramObs_eq hs hp]
      · intro e hemem
        rw [hNents] at hemem
        have hb := fresh_entities_bound (h1 := h') (entityCopies_spec h _ _ hec) (by
          intro i hi
          rw [hlook1 _ (by omega) (by omega), ← hh1, show h.next + 1 + i = h.next + (1 + i) from Nat.add_assoc _ _ _, look_allocs_ge,
            getElem?_cons_append_mid _ _ _ hi]) e hemem
        refine ⟨?_, hb⟩
        simp only [List.mem_map, List.mem_range] at hemem
        obtain ⟨i, _, rfl⟩ := hemem
        omega

/-! ## `Variable.__init__`: inheritance; the formula in force -/

theorem lastLE_append (l1 l2 : List (Int × Fml)) (d : Int) :
    lastLE (l1 ++ l2) d = match lastLE l2 d with | some g => some g | none => lastLE l1 d := by
  induction l1 with
  | nil =>
    simp only [List.nil_append, lastLE]
    cases lastLE l2 d <;> rfl
  | cons p r ih =>
    obtain ⟨s, f⟩ := p
    simp only [List.cons_append, lastLE, ih]
    cases lastLE l2 d with
    | some g => rfl
    | none => rfl

theorem lastLE_none_of_all_gt (l : List (Int × Fml)) (d : Int) (hl : ∀ p ∈ l, d < p.1) : lastLE l d = none := by
  induction l with
  | nil => rfl
  | cons p r ih =>
    obtain ⟨s, f⟩ := p
    simp only [lastLE, ih (fun q hq => hl q (List.mem_cons_of_mem _ hq))]
    have : d < s := hl (s, f) (List.mem_cons_self ..)
    rw [if_neg (by omega)]

theorem lastLE_isSome_of_mem (l : List (Int × Fml)) (d : Int) {p : Int × Fml} (hp : p ∈ l) (hd : p.1 ≤ d) :
    (lastLE l d).isSome = true := by
  induction l with
  | nil => cases hp
  | cons q r ih =>
    obtain ⟨s, f⟩ := q
    simp only [lastLE]
    rcases List.mem_cons.mp hp with rfl | hin
    · cases lastLE r d with
      | some g => rfl
      | none => simp only []; rw [if_pos hd]; rfl
    · have := ih hin
      cases hr : lastLE r d with
      | some g => rfl
      | none => rw [hr] at this; cases this

theorem lastLE_filter (l : List (Int × Fml)) (d : Int) (keep : Int × Fml → Bool)
    (hk : ∀ p ∈ l, keep p = false → d < p.1) : lastLE (l.filter keep) d = lastLE l d := by
  induction l with
  | nil => rfl
  | cons p r ih =>
    obtain ⟨s, f⟩ := p
    have ih' := ih (fun q hq => hk q (List.mem_cons_of_mem _ hq))
    by_cases hkeep : keep (s, f) = true
    · rw [List.filter_cons_of_pos hkeep]
      simp only [lastLE, ih']
    · have hf : keep (s, f) = false := by simpa using hkeep
      rw [List.filter_cons_of_neg hkeep, ih']
      have : d < s := hk (s, f) (List.mem_cons_self ..) hf
      simp only [lastLE]
      cases lastLE r d with
      | some g => rfl
      | none => simp only []; rw [if_neg (by omega)]

theorem lastLE_map_annual (l : List (Int × Fml)) (d : Int) :
    lastLE (l.map (fun p => (p.1, Fml.annual p.2))) d = (lastLE l d).map Fml.annual := by
  induction l with
  | nil => rfl
  | cons p r ih =>
    obtain ⟨s, f⟩ := p
    simp only [List.map_cons, lastLE, ih]
    cases lastLE r d with
    | some g => rfl
    | none =>
      simp only [Option.map_none]
      by_cases hs : s ≤ d
      · rw [if_pos hs, if_pos hs]; rfl
      · rw [if_neg hs, if_neg hs]; rfl

theorem lastLE_mem (l : List (Int × Fml)) (d : Int) {f : Fml} (hl : lastLE l d = some f) :
    ∃ s, (s, f) ∈ l ∧ s ≤ d := by
  induction l with
  | nil => cases hl
  | cons p r ih =>
    obtain ⟨s, g⟩ := p
    simp only [lastLE] at hl
    cases hr : lastLE r d with
    | some g' =>
      rw [hr] at hl
      simp only [Option.some.injEq] at hl
      subst hl
      obtain ⟨s', h1, h2⟩ := ih hr
      exact ⟨s', List.mem_cons_of_mem _ h1, h2⟩
    | none =>
      rw [hr] at hl
      dsimp only at hl
      by_cases hs : s ≤ d
      · rw [if_pos hs] at hl
        simp only [Option.some.injEq] at hl
        subst hl
        exact ⟨s, List.mem_cons_self .., hs⟩
      · rw [if_neg hs] at hl; cases hl

/-- an entity bound to `X` resolves names like `X` does -/
theorem varObsVia_of_bound {h : Heap} {e X : Oid} {eo : EntObj} (he : h.getEnt e = some eo)
    (hb : eo.system = some X) (name : String) : varObsVia h e name = varObs h X name := by
  unfold varObsVia varObs resolveVia
  rw [he]; dsimp only; rw [hb]

theorem mem_insertF {d : Int} {f : Fml} {l : List (Int × Fml)} {p : Int × Fml} (hp : p ∈ insertF d f l) :
    p = (d, f) ∨ p ∈ l := by
  induction l with
  | nil => simp [insertF] at hp; exact Or.inl hp
  | cons q r ih =>
    obtain ⟨d', f'⟩ := q
    unfold insertF at hp
    by_cases h1 : d < d'
    · rw [if_pos h1] at hp
      rcases List.mem_cons.mp hp with h | h
      · exact Or.inl h
      · exact Or.inr h
    · rw [if_neg h1] at hp
      by_cases h2 : d = d'
      · rw [if_pos h2] at hp
        rcases List.mem_cons.mp hp with h | h
        · exact Or.inl h
        · exact Or.inr (List.mem_cons_of_mem _ h)
      · rw [if_neg h2] at hp
        rcases List.mem_cons.mp hp with h | h
        · exact Or.inr (by rw [h]; exact List.mem_cons_self ..)
        · rcases ih h with h | h
          · exact Or.inl h
          · exact Or.inr (List.mem_cons_of_mem _ h)

/-- the dates present before stay present (possibly with a newer function), the new one is there -/
theorem insertF_dates (d : Int) (f : Fml) (l : List (Int × Fml)) :
    (d, f) ∈ insertF d f l ∧ ∀ q ∈ l, ∃ g, (q.1, g) ∈ insertF d f l := by
  induction l with
  | nil => exact ⟨by simp [insertF], fun q hq => by cases hq⟩
  | cons q r ih =>
    obtain ⟨d', f'⟩ := q
    unfold insertF
    by_cases h1 : d < d'
    · rw [if_pos h1]
      exact ⟨List.mem_cons_self .., fun q hq => ⟨q.2, List.mem_cons_of_mem _ hq⟩⟩
    · rw [if_neg h1]
      by_cases h2 : d = d'
      · rw [if_pos h2]
        refine ⟨List.mem_cons_self .., fun q hq => ?_⟩
        rcases List.mem_cons.mp hq with rfl | hq
        · exact ⟨f, by rw [← h2]; exact List.mem_cons_self ..⟩
        · exact ⟨q.2, List.mem_cons_of_mem _ hq⟩
      · rw [if_neg h2]
        refine ⟨List.mem_cons_of_mem _ ih.1, fun q hq => ?_⟩
        rcases List.mem_cons.mp hq with rfl | hq
        · exact ⟨f', List.mem_cons_self ..⟩
        · obtain ⟨g, hg⟩ := ih.2 q hq
          exact ⟨g, List.mem_cons_of_mem _ hg⟩

/-- the loop of `set_formulas`: every resulting formula is a declared one (or was there before);
    every declared date is present; no declared formula starts after `end` -/
theorem declaredFormulas_spec (e : Option Int) (fs : List (Int × Nat)) (acc decl : List (Int × Fml))
    (hd : declaredFormulas e fs acc = .ok decl) :
    (∀ p ∈ decl, (∃ n, (p.1, n) ∈ fs ∧ p.2 = .base n) ∨ p ∈ acc) ∧
    (∀ q ∈ fs, ∃ g, (q.1, g) ∈ decl) ∧ (∀ q ∈ acc, ∃ g, (q.1, g) ∈ decl) ∧
    (∀ ee, e = some ee → ∀ q ∈ fs, q.1 ≤ ee) := by
  induction fs generalizing acc with
  | nil =>
    simp only [declaredFormulas, Except.ok.injEq] at hd
    subst hd
    exact ⟨fun p hp => Or.inr hp, (fun q hq => by cases hq), fun q hq => ⟨q.2, hq⟩, (fun _ _ q hq => by cases hq)⟩
  | cons x r ih =>
    obtain ⟨d, n⟩ := x
    unfold declaredFormulas at hd
    have key : ∀ (hrec : declaredFormulas e r (insertF d (.base n) acc) = .ok decl),
        (∀ p ∈ decl, (∃ n', (p.1, n') ∈ (d, n) :: r ∧ p.2 = .base n') ∨ p ∈ acc) ∧
        (∀ q ∈ (d, n) :: r, ∃ g, (q.1, g) ∈ decl) ∧ (∀ q ∈ acc, ∃ g, (q.1, g) ∈ decl) ∧
        (∀ ee, e = some ee → ∀ q ∈ r, q.1 ≤ ee) := by
      intro hrec
      obtain ⟨i1, i2, i3, i4⟩ := ih _ hrec
      obtain ⟨j1, j2⟩ := insertF_dates d (.base n) acc
      refine ⟨fun p hp => ?_, fun q hq => ?_, fun q hq => ?_, i4⟩
      · rcases i1 p hp with ⟨n', hn', hb⟩ | hin
        · exact Or.inl ⟨n', List.mem_cons_of_mem _ hn', hb⟩
        · rcases mem_insertF hin with rfl | hin
          · exact Or.inl ⟨n, List.mem_cons_self .., rfl⟩
          · exact Or.inr hin
      · rcases List.mem_cons.mp hq with rfl | hq
        · exact i3 _ j1
        · exact i2 q hq
      · obtain ⟨g, hg⟩ := j2 q hq
        exact i3 (q.1, g) hg
    cases he : e with
    | none =>
      rw [he] at hd
      obtain ⟨k1, k2, k3, _⟩ := key (by rw [he]; exact hd)
      exact ⟨k1, k2, k3, fun ee hee => by cases hee⟩
    | some ee =>
      rw [he] at hd
      dsimp only at hd
      by_cases hlt : ee < d
      · rw [if_pos hlt] at hd; cases hd
      · rw [if_neg hlt] at hd
        obtain ⟨k1, k2, k3, k4⟩ := key (by rw [he]; exact hd)
        refine ⟨k1, k2, k3, fun ee' hee' q hq => ?_⟩
        cases hee'
        rcases List.mem_cons.mp hq with rfl | hq
        · show d ≤ ee; omega
        · exact k4 ee he q hq

theorem requiredAttr_some (what : String) (d : Option String) (x : String) :
    requiredAttr what d (some x) = .ok (d.getD x) := by
  cases d <;> rfl

/-- a class that is instantiated declares no value `Variable.set` refuses -/
theorem constructWith_ok {cls : ClassDef} {bid : Option Oid} {b : Option VarObj} {v : VarObj}
    (hc : constructWith cls bid b = .ok v) : cls.invalid = false ∧ constructCore cls bid b = .ok v := by
  unfold constructWith at hc
  cases hi : cls.invalid with
  | true => rw [hi] at hc; simp at hc
  | false => rw [hi] at hc; exact ⟨rfl, by simpa using hc⟩

theorem constructWith_of_core {cls : ClassDef} {bid : Option Oid} {b : Option VarObj}
    (hi : cls.invalid = false) : constructWith cls bid b = constructCore cls bid b := by
  unfold constructWith; rw [hi]; rfl

/-- everything `Variable.__init__(baseline_variable=b)` computes, in one statement -/
theorem constructWith_some {cls : ClassDef} {bid : Oid} {b v : VarObj}
    (hc : constructWith cls (some bid) (some b) = .ok v) :
    v.cls = cls ∧ v.baseline = some bid ∧
    v.valueType = cls.valueType.getD b.valueType ∧ v.default = cls.default.getD b.default ∧
    v.entity = cls.entity.getD b.entity ∧ v.defPeriod = cls.defPeriod.getD b.defPeriod ∧
    v.endDate = declaredEnd cls.endDate b.endDate ∧
    v.setInput = (match cls.setInput with | some x => some x | none => b.setInput) ∧
    v.isNeutralized = false ∧
    ∃ decl, declaredFormulas v.endDate cls.formulas [] = .ok decl ∧ v.formulas = mergeBaseline decl b.formulas := by
  have hc := (constructWith_ok hc).2
  unfold constructCore at hc
  simp only [Option.map_some, requiredAttr_some] at hc
  split at hc
  · cases hc
  · rename_i decl hd
    simp only [Except.ok.injEq] at hc
    subst hc
    refine ⟨rfl, rfl, rfl, ?_, rfl, rfl, rfl, ?_, rfl, decl, hd, rfl⟩
    · cases cls.default <;> rfl
    · cases cls.setInput <;> rfl

/-- … its descriptive attributes: each one declared by the class, else inherited -/
theorem constructWith_some_attrs {cls : ClassDef} {bid : Oid} {b v : VarObj}
    (hc : constructWith cls (some bid) (some b) = .ok v) :
    cls.invalid = false ∧
    v.label = attrOf "label" v.valueType (dictGet "label" cls.attrs) (some b.label) ∧
    v.attrs = metaKeys.map fun k =>
      (k, metaAttr k v.valueType (dictGet k cls.attrs) (some (b.attr k))) := by
  obtain ⟨hi, hc⟩ := constructWith_ok hc
  unfold constructCore at hc
  simp only [Option.map_some, requiredAttr_some] at hc
  split at hc
  · cases hc
  · simp only [Except.ok.injEq] at hc
    subst hc
    exact ⟨hi, rfl, rfl⟩

/-- looking a key up in a table built key by key -/
theorem dictGet_map_self {α} (f : String → α) (l : List String) (k : String) (hk : k ∈ l) :
    dictGet k (l.map fun x => (x, f x)) = some (f k) := by
  induction l with
  | nil => cases hk
  | cons a r ih =>
    simp only [List.map_cons, dictGet]
    by_cases ha : a = k
    · rw [if_pos ha, ha]
    · rw [if_neg ha]
      rcases List.mem_cons.mp hk with h | h
      · exact absurd h.symm ha
      · exact ih h

/-- … attribute by attribute -/
theorem constructWith_some_attr {cls : ClassDef} {bid : Oid} {b v : VarObj}
    (hc : constructWith cls (some bid) (some b) = .ok v) (k : String) (hk : k ∈ metaKeys) :
    v.attr k = metaAttr k v.valueType (dictGet k cls.attrs) (some (b.attr k)) := by
  obtain ⟨_, _, ha⟩ := constructWith_some_attrs hc
  unfold VarObj.attr
  rw [ha, dictGet_map_self _ _ _ hk]
  rfl

/-- … and without a baseline -/
theorem constructWith_none {cls : ClassDef} {v : VarObj} (hc : constructWith cls none none = .ok v) :
    v.cls = cls ∧ v.baseline = none ∧ cls.valueType = some v.valueType ∧
    v.default = cls.default.getD (typeDefault v.valueType) ∧ cls.entity = some v.entity ∧
    cls.defPeriod = some v.defPeriod ∧ v.endDate = declaredEnd cls.endDate none ∧ v.setInput = cls.setInput ∧
    v.isNeutralized = false ∧ declaredFormulas (declaredEnd cls.endDate none) cls.formulas [] = .ok v.formulas := by
  have hc := (constructWith_ok hc).2
  obtain ⟨name, vt, df, ent, dp, ed, si, fs, at_, inv⟩ := cls
  unfold constructCore at hc
  cases vt with
  | none => simp [requiredAttr] at hc
  | some vt =>
    cases ent with
    | none => simp [requiredAttr] at hc
    | some ent =>
      cases dp with
      | none => simp [requiredAttr] at hc
      | some dp =>
        cases ed <;> cases si <;> cases df <;>
        · simp only [requiredAttr, Option.map_none] at hc
          split at hc
          · cases hc
          · rename_i decl hd
            simp only [Except.ok.injEq] at hc
            subst hc
            exact ⟨rfl, rfl, rfl, rfl, rfl, rfl, rfl, rfl, rfl, hd⟩

/-- the formulas of an updated variable, from its first new start date on: only the new formulas -/
theorem mergeBaseline_from (decl bf : List (Int × Fml)) (d : Int) (hex : ∃ p ∈ decl, p.1 ≤ d) :
    lastLE (mergeBaseline decl bf) d = lastLE decl d ∧ (lastLE decl d).isSome = true := by
  obtain ⟨p, hp, hd⟩ := hex
  have hsome := lastLE_isSome_of_mem decl d hp hd
  refine ⟨?_, hsome⟩
  cases decl with
  | nil => cases hp
  | cons q r =>
    obtain ⟨d0, f0⟩ := q
    show lastLE (bf.filter (fun p => p.1 < d0) ++ (d0, f0) :: r) d = _
    rw [lastLE_append]
    cases hl : lastLE ((d0, f0) :: r) d with
    | some g => rfl
    | none => rw [hl] at hsome; cases hsome

/-- … and before it: the baseline's formula in force -/
theorem mergeBaseline_before (decl bf : List (Int × Fml)) (d : Int) (hd : ∀ p ∈ decl, d < p.1) :
    lastLE (mergeBaseline decl bf) d = lastLE bf d := by
  cases decl with
  | nil => rfl
  | cons q r =>
    obtain ⟨d0, f0⟩ := q
    show lastLE (bf.filter (fun p => p.1 < d0) ++ (d0, f0) :: r) d = _
    rw [lastLE_append, lastLE_none_of_all_gt _ d hd]
    dsimp only
    apply lastLE_filter
    intro p _ hk
    have h0 : d < d0 := hd (d0, f0) (List.mem_cons_self ..)
    have : ¬ p.1 < d0 := by simpa using hk
    omega

/-! ## Parameter modifiers -/

theorem paramObs_eq_hist (h : Heap) (X : Oid) (pn : String) (d : Int) :
    paramObs h X pn d = match paramHist h X pn with | none => none | some l => pget l d := by
  unfold paramObs paramHist
  cases h.getSys X with
  | none => rfl
  | some s =>
    dsimp only
    cases h.getPar s.params with
    | none => rfl
    | some p => rfl

theorem paramHist_eq {h : Heap} {X : Oid} {s : SysObj} {p : ParamTree}
    (hs : h.getSys X = some s) (hp : h.getPar s.params = some p) (pn : String) :
    paramHist h X pn = dictGet pn p := by
  unfold paramHist; rw [hs]; dsimp only; rw [hp]

/-- a modifier that returns normally has applied, to each parameter, the updates that name it, in order -/
theorem applyUpds_ok (p : ParamTree) (us : List PUpd) {p' : ParamTree} (hu : applyUpds p us = (p', .ok ()))
    (pn : String) :
    dictGet pn p' = (dictGet pn p).map
      (fun l => updates l ((us.filter (fun u => u.name = pn)).map PUpd.toUpd)) := by
  induction us generalizing p with
  | nil =>
    simp only [applyUpds, Prod.mk.injEq] at hu
    rw [← hu.1]
    cases dictGet pn p <;> rfl
  | cons u r ih =>
    unfold applyUpds at hu
    cases hd : dictGet u.name p with
    | none => rw [hd] at hu; simp at hu
    | some l =>
      rw [hd] at hu
      dsimp only at hu
      rw [ih _ hu]
      by_cases hn : u.name = pn
      · subst hn
        rw [dictGet_dictSet_self, hd]
        simp only [Option.map_some, List.filter_cons, decide_true, if_true, List.map_cons]
        rfl
      · rw [dictGet_dictSet_ne _ _ (Ne.symm hn)]
        simp only [List.filter_cons, hn, decide_false]
        rfl

/-- a modifier that returns normally only named parameters that exist -/
theorem applyUpds_named (p : ParamTree) (us : List PUpd) {p' : ParamTree} (hu : applyUpds p us = (p', .ok ())) :
    ∀ u ∈ us, (dictGet u.name p).isSome = true := by
  induction us generalizing p with
  | nil => intro u hu'; cases hu'
  | cons a r ih =>
    intro u hmem
    unfold applyUpds at hu
    cases hd : dictGet a.name p with
    | none => rw [hd] at hu; simp at hu
    | some l =>
      rw [hd] at hu
      dsimp only at hu
      rcases List.mem_cons.mp hmem with rfl | hmem
      · rw [hd]; rfl
      · have := ih _ hu u hmem
        by_cases hn : u.name = a.name
        · rw [hn, hd]; rfl
        · rw [dictGet_dictSet_ne _ _ hn] at this; exact this

theorem modifyParams_named {h : Heap} {X : Oid} {us : List PUpd} {h' : Heap}
    (hm : modifyParams h X us = (h', .ok ())) : ∀ u ∈ us, (paramHist h X u.name).isSome = true := by
  rcases modifyParams_inv h X us with ⟨e, he⟩ | ⟨s, p, b, p', hs, hp, hb, hu, he⟩ | ⟨s, p, p', r, hs, hp, hb, hu, he⟩
  · rw [he] at hm; cases hm
  · intro u hmem
    rw [paramHist_eq hs hp]; exact applyUpds_named p us hu u hmem
  · rw [he] at hm
    simp only [Prod.mk.injEq] at hm
    obtain ⟨_, hm2⟩ := hm
    subst hm2
    intro u hmem
    rw [paramHist_eq hs hp]; exact applyUpds_named p us hu u hmem

/-- the histories of `X` after a parameter modifier that returned normally -/
theorem modifyParams_hist {h : Heap} {X : Oid} {us : List PUpd} {h' : Heap}
    (hm : modifyParams h X us = (h', .ok ())) (hw : SysWF h X) (pn : String) :
    paramHist h' X pn = (paramHist h X pn).map
      (fun l => updates l ((us.filter (fun u => u.name = pn)).map PUpd.toUpd)) := by
  have sp := modSpec_modifyParams hw us
  rcases modifyParams_inv h X us with ⟨e, he⟩ | ⟨s, p, b, p', hs, hp, hb, hu, he⟩ | ⟨s, p, p', r, hs, hp, hb, hu, he⟩
  · rw [he] at hm; cases hm
  · rw [he] at hm
    simp only [Prod.mk.injEq, and_true] at hm
    subst hm
    have lX := look_of_getSys hs
    have hXlt := lt_next_of_look h lX
    have hs' : ((h.allocs [.par p']).put X (.sys { s with params := h.next })).getSys X
        = some { s with params := h.next } := by
      apply getSys_of_look
      rw [look_put, if_pos rfl, if_pos (by rw [next_allocs]; exact Nat.lt_of_lt_of_le hXlt (Nat.le_add_right _ _))]
    have hp' : ((h.allocs [.par p']).put X (.sys { s with params := h.next })).getPar h.next = some p' := by
      apply getPar_of_look
      rw [look_put_ne _ _ (Nat.ne_of_lt hXlt), look_allocs, if_neg (Nat.lt_irrefl _), Nat.sub_self]; rfl
    rw [paramHist_eq hs' hp', paramHist_eq hs hp, applyUpds_ok p us hu]
  · rw [he] at hm
    simp only [Prod.mk.injEq] at hm
    obtain ⟨hm1, hm2⟩ := hm
    subst hm1
    subst hm2
    have lX := look_of_getSys hs
    have lP := look_of_getPar hp
    have hPlt := lt_next_of_look h lP
    have hs' : (h.put s.params (.par p')).getSys X = some s := by
      rw [getSys_congr (look_put_ne _ _ (ne_of_look lP lX (by simp)))]; exact hs
    have hp' : (h.put s.params (.par p')).getPar s.params = some p' := by
      apply getPar_of_look; rw [look_put, if_pos rfl, if_pos hPlt]
    rw [paramHist_eq hs' hp', paramHist_eq hs hp, applyUpds_ok p us hu]

/-! ## What one modification can write -/

theorem look_bindVar_other {h : Heap} (s : SysObj) (m : List (String × Oid)) (name : String) (w : VarObj)
    {i : Nat} (hi : i < h.next) (hne : i ≠ s.vars) : (bindVar h s m name w).look i = h.look i := by
  show ((h.allocs [.var w]).put s.vars _).look i = _
  rw [look_put_ne _ _ (Ne.symm hne), look_allocs_lt h _ hi]

theorem getSys_loadVariable_fwd {h : Heap} {X : Oid} {sX : SysObj} (hs : h.getSys X = some sX)
    (c : ClassDef) (u : Bool) : (loadVariable h X c u).1.getSys X = some sX := by
  rcases loadVariable_inv h X c u with ⟨e, he⟩ | ⟨s, m0, v, hs', hm', _, _, he⟩
  · rw [he]; exact hs
  · rw [he]
    rw [hs] at hs'; cases hs'
    have hne : X ≠ sX.vars := ne_of_look (look_of_getSys hs) (look_of_getMap hm') (by simp)
    rw [getSys_congr (look_bindVar_other _ _ _ _ (lt_next_of_look h (look_of_getSys hs)) hne)]
    exact hs

theorem addVariables_other {h : Heap} {X : Oid} {sX : SysObj} (hs : h.getSys X = some sX) (cs : List ClassDef) :
    (addVariables h X cs).1.getSys X = some sX ∧
    ∀ i, i < h.next → i ≠ sX.vars → (addVariables h X cs).1.look i = h.look i := by
  induction cs generalizing h with
  | nil => exact ⟨hs, fun _ _ _ => rfl⟩
  | cons c r ih =>
    have f1 := getSys_loadVariable_fwd hs c false
    have n1 := next_loadVariable h X c false
    have l1 : ∀ i, i < h.next → i ≠ sX.vars → (loadVariable h X c false).1.look i = h.look i := by
      intro i hi hne
      rcases loadVariable_inv h X c false with ⟨e, he⟩ | ⟨s, m0, v, hs', _, _, _, he⟩
      · rw [he]
      · rw [he]; rw [hs] at hs'; cases hs'; exact look_bindVar_other _ _ _ _ hi hne
    unfold addVariables
    cases hr : loadVariable h X c false with
    | mk h1 res =>
      rw [hr] at f1 n1 l1
      cases res with
      | ok u =>
        cases u
        obtain ⟨f2, l2⟩ := ih f1
        exact ⟨f2, fun i hi hne => by rw [l2 i (Nat.lt_of_lt_of_le hi n1) hne, l1 i hi hne]⟩
      | error e => exact ⟨f1, l1⟩

/-- a modification of `X` writes, among the objects that exist, at most `X` itself, its variable
    dict and its parameter tree -/
theorem applyMod_look_other {h : Heap} {X : Oid} {sX : SysObj} (hs : h.getSys X = some sX) (m : Mod)
    {i : Nat} (hi : i < h.next) (h1 : i ≠ X) (h2 : i ≠ sX.vars) (h3 : i ≠ sX.params) :
    (applyMod h X m).1.look i = h.look i := by
  have load : ∀ (h0 : Heap) (cls : ClassDef) (u : Bool), h0.getSys X = some sX → i < h0.next →
      (loadVariable h0 X cls u).1.look i = h0.look i := by
    intro h0 cls u hs0 hi0
    rcases loadVariable_inv h0 X cls u with ⟨e, he⟩ | ⟨s, m0, v, hs', _, _, _, he⟩
    · rw [he]
    · rw [he]
      rw [hs0] at hs'; cases hs'
      exact look_bindVar_other _ _ _ _ hi0 h2
  cases m with
  | add c => exact load h c false hs hi
  | update c => exact load h c true hs hi
  | replace c =>
    change (replaceVariable h X c).1.look i = h.look i
    rcases replaceVariable_inv h X c with ⟨e, he⟩ | ⟨s, m0, _, _, _, he⟩ | ⟨s, m0, vid, hs', hm', _, he⟩
    · rw [he]
    · rw [he]; exact load h c false hs hi
    · rw [he]
      rw [hs] at hs'; cases hs'
      have hsX : (h.put sX.vars (.vmap (dictDel c.name m0))).getSys X = some sX := by
        rw [getSys_congr (look_put_ne _ _ (ne_of_look (look_of_getMap hm') (look_of_getSys hs) (by simp)))]
        exact hs
      rw [load _ c false hsX (by rw [next_put]; exact hi), look_put_ne _ _ (Ne.symm h2)]
  | neutralize nm =>
    change (neutralizeVar h X nm).1.look i = h.look i
    rcases neutralizeVar_inv h X nm with ⟨e, he⟩ | ⟨s, m0, vid, v, c, hs', _, _, _, _, he⟩
    · rw [he]
    · rw [he]; rw [hs] at hs'; cases hs'; exact look_bindVar_other _ _ _ _ hi h2
  | annualize nm =>
    change (annualizeVar h X nm).1.look i = h.look i
    rcases annualizeVar_inv h X nm with ⟨e, he⟩ | ⟨s, m0, vid, v, c, hs', _, _, _, _, he⟩
    · rw [he]
    · rw [he]; rw [hs] at hs'; cases hs'; exact look_bindVar_other _ _ _ _ hi h2
  | params us =>
    change (modifyParams h X us).1.look i = h.look i
    rcases modifyParams_inv h X us with ⟨e, he⟩ | ⟨s, p, b, p', hs', _, _, _, he⟩ | ⟨s, p, p', r, hs', _, _, _, he⟩
    · rw [he]
    · rw [he]; rw [look_put_ne _ _ (Ne.symm h1), look_allocs_lt h _ hi]
    · rw [he]; rw [hs] at hs'; cases hs'; rw [look_put_ne _ _ (Ne.symm h3)]
  | loadExt e =>
    change (loadExtension h X e).1.look i = h.look i
    obtain ⟨f1, l1⟩ := addVariables_other hs e.vars
    have n1 := next_addVariables h X e.vars
    rcases loadExtension_inv h X e with he | ⟨h1', s, p, b, p', r, ha, hs', _, _, _, he⟩ | ⟨h1', s, p, p', r, ha, hs', _, _, _, he⟩
    · rw [he]; exact l1 i hi h2
    · rw [ha] at f1 l1 n1
      rw [he, look_put_ne _ _ (Ne.symm h1), look_allocs_lt h1' _ (Nat.lt_of_lt_of_le hi n1)]
      exact l1 i hi h2
    · rw [ha] at f1 l1 n1
      rw [f1] at hs'; cases hs'
      rw [he, look_put_ne _ _ (Ne.symm h3)]
      exact l1 i hi h2

/-- the observations of a well-formed system read only its own objects and its variables -/
theorem obs_congr {h h' : Heap} {Z : Oid} {s : SysObj} {m : List (String × Oid)} {p : ParamTree}
    (hs : h.getSys Z = some s) (hm : h.getMap s.vars = some m) (hp : h.getPar s.params = some p)
    (e1 : h'.look Z = h.look Z) (e2 : h'.look s.vars = h.look s.vars) (e3 : h'.look s.params = h.look s.params)
    (e4 : ∀ name vid, dictGet name m = some vid → h'.look vid = h.look vid) :
    (∀ name, varObs h' Z name = varObs h Z name) ∧ (∀ pn d, paramObs h' Z pn d = paramObs h Z pn d) := by
  have hs' : h'.getSys Z = some s := by rw [getSys_congr e1]; exact hs
  have hm' : h'.getMap s.vars = some m := by rw [getMap_congr e2]; exact hm
  have hp' : h'.getPar s.params = some p := by rw [getPar_congr e3]; exact hp
  refine ⟨fun name => ?_, fun pn d => by rw [paramObs_eq hs' hp', paramObs_eq hs hp]⟩
  rw [varObs_eq hs' hm', varObs_eq hs hm]
  cases hd : dictGet name m with
  | none => rfl
  | some vid => dsimp only; rw [getVar_congr (e4 _ _ hd)]

/-! ## Every variable object can be rebuilt from its class and its baseline (`Variable.clone`) -/

/-- the attributes `Variable.__init__` computes (not the formulas, nor the neutralised flag, nor the
    label, which `get_annualized_variable` / `get_neutralized_variable` overwrite on the instance) -/
def AttrsEq (a b : VarObj) : Prop :=
  a.cls = b.cls ∧ a.valueType = b.valueType ∧ a.default = b.default ∧ a.entity = b.entity ∧
  a.defPeriod = b.defPeriod ∧ a.endDate = b.endDate ∧ a.setInput = b.setInput ∧ a.attrs = b.attrs ∧
  (b.isNeutralized = false → a.label = b.label)

instance (a b : VarObj) : Decidable (AttrsEq a b) := by unfold AttrsEq; infer_instance

theorem AttrsEq.refl (a : VarObj) : AttrsEq a a := ⟨rfl, rfl, rfl, rfl, rfl, rfl, rfl, rfl, fun _ => rfl⟩

/-- `Variable.clone()` (repaired, F-C14b) succeeds on every variable object and gives back its
    attributes -/
def Consistent (h : Heap) : Prop := ∀ i v, h.getVar i = some v → ∃ c, cloneVar h v = .ok c ∧ AttrsEq c v

theorem construct_fields {h : Heap} {cls : ClassDef} {bid : Option Oid} {v : VarObj}
    (hc : construct h cls bid = .ok v) : v.cls = cls ∧ v.baseline = bid := by
  unfold construct at hc
  cases bid with
  | none =>
    dsimp only at hc
    obtain ⟨a, b, _⟩ := constructWith_none hc
    exact ⟨a, b⟩
  | some i =>
    dsimp only at hc
    cases hb : h.getVar i with
    | none => rw [hb] at hc; cases hc
    | some b =>
      rw [hb] at hc
      obtain ⟨a, b', _⟩ := constructWith_some hc
      exact ⟨a, b'⟩

/-- building a variable reads the heap only at its baseline -/
theorem construct_keeps {h h' : Heap} (hk : ∀ i v, h.getVar i = some v → h'.getVar i = some v)
    {cls : ClassDef} {bid : Option Oid} {c : VarObj} (hc : construct h cls bid = .ok c) :
    construct h' cls bid = .ok c := by
  unfold construct at hc ⊢
  cases bid with
  | none => exact hc
  | some i =>
    dsimp only at hc ⊢
    cases hb : h.getVar i with
    | none => rw [hb] at hc; cases hc
    | some b => rw [hb] at hc; rw [hk i b hb]; exact hc

/-- … and of the baseline only what can be observed of it -/
theorem constructWith_view_congr {cls : ClassDef} {i i' : Oid} {bo bo' c : VarObj}
    (hv : bo'.view = bo.view) (hc : constructWith cls (some i) (some bo) = .ok c) :
    constructWith cls (some i') (some bo') = .ok { c with baseline := some i' } := by
  have e1 : bo'.valueType = bo.valueType := congrArg VarView.valueType hv
  have e2 : bo'.default = bo.default := congrArg VarView.default hv
  have e3 : bo'.entity = bo.entity := congrArg VarView.entity hv
  have e4 : bo'.defPeriod = bo.defPeriod := congrArg VarView.defPeriod hv
  have e5 : bo'.endDate = bo.endDate := congrArg VarView.endDate hv
  have e6 : bo'.setInput = bo.setInput := congrArg VarView.setInput hv
  have e7 : bo'.formulas = bo.formulas := congrArg VarView.formulas hv
  have e8 : bo'.label = bo.label := congrArg VarView.label hv
  have e9 : bo'.attrs = bo.attrs := congrArg VarView.attrs hv
  obtain ⟨hi, hc⟩ := constructWith_ok hc
  rw [constructWith_of_core hi]
  unfold constructCore at hc ⊢
  simp only [Option.map_some, requiredAttr_some, VarObj.attr, e1, e2, e3, e4, e5, e6, e7, e8, e9] at hc ⊢
  split at hc
  · cases hc
  · rename_i decl hd
    simp only [Except.ok.injEq] at hc ⊢
    subst hc
    rfl

/-- one step: the old objects are kept, every new variable object can be rebuilt -/
theorem consistent_step {h h' : Heap} (hc : Consistent h)
    (hk : ∀ i v, h.getVar i = some v → h'.getVar i = some v)
    (hnew : ∀ i w, h'.getVar i = some w → h.getVar i = some w ∨ ∃ c, cloneVar h' w = .ok c ∧ AttrsEq c w) :
    Consistent h' := by
  intro i w hw
  rcases hnew i w hw with hold | hn
  · obtain ⟨c, hcl, ha⟩ := hc i w hold
    exact ⟨c, construct_keeps hk hcl, ha⟩
  · exact hn

theorem getVar_put_nonvar {h : Heap} {j i : Nat} {o : Obj} {x : VarObj} (ho : ∀ v, o ≠ .var v)
    (hg : (h.put j o).getVar i = some x) : h.getVar i = some x := by
  have hl := look_of_getVar hg
  rw [look_put] at hl
  by_cases hji : j = i
  · rw [if_pos hji] at hl
    by_cases hlt : j < h.next
    · rw [if_pos hlt] at hl; cases hl; exact absurd rfl (ho x)
    · rw [if_neg hlt] at hl; cases hl
  · rw [if_neg hji] at hl; exact getVar_of_look hl

theorem getVar_allocs_cases {h : Heap} {os : List Obj} {i : Nat} {x : VarObj}
    (hg : (h.allocs os).getVar i = some x) : h.getVar i = some x ∨ (h.next ≤ i ∧ os[i - h.next]? = some (.var x)) := by
  have hl := look_of_getVar hg
  rw [look_allocs] at hl
  by_cases hlt : i < h.next
  · rw [if_pos hlt] at hl; exact Or.inl (getVar_of_look hl)
  · rw [if_neg hlt] at hl; exact Or.inr ⟨Nat.le_of_not_lt hlt, hl⟩

theorem consistent_put_nonvar {h : Heap} (hc : Consistent h) {j : Nat} {o o' : Obj} (hl : h.look j = some o)
    (hv : ∀ v, o ≠ .var v) (he : ∀ e, o ≠ .ent e) (ho' : ∀ v, o' ≠ .var v) : Consistent (h.put j o') :=
  consistent_step hc (keeps_put (X := 0) hl hv he).keepVar (fun _ _ hg => Or.inl (getVar_put_nonvar ho' hg))

theorem consistent_allocs_nonvar {h : Heap} (hc : Consistent h) (os : List Obj) (hos : ∀ o ∈ os, ∀ v, o ≠ .var v) :
    Consistent (h.allocs os) :=
  consistent_step hc (keeps_allocs h 0 os).keepVar (fun i w hg => by
    rcases getVar_allocs_cases hg with h1 | ⟨_, h2⟩
    · exact Or.inl h1
    · exact absurd rfl (hos _ (List.mem_of_getElem? h2) w))

/-- binding a new variable object that can be rebuilt -/
theorem consistent_bindVar {h : Heap} (hc : Consistent h) {X : Oid} {s : SysObj} {m : List (String × Oid)}
    (hs : h.getSys X = some s) (hm : h.getMap s.vars = some m) (name : String) (w : VarObj)
    (hw : ∃ c, cloneVar h w = .ok c ∧ AttrsEq c w) : Consistent (bindVar h s m name w) := by
  obtain ⟨_, _, hkeep⟩ := bindVar_reads hs hm name w
  refine consistent_step hc hkeep (fun i x hg => ?_)
  have hb : bindVar h s m name w = (h.allocs [.var w]).put s.vars (.vmap (dictSet name h.next m)) := rfl
  rw [hb] at hg
  have h1 := getVar_put_nonvar (by intro v; simp) hg
  rcases getVar_allocs_cases h1 with h2 | ⟨hge, h2⟩
  · exact Or.inl h2
  · right
    have hi : i - h.next = 0 := by
      cases hx : i - h.next with
      | zero => rfl
      | succ k => rw [hx] at h2; simp at h2
    rw [hi] at h2
    simp only [List.getElem?_cons_zero, Option.some.injEq, Obj.var.injEq] at h2
    subst h2
    obtain ⟨c, hcl, ha⟩ := hw
    exact ⟨c, construct_keeps hkeep hcl, ha⟩

theorem consistent_loadVariable {h : Heap} (hc : Consistent h) (X : Oid) (cls : ClassDef) (u : Bool) :
    Consistent (loadVariable h X cls u).1 := by
  rcases loadVariable_inv h X cls u with ⟨e, he⟩ | ⟨s, m, v, hs, hm, _, hcons, he⟩
  · rw [he]; exact hc
  · rw [he]
    obtain ⟨f1, f2⟩ := construct_fields hcons
    exact consistent_bindVar hc hs hm _ v ⟨v, by unfold cloneVar; rw [f1, f2]; exact hcons, AttrsEq.refl v⟩

theorem consistent_replaceVariable {h : Heap} (hc : Consistent h) (X : Oid) (cls : ClassDef) :
    Consistent (replaceVariable h X cls).1 := by
  rcases replaceVariable_inv h X cls with ⟨e, he⟩ | ⟨s, m, hs, hm, _, he⟩ | ⟨s, m, vid, hs, hm, _, he⟩
  · rw [he]; exact hc
  · rw [he]; exact consistent_loadVariable hc X cls false
  · rw [he]
    exact consistent_loadVariable
      (consistent_put_nonvar hc (look_of_getMap hm) (by intro v; simp) (by intro e; simp) (by intro v; simp)) X cls false

theorem consistent_neutralizeVar {h : Heap} (hc : Consistent h) (X : Oid) (name : String) :
    Consistent (neutralizeVar h X name).1 := by
  rcases neutralizeVar_inv h X name with ⟨e, he⟩ | ⟨s, m, vid, v, c, hs, hm, _, hgv, hcl, he⟩
  · rw [he]; exact hc
  · rw [he]
    obtain ⟨f1, f2⟩ := construct_fields hcl
    refine consistent_bindVar hc hs hm _ _ ⟨c, ?_, ⟨rfl, rfl, rfl, rfl, rfl, rfl, rfl, rfl, fun hn => by cases hn⟩⟩
    show construct h c.cls c.baseline = .ok c
    rw [f1, f2]; exact hcl

theorem consistent_annualizeVar {h : Heap} (hc : Consistent h) (X : Oid) (name : String) :
    Consistent (annualizeVar h X name).1 := by
  rcases annualizeVar_inv h X name with ⟨e, he⟩ | ⟨s, m, vid, v, c, hs, hm, _, hgv, hcl, he⟩
  · rw [he]; exact hc
  · rw [he]
    obtain ⟨f1, f2⟩ := construct_fields hcl
    refine consistent_bindVar hc hs hm _ _ ⟨c, ?_, ⟨rfl, rfl, rfl, rfl, rfl, rfl, rfl, rfl, fun _ => rfl⟩⟩
    show construct h c.cls c.baseline = .ok c
    rw [f1, f2]; exact hcl

theorem consistent_modifyParams {h : Heap} (hc : Consistent h) (X : Oid) (us : List PUpd) :
    Consistent (modifyParams h X us).1 := by
  rcases modifyParams_inv h X us with ⟨e, he⟩ | ⟨s, p, b, p', hs, hp, hb, _, he⟩ | ⟨s, p, p', r, hs, hp, hb, _, he⟩
  · rw [he]; exact hc
  · rw [he]
    have c1 : Consistent (h.allocs [.par p']) :=
      consistent_allocs_nonvar hc _ (by intro o ho v; simp at ho; subst ho; simp)
    have lX1 : (h.allocs [.par p']).look X = some (.sys s) := by
      rw [look_allocs_lt h _ (lt_next_of_look h (look_of_getSys hs))]; exact look_of_getSys hs
    exact consistent_put_nonvar c1 lX1 (by intro v; simp) (by intro e; simp) (by intro v; simp)
  · rw [he]
    exact consistent_put_nonvar hc (look_of_getPar hp) (by intro v; simp) (by intro e; simp) (by intro v; simp)

theorem consistent_addVariables {h : Heap} (hc : Consistent h) (X : Oid) (cs : List ClassDef) :
    Consistent (addVariables h X cs).1 := by
  induction cs generalizing h with
  | nil => exact hc
  | cons c r ih =>
    have c1 := consistent_loadVariable hc X c false
    unfold addVariables
    cases hr : loadVariable h X c false with
    | mk h1 res =>
      rw [hr] at c1
      cases res with
      | ok u => cases u; exact ih c1
      | error e => exact c1

theorem consistent_loadExtension {h : Heap} (hc : Consistent h) (X : Oid) (e : Ext) :
    Consistent (loadExtension h X e).1 := by
  have c1 := consistent_addVariables hc X e.vars
  rcases loadExtension_inv h X e with he | ⟨h1, s, p, b, p', r, ha, hs, hp, _, _, he⟩ | ⟨h1, s, p, p', r, ha, hs, hp, _, _, he⟩
  · rw [he]; exact c1
  · rw [ha] at c1
    rw [he]
    have c2 : Consistent (h1.allocs [.par p']) :=
      consistent_allocs_nonvar c1 _ (by intro o ho v; simp at ho; subst ho; simp)
    have lX1 : (h1.allocs [.par p']).look X = some (.sys s) := by
      rw [look_allocs_lt h1 _ (lt_next_of_look h1 (look_of_getSys hs))]; exact look_of_getSys hs
    exact consistent_put_nonvar c2 lX1 (by intro v; simp) (by intro e; simp) (by intro v; simp)
  · rw [ha] at c1
    rw [he]
    exact consistent_put_nonvar c1 (look_of_getPar hp) (by intro v; simp) (by intro e; simp) (by intro v; simp)

theorem consistent_applyMod {h : Heap} (hc : Consistent h) (X : Oid) (m : Mod) : Consistent (applyMod h X m).1 := by
  cases m with
  | add c => exact consistent_loadVariable hc X c false
  | update c => exact consistent_loadVariable hc X c true
  | replace c => exact consistent_replaceVariable hc X c
  | neutralize nm => exact consistent_neutralizeVar hc X nm
  | annualize nm => exact consistent_annualizeVar hc X nm
  | params us => exact consistent_modifyParams hc X us
  | loadExt e => exact consistent_loadExtension hc X e

theorem consistent_applyMods {h : Heap} (hc : Consistent h) (X : Oid) (ms : List Mod) :
    Consistent (applyMods h X ms).1 := by
  induction ms generalizing h with
  | nil => exact hc
  | cons m r ih =>
    have c1 := consistent_applyMod hc X m
    unfold applyMods
    cases hr : applyMod h X m with
    | mk h1 res =>
      rw [hr] at c1
      cases res with
      | ok u => cases u; exact ih c1
      | error e => exact c1

theorem entityCopies_nonvar (h : Heap) (owner : Oid) (es : List Oid) {os : List Obj}
    (hc : entityCopies h owner es = some os) : ∀ o ∈ os, ∀ v, o ≠ Obj.var v := by
  intro o ho v
  obtain ⟨k, rfl⟩ := entityCopies_spec h owner es hc o ho
  simp

theorem consistent_reformInit {h : Heap} (hc : Consistent h) {src : Oid} {h1 : Heap} {R : Oid}
    (hr : reformInit h src = .ok (h1, R)) : Consistent h1 := by
  unfold reformInit at hr
  cases hs : h.getSys src with
  | none => rw [hs] at hr; cases hr
  | some s =>
    rw [hs] at hr
    dsimp only at hr
    cases hec : entityCopies h h.next s.entities with
    | none => rw [hec] at hr; simp at hr
    | some ents =>
      cases hm : h.getMap s.vars with
      | none => rw [hec, hm] at hr; simp at hr
      | some m =>
        rw [hec, hm] at hr
        simp only [Except.ok.injEq, Prod.mk.injEq] at hr
        rw [← hr.1]
        refine consistent_allocs_nonvar hc _ ?_
        intro o ho v
        rcases List.mem_cons.mp ho with rfl | ho
        · simp
        · rcases List.mem_append.mp ho with ho | ho
          · exact entityCopies_nonvar h _ _ hec o ho v
          · simp at ho; subst ho; simp

theorem consistent_reformSys {h : Heap} (hc : Consistent h) (src : Oid) (mods : List Mod) :
    Consistent (reformSys h src mods).1 := by
  unfold reformSys
  cases hr : reformInit h src with
  | error e => exact hc
  | ok r =>
    obtain ⟨h1, sid⟩ := r
    dsimp only
    have c2 := consistent_applyMods (consistent_reformInit hc hr) sid mods
    cases hm : applyMods h1 sid mods with
    | mk h2 res =>
      rw [hm] at c2
      cases res with
      | ok u => cases u; exact c2
      | error e => exact c2

/-- `copy.deepcopy` of a variable keeps the invariant: the copy is rebuilt from the copy of its
    baseline, which has the same observable content -/
theorem consistent_copyVar (fuel : Nat) {h : Heap} (hc : Consistent h) (vid : Oid) {h1 : Heap} {vid' : Oid}
    (hcp : copyVar fuel h vid = some (h1, vid')) : Consistent h1 := by
  induction fuel generalizing h vid h1 vid' with
  | zero => cases hcp
  | succ fuel ih =>
    obtain ⟨v, hv, hcase⟩ := copyVar_inv hcp
    obtain ⟨c, hcl, ha⟩ := hc vid v hv
    rcases hcase with ⟨hb, rfl, _⟩ | ⟨b, h0, b', hb, hr, rfl, _⟩
    · refine consistent_step hc (keeps_allocs h 0 _).keepVar (fun i w hg => ?_)
      rcases getVar_allocs_cases hg with h1 | ⟨_, h2⟩
      · exact Or.inl h1
      · right
        have hi : i - h.next = 0 := by
          cases hx : i - h.next with
          | zero => rfl
          | succ k => rw [hx] at h2; simp at h2
        rw [hi] at h2
        simp only [List.getElem?_cons_zero, Option.some.injEq, Obj.var.injEq] at h2
        subst h2
        exact ⟨c, construct_keeps (keeps_allocs h 0 _).keepVar hcl, ha⟩
    · have c0 : Consistent h0 := ih hc b hr
      obtain ⟨bo, bo', hbo, hbo', hview, _, _, _⟩ := copyVar_spec fuel h b hr
      refine consistent_step c0 (keeps_allocs h0 0 _).keepVar (fun i w hg => ?_)
      rcases getVar_allocs_cases hg with h1 | ⟨_, h2⟩
      · exact Or.inl h1
      · right
        have hi : i - h0.next = 0 := by
          cases hx : i - h0.next with
          | zero => rfl
          | succ k => rw [hx] at h2; simp at h2
        rw [hi] at h2
        simp only [List.getElem?_cons_zero, Option.some.injEq, Obj.var.injEq] at h2
        subst h2
        -- the original is rebuilt from `b`, the copy from `b'`
        have hcw : constructWith v.cls (some b) (some bo) = .ok c := by
          have := hcl
          unfold cloneVar construct at this
          rw [hb] at this
          dsimp only at this
          rw [hbo] at this
          exact this
        have hcw' := constructWith_view_congr (i' := b') hview hcw
        refine ⟨{ c with baseline := some b' }, ?_, ?_⟩
        · show construct (h0.allocs _) v.cls (some b') = _
          unfold construct
          dsimp only
          rw [(keeps_allocs h0 0 _).keepVar _ _ hbo']
          exact hcw'
        · obtain ⟨a1, a2, a3, a4, a5, a6, a7⟩ := ha
          exact ⟨a1, a2, a3, a4, a5, a6, a7⟩

theorem consistent_copyVars {h : Heap} (hc : Consistent h) (m : List (String × Oid)) {h2 : Heap}
    {m' : List (String × Oid)} (hcp : copyVars h m = some (h2, m')) : Consistent h2 := by
  induction m generalizing h h2 m' with
  | nil =>
    simp only [copyVars, Option.some.injEq, Prod.mk.injEq] at hcp
    rw [← hcp.1]; exact hc
  | cons pr r ih =>
    obtain ⟨k, vid⟩ := pr
    obtain ⟨ha, vid', r', h1, h2', _⟩ := copyVars_inv hcp
    exact ih (consistent_copyVar _ hc vid h1) h2'

theorem consistent_cloneSys {h : Heap} (hc : Consistent h) {src : Oid} {h' : Heap} {N : Oid}
    (hcl : cloneSys h src = .ok (h', N)) : Consistent h' := by
  unfold cloneSys at hcl
  cases hs : h.getSys src with
  | none => rw [hs] at hcl; cases hcl
  | some s =>
    rw [hs] at hcl
    dsimp only at hcl
    cases hec : entityCopies h h.next s.entities with
    | none => rw [hec] at hcl; simp at hcl
    | some ents =>
      cases hp : h.getPar s.params with
      | none => rw [hec, hp] at hcl; simp at hcl
      | some p =>
        cases hm : h.getMap s.vars with
        | none => rw [hec, hp, hm] at hcl; simp at hcl
        | some m =>
          rw [hec, hp, hm] at hcl
          dsimp only at hcl
          generalize hh1 : h.allocs _ = h1 at hcl
          cases hcv : copyVars h1 m with
          | none => rw [hcv] at hcl; cases hcl
          | some r =>
            obtain ⟨h2, m'⟩ := r
            rw [hcv] at hcl
            simp only [Except.ok.injEq, Prod.mk.injEq] at hcl
            rw [← hcl.1]
            have c1 : Consistent h1 := by
              rw [← hh1]
              refine consistent_allocs_nonvar hc _ ?_
              intro o ho v
              rcases List.mem_cons.mp ho with rfl | ho
              · simp
              · rcases List.mem_append.mp ho with ho | ho
                · exact entityCopies_nonvar h _ _ hec o ho v
                · simp at ho; subst ho; simp
            have c2 : Consistent h2 := consistent_copyVars c1 m hcv
            have c3 : Consistent (h2.allocs [.vmap m']) :=
              consistent_allocs_nonvar c2 _ (by intro o ho v; simp at ho; subst ho; simp)
            -- the system object allocated first is completed in place
            have hn1 : h.next < h1.next := by rw [← hh1, next_allocs]; simp
            obtain ⟨os2, e2, _⟩ := copyVars_allocs h1 m hcv
            have hlt2 : h.next < h2.next := by rw [e2, next_allocs]; omega
            have lS : (h2.allocs [.vmap m']).look h.next = some (.sys
                ⟨(List.range ents.length).map (fun i => h.next + 1 + i), h.next, h.next + 1 + ents.length, s.baseline⟩) := by
              rw [look_allocs_lt h2 _ hlt2, e2, look_allocs_lt h1 _ hn1, ← hh1]
              have := look_allocs_ge h (Obj.sys ⟨(List.range ents.length).map (fun i => h.next + 1 + i), h.next,
                h.next + 1 + ents.length, s.baseline⟩ :: ents ++ [Obj.par p]) 0
              simpa using this
            exact consistent_put_nonvar c3 lS (by intro v; simp) (by intro e; simp) (by intro v; simp)

theorem consistent_loadExtensions {h : Heap} (hc : Consistent h) (X : Oid) (es : List Ext) :
    Consistent (loadExtensions h X es).1 := by
  induction es generalizing h with
  | nil => exact hc
  | cons e r ih =>
    have c1 := consistent_loadExtension hc X e
    unfold loadExtensions
    cases hr : loadExtension h X e with
    | mk h1 res =>
      rw [hr] at c1
      cases res with
      | ok u => cases u; exact ih c1
      | error er => exact c1

theorem consistent_applyReforms {h : Heap} (hc : Consistent h) (cur : Oid) (rs : List (List Mod)) :
    Consistent (applyReforms h cur rs).1 := by
  induction rs generalizing h cur with
  | nil => exact hc
  | cons mods r ih =>
    have c1 := consistent_reformSys hc cur mods
    unfold applyReforms
    cases hr : reformSys h cur mods with
    | mk h1 res =>
      rw [hr] at c1
      cases res with
      | ok R => exact ih c1 R
      | error e => exact c1

theorem consistent_testRunnerDerive {h : Heap} (hc : Consistent h) (src : Oid) (rs : List (List Mod))
    (es : List Ext) : Consistent (testRunnerDerive h src rs es).1 := by
  unfold testRunnerDerive
  cases hcl : cloneSys h src with
  | error e => exact hc
  | ok r =>
    obtain ⟨h1, N⟩ := r
    have c1 := consistent_cloneSys hc hcl
    have c2 := consistent_applyReforms c1 N rs
    dsimp only
    cases hr : applyReforms h1 N rs with
    | mk h2 res =>
      rw [hr] at c2
      cases res with
      | error e => exact c2
      | ok R =>
        have c3 := consistent_loadExtensions c2 R es
        dsimp only
        cases hl : loadExtensions h2 R es with
        | mk h3 res3 => rw [hl] at c3; cases res3 with
          | ok u => cases u; exact c3
          | error e => exact c3

theorem consistent_step_op {st : State} (hc : Consistent st.heap) (op : Op) : Consistent (step st op).1.heap := by
  cases op with
  | clone src =>
    simp only [step]
    cases st.systems[src]? with
    | none => exact hc
    | some sid =>
      dsimp only
      cases hcl : cloneSys st.heap sid with
      | error e => exact hc
      | ok r => obtain ⟨h', N⟩ := r; exact consistent_cloneSys hc hcl
  | reform src mods =>
    simp only [step]
    cases st.systems[src]? with
    | none => exact hc
    | some sid =>
      dsimp only
      have c := consistent_reformSys hc sid mods
      cases hr : reformSys st.heap sid mods with
      | mk h' res => rw [hr] at c; cases res <;> exact c
  | modify tgt m =>
    simp only [step]
    cases st.systems[tgt]? with
    | none => exact hc
    | some sid =>
      dsimp only
      have c := consistent_applyMod hc sid m
      cases hr : applyMod st.heap sid m with
      | mk h' res =>
        rw [hr] at c
        cases res with
        | ok u => cases u; exact c
        | error e => exact c
  | testRunner src reforms exts =>
    simp only [step]
    cases st.systems[src]? with
    | none => exact hc
    | some sid =>
      dsimp only
      cases lookupMemo (sid, reforms.map (fun r => r.1), nameSet (exts.map (fun e => e.name))) st.memo with
      | some _ => exact hc
      | none =>
        dsimp only
        have c := consistent_testRunnerDerive hc sid (reforms.map (fun r => r.2)) exts
        cases hr : testRunnerDerive st.heap sid (reforms.map (fun r => r.2)) exts with
        | mk h' res => rw [hr] at c; cases res <;> exact c

theorem consistent_run {st : State} (hc : Consistent st.heap) (ops : List Op) : Consistent (run st ops).heap := by
  induction ops generalizing st with
  | nil => exact hc
  | cons op r ih => exact ih (consistent_step_op hc op)

theorem resolve_some_inv {h : Heap} {X : Oid} {name : String} {vid : Oid} (hr : resolve h X name = some vid) :
    ∃ s m, h.getSys X = some s ∧ h.getMap s.vars = some m ∧ dictGet name m = some vid := by
  unfold resolve at hr
  cases hs : h.getSys X with
  | none => rw [hs] at hr; cases hr
  | some s =>
    rw [hs] at hr
    dsimp only at hr
    cases hm : h.getMap s.vars with
    | none => rw [hm] at hr; cases hr
    | some m => rw [hm] at hr; exact ⟨s, m, rfl, hm, hr⟩

theorem neutralizeVar_eq {h : Heap} {X : Oid} {name : String} {s : SysObj} {m : List (String × Oid)}
    {vid : Oid} {v c : VarObj} (hs : h.getSys X = some s) (hm : h.getMap s.vars = some m)
    (hd : dictGet name m = some vid) (hv : h.getVar vid = some v) (hcl : cloneVar h v = .ok c) :
    neutralizeVar h X name = (bindVar h s m name { c with isNeutralized := true, label := some (neutralizedLabel v.label) }, .ok ()) := by
  unfold neutralizeVar
  rw [hs]; dsimp only; rw [hm]; dsimp only; rw [hd]; dsimp only; rw [hv]; dsimp only; rw [hcl]

theorem annualizeVar_eq {h : Heap} {X : Oid} {name : String} {s : SysObj} {m : List (String × Oid)}
    {vid : Oid} {v c : VarObj} (hs : h.getSys X = some s) (hm : h.getMap s.vars = some m)
    (hd : dictGet name m = some vid) (hv : h.getVar vid = some v) (hcl : cloneVar h v = .ok c) :
    annualizeVar h X name =
      (bindVar h s m name { c with formulas := v.formulas.map (fun p => (p.1, Fml.annual p.2)),
                                   isNeutralized := v.isNeutralized }, .ok ()) := by
  unfold annualizeVar
  rw [hs]; dsimp only; rw [hm]; dsimp only; rw [hd]; dsimp only; rw [hv]; dsimp only; rw [hcl]

/-- executable check of `Consistent` (for concrete heaps) -/
def consistentB (h : Heap) : Bool :=
  (List.range h.next).all fun i =>
    match h.getVar i with
    | none => true
    | some v =>
      match cloneVar h v with
      | .ok c => decide (AttrsEq c v)
      | .error _ => false

theorem consistent_of_check {h : Heap} (hb : consistentB h = true) : Consistent h := by
  intro i v hv
  have hlt := lt_next_of_look h (look_of_getVar hv)
  have := List.all_eq_true.mp hb i (List.mem_range.mpr hlt)
  rw [hv] at this
  dsimp only at this
  cases hc : cloneVar h v with
  | error e => rw [hc] at this; cases this
  | ok c => rw [hc] at this; exact ⟨c, rfl, of_decide_eq_true this⟩

end OFCore.HeapSys
