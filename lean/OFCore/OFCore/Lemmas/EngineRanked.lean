import OFCore.Lemmas.Engine
/-!
# Variable-ranked (acyclic) rule systems: the machine computes the meaning

`VarRanked sys rk`: every read in a formula of variable `v` goes to a variable of strictly
lower rank (the rule system is a DAG of variables — no variable depends on itself, at any
period).  Then, from ANY consistent state, with any `max_spiral_loops ≥ 1`, a request returns
the meaning, stores only meanings, restores the stack and marks nothing for deletion.
-/
set_option linter.unusedVariables false
namespace OFCore.Engine

variable {P : Type} [DecidableEq P]

def VarRanked (sys : Sys P) (rk : Nat → Nat) : Prop :=
  ∀ v p e, sys.formula v p = some e → ∀ k ∈ refs e, rk k.1 < rk v

/-- every frame on the stack has a rank above `v` -/
def Above (rk : Nat → Nat) (stack : List (Node P)) (v : Nat) : Prop := ∀ j ∈ stack, rk v < rk j.1

/-- every cached value is an untainted, successful meaning of every node stored under its slot -/
def Cons (sys : Sys P) (c : Cache P) : Prop :=
  ∀ v p x g, lookup c (sys.slot (v, p)) = some (x, g) → g = false ∧ ∃ n, den sys n v p = some (.ok x)

theorem cons_insert (sys : Sys P) (hk : SlotCoherent sys) {c : Cache P} {v p x n} (hc : Cons sys c)
    (h : den sys n v p = some (.ok x)) : Cons sys ((sys.slot (v, p), (x, false)) :: c) := by
  intro v' p' y g hk'
  simp only [lookup] at hk'
  split at hk'
  · rename_i heq
    simp only [Option.some.injEq, Prod.mk.injEq] at hk'
    obtain ⟨rfl, rfl⟩ := hk'
    obtain ⟨rfl, hck⟩ := (slot_eq_iff sys v' v p' p).1 heq
    exact ⟨rfl, n, by rw [← hk v p p' hck n]; exact h⟩
  · exact hc v' p' y g hk'

theorem cons_store (sys : Sys P) (hk : SlotCoherent sys) {c : Cache P} {v p x n} (hc : Cons sys c)
    (h : den sys n v p = some (.ok x)) : Cons sys (store sys c (sys.slot (v, p)) x false) := by
  unfold store; split
  · exact hc
  · exact cons_insert sys hk hc h

theorem above_not_mem {rk : Nat → Nat} {stack : List (Node P)} {v : Nat} (ha : Above rk stack v) (p : P) :
    (v, p) ∉ stack := fun hm => Nat.lt_irrefl _ (ha _ hm)

theorem above_filter_nil {rk : Nat → Nat} {stack : List (Node P)} {v : Nat} (ha : Above rk stack v) :
    stack.filter (fun k => k.1 = v) = [] := by
  rw [List.filter_eq_nil_iff]
  intro k hk hkv
  have := ha k hk
  simp only [decide_eq_true_eq] at hkv
  rw [hkv] at this; exact Nat.lt_irrefl _ this

mutual
theorem run_eq_den (sys : Sys P) (hk : SlotCoherent sys) (rk : Nat → Nat) (hr : VarRanked sys rk) (hmsl : 1 ≤ sys.msl) :
    ∀ n s v p r, Cons sys s.cache → Above rk s.stack v → s.inval = [] → den sys n v p = some r →
      ∃ s', run sys n s v p = some (r, false, s') ∧ Cons sys s'.cache ∧ s'.stack = s.stack ∧ s'.inval = []
  | 0, _, _, _, _, _, _, _, h => by simp [den] at h
  | n+1, s, v, p, r, hc, ha, hi, h => by
    have hnot := above_not_mem ha p
    have hfil := above_filter_nil ha
    unfold run
    split
    · -- cache hit
      rename_i y gy hy
      obtain ⟨hg, m, hm⟩ := hc v p y gy hy
      have := den_det sys hm h
      subst this; subst hg
      refine ⟨s, ?_, hc, rfl, hi⟩
      simp [hi]
    · unfold den at h
      split at h
      · rename_i y hy
        cases h
        exact ⟨s, rfl, hc, rfl, hi⟩
      · rename_i hin
        rw [if_neg hnot, hfil, if_neg (by simp only [List.length_nil]; omega)]
        split at h
        · rename_i hf
          cases h
          refine ⟨_, rfl, cons_store sys hk hc (n := 1) ?_, rfl, hi⟩
          simp [den, hin, hf]
        · rename_i e hf
          have hab : ∀ k ∈ refs e, Above rk ((v, p) :: s.stack) k.1 := fun k hk j hj => by
            rcases List.mem_cons.mp hj with rfl | hj
            · exact hr v p e hf k hk
            · exact Nat.lt_trans (hr v p e hf k hk) (ha j hj)
          split at h
          · cases h
          · rename_i er hde
            obtain ⟨s1, hr1, hc1, hs1, hi1⟩ :=
              runE_eq_den sys hk rk hr hmsl n { s with stack := (v, p) :: s.stack } e _ hc hab hi hde
            cases h
            simp only [hr1]
            exact ⟨_, rfl, hc1, by simp [hs1], hi1⟩
          · rename_i x hde
            obtain ⟨s1, hr1, hc1, hs1, hi1⟩ :=
              runE_eq_den sys hk rk hr hmsl n { s with stack := (v, p) :: s.stack } e _ hc hab hi hde
            cases h
            simp only [hr1]
            refine ⟨_, rfl, cons_store sys hk hc1 (n := n+1) ?_, by simp [hs1], hi1⟩
            simp only [den, hin, hf, hde]
theorem runE_eq_den (sys : Sys P) (hk : SlotCoherent sys) (rk : Nat → Nat) (hr : VarRanked sys rk) (hmsl : 1 ≤ sys.msl) :
    ∀ n s e r, Cons sys s.cache → (∀ k ∈ refs e, Above rk s.stack k.1) → s.inval = [] →
      denE sys n e = some r →
      ∃ s', runE sys n s e = some (r, false, s') ∧ Cons sys s'.cache ∧ s'.stack = s.stack ∧ s'.inval = []
  | _, s, .const k, r, hc, _, hi, h => by
    simp only [denE] at h; cases h; exact ⟨s, by simp [runE], hc, rfl, hi⟩
  | _, s, .bad, r, hc, _, hi, h => by
    simp only [denE] at h; cases h; exact ⟨s, by simp [runE], hc, rfl, hi⟩
  | n, s, .ref v p, r, hc, ha, hi, h => by
    simp only [denE] at h
    simpa [runE] using run_eq_den sys hk rk hr hmsl n s v p r hc (ha (v, p) (by simp [refs])) hi h
  | n, s, .fail id a, r, hc, ha, hi, h => by
    simp only [denE] at h
    split at h
    · rename_i harm; cases h; exact ⟨s, by simp [runE, harm], hc, rfl, hi⟩
    · rename_i harm
      obtain ⟨s1, h1, hc1, hs1, hi1⟩ := runE_eq_den sys hk rk hr hmsl n s a r hc (fun k hk => ha k (by simpa [refs] using hk)) hi h
      exact ⟨s1, by simp [runE, harm, h1], hc1, hs1, hi1⟩
  | n, s, .op1 o a, r, hc, ha, hi, h => by
    simp only [denE] at h
    have haa : ∀ k ∈ refs a, Above rk s.stack k.1 := fun k hk => ha k (by simpa [refs] using hk)
    split at h
    · cases h
    · rename_i er hda
      obtain ⟨s1, h1, hc1, hs1, hi1⟩ := runE_eq_den sys hk rk hr hmsl n s a _ hc haa hi hda
      cases h
      exact ⟨s1, by simp [runE, h1], hc1, hs1, hi1⟩
    · rename_i x hda
      obtain ⟨s1, h1, hc1, hs1, hi1⟩ := runE_eq_den sys hk rk hr hmsl n s a _ hc haa hi hda
      cases h
      exact ⟨s1, by simp [runE, h1], hc1, hs1, hi1⟩
  | n, s, .op2 o a b, r, hc, ha, hi, h => by
    simp only [denE] at h
    have haa : ∀ k ∈ refs a, Above rk s.stack k.1 := fun k hk => ha k (by simp [refs, hk])
    have hab : ∀ k ∈ refs b, Above rk s.stack k.1 := fun k hk => ha k (by simp [refs, hk])
    split at h
    · cases h
    · rename_i er hda
      obtain ⟨s1, h1, hc1, hs1, hi1⟩ := runE_eq_den sys hk rk hr hmsl n s a _ hc haa hi hda
      cases h
      exact ⟨s1, by simp [runE, h1], hc1, hs1, hi1⟩
    · rename_i x hda
      obtain ⟨s1, h1, hc1, hs1, hi1⟩ := runE_eq_den sys hk rk hr hmsl n s a _ hc haa hi hda
      split at h
      · cases h
      · rename_i er hdb
        obtain ⟨s2, h2, hc2, hs2, hi2⟩ := runE_eq_den sys hk rk hr hmsl n s1 b _ hc1 (by rw [hs1]; exact hab) hi1 hdb
        cases h
        exact ⟨s2, by simp [runE, h1, h2], hc2, by rw [hs2, hs1], hi2⟩
      · rename_i y hdb
        obtain ⟨s2, h2, hc2, hs2, hi2⟩ := runE_eq_den sys hk rk hr hmsl n s1 b _ hc1 (by rw [hs1]; exact hab) hi1 hdb
        cases h
        exact ⟨s2, by simp [runE, h1, h2], hc2, by rw [hs2, hs1], hi2⟩
end

end OFCore.Engine
