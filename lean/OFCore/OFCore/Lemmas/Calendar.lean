import OFCore.Calendar
/-!
# Calendar lemmas

`ord`/`ofOrd` are inverse bijections between valid dates and ordinals >= 1, `ord` is strictly
monotone for the lexicographic (tuple) order. Core Lean only (`omega`, `decide +kernel` over the
finite month tables).
-/
namespace OFCore

theorem isLeap_iff (y : Int) : isLeap y = true ↔ (y % 4 = 0 ∧ y % 100 ≠ 0) ∨ y % 400 = 0 := by
  simp [isLeap]

theorem dby_succ (y : Int) : dby (y+1) = dby y + (if isLeap y then 366 else 365) := by
  unfold dby
  by_cases h : isLeap y = true
  · rw [if_pos h]; rw [isLeap_iff] at h; omega
  · rw [if_neg h]; rw [isLeap_iff] at h; omega

theorem monthDay_tbl : ∀ leap : Bool, ∀ n : Fin 366, (n.val : Int) < (if leap then 366 else 365) →
    1 ≤ (monthDay leap n.val).1 ∧ (monthDay leap n.val).1 ≤ 12 ∧ 1 ≤ (monthDay leap n.val).2 ∧
    (monthDay leap n.val).2 ≤ (if (monthDay leap n.val).1 = 2 then (if leap then 29 else 28)
        else if (monthDay leap n.val).1 = 4 ∨ (monthDay leap n.val).1 = 6 ∨ (monthDay leap n.val).1 = 9 ∨ (monthDay leap n.val).1 = 11 then 30 else 31) ∧
    dbm leap (monthDay leap n.val).1 + (monthDay leap n.val).2 = n.val + 1 := by
  decide +kernel

theorem monthDay_spec (leap : Bool) (n : Int) (h0 : 0 ≤ n) (h1 : n < (if leap then 366 else 365)) :
    1 ≤ (monthDay leap n).1 ∧ (monthDay leap n).1 ≤ 12 ∧ 1 ≤ (monthDay leap n).2 ∧
    dbm leap (monthDay leap n).1 + (monthDay leap n).2 = n + 1 := by
  have hn : n.toNat < 366 := by cases leap <;> simp at h1 <;> omega
  have := monthDay_tbl leap ⟨n.toNat, hn⟩ (by simp; cases leap <;> simp at h1 ⊢ <;> omega)
  have e : ((n.toNat : Nat) : Int) = n := by omega
  simp only [e] at this
  exact ⟨this.1, this.2.1, this.2.2.1, this.2.2.2.2⟩

theorem year_lin (n a b c d r : Int)
    (e : n = 146097*a + 36524*b + 1461*c + 365*d + r)
    (hb : 0 ≤ b ∧ b ≤ 3) (hc : 0 ≤ c ∧ c ≤ 24) (hd : 0 ≤ d ∧ d ≤ 3) :
    dby (400*a + 100*b + 4*c + d + 1) + r = n := by
  unfold dby; omega

theorem year_lin_end4 (n a b c : Int)
    (e : n = 146097*a + 36524*b + 1461*c + 1460)
    (hb : 0 ≤ b ∧ b ≤ 3) (hc : 0 ≤ c ∧ c ≤ 23) :
    dby (400*a + 100*b + 4*c + 4 + 1) = n + 1 := by
  unfold dby; omega

theorem year_lin_end400 (n a : Int) (e : n = 146097*a + 146096) :
    dby (400*a + 400 + 1) = n + 1 := by
  unfold dby; omega


/-- packaged facts about the year decomposition -/
theorem ofOrd_cases (o : Int) (h : 1 ≤ o) :
    let n := o - 1
    let r1 := n % 146097; let r2 := r1 % 36524; let r3 := r2 % 1461
    let n400 := n / 146097; let n100 := r1 / 36524; let n4 := r2 / 1461; let n1 := r3 / 365; let r4 := r3 % 365
    let y := 400*n400 + 100*n100 + 4*n4 + n1 + 1
    1 ≤ y ∧
    (¬ (n1 = 4 ∨ n100 = 4) → dby y + r4 = n ∧ 0 ≤ r4 ∧ r4 < 365) ∧
    ((n1 = 4 ∨ n100 = 4) → dby y = o ∧ 2 ≤ y ∧ isLeap (y - 1) = true) := by
  intro n r1 r2 r3 n400 n100 n4 n1 r4 y
  have hn : 0 ≤ n := by omega
  have h400 : 0 ≤ n400 := by omega
  refine ⟨by omega, ?_, ?_⟩
  · intro hne
    have h1 : n1 ≠ 4 := fun e => hne (Or.inl e)
    have h100 : n100 ≠ 4 := fun e => hne (Or.inr e)
    exact ⟨year_lin n n400 n100 n4 n1 r4 (by omega) (by omega) (by omega) (by omega), by omega, by omega⟩
  · intro h4
    by_cases h100 : n100 = 4
    · have hr2 : r2 = 0 := by omega
      have h40 : n4 = 0 ∧ n1 = 0 := by omega
      have hy := year_lin_end400 n n400 (by omega)
      have e : y = 400*n400 + 400 + 1 := by omega
      refine ⟨by rw [e]; omega, by omega, ?_⟩
      rw [isLeap_iff]; right; omega
    · have h1 : n1 = 4 := by omega
      have hc : n4 ≤ 23 := by omega
      have hy := year_lin_end4 n n400 n100 n4 (by omega) (by omega) (by omega)
      have e : y = 400*n400 + 100*n100 + 4*n4 + 4 + 1 := by omega
      refine ⟨by rw [e]; omega, by omega, ?_⟩
      rw [isLeap_iff]; left
      constructor <;> omega

theorem last_day_of_prev (y o : Int) (hd : dby y = o) (hl : isLeap (y - 1) = true) :
    dby (y - 1) + dbm true 12 + 31 = o := by
  have hs := dby_succ (y - 1)
  rw [hl] at hs
  have e : y - 1 + 1 = y := by omega
  rw [e] at hs
  simp only [if_true] at hs
  have : dbm true 12 = 335 := by decide
  omega

theorem ord_ofOrd (o : Int) (h : 1 ≤ o) : ord (ofOrd o) = o := by
  have hc := ofOrd_cases o h
  simp only at hc
  obtain ⟨hy1, hA, hB⟩ := hc
  unfold ofOrd
  simp only
  split
  · rename_i h4
    obtain ⟨hd, hy2, hl⟩ := hB h4
    simp only [ord]
    rw [hl]
    exact last_day_of_prev _ o hd hl
  · rename_i h4
    obtain ⟨hd, h0, h365⟩ := hA h4
    simp only [ord]
    have hm := monthDay_spec (isLeap (400 * ((o - 1) / 146097) + 100 * ((o - 1) % 146097 / 36524) + 4 * ((o - 1) % 146097 % 36524 / 1461) + (o - 1) % 146097 % 36524 % 1461 / 365 + 1)) ((o - 1) % 146097 % 36524 % 1461 % 365) h0 (by split <;> omega)
    omega

-- ---------- the other direction: ofOrd (ord c) = c on valid dates ----------
def dimL (leap : Bool) (m : Int) : Int :=
  if m = 2 then (if leap then 29 else 28)
  else if m = 4 ∨ m = 6 ∨ m = 9 ∨ m = 11 then 30 else 31

theorem dim_eq (y m : Int) : dim y m = dimL (isLeap y) m := by
  unfold dim dimL; cases isLeap y <;> simp

theorem dby_lt (a b : Int) (h : a < b) : dby a + 365 ≤ dby b := by
  unfold dby; omega

/-- month table: every month lies inside the year, months are laid out in order -/
theorem month_tbl : ∀ leap : Bool, ∀ m : Fin 13, 1 ≤ m.val →
    0 ≤ dbm leap m.val ∧ dbm leap m.val + dimL leap m.val ≤ (if leap then 366 else 365) ∧ 28 ≤ dimL leap m.val := by
  decide +kernel

theorem month_order_tbl : ∀ leap : Bool, ∀ m1 m2 : Fin 13, 1 ≤ m1.val → m1.val < m2.val →
    dbm leap m1.val + dimL leap m1.val ≤ dbm leap m2.val := by
  decide +kernel

theorem month_facts (leap : Bool) (m : Int) (h1 : 1 ≤ m) (h12 : m ≤ 12) :
    0 ≤ dbm leap m ∧ dbm leap m + dimL leap m ≤ (if leap then 366 else 365) ∧ 28 ≤ dimL leap m := by
  have := month_tbl leap ⟨m.toNat, by omega⟩ (by simp; omega)
  have e : ((m.toNat : Nat) : Int) = m := by omega
  simpa [e] using this

theorem month_order (leap : Bool) (m1 m2 : Int) (h1 : 1 ≤ m1) (h : m1 < m2) (h12 : m2 ≤ 12) :
    dbm leap m1 + dimL leap m1 ≤ dbm leap m2 := by
  have := month_order_tbl leap ⟨m1.toNat, by omega⟩ ⟨m2.toNat, by omega⟩ (by simp; omega) (by simp; omega)
  have e1 : ((m1.toNat : Nat) : Int) = m1 := by omega
  have e2 : ((m2.toNat : Nat) : Int) = m2 := by omega
  simpa [e1, e2] using this

theorem ord_bounds (c : Date) (hv : c.Valid) :
    dby c.y + 1 ≤ ord c ∧ ord c ≤ dby c.y + (if isLeap c.y then 366 else 365) := by
  obtain ⟨hy, hm1, hm12, hd1, hdd⟩ := hv
  rw [dim_eq] at hdd
  have := month_facts (isLeap c.y) c.m hm1 hm12
  unfold ord
  constructor <;> omega

theorem ord_lt_of_lex (c1 c2 : Date) (h1 : c1.Valid) (h2 : c2.Valid)
    (hlt : c1.y < c2.y ∨ (c1.y = c2.y ∧ (c1.m < c2.m ∨ (c1.m = c2.m ∧ c1.d < c2.d)))) : ord c1 < ord c2 := by
  rcases hlt with hy | ⟨hy, hm | ⟨hm, hd⟩⟩
  · have b1 := (ord_bounds c1 h1).2
    have b2 := (ord_bounds c2 h2).1
    have hs := dby_succ c1.y
    have hm := dby_lt (c1.y) (c2.y) hy
    have : dby (c1.y + 1) ≤ dby c2.y := by unfold dby; omega
    split at b1 <;> split at hs <;> simp_all <;> omega
  · obtain ⟨_, hm1, _, _, hdd⟩ := h1
    obtain ⟨_, _, hm12, hd1, _⟩ := h2
    rw [dim_eq] at hdd
    have := month_order (isLeap c1.y) c1.m c2.m hm1 hm hm12
    unfold ord; rw [← hy]; omega
  · unfold ord; rw [hy, hm]; omega

theorem ord_inj (c1 c2 : Date) (h1 : c1.Valid) (h2 : c2.Valid) (h : ord c1 = ord c2) : c1 = c2 := by
  have key : ∀ a b : Date, a.Valid → b.Valid →
      (a.y < b.y ∨ (a.y = b.y ∧ (a.m < b.m ∨ (a.m = b.m ∧ a.d < b.d)))) → ord a ≠ ord b :=
    fun a b ha hb hl => Int.ne_of_lt (ord_lt_of_lex a b ha hb hl)
  by_cases hy : c1.y = c2.y
  · by_cases hm : c1.m = c2.m
    · by_cases hd : c1.d = c2.d
      · cases c1; cases c2; simp_all
      · rcases Int.lt_or_gt_of_ne hd with hd | hd
        · exact absurd h (key c1 c2 h1 h2 (Or.inr ⟨hy, Or.inr ⟨hm, hd⟩⟩))
        · exact absurd h.symm (key c2 c1 h2 h1 (Or.inr ⟨hy.symm, Or.inr ⟨hm.symm, hd⟩⟩))
    · rcases Int.lt_or_gt_of_ne hm with hm | hm
      · exact absurd h (key c1 c2 h1 h2 (Or.inr ⟨hy, Or.inl hm⟩))
      · exact absurd h.symm (key c2 c1 h2 h1 (Or.inr ⟨hy.symm, Or.inl hm⟩))
  · rcases Int.lt_or_gt_of_ne hy with hy | hy
    · exact absurd h (key c1 c2 h1 h2 (Or.inl hy))
    · exact absurd h.symm (key c2 c1 h2 h1 (Or.inl hy))


theorem monthDay_valid (leap : Bool) (n : Int) (h0 : 0 ≤ n) (h1 : n < (if leap then 366 else 365)) :
    1 ≤ (monthDay leap n).1 ∧ (monthDay leap n).1 ≤ 12 ∧ 1 ≤ (monthDay leap n).2 ∧
    (monthDay leap n).2 ≤ dimL leap (monthDay leap n).1 := by
  have hn : n.toNat < 366 := by cases leap <;> simp at h1 <;> omega
  have := monthDay_tbl leap ⟨n.toNat, hn⟩ (by simp; cases leap <;> simp at h1 ⊢ <;> omega)
  have e : ((n.toNat : Nat) : Int) = n := by omega
  simp only [e] at this
  exact ⟨this.1, this.2.1, this.2.2.1, by unfold dimL; exact this.2.2.2.1⟩

theorem ofOrd_valid (o : Int) (h : 1 ≤ o) : (ofOrd o).Valid := by
  have hc := ofOrd_cases o h
  simp only at hc
  obtain ⟨hy1, hA, hB⟩ := hc
  unfold ofOrd
  simp only
  split
  · rename_i h4
    obtain ⟨_, hy2, _⟩ := hB h4
    refine ⟨by simp only; omega, by simp, by simp, by simp, ?_⟩
    simp [dim]
  · rename_i h4
    obtain ⟨_, h0, h365⟩ := hA h4
    have hm := monthDay_valid (isLeap (400 * ((o - 1) / 146097) + 100 * ((o - 1) % 146097 / 36524) + 4 * ((o - 1) % 146097 % 36524 / 1461) + (o - 1) % 146097 % 36524 % 1461 / 365 + 1)) ((o - 1) % 146097 % 36524 % 1461 % 365) h0 (by split <;> omega)
    refine ⟨hy1, hm.1, hm.2.1, hm.2.2.1, ?_⟩
    rw [dim_eq]; exact hm.2.2.2

theorem ofOrd_ord (c : Date) (hv : c.Valid) : ofOrd (ord c) = c := by
  have h1 : 1 ≤ ord c := by
    have := (ord_bounds c hv).1
    have : 0 ≤ dby c.y := by have := hv.1; unfold dby; omega
    omega
  exact ord_inj _ _ (ofOrd_valid _ h1) hv (ord_ofOrd _ h1)


end OFCore
