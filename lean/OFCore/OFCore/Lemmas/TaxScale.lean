import Mathlib.Tactic.Linarith
import Mathlib.Tactic.Ring
import Mathlib.Algebra.Order.Field.Rat
import Mathlib.Tactic.Positivity
import Mathlib.Tactic.FieldSimp
import OFCore.TaxScale
/-!
# Tax-scale lemmas (helpers of `Props/C08.lean` and `Props/C09.lean`)

1. `add_bracket` on sorted scales: reference form `ins`, sortedness, commutation, permutations.
2. Textbook definitions (`interLen`, `specMR`, `fullBr`, `sumBelow`, …) and the clip sum on sorted lists.
3. Bracket index on sorted lists.
4. Increment form `Σ Δrate·(x − τ t)⁺` and the effect of `combine_bracket` / `add_tax_scale`.
5. `inverse`, scalings, `to_average` / `to_marginal`.
-/
namespace OFCore.Sca

/-! ## 1. `add_bracket` -/

/-- thresholds strictly increasing -/
def StrictSorted (s : Scale) : Prop := s.Pairwise (fun a b => a.1 < b.1)
instance (s : Scale) : Decidable (StrictSorted s) := by unfold StrictSorted; infer_instance

/-- thresholds weakly increasing -/
def WSorted (s : Scale) : Prop := s.Pairwise (fun a b => a.1 ≤ b.1)
instance (s : Scale) : Decidable (WSorted s) := by unfold WSorted; infer_instance

theorem StrictSorted.wsorted {s : Scale} (h : StrictSorted s) : WSorted s :=
  List.Pairwise.imp (fun h => le_of_lt h) h

theorem strictSorted_cons {b : Rat × Rat} {s : Scale} :
    StrictSorted (b :: s) ↔ (∀ c ∈ s, b.1 < c.1) ∧ StrictSorted s := List.pairwise_cons

theorem wsorted_cons {b : Rat × Rat} {s : Scale} :
    WSorted (b :: s) ↔ (∀ c ∈ s, b.1 ≤ c.1) ∧ WSorted s := List.pairwise_cons

/-- reference form of `addBracket` on a sorted scale: one walk -/
def ins : Scale → Rat → Rat → Scale
  | [], t, r => [(t, r)]
  | (t', r') :: rest, t, r =>
    if t = t' then (t', r' + r) :: rest
    else if t < t' then (t, r) :: (t', r') :: rest
    else (t', r') :: ins rest t r

@[simp] theorem hasT_nil (t : Rat) : hasT [] t = false := rfl
@[simp] theorem hasT_cons (b : Rat × Rat) (s : Scale) (t : Rat) :
    hasT (b :: s) t = (decide (b.1 = t) || hasT s t) := by
  simp [hasT]

theorem hasT_iff {s : Scale} {t : Rat} : hasT s t = true ↔ ∃ c ∈ s, c.1 = t := by
  simp [hasT]

theorem hasT_eq_false_of_lt {s : Scale} {t : Rat} (h : ∀ c ∈ s, t < c.1) : hasT s t = false := by
  rw [Bool.eq_false_iff]
  intro hh
  obtain ⟨c, hc, e⟩ := hasT_iff.mp hh
  have := h c hc
  rw [e] at this
  exact lt_irrefl _ this

theorem addBracket_eq_ins (s : Scale) (hs : StrictSorted s) (t r : Rat) : addBracket s t r = ins s t r := by
  induction s with
  | nil => simp [addBracket, insertAt, bisectLeft, ins]
  | cons b rest ih =>
    obtain ⟨t', r'⟩ := b
    rw [strictSorted_cons] at hs
    have ih := ih hs.2
    unfold addBracket at ih ⊢
    by_cases h1 : t = t'
    · subst h1
      simp [indexT, bumpAt, ins]
    · have h1' : ¬ t' = t := fun e => h1 e.symm
      by_cases h2 : t < t'
      · have hf : hasT rest t = false := hasT_eq_false_of_lt (fun c hc => lt_trans h2 (hs.1 c hc))
        have h3 : ¬ t' < t := not_lt.mpr h2.le
        simp [h1, h1', h2, h3, hf, ins, bisectLeft, insertAt]
      · have h3 : t' < t := lt_of_le_of_ne (not_lt.mp h2) (fun e => h1 e.symm)
        simp only [ins, h1, h2, if_false]
        rw [← ih]
        by_cases hh : hasT rest t = true
        · simp [hh, indexT, h1', bumpAt]
        · simp [hh, h1', bisectLeft, h3, insertAt]

theorem ins_mem_thr {s : Scale} {t r : Rat} {c : Rat × Rat} (hc : c ∈ ins s t r) :
    c.1 = t ∨ ∃ d ∈ s, d.1 = c.1 := by
  induction s with
  | nil => simp [ins] at hc; left; rw [hc]
  | cons b rest ih =>
    obtain ⟨t', r'⟩ := b
    unfold ins at hc
    split at hc
    · rcases List.mem_cons.mp hc with h | h
      · right; exact ⟨(t', r'), List.mem_cons_self, by rw [h]⟩
      · right; exact ⟨c, List.mem_cons_of_mem _ h, rfl⟩
    · split at hc
      · rcases List.mem_cons.mp hc with h | h
        · left; rw [h]
        · right; exact ⟨c, h, rfl⟩
      · rcases List.mem_cons.mp hc with h | h
        · right; exact ⟨(t', r'), List.mem_cons_self, by rw [h]⟩
        · rcases ih h with h | ⟨d, hd, e⟩
          · left; exact h
          · right; exact ⟨d, List.mem_cons_of_mem _ hd, e⟩

theorem ins_sorted {s : Scale} (hs : StrictSorted s) (t r : Rat) : StrictSorted (ins s t r) := by
  induction s with
  | nil => simp [ins, StrictSorted]
  | cons b rest ih =>
    obtain ⟨t', r'⟩ := b
    rw [strictSorted_cons] at hs
    unfold ins
    split
    · exact strictSorted_cons.mpr ⟨hs.1, hs.2⟩
    · rename_i h1
      split
      · rename_i h2
        refine strictSorted_cons.mpr ⟨?_, strictSorted_cons.mpr hs⟩
        intro c hc
        rcases List.mem_cons.mp hc with h | h
        · rw [h]; exact h2
        · exact lt_trans h2 (hs.1 c h)
      · rename_i h2
        have h3 : t' < t := lt_of_le_of_ne (not_lt.mp h2) (fun e => h1 e.symm)
        refine strictSorted_cons.mpr ⟨?_, ih hs.2⟩
        intro c hc
        rcases ins_mem_thr hc with h | ⟨d, hd, e⟩
        · rw [h]; exact h3
        · rw [← e]; exact hs.1 d hd

theorem addBracket_sorted {s : Scale} (hs : StrictSorted s) (t r : Rat) : StrictSorted (addBracket s t r) := by
  rw [addBracket_eq_ins s hs]; exact ins_sorted hs t r

theorem ins_comm {s : Scale} (hs : StrictSorted s) (t r t2 r2 : Rat) :
    ins (ins s t r) t2 r2 = ins (ins s t2 r2) t r := by
  induction s with
  | nil =>
    simp only [ins]
    rcases lt_trichotomy t t2 with h | h | h
    · have h1 : ¬ t2 = t := fun e => absurd (e ▸ h) (lt_irrefl _)
      have h2 : ¬ t2 < t := not_lt.mpr h.le
      have h3 : ¬ t = t2 := fun e => h1 e.symm
      simp [h1, h2, h3, h]
    · subst h; simp [add_comm]
    · have h1 : ¬ t = t2 := fun e => absurd (e ▸ h) (lt_irrefl _)
      have h2 : ¬ t < t2 := not_lt.mpr h.le
      have h3 : ¬ t2 = t := fun e => h1 e.symm
      simp [h1, h2, h3, h]
  | cons b rest ih =>
    obtain ⟨t', r'⟩ := b
    rw [strictSorted_cons] at hs
    have ih := ih hs.2
    simp only [ins]
    grind [ins]

/-- fold of `ins` (reference form of `build`) from any sorted scale -/
def insAll (s : Scale) (l : List (Rat × Rat)) : Scale := l.foldl (fun s b => ins s b.1 b.2) s

theorem insAll_sorted {s : Scale} (hs : StrictSorted s) (l : List (Rat × Rat)) : StrictSorted (insAll s l) := by
  induction l generalizing s with
  | nil => exact hs
  | cons b l ih => exact ih (ins_sorted hs b.1 b.2)

theorem foldl_addBracket_eq_insAll {s : Scale} (hs : StrictSorted s) (l : List (Rat × Rat)) :
    l.foldl (fun s b => addBracket s b.1 b.2) s = insAll s l := by
  induction l generalizing s with
  | nil => rfl
  | cons b l ih =>
    simp only [List.foldl_cons, insAll]
    rw [addBracket_eq_ins s hs]
    exact ih (ins_sorted hs b.1 b.2)

theorem insAll_perm {l₁ l₂ : List (Rat × Rat)} (h : l₁.Perm l₂) :
    ∀ s, StrictSorted s → insAll s l₁ = insAll s l₂ := by
  induction h with
  | nil => intro s _; rfl
  | cons b _ ih => intro s hs; exact ih _ (ins_sorted hs b.1 b.2)
  | swap a b l =>
    intro s hs
    simp only [insAll, List.foldl_cons]
    rw [ins_comm hs]
  | trans _ _ ih1 ih2 => intro s hs; rw [ih1 s hs, ih2 s hs]

theorem strictSorted_nil : StrictSorted [] := List.Pairwise.nil

theorem build_eq_insAll (l : List (Rat × Rat)) : build l = insAll [] l :=
  foldl_addBracket_eq_insAll strictSorted_nil l

theorem build_sorted (l : List (Rat × Rat)) : StrictSorted (build l) := by
  rw [build_eq_insAll]; exact insAll_sorted strictSorted_nil l

/-! ## 2. Textbook definitions and the clip sum on sorted lists -/

/-- length of `[lo, hi) ∩ (-∞, x]` (`hi = none`: unbounded bracket) -/
def interLen (lo : Rat) (hi : Option Rat) (x : Rat) : Rat :=
  if x ≤ lo then 0
  else match hi with
    | none => x - lo
    | some h => if h ≤ x then h - lo else x - lo

/-- textbook marginal-rate tax on transformed thresholds: `Σ rate_i × |[τ_i, τ_{i+1}) ∩ (-∞, x]|`
(each bracket part and each bracket tax rounded when `rd` asks for it) -/
def specMR (rd : Option Nat) : Scale → Rat → Rat
  | [], _ => 0
  | [(t, r)], x => brTerm rd r (interLen t none x)
  | (t, r) :: (t', r') :: rest, x => brTerm rd r (interLen t (some t') x) + specMR rd ((t', r') :: rest) x

/-- tax of the complete brackets of a list: `Σ rate_i × (τ_{i+1} − τ_i)` -/
def fullBr : Scale → Rat
  | (t, r) :: (t', r') :: rest => r * (t' - t) + fullBr ((t', r') :: rest)
  | _ => 0

theorem clip_eq_interLen_some (t t' x : Rat) (h : t ≤ t') : max (min x t' - t) 0 = interLen t (some t') x := by
  unfold interLen; grind

theorem clip_eq_interLen_none (t x : Rat) : max (x - t) 0 = interLen t none x := by
  unfold interLen; grind

theorem clipSum_eq_specMR (rd : Option Nat) (l : Scale) (hl : WSorted l) (x : Rat) :
    clipSum rd true l x = specMR rd l x := by
  induction l with
  | nil => rfl
  | cons a rest ih =>
    obtain ⟨t, r⟩ := a
    cases rest with
    | nil => simp only [clipSum, specMR, if_true, clip_eq_interLen_none]
    | cons b rest =>
      obtain ⟨t', r'⟩ := b
      rw [wsorted_cons] at hl
      simp only [clipSum, specMR]
      rw [clip_eq_interLen_some t t' x (hl.1 _ List.mem_cons_self), ih hl.2]

/-- below (or at) every threshold nothing is due -/
theorem clipSum_zero_of_le (opn : Bool) (l : Scale) (x : Rat) (h : ∀ c ∈ l, x ≤ c.1) :
    clipSum none opn l x = 0 := by
  induction l with
  | nil => rfl
  | cons a rest ih =>
    obtain ⟨t, r⟩ := a
    have ht : x ≤ t := h (t, r) List.mem_cons_self
    cases rest with
    | nil =>
      simp only [clipSum, brTerm]
      split
      · rw [max_eq_right (by linarith)]; ring
      · ring
    | cons b rest =>
      obtain ⟨t', r'⟩ := b
      simp only [clipSum, brTerm]
      rw [ih (fun c hc => h c (List.mem_cons_of_mem _ hc))]
      have : min x t' - t ≤ 0 := by have := min_le_left x t'; linarith
      rw [max_eq_right this]; ring

theorem wsorted_append {l₁ l₂ : Scale} : WSorted (l₁ ++ l₂) ↔
    WSorted l₁ ∧ WSorted l₂ ∧ ∀ a ∈ l₁, ∀ b ∈ l₂, a.1 ≤ b.1 := List.pairwise_append

/-- closed form on the bracket containing the base: complete brackets below, then the rate
of the bracket times the part of the base inside it -/
theorem clipSum_closed (pre : Scale) (t r : Rat) (post : Scale) (x : Rat)
    (hl : WSorted (pre ++ (t, r) :: post)) (hx : t ≤ x) (hpost : ∀ c ∈ post, x ≤ c.1) :
    clipSum none true (pre ++ (t, r) :: post) x = fullBr (pre ++ [(t, r)]) + r * (x - t) := by
  induction pre with
  | nil =>
    cases post with
    | nil =>
      simp only [List.nil_append, clipSum, brTerm, fullBr, if_true]
      rw [max_eq_left (by linarith)]; ring
    | cons b post =>
      obtain ⟨t', r'⟩ := b
      simp only [List.nil_append, clipSum, brTerm, fullBr]
      rw [clipSum_zero_of_le true _ x hpost]
      have h1 : x ≤ t' := hpost (t', r') List.mem_cons_self
      rw [min_eq_left h1, max_eq_left (by linarith)]; ring
  | cons a pre ih =>
    obtain ⟨t0, r0⟩ := a
    rw [List.cons_append, wsorted_cons] at hl
    have ih := ih hl.2
    cases pre with
    | nil =>
      simp only [List.nil_append, List.cons_append] at ih ⊢
      simp only [clipSum, brTerm, fullBr]
      rw [ih]
      have h0 : t0 ≤ t := hl.1 (t, r) (by simp)
      rw [min_eq_right hx, max_eq_left (by linarith)]
      simp only [fullBr]; ring
    | cons b pre =>
      obtain ⟨t1, r1⟩ := b
      simp only [List.cons_append] at ih ⊢
      simp only [clipSum, brTerm, fullBr]
      rw [ih]
      have h0 : t0 ≤ t1 := hl.1 (t1, r1) (by simp)
      have h1 : t1 ≤ t := by
        have := (wsorted_cons.mp hl.2).1 (t, r) (by simp)
        exact this
      rw [min_eq_right (by linarith), max_eq_left (by linarith)]
      ring

/-! ## 3. Bracket index and marginal rate on sorted lists -/

/-- prefix scan: rate of the last bracket whose threshold is `≤ x`, `prev` when there is none -/
def scanRate (prev : Rat) : Scale → Rat → Rat
  | [], _ => prev
  | (t, r) :: rest, x => if t ≤ x then scanRate r rest x else prev

/-- number of thresholds `≤ x` -/
def cntLe (l : Scale) (x : Rat) : Nat := l.countP (fun b => decide (b.1 ≤ x))

@[simp] theorem cntLe_nil (x : Rat) : cntLe [] x = 0 := rfl
theorem cntLe_cons (b : Rat × Rat) (l : Scale) (x : Rat) :
    cntLe (b :: l) x = cntLe l x + (if b.1 ≤ x then 1 else 0) := by
  simp [cntLe, List.countP_cons]

theorem cntLe_zero_of_lt (l : Scale) (x : Rat) (h : ∀ c ∈ l, x < c.1) : cntLe l x = 0 := by
  unfold cntLe
  rw [List.countP_eq_zero]
  intro c hc
  simp only [decide_eq_true_eq, not_le]
  exact h c hc

theorem cntLe_le_length (l : Scale) (x : Rat) : cntLe l x ≤ l.length := List.countP_le_length

/-- on a sorted list the brackets whose threshold is `≤ x` are exactly the first `cntLe` ones -/
theorem cntLe_spec (l : Scale) (hl : WSorted l) (x : Rat) :
    ∀ (i : Nat) (b : Rat × Rat), l[i]? = some b → (i < cntLe l x ↔ b.1 ≤ x) := by
  induction l with
  | nil => intro i b h; simp at h
  | cons a rest ih =>
    rw [wsorted_cons] at hl
    intro i b h
    rw [cntLe_cons]
    by_cases ha : a.1 ≤ x
    · simp only [ha, if_true]
      cases i with
      | zero => simp at h; subst h; simp [ha]
      | succ i =>
        simp only [List.getElem?_cons_succ] at h
        rw [Nat.add_lt_add_iff_right]
        exact ih hl.2 i b h
    · have hz : cntLe rest x = 0 := cntLe_zero_of_lt rest x (fun c hc => lt_of_lt_of_le (not_le.mp ha) (hl.1 c hc))
      simp only [ha, if_false, hz, Nat.add_zero, Nat.not_lt_zero, false_iff, not_le]
      cases i with
      | zero => simp at h; subst h; exact not_le.mp ha
      | succ i =>
        simp only [List.getElem?_cons_succ] at h
        exact lt_of_lt_of_le (not_le.mp ha) (hl.1 b (List.mem_of_getElem? h))

/-- the rate at position `cntLe − 1` is the one found by the prefix scan -/
theorem scanRate_eq_getD (l : Scale) (hl : WSorted l) (x prev : Rat) (n : Nat) (hn : cntLe l x = n + 1) :
    (l.getD n (0, 0)).2 = scanRate prev l x := by
  induction l generalizing prev n with
  | nil => simp at hn
  | cons a rest ih =>
    obtain ⟨t, r⟩ := a
    rw [wsorted_cons] at hl
    rw [cntLe_cons] at hn
    by_cases ha : t ≤ x
    · simp only [ha, if_true] at hn
      simp only [scanRate, ha, if_true]
      cases n with
      | zero =>
        have hz : cntLe rest x = 0 := by omega
        simp only [List.getD_cons_zero]
        cases rest with
        | nil => rfl
        | cons b rest =>
          obtain ⟨t', r'⟩ := b
          rw [cntLe_cons] at hz
          have : ¬ t' ≤ x := by
            intro h; simp [h] at hz
          simp [scanRate, this]
      | succ n =>
        simp only [List.getD_cons_succ]
        exact ih hl.2 r n (by omega)
    · exfalso
      have hz : cntLe rest x = 0 := cntLe_zero_of_lt rest x (fun c hc => lt_of_lt_of_le (not_le.mp ha) (hl.1 c hc))
      simp [ha, hz] at hn

theorem scanRate_of_lt (prev : Rat) (l : Scale) (x : Rat) (h : ∀ c ∈ l, x < c.1) : scanRate prev l x = prev := by
  cases l with
  | nil => rfl
  | cons a rest =>
    obtain ⟨t, r⟩ := a
    have : ¬ t ≤ x := not_le.mpr (h (t, r) List.mem_cons_self)
    simp [scanRate, this]

/-- between two bases with no threshold strictly in between, the tax grows at the rate of the
bracket found by the scan -/
theorem clipSum_slope (l : Scale) (hl : WSorted l) (x x' : Rat) (hxx : x ≤ x')
    (hno : ∀ c ∈ l, c.1 ≤ x ∨ x' ≤ c.1) :
    clipSum none true l x' - clipSum none true l x = scanRate 0 l x * (x' - x) := by
  induction l with
  | nil => simp [clipSum, scanRate]
  | cons a rest ih =>
    obtain ⟨t, r⟩ := a
    rw [wsorted_cons] at hl
    have ih := ih hl.2 (fun c hc => hno c (List.mem_cons_of_mem _ hc))
    have h0 := hno (t, r) List.mem_cons_self
    cases rest with
    | nil =>
      simp only [clipSum, brTerm, scanRate, if_true]
      by_cases ht : t ≤ x
      · simp only [ht, if_true]
        rw [max_eq_left (by linarith), max_eq_left (by linarith)]; ring
      · simp only [ht, if_false]
        have h1 : x' ≤ t := by rcases h0 with h | h; exact absurd h ht; exact h
        rw [max_eq_right (by linarith), max_eq_right (by linarith)]; ring
    | cons b rest =>
      obtain ⟨t', r'⟩ := b
      have htt : t ≤ t' := hl.1 (t', r') List.mem_cons_self
      have h1 := hno (t', r') (by simp)
      simp only [clipSum, brTerm] at ih ⊢
      by_cases ht' : t' ≤ x
      · have e1 : scanRate 0 ((t, r) :: (t', r') :: rest) x = scanRate 0 ((t', r') :: rest) x := by
          simp [scanRate, ht', le_trans htt ht']
        rw [e1, ← ih]
        rw [min_eq_right (by linarith), min_eq_right ht']
        ring
      · have hx' : x' ≤ t' := by rcases h1 with h | h; exact absurd h ht'; exact h
        have e0 : scanRate 0 ((t', r') :: rest) x = 0 := by simp [scanRate, ht']
        rw [e0] at ih
        rw [min_eq_left hx', min_eq_left (le_of_lt (not_le.mp ht'))]
        by_cases ht : t ≤ x
        · have e1 : scanRate 0 ((t, r) :: (t', r') :: rest) x = r := by simp [scanRate, ht, ht']
          rw [e1, max_eq_left (by linarith), max_eq_left (by linarith)]
          linarith
        · have h2 : x' ≤ t := by rcases h0 with h | h; exact absurd h ht; exact h
          have e1 : scanRate 0 ((t, r) :: (t', r') :: rest) x = 0 := by simp [scanRate, ht]
          rw [e1, max_eq_right (by linarith), max_eq_right (by linarith)]
          linarith

theorem mapT_strictSorted {τ : Rat → Rat} (hτ : ∀ a b, a < b → τ a < τ b) {s : Scale}
    (hs : StrictSorted s) : StrictSorted (mapT τ s) :=
  List.Pairwise.map _ (fun _ _ h => hτ _ _ h) hs

theorem mapT_wsorted {τ : Rat → Rat} (hτ : ∀ a b, a ≤ b → τ a ≤ τ b) {s : Scale}
    (hs : WSorted s) : WSorted (mapT τ s) :=
  List.Pairwise.map _ (fun _ _ h => hτ _ _ h) hs

theorem thrMap_none (ε f t : Rat) : thrMap ε f none t = (f + ε) * t := rfl

theorem thrMap_strictMono (ε f : Rat) (h : 0 < f + ε) : ∀ a b, a < b → thrMap ε f none a < thrMap ε f none b := by
  intro a b hab
  simp only [thrMap_none]
  exact mul_lt_mul_of_pos_left hab h

theorem mapT_length (τ : Rat → Rat) (s : Scale) : (mapT τ s).length = s.length := by simp [mapT]

theorem mapT_getElem? (τ : Rat → Rat) (s : Scale) (i : Nat) :
    (mapT τ s)[i]? = (s[i]?).map (fun b => (τ b.1, b.2)) := by simp [mapT]

theorem mem_mapT {τ : Rat → Rat} {s : Scale} {c : Rat × Rat} (h : c ∈ mapT τ s) : ∃ b ∈ s, c = (τ b.1, b.2) := by
  simp only [mapT, List.mem_map] at h
  obtain ⟨b, hb, e⟩ := h
  exact ⟨b, hb, e.symm⟩

theorem bracketIndex_eq (ε f : Rat) (rd : Option Nat) (s : Scale) (x : Rat) :
    bracketIndex ε f rd s x = (cntLe (mapT (thrMap ε f rd) s) x : Int) - 1 := by
  unfold bracketIndex cntLe mapT
  rw [List.countP_map]
  congr 2
  apply List.countP_congr
  intro b _
  simp only [Function.comp, decide_eq_true_eq]
  constructor <;> intro h <;> linarith

theorem rates_getD (s : Scale) (n : Nat) : (rates s).getD n 0 = (s.getD n (0, 0)).2 := by
  unfold rates
  rw [List.getD_eq_getElem?_getD, List.getD_eq_getElem?_getD, List.getElem?_map]
  cases s[n]? <;> rfl

theorem mapT_getD_snd (τ : Rat → Rat) (s : Scale) (n : Nat) :
    ((mapT τ s).getD n (0, 0)).2 = (s.getD n (0, 0)).2 := by
  rw [List.getD_eq_getElem?_getD, List.getD_eq_getElem?_getD, mapT_getElem?]
  cases s[n]? <;> rfl

/-- when at least one (transformed) threshold is `≤ x`, the reported marginal rate is the one
found by the scan of the transformed scale -/
theorem marginalRate_eq_scan (ε f : Rat) (rd : Option Nat) (s : Scale) (x : Rat)
    (hl : WSorted (mapT (thrMap ε f rd) s)) (hpos : 0 ≤ bracketIndex ε f rd s x) :
    marginalRate ε f rd s x = .ok (scanRate 0 (mapT (thrMap ε f rd) s) x) := by
  unfold marginalRate
  rw [bracketIndex_eq] at hpos ⊢
  have hle := cntLe_le_length (mapT (thrMap ε f rd) s) x
  rw [mapT_length] at hle
  obtain ⟨n, hn⟩ : ∃ n, cntLe (mapT (thrMap ε f rd) s) x = n + 1 := ⟨cntLe (mapT (thrMap ε f rd) s) x - 1, by omega⟩
  rw [hn]
  have hlen : (rates s).length = s.length := by simp [rates]
  unfold pyIndex
  simp only [hlen]
  have h1 : (0 : Int) ≤ ((n + 1 : Nat) : Int) - 1 ∧ ((n + 1 : Nat) : Int) - 1 < (s.length : Int) := by omega
  rw [if_pos h1]
  have h2 : (((n + 1 : Nat) : Int) - 1).toNat = n := by omega
  rw [h2, rates_getD, ← mapT_getD_snd (thrMap ε f rd), scanRate_eq_getD _ hl x 0 n hn]

/-! ### amount scales, linear average, vector form -/

/-- textbook marginal-amount value: the amounts of all thresholds strictly below the base -/
def sumBelow : Scale → Rat → Rat
  | [], _ => 0
  | (t, a) :: rest, x => (if t < x then a else 0) + sumBelow rest x

theorem calcMA_eq_sumBelow (l : Scale) (hl : StrictSorted l) (x : Rat) : calcMA l x = sumBelow l x := by
  induction l with
  | nil => rfl
  | cons a rest ih =>
    obtain ⟨t, r⟩ := a
    rw [strictSorted_cons] at hl
    cases rest with
    | nil =>
      simp only [calcMA, sumBelow]
      grind
    | cons b rest =>
      obtain ⟨t', r'⟩ := b
      have htt : t < t' := hl.1 (t', r') List.mem_cons_self
      have ih := ih hl.2
      simp only [calcMA] at ih ⊢
      rw [ih]
      simp only [sumBelow]
      grind

theorem countP_split {α} (p : α → Bool) (pre post : List α) (b : α) (h1 : ∀ c ∈ pre, p c = true) (hb : p b = true)
    (h2 : ∀ c ∈ post, p c = false) : (pre ++ b :: post).countP p = pre.length + 1 := by
  rw [List.countP_append, List.countP_cons, if_pos hb]
  have e1 : pre.countP p = pre.length := List.countP_eq_length.mpr h1
  have e2 : post.countP p = 0 := List.countP_eq_zero.mpr (fun c hc => by simp [h2 c hc])
  omega

theorem getD_split {α} (pre post : List α) (b d : α) : (pre ++ b :: post).getD pre.length d = b := by
  simp [List.getD_eq_getElem?_getD]

theorem strictSorted_append {l₁ l₂ : Scale} : StrictSorted (l₁ ++ l₂) ↔
    StrictSorted l₁ ∧ StrictSorted l₂ ∧ ∀ a ∈ l₁, ∀ b ∈ l₂, a.1 < b.1 := List.pairwise_append

theorem laSums_zero_of_lt (l : Scale) (x : Rat) (h : ∀ c ∈ l, x < c.1) : laSums l x = (0, 0, 0) := by
  induction l with
  | nil => rfl
  | cons a rest ih =>
    obtain ⟨t, r⟩ := a
    cases rest with
    | nil => rfl
    | cons b rest =>
      obtain ⟨t', r'⟩ := b
      have ih := ih (fun c hc => h c (List.mem_cons_of_mem _ hc))
      have ht : ¬ t ≤ x := not_le.mpr (h (t, r) List.mem_cons_self)
      simp only [laSums, ih]
      simp [ht]

theorem laSums_zero_of_le (l : Scale) (x : Rat) (h : ∀ c ∈ l, c.1 ≤ x) : laSums l x = (0, 0, 0) := by
  induction l with
  | nil => rfl
  | cons a rest ih =>
    obtain ⟨t, r⟩ := a
    cases rest with
    | nil => rfl
    | cons b rest =>
      obtain ⟨t', r'⟩ := b
      have ih := ih (fun c hc => h c (List.mem_cons_of_mem _ hc))
      have ht : ¬ x < t' := not_lt.mpr (h (t', r') (by simp))
      simp only [laSums, ih]
      simp [ht]

theorem laSums_split (pre : Scale) (t r t' r' : Rat) (post : Scale) (x : Rat)
    (hl : StrictSorted (pre ++ (t, r) :: (t', r') :: post)) (h1 : t ≤ x) (h2 : x < t') :
    laSums (pre ++ (t, r) :: (t', r') :: post) x = ((r' - r) / (t' - t), r, t) := by
  induction pre with
  | nil =>
    rw [List.nil_append] at hl ⊢
    have hp : ∀ c ∈ (t', r') :: post, x < c.1 := by
      intro c hc
      rcases List.mem_cons.mp hc with e | e
      · rw [e]; exact h2
      · have := (strictSorted_cons.mp (strictSorted_cons.mp hl).2).1 c e
        exact lt_trans h2 this
    simp only [laSums, laSums_zero_of_lt _ x hp]
    simp [h1, h2]
  | cons a pre ih =>
    obtain ⟨t0, r0⟩ := a
    rw [List.cons_append, strictSorted_cons] at hl
    have ih := ih hl.2
    cases pre with
    | nil =>
      simp only [List.nil_append, List.cons_append] at ih ⊢
      rw [laSums, ih]
      have : ¬ x < t := not_lt.mpr h1
      simp [this]
    | cons b pre =>
      obtain ⟨t1, r1⟩ := b
      simp only [List.cons_append] at ih ⊢
      have h3 : t1 < t := by
        have := (strictSorted_cons.mp hl.2).1 (t, r) (by simp)
        exact this
      rw [laSums, ih]
      have : ¬ x < t1 := not_lt.mpr (by linarith)
      simp [this]

theorem zipWith_add_map (g h : Rat → Rat) (xs : List Rat) :
    List.zipWith (· + ·) (xs.map g) (xs.map h) = xs.map (fun x => g x + h x) := by
  induction xs with
  | nil => rfl
  | cons x xs ih => simp [ih]

theorem clipSumVec_eq_map (rd : Option Nat) (opn : Bool) (l : Scale) (xs : List Rat) :
    clipSumVec rd opn l xs = xs.map (clipSum rd opn l) := by
  induction l with
  | nil => simp [clipSumVec, clipSum]
  | cons a rest ih =>
    obtain ⟨t, r⟩ := a
    cases rest with
    | nil => simp [clipSumVec, clipSum]
    | cons b rest =>
      obtain ⟨t', r'⟩ := b
      simp only [clipSumVec, ih, zipWith_add_map, clipSum]

/-! ### rounding is monotone, so rounded thresholds stay (weakly) sorted -/

theorem floor_mono' {q q' : Rat} (h : q ≤ q') : q.floor ≤ q'.floor := by
  have h1 := Rat.floor_le q
  have h2 := Rat.lt_floor_add_one q'
  have : (q.floor : Rat) < ((q'.floor + 1 : Int) : Rat) := by linarith
  have := Int.cast_lt.mp this
  omega

def rheAux (n : Int) (d : Rat) : Int :=
  if d < 1/2 then n else if 1/2 < d then n + 1 else if n % 2 = 0 then n else n + 1

theorem roundHalfEven_eq (q : Rat) : roundHalfEven q = rheAux q.floor (q - (q.floor : Rat)) := rfl

theorem rheAux_bounds (n : Int) (d : Rat) : n ≤ rheAux n d ∧ rheAux n d ≤ n + 1 := by
  unfold rheAux; split_ifs <;> omega

theorem rheAux_mono (n : Int) {d d' : Rat} (h : d ≤ d') : rheAux n d ≤ rheAux n d' := by
  unfold rheAux
  split_ifs <;> first | omega | (exfalso; linarith)

theorem roundHalfEven_mono {q q' : Rat} (h : q ≤ q') : roundHalfEven q ≤ roundHalfEven q' := by
  have hf := floor_mono' h
  rw [roundHalfEven_eq, roundHalfEven_eq]
  rcases Int.lt_or_eq_of_le hf with hlt | heq
  · have := (rheAux_bounds q.floor (q - (q.floor : Rat))).2
    have := (rheAux_bounds q'.floor (q' - (q'.floor : Rat))).1
    omega
  · rw [← heq]
    exact rheAux_mono _ (by linarith)

theorem roundDec_mono (d : Nat) {q q' : Rat} (h : q ≤ q') : roundDec d q ≤ roundDec d q' := by
  unfold roundDec
  have hp : (0 : Rat) < 10 ^ d := by positivity
  have h1 : q * 10 ^ d ≤ q' * 10 ^ d := mul_le_mul_of_nonneg_right h hp.le
  have h2 := roundHalfEven_mono h1
  have h3 : ((roundHalfEven (q * 10 ^ d) : Int) : Rat) ≤ ((roundHalfEven (q' * 10 ^ d) : Int) : Rat) :=
    Int.cast_le.mpr h2
  exact div_le_div_of_nonneg_right h3 hp.le

theorem thrMap_mono (ε f : Rat) (rd : Option Nat) (h : 0 < f + ε) : ∀ a b, a ≤ b → thrMap ε f rd a ≤ thrMap ε f rd b := by
  intro a b hab
  have : (f + ε) * a ≤ (f + ε) * b := mul_le_mul_of_nonneg_left hab h.le
  unfold thrMap rnd
  cases rd with
  | none => exact this
  | some d => exact roundDec_mono d this

/-! ## 4. Increment form and `combine_bracket` / `add_tax_scale` -/

/-- positive part -/
def pp (a : Rat) : Rat := max a 0

/-- increment form `Σ (rate_i − rate_{i−1}) × (x − τ t_i)⁺`; `prev` is the rate before the list -/
def incr (τ : Rat → Rat) (prev : Rat) : Scale → Rat → Rat
  | [], _ => 0
  | (t, r) :: rest, x => (r - prev) * pp (x - τ t) + incr τ r rest x

/-- `(x − τ t)⁺` for the bracket at position `j` (0 past the end) -/
def posAt (τ : Rat → Rat) (s : Scale) (j : Nat) (x : Rat) : Rat :=
  match s[j]? with
  | some b => pp (x - τ b.1)
  | none => 0

theorem pp_clip (x t t' : Rat) (h : t ≤ t') : max (min x t' - t) 0 = pp (x - t) - pp (x - t') := by
  unfold pp; grind

theorem incr_prev (τ : Rat → Rat) (p d : Rat) (s : Scale) (x : Rat) :
    incr τ (p + d) s x = incr τ p s x - d * posAt τ s 0 x := by
  cases s with
  | nil => simp [incr, posAt]
  | cons b rest => obtain ⟨t, r⟩ := b; simp only [incr, posAt, List.getElem?_cons_zero]; ring

theorem clipSum_eq_incr (τ : Rat → Rat) (hτ : ∀ a b, a < b → τ a < τ b) (s : Scale) (hs : StrictSorted s)
    (prev x : Rat) : incr τ prev s x = clipSum none true (mapT τ s) x - prev * posAt τ s 0 x := by
  induction s generalizing prev with
  | nil => simp [incr, clipSum, posAt, mapT]
  | cons a rest ih =>
    obtain ⟨t, r⟩ := a
    rw [strictSorted_cons] at hs
    cases rest with
    | nil => simp only [incr, mapT, List.map, clipSum, brTerm, posAt, pp, List.getElem?_cons_zero, if_true]; ring
    | cons b rest =>
      obtain ⟨t', r'⟩ := b
      have ih := ih hs.2 r
      have htt : τ t < τ t' := hτ _ _ (hs.1 (t', r') List.mem_cons_self)
      simp only [mapT, List.map_cons] at ih ⊢
      simp only [incr, clipSum, brTerm] at ih ⊢
      rw [pp_clip x (τ t) (τ t') htt.le]
      simp only [posAt, List.getElem?_cons_zero] at ih ⊢
      linarith

theorem rateBelow_eq_scan_aux (prev : Rat) (s : Scale) (t : Rat) :
    (match bisectRight s t with
      | 0 => prev
      | k + 1 => (s.getD k (0, 0)).2) = scanRate prev s t := by
  induction s generalizing prev with
  | nil => rfl
  | cons a rest ih =>
    obtain ⟨t1, r1⟩ := a
    by_cases h : t1 ≤ t
    · have ih := ih r1
      simp only [bisectRight, h, if_true, scanRate]
      rw [← ih]
      cases bisectRight rest t with
      | zero => rfl
      | succ k => rfl
    · simp [bisectRight, h, scanRate]

theorem rateBelow_eq_scan (s : Scale) (t : Rat) : rateBelow s t = scanRate 0 s t :=
  rateBelow_eq_scan_aux 0 s t

/-- inserting an absent threshold with the rate found below it does not change the tax -/
theorem incr_ins_split (τ : Rat → Rat) (s : Scale) (t : Rat) (hn : hasT s t = false) (prev x : Rat) :
    incr τ prev (ins s t (scanRate prev s t)) x = incr τ prev s x := by
  induction s generalizing prev with
  | nil => simp [ins, scanRate, incr]
  | cons a rest ih =>
    obtain ⟨t1, r1⟩ := a
    simp only [hasT_cons, Bool.or_eq_false_iff, decide_eq_false_iff_not] at hn
    have h1 : ¬ t = t1 := fun e => hn.1 e.symm
    by_cases h2 : t < t1
    · have h3 : ¬ t1 ≤ t := not_le.mpr h2
      simp only [ins, h1, h2, if_false, if_true, scanRate, h3, incr]
      ring
    · have h3 : t1 ≤ t := not_lt.mp h2
      simp only [ins, h1, h2, if_false, scanRate, h3, if_true, incr]
      rw [ih hn.2 r1]

theorem hasT_ins (s : Scale) (t r u : Rat) : hasT (ins s t r) u = (hasT s u || decide (t = u)) := by
  induction s with
  | nil => simp [ins]
  | cons a rest ih =>
    obtain ⟨t1, r1⟩ := a
    unfold ins
    split
    · rename_i h; subst h
      simp only [hasT_cons]
      cases hasT rest u <;> cases decide (t = u) <;> rfl
    · split
      · simp only [hasT_cons]
        cases hasT rest u <;> cases decide (t = u) <;> cases decide (t1 = u) <;> rfl
      · simp only [hasT_cons, ih]
        cases hasT rest u <;> cases decide (t = u) <;> cases decide (t1 = u) <;> rfl

theorem splitAt_spec (τ : Rat → Rat) (s : Scale) (hs : StrictSorted s) (t x : Rat) :
    incr τ 0 (splitAt s t) x = incr τ 0 s x ∧ StrictSorted (splitAt s t) ∧
    (∀ u, hasT (splitAt s t) u = (hasT s u || decide (t = u))) := by
  unfold splitAt
  by_cases h : hasT s t = true
  · rw [if_pos h]
    refine ⟨rfl, hs, ?_⟩
    intro u
    by_cases e : t = u
    · subst e; simp [h]
    · simp [e]
  · have hf : hasT s t = false := by simpa using h
    simp only [hf, Bool.false_eq_true, if_false]
    rw [addBracket_eq_ins s hs, rateBelow_eq_scan]
    exact ⟨incr_ins_split τ s t hf 0 x, ins_sorted hs _ _, hasT_ins s t _⟩

/-! ### the loop `while i <= j: add_bracket(thresholds[i], rate)` -/

theorem bumpAt_thresholds (s : Scale) (i : Nat) (d : Rat) : thresholds (bumpAt s i d) = thresholds s := by
  induction s generalizing i with
  | nil => rfl
  | cons a rest ih =>
    obtain ⟨t, r⟩ := a
    cases i with
    | zero => simp [bumpAt, thresholds]
    | succ i =>
      have := ih i
      simp only [thresholds] at this
      simp [bumpAt, thresholds, this]

theorem strictSorted_iff_thresholds (s : Scale) : StrictSorted s ↔ (thresholds s).Pairwise (· < ·) := by
  unfold StrictSorted thresholds
  rw [List.pairwise_map]

theorem posAt_of_thresholds (τ : Rat → Rat) {s s' : Scale} (h : thresholds s' = thresholds s) (j : Nat) (x : Rat) :
    posAt τ s' j x = posAt τ s j x := by
  have : (s'[j]?).map (·.1) = (s[j]?).map (·.1) := by
    have := congrArg (fun l => l[j]?) h
    simpa [thresholds] using this
  unfold posAt
  cases h1 : s'[j]? <;> cases h2 : s[j]? <;> simp [h1, h2] at this ⊢
  rw [this]

theorem length_of_thresholds {s s' : Scale} (h : thresholds s' = thresholds s) : s'.length = s.length := by
  have := congrArg List.length h
  simpa [thresholds] using this

theorem hasT_eq_thresholds (s : Scale) (t : Rat) : hasT s t = (thresholds s).contains t := by
  induction s with
  | nil => rfl
  | cons a rest ih =>
    simp only [hasT_cons, thresholds, List.map_cons, List.contains_cons] at ih ⊢
    rw [ih]
    by_cases e : a.1 = t
    · simp [e]
    · have : (t == a.1) = false := by simp; exact fun h => e h.symm
      simp [e, this]

theorem hasT_of_thresholds {s s' : Scale} (h : thresholds s' = thresholds s) (t : Rat) : hasT s' t = hasT s t := by
  rw [hasT_eq_thresholds, hasT_eq_thresholds, h]

theorem incr_bumpAt (τ : Rat → Rat) (s : Scale) (i : Nat) (d prev x : Rat) (hi : i < s.length) :
    incr τ prev (bumpAt s i d) x = incr τ prev s x + d * (posAt τ s i x - posAt τ s (i + 1) x) := by
  induction s generalizing i prev with
  | nil => simp at hi
  | cons a rest ih =>
    obtain ⟨t, r⟩ := a
    cases i with
    | zero =>
      simp only [bumpAt, incr]
      rw [incr_prev]
      simp only [posAt, List.getElem?_cons_zero, List.getElem?_cons_succ]
      ring
    | succ i =>
      simp only [bumpAt, incr]
      rw [ih i r (by simpa using hi)]
      simp only [posAt, List.getElem?_cons_succ]
      ring

theorem indexT_getD (s : Scale) (hs : StrictSorted s) (i : Nat) (hi : i < s.length) :
    indexT s (s.getD i (0, 0)).1 = i := by
  induction s generalizing i with
  | nil => simp at hi
  | cons a rest ih =>
    rw [strictSorted_cons] at hs
    cases i with
    | zero => simp [indexT]
    | succ i =>
      have hi' : i < rest.length := by simpa using hi
      simp only [List.getD_cons_succ]
      have hm : rest.getD i (0, 0) ∈ rest := by
        rw [List.getD_eq_getElem?_getD, List.getElem?_eq_getElem hi']
        exact List.getElem_mem hi'
      have hlt := hs.1 _ hm
      have hne : ¬ a.1 = (rest.getD i (0, 0)).1 := fun e => absurd hlt (by rw [e]; exact lt_irrefl _)
      simp only [indexT, hne, if_false]
      rw [ih hs.2 i hi']

theorem hasT_getD (s : Scale) (i : Nat) (hi : i < s.length) : hasT s (s.getD i (0, 0)).1 = true := by
  rw [hasT_iff]
  refine ⟨s.getD i (0, 0), ?_, rfl⟩
  rw [List.getD_eq_getElem?_getD, List.getElem?_eq_getElem hi]
  exact List.getElem_mem hi

theorem addBracket_at (s : Scale) (hs : StrictSorted s) (i : Nat) (hi : i < s.length) (d : Rat) :
    addBracket s (s.getD i (0, 0)).1 d = bumpAt s i d := by
  unfold addBracket
  rw [hasT_getD s i hi, if_pos rfl, indexT_getD s hs i hi]

theorem bumpLoop_spec (τ : Rat → Rat) (d x : Rat) (n : Nat) :
    ∀ (i : Nat) (s : Scale) (prev : Rat), StrictSorted s → i + n ≤ s.length →
      incr τ prev (bumpLoop d n i s) x = incr τ prev s x + d * (posAt τ s i x - posAt τ s (i + n) x) ∧
      thresholds (bumpLoop d n i s) = thresholds s := by
  induction n with
  | zero => intro i s prev _ _; simp [bumpLoop]
  | succ n ih =>
    intro i s prev hs hin
    have hi : i < s.length := by omega
    simp only [bumpLoop]
    rw [addBracket_at s hs i hi]
    have ht := bumpAt_thresholds s i d
    have hs' : StrictSorted (bumpAt s i d) := by
      rw [strictSorted_iff_thresholds, ht, ← strictSorted_iff_thresholds]; exact hs
    have hl := length_of_thresholds ht
    obtain ⟨e1, e2⟩ := ih (i + 1) (bumpAt s i d) prev hs' (by omega)
    refine ⟨?_, by rw [e2, ht]⟩
    rw [e1, incr_bumpAt τ s i d prev x hi, posAt_of_thresholds τ ht, posAt_of_thresholds τ ht]
    have : i + 1 + n = i + (n + 1) := by omega
    rw [this]
    ring

theorem indexT_spec (s : Scale) (t : Rat) (h : hasT s t = true) :
    indexT s t < s.length ∧ ∃ b, s[indexT s t]? = some b ∧ b.1 = t := by
  induction s with
  | nil => simp at h
  | cons a rest ih =>
    by_cases e : a.1 = t
    · simp [indexT, e]
    · simp only [hasT_cons, e, decide_false, Bool.false_or] at h
      obtain ⟨h1, b, h2, h3⟩ := ih h
      simp only [indexT, e, if_false, List.length_cons, List.getElem?_cons_succ]
      exact ⟨by omega, b, h2, h3⟩

theorem posAt_indexT (τ : Rat → Rat) (s : Scale) (t x : Rat) (h : hasT s t = true) :
    posAt τ s (indexT s t) x = pp (x - τ t) := by
  obtain ⟨_, b, h2, h3⟩ := indexT_spec s t h
  unfold posAt
  rw [h2]
  simp only [h3]

theorem posAt_length (τ : Rat → Rat) (s : Scale) (x : Rat) : posAt τ s s.length x = 0 := by
  unfold posAt
  simp

theorem indexT_lt (s : Scale) (hs : StrictSorted s) (a b : Rat) (ha : hasT s a = true) (hb : hasT s b = true)
    (hab : a < b) : indexT s a < indexT s b := by
  induction s with
  | nil => simp at ha
  | cons c rest ih =>
    rw [strictSorted_cons] at hs
    by_cases e : c.1 = a
    · have e' : ¬ c.1 = b := fun h => absurd hab (by rw [← e, h]; exact lt_irrefl _)
      have e'' : ¬ a = b := fun h => e' (e.trans h)
      simp [indexT, e, e'']
    · simp only [hasT_cons, e, decide_false, Bool.false_or] at ha
      obtain ⟨d, hd, hda⟩ := hasT_iff.mp ha
      have hca : c.1 < a := by rw [← hda]; exact hs.1 d hd
      have e' : ¬ c.1 = b := fun h => absurd (lt_trans hca hab) (by rw [h]; exact lt_irrefl _)
      simp only [hasT_cons, e', decide_false, Bool.false_or] at hb
      simp only [indexT, e, e', if_false]
      have := ih hs.2 ha hb
      omega

/-- effect of `combine_bracket(rate, lo, hi)` on a sorted receiver: `rate` is added on `[lo, hi)` -/
theorem combineBracket_spec (τ : Rat → Rat) (s : Scale) (hs : StrictSorted s) (rate lo : Rat) (hi : Option Rat)
    (hlh : ∀ h ∈ hi, lo < h ∧ h ≠ 0) (x : Rat) :
    incr τ 0 (combineBracket s rate lo hi) x
      = incr τ 0 s x + rate * (pp (x - τ lo) - (match hi with | some h => pp (x - τ h) | none => 0)) ∧
    StrictSorted (combineBracket s rate lo hi) := by
  obtain ⟨a1, a2, a3⟩ := splitAt_spec τ s hs lo x
  cases hi with
  | none =>
    simp only [combineBracket, Option.filter]
    have hlo : hasT (splitAt s lo) lo = true := by rw [a3]; simp
    obtain ⟨hidx, _⟩ := indexT_spec _ lo hlo
    obtain ⟨e1, e2⟩ := bumpLoop_spec τ rate x ((splitAt s lo).length - indexT (splitAt s lo) lo)
      (indexT (splitAt s lo) lo) (splitAt s lo) 0 a2 (by omega)
    constructor
    · rw [e1, a1, posAt_indexT τ _ lo x hlo]
      have : indexT (splitAt s lo) lo + ((splitAt s lo).length - indexT (splitAt s lo) lo) = (splitAt s lo).length := by omega
      rw [this, posAt_length]
    · rw [strictSorted_iff_thresholds, e2, ← strictSorted_iff_thresholds]; exact a2
  | some h =>
    obtain ⟨hlt, hne⟩ := hlh h rfl
    have hf : (some h : Option Rat).filter (fun h => h ≠ 0) = some h := by simp [Option.filter, hne]
    simp only [combineBracket, hf]
    obtain ⟨b1, b2, b3⟩ := splitAt_spec τ (splitAt s lo) a2 h x
    have hlo : hasT (splitAt (splitAt s lo) h) lo = true := by rw [b3, a3]; simp
    have hhi : hasT (splitAt (splitAt s lo) h) h = true := by rw [b3]; simp
    have hord := indexT_lt _ b2 lo h hlo hhi hlt
    obtain ⟨hidx, _⟩ := indexT_spec _ h hhi
    obtain ⟨e1, e2⟩ := bumpLoop_spec τ rate x (indexT (splitAt (splitAt s lo) h) h - indexT (splitAt (splitAt s lo) h) lo)
      (indexT (splitAt (splitAt s lo) h) lo) (splitAt (splitAt s lo) h) 0 b2 (by omega)
    constructor
    · rw [e1, b1, a1, posAt_indexT τ _ lo x hlo]
      have : indexT (splitAt (splitAt s lo) h) lo + (indexT (splitAt (splitAt s lo) h) h - indexT (splitAt (splitAt s lo) h) lo)
          = indexT (splitAt (splitAt s lo) h) h := by omega
      rw [this, posAt_indexT τ _ h x hhi]
    · rw [strictSorted_iff_thresholds, e2, ← strictSorted_iff_thresholds]; exact b2

/-- no threshold after the first one is 0 (true of every sorted scale with thresholds `≥ 0`):
`combine_bracket` treats an upper threshold 0 as "no upper threshold" -/
def TailNZ : Scale → Prop
  | [] => True
  | _ :: rest => ∀ c ∈ rest, c.1 ≠ 0

theorem addTaxScaleGo_spec (τ : Rat → Rat) (hτ : ∀ a b, a < b → τ a < τ b) (b : Scale) (hb : StrictSorted b)
    (hnz : TailNZ b) (x : Rat) :
    ∀ s, StrictSorted s →
      incr τ 0 (addTaxScaleGo s b) x = incr τ 0 s x + clipSum none true (mapT τ b) x ∧
      StrictSorted (addTaxScaleGo s b) := by
  induction b with
  | nil => intro s hs; simp [addTaxScaleGo, clipSum, mapT, hs]
  | cons a rest ih =>
    obtain ⟨t, r⟩ := a
    rw [strictSorted_cons] at hb
    cases rest with
    | nil =>
      intro s hs
      obtain ⟨e1, e2⟩ := combineBracket_spec τ s hs r t none (by simp) x
      simp only [addTaxScaleGo, mapT, List.map, clipSum, brTerm, if_true]
      refine ⟨?_, e2⟩
      rw [e1]; simp only [pp]; ring
    | cons c rest =>
      obtain ⟨t', r'⟩ := c
      intro s hs
      have htt : t < t' := hb.1 (t', r') List.mem_cons_self
      have hne : t' ≠ 0 := hnz (t', r') List.mem_cons_self
      obtain ⟨e1, e2⟩ := combineBracket_spec τ s hs r t (some t') (by intro h hh; simp at hh; subst hh; exact ⟨htt, hne⟩) x
      have hnz' : TailNZ ((t', r') :: rest) := fun c hc => hnz c (List.mem_cons_of_mem _ hc)
      obtain ⟨f1, f2⟩ := ih hb.2 hnz' (combineBracket s r t (some t')) e2
      simp only [addTaxScaleGo]
      refine ⟨?_, f2⟩
      rw [f1, e1]
      simp only [mapT, List.map_cons, clipSum, brTerm]
      rw [pp_clip x (τ t) (τ t') (hτ _ _ htt).le]
      ring

/-! ## 5. Scalings, `inverse`, `to_average` / `to_marginal` -/

theorem clipSum_scaleT (k : Rat) (hk : 0 < k) (opn : Bool) (l : Scale) (x : Rat) :
    clipSum none opn (mapT (fun t => k * t) l) (k * x) = k * clipSum none opn l x := by
  induction l with
  | nil => simp [mapT, clipSum]
  | cons a rest ih =>
    obtain ⟨t, r⟩ := a
    cases rest with
    | nil =>
      simp only [mapT, List.map, clipSum, brTerm]
      split
      · rw [← mul_sub, ← mul_zero k, ← mul_max_of_nonneg _ _ hk.le, mul_zero]; ring
      · ring
    | cons b rest =>
      obtain ⟨t', r'⟩ := b
      simp only [mapT, List.map_cons] at ih ⊢
      simp only [clipSum, brTerm] at ih ⊢
      rw [ih, ← mul_min_of_nonneg _ _ hk.le, ← mul_sub, ← mul_zero k, ← mul_max_of_nonneg _ _ hk.le, mul_zero]
      ring

theorem mapT_id' (s : Scale) : mapT (thrMap 0 1 none) s = s := by
  unfold mapT
  conv => rhs; rw [← List.map_id s]
  apply List.map_congr_left
  intro c _
  simp [thrMap_none]

/-- textbook reading (`ε = 0`, factor 1): the clip sum on the scale's own thresholds -/
theorem calcMR_textbook (s : Scale) (x : Rat) : calcMR 0 1 none s x = clipSum none true s x := by
  unfold calcMR
  rw [mapT_id', decide_eq_true (by decide +kernel : (0 : Rat) < 1 + 0)]

theorem clipSum_scaleR (k : Rat) (opn : Bool) (l : Scale) (x : Rat) :
    clipSum none opn (l.map (fun b => (b.1, b.2 * k))) x = k * clipSum none opn l x := by
  induction l with
  | nil => simp [clipSum]
  | cons a rest ih =>
    obtain ⟨t, r⟩ := a
    cases rest with
    | nil => simp only [List.map, clipSum, brTerm]; split <;> ring
    | cons b rest =>
      obtain ⟨t', r'⟩ := b
      simp only [List.map_cons] at ih ⊢
      simp only [clipSum, brTerm] at ih ⊢
      rw [ih]; ring

/-- appending: `add_bracket` of a threshold above all the others -/
theorem addBracket_append (acc : Scale) (hacc : StrictSorted acc) (t r : Rat) (h : ∀ c ∈ acc, c.1 < t) :
    addBracket acc t r = acc ++ [(t, r)] := by
  rw [addBracket_eq_ins acc hacc]
  clear hacc
  induction acc with
  | nil => rfl
  | cons a rest ih =>
    obtain ⟨t1, r1⟩ := a
    have h1 : t1 < t := h (t1, r1) List.mem_cons_self
    have h2 : ¬ t = t1 := fun e => absurd h1 (by rw [e]; exact lt_irrefl _)
    have h3 : ¬ t < t1 := not_lt.mpr h1.le
    simp only [ins, h2, h3, if_false, List.cons_append]
    rw [ih (fun c hc => h c (List.mem_cons_of_mem _ hc))]

theorem strictSorted_snoc {acc : Scale} (hacc : StrictSorted acc) (t r : Rat) (h : ∀ c ∈ acc, c.1 < t) :
    StrictSorted (acc ++ [(t, r)]) := by
  rw [strictSorted_append]
  refine ⟨hacc, by simp [StrictSorted], ?_⟩
  intro a ha b hb
  simp at hb; subst hb
  exact h a ha

/-- the brackets `inverse` produces from the state `(previous_rate, theta)` -/
def invL (prev θ : Rat) : Scale → Scale
  | [] => []
  | (t, r) :: rest => ((1 - prev) * t + θ, 1 / (1 - r)) :: invL r ((r - prev) * t + θ) rest

theorem inverseGo_eq (s : Scale) :
    ∀ (prev θ : Rat) (acc : Scale), StrictSorted s → (∀ c ∈ s, c.1 ≠ 0) → (∀ c ∈ s, c.2 < 1) →
      StrictSorted acc → (∀ c ∈ acc, ∀ d ∈ s.head?, c.1 < (1 - prev) * d.1 + θ) →
      inverseGo (some (prev, θ)) s acc = .ok (acc ++ invL prev θ s) := by
  induction s with
  | nil => intro prev θ acc _ _ _ _ _; simp [inverseGo, invL]
  | cons a rest ih =>
    obtain ⟨t, r⟩ := a
    intro prev θ acc hs hnz hr hacc hlt
    rw [strictSorted_cons] at hs
    have ht : ¬ t = 0 := hnz (t, r) List.mem_cons_self
    have hr1 : r < 1 := hr (t, r) List.mem_cons_self
    have hr1' : ¬ r = 1 := fun e => absurd hr1 (by rw [e]; exact lt_irrefl _)
    have hlt' : ∀ c ∈ acc, c.1 < (1 - prev) * t + θ := fun c hc => hlt c hc (t, r) (by simp)
    simp only [inverseGo, ht, if_false, hr1']
    rw [addBracket_append acc hacc _ _ hlt']
    rw [ih r ((r - prev) * t + θ) _ hs.2 (fun c hc => hnz c (List.mem_cons_of_mem _ hc))
      (fun c hc => hr c (List.mem_cons_of_mem _ hc)) (strictSorted_snoc hacc _ _ hlt')]
    · simp [invL]
    · intro c hc d hd
      have hd' : d ∈ rest := List.mem_of_mem_head? hd
      have htd : t < d.1 := hs.1 d hd'
      have key : (1 - prev) * t + θ < (1 - r) * d.1 + ((r - prev) * t + θ) := by
        have : 0 < (1 - r) * (d.1 - t) := mul_pos (by linarith) (by linarith)
        linarith
      rcases List.mem_append.mp hc with h | h
      · exact lt_trans (hlt' c h) key
      · simp at h; subst h; exact key

/-- `inverse` of a sorted scale starting at 0 with rates below one succeeds -/
theorem inverse_eq (r0 : Rat) (rest : Scale) (hs : StrictSorted ((0, r0) :: rest))
    (hr : ∀ c ∈ (0, r0) :: rest, c.2 < 1) :
    inverse ((0, r0) :: rest) = .ok (invL 0 0 ((0, r0) :: rest)) := by
  have hs' := strictSorted_cons.mp hs
  have hr0 : r0 < 1 := hr (0, r0) List.mem_cons_self
  have hr0' : ¬ r0 = 1 := fun e => absurd hr0 (by rw [e]; exact lt_irrefl _)
  unfold inverse
  simp only [inverseGo, if_true, hr0', if_false]
  have hnz : ∀ c ∈ rest, c.1 ≠ 0 := fun c hc => ne_of_gt (hs'.1 c hc)
  have e0 : addBracket [] ((1 - 0) * 0 + 0) (1 / (1 - r0)) = [] ++ [((1 - 0) * 0 + 0, 1 / (1 - r0))] :=
    addBracket_append [] strictSorted_nil _ _ (by simp)
  rw [e0, inverseGo_eq rest r0 ((r0 - 0) * 0 + 0) _ hs'.2 hnz (fun c hc => hr c (List.mem_cons_of_mem _ hc))
    (strictSorted_snoc strictSorted_nil _ _ (by simp))]
  · simp [invL]
  · intro c hc d hd
    simp at hc; subst hc
    have hd' : d ∈ rest := List.mem_of_mem_head? hd
    have : 0 < d.1 := hs'.1 d hd'
    have : 0 < (1 - r0) * d.1 := mul_pos (by linarith) this
    simp only
    linarith

theorem clipSum_le_of_rates_le_one (s : Scale) (t r : Rat) (hs : StrictSorted ((t, r) :: s))
    (hr : ∀ c ∈ (t, r) :: s, c.2 ≤ 1) (x : Rat) (hx : t ≤ x) :
    clipSum none true ((t, r) :: s) x ≤ x - t := by
  induction s generalizing t r with
  | nil =>
    simp only [clipSum, brTerm, if_true]
    rw [max_eq_left (by linarith)]
    have := hr (t, r) List.mem_cons_self
    have h0 : 0 ≤ x - t := by linarith
    nlinarith
  | cons b rest ih =>
    obtain ⟨t', r'⟩ := b
    have hs' := strictSorted_cons.mp hs
    have htt : t < t' := hs'.1 (t', r') List.mem_cons_self
    have hr1 : r ≤ 1 := hr (t, r) List.mem_cons_self
    simp only [clipSum, brTerm]
    rcases le_total x t' with h | h
    · rw [clipSum_zero_of_le true _ x (by
        intro c hc
        rcases List.mem_cons.mp hc with e | e
        · rw [e]; exact h
        · exact le_trans h (le_of_lt ((strictSorted_cons.mp hs'.2).1 c e)))]
      rw [min_eq_left h, max_eq_left (by linarith)]
      have h0 : 0 ≤ x - t := by linarith
      nlinarith
    · have := ih t' r' hs'.2 (fun c hc => hr c (List.mem_cons_of_mem _ hc)) h
      rw [min_eq_right h, max_eq_left (by linarith)]
      have h0 : 0 ≤ t' - t := by linarith
      nlinarith

theorem invL_ge_head (s : Scale) : ∀ (prev θ t r : Rat), StrictSorted ((t, r) :: s) → (∀ c ∈ (t, r) :: s, c.2 < 1) →
    ∀ c ∈ invL prev θ ((t, r) :: s), (1 - prev) * t + θ ≤ c.1 := by
  induction s with
  | nil => intro prev θ t r _ _ c hc; simp [invL] at hc; rw [hc]
  | cons b rest ih =>
    obtain ⟨t', r'⟩ := b
    intro prev θ t r hs hr c hc
    have hs' := strictSorted_cons.mp hs
    have htt : t < t' := hs'.1 (t', r') List.mem_cons_self
    have hr1 : r < 1 := hr (t, r) List.mem_cons_self
    rw [invL] at hc
    rcases List.mem_cons.mp hc with e | e
    · rw [e]
    · have := ih r ((r - prev) * t + θ) t' r' hs'.2 (fun c hc => hr c (List.mem_cons_of_mem _ hc)) c e
      have key : 0 < (1 - r) * (t' - t) := mul_pos (by linarith) (by linarith)
      linarith

/-- the inverse scale maps the net amount back to the gross amount (measured from the head
threshold `t`, whose net image is `(1 − prev)·t + θ`) -/
theorem inv_calc (s : Scale) : ∀ (prev θ t r x : Rat), StrictSorted ((t, r) :: s) → (∀ c ∈ (t, r) :: s, c.2 < 1) →
    t ≤ x →
    clipSum none true (invL prev θ ((t, r) :: s))
      ((1 - prev) * t + θ + (x - t) - clipSum none true ((t, r) :: s) x) = x - t := by
  induction s with
  | nil =>
    intro prev θ t r x _ hr hx
    have hr1 : r < 1 := hr (t, r) List.mem_cons_self
    have hne : (1 - r) ≠ 0 := by linarith
    simp only [invL, clipSum, brTerm, if_true]
    rw [max_eq_left (by linarith : (0:Rat) ≤ x - t)]
    have h0 : 0 ≤ (1 - r) * (x - t) := mul_nonneg (by linarith) (by linarith)
    have e : (1 - prev) * t + θ + (x - t) - r * (x - t) - ((1 - prev) * t + θ) = (1 - r) * (x - t) := by ring
    rw [e, max_eq_left h0]
    field_simp
  | cons b rest ih =>
    obtain ⟨t', r'⟩ := b
    intro prev θ t r x hs hr hx
    have hs' := strictSorted_cons.mp hs
    have htt : t < t' := hs'.1 (t', r') List.mem_cons_self
    have hr1 : r < 1 := hr (t, r) List.mem_cons_self
    have hne : (1 - r) ≠ 0 := by linarith
    have hr' : ∀ c ∈ (t', r') :: rest, c.2 < 1 := fun c hc => hr c (List.mem_cons_of_mem _ hc)
    have hge := invL_ge_head rest r ((r - prev) * t + θ) t' r' hs'.2 hr'
    rw [invL]
    rw [show invL r ((r - prev) * t + θ) ((t', r') :: rest)
        = ((1 - r) * t' + ((r - prev) * t + θ), 1 / (1 - r')) :: invL r' ((r' - r) * t' + ((r - prev) * t + θ)) rest from rfl] at hge ⊢
    rw [clipSum, clipSum]
    simp only [brTerm]
    rw [show ((1 - r) * t' + ((r - prev) * t + θ), 1 / (1 - r')) :: invL r' ((r' - r) * t' + ((r - prev) * t + θ)) rest
        = invL r ((r - prev) * t + θ) ((t', r') :: rest) from rfl] at hge ⊢
    rcases le_total x t' with h | h
    · have hz : clipSum none true ((t', r') :: rest) x = 0 := clipSum_zero_of_le true _ x (by
        intro c hc
        rcases List.mem_cons.mp hc with e | e
        · rw [e]; exact h
        · exact le_trans h (le_of_lt ((strictSorted_cons.mp hs'.2).1 c e)))
      rw [hz, min_eq_left h, max_eq_left (by linarith : (0:Rat) ≤ x - t)]
      have hy : (1 - prev) * t + θ + (x - t) - (r * (x - t) + 0) ≤ (1 - r) * t' + ((r - prev) * t + θ) := by
        have : 0 ≤ (1 - r) * (t' - x) := mul_nonneg (by linarith) (by linarith)
        linarith
      rw [min_eq_left hy]
      rw [clipSum_zero_of_le true _ _ (fun c hc => le_trans hy (hge c hc))]
      have h0 : 0 ≤ (1 - r) * (x - t) := mul_nonneg (by linarith) (by linarith)
      have e : (1 - prev) * t + θ + (x - t) - (r * (x - t) + 0) - ((1 - prev) * t + θ) = (1 - r) * (x - t) := by ring
      rw [e, max_eq_left h0]
      field_simp
      ring
    · have hT := clipSum_le_of_rates_le_one rest t' r' hs'.2 (fun c hc => le_of_lt (hr' c hc)) x h
      rw [min_eq_right h, max_eq_left (by linarith : (0:Rat) ≤ t' - t)]
      have ey : (1 - prev) * t + θ + (x - t) - (r * (t' - t) + clipSum none true ((t', r') :: rest) x)
          = (1 - r) * t' + ((r - prev) * t + θ) + (x - t') - clipSum none true ((t', r') :: rest) x := by ring
      rw [ey]
      have hy : (1 - r) * t' + ((r - prev) * t + θ) ≤
          (1 - r) * t' + ((r - prev) * t + θ) + (x - t') - clipSum none true ((t', r') :: rest) x := by linarith
      rw [min_eq_right hy]
      rw [ih r ((r - prev) * t + θ) t' r' x hs'.2 hr' h]
      have h0 : 0 ≤ (1 - r) * (t' - t) := mul_nonneg (by linarith) (by linarith)
      have e : (1 - r) * t' + ((r - prev) * t + θ) - ((1 - prev) * t + θ) = (1 - r) * (t' - t) := by ring
      rw [e, max_eq_left h0]
      field_simp
      ring

/-! ### `to_average` then `to_marginal` -/

/-- the brackets `to_average` appends: `(t, tax(t) / t)`; `i` is the tax at `pt`, `pr` the rate from `pt` on -/
def avgL (i pt pr : Rat) : Scale → Scale
  | [] => []
  | (t, r) :: rest => (t, (i + pr * (t - pt)) / t) :: avgL (i + pr * (t - pt)) t r rest

/-- rate of the last bracket (`pr` when the list is empty) -/
def lastRate (pr : Rat) : Scale → Rat
  | [] => pr
  | (_, r) :: rest => lastRate r rest

theorem toAverageGo_eq (rest : Scale) :
    ∀ (i pt pr : Rat) (a : Scale), StrictSorted ((pt, pr) :: rest) → 0 ≤ pt → StrictSorted a →
      (∀ c ∈ a, c.1 ≤ pt) →
      toAverageGo rest i pt pr a = .ok ⟨a ++ avgL i pt pr rest, some (lastRate pr rest)⟩ := by
  induction rest with
  | nil => intro i pt pr a _ _ _ _; simp [toAverageGo, avgL, lastRate]
  | cons b rest ih =>
    obtain ⟨t, r⟩ := b
    intro i pt pr a hs hpt ha hle
    have hs' := strictSorted_cons.mp hs
    have htt : pt < t := hs'.1 (t, r) List.mem_cons_self
    have ht0 : ¬ t = 0 := by intro e; rw [e] at htt; linarith
    have hlt : ∀ c ∈ a, c.1 < t := fun c hc => lt_of_le_of_lt (hle c hc) htt
    simp only [toAverageGo, ht0, if_false]
    rw [addBracket_append a ha _ _ hlt]
    rw [ih _ t r _ hs'.2 (by linarith) (strictSorted_snoc ha _ _ hlt)]
    · simp [avgL, lastRate]
    · intro c hc
      rcases List.mem_append.mp hc with h | h
      · exact le_of_lt (hlt c h)
      · simp at h; subst h; exact le_refl _

theorem toMarginalGo_avgL (rest : Scale) :
    ∀ (i pt pr : Rat) (last : Option Rat) (m : Scale), StrictSorted ((pt, pr) :: rest) → 0 ≤ pt →
      StrictSorted m → (∀ c ∈ m, c.1 < pt) →
      ∃ pt' last' m', toMarginalGo (avgL i pt pr rest) i pt last m = .ok (pt', last', m') ∧
        addBracket m' pt' (lastRate pr rest) = m ++ (pt, pr) :: rest := by
  induction rest with
  | nil =>
    intro i pt pr last m _ _ hm hlt
    refine ⟨pt, last, m, rfl, ?_⟩
    simp only [lastRate]
    exact addBracket_append m hm _ _ hlt
  | cons b rest ih =>
    obtain ⟨t, r⟩ := b
    intro i pt pr last m hs hpt hm hlt
    have hs' := strictSorted_cons.mp hs
    have htt : pt < t := hs'.1 (t, r) List.mem_cons_self
    have ht0 : t ≠ 0 := by intro e; rw [e] at htt; linarith
    have hd : ¬ t - pt = 0 := by intro e; linarith
    simp only [avgL, toMarginalGo, hd, if_false]
    have e1 : (i + pr * (t - pt)) / t * t = i + pr * (t - pt) := div_mul_cancel₀ _ ht0
    have e2 : ((i + pr * (t - pt)) / t * t - i) / (t - pt) = pr := by
      rw [e1]; field_simp; ring
    rw [e2, e1, addBracket_append m hm _ _ hlt]
    obtain ⟨pt', last', m', g1, g2⟩ := ih (i + pr * (t - pt)) t r (some ((i + pr * (t - pt)) / t)) (m ++ [(pt, pr)]) hs'.2
      (by linarith) (strictSorted_snoc hm _ _ hlt) (by
        intro c hc
        rcases List.mem_append.mp hc with h | h
        · exact lt_trans (hlt c h) htt
        · simp at h; subst h; exact htt)
    refine ⟨pt', last', m', g1, ?_⟩
    simp only [lastRate]
    rw [g2]; simp

theorem roundHalfEven_zero : roundHalfEven 0 = 0 := by decide +kernel

theorem roundDec_zero (d : Nat) : roundDec d 0 = 0 := by
  unfold roundDec
  rw [zero_mul, roundHalfEven_zero]
  simp

theorem brTerm_zero_rate (rd : Option Nat) (a : Rat) : brTerm rd 0 a = 0 := by
  cases rd with
  | none => simp [brTerm]
  | some d => simp [brTerm, roundDec_zero]

/-- a leading bracket with rate 0 does not change the tax (any factor, any rounding) -/
theorem clipSum_zero_head (rd : Option Nat) (opn : Bool) (t0 : Rat) (b : Rat × Rat) (l : Scale) (x : Rat) :
    clipSum rd opn ((t0, 0) :: b :: l) x = clipSum rd opn (b :: l) x := by
  obtain ⟨t', r'⟩ := b
  rw [clipSum, brTerm_zero_rate]
  ring

/-- structure of the round trip on a sorted scale whose first threshold is `≥ 0`: the same
scale, preceded by a bracket `(0, 0)` when the first threshold is positive -/
theorem avg_roundtrip (t0 r0 : Rat) (rest : Scale) (hs : StrictSorted ((t0, r0) :: rest)) (h0 : 0 ≤ t0) :
    ∃ a, toAverage ((t0, r0) :: rest) = .ok a ∧
      toMarginal a = .ok (if 0 < t0 then (0, 0) :: (t0, r0) :: rest else (t0, r0) :: rest) := by
  have hnil : addBracket [] 0 0 = [(0, 0)] := by decide +kernel
  by_cases hpos : 0 < t0
  · have ha1 : addBracket [(0, 0)] t0 0 = [(0, 0)] ++ [(t0, 0)] :=
      addBracket_append [(0, 0)] (by simp [StrictSorted]) t0 0 (by simpa using hpos)
    have hsa : StrictSorted ([(0, 0)] ++ [(t0, 0)]) := strictSorted_snoc (by simp [StrictSorted]) t0 0 (by simpa using hpos)
    refine ⟨⟨([(0, 0)] ++ [(t0, 0)]) ++ avgL 0 t0 r0 rest, some (lastRate r0 rest)⟩, ?_, ?_⟩
    · unfold toAverage
      simp only [hnil, hpos, if_true, ha1]
      exact toAverageGo_eq rest 0 t0 r0 _ hs h0 hsa (by
        intro c hc; simp at hc; rcases hc with e | e <;> subst e <;> simp [h0])
    · unfold toMarginal
      simp only [List.cons_append, List.nil_append]
      have hd : ¬ t0 - 0 = 0 := by intro e; linarith
      simp only [toMarginalGo, hd, if_false]
      have e0 : (0 * t0 - 0) / (t0 - 0) = 0 := by simp
      rw [e0, hnil]
      obtain ⟨pt', last', m', g1, g2⟩ := toMarginalGo_avgL rest 0 t0 r0 (some 0) [(0, 0)] hs h0
        (by simp [StrictSorted]) (by simpa using hpos)
      rw [show (0 : Rat) * t0 = 0 from zero_mul _, g1]
      simp only [g2, if_pos hpos]
      rfl
  · have ht0 : t0 = 0 := by linarith [not_lt.mp hpos]
    subst ht0
    refine ⟨⟨[(0, 0)] ++ avgL 0 0 r0 rest, some (lastRate r0 rest)⟩, ?_, ?_⟩
    · unfold toAverage
      simp only [hnil, lt_irrefl, if_false]
      exact toAverageGo_eq rest 0 0 r0 _ hs (le_refl _) (by simp [StrictSorted]) (by simp)
    · unfold toMarginal
      simp only [List.cons_append, List.nil_append]
      obtain ⟨pt', last', m', g1, g2⟩ := toMarginalGo_avgL rest 0 0 r0 none [] hs (le_refl _)
        strictSorted_nil (by simp)
      rw [g1]
      simp only [g2, lt_irrefl, if_false]
      rfl

/-! ### what the built scale is -/

/-- sum of the rates (amounts) given for threshold `u` in a list of brackets -/
def rateOf : List (Rat × Rat) → Rat → Rat
  | [], _ => 0
  | (t, r) :: rest, u => (if t = u then r else 0) + rateOf rest u

theorem rateOf_ins (s : Scale) (t r u : Rat) : rateOf (ins s t r) u = rateOf s u + (if t = u then r else 0) := by
  induction s with
  | nil => simp [ins, rateOf]
  | cons a rest ih =>
    obtain ⟨t1, r1⟩ := a
    unfold ins
    split
    · rename_i h; subst h
      simp only [rateOf]
      split <;> ring
    · split
      · simp only [rateOf]; ring
      · simp only [rateOf, ih]; ring

theorem rateOf_insAll (l : List (Rat × Rat)) (s : Scale) (u : Rat) : rateOf (insAll s l) u = rateOf s u + rateOf l u := by
  induction l generalizing s with
  | nil => simp [insAll, rateOf]
  | cons b l ih =>
    obtain ⟨t, r⟩ := b
    have := ih (ins s t r)
    simp only [insAll, List.foldl_cons] at this ⊢
    rw [this, rateOf_ins]
    simp only [rateOf]; ring

theorem hasT_insAll (l : List (Rat × Rat)) (s : Scale) (u : Rat) :
    hasT (insAll s l) u = (hasT s u || hasT l u) := by
  induction l generalizing s with
  | nil => simp [insAll]
  | cons b l ih =>
    have := ih (ins s b.1 b.2)
    simp only [insAll, List.foldl_cons] at this ⊢
    rw [this, hasT_ins, hasT_cons]
    cases hasT s u <;> cases hasT l u <;> cases decide (b.1 = u) <;> rfl

/-! ### glue used by `Props/C09.lean` -/

theorem tailNZ_of_nonneg {b : Scale} (hb : StrictSorted b) (hnn : ∀ c ∈ b, 0 ≤ c.1) : TailNZ b := by
  cases b with
  | nil => trivial
  | cons a rest =>
    intro c hc
    have h1 := (strictSorted_cons.mp hb).1 c hc
    have h2 := hnn a List.mem_cons_self
    intro e
    rw [e] at h1
    linarith

theorem calc_eq_incr (ε f : Rat) (hf : 0 < f + ε) (s : Scale) (hs : StrictSorted s) (x : Rat) :
    calcMR ε f none s x = incr (thrMap ε f none) 0 s x := by
  rw [clipSum_eq_incr _ (thrMap_strictMono ε f hf) s hs 0 x]
  unfold calcMR
  rw [decide_eq_true hf]
  ring



/-! ## 7. Round 2: monotonicity and Lipschitz bounds of the tax function, monotone bracket index -/

theorem pp_mono {a b : Rat} (h : a ≤ b) : pp a ≤ pp b := by unfold pp; grind
theorem pp_diff_le {a b : Rat} (h : a ≤ b) : pp b - pp a ≤ b - a := by unfold pp; grind
theorem pp_clip_mono (x x' t t' : Rat) (h : t ≤ t') (hx : x ≤ x') :
    pp (x - t) - pp (x - t') ≤ pp (x' - t) - pp (x' - t') := by unfold pp; grind

/-- the tax difference between two bases lies between `-R` and `R` times the part of `[x, x']` above the
first threshold, when every rate lies in `[-R, R]` … and is `≥ 0` when every rate is -/
theorem clipSum_diff_bounds (R : Rat) (t : Rat) (r : Rat) (rest : Scale) (hl : WSorted ((t, r) :: rest))
    (hR : ∀ c ∈ (t, r) :: rest, -R ≤ c.2 ∧ c.2 ≤ R) (x x' : Rat) (hxx : x ≤ x') :
    clipSum none true ((t, r) :: rest) x' - clipSum none true ((t, r) :: rest) x ≤ R * (pp (x' - t) - pp (x - t)) ∧
    -(R * (pp (x' - t) - pp (x - t))) ≤ clipSum none true ((t, r) :: rest) x' - clipSum none true ((t, r) :: rest) x := by
  induction rest generalizing t r with
  | nil =>
    have h := hR (t, r) List.mem_cons_self
    have hA : 0 ≤ pp (x' - t) - pp (x - t) := by have := pp_mono (show x - t ≤ x' - t by linarith); linarith
    simp only [clipSum, brTerm, if_true]
    change r * pp (x' - t) - r * pp (x - t) ≤ _ ∧ _ ≤ r * pp (x' - t) - r * pp (x - t)
    constructor <;> nlinarith [h.1, h.2]
  | cons b rest ih =>
    obtain ⟨t', r'⟩ := b
    rw [wsorted_cons] at hl
    have htt : t ≤ t' := hl.1 (t', r') List.mem_cons_self
    obtain ⟨i1, i2⟩ := ih t' r' hl.2 (fun c hc => hR c (List.mem_cons_of_mem _ hc))
    have h := hR (t, r) List.mem_cons_self
    simp only [clipSum, brTerm]
    rw [pp_clip x' t t' htt, pp_clip x t t' htt]
    have hB : 0 ≤ pp (x' - t') - pp (x - t') := by have := pp_mono (show x - t' ≤ x' - t' by linarith); linarith
    have hAB := pp_clip_mono x x' t t' htt hxx
    constructor <;> nlinarith [h.1, h.2]

theorem clipSum_mono (l : Scale) (hl : WSorted l) (hr : ∀ c ∈ l, 0 ≤ c.2) (x x' : Rat) (hxx : x ≤ x') :
    clipSum none true l x ≤ clipSum none true l x' := by
  induction l with
  | nil => simp [clipSum]
  | cons a rest ih =>
    obtain ⟨t, r⟩ := a
    rw [wsorted_cons] at hl
    have ih := ih hl.2 (fun c hc => hr c (List.mem_cons_of_mem _ hc))
    have h0 : 0 ≤ r := hr (t, r) List.mem_cons_self
    cases rest with
    | nil =>
      simp only [clipSum, brTerm, if_true]
      have := pp_mono (show x - t ≤ x' - t by linarith)
      unfold pp at this
      exact mul_le_mul_of_nonneg_left this h0
    | cons b rest =>
      obtain ⟨t', r'⟩ := b
      have htt : t ≤ t' := hl.1 (t', r') List.mem_cons_self
      simp only [clipSum, brTerm] at ih ⊢
      rw [pp_clip x' t t' htt, pp_clip x t t' htt]
      have := pp_clip_mono x x' t t' htt hxx
      nlinarith

theorem bracketIndex_mono (ε f : Rat) (rd : Option Nat) (s : Scale) {x x' : Rat} (h : x ≤ x') :
    bracketIndex ε f rd s x ≤ bracketIndex ε f rd s x' := by
  unfold bracketIndex
  have : s.countP (fun b => decide (0 ≤ x - thrMap ε f rd b.1)) ≤ s.countP (fun b => decide (0 ≤ x' - thrMap ε f rd b.1)) := by
    apply List.countP_mono_left
    intro c _ hc
    simp only [decide_eq_true_eq] at hc ⊢
    linarith
  omega

/-! ## 8. Round 2: guarded single-amount scale, `to_dict`, `numpy.select` -/

/-! ### the single-amount scale with its guards -/

theorem digitizeE_fin (right : Bool) (s : Scale) (x : Rat) :
    digitizeE right (guardedBins s) (.fin x) = digitize right s x + 1 := by
  have hp : ((fun b : EBase => if right then b.ltB (.fin x) else b.leB (.fin x)) ∘ (fun b : Rat × Rat => EBase.fin b.1))
      = fun b : Rat × Rat => if right then decide (b.1 < x) else decide (b.1 ≤ x) := by
    funext b; cases right <;> rfl
  have h1 : (if right then EBase.negInf.ltB (.fin x) else EBase.negInf.leB (.fin x)) = true := by cases right <;> rfl
  have h2 : (if right then EBase.posInf.ltB (.fin x) else EBase.posInf.leB (.fin x)) = false := by cases right <;> rfl
  unfold digitizeE guardedBins digitize
  rw [List.countP_cons, List.countP_append, List.countP_map, hp, List.countP_cons, List.countP_nil, h1, h2]
  simp

theorem guardedAmounts_getD (s : Scale) (k : Nat) (hk : k < s.length) :
    (guardedAmounts s).getD (k + 1) 0 = (s.getD k (0, 0)).2 := by
  unfold guardedAmounts
  rw [List.getD_cons_succ]
  simp only [List.getD_eq_getElem?_getD]
  rw [List.getElem?_append_left (by simpa using hk)]
  simp [List.getElem?_map]
  cases h : s[k]? with
  | none => simp at h; omega
  | some b => simp

/-- on a finite base the guarded computation is `calcSA`: the guards are only met at `±inf` -/
theorem calcSAE_fin (right : Bool) (s : Scale) (x : Rat) : calcSAE right s (.fin x) = .ok (calcSA right s x) := by
  unfold calcSAE calcSA
  rw [digitizeE_fin]
  have hle : digitize right s x ≤ s.length := by unfold digitize; exact List.countP_le_length
  have hlen : (guardedAmounts s).length = s.length + 2 := by simp [guardedAmounts]
  unfold pyIndex
  rw [if_pos (by rw [hlen]; push_cast; omega)]
  have : ((digitize right s x + 1 : Nat) : Int) - 1 = (digitize right s x : Nat) := by push_cast; ring
  rw [this, Int.toNat_natCast]
  cases hd : digitize right s x with
  | zero => simp [guardedAmounts]
  | succ k => rw [guardedAmounts_getD s k (by omega)]

/-! ### `to_dict` -/

def keysOf (d : List (Rat × Rat)) : List Rat := d.map (·.1)

theorem dictSet_fresh (d : List (Rat × Rat)) (k v : Rat) (h : ∀ c ∈ d, c.1 ≠ k) : dictSet d k v = d ++ [(k, v)] := by
  induction d with
  | nil => rfl
  | cons a rest ih =>
    obtain ⟨k', v'⟩ := a
    have hne : k' ≠ k := h (k', v') List.mem_cons_self
    simp only [dictSet, hne, if_false, List.cons_append]
    rw [ih (fun c hc => h c (List.mem_cons_of_mem _ hc))]

theorem foldl_dictSet_sorted (s : Scale) (hs : StrictSorted s) :
    ∀ acc : List (Rat × Rat), (∀ a ∈ acc, ∀ c ∈ s, a.1 < c.1) → s.foldl (fun d b => dictSet d b.1 b.2) acc = acc ++ s := by
  induction s with
  | nil => intro acc _; simp
  | cons b rest ih =>
    intro acc hacc
    rw [strictSorted_cons] at hs
    simp only [List.foldl_cons]
    rw [dictSet_fresh acc b.1 b.2 (fun c hc => ne_of_lt (hacc c hc b List.mem_cons_self))]
    rw [ih hs.2]
    · simp
    · intro a ha c hc
      rcases List.mem_append.mp ha with h | h
      · exact hacc a h c (List.mem_cons_of_mem _ hc)
      · simp at h; subst h; exact hs.1 c hc

/-- the dict of a scale built by `add_bracket` (strictly sorted) lists its brackets, in order -/
theorem toDict_sorted (s : Scale) (hs : StrictSorted s) : toDict s = s := by
  unfold toDict
  rw [foldl_dictSet_sorted s hs [] (by simp)]
  simp

/-! ### `commons.apply_thresholds`, `commons.marginal_rate` -/

theorem selectFirst_split (pre : List (Bool × Rat)) (c : Rat) (post : List (Bool × Rat)) (h : ∀ p ∈ pre, p.1 = false) :
    selectFirst (pre ++ (true, c) :: post) = c := by
  induction pre with
  | nil => simp [selectFirst]
  | cons a rest ih =>
    obtain ⟨b, v⟩ := a
    have hb : b = false := h (b, v) List.mem_cons_self
    subst hb
    simp only [List.cons_append, selectFirst, Bool.false_eq_true, if_false]
    exact ih (fun p hp => h p (List.mem_cons_of_mem _ hp))

theorem selectFirst_none (l : List (Bool × Rat)) (h : ∀ p ∈ l, p.1 = false) : selectFirst l = 0 := by
  induction l with
  | nil => rfl
  | cons a rest ih =>
    obtain ⟨b, v⟩ := a
    have hb : b = false := h (b, v) List.mem_cons_self
    subst hb
    simp only [selectFirst, Bool.false_eq_true, if_false]
    exact ih (fun p hp => h p (List.mem_cons_of_mem _ hp))

/-! ## 9. Round 2: thresholds of a combination -/

/-- the thresholds after `combine_bracket(rate, lo, hi)`: those of the receiver, `lo`, and `hi` when given -/
theorem combineBracket_hasT (s : Scale) (hs : StrictSorted s) (rate lo : Rat) (hi : Option Rat)
    (hlh : ∀ h ∈ hi, lo < h ∧ h ≠ 0) (u : Rat) :
    hasT (combineBracket s rate lo hi) u
      = (hasT s u || decide (lo = u) || (match hi with | some h => decide (h = u) | none => false)) := by
  obtain ⟨_, a2, a3⟩ := splitAt_spec (fun t => t) s hs lo 0
  cases hi with
  | none =>
    simp only [combineBracket, Option.filter]
    have hlo : hasT (splitAt s lo) lo = true := by rw [a3]; simp
    obtain ⟨hidx, _⟩ := indexT_spec _ lo hlo
    obtain ⟨_, e2⟩ := bumpLoop_spec (fun t => t) rate 0 ((splitAt s lo).length - indexT (splitAt s lo) lo)
      (indexT (splitAt s lo) lo) (splitAt s lo) 0 a2 (by omega)
    rw [hasT_of_thresholds e2, a3]; simp
  | some h =>
    obtain ⟨hlt, hne⟩ := hlh h rfl
    have hf : (some h : Option Rat).filter (fun h => h ≠ 0) = some h := by simp [Option.filter, hne]
    simp only [combineBracket, hf]
    obtain ⟨_, b2, b3⟩ := splitAt_spec (fun t => t) (splitAt s lo) a2 h 0
    have hlo : hasT (splitAt (splitAt s lo) h) lo = true := by rw [b3, a3]; simp
    have hhi : hasT (splitAt (splitAt s lo) h) h = true := by rw [b3]; simp
    have hord := indexT_lt _ b2 lo h hlo hhi hlt
    obtain ⟨hidx, _⟩ := indexT_spec _ h hhi
    obtain ⟨_, e2⟩ := bumpLoop_spec (fun t => t) rate 0 (indexT (splitAt (splitAt s lo) h) h - indexT (splitAt (splitAt s lo) h) lo)
      (indexT (splitAt (splitAt s lo) h) lo) (splitAt (splitAt s lo) h) 0 b2 (by omega)
    rw [hasT_of_thresholds e2, b3, a3]

theorem hasT_cons' (b : Rat × Rat) (s : Scale) (u : Rat) : hasT (b :: s) u = (decide (b.1 = u) || hasT s u) := by
  simp [hasT]

/-- the thresholds of `a.add_tax_scale(b)` are those of `a` and those of `b` -/
theorem addTaxScaleGo_hasT (b : Scale) (hb : StrictSorted b) (hnz : TailNZ b) (u : Rat) :
    ∀ s, StrictSorted s → hasT (addTaxScaleGo s b) u = (hasT s u || hasT b u) := by
  induction b with
  | nil => intro s _; simp [addTaxScaleGo, hasT]
  | cons a rest ih =>
    obtain ⟨t, r⟩ := a
    rw [strictSorted_cons] at hb
    cases rest with
    | nil =>
      intro s hs
      simp only [addTaxScaleGo]
      rw [combineBracket_hasT s hs r t none (by simp) u, hasT_cons']
      simp [hasT]
    | cons c rest =>
      obtain ⟨t', r'⟩ := c
      intro s hs
      have htt : t < t' := hb.1 (t', r') List.mem_cons_self
      have hne : t' ≠ 0 := hnz (t', r') List.mem_cons_self
      have hlh : ∀ h ∈ (some t' : Option Rat), t < h ∧ h ≠ 0 := by intro h hh; simp at hh; subst hh; exact ⟨htt, hne⟩
      obtain ⟨_, e2⟩ := combineBracket_spec (fun t => t) s hs r t (some t') hlh 0
      have hnz' : TailNZ ((t', r') :: rest) := fun c hc => hnz c (List.mem_cons_of_mem _ hc)
      simp only [addTaxScaleGo]
      rw [ih hb.2 hnz' (combineBracket s r t (some t')) e2, combineBracket_hasT s hs r t (some t') hlh u]
      rw [hasT_cons' (t, r), hasT_cons' (t', r')]
      simp only
      cases hasT s u <;> cases decide (t = u) <;> cases decide (t' = u) <;> cases hasT rest u <;> rfl

theorem mapM_pyIndex_map (l : List Rat) (g : Rat → Int) (xs : List Rat) :
    (xs.map g).mapM (pyIndex l) = xs.mapM (fun x => pyIndex l (g x)) := by
  induction xs with
  | nil => rfl
  | cons x xs ih => simp only [List.map_cons, List.mapM_cons, ih]

/-! ## 10. Round 2: what `to_average` produces -/

theorem avgL_mem_thr (rest : Scale) : ∀ (i pt pr : Rat) (c : Rat × Rat), c ∈ avgL i pt pr rest → ∃ d ∈ rest, d.1 = c.1 := by
  induction rest with
  | nil => intro i pt pr c hc; simp [avgL] at hc
  | cons b rest ih =>
    obtain ⟨t, r⟩ := b
    intro i pt pr c hc
    simp only [avgL, List.mem_cons] at hc
    rcases hc with h | h
    · exact ⟨(t, r), List.mem_cons_self, by rw [h]⟩
    · obtain ⟨d, hd, e⟩ := ih _ _ _ c h
      exact ⟨d, List.mem_cons_of_mem _ hd, e⟩

/-- the average rate stored for a threshold, times the threshold, is the tax accumulated up to it: `i` (the tax at
`pt`) plus the tax of the brackets from `pt` on -/
theorem avgL_spec (rest : Scale) : ∀ (i pt pr : Rat), StrictSorted ((pt, pr) :: rest) → 0 ≤ pt →
    ∀ c ∈ avgL i pt pr rest, c.2 * c.1 = i + clipSum none true ((pt, pr) :: rest) c.1 := by
  induction rest with
  | nil => intro i pt pr _ _ c hc; simp [avgL] at hc
  | cons b rest ih =>
    obtain ⟨t, r⟩ := b
    intro i pt pr hs hpt c hc
    have hs' := strictSorted_cons.mp hs
    have htt : pt < t := hs'.1 (t, r) List.mem_cons_self
    have ht0 : t ≠ 0 := by intro e; rw [e] at htt; linarith
    simp only [avgL, List.mem_cons] at hc
    rcases hc with h | h
    · rw [h]
      simp only [clipSum, brTerm]
      rw [clipSum_zero_of_le true ((t, r) :: rest) t (by
        intro d hd
        rcases List.mem_cons.mp hd with e | e
        · rw [e]
        · exact le_of_lt ((strictSorted_cons.mp hs'.2).1 d e))]
      rw [min_self, max_eq_left (by linarith), div_mul_cancel₀ _ ht0]; ring
    · have := ih (i + pr * (t - pt)) t r hs'.2 (by linarith) c h
      rw [this]
      obtain ⟨d, hd, e⟩ := avgL_mem_thr rest _ _ _ c h
      have hct : t < c.1 := by rw [← e]; exact (strictSorted_cons.mp hs'.2).1 d hd
      simp only [clipSum, brTerm]
      rw [min_eq_right hct.le, max_eq_left (by linarith)]; ring


/-- what `to_average()` produces on a sorted scale with first threshold `≥ 0`: finite brackets `(0, 0)`, the first
threshold with rate 0 when it is positive, then one bracket per later threshold; the `Inf` bracket carries the last rate;
every finite average rate times its threshold is the tax of the scale at that threshold -/
theorem toAverage_spec (t0 r0 : Rat) (rest : Scale) (hs : StrictSorted ((t0, r0) :: rest)) (h0 : 0 ≤ t0) :
    ∃ a, toAverage ((t0, r0) :: rest) = .ok a ∧ a.top = some (lastRate r0 rest) ∧
      (∀ c ∈ a.fin, c.2 * c.1 = clipSum none true ((t0, r0) :: rest) c.1) ∧
      (∀ u, hasT a.fin u = (decide (u = 0) || hasT ((t0, r0) :: rest) u)) := by
  have hnil : addBracket [] 0 0 = [(0, 0)] := by decide +kernel
  have hzero : ∀ x, x ≤ t0 → clipSum none true ((t0, r0) :: rest) x = 0 := by
    intro x hx
    apply clipSum_zero_of_le
    intro d hd
    rcases List.mem_cons.mp hd with e | e
    · rw [e]; exact hx
    · exact le_trans hx (le_of_lt ((strictSorted_cons.mp hs).1 d e))
  have hT : ∀ (i : Rat) (u : Rat), hasT (avgL i t0 r0 rest) u = hasT rest u := by
    intro i u
    have : ∀ (rest : Scale) (i pt pr : Rat), thresholds (avgL i pt pr rest) = thresholds rest := by
      intro rest
      induction rest with
      | nil => intro i pt pr; rfl
      | cons b rest ih =>
        obtain ⟨t, r⟩ := b
        intro i pt pr
        have := ih (i + pr * (t - pt)) t r
        simp only [thresholds] at this
        simp [avgL, thresholds, this]
    exact hasT_of_thresholds (this rest i t0 r0) u
  by_cases hpos : 0 < t0
  · have ha1 : addBracket [(0, 0)] t0 0 = [(0, 0)] ++ [(t0, 0)] :=
      addBracket_append [(0, 0)] (by simp [StrictSorted]) t0 0 (by simpa using hpos)
    have hsa : StrictSorted ([(0, 0)] ++ [(t0, 0)]) := strictSorted_snoc (by simp [StrictSorted]) t0 0 (by simpa using hpos)
    refine ⟨⟨([(0, 0)] ++ [(t0, 0)]) ++ avgL 0 t0 r0 rest, some (lastRate r0 rest)⟩, ?_, rfl, ?_, ?_⟩
    · unfold toAverage
      simp only [hnil, hpos, if_true, ha1]
      exact toAverageGo_eq rest 0 t0 r0 _ hs h0 hsa (by
        intro c hc; simp at hc; rcases hc with e | e <;> subst e <;> simp [h0])
    · intro c hc
      simp only [List.cons_append, List.nil_append, List.mem_cons] at hc
      rcases hc with e | e | e
      · subst e; simp only [mul_zero]; exact (hzero 0 h0).symm
      · subst e; simp only [zero_mul]; exact (hzero t0 (le_refl _)).symm
      · have := avgL_spec rest 0 t0 r0 hs h0 c e
        rw [this]; ring
    · intro u
      simp only [List.cons_append, List.nil_append]
      rw [hasT_cons', hasT_cons', hT, hasT_cons']
      have e1 : decide ((0 : Rat) = u) = decide (u = 0) := by
        by_cases h : u = 0 <;> simp [h, eq_comm]
      simp only [e1]
  · have ht0 : t0 = 0 := by linarith [not_lt.mp hpos]
    subst ht0
    refine ⟨⟨[(0, 0)] ++ avgL 0 0 r0 rest, some (lastRate r0 rest)⟩, ?_, rfl, ?_, ?_⟩
    · unfold toAverage
      simp only [hnil, lt_irrefl, if_false]
      exact toAverageGo_eq rest 0 0 r0 _ hs (le_refl _) (by simp [StrictSorted]) (by simp)
    · intro c hc
      simp only [List.cons_append, List.nil_append, List.mem_cons] at hc
      rcases hc with e | e
      · subst e; simp only [mul_zero]; exact (hzero 0 (le_refl _)).symm
      · have := avgL_spec rest 0 0 r0 hs (le_refl _) c e
        rw [this]; ring
    · intro u
      simp only [List.cons_append, List.nil_append]
      rw [hasT_cons', hT, hasT_cons']
      have e1 : decide ((0 : Rat) = u) = decide (u = 0) := by
        by_cases h : u = 0 <;> simp [h, eq_comm]
      simp only [e1]
      cases decide (u = 0) <;> simp

end OFCore.Sca
