import OFCore.Lemmas.EngineStore
/-!
# How the meaning depends on the system: caching options are irrelevant, removing faults
  preserves successes
-/
set_option linter.unusedVariables false
namespace OFCore.Engine

variable {P : Type} [DecidableEq P]

/-- two systems that differ at most in what they do not cache -/
def SameRules (a b : Sys P) : Prop :=
  a.formula = b.formula ∧ a.input = b.input ∧ a.dflt = b.dflt ∧ a.post = b.post ∧
  a.f1 = b.f1 ∧ a.f2 = b.f2 ∧ a.armed = b.armed

mutual
theorem den_sameRules (a b : Sys P) (h : SameRules a b) : ∀ n v p, den a n v p = den b n v p
  | 0, _, _ => by simp [den]
  | n+1, v, p => by
    obtain ⟨h1, h2, h3, h4, h5, h6, h7⟩ := h
    unfold den
    rw [h2, h1, h3, h4]
    split
    · rfl
    · split
      · rfl
      · rw [denE_sameRules a b ⟨h1, h2, h3, h4, h5, h6, h7⟩ n _]
theorem denE_sameRules (a b : Sys P) (h : SameRules a b) : ∀ n e, denE a n e = denE b n e
  | _, .const c => by simp [denE]
  | _, .bad => by simp [denE]
  | n, .ref v p => by simp only [denE]; exact den_sameRules a b h n v p
  | n, .fail id x => by
    simp only [denE]; rw [h.2.2.2.2.2.2, denE_sameRules a b h n x]
  | n, .op1 o x => by
    simp only [denE]; rw [denE_sameRules a b h n x, h.2.2.2.2.1]
  | n, .op2 o x y => by
    simp only [denE]; rw [denE_sameRules a b h n x, denE_sameRules a b h n y, h.2.2.2.2.2.1]
end

/-- `b` has the rules of `a` with fewer armed faults -/
def FewerFaults (a b : Sys P) : Prop :=
  a.formula = b.formula ∧ a.input = b.input ∧ a.dflt = b.dflt ∧ a.post = b.post ∧
  a.f1 = b.f1 ∧ a.f2 = b.f2 ∧ ∀ id, b.armed id = true → a.armed id = true

mutual
theorem den_fewerFaults (a b : Sys P) (h : FewerFaults a b) :
    ∀ n v p x, den a n v p = some (.ok x) → den b n v p = some (.ok x)
  | 0, _, _, _, hd => by simp [den] at hd
  | n+1, v, p, x, hd => by
    obtain ⟨h1, h2, h3, h4, h5, h6, h7⟩ := h
    unfold den at hd ⊢
    rw [← h2, ← h1, ← h3, ← h4]
    split at hd
    · exact hd
    · split at hd
      · exact hd
      · split at hd
        · cases hd
        · cases hd
        · rename_i y hy
          rw [denE_fewerFaults a b ⟨h1, h2, h3, h4, h5, h6, h7⟩ n _ y hy]; exact hd
theorem denE_fewerFaults (a b : Sys P) (h : FewerFaults a b) :
    ∀ n e x, denE a n e = some (.ok x) → denE b n e = some (.ok x)
  | _, .const c, x, hd => by simpa [denE] using hd
  | _, .bad, x, hd => by simp [denE] at hd
  | n, .ref v p, x, hd => by simp only [denE] at hd ⊢; exact den_fewerFaults a b h n v p x hd
  | n, .fail id y, x, hd => by
    simp only [denE] at hd ⊢
    split at hd
    · cases hd
    · rename_i ha
      have : ¬ b.armed id = true := fun hb => ha (h.2.2.2.2.2.2 id hb)
      rw [if_neg this]; exact denE_fewerFaults a b h n y x hd
  | n, .op1 o y, x, hd => by
    simp only [denE] at hd ⊢
    split at hd
    · cases hd
    · cases hd
    · rename_i z hz
      rw [denE_fewerFaults a b h n y z hz, ← h.2.2.2.2.1]; exact hd
  | n, .op2 o y z, x, hd => by
    simp only [denE] at hd ⊢
    split at hd
    · cases hd
    · cases hd
    · rename_i u hu
      rw [denE_fewerFaults a b h n y u hu]
      simp only
      split at hd
      · cases hd
      · cases hd
      · rename_i w hw
        rw [denE_fewerFaults a b h n z w hw, ← h.2.2.2.2.2.1]; exact hd
end

theorem cons_fewerFaults (a b : Sys P) (h : FewerFaults a b) (hck : a.ckey = b.ckey) (c : Cache P)
    (hc : Cons a c) : Cons b c := by
  intro v p x g hk
  have hs : b.slot (v, p) = a.slot (v, p) := by simp [Sys.slot, hck]
  rw [hs] at hk
  obtain ⟨hg, n, hn⟩ := hc v p x g hk
  exact ⟨hg, n, den_fewerFaults a b h n _ _ x hn⟩

theorem gclean_requests (sys : Sys P) (hk : SlotCoherent sys) (n : Nat) : ∀ (ks : List (Node P)) (s : St P) (rs : List Res) (s' : St P),
    GClean sys s.cache → requests sys n s ks = some (rs, s') → GClean sys s'.cache := by
  intro ks
  induction ks with
  | nil => intro s rs s' hc h; simp only [requests, Option.some.injEq, Prod.mk.injEq] at h; rw [← h.2]; exact hc
  | cons k ks ih =>
    intro s rs s' hc h
    simp only [requests] at h
    cases hr : request sys n s k with
    | none => rw [hr] at h; cases h
    | some res =>
      obtain ⟨r, g, s1⟩ := res
      rw [hr] at h
      simp only at h
      cases hrs : requests sys n s1 ks with
      | none => rw [hrs] at h; cases h
      | some res2 =>
        obtain ⟨rs2, s2⟩ := res2
        rw [hrs] at h
        simp only [Option.some.injEq, Prod.mk.injEq] at h
        rw [← h.2]
        refine ih s1 rs2 s2 ?_ hrs
        -- one request keeps the cache ghost-clean
        unfold request at hr
        cases hrun : run sys n s k.1 k.2 with
        | none => rw [hrun] at hr; cases hr
        | some res3 =>
          obtain ⟨r3, g3, s3⟩ := res3
          rw [hrun] at hr
          simp only [Option.some.injEq, Prod.mk.injEq] at hr
          have hcl := (run_clean sys hk n s k.1 k.2 r3 g3 s3 hc hrun).1
          rw [← hr.2.2]
          split
          · intro v p x hj
            rw [(purge_spec sys s3 (sys.slot (v, p))).2.2] at hj
            split at hj
            · cases hj
            · exact hcl v p x hj
          · exact hcl

end OFCore.Engine
