import OFCore.Lemmas.EngineStore
/-!
# How the meaning depends on the system: caching options are irrelevant, removing faults
  preserves successes
-/
set_option linter.unusedVariables false
namespace OFCore.Engine

variable {P : Type} [DecidableEq P]

/-- two systems that differ at most in what they do not cache -/
def SameRules (a b : Sys P) : Prop :=
  a.formula = b.formula ∧ a.input = b.input ∧ a.dflt = b.dflt ∧ a.post = b.post ∧
  a.f1 = b.f1 ∧ a.f2 = b.f2 ∧ a.armed = b.armed

mutual
theorem den_sameRules (a b : Sys P) (h : SameRules a b) : ∀ n v p, den a n v p = den b n v p
  | 0, _, _ => by simp [den]
  | n+1, v, p => by
    obtain ⟨h1, h2, h3, h4, h5, h6, h7⟩ := h
    unfold den
    rw [h2, h1, h3, h4]
    split
    · rfl
    · split
      · rfl
      · rw [denE_sameRules a b ⟨h1, h2, h3, h4, h5, h6, h7⟩ n _]
theorem denE_sameRules (a b : Sys P) (h : SameRules a b) : ∀ n e, denE a n e = denE b n e
  | _, .const c => by simp [denE]
  | _, .bad => by simp [denE]
  | n, .ref v p => by simp only [denE]; exact den_sameRules a b h n v p
  | n, .fail id x => by
    simp only [denE]; rw [h.2.2.2.2.2.2, denE_sameRules a b h n x]
  | n, .op1 o x => by
    simp only [denE]; rw [denE_sameRules a b h n x, h.2.2.2.2.1]
  | n, .op2 o x y => by
    simp only [denE]; rw [denE_sameRules a b h n x, denE_sameRules a b h n y, h.2.2.2.2.2.1]
end

/-- `b` has the rules of `a` with fewer armed faults -/
def FewerFaults (a b : Sys P) : Prop :=
  a.formula = b.formula ∧ a.input = b.input ∧ a.dflt = b.dflt ∧ a.post = b.post ∧
  a.f1 = b.f1 ∧ a.f2 = b.f2 ∧ ∀ id, b.armed id = true → a.armed id = true

mutual
theorem den_fewerFaults (a b : Sys P) (h : FewerFaults a b) :
    ∀ n v p x, den a n v p = some (.ok x) → den b n v p = some (.ok x)
  | 0, _, _, _, hd => by simp [den] at hd
  | n+1, v, p, x, hd => by
    obtain ⟨h1, h2, h3, h4, h5, h6, h7⟩ := h
    unfold den at hd ⊢
    rw [← h2, ← h1, ← h3, ← h4]
    split at hd
    · exact hd
    · split at hd
      · exact hd
      · split at hd
        · cases hd
        · cases hd
        · rename_i y hy
          rw [denE_fewerFaults a b ⟨h1, h2, h3, h4, h5, h6, h7⟩ n _ y hy]; exact hd
theorem denE_fewerFaults (a b : Sys P) (h : FewerFaults a b) :
    ∀ n e x, denE a n e = some (.ok x) → denE b n e = some (.ok x)
  | _, .const c, x, hd => by simpa [denE] using hd
  | _, .bad, x, hd => by simp [denE] at hd
  | n, .ref v p, x, hd => by simp only [denE] at hd ⊢; exact den_fewerFaults a b h n v p x hd
  | n, .fail id y, x, hd => by
    simp only [denE] at hd ⊢
    split at hd
    · cases hd
    · rename_i ha
      have : ¬ b.armed id = true := fun hb => ha (h.2.2.2.2.2.2 id hb)
      rw [if_neg this]; exact denE_fewerFaults a b h n y x hd
  | n, .op1 o y, x, hd => by
    simp only [denE] at hd ⊢
    split at hd
    · cases hd
    · cases hd
    · rename_i z hz
      rw [denE_fewerFaults a b h n y z hz, ← h.2.2.2.2.1]; exact hd
  | n, .op2 o y z, x, hd => by
    simp only [denE] at hd ⊢
    split at hd
    · cases hd
    · cases hd
    · rename_i u hu
      rw [denE_fewerFaults a b h n y u hu]
      simp only
      split at hd
      · cases hd
      · cases hd
      · rename_i w hw
        rw [denE_fewerFaults a b h n z w hw, ← h.2.2.2.2.2.1]; exact hd
end

theorem cons_fewerFaults (a b : Sys P) (h : FewerFaults a b) (hck : a.ckey = b.ckey) (c : Cache P)
    (hc : Cons a c) : Cons b c := by
  intro v p x g hk
  have hs : b.slot (v, p) = a.slot (v, p) := by simp [Sys.slot, hck]
  rw [hs] at hk
  obtain ⟨hg, n, hn⟩ := hc v p x g hk
  exact ⟨hg, n, den_fewerFaults a b h n _ _ x hn⟩

theorem gclean_requests (sys : Sys P) (hk : SlotCoherent sys) (n : Nat) : ∀ (ks : List (Node P)) (s : St P) (rs : List Res) (s' : St P),
    GClean sys s.cache → requests sys n s ks = some (rs, s') → GClean sys s'.cache := by
  intro ks
  induction ks with
  | nil => intro s rs s' hc h; simp only [requests, Option.some.injEq, Prod.mk.injEq] at h; rw [← h.2]; exact hc
  | cons k ks ih =>
    intro s rs s' hc h
    simp only [requests] at h
    cases hr : request sys n s k with
    | none => rw [hr] at h; cases h
    | some res =>
      obtain ⟨r, g, s1⟩ := res
      rw [hr] at h
      simp only at h
      cases hrs : requests sys n s1 ks with
      | none => rw [hrs] at h; cases h
      | some res2 =>
        obtain ⟨rs2, s2⟩ := res2
        rw [hrs] at h
        simp only [Option.some.injEq, Prod.mk.injEq] at h
        rw [← h.2]
        refine ih s1 rs2 s2 ?_ hrs
        -- one request keeps the cache ghost-clean
        unfold request at hr
        cases hrun : run sys n s k.1 k.2 with
        | none => rw [hrun] at hr; cases hr
        | some res3 =>
          obtain ⟨r3, g3, s3⟩ := res3
          rw [hrun] at hr
          simp only [Option.some.injEq, Prod.mk.injEq] at hr
          have hcl := (run_clean sys hk n s k.1 k.2 r3 g3 s3 hc hrun).1
          rw [← hr.2.2]
          split
          · intro v p x hj
            rw [(purge_spec sys s3 (sys.slot (v, p))).2.2] at hj
            split at hj
            · cases hj
            · exact hcl v p x hj
          · exact hcl


/-! ## requests under faults, against the fault-free system

`a` is the system as it is while some faults are armed, `z` the same rules with fewer (no) faults.
Along any history the cache holds meanings of `z` (`Cons z`): values completed before a fault was
armed stay, and are served.  Under `a`, from such a state:

* soundness (`run_faulty_sound`): whatever a request returns as a VALUE is the meaning under `z`,
  nothing is tainted or marked, and the cache still holds only meanings of `z` — whatever failed;
* completeness (`run_faulty_complete`): a request whose meaning under `a` is a value returns it.
-/

theorem slot_of_ckey (a z : Sys P) (hck : a.ckey = z.ckey) (k : Node P) : a.slot k = z.slot k := by
  simp [Sys.slot, hck]

theorem cons_store_other (a z : Sys P) (hck : a.ckey = z.ckey) (hk : SlotCoherent z) {c : Cache P} {v p x n}
    (hc : Cons z c) (h : den z n v p = some (.ok x)) : Cons z (store a c (a.slot (v, p)) x false) := by
  unfold store; split
  · exact hc
  · rw [slot_of_ckey a z hck]; exact cons_insert z hk hc h

mutual
theorem run_faulty_sound (a z : Sys P) (hab : FewerFaults a z) (hck : a.ckey = z.ckey) (hk : SlotCoherent z)
    (rk : Nat → Nat) (hr : VarRanked z rk) (hmsl : 1 ≤ a.msl) :
    ∀ n s v p r g s', Cons z s.cache → Above rk s.stack v → s.inval = [] → run a n s v p = some (r, g, s') →
      g = false ∧ Cons z s'.cache ∧ s'.inval = [] ∧ ∀ x, r = .ok x → ∃ m, den z m v p = some (.ok x)
  | 0, _, _, _, _, _, _, _, _, _, h => by simp [run] at h
  | n+1, s, v, p, r, g, s', hc, ha, hi, h => by
    have hfil := above_filter_nil ha
    obtain ⟨e1, e2, e3, e4, e5, e6, e7⟩ := hab
    unfold run at h
    split at h
    · rename_i y gy hy
      rw [slot_of_ckey a z hck] at hy
      obtain ⟨hg, m, hm⟩ := hc v p y gy hy
      simp only [Option.some.injEq, Prod.mk.injEq] at h
      obtain ⟨rfl, rfl, rfl⟩ := h
      refine ⟨hg, ?_, ?_, ?_⟩
      · split <;> exact hc
      · split
        · rename_i hmem; rw [hi] at hmem; simp at hmem
        · exact hi
      · intro x hx; cases hx; exact ⟨m, hm⟩
    · split at h
      · rename_i y hin
        simp only [Option.some.injEq, Prod.mk.injEq] at h
        obtain ⟨rfl, rfl, rfl⟩ := h
        refine ⟨rfl, hc, hi, fun x hx => ?_⟩
        cases hx
        exact ⟨1, by simp [den, ← e2, hin]⟩
      · rename_i hin
        split at h
        · simp only [Option.some.injEq, Prod.mk.injEq] at h
          obtain ⟨rfl, rfl, rfl⟩ := h
          exact ⟨rfl, hc, hi, fun x hx => by cases hx⟩
        · rw [hfil] at h
          rw [if_neg (by simp only [List.length_nil]; omega)] at h
          split at h
          · rename_i hf
            simp only [Option.some.injEq, Prod.mk.injEq] at h
            obtain ⟨rfl, rfl, rfl⟩ := h
            have key : den z 1 v p = some (.ok (a.post v (a.dflt v))) := by
              simp [den, ← e2, hin, ← e1, hf, e3, e4]
            exact ⟨rfl, cons_store_other a z hck hk hc key, hi, fun x hx => by cases hx; exact ⟨1, key⟩⟩
          · rename_i e hf
            have hfz : z.formula v p = some e := by rw [← e1]; exact hf
            have habv : ∀ k ∈ refs e, Above rk ((v, p) :: s.stack) k.1 := fun k hk' j hj => by
              rcases List.mem_cons.mp hj with rfl | hj
              · exact hr v p e hfz k hk'
              · exact Nat.lt_trans (hr v p e hfz k hk') (ha j hj)
            split at h
            · cases h
            · rename_i er g1 s1 hre
              obtain ⟨hg1, hc1, hi1, _⟩ := runE_faulty_sound a z ⟨e1, e2, e3, e4, e5, e6, e7⟩ hck hk rk hr hmsl n
                { s with stack := (v, p) :: s.stack } e _ _ _ hc habv hi hre
              simp only [Option.some.injEq, Prod.mk.injEq] at h
              obtain ⟨rfl, rfl, rfl⟩ := h
              exact ⟨hg1, hc1, hi1, fun x hx => by cases hx⟩
            · rename_i y g1 s1 hre
              obtain ⟨hg1, hc1, hi1, hv1⟩ := runE_faulty_sound a z ⟨e1, e2, e3, e4, e5, e6, e7⟩ hck hk rk hr hmsl n
                { s with stack := (v, p) :: s.stack } e _ _ _ hc habv hi hre
              simp only [Option.some.injEq, Prod.mk.injEq] at h
              obtain ⟨rfl, rfl, rfl⟩ := h
              obtain ⟨m, hm⟩ := hv1 y rfl
              have key : den z (m+1) v p = some (.ok (a.post v y)) := by
                simp [den, ← e2, hin, hfz, hm, e4]
              subst hg1
              exact ⟨rfl, cons_store_other a z hck hk hc1 key, hi1, fun x hx => by cases hx; exact ⟨m+1, key⟩⟩
theorem runE_faulty_sound (a z : Sys P) (hab : FewerFaults a z) (hck : a.ckey = z.ckey) (hk : SlotCoherent z)
    (rk : Nat → Nat) (hr : VarRanked z rk) (hmsl : 1 ≤ a.msl) :
    ∀ n s e r g s', Cons z s.cache → (∀ k ∈ refs e, Above rk s.stack k.1) → s.inval = [] →
      runE a n s e = some (r, g, s') →
      g = false ∧ Cons z s'.cache ∧ s'.inval = [] ∧ ∀ x, r = .ok x → ∃ m, denE z m e = some (.ok x)
  | _, s, .const k, r, g, s', hc, _, hi, h => by
    simp only [runE, Option.some.injEq, Prod.mk.injEq] at h
    obtain ⟨rfl, rfl, rfl⟩ := h
    exact ⟨rfl, hc, hi, fun x hx => by cases hx; exact ⟨0, by simp [denE]⟩⟩
  | _, s, .bad, r, g, s', hc, _, hi, h => by
    simp only [runE, Option.some.injEq, Prod.mk.injEq] at h
    obtain ⟨rfl, rfl, rfl⟩ := h
    exact ⟨rfl, hc, hi, fun x hx => by cases hx⟩
  | n, s, .ref v p, r, g, s', hc, ha, hi, h => by
    simp only [runE] at h
    obtain ⟨h1, h2, h3, h4⟩ := run_faulty_sound a z hab hck hk rk hr hmsl n s v p r g s' hc (ha (v, p) (by simp [refs])) hi h
    exact ⟨h1, h2, h3, fun x hx => by obtain ⟨m, hm⟩ := h4 x hx; exact ⟨m, by simp [denE, hm]⟩⟩
  | n, s, .fail id b, r, g, s', hc, ha, hi, h => by
    simp only [runE] at h
    split at h
    · simp only [Option.some.injEq, Prod.mk.injEq] at h
      obtain ⟨rfl, rfl, rfl⟩ := h
      exact ⟨rfl, hc, hi, fun x hx => by cases hx⟩
    · rename_i harm
      obtain ⟨h1, h2, h3, h4⟩ := runE_faulty_sound a z hab hck hk rk hr hmsl n s b r g s' hc
        (fun k hk' => ha k (by simpa [refs] using hk')) hi h
      refine ⟨h1, h2, h3, fun x hx => ?_⟩
      obtain ⟨m, hm⟩ := h4 x hx
      have hz : ¬ z.armed id = true := fun hb => harm (hab.2.2.2.2.2.2 id hb)
      exact ⟨m, by simp [denE, hz, hm]⟩
  | n, s, .op1 o b, r, g, s', hc, ha, hi, h => by
    simp only [runE] at h
    have hab' : ∀ k ∈ refs b, Above rk s.stack k.1 := fun k hk' => ha k (by simpa [refs] using hk')
    split at h
    · cases h
    · rename_i er g1 s1 hb
      obtain ⟨h1, h2, h3, _⟩ := runE_faulty_sound a z hab hck hk rk hr hmsl n s b _ _ _ hc hab' hi hb
      simp only [Option.some.injEq, Prod.mk.injEq] at h
      obtain ⟨rfl, rfl, rfl⟩ := h
      exact ⟨h1, h2, h3, fun x hx => by cases hx⟩
    · rename_i y g1 s1 hb
      obtain ⟨h1, h2, h3, h4⟩ := runE_faulty_sound a z hab hck hk rk hr hmsl n s b _ _ _ hc hab' hi hb
      simp only [Option.some.injEq, Prod.mk.injEq] at h
      obtain ⟨rfl, rfl, rfl⟩ := h
      refine ⟨h1, h2, h3, fun x hx => ?_⟩
      cases hx
      obtain ⟨m, hm⟩ := h4 y rfl
      exact ⟨m, by simp [denE, hm, hab.2.2.2.2.1]⟩
  | n, s, .op2 o b c, r, g, s', hc, ha, hi, h => by
    simp only [runE] at h
    have hab1 : ∀ k ∈ refs b, Above rk s.stack k.1 := fun k hk' => ha k (by simp [refs, hk'])
    have hab2 : ∀ k ∈ refs c, Above rk s.stack k.1 := fun k hk' => ha k (by simp [refs, hk'])
    split at h
    · cases h
    · rename_i er g1 s1 hb
      obtain ⟨h1, h2, h3, _⟩ := runE_faulty_sound a z hab hck hk rk hr hmsl n s b _ _ _ hc hab1 hi hb
      simp only [Option.some.injEq, Prod.mk.injEq] at h
      obtain ⟨rfl, rfl, rfl⟩ := h
      exact ⟨h1, h2, h3, fun x hx => by cases hx⟩
    · rename_i y g1 s1 hb
      obtain ⟨h1, h2, h3, h4⟩ := runE_faulty_sound a z hab hck hk rk hr hmsl n s b _ _ _ hc hab1 hi hb
      have hst1 := runE_stack a n s b _ _ _ hb
      split at h
      · cases h
      · rename_i er g2 s2 hcc
        obtain ⟨k1, k2, k3, _⟩ := runE_faulty_sound a z hab hck hk rk hr hmsl n s1 c _ _ _ h2 (by rw [hst1]; exact hab2) h3 hcc
        simp only [Option.some.injEq, Prod.mk.injEq] at h
        obtain ⟨rfl, rfl, rfl⟩ := h
        exact ⟨by simp [h1, k1], k2, k3, fun x hx => by cases hx⟩
      · rename_i w g2 s2 hcc
        obtain ⟨k1, k2, k3, k4⟩ := runE_faulty_sound a z hab hck hk rk hr hmsl n s1 c _ _ _ h2 (by rw [hst1]; exact hab2) h3 hcc
        simp only [Option.some.injEq, Prod.mk.injEq] at h
        obtain ⟨rfl, rfl, rfl⟩ := h
        refine ⟨by simp [h1, k1], k2, k3, fun x hx => ?_⟩
        cases hx
        obtain ⟨ma, hma⟩ := h4 y rfl
        obtain ⟨mb, hmb⟩ := k4 w rfl
        refine ⟨max ma mb, ?_⟩
        simp only [denE]
        rw [denE_mono_le z hma (Nat.le_max_left _ _), denE_mono_le z hmb (Nat.le_max_right _ _), hab.2.2.2.2.2.1]
end

mutual
theorem run_faulty_complete (a z : Sys P) (hab : FewerFaults a z) (hck : a.ckey = z.ckey) (hk : SlotCoherent z)
    (rk : Nat → Nat) (hr : VarRanked z rk) (hmsl : 1 ≤ a.msl) :
    ∀ n s v p x, Cons z s.cache → Above rk s.stack v → s.inval = [] → den a n v p = some (.ok x) →
      ∃ s', run a n s v p = some (.ok x, false, s')
  | 0, _, _, _, _, _, _, _, h => by simp [den] at h
  | n+1, s, v, p, x, hc, ha, hi, h => by
    have hnot := above_not_mem ha p
    have hfil := above_filter_nil ha
    unfold run
    split
    · rename_i y gy hy
      rw [slot_of_ckey a z hck] at hy
      obtain ⟨hg, m, hm⟩ := hc v p y gy hy
      have hz := den_fewerFaults a z hab (n+1) v p x h
      have := den_det z hm hz
      cases this; subst hg
      exact ⟨_, rfl⟩
    · unfold den at h
      split at h
      · rename_i y hy
        cases h
        exact ⟨s, rfl⟩
      · rename_i hin
        rw [if_neg hnot, hfil, if_neg (by simp only [List.length_nil]; omega)]
        split at h
        · rename_i hf
          cases h
          exact ⟨_, rfl⟩
        · rename_i e hf
          have hfz : z.formula v p = some e := by rw [← hab.1]; exact hf
          have habv : ∀ k ∈ refs e, Above rk ((v, p) :: s.stack) k.1 := fun k hk' j hj => by
            rcases List.mem_cons.mp hj with rfl | hj
            · exact hr v p e hfz k hk'
            · exact Nat.lt_trans (hr v p e hfz k hk') (ha j hj)
          split at h
          · cases h
          · cases h
          · rename_i y hde
            obtain ⟨s1, hr1⟩ := runE_faulty_complete a z hab hck hk rk hr hmsl n { s with stack := (v, p) :: s.stack } e y hc habv hi hde
            cases h
            simp only [hr1]
            exact ⟨_, rfl⟩
theorem runE_faulty_complete (a z : Sys P) (hab : FewerFaults a z) (hck : a.ckey = z.ckey) (hk : SlotCoherent z)
    (rk : Nat → Nat) (hr : VarRanked z rk) (hmsl : 1 ≤ a.msl) :
    ∀ n s e x, Cons z s.cache → (∀ k ∈ refs e, Above rk s.stack k.1) → s.inval = [] →
      denE a n e = some (.ok x) → ∃ s', runE a n s e = some (.ok x, false, s')
  | _, s, .const k, x, _, _, _, h => by
    simp only [denE] at h; cases h; exact ⟨s, by simp [runE]⟩
  | _, s, .bad, x, _, _, _, h => by simp [denE] at h
  | n, s, .ref v p, x, hc, ha, hi, h => by
    simp only [denE] at h
    simpa [runE] using run_faulty_complete a z hab hck hk rk hr hmsl n s v p x hc (ha (v, p) (by simp [refs])) hi h
  | n, s, .fail id b, x, hc, ha, hi, h => by
    simp only [denE] at h
    split at h
    · cases h
    · rename_i harm
      obtain ⟨s1, h1⟩ := runE_faulty_complete a z hab hck hk rk hr hmsl n s b x hc (fun k hk' => ha k (by simpa [refs] using hk')) hi h
      exact ⟨s1, by simp [runE, harm, h1]⟩
  | n, s, .op1 o b, x, hc, ha, hi, h => by
    simp only [denE] at h
    split at h
    · cases h
    · cases h
    · rename_i y hdb
      obtain ⟨s1, h1⟩ := runE_faulty_complete a z hab hck hk rk hr hmsl n s b y hc (fun k hk' => ha k (by simpa [refs] using hk')) hi hdb
      cases h
      exact ⟨s1, by simp [runE, h1]⟩
  | n, s, .op2 o b c, x, hc, ha, hi, h => by
    simp only [denE] at h
    have hab1 : ∀ k ∈ refs b, Above rk s.stack k.1 := fun k hk' => ha k (by simp [refs, hk'])
    have hab2 : ∀ k ∈ refs c, Above rk s.stack k.1 := fun k hk' => ha k (by simp [refs, hk'])
    split at h
    · cases h
    · cases h
    · rename_i y hdb
      obtain ⟨s1, h1⟩ := runE_faulty_complete a z hab hck hk rk hr hmsl n s b y hc hab1 hi hdb
      obtain ⟨_, hc1, hi1, _⟩ := runE_faulty_sound a z hab hck hk rk hr hmsl n s b _ _ _ hc hab1 hi h1
      have hst1 := runE_stack a n s b _ _ _ h1
      split at h
      · cases h
      · cases h
      · rename_i w hdc
        obtain ⟨s2, h2⟩ := runE_faulty_complete a z hab hck hk rk hr hmsl n s1 c w hc1 (by rw [hst1]; exact hab2) hi1 hdc
        cases h
        exact ⟨s2, by simp [runE, h1, h2]⟩
end

/-- one top-level request under faults, from a state holding fault-free meanings -/
theorem request_faulty (a z : Sys P) (hab : FewerFaults a z) (hck : a.ckey = z.ckey) (hk : SlotCoherent z)
    (rk : Nat → Nat) (hr : VarRanked z rk) (hmsl : 1 ≤ a.msl) (n : Nat) (s : St P) (hc : Cons z s.cache)
    (hs : s.stack = []) (hi : s.inval = []) (k : Node P) (r : Res) (g : Bool) (s' : St P)
    (h : request a n s k = some (r, g, s')) :
    Cons z s'.cache ∧ s'.stack = [] ∧ s'.inval = [] ∧
    (∀ x, r = .ok x → ∃ m, den z m k.1 k.2 = some (.ok x)) ∧
    (∀ x, den a n k.1 k.2 = some (.ok x) → r = .ok x) := by
  have habv : Above rk s.stack k.1 := by rw [hs]; intro j hj; cases hj
  unfold request at h
  cases hrun : run a n s k.1 k.2 with
  | none => rw [hrun] at h; cases h
  | some res =>
    obtain ⟨r1, g1, s1⟩ := res
    rw [hrun] at h
    simp only [Option.some.injEq, Prod.mk.injEq] at h
    obtain ⟨rfl, rfl, rfl⟩ := h
    obtain ⟨_, hc1, hi1, hv1⟩ := run_faulty_sound a z hab hck hk rk hr hmsl n s k.1 k.2 _ _ _ hc habv hi hrun
    have hst := run_stack a n s k.1 k.2 _ _ _ hrun
    rw [hs] at hst
    rw [if_pos hst, purge_of_inval_nil a s1 hi1]
    refine ⟨hc1, hst, hi1, hv1, ?_⟩
    intro x hx
    obtain ⟨s2, h2⟩ := run_faulty_complete a z hab hck hk rk hr hmsl n s k.1 k.2 x hc habv hi hx
    rw [hrun] at h2
    simp only [Option.some.injEq, Prod.mk.injEq] at h2
    exact h2.1

end OFCore.Engine
